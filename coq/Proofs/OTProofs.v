(* OTProofs.v -- lemmas about Model/OT.v (property C13). *)
From Coq Require Import List NArith ZArith Bool Arith Lia Znumtheory ZifyNat ZifyN Setoid Morphisms.
From MPS Require Import Model.Bytes Model.OT Proofs.BytesProofs.
Import ListNotations.

(* lia with division / modulo by constants *)
Ltac Zify.zify_post_hook ::= Z.div_mod_to_equations.
(* [bytes], [byte] are aliases of [list N], [N]; make them syntactically equal before lia *)
Ltac llia := unfold bytes, byte in *; lia.

(* ========================================================================================== *)
(** * A. bytes, bits *)

Lemma wf_byte_lt b : wf_byte b = true <-> (b < 256)%N.
Proof. unfold wf_byte. apply N.ltb_lt. Qed.

Lemma wf_bytes_cons b l : wf_bytes (b :: l) = true <-> (b < 256)%N /\ wf_bytes l = true.
Proof.
  unfold wf_bytes. cbn [forallb]. rewrite andb_true_iff, wf_byte_lt. reflexivity.
Qed.

Lemma wf_bytes_In l : wf_bytes l = true <-> (forall x, In x l -> (x < 256)%N).
Proof.
  unfold wf_bytes. rewrite forallb_forall. split; intros H x Hx.
  - apply wf_byte_lt, H, Hx.
  - apply wf_byte_lt, H, Hx.
Qed.

Lemma wf_nth l i : wf_bytes l = true -> (nth i l 0 < 256)%N.
Proof.
  intro W. destruct (Nat.lt_ge_cases i (length l)) as [L|L].
  - apply (proj1 (wf_bytes_In l) W), nth_In, L.
  - rewrite nth_overflow by exact L. reflexivity.
Qed.

Lemma testbit_cons b A i :
  (b < 256)%N ->
  N.testbit (b + 256 * A) i = if (i <? 8)%N then N.testbit b i else N.testbit A (i - 8).
Proof.
  intro Hb. destruct (N.ltb_spec i 8) as [L|L].
  - rewrite <- (N.mod_pow2_bits_low (b + 256 * A) 8 i L).
    change (2 ^ 8)%N with 256%N. rewrite (N.mul_comm 256 A), N.mod_add by discriminate.
    now rewrite N.mod_small.
  - replace i with ((i - 8) + 8)%N at 1 by lia.
    rewrite <- N.shiftr_spec', N.shiftr_div_pow2. change (2 ^ 8)%N with 256%N.
    rewrite (N.mul_comm 256 A), N.div_add by discriminate.
    now rewrite N.div_small.
Qed.

Lemma testbit_byte_high b i : (b < 256)%N -> (8 <= i)%N -> N.testbit b i = false.
Proof.
  intros Hb Hi. pose proof (testbit_cons b 0 i Hb) as E.
  rewrite N.mul_0_r, N.add_0_r in E. rewrite E.
  destruct (N.ltb_spec i 8); [lia|]. apply N.bits_0.
Qed.

Lemma bit_at_nil i : bit_at i [] = false.
Proof. unfold bit_at. destruct (i / 8)%nat; apply N.bits_0. Qed.

Lemma bit_at_cons_low i b d : (i < 8)%nat -> bit_at i (b :: d) = N.testbit b (N.of_nat i).
Proof.
  intro L. unfold bit_at. rewrite Nat.div_small, Nat.mod_small by exact L. reflexivity.
Qed.

Lemma bit_at_cons_high i b d : bit_at (8 + i) (b :: d) = bit_at i d.
Proof.
  unfold bit_at.
  replace ((8 + i) / 8)%nat with (S (i / 8)) by lia.
  replace ((8 + i) mod 8)%nat with (i mod 8)%nat by lia.
  reflexivity.
Qed.

Lemma bit_at_overflow i d : (8 * length d <= i)%nat -> bit_at i d = false.
Proof.
  intro L. unfold bit_at. rewrite nth_overflow by lia. apply N.bits_0.
Qed.

Lemma bit_at_le_val d : wf_bytes d = true ->
  forall i, bit_at i d = N.testbit (le_val d) (N.of_nat i).
Proof.
  induction d as [|b d IH]; intros W i.
  - rewrite bit_at_nil. symmetry. apply N.bits_0.
  - apply wf_bytes_cons in W as [Hb W]. cbn [le_val]. rewrite testbit_cons by exact Hb.
    destruct (N.ltb_spec (N.of_nat i) 8) as [L|L].
    + apply bit_at_cons_low. lia.
    + replace i with (8 + (i - 8))%nat at 1 by lia. rewrite bit_at_cons_high, IH by exact W.
      f_equal. lia.
Qed.

Lemma testbit_bits_val v : forall k, N.testbit (bits_val v) (N.of_nat k) = nth k v false.
Proof.
  induction v as [|b v IH]; intro k.
  - cbn [bits_val]. rewrite N.bits_0. now destruct k.
  - cbn [bits_val]. rewrite N.add_comm. destruct k as [|k].
    + apply N.testbit_0_r.
    + rewrite Nat2N.inj_succ, N.testbit_succ_r. apply IH.
Qed.

Lemma bits_val_lt v : (bits_val v < 2 ^ N.of_nat (length v))%N.
Proof.
  induction v as [|b v IH].
  - cbn. lia.
  - cbn [bits_val length]. rewrite Nat2N.inj_succ, N.pow_succ_r'.
    destruct b; cbn [N.b2n]; lia.
Qed.

Lemma pow256 k : (256 ^ N.of_nat k = 2 ^ N.of_nat (8 * k))%N.
Proof.
  change 256%N with (2 ^ 8)%N. rewrite <- N.pow_mul_r. f_equal. lia.
Qed.

Lemma le_val_lt d : wf_bytes d = true -> (le_val d < 256 ^ N.of_nat (length d))%N.
Proof.
  induction d as [|b d IH]; intro W.
  - cbn. lia.
  - apply wf_bytes_cons in W as [Hb W]. specialize (IH W).
    cbn [le_val length]. rewrite Nat2N.inj_succ, N.pow_succ_r'. lia.
Qed.

Lemma bit_at_le_bytes k n i : (i < 8 * k)%nat -> bit_at i (le_bytes k n) = N.testbit n (N.of_nat i).
Proof.
  intro L. rewrite bit_at_le_val by apply le_bytes_wf.
  rewrite le_val_le_bytes, pow256. apply N.mod_pow2_bits_low. lia.
Qed.

Lemma bytes_of_bits_length v : length (bytes_of_bits v) = ((length v + 7) / 8)%nat.
Proof. apply le_bytes_length. Qed.

Lemma bytes_of_bits_wf v : wf_bytes (bytes_of_bits v) = true.
Proof. apply le_bytes_wf. Qed.

Lemma bit_at_bytes_of_bits v j : bit_at j (bytes_of_bits v) = nth j v false.
Proof.
  unfold bytes_of_bits. rewrite bit_at_le_val by apply le_bytes_wf.
  rewrite le_val_le_bytes, N.mod_small.
  - apply testbit_bits_val.
  - eapply N.lt_le_trans; [apply bits_val_lt|]. rewrite pow256.
    apply N.pow_le_mono_r; [discriminate|]. lia.
Qed.

Lemma bytes_ext a : forall b,
  length a = length b -> wf_bytes a = true -> wf_bytes b = true ->
  (forall i, (i < 8 * length a)%nat -> bit_at i a = bit_at i b) -> a = b.
Proof.
  induction a as [|x a IH]; intros [|y b] L Wa Wb E; try discriminate; [reflexivity|].
  apply wf_bytes_cons in Wa as [Hx Wa]. apply wf_bytes_cons in Wb as [Hy Wb].
  f_equal.
  - apply N.bits_inj. intro n. destruct (N.lt_ge_cases n 8) as [Ln|Ln].
    + specialize (E (N.to_nat n)). rewrite !bit_at_cons_low, N2Nat.id in E by lia.
      apply E. cbn [length]. lia.
    + now rewrite !testbit_byte_high.
  - apply IH; [now injection L | exact Wa | exact Wb |].
    intros i Li. specialize (E (8 + i)%nat). rewrite !bit_at_cons_high in E.
    apply E. cbn [length]. lia.
Qed.

Lemma bits_of_bytes_length d : length (bits_of_bytes d) = (8 * length d)%nat.
Proof. unfold bits_of_bytes. now rewrite map_length, seq_length. Qed.

Lemma nth_map_seq {A} (f : nat -> A) s n j d : (j < n)%nat -> nth j (map f (seq s n)) d = f (s + j)%nat.
Proof.
  intro L. rewrite (nth_indep _ d (f 0%nat)) by now rewrite map_length, seq_length.
  rewrite map_nth. f_equal. now apply seq_nth.
Qed.

Lemma nth_bits_of_bytes d j : nth j (bits_of_bytes d) false = bit_at j d.
Proof.
  destruct (Nat.lt_ge_cases j (8 * length d)) as [L|L].
  - unfold bits_of_bytes. now rewrite nth_map_seq.
  - rewrite nth_overflow by now rewrite bits_of_bytes_length.
    symmetry. now apply bit_at_overflow.
Qed.

Lemma bits_val_bits_of_bytes d : wf_bytes d = true -> bits_val (bits_of_bytes d) = le_val d.
Proof.
  intro W. apply N.bits_inj. intro n.
  rewrite <- (N2Nat.id n), testbit_bits_val, nth_bits_of_bytes. now apply bit_at_le_val.
Qed.

Lemma bit_at_app_l a b i : (i < 8 * length a)%nat -> bit_at i (a ++ b) = bit_at i a.
Proof.
  intro L. unfold bit_at. rewrite app_nth1 by lia. reflexivity.
Qed.

Lemma bit_at_app_r a b i : bit_at (8 * length a + i) (a ++ b) = bit_at i b.
Proof.
  unfold bit_at.
  replace ((8 * length a + i) / 8)%nat with (length a + i / 8)%nat by lia.
  replace ((8 * length a + i) mod 8)%nat with (i mod 8)%nat by lia.
  rewrite app_nth2_plus. reflexivity.
Qed.

Lemma bits_of_bytes_app a b : bits_of_bytes (a ++ b) = bits_of_bytes a ++ bits_of_bytes b.
Proof.
  apply (nth_ext _ _ false false).
  - now rewrite app_length, !bits_of_bytes_length, app_length, Nat.mul_add_distr_l.
  - intros n _. rewrite nth_bits_of_bytes.
    destruct (Nat.lt_ge_cases n (8 * length a)) as [L|L].
    + rewrite app_nth1 by now rewrite bits_of_bytes_length.
      rewrite nth_bits_of_bytes. now apply bit_at_app_l.
    + rewrite app_nth2 by now rewrite bits_of_bytes_length.
      rewrite bits_of_bytes_length, nth_bits_of_bytes.
      replace n with (8 * length a + (n - 8 * length a))%nat at 1 by lia.
      apply bit_at_app_r.
Qed.

(* ---- xor / masks on byte strings ---- *)

Lemma lxor_lt_pow2 a b n : (a < 2 ^ n -> b < 2 ^ n -> N.lxor a b < 2 ^ n)%N.
Proof.
  intros Ha Hb.
  destruct (N.eq_dec a 0) as [->|Na]; [now rewrite N.lxor_0_l|].
  destruct (N.eq_dec b 0) as [->|Nb]; [now rewrite N.lxor_0_r|].
  destruct (N.eq_dec (N.lxor a b) 0) as [->|Nx]; [lia|].
  apply N.log2_lt_pow2; [lia|].
  apply N.log2_lt_pow2 in Ha; [|lia]. apply N.log2_lt_pow2 in Hb; [|lia].
  pose proof (N.log2_lxor a b). lia.
Qed.

Lemma lxor_byte a b : (a < 256 -> b < 256 -> N.lxor a b < 256)%N.
Proof. apply (lxor_lt_pow2 a b 8). Qed.

Lemma xor_bytes_length a : forall b, length a = length b -> length (xor_bytes a b) = length a.
Proof.
  induction a as [|x a IH]; intros [|y b] L; try discriminate; [reflexivity|].
  cbn [xor_bytes length]. f_equal. apply IH. now injection L.
Qed.

Lemma xor_bytes_wf a : forall b, wf_bytes a = true -> wf_bytes b = true -> wf_bytes (xor_bytes a b) = true.
Proof.
  induction a as [|x a IH]; intros [|y b] Wa Wb; try reflexivity.
  apply wf_bytes_cons in Wa as [Hx Wa]. apply wf_bytes_cons in Wb as [Hy Wb].
  cbn [xor_bytes]. apply wf_bytes_cons. split; [now apply lxor_byte | now apply IH].
Qed.

Lemma nth_xor_bytes a : forall b i, length a = length b ->
  nth i (xor_bytes a b) 0%N = N.lxor (nth i a 0%N) (nth i b 0%N).
Proof.
  induction a as [|x a IH]; intros [|y b] i L; try discriminate.
  - now destruct i.
  - destruct i as [|i]; [reflexivity|]. cbn [xor_bytes nth]. apply IH. now injection L.
Qed.

Lemma bit_at_xor_bytes a b i : length a = length b ->
  bit_at i (xor_bytes a b) = xorb (bit_at i a) (bit_at i b).
Proof.
  intro L. unfold bit_at. rewrite nth_xor_bytes by exact L. apply N.lxor_spec.
Qed.

Lemma le_val_xor_bytes a : forall b, length a = length b -> wf_bytes a = true -> wf_bytes b = true ->
  le_val (xor_bytes a b) = N.lxor (le_val a) (le_val b).
Proof.
  induction a as [|x a IH]; intros [|y b] L Wa Wb; try discriminate; [reflexivity|].
  apply wf_bytes_cons in Wa as [Hx Wa]. apply wf_bytes_cons in Wb as [Hy Wb].
  cbn [xor_bytes le_val]. rewrite IH by (try assumption; now injection L).
  apply N.bits_inj. intro n.
  rewrite N.lxor_spec, !testbit_cons by (try assumption; now apply lxor_byte).
  destruct (n <? 8)%N; now rewrite N.lxor_spec.
Qed.

Lemma xor_bytes_cancel_r a : forall b, length a = length b -> xor_bytes (xor_bytes a b) b = a.
Proof.
  induction a as [|x a IH]; intros [|y b] L; try discriminate; [reflexivity|].
  cbn [xor_bytes]. rewrite IH by now injection L.
  now rewrite N.lxor_assoc, N.lxor_nilpotent, N.lxor_0_r.
Qed.

Lemma xor_bytes_comm a : forall b, xor_bytes a b = xor_bytes b a.
Proof.
  induction a as [|x a IH]; intros [|y b]; try reflexivity.
  cbn [xor_bytes]. now rewrite IH, N.lxor_comm.
Qed.

Lemma xor_bytes_cancel_l a b : length a = length b -> xor_bytes a (xor_bytes a b) = b.
Proof.
  intro L. rewrite (xor_bytes_comm a b), xor_bytes_comm. now apply xor_bytes_cancel_r.
Qed.

Lemma xor_bytes_zeros_r a : xor_bytes a (zeros (length a)) = a.
Proof.
  induction a as [|x a IH]; [reflexivity|].
  cbn [length zeros repeat xor_bytes]. fold (zeros (length a)). now rewrite IH, N.lxor_0_r.
Qed.

Lemma xor_bytes_zeros_l a : xor_bytes (zeros (length a)) a = a.
Proof. rewrite xor_bytes_comm. apply xor_bytes_zeros_r. Qed.

Lemma zeros_length k : length (zeros k) = k.
Proof. apply repeat_length. Qed.

Lemma zeros_wf k : wf_bytes (zeros k) = true.
Proof. apply wf_bytes_In. intros x Hx. apply repeat_spec in Hx. now subst. Qed.

Lemma le_val_zeros k : le_val (zeros k) = 0%N.
Proof. induction k as [|k IH]; [reflexivity|]. cbn [zeros repeat le_val]. fold (zeros k). now rewrite IH. Qed.

Lemma mask_bytes_true x : wf_bytes x = true -> mask_bytes true x = x.
Proof.
  induction x as [|b x IH]; intro W; [reflexivity|].
  apply wf_bytes_cons in W as [Hb W]. unfold mask_bytes in *. cbn [map mask_byte] in *.
  rewrite IH by exact W. f_equal.
  change 255%N with (N.ones 8). rewrite N.land_comm, N.land_ones. now apply N.mod_small.
Qed.

Lemma mask_bytes_false x : mask_bytes false x = zeros (length x).
Proof.
  induction x as [|b x IH]; [reflexivity|].
  unfold mask_bytes in *. cbn [map mask_byte length zeros repeat] in *. now rewrite IH.
Qed.

Lemma mask_bytes_length c x : length (mask_bytes c x) = length x.
Proof. apply map_length. Qed.

Lemma mask_bytes_wf c x : wf_bytes x = true -> wf_bytes (mask_bytes c x) = true.
Proof.
  intro W. destruct c; [now rewrite mask_bytes_true | rewrite mask_bytes_false; apply zeros_wf].
Qed.

Lemma bit_at_zeros i k : bit_at i (zeros k) = false.
Proof.
  rewrite bit_at_le_val by apply zeros_wf. rewrite le_val_zeros. apply N.bits_0.
Qed.

Lemma bit_at_mask_bytes c x i : wf_bytes x = true -> bit_at i (mask_bytes c x) = c && bit_at i x.
Proof.
  intro W. destruct c; [now rewrite mask_bytes_true | rewrite mask_bytes_false; apply bit_at_zeros].
Qed.

Lemma le_val_mask_bytes c x : wf_bytes x = true -> le_val (mask_bytes c x) = mask_if c (le_val x).
Proof.
  intro W. destruct c; [now rewrite mask_bytes_true | rewrite mask_bytes_false; apply le_val_zeros].
Qed.

(* ========================================================================================== *)
(** * B. transposeBits *)

Definition okrow (k : nat) (r : bytes) : Prop := length r = k /\ wf_bytes r = true.

Lemma transpose_bits_length l M : length (transpose_bits l M) = l.
Proof. unfold transpose_bits. now rewrite map_length, seq_length. Qed.

Lemma nth_transpose_bits l M i : (i < l)%nat ->
  nth i (transpose_bits l M) [] = bytes_of_bits (map (bit_at i) M).
Proof. intro L. unfold transpose_bits. now rewrite nth_map_seq. Qed.

Lemma nth_map_bit_at i (M : list bytes) j : nth j (map (bit_at i) M) false = bit_at i (nth j M []).
Proof. rewrite <- (bit_at_nil i). apply map_nth. Qed.

(* bit (i,j) of the transpose = bit (j,i) of the matrix *)
Lemma transpose_bits_spec l M i j : (i < l)%nat ->
  bit_at j (nth i (transpose_bits l M) []) = bit_at i (nth j M []).
Proof.
  intro L. now rewrite nth_transpose_bits, bit_at_bytes_of_bits, nth_map_bit_at.
Qed.

Lemma transpose_bits_rows l M r : In r (transpose_bits l M) -> okrow ((length M + 7) / 8) r.
Proof.
  unfold transpose_bits. rewrite in_map_iff. intros (i & <- & _). split.
  - now rewrite bytes_of_bits_length, map_length.
  - apply bytes_of_bits_wf.
Qed.

Lemma Forall_nth_ok k (M : list bytes) j : Forall (okrow k) M -> (j < length M)%nat -> okrow k (nth j M []).
Proof. intros F L. rewrite Forall_forall in F. apply F, nth_In, L. Qed.

(* transposing twice gives the matrix back: r8*8 entries of c8 bytes each *)
Lemma transpose_bits_involutive M r8 c8 :
  length M = (8 * r8)%nat -> Forall (okrow c8) M ->
  transpose_bits (8 * r8) (transpose_bits (8 * c8) M) = M.
Proof.
  intros LM F. apply (nth_ext _ _ [] []).
  - now rewrite transpose_bits_length.
  - intros i Li. rewrite transpose_bits_length in Li.
    destruct (Forall_nth_ok c8 M i F) as [Lr Wr]; [lia|].
    rewrite nth_transpose_bits by exact Li.
    apply bytes_ext.
    + rewrite bytes_of_bits_length, map_length, transpose_bits_length. transitivity c8; [lia | symmetry; exact Lr].
    + apply bytes_of_bits_wf.
    + exact Wr.
    + intros j Lj. rewrite bytes_of_bits_length, map_length, transpose_bits_length in Lj.
      rewrite bit_at_bytes_of_bits, nth_map_bit_at.
      apply transpose_bits_spec. lia.
Qed.

(* ========================================================================================== *)
(** * C. correlated OT *)

Lemma corre_check_from_map delta ch (fT fQ : nat -> bytes) : forall l j0,
  (forall j, (j0 <= j < j0 + l)%nat -> fQ j = xor_bytes (fT j) (mask_bytes (bit_at j ch) delta)) ->
  corre_check_from j0 delta ch (map fT (seq j0 l)) (map fQ (seq j0 l)) = true.
Proof.
  induction l as [|l IH]; intros j0 E; [reflexivity|].
  cbn [seq map corre_check_from]. apply andb_true_iff. split.
  - apply bytes_eqb_eq, E. lia.
  - apply IH. intros j Lj. apply E. lia.
Qed.

Lemma corre_check_from_nth delta ch : forall Trows Qrows j0,
  corre_check_from j0 delta ch Trows Qrows = true ->
  length Trows = length Qrows /\
  forall t, (t < length Trows)%nat ->
    nth t Qrows [] = xor_bytes (nth t Trows []) (mask_bytes (bit_at (j0 + t) ch) delta).
Proof.
  induction Trows as [|tr Trows IH]; intros [|qr Qrows] j0 C; try discriminate.
  - split; [reflexivity|]. intros t Lt. inversion Lt.
  - cbn [corre_check_from] in C. apply andb_true_iff in C as [C1 C2].
    apply bytes_eqb_eq in C1. destruct (IH _ _ C2) as [L E]. split; [cbn; now rewrite L|].
    intros [|t] Lt.
    + now rewrite Nat.add_0_r.
    + cbn [nth]. rewrite E by (cbn in Lt; lia). do 3 f_equal. lia.
Qed.

Section CorreOT.
  Variables (delta choices : bytes) (T0 T1 : list bytes) (k8 nb : nat).
  Hypothesis Hdelta : okrow k8 delta.
  Hypothesis Hchoices : okrow nb choices.
  Hypothesis HT0len : length T0 = (8 * k8)%nat.
  Hypothesis HT1len : length T1 = (8 * k8)%nat.
  Hypothesis HT0 : Forall (okrow nb) T0.
  Hypothesis HT1 : Forall (okrow nb) T1.

  (* what the sender expands: the pad of random OT i selected by Delta_i *)
  Definition honest_TD : list bytes :=
    map (fun i => rot_select (bit_at i delta) (nth i T0 []) (nth i T1 [])) (seq 0 (length T0)).

  Let U := corre_recv_U T0 T1 choices.
  Let cols := corre_send_cols delta honest_TD U.

  Lemma honest_TD_length : length honest_TD = (8 * k8)%nat.
  Proof. unfold honest_TD. now rewrite map_length, seq_length. Qed.

  Lemma corre_U_nth i : (i < 8 * k8)%nat ->
    nth i U [] = xor_bytes (xor_bytes (nth i T0 []) (nth i T1 [])) choices.
  Proof. intro L. unfold U, corre_recv_U. rewrite nth_map_seq by lia. reflexivity. Qed.

  Lemma corre_U_ok i : (i < 8 * k8)%nat -> okrow nb (nth i U []).
  Proof.
    intro L. rewrite corre_U_nth by exact L.
    destruct (Forall_nth_ok nb T0 i HT0) as [L0 W0]; [lia|].
    destruct (Forall_nth_ok nb T1 i HT1) as [L1 W1]; [lia|].
    destruct Hchoices as [Lc Wc]. split.
    - rewrite !xor_bytes_length; rewrite ?xor_bytes_length; congruence.
    - apply xor_bytes_wf; [apply xor_bytes_wf|]; assumption.
  Qed.

  Lemma corre_U_length : length U = (8 * k8)%nat.
  Proof. unfold U, corre_recv_U. now rewrite map_length, seq_length. Qed.

  Lemma corre_cols_nth i : (i < 8 * k8)%nat ->
    nth i cols [] = xor_bytes (rot_select (bit_at i delta) (nth i T0 []) (nth i T1 []))
                              (mask_bytes (bit_at i delta) (nth i U [])).
  Proof.
    intro L. unfold cols, corre_send_cols. rewrite honest_TD_length, nth_map_seq by exact L.
    unfold honest_TD. rewrite nth_map_seq by lia. reflexivity.
  Qed.

  Lemma corre_cols_ok i : (i < 8 * k8)%nat -> okrow nb (nth i cols []).
  Proof.
    intro L. rewrite corre_cols_nth by exact L.
    destruct (Forall_nth_ok nb T0 i HT0) as [L0 W0]; [lia|].
    destruct (Forall_nth_ok nb T1 i HT1) as [L1 W1]; [lia|].
    destruct (corre_U_ok i L) as [LU WU].
    split.
    - rewrite xor_bytes_length; rewrite ?mask_bytes_length; destruct (bit_at i delta); cbn [rot_select]; congruence.
    - apply xor_bytes_wf; [destruct (bit_at i delta); assumption | now apply mask_bytes_wf].
  Qed.

  (* column i of Q, bit j: T0 bit xor (Delta_i and c_j) *)
  Lemma corre_cols_bit i j : (i < 8 * k8)%nat ->
    bit_at j (nth i cols []) = xorb (bit_at j (nth i T0 [])) (bit_at i delta && bit_at j choices).
  Proof.
    intro L. rewrite corre_cols_nth by exact L.
    destruct (Forall_nth_ok nb T0 i HT0) as [L0 W0]; [lia|].
    destruct (Forall_nth_ok nb T1 i HT1) as [L1 W1]; [lia|].
    destruct (corre_U_ok i L) as [LU WU]. destruct Hchoices as [Lc Wc].
    rewrite bit_at_xor_bytes by (rewrite mask_bytes_length; destruct (bit_at i delta); cbn [rot_select]; congruence).
    rewrite bit_at_mask_bytes by exact WU.
    rewrite corre_U_nth by exact L.
    rewrite !bit_at_xor_bytes by (rewrite ?xor_bytes_length; congruence).
    destruct (bit_at i delta); cbn [rot_select andb];
      destruct (bit_at j (nth i T0 [])), (bit_at j (nth i T1 [])), (bit_at j choices); reflexivity.
  Qed.

  Lemma corre_cols_length : length cols = (8 * k8)%nat.
  Proof. unfold cols, corre_send_cols. now rewrite map_length, seq_length, honest_TD_length. Qed.

  Lemma corre_row_relation j :
    bytes_of_bits (map (bit_at j) cols)
    = xor_bytes (bytes_of_bits (map (bit_at j) T0)) (mask_bytes (bit_at j choices) delta).
  Proof.
    destruct Hdelta as [Ld Wd].
    assert (LT : length (bytes_of_bits (map (bit_at j) T0)) = k8)
      by (rewrite bytes_of_bits_length, map_length, HT0len; lia).
    apply bytes_ext.
    - rewrite xor_bytes_length; rewrite ?mask_bytes_length; try congruence.
      rewrite bytes_of_bits_length, map_length, corre_cols_length. lia.
    - apply bytes_of_bits_wf.
    - apply xor_bytes_wf; [apply bytes_of_bits_wf | now apply mask_bytes_wf].
    - intros i Li. rewrite bytes_of_bits_length, map_length, corre_cols_length in Li.
      rewrite bit_at_xor_bytes by (rewrite mask_bytes_length; congruence).
      rewrite bit_at_mask_bytes by exact Wd.
      rewrite !bit_at_bytes_of_bits, !nth_map_bit_at.
      rewrite corre_cols_bit by lia.
      now rewrite andb_comm.
  Qed.

  (* the honest exchange: the sender accepts U and Q^j = T^j xor c_j*Delta for every row j *)
  Theorem corre_ot_relation :
    exists Qrows,
      corre_send delta honest_TD U (8 * nb) = ROk Qrows /\
      corre_check delta choices (snd (corre_recv T0 T1 choices)) Qrows = true.
  Proof.
    destruct Hchoices as [Lc Wc].
    exists (transpose_bits (8 * nb) cols). split.
    - unfold corre_send.
      assert (E1 : forallb (fun u => (length u =? 8 * nb / 8)%nat) U = true).
      { apply forallb_forall. intros u Hu. apply Nat.eqb_eq.
        destruct (In_nth _ _ [] Hu) as (i & Li & <-).
        assert (Li' : (i < 8 * k8)%nat) by (rewrite <- corre_U_length; exact Li).
        transitivity nb; [exact (proj1 (corre_U_ok i Li')) | lia]. }
      rewrite E1. cbn [negb]. unfold transpose_bits_opt.
      assert (E2 : forallb (fun m => (8 * nb <=? 8 * length m)%nat) (corre_send_cols delta honest_TD U) = true).
      { apply forallb_forall. intros u Hu. apply Nat.leb_le.
        destruct (In_nth _ _ [] Hu) as (i & Li & <-). fold cols in Li |- *.
        assert (Li' : (i < 8 * k8)%nat) by (rewrite <- corre_cols_length; exact Li).
        apply Nat.mul_le_mono_l, Nat.eq_le_incl. symmetry. exact (proj1 (corre_cols_ok i Li')). }
      rewrite E2. reflexivity.
    - unfold corre_recv, corre_check. cbn [snd]. rewrite Lc. unfold transpose_bits.
      apply corre_check_from_map. intros j _. apply corre_row_relation.
  Qed.

  Corollary corre_ot_relation_rows Qrows :
    corre_send delta honest_TD U (8 * nb) = ROk Qrows ->
    length Qrows = (8 * nb)%nat /\
    forall j, (j < 8 * nb)%nat ->
      nth j Qrows [] = xor_bytes (nth j (snd (corre_recv T0 T1 choices)) [])
                                 (mask_bytes (bit_at j choices) delta).
  Proof.
    intro E. destruct corre_ot_relation as (Q' & E' & C). rewrite E in E'. injection E' as <-.
    apply corre_check_from_nth in C as [L N]. cbn [corre_recv snd] in *.
    rewrite transpose_bits_length in *. destruct Hchoices as [Lc _]. rewrite Lc in *.
    split; [congruence|]. intros j Lj. now apply N.
  Qed.
End CorreOT.

(* ========================================================================================== *)
(** * D. carry-less multiplication *)

Open Scope N_scope.

(* decide identities between xor-combinations of atoms, bit by bit *)
Ltac bits_xor :=
  apply N.bits_inj; intro; rewrite ?N.lxor_spec, ?N.bits_0;
  repeat match goal with |- context [N.testbit ?x ?n] => generalize (N.testbit x n); intro end;
  repeat match goal with b : bool |- _ => destruct b end; reflexivity.

Lemma double_shiftl x : N.double x = N.shiftl x 1.
Proof. now rewrite N.double_spec, N.shiftl_mul_pow2, N.mul_comm. Qed.

Lemma double_lxor a b : N.double (N.lxor a b) = N.lxor (N.double a) (N.double b).
Proof. rewrite !double_shiftl. apply N.shiftl_lxor. Qed.

Lemma succ_double_lxor a : N.succ_double a = N.lxor 1 (N.double a).
Proof. destruct a; reflexivity. Qed.

Lemma clmul_pos_0_r a : clmul_pos a 0 = 0.
Proof. induction a as [a IH|a IH|]; cbn [clmul_pos]; rewrite ?IH; reflexivity. Qed.

Lemma clmul_pos_lxor_r a : forall b c, clmul_pos a (N.lxor b c) = N.lxor (clmul_pos a b) (clmul_pos a c).
Proof.
  induction a as [a IH|a IH|]; intros b c; cbn [clmul_pos]; rewrite ?IH, ?double_lxor; try reflexivity.
  generalize (N.double (clmul_pos a b)) (N.double (clmul_pos a c)). intros x y. bits_xor.
Qed.

Lemma clmul_pos_double_r a : forall b, clmul_pos a (N.double b) = N.double (clmul_pos a b).
Proof.
  induction a as [a IH|a IH|]; intro b; cbn [clmul_pos]; rewrite ?IH, ?double_lxor; reflexivity.
Qed.

Lemma clmul_pos_1_r a : clmul_pos a 1 = N.pos a.
Proof. induction a as [a IH|a IH|]; cbn [clmul_pos]; rewrite ?IH; reflexivity. Qed.

Lemma clmul_0_l b : clmul 0 b = 0.
Proof. reflexivity. Qed.
Lemma clmul_0_r a : clmul a 0 = 0.
Proof. destruct a; [reflexivity|apply clmul_pos_0_r]. Qed.
Lemma clmul_1_l b : clmul 1 b = b.
Proof. reflexivity. Qed.
Lemma clmul_1_r a : clmul a 1 = a.
Proof. destruct a; [reflexivity|apply clmul_pos_1_r]. Qed.

Lemma clmul_lxor_r a b c : clmul a (N.lxor b c) = N.lxor (clmul a b) (clmul a c).
Proof. destruct a; [reflexivity|apply clmul_pos_lxor_r]. Qed.

Lemma clmul_double_r a b : clmul a (N.double b) = N.double (clmul a b).
Proof. destruct a; [reflexivity|apply clmul_pos_double_r]. Qed.

Lemma clmul_double_l a b : clmul (N.double a) b = N.double (clmul a b).
Proof. destruct a; reflexivity. Qed.

Lemma clmul_succ_double_l a b : clmul (N.succ_double a) b = N.lxor b (N.double (clmul a b)).
Proof. destruct a; cbn [N.succ_double clmul clmul_pos N.double]; [now rewrite N.lxor_0_r | reflexivity]. Qed.

Lemma clmul_comm a : forall b, clmul a b = clmul b a.
Proof.
  induction a as [|a IH|a IH] using N.binary_ind; intro b.
  - now rewrite clmul_0_r.
  - now rewrite clmul_double_l, clmul_double_r, IH.
  - rewrite clmul_succ_double_l, succ_double_lxor, clmul_lxor_r, clmul_1_r, clmul_double_r, IH.
    reflexivity.
Qed.

Lemma clmul_lxor_l a b c : clmul (N.lxor a b) c = N.lxor (clmul a c) (clmul b c).
Proof. now rewrite clmul_comm, clmul_lxor_r, !(clmul_comm c). Qed.

Lemma clmul_shiftl_l a b k : clmul (N.shiftl a k) b = N.shiftl (clmul a b) k.
Proof.
  induction k as [|k IH] using N.peano_ind.
  - now rewrite !N.shiftl_0_r.
  - rewrite !N.shiftl_succ_r, clmul_double_l, IH. reflexivity.
Qed.

Lemma clmul_mask_if_l c a b : clmul (mask_if c a) b = mask_if c (clmul a b).
Proof. destruct c; reflexivity. Qed.
Lemma clmul_mask_if_r c a b : clmul a (mask_if c b) = mask_if c (clmul a b).
Proof. destruct c; [reflexivity|apply clmul_0_r]. Qed.

Lemma clmul_pow2_l i b : clmul (2 ^ i) b = N.shiftl b i.
Proof. rewrite <- (N.mul_1_l (2 ^ i)), <- N.shiftl_mul_pow2, clmul_shiftl_l. reflexivity. Qed.

(* GF(2)[x] has no zero divisors *)
Lemma double_nonzero x : x <> 0 -> N.double x <> 0.
Proof. destruct x; [congruence|discriminate]. Qed.

Lemma clmul_nonzero a b : a <> 0 -> b <> 0 -> clmul a b <> 0.
Proof.
  intros Ha. revert a Ha. induction b as [|b IH|b IH] using N.binary_ind; intros a Ha Hb.
  - congruence.
  - rewrite clmul_double_r. apply double_nonzero, IH; [exact Ha|]. intros ->. now apply Hb.
  - rewrite succ_double_lxor, clmul_lxor_r, clmul_1_r, clmul_double_r.
    (* parity: a xor 2*(..) ; if a is odd the result is odd, otherwise peel a factor 2 off a *)
    clear Hb. revert Ha. induction a as [|a IHa|a IHa] using N.binary_ind; intro Ha.
    + congruence.
    + rewrite clmul_double_l, <- !double_lxor.
      apply double_nonzero, IHa. intros ->. now apply Ha.
    + intro E. apply (f_equal (fun x => N.testbit x 0)) in E.
      rewrite N.lxor_spec, N.bits_0 in E.
      rewrite (N.double_spec (clmul _ _)), N.testbit_even_0 in E.
      rewrite N.succ_double_spec, N.testbit_odd_0 in E. discriminate.
Qed.

(* ---- the as-written loop computes clmul ---- *)

Lemma shiftl_lt_pow2 x m k : x < 2 ^ m -> N.shiftl x k < 2 ^ (m + k).
Proof.
  intro H. rewrite N.shiftl_mul_pow2, N.pow_add_r.
  apply N.mul_lt_mono_pos_r; [|exact H]. apply N.neq_0_lt_0, N.pow_nonzero. discriminate.
Qed.

Lemma lt_pow2_mono x m n : m <= n -> x < 2 ^ m -> x < 2 ^ n.
Proof. intros L H. eapply N.lt_le_trans; [exact H|]. apply N.pow_le_mono_r; [discriminate|exact L]. Qed.

Lemma shiftl_mask_if c x k : N.shiftl (mask_if c x) k = mask_if c (N.shiftl x k).
Proof. destruct c; [reflexivity|apply N.shiftl_0_l]. Qed.

Lemma mask_if_lt c x n : x < 2 ^ n -> mask_if c x < 2 ^ n.
Proof. destruct c; [trivial|]. intros _. apply N.neq_0_lt_0, N.pow_nonzero. discriminate. Qed.

Lemma mod_pow2_succ x i :
  x mod 2 ^ N.succ i = N.lxor (x mod 2 ^ i) (mask_if (N.testbit x i) (2 ^ i)).
Proof.
  apply N.bits_inj. intro m. rewrite N.lxor_spec.
  destruct (N.lt_trichotomy m i) as [L|[->|L]].
  - rewrite !N.mod_pow2_bits_low by lia.
    destruct (N.testbit x i); cbn [mask_if]; rewrite ?N.bits_0, ?N.pow2_bits_false by lia;
      now rewrite xorb_false_r.
  - rewrite N.mod_pow2_bits_low, N.mod_pow2_bits_high by lia.
    destruct (N.testbit x i); cbn [mask_if]; rewrite ?N.bits_0, ?N.pow2_bits_true; reflexivity.
  - rewrite !N.mod_pow2_bits_high by lia.
    destruct (N.testbit x i); cbn [mask_if]; rewrite ?N.bits_0, ?N.pow2_bits_false by lia; reflexivity.
Qed.

Lemma clmul_mod_pow2_succ x i b :
  clmul (x mod 2 ^ N.succ i) b
  = N.lxor (clmul (x mod 2 ^ i) b) (mask_if (N.testbit x i) (N.shiftl b i)).
Proof. now rewrite mod_pow2_succ, clmul_lxor_l, clmul_mask_if_l, clmul_pow2_l. Qed.

Lemma shl1_256_small s : s < 2 ^ 255 -> shl1_256 s = N.shiftl s 1.
Proof.
  intro H. unfold shl1_256. rewrite N.land_ones. apply N.mod_small.
  change 256 with (255 + 1). now apply shiftl_lt_pow2.
Qed.

Lemma clmul_loop_spec a b : b < 2 ^ 128 ->
  forall n s, (1 <= n <= 64)%nat -> s < 2 ^ (256 - N.of_nat n) ->
  clmul_loop n a b s
  = N.lxor (N.shiftl s (N.of_nat n - 1))
      (N.lxor (clmul (a mod 2 ^ N.of_nat n) b)
              (N.shiftl (clmul (N.shiftr a 64 mod 2 ^ N.of_nat n) b) 64)).
Proof.
  intros Hb. induction n as [|i IH]; intros s Hn Hs; [lia|].
  cbn [clmul_loop].
  set (c0 := N.testbit a (N.of_nat i)).
  set (c1 := N.testbit a (64 + N.of_nat i)).
  assert (Ec1 : c1 = N.testbit (N.shiftr a 64) (N.of_nat i))
    by (unfold c1; rewrite N.shiftr_spec', N.add_comm; reflexivity).
  rewrite Nat2N.inj_succ, !clmul_mod_pow2_succ. fold c0. rewrite <- Ec1.
  rewrite N.shiftl_lxor, shiftl_mask_if.
  replace (N.succ (N.of_nat i) - 1) with (N.of_nat i) by lia.
  destruct i as [|i'].
  - (* last iteration: no shift *)
    cbn [clmul_loop]. change (N.of_nat 0) with 0.
    rewrite !N.shiftl_0_r. change (2 ^ 0) with 1. rewrite !N.mod_1_r, clmul_0_l, N.shiftl_0_l.
    generalize (mask_if c0 b) (mask_if c1 (N.shiftl b 64)). intros x y. bits_xor.
  - set (i := S i') in *.
    set (s1 := N.lxor (N.lxor s (mask_if c0 b)) (mask_if c1 (N.shiftl b 64))).
    assert (Hs1 : s1 < 2 ^ (255 - N.of_nat i)).
    { replace (256 - N.of_nat (S i)) with (255 - N.of_nat i) in Hs by lia.
      unfold s1. apply lxor_lt_pow2; [apply lxor_lt_pow2|].
      - exact Hs.
      - apply mask_if_lt. apply (lt_pow2_mono b 128); [lia|exact Hb].
      - apply mask_if_lt. apply (lt_pow2_mono _ (128 + 64)); [lia|]. now apply shiftl_lt_pow2. }
    rewrite shl1_256_small by (apply (lt_pow2_mono s1 (255 - N.of_nat i)); [lia|exact Hs1]).
    rewrite IH.
    + rewrite N.shiftl_shiftl. replace (1 + (N.of_nat i - 1)) with (N.of_nat i) by lia.
      unfold s1. rewrite !N.shiftl_lxor, !shiftl_mask_if, !N.shiftl_shiftl.
      rewrite (N.add_comm 64 (N.of_nat i)).
      generalize (N.shiftl s (N.of_nat i)) (mask_if c0 (N.shiftl b (N.of_nat i)))
                 (mask_if c1 (N.shiftl b (N.of_nat i + 64)))
                 (clmul (a mod 2 ^ N.of_nat i) b)
                 (N.shiftl (clmul (N.shiftr a 64 mod 2 ^ N.of_nat i) b) 64).
      intros x1 x2 x3 x4 x5. bits_xor.
    + lia.
    + replace (256 - N.of_nat i) with ((255 - N.of_nat i) + 1) by lia. now apply shiftl_lt_pow2.
Qed.

Lemma split_64 a : a < 2 ^ 128 -> a = N.lxor (a mod 2 ^ 64) (N.shiftl (N.shiftr a 64) 64).
Proof.
  intros _. apply N.bits_inj. intro m. rewrite N.lxor_spec.
  destruct (N.lt_ge_cases m 64) as [L|L].
  - rewrite N.mod_pow2_bits_low, N.shiftl_spec_low by exact L. now rewrite xorb_false_r.
  - rewrite N.mod_pow2_bits_high, N.shiftl_spec_high' by exact L.
    rewrite N.shiftr_spec'. replace (m - 64 + 64) with m by lia. now destruct (N.testbit a m).
Qed.

(* fieldElement.accumulate computes f xor (a * b) in GF(2)[x] *)
Theorem clmul128_spec a b : a < 2 ^ 128 -> b < 2 ^ 128 -> clmul128 a b = clmul a b.
Proof.
  intros Ha Hb. unfold clmul128.
  rewrite (clmul_loop_spec a b Hb 64 0) by (cbn; lia).
  rewrite N.shiftl_0_l, N.lxor_0_l. change (N.of_nat 64) with 64.
  rewrite (N.mod_small (N.shiftr a 64)).
  - rewrite <- clmul_shiftl_l, <- clmul_lxor_l, <- split_64 by exact Ha. reflexivity.
  - rewrite N.shiftr_div_pow2. apply N.div_lt_upper_bound; [discriminate|].
    now rewrite <- N.pow_add_r.
Qed.

Lemma accumulate_spec f a b : a < 2 ^ 128 -> b < 2 ^ 128 -> accumulate f a b = N.lxor f (clmul a b).
Proof. intros. unfold accumulate. now rewrite clmul128_spec. Qed.

Lemma fe_eq_true f a : fe_eq f a = true <-> f = a.
Proof. unfold fe_eq. rewrite N.eqb_eq. apply N.lxor_eq_0_iff. Qed.

Close Scope N_scope.

(* ========================================================================================== *)
(** * E. extended OT *)

Section ExtendedOT.
  Variables (k8 : nat) (delta : bytes).
  Hypothesis Hk8 : (k8 <= 16)%nat.
  Hypothesis Hdelta : okrow k8 delta.

  Lemma okrow_lt r : okrow k8 r -> (le_val r < 2 ^ 128)%N.
  Proof.
    intros [L W]. eapply N.lt_le_trans; [apply le_val_lt, W|].
    rewrite L, pow256. apply N.pow_le_mono_r; [discriminate|lia].
  Qed.

  (* sum_i rows_i * chi_i in GF(2)[x] *)
  Fixpoint gsum (rows chi : list bytes) : N :=
    match rows, chi with
    | r :: rows', ch :: chi' => N.lxor (clmul (le_val r) (le_val ch)) (gsum rows' chi')
    | _, _ => 0%N
    end.
  (* sum_i c_(j+i) * chi_i *)
  Fixpoint xsum (j : nat) (extra : bytes) (chi : list bytes) : N :=
    match chi with
    | [] => 0%N
    | ch :: chi' => N.lxor (mask_if (bit_at j extra) (le_val ch)) (xsum (S j) extra chi')
    end.

  Lemma ext_acc_spec : forall rows chi f,
    Forall (okrow k8) rows -> Forall (okrow k8) chi ->
    ext_acc rows chi f = N.lxor f (gsum rows chi).
  Proof.
    induction rows as [|r rows IH]; intros [|ch chi] f Fr Fc; cbn [ext_acc gsum];
      try (now rewrite N.lxor_0_r).
    inversion Fr as [|? ? Hr Fr']; inversion Fc as [|? ? Hc Fc']; subst.
    rewrite IH by assumption. unfold accumulate_bytes.
    rewrite accumulate_spec by now apply okrow_lt.
    now rewrite N.lxor_assoc.
  Qed.

  Lemma ext_X_from_ok extra : forall chi j X,
    Forall (okrow k8) chi -> okrow k8 X ->
    okrow k8 (ext_X_from j extra chi X) /\
    le_val (ext_X_from j extra chi X) = N.lxor (le_val X) (xsum j extra chi).
  Proof.
    induction chi as [|ch chi IH]; intros j X Fc HX; cbn [ext_X_from xsum].
    - split; [exact HX | now rewrite N.lxor_0_r].
    - inversion Fc as [|? ? Hc Fc']; subst. destruct HX as [LX WX]. destruct Hc as [Lc Wc].
      assert (HX' : okrow k8 (xor_bytes X (mask_bytes (bit_at j extra) ch))).
      { split.
        - rewrite xor_bytes_length; rewrite ?mask_bytes_length; congruence.
        - apply xor_bytes_wf; [exact WX | now apply mask_bytes_wf]. }
      destruct (IH (S j) _ Fc' HX') as [O E]. split; [exact O|].
      rewrite E, le_val_xor_bytes, le_val_mask_bytes; try assumption.
      + now rewrite N.lxor_assoc.
      + rewrite mask_bytes_length. congruence.
      + now apply mask_bytes_wf.
  Qed.

  (* with Q_i = T_i xor c_i*Delta:  sum Q_i chi_i = sum T_i chi_i xor Delta * sum c_i chi_i *)
  Lemma gsum_corre extra : forall Trows Qrows chi j,
    corre_check_from j delta extra Trows Qrows = true ->
    Forall (okrow k8) Trows -> Forall (okrow k8) chi ->
    length chi = length Trows ->
    gsum Qrows chi = N.lxor (gsum Trows chi) (clmul (le_val delta) (xsum j extra chi)).
  Proof.
    destruct Hdelta as [Ld Wd].
    induction Trows as [|tr Trows IH]; intros [|qr Qrows] [|ch chi] j C FT Fc L;
      try discriminate; cbn [gsum xsum]; try (now rewrite clmul_0_r).
    cbn [corre_check_from] in C. apply andb_true_iff in C as [C1 C2]. apply bytes_eqb_eq in C1.
    inversion FT as [|? ? [Lt Wt] FT']; inversion Fc as [|? ? [Lc Wc] Fc']; subst.
    rewrite (IH _ _ _ C2 FT' Fc') by (cbn in L; lia).
    rewrite le_val_xor_bytes, le_val_mask_bytes; try assumption.
    - rewrite clmul_lxor_l, clmul_lxor_r, clmul_mask_if_l, clmul_mask_if_r.
      generalize (clmul (le_val tr) (le_val ch)) (mask_if (bit_at j extra) (clmul (le_val delta) (le_val ch)))
                 (gsum Trows chi) (clmul (le_val delta) (xsum (S j) extra chi)).
      intros x1 x2 x3 x4. bits_xor.
    - rewrite mask_bytes_length. congruence.
    - now apply mask_bytes_wf.
  Qed.

  (* the sender's consistency check accepts every honest receiver message, for every batch size *)
  Theorem extended_check_passes extra Trows Qrows chi :
    corre_check delta extra Trows Qrows = true ->
    Forall (okrow k8) Trows -> Forall (okrow k8) chi -> length chi = length Trows ->
    ext_send_check delta Qrows chi (ext_X k8 extra chi) (ext_acc Trows chi 0) = true.
  Proof.
    intros C FT Fc L. unfold ext_send_check, corre_check in *.
    assert (FQ : Forall (okrow k8) Qrows).
    { destruct (corre_check_from_nth _ _ _ _ _ C) as [LQ N]. apply Forall_forall. intros x Hx.
      destruct (In_nth _ _ [] Hx) as (t & Lt & <-). rewrite N by llia.
      destruct (Forall_nth_ok k8 Trows t FT) as [Lr Wr]; [llia|]. destruct Hdelta as [Ld Wd]. split.
      - rewrite xor_bytes_length; rewrite ?mask_bytes_length; congruence.
      - apply xor_bytes_wf; [exact Wr | now apply mask_bytes_wf]. }
    assert (HZ : okrow k8 (zeros k8)) by (split; [apply zeros_length | apply zeros_wf]).
    destruct (ext_X_from_ok extra chi 0 (zeros k8) Fc HZ) as [OX EX]. fold (ext_X k8 extra chi) in OX, EX.
    apply fe_eq_true. unfold accumulate_bytes.
    rewrite accumulate_spec by (apply okrow_lt; assumption).
    rewrite !ext_acc_spec by assumption.
    rewrite (gsum_corre extra Trows Qrows chi 0 C FT Fc L).
    rewrite EX, le_val_zeros, !N.lxor_0_l, (clmul_comm (xsum 0 extra chi)).
    generalize (gsum Trows chi) (clmul (le_val delta) (xsum 0 extra chi)). intros x y.
    unfold N.lt. bits_xor.
  Qed.

  (* an altered T (alone) is always rejected; an altered X (alone) is rejected unless Delta = 0 *)
  Theorem extended_check_altered_T Qrows chi X T T' :
    ext_send_check delta Qrows chi X T = true -> T' <> T ->
    ext_send_check delta Qrows chi X T' = false.
  Proof.
    intros C N. apply fe_eq_true in C. apply not_true_iff_false. intro C'. apply fe_eq_true in C'. congruence.
  Qed.

  Theorem extended_check_altered_X Qrows chi X X' T :
    okrow k8 X -> okrow k8 X' -> le_val delta <> 0%N ->
    ext_send_check delta Qrows chi X T = true -> X' <> X ->
    ext_send_check delta Qrows chi X' T = false.
  Proof.
    intros HX HX' ND C NX. apply fe_eq_true in C. apply not_true_iff_false. intro C'. apply fe_eq_true in C'.
    unfold accumulate_bytes in *. rewrite !accumulate_spec in * by (apply okrow_lt; assumption).
    rewrite <- C' in C.
    assert (E : clmul (N.lxor (le_val X) (le_val X')) (le_val delta) = 0%N).
    { rewrite clmul_lxor_l. apply N.lxor_eq_0_iff.
      apply (f_equal (N.lxor (ext_acc Qrows chi 0))) in C.
      now rewrite <- !N.lxor_assoc, !N.lxor_nilpotent, !N.lxor_0_l in C. }
    destruct (N.eq_dec (N.lxor (le_val X) (le_val X')) 0) as [Z|NZ].
    - apply (proj1 (N.lxor_eq_0_iff _ _)) in Z. apply NX.
      destruct HX as [LX WX], HX' as [LX' WX'].
      apply bytes_ext; [congruence | assumption | assumption |].
      intros i _. now rewrite !bit_at_le_val, Z by assumption.
    - now apply (clmul_nonzero _ _ NZ ND).
  Qed.

  (* the receiver's output is the sender's pad number c_j, for every j *)
  Theorem extended_output (hV : bytes -> bytes -> bytes) extra Trows Qrows batch j :
    corre_check delta extra Trows Qrows = true ->
    Forall (okrow k8) Trows -> (batch <= length Trows)%nat -> (j < batch)%nat ->
    nth j (ext_recv_V hV Trows batch) []
    = (if bit_at j extra then snd else fst) (nth j (ext_send_V hV delta Qrows batch) ([], [])).
  Proof using Hdelta.
    clear Hk8. intros C FT Lb Lj. unfold ext_recv_V, ext_send_V.
    rewrite !nth_map_seq by exact Lj. cbn [Nat.add].
    destruct (corre_check_from_nth _ _ _ _ _ C) as [LQ N]. rewrite (N j) by lia. cbn [Nat.add].
    destruct (Forall_nth_ok k8 Trows j FT) as [Lr Wr]; [lia|]. destruct Hdelta as [Ld Wd].
    destruct (bit_at j extra); cbn [fst snd].
    - rewrite mask_bytes_true by exact Wd. rewrite xor_bytes_cancel_r by congruence. reflexivity.
    - rewrite mask_bytes_false, Ld, <- Lr, xor_bytes_zeros_r. reflexivity.
  Qed.
End ExtendedOT.

(* ========================================================================================== *)
(** * F. random OT *)

(* the group part, over any abelian group with a scalar action: the receiver's key a*B equals the
   sender's b*A (choice 0) resp. b*A - b*B (choice 1), where B = b*G, A = a*G + choice*B *)
Section RandomOTGroup.
  Variables (G S : Type) (add sub : G -> G -> G) (act : S -> G -> G) (base : G).
  Hypothesis sub_add : forall P Q, sub (add P Q) Q = P.
  Hypothesis act_add : forall s P Q, act s (add P Q) = add (act s P) (act s Q).
  Hypothesis act_comm : forall s t P, act s (act t P) = act t (act s P).

  Definition rot_A (a : S) (B : G) (c : bool) : G := if c then add (act a base) B else act a base.
  Definition rot_sender_key (b : S) (A : G) (c : bool) : G :=
    if c then sub (act b A) (act b (act b base)) else act b A.

  Theorem random_ot_group a b c :
    rot_sender_key b (rot_A a (act b base) c) c = act a (act b base).
  Proof.
    unfold rot_sender_key, rot_A. destruct c.
    - now rewrite act_add, sub_add, act_comm.
    - apply act_comm.
  Qed.
End RandomOTGroup.

Section RandomOTBytes.
  Variables (H : bytes -> bytes) (k : nat).
  Hypothesis H_ok : forall x, okrow k (H x).

  (* an honest run: both checks pass and the receiver ends with rand_choice = rand_c *)
  Theorem random_ot_correct c rand0 rand1 :
    let rc := rot_select c rand0 rand1 in
    let '(st, challenge) := rot_send_round1 H rand0 rand1 in
    let '(response, hh) := rot_recv_round2 H c rc challenge in
    rot_send_round2 st response = Some ((rs_dec0 st, rs_dec1 st), (rand0, rand1)) /\
    rot_recv_round3 H c rc challenge hh (rs_dec0 st) (rs_dec1 st) = Some (rot_select c rand0 rand1).
  Proof.
    cbn zeta. unfold rot_send_round1, rot_recv_round2, rot_send_round2, rot_recv_round3.
    cbn [rs_dec0 rs_dec1 rs_hdec0 rs_rand0 rs_rand1].
    set (d0 := H rand0). set (d1 := H rand1). set (h0 := H d0). set (h1 := H d1).
    destruct (H_ok d0) as [L0 W0]. destruct (H_ok d1) as [L1 W1]. fold h0 in L0, W0. fold h1 in L1, W1.
    assert (Lx : length (xor_bytes h1 h0) = k) by (rewrite xor_bytes_length; congruence).
    assert (Wx : wf_bytes (xor_bytes h1 h0) = true) by now apply xor_bytes_wf.
    destruct c; cbn [rot_select].
    - fold d1. fold h1. rewrite mask_bytes_true by exact Wx.
      rewrite xor_bytes_cancel_l by congruence.
      rewrite (proj2 (bytes_eqb_eq h0 h0) eq_refl). split; [reflexivity|].
      rewrite (xor_bytes_comm h0 h1), (proj2 (bytes_eqb_eq _ _) eq_refl). cbn [negb].
      rewrite mask_bytes_true by exact Wx. rewrite (xor_bytes_comm h1 h0), xor_bytes_cancel_l by congruence.
      now rewrite (proj2 (bytes_eqb_eq h1 h1) eq_refl).
    - fold d0. fold h0. rewrite mask_bytes_false, Lx, <- L0, xor_bytes_zeros_r.
      rewrite (proj2 (bytes_eqb_eq h0 h0) eq_refl). split; [reflexivity|].
      rewrite (xor_bytes_comm h0 h1), (proj2 (bytes_eqb_eq _ _) eq_refl). cbn [negb].
      rewrite mask_bytes_false, xor_bytes_length, L1, <- L0, xor_bytes_zeros_r by congruence.
      now rewrite (proj2 (bytes_eqb_eq h0 h0) eq_refl).
  Qed.
End RandomOTBytes.

(* ========================================================================================== *)
(** * G. scalars mod q, additive OT *)

Open Scope Z_scope.

Lemma res_map_ok {A B} (f : A -> res B) (g : A -> B) l :
  (forall a, In a l -> f a = ROk (g a)) -> res_map f l = ROk (map g l).
Proof.
  induction l as [|a l IH]; intro E; [reflexivity|].
  cbn [res_map map]. rewrite (E a) by now left. cbn [res_bind].
  rewrite IH by (intros; apply E; now right). reflexivity.
Qed.

Lemma res_map_length {A B} (f : A -> res B) l : forall r, res_map f l = ROk r -> length r = length l.
Proof.
  induction l as [|a l IH]; intros r E; cbn [res_map] in E.
  - injection E as <-. reflexivity.
  - destruct (f a) as [b| |]; cbn [res_bind] in E; try discriminate.
    destruct (res_map f l) as [r'| |]; cbn [res_bind] in E; try discriminate.
    injection E as <-. cbn. f_equal. now apply IH.
Qed.

Lemma res_map_no_panic {A B} (f : A -> res B) l :
  (forall a, In a l -> f a <> RPanic) -> res_map f l <> RPanic.
Proof.
  induction l as [|a l IH]; intro NP; cbn [res_map]; [discriminate|].
  specialize (NP a (or_introl eq_refl)) as Na.
  destruct (f a) as [b| |]; cbn [res_bind]; try discriminate; [|congruence].
  assert (N' : res_map f l <> RPanic) by (apply IH; intros; apply NP; now right).
  destruct (res_map f l); cbn [res_bind]; congruence.
Qed.

Lemma res_map_err {A B} (f : A -> res B) l :
  (forall a, In a l -> f a <> RPanic) -> (exists a, In a l /\ f a = RErr) -> res_map f l = RErr.
Proof.
  induction l as [|a l IH]; intros NP (x & Hx & Ex); [inversion Hx|].
  cbn [res_map]. specialize (NP a (or_introl eq_refl)) as Na.
  destruct (f a) as [b| |] eqn:Ea; cbn [res_bind]; [|reflexivity|congruence].
  rewrite IH; [reflexivity | intros; apply NP; now right |].
  destruct Hx as [<-|Hx]; [congruence|]. now exists x.
Qed.

Lemma le_val_all0 l : (forall x, In x l -> x = 0%N) -> le_val l = 0%N.
Proof.
  induction l as [|b l IH]; intro E; [reflexivity|].
  cbn [le_val]. rewrite (E b) by now left. rewrite IH by (intros; apply E; now right). reflexivity.
Qed.

Lemma be_val_zeros k : be_val (zeros k) = 0%N.
Proof.
  unfold be_val. apply le_val_all0. intros x Hx. apply in_rev in Hx.
  now apply repeat_spec in Hx.
Qed.

(* congruence modulo q as a setoid (the stdlib instances are local to their section) *)
Local Instance eqm_equiv q : Equivalence (eqm q) := eqm_setoid q.
Local Instance eqm_add q : Proper (eqm q ==> eqm q ==> eqm q) Z.add := Zplus_eqm q.
Local Instance eqm_sub q : Proper (eqm q ==> eqm q ==> eqm q) Z.sub := Zminus_eqm q.
Local Instance eqm_mul q : Proper (eqm q ==> eqm q ==> eqm q) Z.mul := Zmult_eqm q.
Local Instance eqm_opp q : Proper (eqm q ==> eqm q) Z.opp := Zopp_eqm q.

Section ModArith.
  Variable q : Z.
  Hypothesis Hq : 0 < q.

  Lemma eqm_mod_l a b : eqm q a b -> eqm q (a mod q) b.
  Proof. intro E. now rewrite (Zmod_eqm q). Qed.

  Lemma zadd_range a b : 0 <= zadd q a b < q.
  Proof. apply Z.mod_pos_bound, Hq. Qed.
  Lemma zsub_range a b : 0 <= zsub q a b < q.
  Proof. apply Z.mod_pos_bound, Hq. Qed.
  Lemma zmul_range a b : 0 <= zmul q a b < q.
  Proof. apply Z.mod_pos_bound, Hq. Qed.
  Lemma zneg_range a : 0 <= zneg q a < q.
  Proof. apply Z.mod_pos_bound, Hq. Qed.

  Lemma zadd_eqm a b : eqm q (zadd q a b) (a + b).
  Proof. apply Zmod_eqm. Qed.
  Lemma zsub_eqm a b : eqm q (zsub q a b) (a - b).
  Proof. apply Zmod_eqm. Qed.
  Lemma zmul_eqm a b : eqm q (zmul q a b) (a * b).
  Proof. apply Zmod_eqm. Qed.
  Lemma zneg_eqm a : eqm q (zneg q a) (- a).
  Proof. apply Zmod_eqm. Qed.

  Lemma eqm_small a b : 0 <= a < q -> 0 <= b < q -> eqm q a b -> a = b.
  Proof. unfold eqm. intros Ha Hb E. now rewrite !Z.mod_small in E. Qed.

  Lemma eqm_eqb a b : 0 <= a < q -> 0 <= b < q -> eqm q a b -> (a =? b) = true.
  Proof. intros. apply Z.eqb_eq. now apply eqm_small. Qed.
End ModArith.

Local Instance zadd_proper q : Proper (eqm q ==> eqm q ==> eqm q) (zadd q).
Proof. intros a a' Ea b b' Eb. rewrite !(zadd_eqm q). now rewrite Ea, Eb. Qed.
Local Instance zsub_proper q : Proper (eqm q ==> eqm q ==> eqm q) (zsub q).
Proof. intros a a' Ea b b' Eb. rewrite !(zsub_eqm q). now rewrite Ea, Eb. Qed.
Local Instance zmul_proper q : Proper (eqm q ==> eqm q ==> eqm q) (zmul q).
Proof. intros a a' Ea b b' Eb. rewrite !(zmul_eqm q). now rewrite Ea, Eb. Qed.
Local Instance zneg_proper q : Proper (eqm q ==> eqm q) (zneg q).
Proof. intros a a' Ea. rewrite !(zneg_eqm q). now rewrite Ea. Qed.

(* replace every reducing operation by the plain one, modulo q *)
Ltac zred q :=
  repeat (rewrite (zadd_eqm q) || rewrite (zsub_eqm q) || rewrite (zmul_eqm q) || rewrite (zneg_eqm q)).
Ltac eqm_ring q := unfold eqm, bytes, byte; f_equal; ring.

Lemma map_const_repeat {A B} (f : A -> B) c l : (forall x, In x l -> f x = c) -> map f l = repeat c (length l).
Proof.
  induction l as [|a l IH]; intro E; [reflexivity|].
  cbn [map length repeat]. rewrite (E a) by now left. f_equal. apply IH. intros; apply E; now right.
Qed.

Lemma additive_check_from_nth q alpha choices : forall send recv j0,
  length send = length recv ->
  (forall t, (t < length send)%nat ->
     let c := b2z (bit_at (j0 + t) choices) in
     zadd q (fst (nth t send (0,0))) (fst (nth t recv (0,0))) = zmul q c (fst alpha) /\
     zadd q (snd (nth t send (0,0))) (snd (nth t recv (0,0))) = zmul q c (snd alpha)) ->
  additive_check_from q j0 alpha choices send recv = true.
Proof.
  induction send as [|s send IH]; intros [|r recv] j0 L E; try discriminate; [reflexivity|].
  cbn [additive_check_from]. destruct (E 0%nat) as [E0 E1]; [cbn; lia|].
  rewrite Nat.add_0_r in E0, E1. cbn [nth] in E0, E1.
  rewrite E0, E1, !Z.eqb_refl. cbn [andb].
  apply IH; [now injection L|]. intros t Lt. specialize (E (S t)). cbn [nth] in E.
  replace (j0 + S t)%nat with (S j0 + t)%nat in E by lia. apply E. cbn. lia.
Qed.

Lemma additive_check_from_nth_inv q alpha choices : forall send recv j0,
  additive_check_from q j0 alpha choices send recv = true ->
  length send = length recv /\
  forall t, (t < length send)%nat ->
     let c := b2z (bit_at (j0 + t) choices) in
     zadd q (fst (nth t send (0,0))) (fst (nth t recv (0,0))) = zmul q c (fst alpha) /\
     zadd q (snd (nth t send (0,0))) (snd (nth t recv (0,0))) = zmul q c (snd alpha).
Proof.
  induction send as [|s send IH]; intros [|r recv] j0 C; try discriminate.
  - split; [reflexivity|]. intros t Lt. inversion Lt.
  - cbn [additive_check_from] in C. apply andb_true_iff in C as [C C2]. apply andb_true_iff in C as [C0 C1].
    apply Z.eqb_eq in C0, C1. destruct (IH _ _ C2) as [L E]. split; [cbn; now rewrite L|].
    intros [|t] Lt.
    + rewrite Nat.add_0_r. now split.
    + cbn [nth]. replace (j0 + S t)%nat with (S j0 + t)%nat by lia. apply E. cbn in Lt. lia.
Qed.


Section MaskLoop.
  Variable nb : nat.

  Lemma mask_stop_repeat : forall m j, (j <= nb)%nat -> (nb < j + m)%nat ->
    mask_stop (repeat nb m) j = Some nb.
  Proof.
    induction m as [|m IH]; intros j L1 L2; [lia|].
    cbn [repeat mask_stop]. destruct (Nat.ltb_spec j nb) as [L|L].
    - apply IH; lia.
    - f_equal. lia.
  Qed.

  (* no index past the end: the loop bound is read from entry j, so it must exist for j = nb *)
  Lemma mask_stop_repeat_panic : forall m j, (j + m <= nb)%nat -> mask_stop (repeat nb m) j = None.
  Proof.
    induction m as [|m IH]; intros j L; [reflexivity|].
    cbn [repeat mask_stop]. destruct (Nat.ltb_spec j nb) as [L'|L']; [|lia].
    apply IH. lia.
  Qed.

  Lemma masked_pad_honest m c pad :
    (nb < m)%nat -> okrow nb pad -> masked_pad_v0 (repeat nb m) c pad = ROk (mask_bytes c pad).
  Proof.
    intros L [Lp Wp]. unfold masked_pad_v0. rewrite mask_stop_repeat by lia.
    rewrite Lp, Nat.leb_refl, <- Lp, firstn_all, skipn_all, app_nil_r. reflexivity.
  Qed.
End MaskLoop.

Section AdditiveOTProofs.
  Variables (q : Z) (nb : nat) (sc2 : bytes -> Z * Z).
  Hypothesis Hq : 0 < q.
  Hypothesis Hqnb : q <= Z.of_N (256 ^ N.of_nat nb).
  Hypothesis sc2_range : forall x, 0 <= fst (sc2 x) < q /\ 0 <= snd (sc2 x) < q.

  Lemma scalar_marshal_ok x : okrow nb (scalar_marshal nb x).
  Proof. split; [apply be_bytes_length | apply be_bytes_wf]. Qed.

  Lemma unmarshal_marshal x : 0 <= x < q -> scalar_unmarshal q nb (scalar_marshal nb x) = Some x.
  Proof.
    intro Hx. unfold scalar_unmarshal, scalar_marshal.
    rewrite be_bytes_length, Nat.eqb_refl, be_val_be_bytes, N.mod_small by lia.
    rewrite Z2N.id by lia. destruct (Z.ltb_spec x q); [reflexivity|lia].
  Qed.

  Lemma marshal_val x : 0 <= x < q -> Z.of_N (be_val (scalar_marshal nb x)) = x.
  Proof.
    intro Hx. unfold scalar_marshal. rewrite be_val_be_bytes, N.mod_small by lia. lia.
  Qed.

  Lemma unmarshal_zeros : scalar_unmarshal q nb (zeros nb) = Some 0.
  Proof.
    unfold scalar_unmarshal. rewrite zeros_length, Nat.eqb_refl, be_val_zeros. cbn [Z.of_N].
    destruct (Z.ltb_spec 0 q); [reflexivity|lia].
  Qed.

  Lemma additive_send_one_spec alpha v :
    additive_send_one q nb sc2 alpha v
    = ((scalar_marshal nb (zadd q (zsub q (fst (sc2 (snd v))) (fst (sc2 (fst v)))) (fst alpha)),
        scalar_marshal nb (zadd q (zsub q (snd (sc2 (snd v))) (snd (sc2 (fst v)))) (snd alpha))),
       sc2 (fst v)).
  Proof.
    unfold additive_send_one. destruct (sc2 (fst v)) as [s0 s1], (sc2 (snd v)) as [p0 p1]. reflexivity.
  Qed.

  (* AdditiveOT, honest run on top of a correct extended OT, ANY batch size:
     the receiver accepts and  send[j] + recv[j] = c_j * alpha  in both components *)
  Theorem additive_ot_sum alpha choices V VC :
    length V = (8 * length choices)%nat ->
    (forall j, (j < length V)%nat ->
       nth j VC [] = (if bit_at j choices then snd else fst) (nth j V ([], []))) ->
    exists recv,
      additive_recv q nb sc2 choices VC (fst (additive_send q nb sc2 alpha V)) = ROk recv /\
      additive_check_from q 0 alpha choices (snd (additive_send q nb sc2 alpha V)) recv = true /\
      Forall (fun r => 0 <= fst r < q /\ 0 <= snd r < q) recv.
  Proof.
    intros LV HVC. unfold additive_send. cbn [fst snd]. rewrite !map_map.
    set (CP := map (fun x => fst (additive_send_one q nb sc2 alpha x)) V).
    set (send := map (fun x => snd (additive_send_one q nb sc2 alpha x)) V).
    set (g := fun j : nat =>
       let c := bit_at j choices in
       let v := sc2 (nth j VC []) in
       let cp := nth j CP ([], []) in
       (zadd q (zneg q (fst v)) (if c then Z.of_N (be_val (fst cp)) else 0),
        zadd q (zneg q (snd v)) (if c then Z.of_N (be_val (snd cp)) else 0))).
    assert (LCP : length CP = length V) by (unfold CP; now rewrite map_length).
    assert (NCP : forall j, (j < length V)%nat ->
              nth j CP ([], []) = fst (additive_send_one q nb sc2 alpha (nth j V ([], [])))).
    { intros j Lj. unfold CP.
      rewrite (nth_indep _ ([], []) (fst (additive_send_one q nb sc2 alpha ([], [])))) by now rewrite map_length.
      now rewrite (map_nth (fun x => fst (additive_send_one q nb sc2 alpha x))). }
    assert (Nsend : forall j, (j < length V)%nat -> nth j send (0, 0) = sc2 (fst (nth j V ([], [])))).
    { intros j Lj. unfold send.
      rewrite (nth_indep _ (0, 0) (snd (additive_send_one q nb sc2 alpha ([], [])))) by now rewrite map_length.
      rewrite (map_nth (fun x => snd (additive_send_one q nb sc2 alpha x))).
      now rewrite additive_send_one_spec. }
    exists (map g (seq 0 (8 * length choices))). split; [|split].
    3: { apply Forall_forall. intros r Hr. apply in_map_iff in Hr as (j & <- & _).
         unfold g. cbn [fst snd]. split; apply zadd_range, Hq. }
    - unfold additive_recv.
      replace (length CP =? 8 * length choices)%nat with true by (symmetry; apply Nat.eqb_eq; llia).
      cbn [negb]. apply res_map_ok. intros j Hj. apply in_seq in Hj.
      assert (Lj : (j < length V)%nat) by llia.
      unfold additive_recv_one, masked_pad. unfold bytes, byte in *.
      destruct (sc2 (nth j VC [])) as [v0 v1] eqn:Ev.
      specialize (NCP j Lj). rewrite additive_send_one_spec in NCP. cbn [fst] in NCP.
      unfold g. rewrite Ev. cbn [fst snd]. rewrite NCP. cbn [fst snd].
      destruct (bit_at j choices).
      + rewrite !mask_bytes_true by apply be_bytes_wf.
        rewrite !unmarshal_marshal by apply zadd_range, Hq.
        rewrite !marshal_val by apply zadd_range, Hq.
        reflexivity.
      + rewrite !mask_bytes_false. unfold scalar_marshal. rewrite !be_bytes_length, !unmarshal_zeros. reflexivity.
    - apply additive_check_from_nth.
      + unfold send. now rewrite !map_length, seq_length.
      + intros t Lt. unfold send in Lt. rewrite map_length in Lt. cbn [Nat.add].
        rewrite (nth_map_seq g 0 _ t (0,0)) by llia. cbn [Nat.add].
        rewrite Nsend by exact Lt. unfold g. cbn zeta. rewrite (HVC t Lt), (NCP t Lt), additive_send_one_spec.
        cbn [fst snd].
        destruct (sc2_range (fst (nth t V ([], [])))) as [Rs0 Rs1].
        destruct (bit_at t choices); cbn [b2z].
        * rewrite !marshal_val by apply zadd_range, Hq.
          split; (apply (eqm_small q); [apply zadd_range, Hq | apply zmul_range, Hq |]);
            zred q; eqm_ring q.
        * split; (apply (eqm_small q); [apply zadd_range, Hq | apply zmul_range, Hq |]);
            zred q; eqm_ring q.
  Qed.

  (* the batch sizes the masking loop cannot handle: every honest run with 0 < batch <= nb panics *)
  Theorem additive_small_batch_panics alpha choices V VC :
    length V = (8 * length choices)%nat -> (0 < length V <= nb)%nat ->
    additive_recv_v0 q nb sc2 choices VC (fst (additive_send q nb sc2 alpha V)) = RPanic.
  Proof using.
    clear Hq Hqnb sc2_range. intros LV Lnb. unfold additive_send. cbn [fst]. rewrite map_map.
    set (CP := map (fun x => fst (additive_send_one q nb sc2 alpha x)) V).
    assert (LCP : length CP = length V) by (unfold CP; now rewrite map_length).
    assert (Lens0 : map (fun p : bytes * bytes => length (fst p)) CP = repeat nb (length V)).
    { rewrite <- LCP. apply map_const_repeat. intros x Hx. unfold CP in Hx.
      apply in_map_iff in Hx as (v & <- & _). rewrite additive_send_one_spec. cbn [fst]. apply be_bytes_length. }
    unfold additive_recv_v0. rewrite <- LV. destruct (length V) as [|n] eqn:En; [lia|].
    cbn [seq res_map]. unfold additive_recv_one_v0 at 1. unfold bytes, byte in *. rewrite Lens0.
    destruct (sc2 (nth 0 VC [])) as [v0 v1]. rewrite LCP. cbn [Nat.leb].
    unfold masked_pad_v0 at 1. rewrite mask_stop_repeat_panic by lia. reflexivity.
  Qed.
End AdditiveOTProofs.

(* ========================================================================================== *)
(** * H. gadget and encode *)

(* unreduced dot product of a bit list with a scalar list (missing bits count as 0) *)
Fixpoint dsum (bs : list bool) (g : list Z) : Z :=
  match g with
  | [] => 0
  | gi :: g' => b2z (hd false bs) * gi + dsum (tl bs) g'
  end.

Lemma dsum_app : forall g1 bs1 bs2 g2, length bs1 = length g1 ->
  dsum (bs1 ++ bs2) (g1 ++ g2) = dsum bs1 g1 + dsum bs2 g2.
Proof.
  induction g1 as [|gi g1 IH]; intros [|b bs1] bs2 g2 L; try discriminate.
  - reflexivity.
  - cbn [app dsum hd tl]. rewrite IH by now injection L. ring.
Qed.

Lemma b2z_b2n b : Z.of_N (N.b2n b) = b2z b.
Proof. now destruct b. Qed.

Section GadgetProofs.
  Variable q : Z.
  Hypothesis Hq : 0 < q.

  Lemma dot_from_eqm : forall g i ch acc,
    eqm q (dot_from q i ch g acc)
          (acc + dsum (map (fun t => bit_at t ch) (seq i (length g))) g).
  Proof.
    induction g as [|gi g IH]; intros i ch acc.
    - cbn. rewrite Z.add_0_r. reflexivity.
    - cbn [dot_from length seq map dsum hd tl]. rewrite IH. zred q. eqm_ring q.
  Qed.

  Lemma dot_from_range : forall g i ch acc, 0 <= acc < q -> 0 <= dot_from q i ch g acc < q.
  Proof.
    induction g as [|gi g IH]; intros i ch acc Ha; [exact Ha|].
    cbn [dot_from]. apply IH, zadd_range, Hq.
  Qed.

  Lemma encode_acc_eqm : forall noise i gamma acc,
    eqm q (encode_acc q i gamma noise acc)
          (acc - dsum (map (fun t => bit_at t gamma) (seq i (length noise))) noise).
  Proof.
    induction noise as [|n noise IH]; intros i gamma acc.
    - cbn. rewrite Z.sub_0_r. reflexivity.
    - cbn [encode_acc length seq map dsum hd tl]. rewrite IH. zred q. eqm_ring q.
  Qed.

  Lemma encode_acc_range : forall noise i gamma acc, 0 <= acc < q -> 0 <= encode_acc q i gamma noise acc < q.
  Proof.
    induction noise as [|n noise IH]; intros i gamma acc Ha; [exact Ha|].
    cbn [encode_acc]. apply IH, zsub_range, Hq.
  Qed.

  Lemma doublings_spec : forall k acc bs, length bs = k ->
    length (fst (doublings k q acc)) = k /\
    eqm q (dsum bs (fst (doublings k q acc))) (acc * Z.of_N (bits_val bs)) /\
    eqm q (snd (doublings k q acc)) (acc * 2 ^ Z.of_nat k).
  Proof.
    induction k as [|k IH]; intros acc [|b bs] L; try discriminate.
    - cbn. rewrite Z.mul_0_r, Z.mul_1_r. repeat split; reflexivity.
    - cbn [doublings]. injection L as L.
      destruct (IH (zadd q acc acc) bs L) as (I1 & I2 & I3).
      destruct (doublings k q (zadd q acc acc)) as [l a]. cbn [fst snd] in *.
      split; [cbn; now rewrite I1|]. split.
      + cbn [dsum hd tl bits_val]. rewrite I2, N2Z.inj_add, N2Z.inj_mul, b2z_b2n. zred q. eqm_ring q.
      + rewrite I3, Nat2Z.inj_succ, Z.pow_succ_r by lia. zred q. eqm_ring q.
  Qed.

  Lemma be_bytes_succ n v : be_bytes (S n) v = be_bytes n (N.shiftr v 8) ++ [N.land v 255].
  Proof. unfold be_bytes. reflexivity. Qed.

  Lemma bits_of_byte_length b : length (bits_of_bytes [b]) = 8%nat.
  Proof. reflexivity. Qed.

  Lemma gadget_loop_spec : forall n acc out v bs', (v < 256 ^ N.of_nat n)%N ->
    length (gadget_loop n q acc out) = (8 * n + length out)%nat /\
    eqm q (dsum (bits_of_bytes (be_bytes n v) ++ bs') (gadget_loop n q acc out))
          (acc * Z.of_N v + dsum bs' out).
  Proof.
    induction n as [|n IH]; intros acc out v bs' Hv.
    - cbn in Hv. assert (v = 0%N) as -> by lia. cbn. split; [reflexivity|]. eqm_ring q.
    - cbn [gadget_loop].
      assert (Hlo : (N.land v 255 < 256)%N)
        by (change 255%N with (N.ones 8); rewrite N.land_ones; now apply N.mod_lt).
      assert (Wlo : wf_bytes [N.land v 255] = true) by (apply wf_bytes_cons; now split).
      destruct (doublings_spec 8 acc (bits_of_bytes [N.land v 255]) eq_refl) as (D1 & D2 & D3).
      destruct (doublings 8 q acc) as [grp acc']. cbn [fst snd] in D1, D2, D3.
      assert (Hv' : (N.shiftr v 8 < 256 ^ N.of_nat n)%N).
      { rewrite N.shiftr_div_pow2. apply N.div_lt_upper_bound; [discriminate|].
        change (2 ^ 8)%N with 256%N. now rewrite <- N.pow_succ_r', <- Nat2N.inj_succ. }
      destruct (IH acc' (grp ++ out) (N.shiftr v 8) (bits_of_bytes [N.land v 255] ++ bs') Hv') as [L E].
      split; [rewrite L, app_length, D1; lia|].
      rewrite be_bytes_succ, bits_of_bytes_app, <- app_assoc, E.
      rewrite dsum_app by (rewrite D1; reflexivity).
      rewrite D2, D3, bits_val_bits_of_bytes by exact Wlo.
      cbn [le_val]. rewrite N.mul_0_r, N.add_0_r.
      assert (Ev : Z.of_N v = 256 * Z.of_N (N.shiftr v 8) + Z.of_N (N.land v 255)).
      { rewrite <- N2Z.inj_mul with (n := 256%N), <- N2Z.inj_add. f_equal.
        rewrite N.shiftr_div_pow2. change 255%N with (N.ones 8). rewrite N.land_ones.
        apply N.div_mod. discriminate. }
      rewrite Ev. change (2 ^ Z.of_nat 8) with 256. eqm_ring q.
  Qed.

  Lemma gadget_pows_length nb : length (gadget_pows q nb) = (8 * nb)%nat.
  Proof.
    unfold gadget_pows.
    destruct (gadget_loop_spec nb (1 mod q) [] 0 []) as [L _]; [apply pow256_pos|].
    rewrite L. cbn. lia.
  Qed.

  (* decoding what encode produced gives beta back: for every beta, noise and gamma *)
  Theorem gadget_encode_decode nb beta noise gamma :
    q <= Z.of_N (256 ^ N.of_nat nb) -> 0 <= beta < q ->
    length noise = (8 * length gamma)%nat ->
    gadget_dot q (make_gadget q nb noise) (encode q nb beta noise gamma) = beta.
  Proof.
    intros Hqnb Hb Ln.
    set (e := encode_acc q 0 gamma noise beta).
    assert (He : 0 <= e < q) by now apply encode_acc_range.
    assert (Hv : (Z.to_N e < 256 ^ N.of_nat nb)%N) by lia.
    apply (eqm_small q); [apply dot_from_range; lia | exact Hb |].
    unfold gadget_dot. rewrite dot_from_eqm, Z.add_0_l.
    unfold make_gadget, encode, scalar_marshal. fold e.
    rewrite app_length, gadget_pows_length, Ln, <- Nat.mul_add_distr_l.
    replace (nb + length gamma)%nat with (length (be_bytes nb (Z.to_N e) ++ gamma))
      by now rewrite app_length, be_bytes_length.
    fold (bits_of_bytes (be_bytes nb (Z.to_N e) ++ gamma)).
    rewrite bits_of_bytes_app.
    rewrite dsum_app by now rewrite bits_of_bytes_length, be_bytes_length, gadget_pows_length.
    destruct (gadget_loop_spec nb (1 mod q) [] (Z.to_N e) [] Hv) as [_ E].
    rewrite app_nil_r in E. unfold gadget_pows. rewrite E. cbn [dsum].
    rewrite Z2N.id by lia.
    unfold e at 1. rewrite encode_acc_eqm. unfold bits_of_bytes. rewrite Ln.
    rewrite (Zmod_eqm q 1). eqm_ring q.
  Qed.
End GadgetProofs.

(* ========================================================================================== *)
(** * I. Multiply *)

Section MultiplyProofs.
  Variable q : Z.
  Hypothesis Hq : 0 < q.
  Variables (chi0 chi1 : Z) (choices : bytes).

  (* an adversarial change of the sender's message, as seen after unmarshalling:
     pad i moved by (d0 i, d1 i), RCheck[i] by e i, UCheck by f (all mod q).  Because the receiver
     masks the pads with its choice bit, its additive-OT output moves by c_i * d i. *)
  Fixpoint alter_recv (j : nat) (d0 d1 : nat -> Z) (recv : list (Z * Z)) : list (Z * Z) :=
    match recv with
    | [] => []
    | r :: recv' =>
        (zadd q (fst r) (zmul q (b2z (bit_at j choices)) (d0 j)),
         zadd q (snd r) (zmul q (b2z (bit_at j choices)) (d1 j))) :: alter_recv (S j) d0 d1 recv'
    end.
  Fixpoint alter_rcheck (j : nat) (e : nat -> Z) (rcheck : list Z) : list Z :=
    match rcheck with
    | [] => []
    | rc :: rcheck' => zadd q rc (e j) :: alter_rcheck (S j) e rcheck'
    end.
  (* sum_j c_j * d j * g_j : the error the alteration puts into the receiver's share *)
  Fixpoint esum (j : nat) (d : nat -> Z) (g : list Z) : Z :=
    match g with
    | [] => 0
    | gi :: g' => b2z (bit_at j choices) * d j * gi + esum (S j) d g'
    end.
  (* the condition under which the receiver's check accepts the altered message *)
  Fixpoint accept_cond (j : nat) (n : nat) (d0 d1 e : nat -> Z) (f : Z) : Prop :=
    match n with
    | O => True
    | S n' =>
        eqm q (b2z (bit_at j choices) * (d0 j * chi0 + d1 j * chi1)) (b2z (bit_at j choices) * f - e j)
        /\ accept_cond (S j) n' d0 d1 e f
    end.

  Lemma alter_recv_length d0 d1 : forall recv j, length (alter_recv j d0 d1 recv) = length recv.
  Proof. induction recv as [|r recv IH]; intro j; cbn; [reflexivity | now rewrite IH]. Qed.

  Lemma alter_rcheck_length e : forall rcheck j, length (alter_rcheck j e rcheck) = length rcheck.
  Proof. induction rcheck as [|r rcheck IH]; intro j; cbn; [reflexivity | now rewrite IH]. Qed.

  Lemma alter_recv_id : forall recv j,
    Forall (fun r => 0 <= fst r < q /\ 0 <= snd r < q) recv ->
    alter_recv j (fun _ => 0) (fun _ => 0) recv = recv.
  Proof.
    induction recv as [|[r0 r1] recv IH]; intros j F; [reflexivity|].
    inversion F as [|? ? [R0 R1] F']; subst. cbn [alter_recv fst snd] in *.
    rewrite IH by exact F'. f_equal. f_equal; unfold zadd, zmul;
      rewrite Z.mul_0_r, Z.mod_0_l, Z.add_0_r, Z.mod_small; lia.
  Qed.

  Lemma alter_rcheck_id : forall rcheck j,
    Forall (fun r => 0 <= r < q) rcheck -> alter_rcheck j (fun _ => 0) rcheck = rcheck.
  Proof.
    induction rcheck as [|rc rcheck IH]; intros j F; [reflexivity|].
    inversion F; subst. cbn [alter_rcheck]. rewrite IH by assumption. f_equal.
    unfold zadd. rewrite Z.add_0_r, Z.mod_small; lia.
  Qed.

  Lemma share_from_range : forall result gadget acc, 0 <= acc < q -> 0 <= share_from q result gadget acc < q.
  Proof.
    induction result as [|r result IH]; intros [|g gadget] acc Ha; try exact Ha.
    cbn [share_from]. apply IH, zadd_range, Hq.
  Qed.

  (* the two shares, with the receiver's side altered by d0: sum = alpha * <choices, gadget> + error *)
  Lemma shares_sum_gen alpha d0 d1 : forall send recv gadget j accS accR,
    additive_check_from q j alpha choices send recv = true ->
    length gadget = length send ->
    eqm q (share_from q send gadget accS + share_from q (alter_recv j d0 d1 recv) gadget accR)
          (accS + accR
           + fst alpha * dsum (map (fun t => bit_at t choices) (seq j (length gadget))) gadget
           + esum j d0 gadget).
  Proof.
    induction send as [|s send IH]; intros [|r recv] [|g gadget] j accS accR C L; try discriminate.
    - cbn. eqm_ring q.
    - cbn [additive_check_from] in C. apply andb_true_iff in C as [C C2]. apply andb_true_iff in C as [C0 _].
      apply Z.eqb_eq in C0.
      assert (E0 : eqm q (fst s + fst r) (b2z (bit_at j choices) * fst alpha)).
      { rewrite <- (zadd_eqm q), <- (zmul_eqm q). now rewrite C0. }
      cbn [alter_recv share_from fst snd length seq map dsum hd tl esum].
      rewrite (IH recv gadget (S j) _ _ C2) by (cbn in L; lia).
      zred q.
      transitivity (accS + accR + (fst s + fst r) * g + b2z (bit_at j choices) * d0 j * g
                    + fst alpha * dsum (map (fun t => bit_at t choices) (seq (S j) (length gadget))) gadget
                    + esum (S j) d0 gadget); [eqm_ring q|].
      rewrite E0. eqm_ring q.
  Qed.

  Definition okt (j : nat) (r : Z * Z) (rc u : Z) : Prop :=
    zadd q (zmul q (fst r) chi0) (zmul q (snd r) chi1)
    = zsub q (zmul q (b2z (bit_at j choices)) u) rc.

  Lemma okt_eqm j r rc u :
    okt j r rc u <-> eqm q (fst r * chi0 + snd r * chi1) (b2z (bit_at j choices) * u - rc).
  Proof.
    unfold okt. split.
    - intro E. rewrite <- (zmul_eqm q (fst r)), <- (zmul_eqm q (snd r)), <- (zadd_eqm q), E. zred q. reflexivity.
    - intro E. apply (eqm_small q); [apply zadd_range, Hq | apply zsub_range, Hq|]. zred q. exact E.
  Qed.

  (* the check loop never panics when RCheck is long enough, and accepts iff every index is fine *)
  Lemma mult_recv_check_dichotomy u : forall result rcheck j,
    (length result <= length rcheck)%nat ->
    (mult_recv_check_from q chi0 chi1 j choices result rcheck u = ROk tt /\
     forall t, (t < length result)%nat -> okt (j + t)%nat (nth t result (0,0)) (nth t rcheck 0) u)
    \/
    (mult_recv_check_from q chi0 chi1 j choices result rcheck u = RErr /\
     exists t, (t < length result)%nat /\ ~ okt (j + t)%nat (nth t result (0,0)) (nth t rcheck 0) u).
  Proof.
    induction result as [|r result IH]; intros [|rc rcheck] j L; cbn [length] in L; try lia.
    - left. split; [reflexivity|]. intros t Lt. inversion Lt.
    - left. split; [reflexivity|]. intros t Lt. inversion Lt.
    - cbn [mult_recv_check_from].
      destruct (Z.eqb_spec (zadd q (zmul q (fst r) chi0) (zmul q (snd r) chi1))
                           (zsub q (zmul q (b2z (bit_at j choices)) u) rc)) as [E|NE].
      + destruct (IH rcheck (S j)) as [[R A]|[R (t & Lt & NA)]]; [lia| |].
        * left. split; [exact R|]. intros [|t] Lt.
          -- rewrite Nat.add_0_r. exact E.
          -- cbn [nth]. replace (j + S t)%nat with (S j + t)%nat by lia. apply A. cbn in Lt. lia.
        * right. split; [exact R|]. exists (S t). split; [cbn; lia|].
          cbn [nth]. replace (j + S t)%nat with (S j + t)%nat by lia. exact NA.
      + right. split; [reflexivity|]. exists 0%nat. split; [cbn; lia|].
        rewrite Nat.add_0_r. exact NE.
  Qed.

  (* the pointwise content of the receiver's check on an altered message *)
  Lemma altered_check_pointwise alpha d0 d1 e f : forall send recv j,
    additive_check_from q j alpha choices send recv = true ->
    forall t, (t < length send)%nat ->
      (okt (j + t)%nat (nth t (alter_recv j d0 d1 recv) (0,0))
           (nth t (alter_rcheck j e (map (mult_lin q chi0 chi1) send)) 0)
           (zadd q (mult_lin q chi0 chi1 alpha) f)
       <-> eqm q (b2z (bit_at (j + t)%nat choices) * (d0 (j + t)%nat * chi0 + d1 (j + t)%nat * chi1))
                 (b2z (bit_at (j + t)%nat choices) * f - e (j + t)%nat)).
  Proof.
    induction send as [|s send IH]; intros [|r recv] j C t Lt; try discriminate; [inversion Lt|].
    cbn [additive_check_from] in C. apply andb_true_iff in C as [C C2]. apply andb_true_iff in C as [C0 C1].
    apply Z.eqb_eq in C0, C1.
    destruct t as [|t].
    - rewrite Nat.add_0_r. cbn [alter_recv map alter_rcheck nth]. rewrite okt_eqm. cbn [fst snd].
      assert (E0 : eqm q (fst r) (b2z (bit_at j choices) * fst alpha - fst s)).
      { transitivity ((fst s + fst r) - fst s); [eqm_ring q|].
        rewrite <- (zadd_eqm q (fst s)), C0. zred q. reflexivity. }
      assert (E1 : eqm q (snd r) (b2z (bit_at j choices) * snd alpha - snd s)).
      { transitivity ((snd s + snd r) - snd s); [eqm_ring q|].
        rewrite <- (zadd_eqm q (snd s)), C1. zred q. reflexivity. }
      unfold mult_lin. zred q. rewrite E0, E1.
      set (c := b2z (bit_at j choices)).
      split; intro E.
      + transitivity ((c * fst alpha - fst s + c * d0 j) * chi0 + (c * snd alpha - snd s + c * d1 j) * chi1
                      - (c * (fst alpha * chi0 + snd alpha * chi1) - (fst s * chi0 + snd s * chi1)));
          [eqm_ring q|].
        rewrite E. eqm_ring q.
      + transitivity (c * (d0 j * chi0 + d1 j * chi1)
                      + (c * (fst alpha * chi0 + snd alpha * chi1) - (fst s * chi0 + snd s * chi1)));
          [eqm_ring q|].
        rewrite E. eqm_ring q.
    - cbn [alter_recv map alter_rcheck nth]. replace (j + S t)%nat with (S j + t)%nat by lia.
      apply (IH recv (S j) C2). cbn in Lt. lia.
  Qed.

  Lemma accept_cond_nth d0 d1 e f : forall n j,
    accept_cond j n d0 d1 e f <->
    forall t, (t < n)%nat ->
      eqm q (b2z (bit_at (j + t)%nat choices) * (d0 (j + t)%nat * chi0 + d1 (j + t)%nat * chi1))
            (b2z (bit_at (j + t)%nat choices) * f - e (j + t)%nat).
  Proof.
    induction n as [|n IH]; intro j; cbn [accept_cond].
    - split; [intros _ t Lt; inversion Lt | trivial].
    - rewrite IH. split.
      + intros [A B] [|t] Lt; [now rewrite Nat.add_0_r|].
        replace (j + S t)%nat with (S j + t)%nat by lia. apply B. lia.
      + intro A. split.
        * specialize (A 0%nat). rewrite Nat.add_0_r in A. apply A. lia.
        * intros t Lt. replace (S j + t)%nat with (j + S t)%nat by lia. apply A. lia.
  Qed.

  (* exact characterisation: which altered sender messages does the receiver accept *)
  Theorem multiply_check_altered alpha d0 d1 e f send recv :
    additive_check_from q 0 alpha choices send recv = true ->
    let rcheck' := alter_rcheck 0 e (map (mult_lin q chi0 chi1) send) in
    let ucheck' := zadd q (mult_lin q chi0 chi1 alpha) f in
    let recv' := alter_recv 0 d0 d1 recv in
    (accept_cond 0 (length send) d0 d1 e f /\
     mult_recv_check_from q chi0 chi1 0 choices recv' rcheck' ucheck' = ROk tt)
    \/
    (~ accept_cond 0 (length send) d0 d1 e f /\
     mult_recv_check_from q chi0 chi1 0 choices recv' rcheck' ucheck' = RErr).
  Proof.
    intros C rcheck' ucheck' recv'.
    destruct (additive_check_from_nth_inv q alpha choices _ _ _ C) as [L _].
    assert (Lr : length recv' = length send) by (unfold recv'; now rewrite alter_recv_length).
    assert (Lrc : length rcheck' = length send)
      by (unfold rcheck'; now rewrite alter_rcheck_length, map_length).
    destruct (mult_recv_check_dichotomy ucheck' recv' rcheck' 0) as [[R A]|[R (t & Lt & NA)]]; [lia| |].
    - left. split; [|exact R]. apply accept_cond_nth. intros t Lt.
      apply (altered_check_pointwise alpha d0 d1 e f send recv 0 C t Lt). apply A. lia.
    - right. split; [|exact R]. rewrite accept_cond_nth. intro A. apply NA.
      apply (altered_check_pointwise alpha d0 d1 e f send recv 0 C t); [lia|]. apply A. lia.
  Qed.

  (* honest message: accepted *)
  Theorem multiply_check_passes alpha send recv :
    additive_check_from q 0 alpha choices send recv = true ->
    mult_recv_check_from q chi0 chi1 0 choices recv (map (mult_lin q chi0 chi1) send)
      (mult_lin q chi0 chi1 alpha) = ROk tt.
  Proof.
    intro C.
    destruct (additive_check_from_nth_inv q alpha choices _ _ _ C) as [L P].
    destruct (mult_recv_check_dichotomy (mult_lin q chi0 chi1 alpha) recv
                (map (mult_lin q chi0 chi1) send) 0) as [[R _]|[_ (t & Lt & NA)]].
    - rewrite map_length. lia.
    - exact R.
    - exfalso. apply NA. cbn [Nat.add]. rewrite okt_eqm.
      destruct (P t) as [P0 P1]; [lia|]. cbn [Nat.add] in P0, P1. cbn zeta in P0, P1.
      rewrite (nth_indep _ 0 (mult_lin q chi0 chi1 (0,0))) by (rewrite map_length; lia).
      rewrite map_nth.
      set (s := nth t send (0,0)) in *. set (r := nth t recv (0,0)) in *.
      set (c := b2z (bit_at t choices)) in *.
      assert (E0 : eqm q (fst r) (c * fst alpha - fst s)).
      { transitivity ((fst s + fst r) - fst s); [eqm_ring q|].
        rewrite <- (zadd_eqm q (fst s)), P0. zred q. reflexivity. }
      assert (E1 : eqm q (snd r) (c * snd alpha - snd s)).
      { transitivity ((snd s + snd r) - snd s); [eqm_ring q|].
        rewrite <- (zadd_eqm q (snd s)), P1. zred q. reflexivity. }
      unfold mult_lin. zred q. rewrite E0, E1. eqm_ring q.
  Qed.
End MultiplyProofs.

Section MultiplyLayer.
  Variable q : Z.
  Hypothesis Hq : 0 < q.
  Variables (chi0 chi1 : Z) (choices : bytes).

  Lemma mult_send_inv alpha2 send gadget rcheck ucheck sS :
    mult_send q alpha2 chi0 chi1 send gadget = ROk (rcheck, ucheck, sS) ->
    (length send <= length gadget)%nat /\
    rcheck = map (mult_lin q chi0 chi1) send /\ ucheck = mult_lin q chi0 chi1 alpha2 /\
    sS = share_from q send gadget 0.
  Proof.
    unfold mult_send, mult_share. destruct (Nat.ltb_spec (length gadget) (length send)) as [L|L];
      cbn [res_bind]; [discriminate|].
    intro E. injection E as <- <- <-. repeat split; [lia].
  Qed.

  Lemma mult_recv_check_same_len result rcheck ucheck :
    length rcheck = length result ->
    mult_recv_check q chi0 chi1 choices result rcheck ucheck
    = mult_recv_check_from q chi0 chi1 0 choices result rcheck ucheck.
  Proof. intro L. unfold mult_recv_check. now rewrite L, Nat.eqb_refl. Qed.

  (* the repaired length check: a message with the wrong number of check values is an error *)
  Lemma mult_recv_wrong_len result rcheck ucheck gadget :
    length rcheck <> length result ->
    mult_recv q chi0 chi1 choices result rcheck ucheck gadget = RErr.
  Proof.
    intro L. unfold mult_recv, mult_recv_check.
    destruct (Nat.eqb_spec (length rcheck) (length result)); [contradiction|reflexivity].
  Qed.

  (* what the receiver ends with when the sender's message was altered by (d0, d1, e, f):
     never a panic; an error; or acceptance, and then the acceptance condition holds and the two
     shares add up to alpha * <choices, gadget> + sum_j c_j * d0_j * g_j *)
  Theorem multiply_altered alpha d0 d1 e f send recv gadget rcheck ucheck sS :
    additive_check_from q 0 alpha choices send recv = true ->
    length gadget = length send ->
    mult_send q alpha chi0 chi1 send gadget = ROk (rcheck, ucheck, sS) ->
    let recv' := alter_recv q choices 0 d0 d1 recv in
    let out := mult_recv q chi0 chi1 choices recv' (alter_rcheck q 0 e rcheck) (zadd q ucheck f) gadget in
    out = RErr \/
    exists sR, out = ROk sR /\
      accept_cond q chi0 chi1 choices 0 (length send) d0 d1 e f /\
      eqm q (sS + sR) (fst alpha * gadget_dot q gadget choices + esum choices 0 d0 gadget).
  Proof.
    intros C Lg S recv' out.
    destruct (mult_send_inv _ _ _ _ _ _ S) as (_ & -> & -> & ->).
    destruct (additive_check_from_nth_inv q alpha choices _ _ _ C) as [L _].
    unfold out, mult_recv.
    rewrite mult_recv_check_same_len
      by (unfold recv'; now rewrite alter_rcheck_length, map_length, alter_recv_length).
    destruct (multiply_check_altered q Hq chi0 chi1 choices alpha d0 d1 e f send recv C) as [[A R]|[_ R]];
      fold recv' in R; rewrite R; cbn [res_bind]; [|now left].
    right. unfold mult_share.
    destruct (Nat.ltb_spec (length gadget) (length recv')) as [L'|_];
      [unfold recv' in L'; rewrite alter_recv_length in L'; lia|].
    eexists. split; [reflexivity|]. split; [exact A|].
    unfold recv'. rewrite (shares_sum_gen q choices alpha d0 d1 send recv gadget 0 0 0 C Lg).
    unfold gadget_dot. rewrite (dot_from_eqm q). eqm_ring q.
  Qed.

  (* the honest case *)
  Theorem multiply_layer_correct alpha send recv gadget rcheck ucheck sS :
    additive_check_from q 0 alpha choices send recv = true ->
    Forall (fun r => 0 <= fst r < q /\ 0 <= snd r < q) recv ->
    length gadget = length send ->
    mult_send q alpha chi0 chi1 send gadget = ROk (rcheck, ucheck, sS) ->
    exists sR, mult_recv q chi0 chi1 choices recv rcheck ucheck gadget = ROk sR /\
               zadd q sS sR = zmul q (fst alpha) (gadget_dot q gadget choices).
  Proof.
    intros C Fr Lg S.
    destruct (mult_send_inv _ _ _ _ _ _ S) as (_ & Er & Eu & ES).
    pose proof (multiply_altered alpha (fun _ => 0) (fun _ => 0) (fun _ => 0) 0 send recv gadget rcheck ucheck sS C Lg S) as M.
    cbn zeta in M. rewrite alter_recv_id in M by assumption.
    rewrite alter_rcheck_id in M
      by (subst rcheck; apply Forall_forall; intros x Hx; apply in_map_iff in Hx as (y & <- & _); apply zadd_range, Hq).
    replace (zadd q ucheck 0) with ucheck in M
      by (subst ucheck; unfold zadd at 1; rewrite Z.add_0_r, Z.mod_small; [reflexivity | apply zadd_range, Hq]).
    destruct M as [M|(sR & M & _ & E)].
    - exfalso. subst rcheck ucheck. unfold mult_recv in M.
      rewrite mult_recv_check_same_len in M
        by (rewrite map_length; apply (additive_check_from_nth_inv q alpha choices _ _ _ C)).
      rewrite (multiply_check_passes q Hq chi0 chi1 choices alpha send recv C) in M. cbn [res_bind] in M.
      unfold mult_share in M. destruct (length gadget <? length recv)%nat; discriminate.
    - exists sR. split; [exact M|].
      apply (eqm_small q); [apply zadd_range, Hq | apply zmul_range, Hq |]. zred q. rewrite E.
      assert (Z0 : forall g j, esum choices j (fun _ => 0) g = 0).
      { induction g as [|gi g IH]; intro j; cbn [esum]; [reflexivity|]. rewrite IH. ring. }
      rewrite Z0. eqm_ring q.
  Qed.

  Lemma esum_zero_d g : forall j, esum choices j (fun _ => 0) g = 0.
  Proof. induction g as [|gi g IH]; intro j; cbn [esum]; [reflexivity|]. rewrite IH. ring. Qed.

  (* only RCheck / UCheck / second pad components altered: error, or the product is still right *)
  Theorem multiply_altered_checks_only alpha d1 e f send recv gadget rcheck ucheck sS :
    additive_check_from q 0 alpha choices send recv = true ->
    length gadget = length send ->
    mult_send q alpha chi0 chi1 send gadget = ROk (rcheck, ucheck, sS) ->
    let recv' := alter_recv q choices 0 (fun _ => 0) d1 recv in
    let out := mult_recv q chi0 chi1 choices recv' (alter_rcheck q 0 e rcheck) (zadd q ucheck f) gadget in
    out = RErr \/
    exists sR, out = ROk sR /\ zadd q sS sR = zmul q (fst alpha) (gadget_dot q gadget choices).
  Proof.
    intros C Lg S recv' out.
    destruct (multiply_altered alpha (fun _ => 0) d1 e f send recv gadget rcheck ucheck sS C Lg S)
      as [M|(sR & M & _ & E)]; [now left|]. right. exists sR. split; [exact M|].
    apply (eqm_small q); [apply zadd_range, Hq | apply zmul_range, Hq |]. zred q. rewrite E, esum_zero_d.
    eqm_ring q.
  Qed.

  (* an altered RCheck entry (alone) is always rejected *)
  Theorem multiply_altered_rcheck_rejected alpha e i send recv gadget rcheck ucheck sS :
    additive_check_from q 0 alpha choices send recv = true ->
    length gadget = length send ->
    mult_send q alpha chi0 chi1 send gadget = ROk (rcheck, ucheck, sS) ->
    (i < length send)%nat -> ~ eqm q (e i) 0 ->
    mult_recv q chi0 chi1 choices (alter_recv q choices 0 (fun _ => 0) (fun _ => 0) recv)
      (alter_rcheck q 0 e rcheck) (zadd q ucheck 0) gadget = RErr.
  Proof.
    intros C Lg S Li Ne.
    destruct (multiply_altered alpha (fun _ => 0) (fun _ => 0) e 0 send recv gadget rcheck ucheck sS C Lg S)
      as [M|(sR & _ & A & _)]; [exact M|].
    exfalso. apply Ne. rewrite accept_cond_nth in A. specialize (A i Li). cbn [Nat.add] in A.
    transitivity (b2z (bit_at i choices) * 0 - (b2z (bit_at i choices) * 0 - e i)); [eqm_ring q|].
    rewrite <- A. eqm_ring q.
  Qed.

  (* first pad components altered (any number of them), q prime and chi0 <> 0 mod q:
     error, or the product is still right *)
  Theorem multiply_altered_pads alpha d0 send recv gadget rcheck ucheck sS :
    prime q -> ~ eqm q chi0 0 ->
    additive_check_from q 0 alpha choices send recv = true ->
    length gadget = length send ->
    mult_send q alpha chi0 chi1 send gadget = ROk (rcheck, ucheck, sS) ->
    let recv' := alter_recv q choices 0 d0 (fun _ => 0) recv in
    let out := mult_recv q chi0 chi1 choices recv' (alter_rcheck q 0 (fun _ => 0) rcheck) (zadd q ucheck 0) gadget in
    out = RErr \/
    exists sR, out = ROk sR /\ zadd q sS sR = zmul q (fst alpha) (gadget_dot q gadget choices).
  Proof.
    intros Pq Nchi C Lg S recv' out.
    destruct (multiply_altered alpha d0 (fun _ => 0) (fun _ => 0) 0 send recv gadget rcheck ucheck sS C Lg S)
      as [M|(sR & M & A & E)]; [now left|]. right. exists sR. split; [exact M|].
    apply (eqm_small q); [apply zadd_range, Hq | apply zmul_range, Hq |]. zred q. rewrite E.
    assert (Z0 : forall g j, accept_cond q chi0 chi1 choices j (length g) d0 (fun _ => 0) (fun _ => 0) 0 ->
                             eqm q (esum choices j d0 g) 0).
    { induction g as [|gi g IH]; intros j AC; cbn [esum]; [reflexivity|].
      cbn [length accept_cond] in AC. destruct AC as [A0 A1]. rewrite (IH _ A1).
      set (c := b2z (bit_at j choices)) in *.
      assert (A0' : eqm q (c * d0 j * chi0) 0).
      { transitivity (c * (d0 j * chi0 + 0 * chi1)); [eqm_ring q|]. rewrite A0. eqm_ring q. }
      assert (D : (q | c * d0 j * chi0)).
      { apply Z.mod_divide; [lia|]. unfold eqm in A0'. now rewrite Z.mod_0_l in A0' by lia. }
      destruct (prime_mult q Pq _ _ D) as [D1|D2].
      - assert (E1 : eqm q (c * d0 j) 0).
        { unfold eqm. rewrite Z.mod_0_l by lia. apply Z.mod_divide; [lia|exact D1]. }
        rewrite E1. eqm_ring q.
      - exfalso. apply Nchi. unfold eqm. rewrite Z.mod_0_l by lia. apply Z.mod_divide; [lia|exact D2]. }
    rewrite <- Lg in A. rewrite (Z0 gadget 0%nat A). eqm_ring q.
  Qed.
End MultiplyLayer.

(* ========================================================================================== *)
(** * J. the whole stack, honest parties: Multiply always returns shares of alpha * beta *)

Section EndToEnd.
  Variables (q : Z) (nb : nat) (sc2 : bytes -> Z * Z) (hV : bytes -> bytes -> bytes)
            (prg : bytes -> nat -> bytes).
  Hypothesis Hq : 0 < q.
  Hypothesis Hqnb : q <= Z.of_N (256 ^ N.of_nat nb).
  Hypothesis sc2_range : forall x, 0 <= fst (sc2 x) < q /\ 0 <= snd (sc2 x) < q.
  Hypothesis prg_ok : forall k n, okrow n (prg k n).

  Record mult_inputs_ok (k8 : nat) (x : mult_inputs) : Prop := {
    ok_k8 : (k8 <= 16)%nat;
    ok_beta : 0 <= mi_beta x < q;
    ok_noise : length (mi_noise x) = (8 * length (mi_gamma x))%nat;
    ok_gamma : wf_bytes (mi_gamma x) = true;
    ok_delta : okrow k8 (mi_delta x);
    ok_K0 : length (mi_K0 x) = (8 * k8)%nat;
    ok_K1 : length (mi_K1 x) = (8 * k8)%nat;
    ok_pad : wf_bytes (mi_pad x) = true;
    ok_chi : Forall (okrow k8) (mi_chi x);
    ok_chi_len : length (mi_chi x) = (8 * (nb + length (mi_gamma x) + length (mi_pad x)))%nat }.

  Lemma map_prg_ok n (K : list bytes) : Forall (okrow n) (map (fun k => prg k n) K).
  Proof. apply Forall_forall. intros r Hr. apply in_map_iff in Hr as (k & <- & _). apply prg_ok. Qed.

  Lemma nth_map_prg n (K : list bytes) i : (i < length K)%nat ->
    nth i (map (fun k => prg k n) K) [] = prg (nth i K []) n.
  Proof.
    intro L. rewrite (nth_indep _ [] (prg [] n)) by now rewrite map_length.
    apply (map_nth (fun k => prg k n)).
  Qed.

  Lemma TD_honest delta K0 K1 n : length K0 = length K1 ->
    map (fun k => prg k n) (corre_setup_KDelta delta K0 K1)
    = honest_TD delta (map (fun k => prg k n) K0) (map (fun k => prg k n) K1).
  Proof.
    intro L. unfold corre_setup_KDelta, honest_TD. rewrite map_map, map_length.
    apply map_ext_in. intros i Hi. apply in_seq in Hi.
    rewrite !nth_map_prg by llia. now destruct (bit_at i delta).
  Qed.

  Theorem multiply_correct k8 x : mult_inputs_ok k8 x ->
    exists sS sR, mult_run q nb sc2 hV prg x = ROk (sS, sR) /\
                  mult_check q (mi_alpha x) (mi_beta x) sS sR = true.
  Proof.
    intros [Hk8 Hbeta Hnoise Wgamma Hdelta LK0 LK1 Wpad Fchi Lchi].
    unfold mult_run.
    set (gadget := make_gadget q nb (mi_noise x)).
    set (choices := encode q nb (mi_beta x) (mi_noise x) (mi_gamma x)).
    set (extra := choices ++ mi_pad x).
    set (nbytes := length extra).
    set (T0 := map (fun k => prg k nbytes) (mi_K0 x)).
    set (T1 := map (fun k => prg k nbytes) (mi_K1 x)).
    rewrite (TD_honest (mi_delta x) (mi_K0 x) (mi_K1 x) nbytes) by congruence.
    fold T0 T1.
    assert (Hchoices : okrow (nb + length (mi_gamma x)) choices).
    { unfold choices, encode. split.
      - unfold scalar_marshal. now rewrite app_length, be_bytes_length.
      - rewrite wf_bytes_app. unfold scalar_marshal. now rewrite be_bytes_wf, Wgamma. }
    assert (Hextra : okrow nbytes extra).
    { split; [reflexivity|]. unfold extra. rewrite wf_bytes_app. destruct Hchoices as [_ ->]. now rewrite Wpad. }
    assert (Lnbytes : nbytes = (nb + length (mi_gamma x) + length (mi_pad x))%nat).
    { unfold nbytes, extra. rewrite app_length. destruct Hchoices as [-> _]. reflexivity. }
    assert (LT0 : length T0 = (8 * k8)%nat) by (unfold T0; now rewrite map_length).
    assert (LT1 : length T1 = (8 * k8)%nat) by (unfold T1; now rewrite map_length).
    assert (FT0 : Forall (okrow nbytes) T0) by apply map_prg_ok.
    assert (FT1 : Forall (okrow nbytes) T1) by apply map_prg_ok.
    unfold ext_recv. cbn [corre_recv].
    destruct (corre_ot_relation (mi_delta x) extra T0 T1 k8 nbytes Hdelta Hextra LT0 LT1 FT0 FT1)
      as (Qrows & ES & CC).
    cbn [corre_recv snd] in CC. replace (length extra) with nbytes in CC by reflexivity.
    set (Trows := transpose_bits (8 * nbytes) T0) in *.
    assert (FTrows : Forall (okrow k8) Trows).
    { apply Forall_forall. intros r Hr. apply transpose_bits_rows in Hr.
      replace ((length T0 + 7) / 8)%nat with k8 in Hr by (rewrite LT0; llia). exact Hr. }
    assert (LTrows : length Trows = (8 * nbytes)%nat) by apply transpose_bits_length.
    unfold ext_send. rewrite ES. cbn [res_bind].
    replace (length T0 / 8)%nat with k8 by (rewrite LT0; llia).
    fold nbytes. fold Trows.
    rewrite (extended_check_passes k8 (mi_delta x) Hk8 Hdelta extra Trows Qrows (mi_chi x) CC FTrows Fchi)
      by (rewrite LTrows, Lchi, Lnbytes; reflexivity).
    cbn [res_bind].
    assert (Lgadget : length gadget = (8 * length choices)%nat).
    { unfold gadget, make_gadget. rewrite app_length, (gadget_pows_length q Hq), Hnoise.
      destruct Hchoices as [-> _]. llia. }
    set (V := ext_send_V hV (mi_delta x) Qrows (length gadget)).
    set (VC := ext_recv_V hV Trows (8 * length choices)).
    assert (LV : length V = (8 * length choices)%nat)
      by (unfold V, ext_send_V; now rewrite map_length, seq_length).
    assert (Lc : length choices = (nb + length (mi_gamma x))%nat) by apply Hchoices.
    assert (HVC : forall j, (j < length V)%nat ->
              nth j VC [] = (if bit_at j choices then snd else fst) (nth j V ([], []))).
    { intros j Lj. unfold VC, V. rewrite Lgadget.
      rewrite (extended_output k8 (mi_delta x) Hdelta hV extra Trows Qrows (8 * length choices) j CC FTrows)
        by (rewrite ?LTrows, ?Lnbytes; llia).
      unfold extra. rewrite bit_at_app_l by llia. reflexivity. }
    destruct (additive_ot_sum q nb sc2 Hq Hqnb sc2_range (mi_alpha x, mi_alphahat x) choices V VC LV)
      as (recv & AR & AC & FR); [exact HVC |].
    destruct (additive_send q nb sc2 (mi_alpha x, mi_alphahat x) V) as [CP sres] eqn:EAS.
    cbn [fst snd] in AR, AC.
    assert (Lsres : length sres = length V).
    { apply (f_equal snd) in EAS. cbn [snd] in EAS. subst sres.
      unfold additive_send. cbn [snd]. now rewrite !map_length. }
    destruct (mult_send q (mi_alpha x, mi_alphahat x) (mi_chi0 x) (mi_chi1 x) sres gadget)
      as [[[rcheck ucheck] sS]| |] eqn:EMS.
    2,3: (unfold mult_send, mult_share in EMS;
          destruct (Nat.ltb_spec (length gadget) (length sres)); [llia | discriminate]).
    cbn [res_bind]. rewrite AR. cbn [res_bind].
    destruct (multiply_layer_correct q Hq (mi_chi0 x) (mi_chi1 x) choices (mi_alpha x, mi_alphahat x)
                sres recv gadget rcheck ucheck sS AC FR) as (sR & MR & E); [llia | exact EMS |].
    rewrite MR. cbn [res_bind]. exists sS, sR. split; [reflexivity|].
    unfold mult_check. apply Z.eqb_eq. rewrite E. cbn [fst]. f_equal.
    apply (gadget_encode_decode q Hq); assumption.
  Qed.
End EndToEnd.

(* ========================================================================================== *)
(** * K. additive OT with altered (but well-formed) pads; the malformed case *)

Section AdditiveAltered.
  Variables (q : Z) (nb : nat) (sc2 : bytes -> Z * Z).
  Hypothesis Hq : 0 < q.
  Hypothesis Hqnb : q <= Z.of_N (256 ^ N.of_nat nb).

  Definition pad_val (b : bytes) : Z := Z.of_N (be_val b).
  Definition pad_ok (p : bytes * bytes) : Prop :=
    okrow nb (fst p) /\ okrow nb (snd p) /\ pad_val (fst p) < q /\ pad_val (snd p) < q.

  (* every pad replaced by the encoding of (pad + d) mod q *)
  Fixpoint alter_pads (j : nat) (d0 d1 : nat -> Z) (CP : list (bytes * bytes)) : list (bytes * bytes) :=
    match CP with
    | [] => []
    | cp :: CP' =>
        (scalar_marshal nb (zadd q (pad_val (fst cp)) (d0 j)),
         scalar_marshal nb (zadd q (pad_val (snd cp)) (d1 j))) :: alter_pads (S j) d0 d1 CP'
    end.

  Definition recv_fun (choices : bytes) (VC : list bytes) (CP : list (bytes * bytes)) (j : nat) : Z * Z :=
    let c := bit_at j choices in
    let v := sc2 (nth j VC []) in
    let cp := nth j CP ([], []) in
    (zadd q (zneg q (fst v)) (if c then pad_val (fst cp) else 0),
     zadd q (zneg q (snd v)) (if c then pad_val (snd cp) else 0)).

  Lemma unmarshal_ok pad : okrow nb pad -> pad_val pad < q -> scalar_unmarshal q nb pad = Some (pad_val pad).
  Proof.
    intros [L _] V. unfold scalar_unmarshal. rewrite L, Nat.eqb_refl. fold (pad_val pad).
    destruct (Z.ltb_spec (pad_val pad) q); [reflexivity|lia].
  Qed.

  (* the receiver on any message whose pads are all well-formed: no error, no panic *)
  Lemma additive_recv_wellformed choices VC CP :
    length CP = (8 * length choices)%nat ->
    (forall p, In p CP -> pad_ok p) ->
    additive_recv q nb sc2 choices VC CP = ROk (map (recv_fun choices VC CP) (seq 0 (8 * length choices))).
  Proof.
    intros LCP OK.
    unfold additive_recv. rewrite LCP, Nat.eqb_refl. cbn [negb].
    apply res_map_ok. intros j Hj. apply in_seq in Hj.
    assert (Lj : (j < length CP)%nat) by llia.
    destruct (OK (nth j CP ([], [])) (nth_In _ _ Lj)) as (O0 & O1 & V0 & V1).
    unfold additive_recv_one, recv_fun, masked_pad. unfold bytes, byte in *.
    destruct (sc2 (nth j VC [])) as [v0 v1]. cbn [fst snd].
    destruct (bit_at j choices).
    - rewrite !mask_bytes_true by (apply O0 || apply O1).
      rewrite !unmarshal_ok by assumption. reflexivity.
    - rewrite !mask_bytes_false. destruct O0 as [-> _], O1 as [-> _].
      rewrite !(unmarshal_zeros q nb Hq Hqnb). reflexivity.
  Qed.

  Lemma alter_pads_length d0 d1 : forall CP j, length (alter_pads j d0 d1 CP) = length CP.
  Proof. induction CP as [|cp CP IH]; intro j; cbn; [reflexivity | now rewrite IH]. Qed.

  Lemma alter_pads_ok d0 d1 : forall CP j p, In p (alter_pads j d0 d1 CP) -> pad_ok p.
  Proof.
    induction CP as [|cp CP IH]; intros j p Hp; [inversion Hp|].
    cbn [alter_pads] in Hp. destruct Hp as [<-|Hp]; [|now apply (IH (S j))].
    unfold pad_ok, pad_val. cbn [fst snd].
    rewrite !(marshal_val q nb Hqnb) by apply zadd_range, Hq.
    repeat split; try apply be_bytes_length; try apply be_bytes_wf; apply zadd_range, Hq.
  Qed.

  Lemma nth_alter_pads d0 d1 : forall CP j t, (t < length CP)%nat ->
    nth t (alter_pads j d0 d1 CP) ([], [])
    = (scalar_marshal nb (zadd q (pad_val (fst (nth t CP ([], [])))) (d0 (j + t)%nat)),
       scalar_marshal nb (zadd q (pad_val (snd (nth t CP ([], [])))) (d1 (j + t)%nat))).
  Proof.
    induction CP as [|cp CP IH]; intros j t Lt; [inversion Lt|].
    destruct t as [|t]; cbn [alter_pads nth].
    - now rewrite Nat.add_0_r.
    - rewrite IH by (cbn in Lt; lia). now replace (S j + t)%nat with (j + S t)%nat by lia.
  Qed.

  Lemma alter_recv_map_seq choices d0 d1 (g : nat -> Z * Z) : forall n j,
    alter_recv q choices j d0 d1 (map g (seq j n))
    = map (fun t => (zadd q (fst (g t)) (zmul q (b2z (bit_at t choices)) (d0 t)),
                     zadd q (snd (g t)) (zmul q (b2z (bit_at t choices)) (d1 t)))) (seq j n).
  Proof.
    induction n as [|n IH]; intro j; [reflexivity|].
    cbn [seq map alter_recv]. now rewrite IH.
  Qed.

  (* altering the pads to other valid scalars moves the receiver's output by c_j * d_j:
     this is the alteration studied at the Multiply layer *)
  Theorem additive_altered_pads choices VC CP d0 d1 :
    length CP = (8 * length choices)%nat ->
    (forall p, In p CP -> pad_ok p) ->
    exists recv,
      additive_recv q nb sc2 choices VC CP = ROk recv /\
      additive_recv q nb sc2 choices VC (alter_pads 0 d0 d1 CP) = ROk (alter_recv q choices 0 d0 d1 recv).
  Proof.
    intros LCP OK. eexists. split; [now apply additive_recv_wellformed|].
    rewrite additive_recv_wellformed;
      [| now rewrite alter_pads_length | apply alter_pads_ok].
    f_equal. rewrite alter_recv_map_seq. apply map_ext_in. intros j Hj. apply in_seq in Hj.
    unfold recv_fun. rewrite nth_alter_pads by llia. cbn [fst snd Nat.add].
    unfold pad_val at 1 3. rewrite !(marshal_val q nb Hqnb) by apply zadd_range, Hq.
    destruct (bit_at j choices); cbn [b2z];
      f_equal; (apply (eqm_small q); [apply zadd_range, Hq | apply zadd_range, Hq |]); zred q; eqm_ring q.
  Qed.

  (* the sender's honest message is well-formed *)
  Lemma additive_send_pads_ok alpha V p :
    In p (fst (additive_send q nb sc2 alpha V)) -> pad_ok p.
  Proof.
    unfold additive_send. cbn [fst]. rewrite map_map. intro Hp.
    apply in_map_iff in Hp as (v & <- & _). rewrite additive_send_one_spec. cbn [fst].
    unfold pad_ok, pad_val. cbn [fst snd].
    rewrite !(marshal_val q nb Hqnb) by apply zadd_range, Hq.
    repeat split; try apply be_bytes_length; try apply be_bytes_wf; apply zadd_range, Hq.
  Qed.
End AdditiveAltered.

(* ---- arbitrary (malformed) sender messages: the repaired receiver never panics ---- *)
Section NeverPanics.
  Variables (q : Z) (nb : nat) (sc2 : bytes -> Z * Z).

  Lemma additive_recv_one_cases choices VC CP i :
    (pads_ok_at q nb choices CP i = true /\ exists r, additive_recv_one q nb sc2 choices VC CP i = ROk r) \/
    (pads_ok_at q nb choices CP i = false /\ additive_recv_one q nb sc2 choices VC CP i = RErr).
  Proof.
    unfold additive_recv_one, pads_ok_at, pad_decodes. cbn zeta. unfold bytes, byte in *.
    destruct (sc2 (nth i VC [])) as [v0 v1].
    destruct (scalar_unmarshal q nb (masked_pad (bit_at i choices) (fst (nth i CP ([], []))))) as [c0|];
      destruct (scalar_unmarshal q nb (masked_pad (bit_at i choices) (snd (nth i CP ([], []))))) as [c1|];
      cbn [andb]; [left; split; [reflexivity | eexists; reflexivity] | right; now split ..].
  Qed.

  (* exact outcome of AdditiveOTReceiver.Round2 on ANY message: decided by [additive_msg_ok]
     (number of pads, and every masked pad decodes), independent of the OT pads and of the hash *)
  Theorem additive_recv_outcome choices VC CP :
    (additive_msg_ok q nb choices CP = true ->
       exists recv, additive_recv q nb sc2 choices VC CP = ROk recv /\ length recv = (8 * length choices)%nat) /\
    (additive_msg_ok q nb choices CP = false -> additive_recv q nb sc2 choices VC CP = RErr).
  Proof.
    unfold additive_msg_ok, additive_recv.
    destruct (Nat.eqb_spec (length CP) (8 * length choices)) as [L|L]; cbn [negb andb];
      [|split; [discriminate|reflexivity]].
    assert (Ll : length (seq 0 (8 * length choices)) = (8 * length choices)%nat) by apply seq_length.
    revert Ll. generalize (seq 0 (8 * length choices)). intros l Ll.
    assert (NP : forall a, In a l -> additive_recv_one q nb sc2 choices VC CP a <> RPanic).
    { intros a _. destruct (additive_recv_one_cases choices VC CP a) as [[_ [r ->]]|[_ ->]]; discriminate. }
    split; intro E.
    - assert (X : exists r, res_map (additive_recv_one q nb sc2 choices VC CP) l = ROk r).
      { clear NP Ll. induction l as [|a l IH]; [now exists []|].
        cbn [forallb] in E. apply andb_true_iff in E as [Ea El]. destruct (IH El) as [r Er].
        destruct (additive_recv_one_cases choices VC CP a) as [[_ [ra Era]]|[F _]]; [|congruence].
        cbn [res_map]. rewrite Era, Er. cbn [res_bind]. now eexists. }
      destruct X as [r R]. exists r. split; [exact R|].
      apply res_map_length in R. now rewrite R.
    - apply res_map_err; [exact NP|]. clear NP Ll.
      induction l as [|a l IH]; [discriminate|].
      cbn [forallb] in E. apply andb_false_iff in E as [Ea|El].
      + exists a. split; [now left|].
        destruct (additive_recv_one_cases choices VC CP a) as [[T _]|[_ R]]; [congruence|exact R].
      + destruct (IH El) as (x & Hx & Ex). exists x. split; [now right|exact Ex].
  Qed.

  Theorem additive_recv_never_panics choices VC CP :
    additive_recv q nb sc2 choices VC CP <> RPanic.
  Proof.
    destruct (additive_recv_outcome choices VC CP) as [A B].
    destruct (additive_msg_ok q nb choices CP).
    - destruct (A eq_refl) as (r & -> & _). discriminate.
    - rewrite (B eq_refl). discriminate.
  Qed.

  (* a message with the wrong number of pads, or with a pad of the wrong length (short or long,
     either component, whatever the choice bit): error *)
  Theorem additive_malformed_rejected choices VC CP :
    length CP <> (8 * length choices)%nat \/
    (exists i, (i < 8 * length choices)%nat /\
               (length (fst (nth i CP ([], []))) <> nb \/ length (snd (nth i CP ([], []))) <> nb)) ->
    additive_recv q nb sc2 choices VC CP = RErr.
  Proof.
    intro M. apply (additive_recv_outcome choices VC CP). unfold additive_msg_ok.
    apply andb_false_iff.
    destruct M as [M|(i & Li & M)]; [left; apply Nat.eqb_neq; exact M|].
    right. apply not_true_iff_false. intro F. rewrite forallb_forall in F.
    assert (Hi : In i (seq 0 (8 * length choices))) by (apply in_seq; lia).
    specialize (F i Hi). unfold pads_ok_at in F. cbn zeta in F.
    apply andb_true_iff in F as [F0 F1]. unfold pad_decodes, scalar_unmarshal, masked_pad in F0, F1.
    rewrite mask_bytes_length in F0, F1. unfold bytes, byte in *.
    destruct M as [M|M]; apply Nat.eqb_neq in M.
    - rewrite M in F0. discriminate.
    - rewrite M in F1. discriminate.
  Qed.

  Variables (chi0 chi1 : Z) (choices : bytes) (VC : list bytes) (gadget : list Z).
  Hypothesis Hgadget : length gadget = (8 * length choices)%nat.

  (* MultiplyReceiver.Round2 on ANY sender message: a share or an error, never a panic *)
  Theorem multiply_never_panics CP rcheck ucheck :
    mult_recv_round2 q nb sc2 chi0 chi1 choices VC gadget CP rcheck ucheck <> RPanic.
  Proof.
    unfold mult_recv_round2.
    destruct (additive_recv_outcome choices VC CP) as [A B].
    destruct (additive_msg_ok q nb choices CP); [|rewrite (B eq_refl); discriminate].
    destruct (A eq_refl) as (recv & -> & Lr). cbn [res_bind].
    unfold mult_recv, mult_recv_check.
    destruct (Nat.eqb_spec (length rcheck) (length recv)) as [L|L]; cbn [negb res_bind]; [|discriminate].
    destruct (mult_recv_check_dichotomy q chi0 chi1 choices ucheck recv rcheck 0) as [[R _]|[R _]];
      [lia | | rewrite R; discriminate].
    rewrite R. cbn [res_bind]. unfold mult_share.
    destruct (Nat.ltb_spec (length gadget) (length recv)); [lia|discriminate].
  Qed.

  Theorem multiply_malformed_rejected CP rcheck ucheck :
    length CP <> (8 * length choices)%nat \/
    (exists i, (i < 8 * length choices)%nat /\
               (length (fst (nth i CP ([], []))) <> nb \/ length (snd (nth i CP ([], []))) <> nb)) \/
    length rcheck <> (8 * length choices)%nat ->
    mult_recv_round2 q nb sc2 chi0 chi1 choices VC gadget CP rcheck ucheck = RErr.
  Proof.
    intro M. unfold mult_recv_round2.
    destruct M as [M|[M|M]].
    1: { rewrite additive_malformed_rejected by (left; exact M). reflexivity. }
    1: { rewrite additive_malformed_rejected by (right; exact M). reflexivity. }
    destruct (additive_recv_outcome choices VC CP) as [A B].
    destruct (additive_msg_ok q nb choices CP); [|now rewrite (B eq_refl)].
    destruct (A eq_refl) as (recv & -> & Lr). cbn [res_bind].
    apply mult_recv_wrong_len. rewrite Lr. exact M.
  Qed.
End NeverPanics.

(* A malformed alteration: one pad of an otherwise honest message is cut short.  The receiver's
   masking loop indexes past the end of that pad: Go panics (confirmed on the Go code: "index out of
   range [5] with length 5"), i.e. neither an error return nor a correct product. *)
Definition demo_sc2 (b : bytes) : Z * Z :=
  ((Z.of_N (le_val b) * 3 + 1) mod secp256k1_q, (Z.of_N (le_val b) * 5 + 2) mod secp256k1_q).
Definition demo_choices : bytes := [165; 90; 255; 0; 19]%N.
Definition demo_V : list (bytes * bytes) :=
  map (fun i => ([N.of_nat i; 1%N], [N.of_nat i; 2%N])) (seq 0 40).
Definition demo_VC : list bytes :=
  map (fun i => (if bit_at i demo_choices then snd else fst) (nth i demo_V ([], []))) (seq 0 40).
Definition demo_CP : list (bytes * bytes) :=
  fst (additive_send secp256k1_q 32 demo_sc2 (11, 12) demo_V).
(* entry 7, first pad, truncated to 5 bytes *)
Definition demo_CP_short : list (bytes * bytes) :=
  firstn 7 demo_CP ++ [(firstn 5 (fst (nth 7 demo_CP ([], []))), snd (nth 7 demo_CP ([], [])))] ++ skipn 8 demo_CP.

Lemma demo_honest_ok :
  exists recv, additive_recv secp256k1_q 32 demo_sc2 demo_choices demo_VC demo_CP = ROk recv.
Proof. eexists. vm_compute. reflexivity. Qed.

(* before the repair *)
Theorem additive_short_pad_panics_v0 :
  additive_recv_v0 secp256k1_q 32 demo_sc2 demo_choices demo_VC demo_CP_short = RPanic.
Proof. vm_compute. reflexivity. Qed.
Lemma demo_honest_ok_v0 :
  exists recv, additive_recv_v0 secp256k1_q 32 demo_sc2 demo_choices demo_VC demo_CP = ROk recv.
Proof. eexists. vm_compute. reflexivity. Qed.
(* after the repair: an error *)
Theorem additive_short_pad_rejected :
  additive_recv secp256k1_q 32 demo_sc2 demo_choices demo_VC demo_CP_short = RErr.
Proof. vm_compute. reflexivity. Qed.

(* ========================================================================================== *)
(** * L. packaged statements, witnesses for the refuted statements, concrete instances *)

Lemma clmul_bilinear :
  (forall a b c, clmul (N.lxor a b) c = N.lxor (clmul a c) (clmul b c)) /\
  (forall a b c, clmul a (N.lxor b c) = N.lxor (clmul a b) (clmul a c)).
Proof. split; [exact clmul_lxor_l | exact clmul_lxor_r]. Qed.

(* fieldElement.accumulate on [16]byte arguments *)
Lemma accumulate_bytes_spec f a b :
  okrow 16 a -> okrow 16 b -> accumulate_bytes f a b = N.lxor f (clmul (le_val a) (le_val b)).
Proof.
  intros Ha Hb. unfold accumulate_bytes.
  apply accumulate_spec; apply (okrow_lt 16); try assumption; apply Nat.le_refl.
Qed.

Lemma demo_sc2_range : forall x, 0 <= fst (demo_sc2 x) < secp256k1_q /\ 0 <= snd (demo_sc2 x) < secp256k1_q.
Proof. intro x. unfold demo_sc2. cbn [fst snd]. split; apply Z.mod_pos_bound; reflexivity. Qed.

(* BEFORE the repair: AdditiveOT with a batch of at most 32 transfers, the honest receiver panics *)
Theorem additive_small_batch_refuted_v0 :
  exists (choices : bytes) (V : list (bytes * bytes)),
    length V = (8 * length choices)%nat /\ (0 < length V)%nat /\
    forall alpha VC,
      additive_recv_v0 secp256k1_q 32 demo_sc2 choices VC
        (fst (additive_send secp256k1_q 32 demo_sc2 alpha V)) = RPanic.
Proof.
  exists [165%N; 90%N; 255%N; 0%N], (firstn 32 demo_V). split; [reflexivity|]. split; [cbn; lia|].
  intros alpha VC. apply (additive_small_batch_panics secp256k1_q 32 demo_sc2); [reflexivity | cbn; lia].
Qed.

(* AFTER the repair the same honest run completes *)
Lemma additive_small_batch_ok :
  exists recv,
    additive_recv secp256k1_q 32 demo_sc2 [165%N; 90%N; 255%N; 0%N] (firstn 32 demo_VC)
      (fst (additive_send secp256k1_q 32 demo_sc2 (11, 12) (firstn 32 demo_V))) = ROk recv.
Proof. eexists. vm_compute. reflexivity. Qed.

(* BEFORE the repair: one altered field of the sender's message makes the honest receiver panic *)
Theorem altered_short_pad_refuted_v0 :
  exists CP CP' i,
    (exists recv, additive_recv_v0 secp256k1_q 32 demo_sc2 demo_choices demo_VC CP = ROk recv) /\
    length CP' = length CP /\
    (forall j, j <> i -> nth j CP' ([], []) = nth j CP ([], [])) /\
    snd (nth i CP' ([], [])) = snd (nth i CP ([], [])) /\
    additive_recv_v0 secp256k1_q 32 demo_sc2 demo_choices demo_VC CP' = RPanic.
Proof.
  exists demo_CP, demo_CP_short, 7%nat. split; [exact demo_honest_ok_v0|].
  split; [vm_compute; reflexivity|]. split.
  - intros j Hj.
    assert (L : (j < 40 \/ 40 <= j)%nat) by lia. destruct L as [L|L].
    + do 40 (destruct j as [|j]; [try (exfalso; apply Hj; reflexivity); vm_compute; reflexivity|]). lia.
    + rewrite !nth_overflow; [reflexivity | vm_compute; lia | vm_compute; lia].
  - split; [vm_compute; reflexivity | exact additive_short_pad_panics_v0].
Qed.

(* ---- toy hash functions and concrete runs ---- *)
Definition toy_prg (k : bytes) (n : nat) : bytes :=
  map (fun i => ((le_val k * 7 + N.of_nat i * 13 + 5) mod 256)%N) (seq 0 n).
Definition toy_sc2 (q : Z) (b : bytes) : Z * Z :=
  ((Z.of_N (le_val b) * 3 + 1) mod q, (Z.of_N (le_val b) * 5 + 2) mod q).
Definition toy_hV (ctr row : bytes) : bytes := xor_bytes (firstn (length row) (ctr ++ ctr ++ ctr ++ ctr)) row.
Definition toy_gen (seed : N) (n : nat) : bytes :=
  map (fun i => ((seed * 31 + N.of_nat i * 17 + N.of_nat i * N.of_nat i) mod 256)%N) (seq 0 n).

Lemma toy_prg_ok k n : okrow n (toy_prg k n).
Proof.
  unfold toy_prg. split; [now rewrite map_length, seq_length|].
  apply wf_bytes_In. intros x Hx. apply in_map_iff in Hx as (i & <- & _). now apply N.mod_lt.
Qed.

Lemma toy_sc2_range q : 0 < q -> forall x, 0 <= fst (toy_sc2 q x) < q /\ 0 <= snd (toy_sc2 q x) < q.
Proof. intros Hq x. unfold toy_sc2. cbn [fst snd]. split; now apply Z.mod_pos_bound. Qed.

Definition okrowb (k : nat) (r : bytes) : bool := (length r =? k)%nat && wf_bytes r.
Lemma okrowb_ok k r : okrowb k r = true -> okrow k r.
Proof. unfold okrowb. intro H. apply andb_true_iff in H as [L W]. apply Nat.eqb_eq in L. now split. Qed.
Lemma Forall_okrowb k l : forallb (okrowb k) l = true -> Forall (okrow k) l.
Proof. intro H. apply Forall_forall. intros x Hx. rewrite forallb_forall in H. apply okrowb_ok, H, Hx. Qed.

(* q = 251, one-byte scalars, 8 base OTs; alpha = q-1, beta = 0 *)
Definition tiny_inputs (alpha beta : Z) : mult_inputs := {|
  mi_alpha := alpha; mi_alphahat := 77; mi_beta := beta;
  mi_noise := [3; 250; 17; 100; 0; 1; 42; 199]; mi_gamma := [178%N];
  mi_delta := [109%N];
  mi_K0 := map (fun i => toy_gen (N.of_nat i) 2) (seq 0 8);
  mi_K1 := map (fun i => toy_gen (N.of_nat i + 100) 2) (seq 0 8);
  mi_pad := [60%N];
  mi_chi := map (fun i => toy_gen (N.of_nat i + 50) 1) (seq 0 24);
  mi_chi0 := 19; mi_chi1 := 200 |}.

Lemma tiny_inputs_ok alpha beta : 0 <= beta < 251 -> mult_inputs_ok 251 1 1 (tiny_inputs alpha beta).
Proof.
  intro Hb. constructor; cbn [tiny_inputs mi_beta mi_noise mi_gamma mi_delta mi_K0 mi_K1 mi_pad mi_chi];
    try reflexivity; try exact Hb; try lia.
  - now apply okrowb_ok.
  - now apply Forall_okrowb.
Qed.

(* secp256k1-size scalars (32 bytes, 416 noise entries, 672 transfers), 16 base OTs *)
Definition mid_inputs (alpha beta : Z) : mult_inputs := {|
  mi_alpha := alpha; mi_alphahat := 12345; mi_beta := beta;
  mi_noise := map (fun i => (Z.of_nat i * 1234567891011 + 99) mod secp256k1_q) (seq 0 416);
  mi_gamma := toy_gen 3 52;
  mi_delta := toy_gen 5 2;
  mi_K0 := map (fun i => toy_gen (N.of_nat i) 16) (seq 0 16);
  mi_K1 := map (fun i => toy_gen (N.of_nat i + 1000) 16) (seq 0 16);
  mi_pad := toy_gen 7 26;
  mi_chi := map (fun i => toy_gen (N.of_nat i + 5000) 2) (seq 0 880);
  mi_chi0 := 1111; mi_chi1 := 2222 |}.

Lemma mid_inputs_ok alpha beta : 0 <= beta < secp256k1_q -> mult_inputs_ok secp256k1_q 32 2 (mid_inputs alpha beta).
Proof.
  intro Hb. constructor; cbn [mid_inputs mi_beta mi_noise mi_gamma mi_delta mi_K0 mi_K1 mi_pad mi_chi];
    try exact Hb; try lia.
  - vm_compute. reflexivity.
  - vm_compute. reflexivity.
  - apply okrowb_ok. vm_compute. reflexivity.
  - vm_compute. reflexivity.
  - vm_compute. reflexivity.
  - vm_compute. reflexivity.
  - apply Forall_okrowb. vm_compute. reflexivity.
  - vm_compute. reflexivity.
Qed.
