(* SystemProofs.v -- multi-handler theorems over Model/Handler.v + Model/System.v
   (C06 no_split, C07 schedule independence, C04 equivocation blame).
   Everything is for arbitrary n, shape, oracles and schedules unless stated otherwise. *)
From Coq Require Import List NArith ZArith Bool Arith Lia Permutation.
From MPS Require Import Model.Handler Model.System.
Import ListNotations.

(* ================================================================== *)
(* 0. Primitive state transformers and their frame (projection) lemmas *)
(* ================================================================== *)
Definition with_hash (s : hstate) (r : nat) (d : N) : hstate :=
  mkH (h_self s) (h_n s) (h_ssid s) (h_proto s) (h_shape s) (h_cur s) (h_reached s)
      (h_qb s) (h_qp s) ((r, d) :: h_hashes s) (h_err s) (h_res s)
      (h_out s) (h_pending s) (h_closes s) (h_rt s).
Definition advance (s : hstate) (nr : nat) : hstate :=
  mkH (h_self s) (h_n s) (h_ssid s) (h_proto s) (h_shape s) nr (nr :: h_reached s)
      (h_qb s) (h_qp s) (h_hashes s) (h_err s) (h_res s)
      (h_out s) (h_pending s) (h_closes s) (h_rt s).
Definition set_res (s : hstate) : hstate :=
  mkH (h_self s) (h_n s) (h_ssid s) (h_proto s) (h_shape s) (h_cur s) (h_reached s)
      (h_qb s) (h_qp s) (h_hashes s) (h_err s) true
      (h_out s) (h_pending s) (h_closes s) (h_rt s).

Ltac dmatch :=
  repeat match goal with
         | |- context [match ?x with _ => _ end] => destruct x eqn:?
         | |- context [if ?x then _ else _] => destruct x eqn:?
         end.
Ltac prj := intros; unfold store, abort, close_out, emit, set_rt, drain, with_hash, advance, set_res;
            dmatch; cbn; dmatch; try reflexivity.

Lemma store_h_self (s : hstate) (m : msg) : h_self (store s m) = h_self s.
Proof. prj. Qed.
#[export] Hint Rewrite store_h_self : hp.
Lemma store_h_n (s : hstate) (m : msg) : h_n (store s m) = h_n s.
Proof. prj. Qed.
#[export] Hint Rewrite store_h_n : hp.
Lemma store_h_ssid (s : hstate) (m : msg) : h_ssid (store s m) = h_ssid s.
Proof. prj. Qed.
#[export] Hint Rewrite store_h_ssid : hp.
Lemma store_h_proto (s : hstate) (m : msg) : h_proto (store s m) = h_proto s.
Proof. prj. Qed.
#[export] Hint Rewrite store_h_proto : hp.
Lemma store_h_shape (s : hstate) (m : msg) : h_shape (store s m) = h_shape s.
Proof. prj. Qed.
#[export] Hint Rewrite store_h_shape : hp.
Lemma store_h_cur (s : hstate) (m : msg) : h_cur (store s m) = h_cur s.
Proof. prj. Qed.
#[export] Hint Rewrite store_h_cur : hp.
Lemma store_h_reached (s : hstate) (m : msg) : h_reached (store s m) = h_reached s.
Proof. prj. Qed.
#[export] Hint Rewrite store_h_reached : hp.
Lemma store_h_hashes (s : hstate) (m : msg) : h_hashes (store s m) = h_hashes s.
Proof. prj. Qed.
#[export] Hint Rewrite store_h_hashes : hp.
Lemma store_h_err (s : hstate) (m : msg) : h_err (store s m) = h_err s.
Proof. prj. Qed.
#[export] Hint Rewrite store_h_err : hp.
Lemma store_h_res (s : hstate) (m : msg) : h_res (store s m) = h_res s.
Proof. prj. Qed.
#[export] Hint Rewrite store_h_res : hp.
Lemma store_h_out (s : hstate) (m : msg) : h_out (store s m) = h_out s.
Proof. prj. Qed.
#[export] Hint Rewrite store_h_out : hp.
Lemma store_h_pending (s : hstate) (m : msg) : h_pending (store s m) = h_pending s.
Proof. prj. Qed.
#[export] Hint Rewrite store_h_pending : hp.
Lemma store_h_closes (s : hstate) (m : msg) : h_closes (store s m) = h_closes s.
Proof. prj. Qed.
#[export] Hint Rewrite store_h_closes : hp.
Lemma store_h_rt (s : hstate) (m : msg) : h_rt (store s m) = h_rt s.
Proof. prj. Qed.
#[export] Hint Rewrite store_h_rt : hp.
Lemma set_rt_h_self (s : hstate) (x : runtime) : h_self (set_rt s x) = h_self s.
Proof. prj. Qed.
#[export] Hint Rewrite set_rt_h_self : hp.
Lemma set_rt_h_n (s : hstate) (x : runtime) : h_n (set_rt s x) = h_n s.
Proof. prj. Qed.
#[export] Hint Rewrite set_rt_h_n : hp.
Lemma set_rt_h_ssid (s : hstate) (x : runtime) : h_ssid (set_rt s x) = h_ssid s.
Proof. prj. Qed.
#[export] Hint Rewrite set_rt_h_ssid : hp.
Lemma set_rt_h_proto (s : hstate) (x : runtime) : h_proto (set_rt s x) = h_proto s.
Proof. prj. Qed.
#[export] Hint Rewrite set_rt_h_proto : hp.
Lemma set_rt_h_shape (s : hstate) (x : runtime) : h_shape (set_rt s x) = h_shape s.
Proof. prj. Qed.
#[export] Hint Rewrite set_rt_h_shape : hp.
Lemma set_rt_h_cur (s : hstate) (x : runtime) : h_cur (set_rt s x) = h_cur s.
Proof. prj. Qed.
#[export] Hint Rewrite set_rt_h_cur : hp.
Lemma set_rt_h_reached (s : hstate) (x : runtime) : h_reached (set_rt s x) = h_reached s.
Proof. prj. Qed.
#[export] Hint Rewrite set_rt_h_reached : hp.
Lemma set_rt_h_qb (s : hstate) (x : runtime) : h_qb (set_rt s x) = h_qb s.
Proof. prj. Qed.
#[export] Hint Rewrite set_rt_h_qb : hp.
Lemma set_rt_h_qp (s : hstate) (x : runtime) : h_qp (set_rt s x) = h_qp s.
Proof. prj. Qed.
#[export] Hint Rewrite set_rt_h_qp : hp.
Lemma set_rt_h_hashes (s : hstate) (x : runtime) : h_hashes (set_rt s x) = h_hashes s.
Proof. prj. Qed.
#[export] Hint Rewrite set_rt_h_hashes : hp.
Lemma set_rt_h_err (s : hstate) (x : runtime) : h_err (set_rt s x) = h_err s.
Proof. prj. Qed.
#[export] Hint Rewrite set_rt_h_err : hp.
Lemma set_rt_h_res (s : hstate) (x : runtime) : h_res (set_rt s x) = h_res s.
Proof. prj. Qed.
#[export] Hint Rewrite set_rt_h_res : hp.
Lemma set_rt_h_out (s : hstate) (x : runtime) : h_out (set_rt s x) = h_out s.
Proof. prj. Qed.
#[export] Hint Rewrite set_rt_h_out : hp.
Lemma set_rt_h_pending (s : hstate) (x : runtime) : h_pending (set_rt s x) = h_pending s.
Proof. prj. Qed.
#[export] Hint Rewrite set_rt_h_pending : hp.
Lemma set_rt_h_closes (s : hstate) (x : runtime) : h_closes (set_rt s x) = h_closes s.
Proof. prj. Qed.
#[export] Hint Rewrite set_rt_h_closes : hp.
Lemma close_out_h_self (s : hstate) : h_self (close_out s) = h_self s.
Proof. prj. Qed.
#[export] Hint Rewrite close_out_h_self : hp.
Lemma close_out_h_n (s : hstate) : h_n (close_out s) = h_n s.
Proof. prj. Qed.
#[export] Hint Rewrite close_out_h_n : hp.
Lemma close_out_h_ssid (s : hstate) : h_ssid (close_out s) = h_ssid s.
Proof. prj. Qed.
#[export] Hint Rewrite close_out_h_ssid : hp.
Lemma close_out_h_proto (s : hstate) : h_proto (close_out s) = h_proto s.
Proof. prj. Qed.
#[export] Hint Rewrite close_out_h_proto : hp.
Lemma close_out_h_shape (s : hstate) : h_shape (close_out s) = h_shape s.
Proof. prj. Qed.
#[export] Hint Rewrite close_out_h_shape : hp.
Lemma close_out_h_cur (s : hstate) : h_cur (close_out s) = h_cur s.
Proof. prj. Qed.
#[export] Hint Rewrite close_out_h_cur : hp.
Lemma close_out_h_reached (s : hstate) : h_reached (close_out s) = h_reached s.
Proof. prj. Qed.
#[export] Hint Rewrite close_out_h_reached : hp.
Lemma close_out_h_qb (s : hstate) : h_qb (close_out s) = h_qb s.
Proof. prj. Qed.
#[export] Hint Rewrite close_out_h_qb : hp.
Lemma close_out_h_qp (s : hstate) : h_qp (close_out s) = h_qp s.
Proof. prj. Qed.
#[export] Hint Rewrite close_out_h_qp : hp.
Lemma close_out_h_hashes (s : hstate) : h_hashes (close_out s) = h_hashes s.
Proof. prj. Qed.
#[export] Hint Rewrite close_out_h_hashes : hp.
Lemma close_out_h_err (s : hstate) : h_err (close_out s) = h_err s.
Proof. prj. Qed.
#[export] Hint Rewrite close_out_h_err : hp.
Lemma close_out_h_res (s : hstate) : h_res (close_out s) = h_res s.
Proof. prj. Qed.
#[export] Hint Rewrite close_out_h_res : hp.
Lemma close_out_h_out (s : hstate) : h_out (close_out s) = h_out s.
Proof. prj. Qed.
#[export] Hint Rewrite close_out_h_out : hp.
Lemma close_out_h_pending (s : hstate) : h_pending (close_out s) = h_pending s.
Proof. prj. Qed.
#[export] Hint Rewrite close_out_h_pending : hp.
Lemma abort_h_self (s : hstate) (e : option (list party * errkind)) : h_self (abort s e) = h_self s.
Proof. prj. Qed.
#[export] Hint Rewrite abort_h_self : hp.
Lemma abort_h_n (s : hstate) (e : option (list party * errkind)) : h_n (abort s e) = h_n s.
Proof. prj. Qed.
#[export] Hint Rewrite abort_h_n : hp.
Lemma abort_h_ssid (s : hstate) (e : option (list party * errkind)) : h_ssid (abort s e) = h_ssid s.
Proof. prj. Qed.
#[export] Hint Rewrite abort_h_ssid : hp.
Lemma abort_h_proto (s : hstate) (e : option (list party * errkind)) : h_proto (abort s e) = h_proto s.
Proof. prj. Qed.
#[export] Hint Rewrite abort_h_proto : hp.
Lemma abort_h_shape (s : hstate) (e : option (list party * errkind)) : h_shape (abort s e) = h_shape s.
Proof. prj. Qed.
#[export] Hint Rewrite abort_h_shape : hp.
Lemma abort_h_cur (s : hstate) (e : option (list party * errkind)) : h_cur (abort s e) = h_cur s.
Proof. prj. Qed.
#[export] Hint Rewrite abort_h_cur : hp.
Lemma abort_h_reached (s : hstate) (e : option (list party * errkind)) : h_reached (abort s e) = h_reached s.
Proof. prj. Qed.
#[export] Hint Rewrite abort_h_reached : hp.
Lemma abort_h_qb (s : hstate) (e : option (list party * errkind)) : h_qb (abort s e) = h_qb s.
Proof. prj. Qed.
#[export] Hint Rewrite abort_h_qb : hp.
Lemma abort_h_qp (s : hstate) (e : option (list party * errkind)) : h_qp (abort s e) = h_qp s.
Proof. prj. Qed.
#[export] Hint Rewrite abort_h_qp : hp.
Lemma abort_h_hashes (s : hstate) (e : option (list party * errkind)) : h_hashes (abort s e) = h_hashes s.
Proof. prj. Qed.
#[export] Hint Rewrite abort_h_hashes : hp.
Lemma abort_h_res (s : hstate) (e : option (list party * errkind)) : h_res (abort s e) = h_res s.
Proof. prj. Qed.
#[export] Hint Rewrite abort_h_res : hp.
Lemma emit_h_self (s : hstate) (o : outmsg) : h_self (emit s o) = h_self s.
Proof. prj. Qed.
#[export] Hint Rewrite emit_h_self : hp.
Lemma emit_h_n (s : hstate) (o : outmsg) : h_n (emit s o) = h_n s.
Proof. prj. Qed.
#[export] Hint Rewrite emit_h_n : hp.
Lemma emit_h_ssid (s : hstate) (o : outmsg) : h_ssid (emit s o) = h_ssid s.
Proof. prj. Qed.
#[export] Hint Rewrite emit_h_ssid : hp.
Lemma emit_h_proto (s : hstate) (o : outmsg) : h_proto (emit s o) = h_proto s.
Proof. prj. Qed.
#[export] Hint Rewrite emit_h_proto : hp.
Lemma emit_h_shape (s : hstate) (o : outmsg) : h_shape (emit s o) = h_shape s.
Proof. prj. Qed.
#[export] Hint Rewrite emit_h_shape : hp.
Lemma emit_h_cur (s : hstate) (o : outmsg) : h_cur (emit s o) = h_cur s.
Proof. prj. Qed.
#[export] Hint Rewrite emit_h_cur : hp.
Lemma emit_h_reached (s : hstate) (o : outmsg) : h_reached (emit s o) = h_reached s.
Proof. prj. Qed.
#[export] Hint Rewrite emit_h_reached : hp.
Lemma emit_h_qb (s : hstate) (o : outmsg) : h_qb (emit s o) = h_qb s.
Proof. prj. Qed.
#[export] Hint Rewrite emit_h_qb : hp.
Lemma emit_h_qp (s : hstate) (o : outmsg) : h_qp (emit s o) = h_qp s.
Proof. prj. Qed.
#[export] Hint Rewrite emit_h_qp : hp.
Lemma emit_h_hashes (s : hstate) (o : outmsg) : h_hashes (emit s o) = h_hashes s.
Proof. prj. Qed.
#[export] Hint Rewrite emit_h_hashes : hp.
Lemma emit_h_err (s : hstate) (o : outmsg) : h_err (emit s o) = h_err s.
Proof. prj. Qed.
#[export] Hint Rewrite emit_h_err : hp.
Lemma emit_h_res (s : hstate) (o : outmsg) : h_res (emit s o) = h_res s.
Proof. prj. Qed.
#[export] Hint Rewrite emit_h_res : hp.
Lemma emit_h_closes (s : hstate) (o : outmsg) : h_closes (emit s o) = h_closes s.
Proof. prj. Qed.
#[export] Hint Rewrite emit_h_closes : hp.
Lemma with_hash_h_self (s : hstate) (r : nat) (d : N) : h_self (with_hash s r d) = h_self s.
Proof. prj. Qed.
#[export] Hint Rewrite with_hash_h_self : hp.
Lemma with_hash_h_n (s : hstate) (r : nat) (d : N) : h_n (with_hash s r d) = h_n s.
Proof. prj. Qed.
#[export] Hint Rewrite with_hash_h_n : hp.
Lemma with_hash_h_ssid (s : hstate) (r : nat) (d : N) : h_ssid (with_hash s r d) = h_ssid s.
Proof. prj. Qed.
#[export] Hint Rewrite with_hash_h_ssid : hp.
Lemma with_hash_h_proto (s : hstate) (r : nat) (d : N) : h_proto (with_hash s r d) = h_proto s.
Proof. prj. Qed.
#[export] Hint Rewrite with_hash_h_proto : hp.
Lemma with_hash_h_shape (s : hstate) (r : nat) (d : N) : h_shape (with_hash s r d) = h_shape s.
Proof. prj. Qed.
#[export] Hint Rewrite with_hash_h_shape : hp.
Lemma with_hash_h_cur (s : hstate) (r : nat) (d : N) : h_cur (with_hash s r d) = h_cur s.
Proof. prj. Qed.
#[export] Hint Rewrite with_hash_h_cur : hp.
Lemma with_hash_h_reached (s : hstate) (r : nat) (d : N) : h_reached (with_hash s r d) = h_reached s.
Proof. prj. Qed.
#[export] Hint Rewrite with_hash_h_reached : hp.
Lemma with_hash_h_qb (s : hstate) (r : nat) (d : N) : h_qb (with_hash s r d) = h_qb s.
Proof. prj. Qed.
#[export] Hint Rewrite with_hash_h_qb : hp.
Lemma with_hash_h_qp (s : hstate) (r : nat) (d : N) : h_qp (with_hash s r d) = h_qp s.
Proof. prj. Qed.
#[export] Hint Rewrite with_hash_h_qp : hp.
Lemma with_hash_h_err (s : hstate) (r : nat) (d : N) : h_err (with_hash s r d) = h_err s.
Proof. prj. Qed.
#[export] Hint Rewrite with_hash_h_err : hp.
Lemma with_hash_h_res (s : hstate) (r : nat) (d : N) : h_res (with_hash s r d) = h_res s.
Proof. prj. Qed.
#[export] Hint Rewrite with_hash_h_res : hp.
Lemma with_hash_h_out (s : hstate) (r : nat) (d : N) : h_out (with_hash s r d) = h_out s.
Proof. prj. Qed.
#[export] Hint Rewrite with_hash_h_out : hp.
Lemma with_hash_h_pending (s : hstate) (r : nat) (d : N) : h_pending (with_hash s r d) = h_pending s.
Proof. prj. Qed.
#[export] Hint Rewrite with_hash_h_pending : hp.
Lemma with_hash_h_closes (s : hstate) (r : nat) (d : N) : h_closes (with_hash s r d) = h_closes s.
Proof. prj. Qed.
#[export] Hint Rewrite with_hash_h_closes : hp.
Lemma with_hash_h_rt (s : hstate) (r : nat) (d : N) : h_rt (with_hash s r d) = h_rt s.
Proof. prj. Qed.
#[export] Hint Rewrite with_hash_h_rt : hp.
Lemma advance_h_self (s : hstate) (nr : nat) : h_self (advance s nr) = h_self s.
Proof. prj. Qed.
#[export] Hint Rewrite advance_h_self : hp.
Lemma advance_h_n (s : hstate) (nr : nat) : h_n (advance s nr) = h_n s.
Proof. prj. Qed.
#[export] Hint Rewrite advance_h_n : hp.
Lemma advance_h_ssid (s : hstate) (nr : nat) : h_ssid (advance s nr) = h_ssid s.
Proof. prj. Qed.
#[export] Hint Rewrite advance_h_ssid : hp.
Lemma advance_h_proto (s : hstate) (nr : nat) : h_proto (advance s nr) = h_proto s.
Proof. prj. Qed.
#[export] Hint Rewrite advance_h_proto : hp.
Lemma advance_h_shape (s : hstate) (nr : nat) : h_shape (advance s nr) = h_shape s.
Proof. prj. Qed.
#[export] Hint Rewrite advance_h_shape : hp.
Lemma advance_h_qb (s : hstate) (nr : nat) : h_qb (advance s nr) = h_qb s.
Proof. prj. Qed.
#[export] Hint Rewrite advance_h_qb : hp.
Lemma advance_h_qp (s : hstate) (nr : nat) : h_qp (advance s nr) = h_qp s.
Proof. prj. Qed.
#[export] Hint Rewrite advance_h_qp : hp.
Lemma advance_h_hashes (s : hstate) (nr : nat) : h_hashes (advance s nr) = h_hashes s.
Proof. prj. Qed.
#[export] Hint Rewrite advance_h_hashes : hp.
Lemma advance_h_err (s : hstate) (nr : nat) : h_err (advance s nr) = h_err s.
Proof. prj. Qed.
#[export] Hint Rewrite advance_h_err : hp.
Lemma advance_h_res (s : hstate) (nr : nat) : h_res (advance s nr) = h_res s.
Proof. prj. Qed.
#[export] Hint Rewrite advance_h_res : hp.
Lemma advance_h_out (s : hstate) (nr : nat) : h_out (advance s nr) = h_out s.
Proof. prj. Qed.
#[export] Hint Rewrite advance_h_out : hp.
Lemma advance_h_pending (s : hstate) (nr : nat) : h_pending (advance s nr) = h_pending s.
Proof. prj. Qed.
#[export] Hint Rewrite advance_h_pending : hp.
Lemma advance_h_closes (s : hstate) (nr : nat) : h_closes (advance s nr) = h_closes s.
Proof. prj. Qed.
#[export] Hint Rewrite advance_h_closes : hp.
Lemma advance_h_rt (s : hstate) (nr : nat) : h_rt (advance s nr) = h_rt s.
Proof. prj. Qed.
#[export] Hint Rewrite advance_h_rt : hp.
Lemma set_res_h_self (s : hstate) : h_self (set_res s) = h_self s.
Proof. prj. Qed.
#[export] Hint Rewrite set_res_h_self : hp.
Lemma set_res_h_n (s : hstate) : h_n (set_res s) = h_n s.
Proof. prj. Qed.
#[export] Hint Rewrite set_res_h_n : hp.
Lemma set_res_h_ssid (s : hstate) : h_ssid (set_res s) = h_ssid s.
Proof. prj. Qed.
#[export] Hint Rewrite set_res_h_ssid : hp.
Lemma set_res_h_proto (s : hstate) : h_proto (set_res s) = h_proto s.
Proof. prj. Qed.
#[export] Hint Rewrite set_res_h_proto : hp.
Lemma set_res_h_shape (s : hstate) : h_shape (set_res s) = h_shape s.
Proof. prj. Qed.
#[export] Hint Rewrite set_res_h_shape : hp.
Lemma set_res_h_cur (s : hstate) : h_cur (set_res s) = h_cur s.
Proof. prj. Qed.
#[export] Hint Rewrite set_res_h_cur : hp.
Lemma set_res_h_reached (s : hstate) : h_reached (set_res s) = h_reached s.
Proof. prj. Qed.
#[export] Hint Rewrite set_res_h_reached : hp.
Lemma set_res_h_qb (s : hstate) : h_qb (set_res s) = h_qb s.
Proof. prj. Qed.
#[export] Hint Rewrite set_res_h_qb : hp.
Lemma set_res_h_qp (s : hstate) : h_qp (set_res s) = h_qp s.
Proof. prj. Qed.
#[export] Hint Rewrite set_res_h_qp : hp.
Lemma set_res_h_hashes (s : hstate) : h_hashes (set_res s) = h_hashes s.
Proof. prj. Qed.
#[export] Hint Rewrite set_res_h_hashes : hp.
Lemma set_res_h_err (s : hstate) : h_err (set_res s) = h_err s.
Proof. prj. Qed.
#[export] Hint Rewrite set_res_h_err : hp.
Lemma set_res_h_out (s : hstate) : h_out (set_res s) = h_out s.
Proof. prj. Qed.
#[export] Hint Rewrite set_res_h_out : hp.
Lemma set_res_h_pending (s : hstate) : h_pending (set_res s) = h_pending s.
Proof. prj. Qed.
#[export] Hint Rewrite set_res_h_pending : hp.
Lemma set_res_h_closes (s : hstate) : h_closes (set_res s) = h_closes s.
Proof. prj. Qed.
#[export] Hint Rewrite set_res_h_closes : hp.
Lemma set_res_h_rt (s : hstate) : h_rt (set_res s) = h_rt s.
Proof. prj. Qed.
#[export] Hint Rewrite set_res_h_rt : hp.
Lemma drain_h_self (s : hstate) (k : nat) : h_self (drain k s) = h_self s.
Proof. prj. Qed.
#[export] Hint Rewrite drain_h_self : hp.
Lemma drain_h_n (s : hstate) (k : nat) : h_n (drain k s) = h_n s.
Proof. prj. Qed.
#[export] Hint Rewrite drain_h_n : hp.
Lemma drain_h_ssid (s : hstate) (k : nat) : h_ssid (drain k s) = h_ssid s.
Proof. prj. Qed.
#[export] Hint Rewrite drain_h_ssid : hp.
Lemma drain_h_proto (s : hstate) (k : nat) : h_proto (drain k s) = h_proto s.
Proof. prj. Qed.
#[export] Hint Rewrite drain_h_proto : hp.
Lemma drain_h_shape (s : hstate) (k : nat) : h_shape (drain k s) = h_shape s.
Proof. prj. Qed.
#[export] Hint Rewrite drain_h_shape : hp.
Lemma drain_h_cur (s : hstate) (k : nat) : h_cur (drain k s) = h_cur s.
Proof. prj. Qed.
#[export] Hint Rewrite drain_h_cur : hp.
Lemma drain_h_reached (s : hstate) (k : nat) : h_reached (drain k s) = h_reached s.
Proof. prj. Qed.
#[export] Hint Rewrite drain_h_reached : hp.
Lemma drain_h_qb (s : hstate) (k : nat) : h_qb (drain k s) = h_qb s.
Proof. prj. Qed.
#[export] Hint Rewrite drain_h_qb : hp.
Lemma drain_h_qp (s : hstate) (k : nat) : h_qp (drain k s) = h_qp s.
Proof. prj. Qed.
#[export] Hint Rewrite drain_h_qp : hp.
Lemma drain_h_hashes (s : hstate) (k : nat) : h_hashes (drain k s) = h_hashes s.
Proof. prj. Qed.
#[export] Hint Rewrite drain_h_hashes : hp.
Lemma drain_h_err (s : hstate) (k : nat) : h_err (drain k s) = h_err s.
Proof. prj. Qed.
#[export] Hint Rewrite drain_h_err : hp.
Lemma drain_h_res (s : hstate) (k : nat) : h_res (drain k s) = h_res s.
Proof. prj. Qed.
#[export] Hint Rewrite drain_h_res : hp.
Lemma drain_h_out (s : hstate) (k : nat) : h_out (drain k s) = h_out s.
Proof. prj. Qed.
#[export] Hint Rewrite drain_h_out : hp.
Lemma drain_h_closes (s : hstate) (k : nat) : h_closes (drain k s) = h_closes s.
Proof. prj. Qed.
#[export] Hint Rewrite drain_h_closes : hp.
Lemma drain_h_rt (s : hstate) (k : nat) : h_rt (drain k s) = h_rt s.
Proof. prj. Qed.
#[export] Hint Rewrite drain_h_rt : hp.

Lemma raise_panic_h_self (s : hstate) : h_self (raise_panic s) = h_self s.
Proof. reflexivity. Qed.
#[export] Hint Rewrite raise_panic_h_self : hp.
Lemma raise_panic_h_n (s : hstate) : h_n (raise_panic s) = h_n s.
Proof. reflexivity. Qed.
#[export] Hint Rewrite raise_panic_h_n : hp.
Lemma raise_panic_h_ssid (s : hstate) : h_ssid (raise_panic s) = h_ssid s.
Proof. reflexivity. Qed.
#[export] Hint Rewrite raise_panic_h_ssid : hp.
Lemma raise_panic_h_proto (s : hstate) : h_proto (raise_panic s) = h_proto s.
Proof. reflexivity. Qed.
#[export] Hint Rewrite raise_panic_h_proto : hp.
Lemma raise_panic_h_shape (s : hstate) : h_shape (raise_panic s) = h_shape s.
Proof. reflexivity. Qed.
#[export] Hint Rewrite raise_panic_h_shape : hp.
Lemma raise_panic_h_cur (s : hstate) : h_cur (raise_panic s) = h_cur s.
Proof. reflexivity. Qed.
#[export] Hint Rewrite raise_panic_h_cur : hp.
Lemma raise_panic_h_reached (s : hstate) : h_reached (raise_panic s) = h_reached s.
Proof. reflexivity. Qed.
#[export] Hint Rewrite raise_panic_h_reached : hp.
Lemma raise_panic_h_qb (s : hstate) : h_qb (raise_panic s) = h_qb s.
Proof. reflexivity. Qed.
#[export] Hint Rewrite raise_panic_h_qb : hp.
Lemma raise_panic_h_qp (s : hstate) : h_qp (raise_panic s) = h_qp s.
Proof. reflexivity. Qed.
#[export] Hint Rewrite raise_panic_h_qp : hp.
Lemma raise_panic_h_hashes (s : hstate) : h_hashes (raise_panic s) = h_hashes s.
Proof. reflexivity. Qed.
#[export] Hint Rewrite raise_panic_h_hashes : hp.
Lemma raise_panic_h_err (s : hstate) : h_err (raise_panic s) = h_err s.
Proof. reflexivity. Qed.
#[export] Hint Rewrite raise_panic_h_err : hp.
Lemma raise_panic_h_res (s : hstate) : h_res (raise_panic s) = h_res s.
Proof. reflexivity. Qed.
#[export] Hint Rewrite raise_panic_h_res : hp.
Lemma raise_panic_h_out (s : hstate) : h_out (raise_panic s) = h_out s.
Proof. reflexivity. Qed.
#[export] Hint Rewrite raise_panic_h_out : hp.
Lemma raise_panic_h_pending (s : hstate) : h_pending (raise_panic s) = h_pending s.
Proof. reflexivity. Qed.
#[export] Hint Rewrite raise_panic_h_pending : hp.
Lemma raise_panic_h_closes (s : hstate) : h_closes (raise_panic s) = h_closes s.
Proof. reflexivity. Qed.
#[export] Hint Rewrite raise_panic_h_closes : hp.

(* ================================================================== *)
(* 1. Queues, views, hashes                                            *)
(* ================================================================== *)
Definition qentry := (nat * party * msg)%type.

Lemma qget_In (q : list qentry) r j m : qget q r j = Some m -> In (r, j, m) q.
Proof.
  induction q as [|[[r' j'] m'] q IH]; cbn; [discriminate|].
  destruct ((r' =? r) && (j' =? j)) eqn:E.
  - intros H; inversion H; subst. apply andb_true_iff in E as [E1 E2].
    apply Nat.eqb_eq in E1, E2. subst. now left.
  - intros H. right. auto.
Qed.

Lemma qget_cons (q : list qentry) r' j' m' r j :
  qget ((r', j', m') :: q) r j = if (r' =? r) && (j' =? j) then Some m' else qget q r j.
Proof. reflexivity. Qed.

Lemma qget_cons_mono (q : list qentry) r' j' m' r j x :
  qget q r' j' = None -> qget q r j = Some x -> qget ((r', j', m') :: q) r j = Some x.
Proof.
  intros Hn Hs. rewrite qget_cons. destruct ((r' =? r) && (j' =? j)) eqn:E; auto.
  apply andb_true_iff in E as [E1 E2]. apply Nat.eqb_eq in E1, E2. subst. congruence.
Qed.

Lemma qget_none_notin (q : list qentry) r j : qget q r j = None -> forall m, ~ In (r, j, m) q.
Proof.
  induction q as [|[[r' j'] m'] q IH]; cbn; intros H m; [tauto|].
  destruct ((r' =? r) && (j' =? j)) eqn:E; [discriminate|].
  intros [Heq|Hin]; [|eapply IH; eauto].
  inversion Heq; subst. rewrite !Nat.eqb_refl in E. discriminate.
Qed.

Lemma hget_cons (h : list (nat * N)) r' d r :
  hget ((r', d) :: h) r = if r' =? r then Some d else hget h r.
Proof. reflexivity. Qed.

(* what store does *)
Lemma store_cases (s : hstate) (m : msg) :
  store s m = s
  \/ (m_bcast m = true /\ has_queue s (m_round m) = true /\ qget (h_qb s) (m_round m) (m_from m) = None
      /\ h_qb (store s m) = (m_round m, m_from m, m) :: h_qb s /\ h_qp (store s m) = h_qp s)
  \/ (m_bcast m = false /\ has_queue s (m_round m) = true /\ qget (h_qp s) (m_round m) (m_from m) = None
      /\ h_qp (store s m) = (m_round m, m_from m, m) :: h_qp s /\ h_qb (store s m) = h_qb s).
Proof.
  unfold store, queue_of.
  destruct (has_queue s (m_round m)) eqn:Hq; cbn; [|now left].
  destruct (m_bcast m) eqn:Hb.
  - destruct (qget (h_qb s) (m_round m) (m_from m)) eqn:Hg; [now left|].
    right; left. cbn. repeat split; auto.
  - destruct (qget (h_qp s) (m_round m) (m_from m)) eqn:Hg; [now left|].
    right; right. cbn. repeat split; auto.
Qed.

Lemma store_qb_mono s m r j x : qget (h_qb s) r j = Some x -> qget (h_qb (store s m)) r j = Some x.
Proof.
  intros H. destruct (store_cases s m) as [E|[(?&?&Hn&E&?)|(?&?&?&?&E)]]; rewrite E; auto.
  apply qget_cons_mono; auto.
Qed.
Lemma store_qp_mono s m r j x : qget (h_qp s) r j = Some x -> qget (h_qp (store s m)) r j = Some x.
Proof.
  intros H. destruct (store_cases s m) as [E|[(?&?&?&?&E)|(?&?&Hn&E&?)]]; rewrite E; auto.
  apply qget_cons_mono; auto.
Qed.

(* after store the slot is filled (when the queue exists) *)
Lemma store_fills s m :
  has_queue s (m_round m) = true ->
  qget (queue_of (store s m) m) (m_round m) (m_from m) <> None.
Proof.
  intros Hq. unfold queue_of.
  destruct (store_cases s m) as [E|[(Hb&?&Hn&E&?)|(Hb&?&Hn&E&?)]].
  - rewrite E. unfold store, queue_of in E. rewrite Hq in E. cbn in E.
    destruct (m_bcast m) eqn:Hb.
    + destruct (qget (h_qb s) (m_round m) (m_from m)) eqn:Hg; [congruence|].
      exfalso. apply (f_equal h_qb) in E. cbn in E.
      apply (f_equal (@length _)) in E. cbn in E. lia.
    + destruct (qget (h_qp s) (m_round m) (m_from m)) eqn:Hg; [congruence|].
      exfalso. apply (f_equal h_qp) in E. cbn in E.
      apply (f_equal (@length _)) in E. cbn in E. lia.
  - rewrite Hb, E, qget_cons, !Nat.eqb_refl. cbn. discriminate.
  - rewrite Hb, E, qget_cons, !Nat.eqb_refl. cbn. discriminate.
Qed.

(* views *)
Definition view_raw (q : list qentry) (l : list party) (r : nat) : option (list N) :=
  fold_right (fun j acc => match qget q r j, acc with
                           | Some m, Some l => Some (m_fp m :: l)
                           | _, _ => None end) (Some []) l.
Lemma view_of_raw s r : view_of s r = view_raw (h_qb s) (seq 0 (h_n s)) r.
Proof. reflexivity. Qed.

Lemma view_raw_cons q a l r :
  view_raw q (a :: l) r = match qget q r a, view_raw q l r with
                          | Some m, Some l => Some (m_fp m :: l)
                          | _, _ => None end.
Proof. reflexivity. Qed.

Definition fp_at (q : list qentry) (r : nat) (j : party) : N :=
  match qget q r j with Some m => m_fp m | None => 0%N end.

Lemma view_raw_some q l r v :
  view_raw q l r = Some v -> v = map (fp_at q r) l /\ forall j, In j l -> qget q r j <> None.
Proof.
  revert v. induction l as [|a l IH]; [cbn|rewrite view_raw_cons]; intros v H.
  - inversion H. split; [reflexivity|cbn; tauto].
  - destruct (qget q r a) eqn:Ha; [|discriminate].
    destruct (view_raw q l r) eqn:Hv; [|discriminate].
    inversion H; subst. destruct (IH _ eq_refl) as [E Hall]. split.
    + cbn. unfold fp_at at 1. rewrite Ha. now rewrite <- E.
    + intros j [<-|Hj]; [congruence|auto].
Qed.

Lemma view_raw_complete q l r :
  (forall j, In j l -> qget q r j <> None) -> view_raw q l r = Some (map (fp_at q r) l).
Proof.
  induction l as [|a l IH]; intros H; [reflexivity|].
  rewrite view_raw_cons, IH by (intros; apply H; now right).
  destruct (qget q r a) eqn:Ha.
  - cbn [map]. unfold fp_at at 2. now rewrite Ha.
  - exfalso. apply (H a); [now left|assumption].
Qed.

Lemma view_raw_mono q q' l r v :
  (forall j x, qget q r j = Some x -> qget q' r j = Some x) ->
  view_raw q l r = Some v -> view_raw q' l r = Some v.
Proof.
  intros Hm. revert v. induction l as [|a l IH]; [cbn|rewrite !view_raw_cons]; intros v H; auto.
  destruct (qget q r a) eqn:Ha; [|discriminate H].
  destruct (view_raw q l r) eqn:Hv; [|discriminate H].
  rewrite (Hm _ _ Ha), (IH _ eq_refl). exact H.
Qed.

(* ================================================================== *)
(* 2. receivedAll and finalize, decomposed                             *)
(* ================================================================== *)
Definition p2p_in (s : hstate) : bool :=
  forallb (fun j => match qget (h_qp s) (h_cur s) j with Some _ => true | None => false end) (others s).

Definition all_in (s : hstate) : bool :=
  let r := h_cur s in
  let sh := h_shape s in
  if negb (has_queue s r) then true
  else (if sh_bcast sh r then match view_of s r with Some _ => true | None => false end else true)
       && (if p2p_some (sh_p2p sh r) then p2p_in s else true).

Section Fin.
  Variable view_hash : nat -> list N -> N.
  Variable own_fp : nat -> N.

  Definition hash_upd (s : hstate) : hstate :=
    let r := h_cur s in
    if sh_bcast (h_shape s) r && has_queue s r then
      match view_of s r, hget (h_hashes s) r with
      | Some v, None => with_hash s r (view_hash r v)
      | _, _ => s
      end
    else s.

  Lemma received_all_eq s : received_all view_hash s = (all_in s, hash_upd s).
  Proof.
    unfold received_all, all_in, hash_upd, p2p_in, with_hash.
    destruct (sh_bcast (h_shape s) (h_cur s)) eqn:Hb; cbn [andb negb];
      destruct (has_queue s (h_cur s)) eqn:Hq; cbn [andb negb];
      destruct (sh_p2p (h_shape s) (h_cur s)) eqn:Hp; cbn [p2p_some andb negb];
      try reflexivity;
      destruct (view_of s (h_cur s)) eqn:Hv; cbn [andb negb]; try reflexivity;
      destruct (hget (h_hashes s) (h_cur s)) eqn:Hh; cbn [andb negb]; try reflexivity.
  Qed.
End Fin.

Section Fin2.
  Variable view_hash : nat -> list N -> N.
  Variable own_fp : nat -> N.

  Lemma finalize_S f s : finalize view_hash own_fp (S f) s =
    match h_rt s with
    | Running =>
      if h_cur s =? 0 then s else
      let s1 := hash_upd view_hash s in
      if negb (all_in s) then s1
      else if negb (check_broadcast_hash s1) then abort s1 (Some ([], EBroadcastHash))
      else if fin_panics s1 then raise_panic s1
      else let r := h_cur s1 in
           let bv := match hget (h_hashes s1) r with Some d => d | None => 0%N end in
           let s2 := emit_all own_fp s1 (round_outputs s1 r bv) in
           match h_rt s2 with
           | Running =>
              let nr := if sh_final (h_shape s2) <=? r then 0 else S r in
              if existsb (Nat.eqb nr) (h_reached s2) then s2
              else let s3 := advance s2 nr in
                   if nr =? 0 then abort (set_res s3) None
                   else match first_bad s3 nr with
                        | Some (_, VHash) => abort s3 (Some ([], EBroadcastHash))
                        | Some (_, VPanic) => raise_panic s3
                        | Some (j, _) => abort s3 (Some ([j], EVerify))
                        | None => finalize view_hash own_fp f s3 end
           | _ => s2 end
    | _ => s end.
  Proof. cbn [finalize]. rewrite received_all_eq. reflexivity. Qed.

  (* the body of Accept (everything but the deferred recover) *)
  Lemma accept_body_eq s m : accept_body view_hash own_fp s m =
    match h_rt s with
    | Running =>
        if negb (can_accept s m) || (match h_err s with Some _ => true | None => false end)
           || h_res s || duplicate s m then s
        else if m_round m =? 0 then abort s (Some ([m_from m], EAbortNotice))
        else
          let s1 := store s m in
          if negb (h_cur s1 =? m_round m) then s1
          else match (if m_bcast m then verify_bcast s1 m else verify_p2p s1 m) with
               | VOk => finalize view_hash own_fp (fuel_of s1) s1
               | VBad => abort s1 (Some ([m_from m], EVerify))
               | VHash => abort s1 (Some ([], EBroadcastHash))
               | VPanic => raise_panic s1
               end
    | _ => s
    end.
  Proof. reflexivity. Qed.

  (* Accept = body under the deferred recover.  [accept_lift]: a property that is insensitive to the runtime
     flag and preserved by abort carries over from the body to Accept. *)
  Lemma accept_eq s m : accept view_hash own_fp s m =
    match h_rt s with
    | Running => recover_abort (accept_body view_hash own_fp s m)
    | _ => s
    end.
  Proof. reflexivity. Qed.

  Lemma accept_lift (P : hstate -> Prop) s m :
    (forall x rt, P x -> P (set_rt x rt)) -> (forall x, P x -> P (abort x (Some ([], EPanic)))) ->
    P s -> P (accept_body view_hash own_fp s m) -> P (accept view_hash own_fp s m).
  Proof.
    intros Hrt Hab Hs Hb. rewrite accept_eq. destruct (h_rt s); auto.
    unfold recover_abort. destruct (h_rt (accept_body view_hash own_fp s m)); auto. cbv zeta.
    destruct (terminal _); auto.
  Qed.
  Lemma store_own_h_qp s o : h_qp (store s (own_bcast_msg own_fp s o)) = h_qp s.
  Proof.
    destruct (store_cases s (own_bcast_msg own_fp s o)) as [E|[(?&?&?&?&E)|(Hb&_)]]; try (rewrite E; reflexivity).
    cbn in Hb. discriminate.
  Qed.
  Hint Rewrite store_own_h_qp : hp.
  Lemma hash_upd_h_self s : h_self (hash_upd view_hash s) = h_self s.
  Proof. unfold hash_upd; dmatch; autorewrite with hp; reflexivity. Qed.
  Lemma hash_upd_h_n s : h_n (hash_upd view_hash s) = h_n s.
  Proof. unfold hash_upd; dmatch; autorewrite with hp; reflexivity. Qed.
  Lemma hash_upd_h_ssid s : h_ssid (hash_upd view_hash s) = h_ssid s.
  Proof. unfold hash_upd; dmatch; autorewrite with hp; reflexivity. Qed.
  Lemma hash_upd_h_proto s : h_proto (hash_upd view_hash s) = h_proto s.
  Proof. unfold hash_upd; dmatch; autorewrite with hp; reflexivity. Qed.
  Lemma hash_upd_h_shape s : h_shape (hash_upd view_hash s) = h_shape s.
  Proof. unfold hash_upd; dmatch; autorewrite with hp; reflexivity. Qed.
  Lemma hash_upd_h_cur s : h_cur (hash_upd view_hash s) = h_cur s.
  Proof. unfold hash_upd; dmatch; autorewrite with hp; reflexivity. Qed.
  Lemma hash_upd_h_reached s : h_reached (hash_upd view_hash s) = h_reached s.
  Proof. unfold hash_upd; dmatch; autorewrite with hp; reflexivity. Qed.
  Lemma hash_upd_h_qb s : h_qb (hash_upd view_hash s) = h_qb s.
  Proof. unfold hash_upd; dmatch; autorewrite with hp; reflexivity. Qed.
  Lemma hash_upd_h_qp s : h_qp (hash_upd view_hash s) = h_qp s.
  Proof. unfold hash_upd; dmatch; autorewrite with hp; reflexivity. Qed.
  Lemma hash_upd_h_err s : h_err (hash_upd view_hash s) = h_err s.
  Proof. unfold hash_upd; dmatch; autorewrite with hp; reflexivity. Qed.
  Lemma hash_upd_h_res s : h_res (hash_upd view_hash s) = h_res s.
  Proof. unfold hash_upd; dmatch; autorewrite with hp; reflexivity. Qed.
  Lemma hash_upd_h_out s : h_out (hash_upd view_hash s) = h_out s.
  Proof. unfold hash_upd; dmatch; autorewrite with hp; reflexivity. Qed.
  Lemma hash_upd_h_pending s : h_pending (hash_upd view_hash s) = h_pending s.
  Proof. unfold hash_upd; dmatch; autorewrite with hp; reflexivity. Qed.
  Lemma hash_upd_h_closes s : h_closes (hash_upd view_hash s) = h_closes s.
  Proof. unfold hash_upd; dmatch; autorewrite with hp; reflexivity. Qed.
  Lemma hash_upd_h_rt s : h_rt (hash_upd view_hash s) = h_rt s.
  Proof. unfold hash_upd; dmatch; autorewrite with hp; reflexivity. Qed.
  Lemma emit_all_h_self s l : h_self (emit_all own_fp s l) = h_self s.
  Proof. revert s; induction l as [|o l IH]; intros s; cbn [emit_all]; [reflexivity|]. rewrite IH. destruct (o_bcast o); autorewrite with hp; reflexivity. Qed.
  Lemma emit_all_h_n s l : h_n (emit_all own_fp s l) = h_n s.
  Proof. revert s; induction l as [|o l IH]; intros s; cbn [emit_all]; [reflexivity|]. rewrite IH. destruct (o_bcast o); autorewrite with hp; reflexivity. Qed.
  Lemma emit_all_h_ssid s l : h_ssid (emit_all own_fp s l) = h_ssid s.
  Proof. revert s; induction l as [|o l IH]; intros s; cbn [emit_all]; [reflexivity|]. rewrite IH. destruct (o_bcast o); autorewrite with hp; reflexivity. Qed.
  Lemma emit_all_h_proto s l : h_proto (emit_all own_fp s l) = h_proto s.
  Proof. revert s; induction l as [|o l IH]; intros s; cbn [emit_all]; [reflexivity|]. rewrite IH. destruct (o_bcast o); autorewrite with hp; reflexivity. Qed.
  Lemma emit_all_h_shape s l : h_shape (emit_all own_fp s l) = h_shape s.
  Proof. revert s; induction l as [|o l IH]; intros s; cbn [emit_all]; [reflexivity|]. rewrite IH. destruct (o_bcast o); autorewrite with hp; reflexivity. Qed.
  Lemma emit_all_h_cur s l : h_cur (emit_all own_fp s l) = h_cur s.
  Proof. revert s; induction l as [|o l IH]; intros s; cbn [emit_all]; [reflexivity|]. rewrite IH. destruct (o_bcast o); autorewrite with hp; reflexivity. Qed.
  Lemma emit_all_h_reached s l : h_reached (emit_all own_fp s l) = h_reached s.
  Proof. revert s; induction l as [|o l IH]; intros s; cbn [emit_all]; [reflexivity|]. rewrite IH. destruct (o_bcast o); autorewrite with hp; reflexivity. Qed.
  Lemma emit_all_h_qp s l : h_qp (emit_all own_fp s l) = h_qp s.
  Proof. revert s; induction l as [|o l IH]; intros s; cbn [emit_all]; [reflexivity|]. rewrite IH. destruct (o_bcast o); autorewrite with hp; reflexivity. Qed.
  Lemma emit_all_h_hashes s l : h_hashes (emit_all own_fp s l) = h_hashes s.
  Proof. revert s; induction l as [|o l IH]; intros s; cbn [emit_all]; [reflexivity|]. rewrite IH. destruct (o_bcast o); autorewrite with hp; reflexivity. Qed.
  Lemma emit_all_h_err s l : h_err (emit_all own_fp s l) = h_err s.
  Proof. revert s; induction l as [|o l IH]; intros s; cbn [emit_all]; [reflexivity|]. rewrite IH. destruct (o_bcast o); autorewrite with hp; reflexivity. Qed.
  Lemma emit_all_h_res s l : h_res (emit_all own_fp s l) = h_res s.
  Proof. revert s; induction l as [|o l IH]; intros s; cbn [emit_all]; [reflexivity|]. rewrite IH. destruct (o_bcast o); autorewrite with hp; reflexivity. Qed.
  Lemma emit_all_h_closes s l : h_closes (emit_all own_fp s l) = h_closes s.
  Proof. revert s; induction l as [|o l IH]; intros s; cbn [emit_all]; [reflexivity|]. rewrite IH. destruct (o_bcast o); autorewrite with hp; reflexivity. Qed.
End Fin2.
#[export] Hint Rewrite store_own_h_qp : hp.
#[export] Hint Rewrite hash_upd_h_self : hp.
#[export] Hint Rewrite hash_upd_h_n : hp.
#[export] Hint Rewrite hash_upd_h_ssid : hp.
#[export] Hint Rewrite hash_upd_h_proto : hp.
#[export] Hint Rewrite hash_upd_h_shape : hp.
#[export] Hint Rewrite hash_upd_h_cur : hp.
#[export] Hint Rewrite hash_upd_h_reached : hp.
#[export] Hint Rewrite hash_upd_h_qb : hp.
#[export] Hint Rewrite hash_upd_h_qp : hp.
#[export] Hint Rewrite hash_upd_h_err : hp.
#[export] Hint Rewrite hash_upd_h_res : hp.
#[export] Hint Rewrite hash_upd_h_out : hp.
#[export] Hint Rewrite hash_upd_h_pending : hp.
#[export] Hint Rewrite hash_upd_h_closes : hp.
#[export] Hint Rewrite hash_upd_h_rt : hp.
#[export] Hint Rewrite emit_all_h_self : hp.
#[export] Hint Rewrite emit_all_h_n : hp.
#[export] Hint Rewrite emit_all_h_ssid : hp.
#[export] Hint Rewrite emit_all_h_proto : hp.
#[export] Hint Rewrite emit_all_h_shape : hp.
#[export] Hint Rewrite emit_all_h_cur : hp.
#[export] Hint Rewrite emit_all_h_reached : hp.
#[export] Hint Rewrite emit_all_h_qp : hp.
#[export] Hint Rewrite emit_all_h_hashes : hp.
#[export] Hint Rewrite emit_all_h_err : hp.
#[export] Hint Rewrite emit_all_h_res : hp.
#[export] Hint Rewrite emit_all_h_closes : hp.

(* ================================================================== *)
(* 3. Frame relation: what one Accept can change                       *)
(* ================================================================== *)
Lemma abort_out s e :
  h_out (abort s e) = h_out s \/ h_out (abort s e) = h_out s ++ [mkOut None 0 false 0%N].
Proof.
  unfold abort. destruct (h_rt s); auto. destruct e as [ce|]; autorewrite with hp; auto.
  destruct (0 <? h_closes s); autorewrite with hp; auto. cbn [h_out].
  destruct (h_pending s <? capacity s); auto.
Qed.

Lemma abort_err s e :
  h_err (abort s e) = h_err s \/ (exists ce, e = Some ce /\ h_err (abort s e) = Some ce).
Proof.
  unfold abort. destruct (h_rt s); auto. destruct e as [ce|]; rewrite close_out_h_err; auto.
  destruct (0 <? h_closes s); [rewrite set_rt_h_err; auto|]. right. exists ce. split; reflexivity.
Qed.

Lemma emit_out s o : h_out (emit s o) = h_out s \/ h_out (emit s o) = h_out s ++ [o].
Proof. unfold emit. dmatch; autorewrite with hp; cbn [h_out]; auto. Qed.

Record ext (P : hstate -> qentry -> Prop) (s s' : hstate) : Prop := mkExt {
  x_self : h_self s' = h_self s;
  x_n : h_n s' = h_n s;
  x_ssid : h_ssid s' = h_ssid s;
  x_proto : h_proto s' = h_proto s;
  x_shape : h_shape s' = h_shape s;
  x_out : exists l, h_out s' = h_out s ++ l;
  x_qb : forall r j x, qget (h_qb s) r j = Some x -> qget (h_qb s') r j = Some x;
  x_qp : forall r j x, qget (h_qp s) r j = Some x -> qget (h_qp s') r j = Some x;
  x_qbn : forall e, In e (h_qb s') -> In e (h_qb s) \/ P s e;
  x_qpn : forall e, In e (h_qp s') -> In e (h_qp s) \/ P s e;
  x_hs : forall r d, hget (h_hashes s) r = Some d -> hget (h_hashes s') r = Some d;
  x_cur : h_res s' = true \/ (h_res s = false /\ h_cur s <= h_cur s')
}.

Lemma ext_refl P s : ext P s s.
Proof.
  constructor; auto. exists []. now rewrite app_nil_r.
  destruct (h_res s); auto.
Qed.

Section Ext.
  Variable view_hash : nat -> list N -> N.
  Variable own_fp : nat -> N.

  Definition own_entry (s : hstate) (e : qentry) : Prop :=
    exists o, o_bcast o = true /\ sh_bcast (h_shape s) (o_round o) = true
              /\ e = (o_round o, h_self s, own_bcast_msg own_fp s o).

  Definition stable (P : hstate -> qentry -> Prop) : Prop :=
    forall s s' e, h_self s' = h_self s -> h_ssid s' = h_ssid s -> h_proto s' = h_proto s ->
                   h_shape s' = h_shape s -> P s' e -> P s e.

  Lemma own_bcast_msg_static s s' o :
    h_self s' = h_self s -> h_ssid s' = h_ssid s -> h_proto s' = h_proto s ->
    own_bcast_msg own_fp s' o = own_bcast_msg own_fp s o.
  Proof. unfold own_bcast_msg. intros -> -> ->. reflexivity. Qed.

  Lemma own_entry_stable : stable own_entry.
  Proof.
    intros s s' e H1 H2 H3 H4 (o & Hb & Hs & ->). exists o. rewrite <- H4, <- H1.
    repeat split; auto. f_equal. symmetry. now apply own_bcast_msg_static.
  Qed.

  Lemma ext_trans P s1 s2 s3 : stable P -> ext P s1 s2 -> ext P s2 s3 -> ext P s1 s3.
  Proof.
    intros HP [a1 a2 a3 a4 a5 [l1 a6] a7 a8 a9 a10 a11 a12] [b1 b2 b3 b4 b5 [l2 b6] b7 b8 b9 b10 b11 b12].
    constructor; auto.
    - now rewrite b1. - now rewrite b2. - now rewrite b3. - now rewrite b4. - now rewrite b5.
    - exists (l1 ++ l2). now rewrite b6, a6, app_assoc.
    - intros e He. destruct (b9 e He) as [H|H]; auto. right. eapply HP; eauto.
    - intros e He. destruct (b10 e He) as [H|H]; auto. right. eapply HP; eauto.
    - destruct b12 as [H|[H H']]; auto. destruct a12 as [H''|[H'' H3]]; [congruence|]. right. split; [auto|lia].
  Qed.

  Lemma ext_weaken (P Q : hstate -> qentry -> Prop) s s' :
    (forall e, P s e -> Q s e) -> ext P s s' -> ext Q s s'.
  Proof.
    intros HPQ [a1 a2 a3 a4 a5 a6 a7 a8 a9 a10 a11 a12]. constructor; auto.
    - intros e He. destruct (a9 e He); auto.
    - intros e He. destruct (a10 e He); auto.
  Qed.

  (* a transformer that leaves queues, hashes, cur, res and the static part alone *)
  Lemma ext_simple P s s' :
    h_self s' = h_self s -> h_n s' = h_n s -> h_ssid s' = h_ssid s -> h_proto s' = h_proto s ->
    h_shape s' = h_shape s -> (exists l, h_out s' = h_out s ++ l) ->
    h_qb s' = h_qb s -> h_qp s' = h_qp s -> h_hashes s' = h_hashes s ->
    h_cur s' = h_cur s -> h_res s' = h_res s -> ext P s s'.
  Proof.
    intros. constructor; auto; try (intros; congruence).
    - intros e He. left. congruence.
    - intros e He. left. congruence.
    - destruct (h_res s) eqn:E; [left; congruence|right; split; [auto|lia]].
  Qed.

  Lemma ext_abort P s e : ext P s (abort s e).
  Proof.
    apply ext_simple; autorewrite with hp; auto.
    destruct (abort_out s e) as [->| ->]; eauto. exists []. now rewrite app_nil_r.
  Qed.

  Lemma ext_set_rt P s rt : ext P s (set_rt s rt).
  Proof. apply ext_simple; autorewrite with hp; auto. exists []. now rewrite app_nil_r. Qed.

  Lemma ext_raise P s : ext P s (raise_panic s).
  Proof. apply ext_set_rt. Qed.

  Lemma ext_recover P s : stable P -> ext P s (recover_abort s).
  Proof.
    intros St. unfold recover_abort. destruct (h_rt s); try apply ext_refl. cbv zeta.
    destruct (terminal _); [apply ext_set_rt|].
    eapply ext_trans; [exact St|apply ext_set_rt|apply ext_abort].
  Qed.

  Lemma ext_emit P s o : ext P s (emit s o).
  Proof.
    apply ext_simple; autorewrite with hp; auto.
    destruct (emit_out s o) as [->| ->]; eauto. exists []. now rewrite app_nil_r.
  Qed.

  Lemma hash_upd_hashes s :
    h_hashes (hash_upd view_hash s) = h_hashes s
    \/ (exists v, h_hashes (hash_upd view_hash s) = (h_cur s, view_hash (h_cur s) v) :: h_hashes s
                  /\ view_of s (h_cur s) = Some v /\ hget (h_hashes s) (h_cur s) = None
                  /\ sh_bcast (h_shape s) (h_cur s) = true /\ has_queue s (h_cur s) = true).
  Proof.
    unfold hash_upd.
    destruct (sh_bcast (h_shape s) (h_cur s) && has_queue s (h_cur s)) eqn:E; auto.
    apply andb_true_iff in E as [E1 E2].
    destruct (view_of s (h_cur s)) eqn:Hv; auto.
    destruct (hget (h_hashes s) (h_cur s)) eqn:Hh; auto.
    right. exists l. cbn. auto.
  Qed.

  Lemma ext_hash_upd P s : ext P s (hash_upd view_hash s).
  Proof.
    constructor; autorewrite with hp; auto.
    - exists []. now rewrite app_nil_r.
    - intros r d H. destruct (hash_upd_hashes s) as [->|(v & -> & _ & Hn & _)]; auto.
      rewrite hget_cons. destruct (h_cur s =? r) eqn:E; auto. apply Nat.eqb_eq in E. congruence.
    - destruct (h_res s) eqn:E; [left; congruence|right; split; [auto|lia]].
  Qed.

  Lemma ext_store_own s o :
    o_bcast o = true -> sh_bcast (h_shape s) (o_round o) = true ->
    ext own_entry s (store s (own_bcast_msg own_fp s o)).
  Proof.
    intros Hb Hs. constructor; autorewrite with hp; auto.
    - exists []. now rewrite app_nil_r.
    - apply store_qb_mono.
    - intros e He.
      destruct (store_cases s (own_bcast_msg own_fp s o)) as [E|[(_&_&_&E&_)|(_&_&_&_&E)]];
        rewrite E in He; auto.
      destruct He as [<-|He]; auto. right. exists o. cbn. auto.
    - destruct (h_res s) eqn:E; [left; congruence|right; split; [auto|lia]].
  Qed.

  Lemma ext_emit_all s l :
    (forall o, In o l -> o_bcast o = true -> sh_bcast (h_shape s) (o_round o) = true) ->
    ext own_entry s (emit_all own_fp s l).
  Proof.
    revert s. induction l as [|o l IH]; intros s Hl; cbn [emit_all]; [apply ext_refl|].
    eapply ext_trans; [apply own_entry_stable| |apply IH].
    - destruct (o_bcast o) eqn:Hb.
      + eapply ext_trans; [apply own_entry_stable|apply ext_store_own|apply ext_emit]; auto.
        apply Hl; auto. now left.
      + apply ext_emit.
    - intros o' Ho' Hb'. destruct (o_bcast o); autorewrite with hp; apply Hl; auto; now right.
  Qed.

  Lemma round_outputs_spec s r bv o :
    In o (round_outputs s r bv) ->
    o_round o = S r /\ o_bv o = bv /\ r < sh_final (h_shape s)
    /\ (o_bcast o = true -> sh_bcast (h_shape s) (S r) = true /\ o_to o = None)
    /\ (o_bcast o = false -> p2p_some (sh_p2p (h_shape s) (S r)) = true
                             /\ (o_to o = None \/ exists j, o_to o = Some j /\ In j (others s))).
  Proof.
    unfold round_outputs. destruct (sh_final (h_shape s) <=? r) eqn:Hf; [intros []|].
    apply Nat.leb_gt in Hf. intros Hin. apply in_app_or in Hin as [Hin|Hin].
    - destruct (sh_bcast (h_shape s) (S r)) eqn:Hb; [|destruct Hin].
      destruct Hin as [<-|[]]. cbn. repeat split; auto; discriminate.
    - destruct (sh_p2p (h_shape s) (S r)) eqn:Hp; [destruct Hin| |].
      + destruct Hin as [<-|[]]. cbn. repeat split; auto; discriminate.
      + apply in_map_iff in Hin as (j & <- & Hj). cbn. repeat split; auto; try discriminate.
        right. eauto.
  Qed.

  Lemma ext_advance P s nr : h_cur s <= nr -> ext P s (advance s nr).
  Proof.
    intros H. constructor; unfold advance; cbn; auto.
    - exists []. now rewrite app_nil_r.
    - destruct (h_res s) eqn:E; [left; congruence|right; split; [auto|lia]].
  Qed.

  Lemma ext_set_res_advance P s nr : ext P s (set_res (advance s nr)).
  Proof.
    constructor; unfold advance, set_res; cbn; auto.
    exists []. now rewrite app_nil_r.
  Qed.


  (* ---- one iteration of finalize, as a case analysis ---- *)
  Definition fs1 (s : hstate) : hstate := hash_upd view_hash s.
  Definition fbv (s : hstate) : N :=
    match hget (h_hashes (fs1 s)) (h_cur s) with Some d => d | None => 0%N end.
  Definition fs2 (s : hstate) : hstate :=
    emit_all own_fp (fs1 s) (round_outputs (fs1 s) (h_cur s) (fbv s)).
  Definition fs3 (s : hstate) : hstate := advance (fs2 s) (S (h_cur s)).

  Inductive fcase (f : nat) (s : hstate) : hstate -> Prop :=
  | FC_stop : h_rt s <> Running \/ h_cur s = 0 -> fcase f s s
  | FC_wait : h_rt s = Running -> h_cur s <> 0 -> all_in s = false -> fcase f s (fs1 s)
  | FC_hash : h_rt s = Running -> h_cur s <> 0 -> all_in s = true ->
              check_broadcast_hash (fs1 s) = false ->
              fcase f s (abort (fs1 s) (Some ([], EBroadcastHash)))
  | FC_stay : h_rt s = Running -> h_cur s <> 0 -> all_in s = true ->
              check_broadcast_hash (fs1 s) = true ->
              (h_rt (fs2 s) <> Running
               \/ existsb (Nat.eqb (if sh_final (h_shape s) <=? h_cur s then 0 else S (h_cur s))) (h_reached s) = true) ->
              fcase f s (fs2 s)
  | FC_done : h_rt s = Running -> h_cur s <> 0 -> all_in s = true ->
              check_broadcast_hash (fs1 s) = true -> h_rt (fs2 s) = Running ->
              sh_final (h_shape s) <= h_cur s ->
              existsb (Nat.eqb 0) (h_reached s) = false ->
              fcase f s (abort (set_res (advance (fs2 s) 0)) None)
  | FC_bad : forall j v, h_rt s = Running -> h_cur s <> 0 -> all_in s = true ->
              check_broadcast_hash (fs1 s) = true -> h_rt (fs2 s) = Running ->
              h_cur s < sh_final (h_shape s) ->
              existsb (Nat.eqb (S (h_cur s))) (h_reached s) = false ->
              first_bad (fs3 s) (S (h_cur s)) = Some (j, v) -> v <> VHash -> v <> VPanic ->
              fcase f s (abort (fs3 s) (Some ([j], EVerify)))
  | FC_badhash : forall j, h_rt s = Running -> h_cur s <> 0 -> all_in s = true ->
              check_broadcast_hash (fs1 s) = true -> h_rt (fs2 s) = Running ->
              h_cur s < sh_final (h_shape s) ->
              existsb (Nat.eqb (S (h_cur s))) (h_reached s) = false ->
              first_bad (fs3 s) (S (h_cur s)) = Some (j, VHash) ->
              fcase f s (abort (fs3 s) (Some ([], EBroadcastHash)))
  | FC_next : h_rt s = Running -> h_cur s <> 0 -> all_in s = true ->
              check_broadcast_hash (fs1 s) = true -> h_rt (fs2 s) = Running ->
              h_cur s < sh_final (h_shape s) ->
              existsb (Nat.eqb (S (h_cur s))) (h_reached s) = false ->
              first_bad (fs3 s) (S (h_cur s)) = None ->
              fcase f s (finalize view_hash own_fp f (fs3 s))
  (* the round code panics: in Finalize of the current round / on a queued message of the next round *)
  | FC_finpanic : h_rt s = Running -> h_cur s <> 0 -> all_in s = true ->
              check_broadcast_hash (fs1 s) = true -> fin_panics (fs1 s) = true ->
              fcase f s (raise_panic (fs1 s))
  | FC_badpanic : forall j, h_rt s = Running -> h_cur s <> 0 -> all_in s = true ->
              check_broadcast_hash (fs1 s) = true -> h_rt (fs2 s) = Running ->
              h_cur s < sh_final (h_shape s) ->
              existsb (Nat.eqb (S (h_cur s))) (h_reached s) = false ->
              first_bad (fs3 s) (S (h_cur s)) = Some (j, VPanic) ->
              fcase f s (raise_panic (fs3 s)).

  Lemma finalize_cases f s : fcase f s (finalize view_hash own_fp (S f) s).
  Proof.
    rewrite finalize_S.
    destruct (h_rt s) eqn:Hrt; try (apply FC_stop; left; congruence).
    destruct (h_cur s =? 0) eqn:Hc0; [apply FC_stop; right; now apply Nat.eqb_eq|].
    apply Nat.eqb_neq in Hc0. cbv zeta.
    destruct (all_in s) eqn:Hall; cbn [negb]; [|now apply FC_wait].
    fold (fs1 s). replace (h_cur (fs1 s)) with (h_cur s) by (unfold fs1; now autorewrite with hp).
    destruct (check_broadcast_hash (fs1 s)) eqn:Hck; cbn [negb]; [|now apply FC_hash].
    destruct (fin_panics (fs1 s)) eqn:Hfp; [now apply FC_finpanic|].
    fold (fbv s). fold (fs2 s).
    assert (Hsh : h_shape (fs2 s) = h_shape s) by (unfold fs2, fs1; now autorewrite with hp).
    assert (Hre : h_reached (fs2 s) = h_reached s) by (unfold fs2, fs1; now autorewrite with hp).
    rewrite Hsh, Hre.
    destruct (h_rt (fs2 s)) eqn:Hrt2; try (apply FC_stay; auto; left; congruence).
    destruct (sh_final (h_shape s) <=? h_cur s) eqn:Hf.
    - destruct (existsb (Nat.eqb 0) (h_reached s)) eqn:Hex;
        [apply FC_stay; auto; right; now rewrite Hf|].
      apply Nat.leb_le in Hf.
      cbn [Nat.eqb]. now apply FC_done.
    - destruct (existsb (Nat.eqb (S (h_cur s))) (h_reached s)) eqn:Hex;
        [apply FC_stay; auto; right; now rewrite Hf|].
      apply Nat.leb_gt in Hf.
      cbn [Nat.eqb]. fold (fs3 s).
      destruct (first_bad (fs3 s) (S (h_cur s))) as [[j v]|] eqn:Hfb; [|now apply FC_next].
      destruct v; [eapply FC_bad; eauto; discriminate|eapply FC_bad; eauto; discriminate|now eapply FC_badhash; eauto
                  |now eapply FC_badpanic; eauto].
  Qed.

  Lemma fs1_cur s : h_cur (fs1 s) = h_cur s.
  Proof. unfold fs1. now autorewrite with hp. Qed.

  Lemma ext_fs1 P s : ext P s (fs1 s).
  Proof. apply ext_hash_upd. Qed.

  Lemma ext_fs2 s : ext own_entry (fs1 s) (fs2 s).
  Proof.
    apply ext_emit_all. intros o Ho Hb. apply round_outputs_spec in Ho as (Hr & _ & _ & Hbc & _).
    rewrite Hr. now apply Hbc.
  Qed.

  Lemma ext_finalize f s : ext own_entry s (finalize view_hash own_fp f s).
  Proof.
    revert s. induction f as [|f IH]; intros s; [apply ext_refl|].
    assert (H12 : ext own_entry s (fs2 s)).
    { eapply ext_trans; [apply own_entry_stable|apply ext_fs1|apply ext_fs2]. }
    destruct (finalize_cases f s).
    - apply ext_refl.
    - apply ext_fs1.
    - eapply ext_trans; [apply own_entry_stable|apply ext_fs1|apply ext_abort].
    - exact H12.
    - eapply ext_trans; [apply own_entry_stable|exact H12|].
      eapply ext_trans; [apply own_entry_stable|apply ext_set_res_advance|apply ext_abort].
    - eapply ext_trans; [apply own_entry_stable|exact H12|].
      eapply ext_trans; [apply own_entry_stable|apply ext_advance|apply ext_abort].
      unfold fs2, fs1. autorewrite with hp. lia.
    - eapply ext_trans; [apply own_entry_stable|exact H12|].
      eapply ext_trans; [apply own_entry_stable|apply ext_advance|apply ext_abort].
      unfold fs2, fs1. autorewrite with hp. lia.
    - eapply ext_trans; [apply own_entry_stable|exact H12|].
      eapply ext_trans; [apply own_entry_stable|apply ext_advance|apply IH].
      unfold fs2, fs1. autorewrite with hp. lia.
    - eapply ext_trans; [apply own_entry_stable|apply ext_fs1|apply ext_raise].
    - eapply ext_trans; [apply own_entry_stable|exact H12|].
      eapply ext_trans; [apply own_entry_stable|apply ext_advance|apply ext_raise].
      unfold fs2, fs1. autorewrite with hp. lia.
  Qed.
End Ext.

Section Acc.
  Variable view_hash : nat -> list N -> N.
  Variable own_fp : nat -> N.

  Definition acc_entry (m : msg) (s : hstate) (e : qentry) : Prop :=
    own_entry own_fp s e \/ e = (m_round m, m_from m, m).

  Lemma acc_entry_stable m : stable (acc_entry m).
  Proof.
    intros s s' e H1 H2 H3 H4 [H|H]; [left|right; auto]. eapply own_entry_stable; eauto.
  Qed.

  Lemma ext_store m s : ext (acc_entry m) s (store s m).
  Proof.
    constructor; autorewrite with hp; auto.
    - exists []. now rewrite app_nil_r.
    - apply store_qb_mono.
    - apply store_qp_mono.
    - intros e He.
      destruct (store_cases s m) as [E|[(_&_&_&E&_)|(_&_&_&_&E)]]; rewrite E in He; auto.
      destruct He as [<-|He]; auto. right. now right.
    - intros e He.
      destruct (store_cases s m) as [E|[(_&_&_&_&E)|(_&_&_&E&_)]]; rewrite E in He; auto.
      destruct He as [<-|He]; auto. right. now right.
    - destruct (h_res s) eqn:E; [left; congruence|right; split; [auto|lia]].
  Qed.

  Lemma ext_accept_body s m : ext (acc_entry m) s (accept_body view_hash own_fp s m).
  Proof.
    rewrite accept_body_eq. destruct (h_rt s); try apply ext_refl.
    destruct (_ || _); [apply ext_refl|].
    destruct (m_round m =? 0); [apply ext_abort|]. cbv zeta.
    destruct (negb _); [apply ext_store|].
    destruct (if m_bcast m then _ else _).
    - eapply ext_trans; [apply acc_entry_stable|apply ext_store|].
      eapply ext_weaken; [|apply ext_finalize]. intros e He. now left.
    - eapply ext_trans; [apply acc_entry_stable|apply ext_store|apply ext_abort].
    - eapply ext_trans; [apply acc_entry_stable|apply ext_store|apply ext_abort].
    - eapply ext_trans; [apply acc_entry_stable|apply ext_store|apply ext_raise].
  Qed.

  Lemma ext_accept s m : ext (acc_entry m) s (accept view_hash own_fp s m).
  Proof.
    rewrite accept_eq. destruct (h_rt s); try apply ext_refl.
    eapply ext_trans; [apply acc_entry_stable|apply ext_accept_body|apply ext_recover, acc_entry_stable].
  Qed.
End Acc.

(* ================================================================== *)
(* 4. Single-handler invariant for arbitrary (adversarial) input       *)
(* ================================================================== *)
Section Wf.
  Variable view_hash : nat -> list N -> N.
  Variable own_fp : nat -> N.

  Definition passed (s : hstate) (c : nat) : Prop := 1 <= c /\ (c < h_cur s \/ h_res s = true).

  (* every stored round-c message carries the digest of this party's round-(c-1) view *)
  Definition checked (s : hstate) (c : nat) : Prop :=
    forall d, hget (h_hashes s) (c - 1) = Some d ->
    forall j x, In (c, j, x) (h_qb s) \/ In (c, j, x) (h_qp s) -> m_bv x = d.

  Definition complete_round (s : hstate) (c : nat) : Prop :=
    (sh_bcast (h_shape s) c = true -> hget (h_hashes s) c <> None)
    /\ forall j, In j (others s) ->
         (sh_bcast (h_shape s) c = true -> qget (h_qb s) c j <> None)
         /\ (p2p_some (sh_p2p (h_shape s) c) = true -> qget (h_qp s) c j <> None).

  Definition out_conf (s : hstate) (o : outmsg) : Prop :=
    o_round o <> 0 ->
    (o_bcast o = true -> sh_bcast (h_shape s) (o_round o) = true)
    /\ (o_bcast o = false -> p2p_some (sh_p2p (h_shape s) (o_round o)) = true).

  Definition out_bv (s : hstate) (o : outmsg) : Prop :=
    forall r, o_round o = S r -> sh_bcast (h_shape s) r = true -> 2 <= r ->
              hget (h_hashes s) r = Some (o_bv o).

  Record hwf (s : hstate) : Prop := mkWf {
    w_qb : forall r j x, In (r, j, x) (h_qb s) ->
             m_round x = r /\ m_from x = j /\ m_bcast x = true /\ has_queue s r = true;
    w_qp : forall r j x, In (r, j, x) (h_qp s) ->
             m_round x = r /\ m_from x = j /\ m_bcast x = false /\ has_queue s r = true;
    w_res : h_res s = true -> h_cur s = 0;
    w_hash : forall r d, hget (h_hashes s) r = Some d ->
             exists v, view_of s r = Some v /\ d = view_hash r v;
    w_out : forall o, In o (h_out s) -> out_bv s o;
    w_chk : forall c, passed s c -> checked s c;
    w_cpl : forall c, passed s c -> 2 <= c <= sh_final (h_shape s) -> complete_round s c;
    w_conf : forall o, In o (h_out s) -> out_conf s o
  }.

  Lemma has_queue_shape s s' r : h_shape s' = h_shape s -> has_queue s' r = has_queue s r.
  Proof. unfold has_queue. now intros ->. Qed.

  Lemma view_of_mono s s' r v :
    h_n s' = h_n s -> (forall r j x, qget (h_qb s) r j = Some x -> qget (h_qb s') r j = Some x) ->
    view_of s r = Some v -> view_of s' r = Some v.
  Proof.
    intros Hn Hm. rewrite !view_of_raw, Hn. apply view_raw_mono. intros; now apply Hm.
  Qed.

  Lemma others_static s s' : h_self s' = h_self s -> h_n s' = h_n s -> others s' = others s.
  Proof. unfold others. now intros -> ->. Qed.

  Lemma complete_round_ext P s s' c : ext P s s' -> complete_round s c -> complete_round s' c.
  Proof.
    intros X [H1 H2]. unfold complete_round.
    rewrite (x_shape _ _ _ X), (others_static _ _ (x_self _ _ _ X) (x_n _ _ _ X)). split.
    - intros Hb. specialize (H1 Hb). destruct (hget (h_hashes s) c) eqn:E; [|congruence].
      now rewrite (x_hs _ _ _ X _ _ E).
    - intros j Hj. destruct (H2 j Hj) as [A B]. split; intros Hc.
      + specialize (A Hc). destruct (qget (h_qb s) c j) eqn:E; [|congruence].
        now rewrite (x_qb _ _ _ X _ _ _ E).
      + specialize (B Hc). destruct (qget (h_qp s) c j) eqn:E; [|congruence].
        now rewrite (x_qp _ _ _ X _ _ _ E).
  Qed.

  (* ---- store ---- *)
  Lemma hwf_store s m :
    hwf s -> ~ passed s (m_round m) -> hwf (store s m).
  Proof.
    intros W Hnp.
    assert (X := ext_store own_fp m s).
    destruct (store_cases s m) as [E|[(Hb&Hq&Hn&Eb&Ep)|(Hb&Hq&Hn&Ep&Eb)]]; [now rewrite E| |].
    - constructor; autorewrite with hp.
      + intros r j x. rewrite (has_queue_shape s (store s m)) by now autorewrite with hp.
        rewrite Eb. intros [H|H].
        * inversion H; subst; auto.
        * now apply (w_qb _ W).
      + intros r j x. rewrite Ep. intros H.
        rewrite (has_queue_shape s (store s m)) by now autorewrite with hp. now apply (w_qp _ W).
      + apply (w_res _ W).
      + intros r d H. destruct (w_hash _ W _ _ H) as (v & Hv & ->). exists v. split; auto.
        eapply view_of_mono; [| |exact Hv]; [now autorewrite with hp|apply (x_qb _ _ _ X)].
      + intros o Ho r. unfold out_bv. autorewrite with hp. apply (w_out _ W o Ho).
      + intros c Hc. assert (Hc' : passed s c) by (unfold passed in *; now autorewrite with hp in Hc).
        intros d Hd j x Hin. autorewrite with hp in Hd. rewrite Eb, Ep in Hin.
        destruct Hin as [[Hin|Hin]|Hin].
        * inversion Hin; subst. tauto.
        * eapply (w_chk _ W c Hc'); eauto.
        * eapply (w_chk _ W c Hc'); eauto.
      + intros c Hc Hr. assert (Hc' : passed s c) by (unfold passed in *; now autorewrite with hp in Hc).
        eapply complete_round_ext; [exact X|]. apply (w_cpl _ W); auto.
      + intros o Ho. unfold out_conf. autorewrite with hp. apply (w_conf _ W o Ho).
    - constructor; autorewrite with hp.
      + intros r j x. rewrite Eb. intros H.
        rewrite (has_queue_shape s (store s m)) by now autorewrite with hp. now apply (w_qb _ W).
      + intros r j x. rewrite (has_queue_shape s (store s m)) by now autorewrite with hp.
        rewrite Ep. intros [H|H].
        * inversion H; subst; auto.
        * now apply (w_qp _ W).
      + apply (w_res _ W).
      + intros r d H. destruct (w_hash _ W _ _ H) as (v & Hv & ->). exists v. split; auto.
        eapply view_of_mono; [| |exact Hv]; [now autorewrite with hp|apply (x_qb _ _ _ X)].
      + intros o Ho r. unfold out_bv. autorewrite with hp. apply (w_out _ W o Ho).
      + intros c Hc. assert (Hc' : passed s c) by (unfold passed in *; now autorewrite with hp in Hc).
        intros d Hd j x Hin. autorewrite with hp in Hd. rewrite Eb, Ep in Hin.
        destruct Hin as [Hin|[Hin|Hin]].
        * eapply (w_chk _ W c Hc'); eauto.
        * inversion Hin; subst. tauto.
        * eapply (w_chk _ W c Hc'); eauto.
      + intros c Hc Hr. assert (Hc' : passed s c) by (unfold passed in *; now autorewrite with hp in Hc).
        eapply complete_round_ext; [exact X|]. apply (w_cpl _ W); auto.
      + intros o Ho. unfold out_conf. autorewrite with hp. apply (w_conf _ W o Ho).
  Qed.

  Lemma view_of_same s s' r : h_n s' = h_n s -> h_qb s' = h_qb s -> view_of s' r = view_of s r.
  Proof. intros H1 H2. now rewrite !view_of_raw, H1, H2. Qed.

  (* ---- transformers that only touch out / err / pending / closes / rt ---- *)
  Lemma hwf_frame s s' l :
    h_self s' = h_self s -> h_n s' = h_n s -> h_shape s' = h_shape s ->
    h_cur s' = h_cur s -> h_qb s' = h_qb s -> h_qp s' = h_qp s -> h_hashes s' = h_hashes s ->
    h_res s' = h_res s -> h_out s' = h_out s ++ l ->
    (forall o, In o l -> out_bv s o /\ out_conf s o) ->
    hwf s -> hwf s'.
  Proof.
    intros E1 E2 E3 E4 E5 E6 E7 E8 E9 Hl W.
    destruct W as [W1 W2 W3 W4 W5 W6 W7 W8].
    unfold passed, checked, complete_round, out_bv, out_conf, others, has_queue in *.
    constructor; unfold passed, checked, complete_round, out_bv, out_conf, others, has_queue;
      rewrite ?E1, ?E2, ?E3, ?E4, ?E5, ?E6, ?E7, ?E8, ?E9; auto.
    - intros r d H. rewrite (view_of_same s s') by auto. exact (W4 r d H).
    - intros o Ho. apply in_app_or in Ho as [Ho|Ho]; [now apply W5|]. now apply Hl.
    - intros o Ho. apply in_app_or in Ho as [Ho|Ho]; [now apply W8|]. now apply Hl.
  Qed.

  Lemma hwf_abort s e : hwf s -> hwf (abort s e).
  Proof.
    intros W. destruct (abort_out s e) as [E|E].
    - eapply (hwf_frame s _ []); autorewrite with hp; auto. now rewrite app_nil_r. intros o [].
    - eapply (hwf_frame s _ [_]); autorewrite with hp; auto. exact E.
      intros o [<-|[]]. split; [intros r Hr; discriminate Hr|intros Hr; now elim Hr].
  Qed.

  Lemma hwf_set_rt s rt : hwf s -> hwf (set_rt s rt).
  Proof.
    intros W. eapply (hwf_frame s _ []); autorewrite with hp; auto. now rewrite app_nil_r. intros o [].
  Qed.

  Lemma hwf_raise s : hwf s -> hwf (raise_panic s).
  Proof. apply hwf_set_rt. Qed.

  Lemma hwf_emit s o : hwf s -> out_bv s o -> out_conf s o -> hwf (emit s o).
  Proof.
    intros W H1 H2. destruct (emit_out s o) as [E|E].
    - eapply (hwf_frame s _ []); autorewrite with hp; auto. now rewrite app_nil_r. intros o' [].
    - eapply (hwf_frame s _ [_]); autorewrite with hp; auto. exact E.
      intros o' [<-|[]]. now split.
  Qed.

  (* ---- the digest side effect of receivedAll ---- *)
  Lemma hwf_hash_upd s : hwf s -> hwf (hash_upd view_hash s).
  Proof.
    intros W. destruct (hash_upd_hashes view_hash s) as [E|(v & E & Hv & Hn & Hb & Hq)].
    - eapply (hwf_frame s _ []); autorewrite with hp; auto. now rewrite app_nil_r. intros o [].
    - assert (Hc0 : h_res s = false).
      { destruct (h_res s) eqn:Hr; auto. rewrite (w_res _ W Hr) in Hq. discriminate Hq. }
      destruct W as [W1 W2 W3 W4 W5 W6 W7 W8].
      constructor; unfold passed, checked, complete_round, out_bv, out_conf, others;
        autorewrite with hp; rewrite ?E; auto.
      + intros r j x H. rewrite (has_queue_shape s) by now autorewrite with hp. now apply W1.
      + intros r j x H. rewrite (has_queue_shape s) by now autorewrite with hp. now apply W2.
      + intros r d. rewrite hget_cons. rewrite (view_of_same s) by now autorewrite with hp.
        destruct (h_cur s =? r) eqn:Hr; [|apply W4].
        apply Nat.eqb_eq in Hr. subst r. intros H. inversion H; subst. eauto.
      + intros o Ho r Hr Hbr H2. rewrite hget_cons.
        destruct (h_cur s =? r) eqn:Hcr; [|now apply (W5 o Ho)].
        apply Nat.eqb_eq in Hcr. subst r. specialize (W5 o Ho _ Hr Hbr H2). congruence.
      + intros c Hc d. rewrite hget_cons.
        destruct (h_cur s =? c - 1) eqn:Hcr; [|now apply W6].
        apply Nat.eqb_eq in Hcr. destruct Hc as [Hc1 [Hc|Hc]]; [lia|congruence].
      + intros c Hc Hr. destruct (W7 c Hc Hr) as [A B]. split; auto.
        intros Hbc. rewrite hget_cons. destruct (h_cur s =? c); [discriminate|auto].
  Qed.

  (* ---- emit_all: own broadcasts are stored under round S cur, messages appended to out ---- *)
  Lemma hwf_emit_all s l :
    hwf s -> h_res s = false ->
    (forall o, In o l -> o_round o = S (h_cur s) /\ out_bv s o /\ out_conf s o) ->
    hwf (emit_all own_fp s l).
  Proof.
    revert s. induction l as [|o l IH]; intros s W Hres Hl; cbn [emit_all]; auto.
    destruct (Hl o (or_introl eq_refl)) as (Hr & Hbv & Hcf).
    assert (W1 : hwf (if o_bcast o then store s (own_bcast_msg own_fp s o) else s)).
    { destruct (o_bcast o); auto. apply hwf_store; auto. cbn.
      unfold passed. rewrite Hr, Hres. intros [_ [H|H]]; [lia|discriminate]. }
    apply IH.
    - apply hwf_emit; auto; destruct (o_bcast o); auto; unfold out_bv, out_conf; now autorewrite with hp.
    - destruct (o_bcast o); now autorewrite with hp.
    - intros o' Ho'. destruct (Hl o' (or_intror Ho')) as (Hr' & Hbv' & Hcf').
      unfold out_bv, out_conf. destruct (o_bcast o); autorewrite with hp; auto.
  Qed.
End Wf.

Section Wf2.
  Variable view_hash : nat -> list N -> N.
  Variable own_fp : nat -> N.
  Notation hwf := (hwf view_hash).
  Notation fs1 := (fs1 view_hash).
  Notation fs2 := (fs2 view_hash own_fp).
  Notation fs3 := (fs3 view_hash own_fp).

  Lemma check_checked s : check_broadcast_hash s = true -> checked s (h_cur s).
  Proof.
    unfold check_broadcast_hash, checked. intros H d Hd j x Hin. rewrite Hd in H.
    apply andb_true_iff in H as [Hp Hb]. rewrite forallb_forall in Hp, Hb.
    destruct Hin as [Hin|Hin].
    - specialize (Hb _ Hin). cbn in Hb. rewrite Nat.eqb_refl in Hb. cbn in Hb. now apply N.eqb_eq.
    - specialize (Hp _ Hin). cbn in Hp. rewrite Nat.eqb_refl in Hp. cbn in Hp. now apply N.eqb_eq.
  Qed.

  Lemma checked_transfer s s' c :
    checked s c -> h_hashes s' = h_hashes s -> h_qp s' = h_qp s ->
    (forall r j x, In (r, j, x) (h_qb s') -> In (r, j, x) (h_qb s) \/ r <> c) ->
    checked s' c.
  Proof.
    intros H E1 E2 Hq d Hd j x Hin. rewrite E1 in Hd. rewrite E2 in Hin.
    destruct Hin as [Hin|Hin]; [|eapply H; eauto].
    destruct (Hq _ _ _ Hin) as [Hin'|Hne]; [eapply H; eauto|congruence].
  Qed.

  Lemma hash_upd_sets s v :
    sh_bcast (h_shape s) (h_cur s) = true -> has_queue s (h_cur s) = true ->
    view_of s (h_cur s) = Some v -> hget (h_hashes (hash_upd view_hash s)) (h_cur s) <> None.
  Proof.
    intros Hb Hq Hv. unfold hash_upd. rewrite Hb, Hq, Hv. cbn [andb].
    destruct (hget (h_hashes s) (h_cur s)) eqn:Hh; [congruence|].
    cbn. rewrite Nat.eqb_refl. discriminate.
  Qed.

  Lemma In_others s j : In j (others s) <-> j < h_n s /\ j <> h_self s.
  Proof.
    unfold others. rewrite filter_In, in_seq, negb_true_iff, Nat.eqb_neq. lia.
  Qed.

  Lemma all_in_spec s :
    all_in s = true -> has_queue s (h_cur s) = true ->
    (sh_bcast (h_shape s) (h_cur s) = true -> exists v, view_of s (h_cur s) = Some v)
    /\ (p2p_some (sh_p2p (h_shape s) (h_cur s)) = true ->
        forall j, In j (others s) -> qget (h_qp s) (h_cur s) j <> None).
  Proof.
    unfold all_in. intros H Hq. rewrite Hq in H. cbn [negb] in H.
    apply andb_true_iff in H as [H1 H2]. split.
    - intros Hb. rewrite Hb in H1. destruct (view_of s (h_cur s)); [eauto|discriminate].
    - intros Hp j Hj. rewrite Hp in H2. unfold p2p_in in H2. rewrite forallb_forall in H2.
      specialize (H2 j Hj). destruct (qget (h_qp s) (h_cur s) j); [discriminate|discriminate].
  Qed.

  Lemma all_in_complete s :
    all_in s = true -> has_queue s (h_cur s) = true -> complete_round (fs1 s) (h_cur s).
  Proof.
    intros Ha Hq. destruct (all_in_spec s Ha Hq) as [A B].
    unfold complete_round, SystemProofs.fs1. autorewrite with hp.
    rewrite (others_static s) by now autorewrite with hp. split.
    - intros Hb. destruct (A Hb) as [v Hv]. eapply hash_upd_sets; eauto.
    - intros j Hj. split; [|intros Hp; now apply B].
      intros Hb. destruct (A Hb) as [v Hv]. rewrite view_of_raw in Hv.
      apply view_raw_some in Hv as [_ Hall]. apply Hall. apply In_others in Hj. apply in_seq. lia.
  Qed.

  (* ---- moving to the next round / to the output round ---- *)
  Lemma hwf_advance s :
    hwf s -> h_res s = false -> checked s (h_cur s) ->
    (2 <= h_cur s <= sh_final (h_shape s) -> complete_round s (h_cur s)) ->
    hwf (advance s (S (h_cur s))).
  Proof.
    intros [W1 W2 W3 W4 W5 W6 W7 W8] Hres Hck Hcp.
    assert (Hpass : forall c, passed (advance s (S (h_cur s))) c -> passed s c \/ c = h_cur s).
    { unfold passed, advance. cbn. intros c [H1 [H2|H2]]; [|left; auto].
      destruct (Nat.eq_dec c (h_cur s)); auto. left. split; auto. left. lia. }
    constructor; auto.
    - cbn. congruence.
    - intros c Hc. destruct (Hpass c Hc) as [H| ->]; [now apply W6|exact Hck].
    - intros c Hc Hr. destruct (Hpass c Hc) as [H| ->]; [now apply W7|now apply Hcp].
  Qed.

  Lemma hwf_done s :
    hwf s -> h_res s = false -> checked s (h_cur s) ->
    (2 <= h_cur s <= sh_final (h_shape s) -> complete_round s (h_cur s)) ->
    sh_final (h_shape s) <= h_cur s -> 1 <= h_cur s ->
    hwf (set_res (advance s 0)).
  Proof.
    intros [W1 W2 W3 W4 W5 W6 W7 W8] Hres Hck Hcp Hfin Hc1.
    assert (Hpass : forall c, 1 <= c -> passed s c \/ c = h_cur s \/ h_cur s < c).
    { unfold passed. intros c Hc. destruct (Nat.lt_trichotomy c (h_cur s)) as [H|[H|H]]; auto. }
    constructor; auto.
    - intros c [Hc _]. destruct (Hpass c Hc) as [H|[->|H]]; [now apply W6|exact Hck|].
      intros d Hd j x Hin. exfalso. cbn in Hin.
      destruct Hin as [Hin|Hin]; [apply W1 in Hin|apply W2 in Hin]; destruct Hin as (_&_&_&Hq);
        unfold has_queue in Hq; apply andb_true_iff in Hq as [_ Hq]; apply Nat.leb_le in Hq; lia.
    - intros c [Hc _] Hr. destruct (Hpass c Hc) as [H|[->|H]]; [now apply W7|now apply Hcp|].
      cbn in Hr. lia.
  Qed.

  Lemma emit_all_qbn s l r j x :
    In (r, j, x) (h_qb (emit_all own_fp s l)) ->
    In (r, j, x) (h_qb s) \/ exists o, In o l /\ r = o_round o.
  Proof.
    revert s. induction l as [|o l IH]; intros s; cbn [emit_all]; auto.
    intros H. apply IH in H as [H|(o' & Ho' & ->)]; [|right; exists o'; split; auto; now right].
    rewrite emit_h_qb in H. destruct (o_bcast o); auto.
    destruct (store_cases s (own_bcast_msg own_fp s o)) as [E|[(_&_&_&E&_)|(_&_&_&_&E)]];
      rewrite E in H; auto.
    destruct H as [H|H]; auto. inversion H; subst. right. exists o. split; [now left|reflexivity].
  Qed.

  Lemma fs2_cur s : h_cur (fs2 s) = h_cur s.
  Proof. unfold SystemProofs.fs2, SystemProofs.fs1. now autorewrite with hp. Qed.
  Lemma fs2_res s : h_res (fs2 s) = h_res s.
  Proof. unfold SystemProofs.fs2, SystemProofs.fs1. now autorewrite with hp. Qed.
  Lemma fs2_shape s : h_shape (fs2 s) = h_shape s.
  Proof. unfold SystemProofs.fs2, SystemProofs.fs1. now autorewrite with hp. Qed.

  Lemma hwf_res_false s : hwf s -> h_cur s <> 0 -> h_res s = false.
  Proof. intros W H. destruct (h_res s) eqn:E; auto. elim H. now apply (w_res _ _ W). Qed.

  Lemma hwf_fs2 s : hwf s -> h_cur s <> 0 -> all_in s = true -> hwf (fs2 s).
  Proof.
    intros W Hc Ha. unfold SystemProofs.fs2. apply hwf_emit_all.
    - now apply hwf_hash_upd.
    - unfold SystemProofs.fs1. autorewrite with hp. now apply hwf_res_false.
    - intros o Ho. apply round_outputs_spec in Ho as (Hr & Hbv & Hlt & Hb & Hp).
      unfold SystemProofs.fs1 in *. autorewrite with hp in *. split; [auto|split].
      + intros r Hr' Hbr H2. rewrite Hr in Hr'. inversion Hr'; subst r. rewrite Hbv.
        rewrite hash_upd_h_shape in Hbr.
        unfold fbv, SystemProofs.fs1.
        assert (Hq : has_queue s (h_cur s) = true).
        { unfold has_queue. apply andb_true_iff. split; apply Nat.leb_le; lia. }
        destruct (all_in_spec s Ha Hq) as [A _]. destruct (A Hbr) as [v Hv].
        pose proof (hash_upd_sets s v Hbr Hq Hv) as Hs.
        destruct (hget (h_hashes (hash_upd view_hash s)) (h_cur s)); congruence.
      + intros _. unfold out_conf. autorewrite with hp. rewrite Hr. split; intros Hx; [now apply Hb|now apply Hp].
  Qed.

  Lemma fs2_checked s : check_broadcast_hash (fs1 s) = true -> checked (fs2 s) (h_cur s).
  Proof.
    intros Hck. apply check_checked in Hck. rewrite fs1_cur in Hck.
    eapply checked_transfer; [exact Hck| | |].
    - unfold SystemProofs.fs2. now autorewrite with hp.
    - unfold SystemProofs.fs2. now autorewrite with hp.
    - intros r j x Hin. unfold SystemProofs.fs2 in Hin. apply emit_all_qbn in Hin as [H|(o & Ho & ->)]; auto.
      right. apply round_outputs_spec in Ho as (Hr & _). lia.
  Qed.

  Lemma fs2_complete s :
    all_in s = true -> 2 <= h_cur s <= sh_final (h_shape s) -> complete_round (fs2 s) (h_cur s).
  Proof.
    intros Ha Hr. eapply complete_round_ext; [apply (ext_fs2 view_hash own_fp)|].
    apply all_in_complete; auto. unfold has_queue. apply andb_true_iff. split; apply Nat.leb_le; lia.
  Qed.

  Lemma hwf_finalize f s : hwf s -> hwf (finalize view_hash own_fp f s).
  Proof.
    revert s. induction f as [|f IH]; intros s W; auto.
    destruct (finalize_cases view_hash own_fp f s).
    - exact W.
    - now apply hwf_hash_upd.
    - apply hwf_abort. now apply hwf_hash_upd.
    - now apply hwf_fs2.
    - apply hwf_abort. rewrite <- (fs2_cur s) in H4 at 1.
      assert (W2 := hwf_fs2 s W H0 H1).
      apply hwf_done; auto; rewrite ?fs2_res, ?fs2_cur, ?fs2_shape.
      + now apply hwf_res_false.
      + now apply fs2_checked.
      + intros Hr. now apply fs2_complete.
      + rewrite fs2_cur in H4. exact H4.
      + lia.
    - apply hwf_abort. unfold SystemProofs.fs3. rewrite <- (fs2_cur s).
      assert (W2 := hwf_fs2 s W H0 H1).
      apply hwf_advance; auto; rewrite ?fs2_res, ?fs2_cur, ?fs2_shape.
      + now apply hwf_res_false.
      + now apply fs2_checked.
      + intros Hr. now apply fs2_complete.
    - apply hwf_abort. unfold SystemProofs.fs3. rewrite <- (fs2_cur s).
      assert (W2 := hwf_fs2 s W H0 H1).
      apply hwf_advance; auto; rewrite ?fs2_res, ?fs2_cur, ?fs2_shape.
      + now apply hwf_res_false.
      + now apply fs2_checked.
      + intros Hr. now apply fs2_complete.
    - apply IH. unfold SystemProofs.fs3. rewrite <- (fs2_cur s).
      assert (W2 := hwf_fs2 s W H0 H1).
      apply hwf_advance; auto; rewrite ?fs2_res, ?fs2_cur, ?fs2_shape.
      + now apply hwf_res_false.
      + now apply fs2_checked.
      + intros Hr. now apply fs2_complete.
    - apply hwf_raise. now apply hwf_hash_upd.
    - apply hwf_raise. unfold SystemProofs.fs3. rewrite <- (fs2_cur s).
      assert (W2 := hwf_fs2 s W H0 H1).
      apply hwf_advance; auto; rewrite ?fs2_res, ?fs2_cur, ?fs2_shape.
      + now apply hwf_res_false.
      + now apply fs2_checked.
      + intros Hr. now apply fs2_complete.
  Qed.

  Lemma can_accept_not_stale s m :
    can_accept s m = true -> m_round m <> 0 -> h_cur s <= m_round m.
  Proof.
    unfold can_accept. intros H H0. apply andb_true_iff in H as [_ H].
    apply negb_true_iff, andb_false_iff in H as [H|H].
    - apply Nat.ltb_ge in H. exact H.
    - apply Nat.ltb_ge in H. lia.
  Qed.

  Lemma hwf_accept_body s m : hwf s -> hwf (accept_body view_hash own_fp s m).
  Proof.
    intros W. rewrite accept_body_eq. destruct (h_rt s); auto.
    destruct (negb (can_accept s m) || _ || h_res s || duplicate s m) eqn:Hg; auto.
    apply orb_false_iff in Hg as [Hg _]. apply orb_false_iff in Hg as [Hg Hres].
    apply orb_false_iff in Hg as [Hca _]. apply negb_false_iff in Hca.
    destruct (m_round m =? 0) eqn:Hr0; [now apply hwf_abort|]. apply Nat.eqb_neq in Hr0. cbv zeta.
    assert (W1 : hwf (store s m)).
    { apply hwf_store; auto. pose proof (can_accept_not_stale s m Hca Hr0).
      unfold passed. intros [_ [H'|H']]; [lia|congruence]. }
    destruct (negb _); auto.
    destruct (if m_bcast m then _ else _);
      [now apply hwf_finalize|now apply hwf_abort|now apply hwf_abort|now apply hwf_raise].
  Qed.

  Lemma hwf_accept s m : hwf s -> hwf (accept view_hash own_fp s m).
  Proof.
    intros W. apply accept_lift; auto using hwf_set_rt, hwf_abort, hwf_accept_body.
  Qed.

  Lemma hwf_init self n ssid proto sh : hwf (init_state self n ssid proto sh).
  Proof.
    constructor; cbn; try (intros; tauto); try discriminate.
    intros c [Hc [H|H]]; cbn in H; [lia|discriminate].
  Qed.

  Lemma hwf_new self n ssid proto sh : hwf (new_handler view_hash own_fp self n ssid proto sh).
  Proof. apply hwf_finalize, hwf_init. Qed.
End Wf2.

(* ================================================================== *)
(* 5. Who can be named by an abort (single handler)                    *)
(* ================================================================== *)
Section Blame.
  Variable view_hash : nat -> list N -> N.
  Variable own_fp : nat -> N.
  Variable E : party.
  Notation hwf := (hwf view_hash).
  Notation fs1 := (fs1 view_hash).
  Notation fs2 := (fs2 view_hash own_fp).
  Notation fs3 := (fs3 view_hash own_fp).

  (* of a kind the round expects *)
  Definition conf (s : hstate) (x : msg) : Prop :=
    (m_bcast x = true -> sh_bcast (h_shape s) (m_round x) = true)
    /\ (m_bcast x = false -> p2p_some (sh_p2p (h_shape s) (m_round x)) = true).

  (* expected by the round, and either flagged valid or sent under a different view of the previous round
     (the latter is permanent: digests are never overwritten) *)
  Definition good (s : hstate) (x : msg) : Prop :=
    conf s x /\ (m_valid x = true \/ same_view s x = false).

  Definition egood (s : hstate) : Prop :=
    forall r j x, In (r, j, x) (h_qb s) \/ In (r, j, x) (h_qp s) -> m_from x <> E -> good s x.

  (* EVerify names only E; EBroadcastHash names nobody *)
  Definition einv (s : hstate) : Prop :=
    forall c k, h_err s = Some (c, k) ->
                (k = EVerify -> incl c [E]) /\ (k = EBroadcastHash -> c = []).

  Lemma good_mono s s' x :
    h_shape s' = h_shape s ->
    (forall r d, hget (h_hashes s) r = Some d -> hget (h_hashes s') r = Some d) ->
    good s x -> good s' x.
  Proof.
    intros Hs Hh [Hc Hv]. unfold good, conf. rewrite Hs. split; auto.
    destruct Hv as [Hv|Hv]; auto. right. unfold same_view in *.
    destruct (hget (h_hashes s) (m_round x - 1)) eqn:Hg; [|discriminate].
    now rewrite (Hh _ _ Hg).
  Qed.

  Lemma verify_p2p_good s p : good s p -> m_bcast p = false -> verify_p2p s p <> VBad.
  Proof.
    intros ((_ & Hp) & Hv) Hb. unfold verify_p2p.
    destruct (negb _); [discriminate|]. destruct (_ && _); [discriminate|].
    destruct (same_view s p) eqn:Hsv; cbn [negb]; [|discriminate].
    destruct Hv as [Hv|Hv]; [|discriminate]. rewrite Hv.
    specialize (Hp Hb). destruct (sh_p2p (h_shape s) (m_round p)); destruct (panics_verify p); discriminate.
  Qed.

  Lemma verify_bcast_good s x :
    hwf s -> egood s -> good s x -> m_bcast x = true -> m_from x <> E -> verify_bcast s x <> VBad.
  Proof.
    intros W G ((Hbc & _) & Hv) Hb HE. unfold verify_bcast.
    destruct (negb (existsb _ _)); [discriminate|].
    destruct (same_view s x) eqn:Hsv; cbn [negb]; [|discriminate].
    destruct Hv as [Hv|Hv]; [|discriminate]. rewrite (Hbc Hb), Hv. cbn [negb].
    destruct (panics_verify x); [discriminate|].
    destruct (sh_p2p (h_shape s) (m_round x)) eqn:Hp; try discriminate;
      destruct (qget (h_qp s) (m_round x) (m_from x)) eqn:Hq; try discriminate;
      apply qget_In in Hq; pose proof (w_qp _ _ W _ _ _ Hq) as (_ & Hf & Hbp & _);
      apply verify_p2p_good; auto; eapply G; eauto; congruence.
  Qed.

  Lemma first_bad_E s r j v :
    hwf s -> egood s -> first_bad s r = Some (j, v) -> v <> VHash -> v <> VPanic -> j = E.
  Proof.
    intros W G H Hv Hvp. destruct (Nat.eq_dec j E) as [|Hne]; auto. exfalso.
    unfold first_bad in H.
    destruct (find _ (others s)) as [j'|] eqn:Hf; [|discriminate]. inversion H; subst j' v. clear H.
    apply find_some in Hf as [_ Hf]. apply negb_true_iff in Hf.
    unfold queued_verdict in *. destruct (sh_bcast (h_shape s) r).
    - destruct (qget (h_qb s) r j) eqn:Hq; [|discriminate].
      apply qget_In in Hq. pose proof (w_qb _ _ W _ _ _ Hq) as (_ & Hfr & Hb & _).
      assert (Hg : verify_bcast s m <> VBad).
      { apply verify_bcast_good; auto; try congruence. eapply G; eauto. congruence. }
      destruct (verify_bcast s m); [discriminate|congruence|congruence|congruence].
    - destruct (qget (h_qp s) r j) eqn:Hq; [|discriminate].
      apply qget_In in Hq. pose proof (w_qp _ _ W _ _ _ Hq) as (_ & Hfr & Hb & _).
      assert (Hg : verify_p2p s m <> VBad).
      { apply verify_p2p_good; auto. eapply G; eauto. congruence. }
      destruct (verify_p2p s m); [discriminate|congruence|congruence|congruence].
  Qed.

  Lemma own_entry_good s e : own_entry own_fp s e -> good s (snd e).
  Proof. intros (o & Hb & Hs & ->). cbn. split; [split; auto; discriminate|now left]. Qed.

  Lemma egood_ext s s' :
    ext (own_entry own_fp) s s' -> egood s -> egood s'.
  Proof.
    intros X G r j x Hin HE.
    apply (good_mono s); [apply (x_shape _ _ _ X)|apply (x_hs _ _ _ X)|].
    destruct Hin as [Hin|Hin].
    - destruct (x_qbn _ _ _ X _ Hin) as [H|H]; [eapply G; eauto|]. now apply own_entry_good in H.
    - destruct (x_qpn _ _ _ X _ Hin) as [H|H]; [eapply G; eauto|]. now apply own_entry_good in H.
  Qed.

  Lemma egood_same s s' :
    h_shape s' = h_shape s -> h_hashes s' = h_hashes s -> h_qb s' = h_qb s -> h_qp s' = h_qp s ->
    egood s -> egood s'.
  Proof.
    intros H1 H2 H3 H4 G r j x Hin HE. rewrite H3, H4 in Hin.
    apply (good_mono s); auto; [now rewrite H2|]. eapply G; eauto.
  Qed.

  Lemma einv_abort s c k :
    einv s -> (k = EVerify -> incl c [E]) -> (k = EBroadcastHash -> c = []) ->
    einv (abort s (Some (c, k))).
  Proof.
    intros I H1 H2 c' k' Hc'. destruct (abort_err s (Some (c, k))) as [Eq|(ce & Eq1 & Eq2)].
    - rewrite Eq in Hc'. now apply I.
    - rewrite Eq2 in Hc'. inversion Eq1; subst. inversion Hc'; subst. auto.
  Qed.

  Lemma einv_abort_none s : einv s -> einv (abort s None).
  Proof.
    intros I c' k' Hc'. destruct (abort_err s None) as [Eq|(ce & Eq1 & _)]; [|discriminate].
    rewrite Eq in Hc'. now apply I.
  Qed.

  Lemma einv_same s s' : h_err s' = h_err s -> einv s -> einv s'.
  Proof. unfold einv. now intros ->. Qed.

  Lemma hwf_fs3 s :
    hwf s -> h_cur s <> 0 -> all_in s = true -> check_broadcast_hash (fs1 s) = true -> hwf (fs3 s).
  Proof.
    intros W H0 H1 H2. unfold SystemProofs.fs3. rewrite <- (fs2_cur view_hash own_fp s).
    assert (W2 := hwf_fs2 _ own_fp s W H0 H1).
    apply hwf_advance; auto; rewrite ?fs2_res, ?fs2_cur, ?fs2_shape.
    - now apply hwf_res_false with (view_hash := view_hash).
    - now apply fs2_checked.
    - intros Hr. now apply fs2_complete.
  Qed.

  Lemma fs_err s : h_err (fs2 s) = h_err s /\ h_err (fs1 s) = h_err s.
  Proof. unfold SystemProofs.fs2, SystemProofs.fs1. now autorewrite with hp. Qed.

  Lemma einv_finalize f s : hwf s -> egood s -> einv s -> einv (finalize view_hash own_fp f s).
  Proof.
    revert s. induction f as [|f IH]; intros s W G I; auto.
    assert (X12 : ext (own_entry own_fp) s (fs2 s)).
    { eapply ext_trans; [apply own_entry_stable|apply ext_fs1|apply ext_fs2]. }
    assert (G3 : h_cur s < sh_final (h_shape s) -> egood (fs3 s)).
    { intros Hlt. eapply egood_ext; [|exact G]. eapply ext_trans; [apply own_entry_stable|exact X12|].
      apply ext_advance. rewrite fs2_cur. lia. }
    assert (I3 : einv (fs3 s)) by (eapply einv_same; [|exact I]; cbn; apply fs_err).
    destruct (finalize_cases view_hash own_fp f s).
    - exact I.
    - eapply einv_same; [|exact I]. apply fs_err.
    - apply einv_abort; [|discriminate|auto]. eapply einv_same; [|exact I]. apply fs_err.
    - eapply einv_same; [|exact I]. apply fs_err.
    - apply einv_abort_none. eapply einv_same; [|exact I]. cbn. apply fs_err.
    - assert (W3 := hwf_fs3 s W H0 H1 H2).
      apply einv_abort; auto; [|discriminate].
      intros _. rewrite (first_bad_E _ _ _ _ W3 (G3 H4) H6 H7 H8). apply incl_refl.
    - apply einv_abort; auto. discriminate.
    - assert (W3 := hwf_fs3 s W H0 H1 H2). apply IH; auto.
    - eapply einv_same; [|exact I]. cbn. apply fs_err.
    - eapply einv_same; [|exact I3]. reflexivity.
  Qed.

  Lemma egood_store s m : egood s -> (m_from m <> E -> good s m) -> egood (store s m).
  Proof.
    intros G Hm r j x Hin HE.
    apply (good_mono s); [now autorewrite with hp|intros; now autorewrite with hp|].
    destruct (store_cases s m) as [Eq|[(_&_&_&Eb&Ep)|(_&_&_&Ep&Eb)]].
    - rewrite Eq in Hin. eapply G; eauto.
    - rewrite Eb, Ep in Hin. destruct Hin as [[Hin|Hin]|Hin]; try (eapply G; eauto; fail).
      inversion Hin; subst. auto.
    - rewrite Eb, Ep in Hin. destruct Hin as [Hin|[Hin|Hin]]; try (eapply G; eauto; fail).
      inversion Hin; subst. auto.
  Qed.

  (* one Accept: stored messages from parties other than E stay good, EVerify names only E,
     EBroadcastHash names nobody *)
  Lemma blame_accept_body s m :
    hwf s -> egood s -> einv s -> (m_round m <> 0 -> m_from m <> E -> good s m) ->
    egood (accept_body view_hash own_fp s m) /\ einv (accept_body view_hash own_fp s m).
  Proof.
    intros W G I Hm. rewrite accept_body_eq. destruct (h_rt s); auto.
    destruct (negb (can_accept s m) || _ || h_res s || duplicate s m) eqn:Hg; auto.
    apply orb_false_iff in Hg as [Hg _]. apply orb_false_iff in Hg as [Hg Hres].
    apply orb_false_iff in Hg as [Hca _]. apply negb_false_iff in Hca.
    destruct (m_round m =? 0) eqn:Hr0.
    { split; [|apply einv_abort; auto; discriminate].
      eapply egood_same; [| | | |exact G]; now autorewrite with hp. }
    apply Nat.eqb_neq in Hr0. cbv zeta.
    assert (W1 : hwf (store s m)).
    { apply hwf_store; auto. pose proof (can_accept_not_stale s m Hca Hr0).
      unfold passed. intros [_ [H'|H']]; [lia|congruence]. }
    assert (G1 : egood (store s m)) by (apply egood_store; auto).
    assert (I1 : einv (store s m)) by (eapply einv_same; [|exact I]; now autorewrite with hp).
    assert (GA : forall e, egood (abort (store s m) e)).
    { intros e. eapply egood_same; [| | | |exact G1]; now autorewrite with hp. }
    destruct (negb _); auto.
    destruct (if m_bcast m then _ else _) eqn:Hv.
    - split; [|now apply einv_finalize].
      eapply egood_ext; [apply ext_finalize|exact G1].
    - split; [apply GA|].
      apply einv_abort; auto; [|discriminate]. intros _.
      destruct (Nat.eq_dec (m_from m) E) as [->|Hne]; [apply incl_refl|]. exfalso.
      assert (Gm : good (store s m) m).
      { apply (good_mono s); [now autorewrite with hp|intros; now autorewrite with hp|auto]. }
      destruct (m_bcast m) eqn:Hb.
      + now apply (verify_bcast_good (store s m) m W1 G1 Gm Hb Hne).
      + now apply (verify_p2p_good (store s m) m Gm Hb).
    - split; [apply GA|]. apply einv_abort; auto. discriminate.
    - split; [eapply egood_same; [| | | |exact G1]; now autorewrite with hp|].
      eapply einv_same; [|exact I1]. now autorewrite with hp.
  Qed.

  (* the deferred recover names nobody *)
  Lemma blame_accept s m :
    hwf s -> egood s -> einv s -> (m_round m <> 0 -> m_from m <> E -> good s m) ->
    egood (accept view_hash own_fp s m) /\ einv (accept view_hash own_fp s m).
  Proof.
    intros W G I Hm.
    apply (accept_lift view_hash own_fp (fun x => egood x /\ einv x));
      [| |split; assumption|apply blame_accept_body; assumption].
    - intros x rt [Gx Ix]. split; [eapply egood_same; [| | | |exact Gx]; now autorewrite with hp|].
      eapply einv_same; [|exact Ix]. now autorewrite with hp.
    - intros x [Gx Ix]. split; [eapply egood_same; [| | | |exact Gx]; now autorewrite with hp|].
      apply einv_abort; auto; discriminate.
  Qed.
End Blame.

(* ================================================================== *)
(* 6. The system with one corrupted party                              *)
(* ================================================================== *)
Lemma pick_spec to k l m rest :
  pick to k l = Some (m, rest) ->
  In (to, m) l /\ (forall e, In e rest -> In e l) /\ (forall e, In e l -> e = (to, m) \/ In e rest).
Proof.
  revert k m rest. induction l as [|[d x] l IH]; intros k m rest; cbn; [discriminate|].
  destruct (d =? to) eqn:Hd.
  - apply Nat.eqb_eq in Hd. subst d. destruct k as [|k].
    + intros H. inversion H; subst. repeat split; auto. intros e [He|He]; auto.
    + destruct (pick to k l) as [[y r]|] eqn:Hp; [|discriminate].
      intros H. inversion H; subst. destruct (IH _ _ _ Hp) as (A & B & C). repeat split; auto.
      * intros e [He|He]; [now left|right; auto].
      * intros e [He|He]; [right; now left|]. destruct (C e He); auto. right. now right.
  - destruct (pick to k l) as [[y r]|] eqn:Hp; [|discriminate].
    intros H. inversion H; subst. destruct (IH _ _ _ Hp) as (A & B & C). repeat split; auto.
    + intros e [He|He]; [now left|right; auto].
    + intros e [He|He]; [right; now left|]. destruct (C e He); auto. right. now right.
Qed.

Section SysAdv.
  Variable view_hash : nat -> list N -> N.
  Variable fp : party -> bool -> option party -> nat -> N.
  Variable validity : hstate -> msg -> bool.
  Variables (n : nat) (ssid proto : N) (sh : shape).
  Variable E : party.

  Notation step := (step view_hash fp validity n).
  Notation run := (run view_hash fp validity n).
  Notation deliver_to := (deliver_to view_hash fp validity n).
  Notation init_sys := (init_sys view_hash fp n ssid proto sh).
  Notation hwf := (hwf view_hash).

  Definition static_ok (i : party) (s : hstate) : Prop :=
    h_self s = i /\ h_n s = n /\ h_ssid s = ssid /\ h_proto s = proto /\ h_shape s = sh.

  Definition mk_msg (j : party) (o : outmsg) : msg :=
    mkMsg ssid proto j (o_to o) (o_round o) true (o_bcast o) (o_bv o)
          (fp j (o_bcast o) (o_to o) (o_round o)) true NoPanic.

  Lemma msg_of_out_static j s o : static_ok j s -> msg_of_out fp s o = mk_msg j o.
  Proof. intros (H1 & _ & H3 & H4 & _). unfold msg_of_out, mk_msg. now rewrite H1, H3, H4. Qed.

  Definition emitted (st : sys) (x : msg) : Prop :=
    exists o, In o (h_out (s_h st (m_from x))) /\ set_valid x true = mk_msg (m_from x) o.

  Record sinv (st : sys) : Prop := mkSinv {
    i_wf : forall i, hwf (s_h st i);
    i_static : forall i, static_ok i (s_h st i);
    i_sent : forall d m, In (d, m) (s_sent st) -> emitted st m;
    i_sent_valid : forall d m, In (d, m) (s_sent st) -> m_valid m = true;
    i_net : forall e, In e (s_net st) -> In e (s_sent st);
    i_q : forall i r j x, In (r, j, x) (h_qb (s_h st i)) \/ In (r, j, x) (h_qp (s_h st i)) ->
                          j = E \/ j = i \/ emitted st x
  }.

  Definition out_grows (st st' : sys) : Prop :=
    forall j, exists l, h_out (s_h st' j) = h_out (s_h st j) ++ l.

  Lemma emitted_mono st st' x : out_grows st st' -> emitted st x -> emitted st' x.
  Proof.
    intros G (o & Ho & Hx). exists o. split; auto. destruct (G (m_from x)) as [l ->].
    apply in_or_app. now left.
  Qed.

  Lemma static_ext P i s s' : ext P s s' -> static_ok i s -> static_ok i s'.
  Proof.
    intros X (H1 & H2 & H3 & H4 & H5). unfold static_ok.
    rewrite (x_self _ _ _ X), (x_n _ _ _ X), (x_ssid _ _ _ X), (x_proto _ _ _ X), (x_shape _ _ _ X). auto.
  Qed.

  Lemma static_drain i s k : static_ok i s -> static_ok i (drain k s).
  Proof. unfold static_ok. now autorewrite with hp. Qed.

  Lemma hwf_drain s k : hwf s -> hwf (drain k s).
  Proof.
    intros W. eapply (hwf_frame view_hash s _ []); autorewrite with hp; auto.
    now rewrite app_nil_r. intros o [].
  Qed.

  Lemma emitted_set_valid st x b : emitted st x -> emitted st (set_valid x b).
  Proof. intros (o & Ho & Hx). exists o. cbn. split; auto. Qed.

  Lemma in_posted s l d m :
    In (d, m) (posted fp s l) -> exists o, In o l /\ m = msg_of_out fp s o /\ In d (addressees s o).
  Proof.
    unfold posted. rewrite in_flat_map. intros (o & Ho & Hin). unfold expand in Hin.
    apply in_map_iff in Hin as (d' & Heq & Hd'). inversion Heq; subst. eauto.
  Qed.

  Lemma skipn_app_exact {A} (l l' : list A) : skipn (length l) (l ++ l') = l'.
  Proof. induction l; cbn; auto. Qed.

  (* the state of the system after handler [to] accepted m *)
  Lemma sinv_deliver st net' to m :
    sinv st -> (forall e, In e net' -> In e (s_sent st)) ->
    (m_from m = E \/ emitted st m) ->
    sinv (deliver_to st net' to m).
  Proof.
    intros I Hnet Hm. unfold System.deliver_to.
    destruct (to <? n) eqn:Hto; auto.
    set (s := s_h st to). set (m' := set_valid m (validity s m)).
    set (s1 := accept view_hash (own_fp_of fp to) s m').
    assert (X := ext_accept view_hash (own_fp_of fp to) s m'). fold s1 in X.
    destruct (x_out _ _ _ X) as [l Hl].
    rewrite Hl, skipn_app_exact.
    set (st' := mkSys _ _ _).
    assert (Hst : forall j, j <> to -> s_h st' j = s_h st j).
    { intros j Hj. cbn. apply Nat.eqb_neq in Hj. now rewrite Hj. }
    assert (Hto' : s_h st' to = drain (h_pending s1) s1) by (cbn; now rewrite Nat.eqb_refl).
    assert (G : out_grows st st').
    { intros j. destruct (Nat.eq_dec j to) as [->|Hj].
      - rewrite Hto'. autorewrite with hp. fold s. eauto.
      - rewrite (Hst j Hj). exists []. now rewrite app_nil_r. }
    assert (S1 : static_ok to s1) by (eapply static_ext; [exact X|apply (i_static _ I)]).
    constructor.
    - intros i. destruct (Nat.eq_dec i to) as [->|Hi].
      + rewrite Hto'. apply hwf_drain. apply hwf_accept. apply (i_wf _ I).
      + rewrite (Hst i Hi). apply (i_wf _ I).
    - intros i. destruct (Nat.eq_dec i to) as [->|Hi].
      + rewrite Hto'. now apply static_drain.
      + rewrite (Hst i Hi). apply (i_static _ I).
    - intros d x Hin. cbn [s_sent st'] in Hin. apply in_app_or in Hin as [Hin|Hin].
      + eapply emitted_mono; [exact G|]. eapply (i_sent _ I); eauto.
      + apply in_posted in Hin as (o & Ho & -> & _).
        rewrite (msg_of_out_static to) by auto. exists o. cbn [m_from mk_msg]. split; [|reflexivity].
        rewrite Hto'. autorewrite with hp. rewrite Hl. apply in_or_app. now right.
    - intros d x Hin. cbn [s_sent st'] in Hin. apply in_app_or in Hin as [Hin|Hin].
      + eapply (i_sent_valid _ I); eauto.
      + apply in_posted in Hin as (o & Ho & -> & _). reflexivity.
    - intros e Hin. cbn [s_net s_sent st'] in *. apply in_app_or in Hin as [Hin|Hin]; apply in_or_app; auto.
    - intros i r j x Hin. destruct (Nat.eq_dec i to) as [->|Hi].
      + rewrite Hto' in Hin. autorewrite with hp in Hin.
        assert (Hold : In (r, j, x) (h_qb s) \/ In (r, j, x) (h_qp s) -> j = E \/ j = to \/ emitted st' x).
        { intros H. destruct (i_q _ I to r j x H) as [?|[?|?]]; auto. right. right.
          eapply emitted_mono; eauto. }
        assert (Hnew : acc_entry (own_fp_of fp to) m' s (r, j, x) -> j = E \/ j = to \/ emitted st' x).
        { intros [(o & _ & _ & Heq)|Heq]; inversion Heq; subst.
          - right. left. apply (i_static _ I).
          - cbn [m_from set_valid m']. destruct Hm as [Hm|Hm]; auto. right. right.
            eapply emitted_mono; [exact G|]. now apply emitted_set_valid. }
        destruct Hin as [Hin|Hin].
        * destruct (x_qbn _ _ _ X _ Hin); auto.
        * destruct (x_qpn _ _ _ X _ Hin); auto.
      + rewrite (Hst i Hi) in Hin. destruct (i_q _ I i r j x Hin) as [?|[?|?]]; auto. right. right.
        eapply emitted_mono; eauto.
  Qed.

  Definition ev_auth (ev : sched_ev) : Prop :=
    match ev with Inject _ m => m_from m = E | _ => True end.

  Lemma authenticb_spec sched : authenticb E sched = true -> Forall ev_auth sched.
  Proof.
    unfold authenticb. rewrite forallb_forall, Forall_forall. intros H ev Hev.
    specialize (H ev Hev). destruct ev; cbn; auto. now apply Nat.eqb_eq.
  Qed.

  Lemma sinv_step st ev : sinv st -> ev_auth ev -> sinv (step st ev).
  Proof.
    intros I Ha. destruct ev as [to k|to k|to m]; cbn [System.step].
    - destruct (pick to k (s_net st)) as [[m rest]|] eqn:Hp; auto.
      apply pick_spec in Hp as (Hin & Hrest & _). apply sinv_deliver; auto.
      + intros e He. apply (i_net _ I). auto.
      + right. eapply (i_sent _ I). apply (i_net _ I). eauto.
    - destruct (pick to k (s_sent st)) as [[m rest]|] eqn:Hp; auto.
      apply pick_spec in Hp as (Hin & _ & _). apply sinv_deliver; auto.
      + apply (i_net _ I).
      + right. eapply (i_sent _ I). eauto.
    - apply sinv_deliver; auto. apply (i_net _ I).
  Qed.

  Lemma sinv_run sched st : sinv st -> Forall ev_auth sched -> sinv (run st sched).
  Proof.
    revert st. induction sched as [|ev sched IH]; intros st I Ha; cbn; auto.
    inversion Ha; subst. apply IH; auto. now apply sinv_step.
  Qed.

  Lemma static_init i : static_ok i (init_state i n ssid proto sh).
  Proof. repeat split. Qed.

  Lemma start_handler_ext i :
    ext (own_entry (own_fp_of fp i)) (init_state i n ssid proto sh)
        (new_handler view_hash (own_fp_of fp i) i n ssid proto sh).
  Proof. apply ext_finalize. Qed.

  Lemma sinv_init : sinv init_sys.
  Proof.
    constructor; cbn [s_h s_net s_sent System.init_sys]; unfold start_handler.
    - intros i. apply hwf_drain, hwf_new.
    - intros i. apply static_drain. eapply static_ext; [apply start_handler_ext|apply static_init].
    - intros d m Hin. apply in_flat_map in Hin as (i & _ & Hin).
      apply in_posted in Hin as (o & Ho & -> & _).
      rewrite (msg_of_out_static i).
      2:{ apply static_drain. eapply static_ext; [apply start_handler_ext|apply static_init]. }
      exists o. cbn [m_from mk_msg s_h]. split; [exact Ho|reflexivity].
    - intros d m Hin. apply in_flat_map in Hin as (i & _ & Hin).
      apply in_posted in Hin as (o & Ho & -> & _). reflexivity.
    - auto.
    - intros i r j x Hin. autorewrite with hp in Hin. right. left.
      pose proof (start_handler_ext i) as X.
      assert (Hown : own_entry (own_fp_of fp i) (init_state i n ssid proto sh) (r, j, x) -> j = i).
      { intros (o & _ & _ & Heq). now inversion Heq. }
      destruct Hin as [Hin|Hin].
      + destruct (x_qbn _ _ _ X _ Hin) as [[]|H]; auto.
      + destruct (x_qpn _ _ _ X _ Hin) as [[]|H]; auto.
  Qed.

  (* ---------------- C06: no split ---------------- *)
  Lemma wf_shapeb_spec r :
    wf_shapeb sh = true -> 2 <= r <= sh_final sh ->
    sh_bcast sh r = true \/ p2p_some (sh_p2p sh r) = true.
  Proof.
    unfold wf_shapeb. rewrite forallb_forall. intros H Hr.
    apply orb_true_iff. apply H. apply in_seq. lia.
  Qed.

  Lemma map_eq_pointwise {A B} (f g : A -> B) l : map f l = map g l -> forall x, In x l -> f x = g x.
  Proof.
    induction l as [|a l IH]; cbn; intros H x Hx; [tauto|].
    inversion H. destruct Hx as [<-|Hx]; auto.
  Qed.

  Lemma stored_fp_of_view s k v j :
    h_n s = n -> view_of s k = Some v -> j < n ->
    stored_fp s k j = Some (nth j v 0%N) /\ v = map (fp_at (h_qb s) k) (seq 0 n).
  Proof.
    intros Hn Hv Hj. rewrite view_of_raw, Hn in Hv. apply view_raw_some in Hv as [-> Hall].
    split; auto. unfold stored_fp. specialize (Hall j). 
    destruct (qget (h_qb s) k j) eqn:Hq.
    - f_equal. rewrite (nth_indep _ 0%N (fp_at (h_qb s) k 0)) by (rewrite map_length, seq_length; lia).
      rewrite map_nth, seq_nth by lia. unfold fp_at. cbn. now rewrite Hq.
    - exfalso. apply Hall; auto. apply in_seq. lia.
  Qed.

  Theorem no_split sched A B k j :
    wf_shapeb sh = true -> authenticb E sched = true ->
    A < n -> B < n -> A <> E -> B <> E ->
    h_res (s_h (run init_sys sched) A) = true ->
    h_res (s_h (run init_sys sched) B) = true ->
    sh_bcast sh k = true -> 2 <= k < sh_final sh -> j < n ->
    (stored_fp (s_h (run init_sys sched) A) k j = stored_fp (s_h (run init_sys sched) B) k j
     /\ stored_fp (s_h (run init_sys sched) A) k j <> None)
    \/ exists r v v', v <> v' /\ view_hash r v = view_hash r v'.
  Proof.
    intros Hwf Hau HA HB HAE HBE HrA HrB Hbk Hk Hj.
    set (st := run init_sys sched) in *.
    assert (I : sinv st) by (apply sinv_run; [apply sinv_init|now apply authenticb_spec]).
    pose proof (i_wf _ I A) as WA. pose proof (i_wf _ I B) as WB.
    destruct (i_static _ I A) as (SA1 & SA2 & _ & _ & SA5).
    destruct (i_static _ I B) as (SB1 & SB2 & _ & _ & SB5).
    (* both have a digest of round k, which is the digest of their stored view *)
    assert (PA : forall c, 1 <= c -> passed (s_h st A) c) by (intros c Hc; split; auto).
    assert (PB : forall c, 1 <= c -> passed (s_h st B) c) by (intros c Hc; split; auto).
    destruct (w_cpl _ _ WA k (PA k ltac:(lia)) ltac:(rewrite SA5; lia)) as [HhA _].
    destruct (w_cpl _ _ WB k (PB k ltac:(lia)) ltac:(rewrite SB5; lia)) as [HhB _].
    rewrite SA5 in HhA. rewrite SB5 in HhB. specialize (HhA Hbk). specialize (HhB Hbk).
    destruct (hget (h_hashes (s_h st A)) k) as [dA|] eqn:EA; [|congruence].
    destruct (hget (h_hashes (s_h st B)) k) as [dB|] eqn:EB; [|congruence].
    destruct (w_hash _ _ WA _ _ EA) as (vA & HvA & ->).
    destruct (w_hash _ _ WB _ _ EB) as (vB & HvB & ->).
    destruct (stored_fp_of_view _ _ _ j SA2 HvA Hj) as [FA MA].
    destruct (stored_fp_of_view _ _ _ j SB2 HvB Hj) as [FB MB].
    destruct (list_eq_dec N.eq_dec vA vB) as [Heq|Hne].
    { left. rewrite FA, FB, Heq. split; [reflexivity|discriminate]. }
    destruct (Nat.eq_dec A B) as [HAB|HAB].
    { exfalso. subst B. congruence. }
    right. exists k, vA, vB. split; auto.
    (* A stored an authentic round-(k+1) message of B; it carries B's digest and passed A's check *)
    destruct (w_cpl _ _ WA (S k) (PA (S k) ltac:(lia)) ltac:(rewrite SA5; lia)) as [_ HcA].
    assert (HBo : In B (others (s_h st A))) by (apply In_others; rewrite SA1, SA2; lia).
    destruct (HcA B HBo) as [Hb1 Hp1]. rewrite SA5 in Hb1, Hp1.
    assert (Hx : exists x, In (S k, B, x) (h_qb (s_h st A)) \/ In (S k, B, x) (h_qp (s_h st A))).
    { destruct (wf_shapeb_spec (S k) Hwf ltac:(lia)) as [H|H].
      - specialize (Hb1 H). destruct (qget (h_qb (s_h st A)) (S k) B) eqn:Hq; [|congruence].
        exists m. left. now apply qget_In.
      - specialize (Hp1 H). destruct (qget (h_qp (s_h st A)) (S k) B) eqn:Hq; [|congruence].
        exists m. right. now apply qget_In. }
    destruct Hx as [x Hx].
    assert (Hbv : m_bv x = view_hash k vA).
    { eapply (w_chk _ _ WA (S k) (PA (S k) ltac:(lia))); [|exact Hx]. cbn. now rewrite Nat.sub_0_r. }
    assert (Hfx : m_from x = B /\ m_round x = S k).
    { destruct Hx as [Hx|Hx]; [apply (w_qb _ _ WA) in Hx|apply (w_qp _ _ WA) in Hx]; tauto. }
    destruct Hfx as [Hfx Hrx].
    destruct (i_q _ I A _ _ _ Hx) as [?|[?|(o & Ho & Hmk)]]; [congruence|congruence|].
    rewrite Hfx in Ho, Hmk.
    assert (Hro : o_round o = S k /\ o_bv o = m_bv x).
    { apply (f_equal m_round) in Hmk as H1. apply (f_equal m_bv) in Hmk as H2. cbn in H1, H2. split; congruence. }
    destruct Hro as [Hro Hbo].
    pose proof (w_out _ _ WB o Ho k Hro ltac:(now rewrite SB5) ltac:(lia)) as HoB.
    rewrite EB in HoB. inversion HoB. congruence.
  Qed.
End SysAdv.

Section SysBlame.
  Variable view_hash : nat -> list N -> N.
  Variable fp : party -> bool -> option party -> nat -> N.
  Variable validity : hstate -> msg -> bool.
  Variables (n : nat) (ssid proto : N) (sh : shape).
  Variable E : party.
  (* view-dependent validity: a valid message of an honest party is accepted by the recipient's round
     whenever the view digest attached to it equals the recipient's digest of the previous round *)
  Hypothesis honest_valid :
    forall s m, m_from m <> E -> m_valid m = true -> same_view s m = true -> validity s m = true.

  Notation step := (step view_hash fp validity n).
  Notation run := (run view_hash fp validity n).
  Notation deliver_to := (deliver_to view_hash fp validity n).
  Notation init_sys := (init_sys view_hash fp n ssid proto sh).
  Notation sinv := (sinv view_hash fp n ssid proto sh E).
  Notation emitted := (emitted fp ssid proto).

  Definition binv (st : sys) : Prop := forall i, egood E (s_h st i) /\ einv E (s_h st i).

  Lemma egood_drain s k : egood E s -> egood E (drain k s).
  Proof. intros G. eapply egood_same; [| | | |exact G]; now autorewrite with hp. Qed.

  Lemma binv_deliver st net' to m :
    sinv st -> binv st -> (m_from m = E \/ (emitted st m /\ m_valid m = true)) ->
    binv (deliver_to st net' to m).
  Proof.
    intros I Bv Hm. unfold System.deliver_to. destruct (to <? n) eqn:Hto; auto.
    intros i. cbn [s_h]. destruct (i =? to) eqn:Hi; [|apply Bv].
    apply Nat.eqb_eq in Hi. subst i.
    set (s := s_h st to). set (m' := set_valid m (validity s m)).
    destruct (Bv to) as [G Ie]. fold s in G, Ie.
    destruct (blame_accept view_hash (own_fp_of fp to) E s m') as [G' I'].
    - apply (i_wf _ _ _ _ _ _ _ _ I).
    - exact G.
    - exact Ie.
    - intros Hr HE. cbn [m_from set_valid m'] in HE. destruct Hm as [Hm|[(o & Ho & Hmk) Hmv]]; [congruence|].
      unfold good, conf, same_view. cbn [m_valid m_bcast m_round m_bv set_valid m'].
      split; [|fold (same_view s m); destruct (same_view s m) eqn:Hsv; [left; now apply honest_valid|now right]].
      destruct (i_static _ _ _ _ _ _ _ _ I to) as (_ & _ & _ & _ & S5). fold s in S5. rewrite S5.
      destruct (i_static _ _ _ _ _ _ _ _ I (m_from m)) as (_ & _ & _ & _ & S5').
      pose proof (w_conf _ _ (i_wf _ _ _ _ _ _ _ _ I (m_from m)) o Ho) as Hc. unfold out_conf in Hc.
      rewrite S5' in Hc.
      apply (f_equal m_round) in Hmk as H1. apply (f_equal m_bcast) in Hmk as H2. cbn in H1, H2.
      cbn [m_round set_valid m'] in Hr. rewrite H1, H2. apply Hc. congruence.
    - split; [now apply egood_drain|]. eapply einv_same; [|exact I']. now autorewrite with hp.
  Qed.

  Lemma binv_step st ev : sinv st -> binv st -> ev_auth E ev -> binv (step st ev).
  Proof.
    intros I Bv Ha. destruct ev as [to k|to k|to m]; cbn [System.step].
    - destruct (pick to k (s_net st)) as [[m rest]|] eqn:Hp; auto.
      apply pick_spec in Hp as (Hin & _ & _). apply binv_deliver; auto.
      right. split; [eapply (i_sent _ _ _ _ _ _ _ _ I)|eapply (i_sent_valid _ _ _ _ _ _ _ _ I)];
        apply (i_net _ _ _ _ _ _ _ _ I); eauto.
    - destruct (pick to k (s_sent st)) as [[m rest]|] eqn:Hp; auto.
      apply pick_spec in Hp as (Hin & _ & _). apply binv_deliver; auto.
      right. split; [eapply (i_sent _ _ _ _ _ _ _ _ I)|eapply (i_sent_valid _ _ _ _ _ _ _ _ I)]; eauto.
    - apply binv_deliver; auto.
  Qed.

  Lemma binv_run sched st :
    sinv st -> binv st -> Forall (ev_auth E) sched -> binv (run st sched).
  Proof.
    revert st. induction sched as [|ev sched IH]; intros st I Bv Ha; cbn; auto.
    inversion Ha; subst. apply IH; auto; [now apply sinv_step|now apply binv_step].
  Qed.

  Lemma binv_init : binv init_sys.
  Proof.
    intros i. cbn [s_h System.init_sys]. unfold start_handler.
    assert (G0 : egood E (init_state i n ssid proto sh)) by (intros r j x [[]|[]]).
    assert (I0 : einv E (init_state i n ssid proto sh)) by (intros c k Hc; discriminate Hc).
    split.
    - apply egood_drain. eapply egood_ext; [apply ext_finalize|exact G0].
    - assert (H : einv E (new_handler view_hash (own_fp_of fp i) i n ssid proto sh)).
      { apply einv_finalize; auto. apply hwf_init. exact (own_fp_of fp i). }
      eapply einv_same; [|exact H]. now autorewrite with hp.
  Qed.

  Theorem blame_sound sched A c k :
    authenticb E sched = true ->
    h_err (s_h (run init_sys sched) A) = Some (c, k) ->
    (k = EVerify -> incl c [E]) /\ (k = EBroadcastHash -> c = []).
  Proof.
    intros Hau Herr.
    pose proof (binv_run sched init_sys (sinv_init _ _ _ _ _ _ _) binv_init (authenticb_spec _ _ Hau)) as Bv.
    destruct (Bv A) as [_ Ie]. now apply Ie.
  Qed.
End SysBlame.

(* the instance for the oracle of Model/System.v *)
Lemma view_dependent_valid_ok E s m :
  m_from m <> E -> m_valid m = true -> same_view s m = true -> view_dependent_valid s m = true.
Proof. intros _ Hv Hs. unfold view_dependent_valid. rewrite Hv. exact Hs. Qed.

Theorem blame_sound_view_dependent view_hash fp n ssid proto sh E sched A c k :
  authenticb E sched = true ->
  h_err (s_h (run view_hash fp view_dependent_valid n (init_sys view_hash fp n ssid proto sh) sched) A) = Some (c, k) ->
  (k = EVerify -> incl c [E]) /\ (k = EBroadcastHash -> c = []).
Proof. apply blame_sound. apply view_dependent_valid_ok. Qed.

(* special case: an oracle that never rejects a valid message of an honest party *)
Theorem blame_sound_given_valid view_hash fp validity n ssid proto sh E :
  (forall s m, m_from m <> E -> m_valid m = true -> validity s m = true) ->
  forall sched A c,
  authenticb E sched = true ->
  h_err (s_h (run view_hash fp validity n (init_sys view_hash fp n ssid proto sh) sched) A) = Some (c, EVerify) ->
  incl c [E].
Proof.
  intros Hv sched A c Hau Herr.
  destruct (blame_sound view_hash fp validity n ssid proto sh E (fun s m H1 H2 _ => Hv s m H1 H2) sched A c EVerify Hau Herr); auto.
Qed.

(* ================================================================== *)
(* 7. All-honest runs: the handler follows the ideal (lockstep) run    *)
(* ================================================================== *)
Lemma emit_ok s o :
  h_rt s = Running -> h_closes s = 0 -> h_pending s < capacity s ->
  h_rt (emit s o) = Running /\ h_out (emit s o) = h_out s ++ [o] /\ h_pending (emit s o) = S (h_pending s).
Proof.
  intros H1 H2 H3. unfold emit. rewrite H1, H2.
  replace (0 <? 0) with false by reflexivity.
  apply Nat.ltb_lt in H3. rewrite H3. cbn [h_rt h_out h_pending]. auto.
Qed.

Lemma capacity_static s s' : h_n s' = h_n s -> capacity s' = capacity s.
Proof. unfold capacity. now intros ->. Qed.

Section EmitAll.
  Variable own_fp : nat -> N.
  Lemma emit_all_ok s l :
    h_rt s = Running -> h_closes s = 0 -> h_pending s + length l <= capacity s ->
    h_rt (emit_all own_fp s l) = Running /\ h_out (emit_all own_fp s l) = h_out s ++ l
    /\ h_pending (emit_all own_fp s l) = h_pending s + length l.
  Proof.
    revert s. induction l as [|o l IH]; intros s H1 H2 H3; cbn [emit_all].
    - rewrite app_nil_r. cbn. auto.
    - set (s1 := if o_bcast o then store s (own_bcast_msg own_fp s o) else s).
      assert (E1 : h_rt s1 = Running) by (unfold s1; destruct (o_bcast o); now autorewrite with hp).
      assert (E2 : h_closes s1 = 0) by (unfold s1; destruct (o_bcast o); now autorewrite with hp).
      assert (E3 : h_pending s1 = h_pending s) by (unfold s1; destruct (o_bcast o); now autorewrite with hp).
      assert (E4 : h_out s1 = h_out s) by (unfold s1; destruct (o_bcast o); now autorewrite with hp).
      assert (E5 : capacity s1 = capacity s)
        by (apply capacity_static; unfold s1; destruct (o_bcast o); now autorewrite with hp).
      cbn [length] in H3.
      assert (E6 : h_pending s1 < capacity s1) by lia.
      destruct (emit_ok s1 o E1 E2 E6) as (A & B & C).
      destruct (IH (emit s1 o)) as (A' & B' & C'); auto.
      + now autorewrite with hp.
      + rewrite C, (capacity_static s1) by now autorewrite with hp. lia.
      + repeat split; auto.
        * rewrite B', B, E4, <- app_assoc. reflexivity.
        * rewrite C', C, E3. cbn [length]. lia.
  Qed.

  Lemma emit_all_qb_mono s l r j x :
    qget (h_qb s) r j = Some x -> qget (h_qb (emit_all own_fp s l)) r j = Some x.
  Proof.
    revert s. induction l as [|b l IH]; intros s H; cbn [emit_all]; auto.
    apply IH. rewrite emit_h_qb. destruct (o_bcast b); auto. now apply store_qb_mono.
  Qed.

  Lemma emit_all_own_stored s l o :
    In o l -> o_bcast o = true -> has_queue s (o_round o) = true ->
    qget (h_qb (emit_all own_fp s l)) (o_round o) (h_self s) <> None.
  Proof.
    revert s. induction l as [|a l IH]; intros s Hin Hb Hq; [destruct Hin|].
    cbn [emit_all]. destruct Hin as [->|Hin].
    - rewrite Hb.
      pose proof (store_fills s (own_bcast_msg own_fp s o)) as Hf. cbn in Hf. specialize (Hf Hq).
      unfold queue_of in Hf. cbn in Hf.
      destruct (qget (h_qb (store s (own_bcast_msg own_fp s o))) (o_round o) (h_self s)) eqn:Hg; [|congruence].
      erewrite emit_all_qb_mono; [discriminate|]. rewrite emit_h_qb. exact Hg.
    - replace (h_self s) with (h_self (emit (if o_bcast a then store s (own_bcast_msg own_fp s a) else s) a))
        by (destruct (o_bcast a); now autorewrite with hp).
      apply IH; auto. unfold has_queue in *. destruct (o_bcast a); now autorewrite with hp.
  Qed.
End EmitAll.

Lemma filter_length_le' {A} (f : A -> bool) l : length (filter f l) <= length l.
Proof. induction l as [|b l IH]; cbn; auto. destruct (f b); cbn; lia. Qed.

Lemma filter_length_lt {A} (f : A -> bool) l a : In a l -> f a = false -> length (filter f l) < length l.
Proof.
  induction l as [|b l IH]; cbn; [tauto|]. intros [->|Hin] Hf.
  - rewrite Hf. pose proof (filter_length_le' f l). lia.
  - specialize (IH Hin Hf). destruct (f b); cbn; lia.
Qed.

Lemma others_length s : h_self s < h_n s -> S (length (others s)) <= h_n s.
Proof.
  intros H. unfold others.
  pose proof (filter_length_lt (fun j => negb (j =? h_self s)) (seq 0 (h_n s)) (h_self s)) as L.
  rewrite seq_length in L. apply L.
  - apply in_seq. lia.
  - now rewrite Nat.eqb_refl.
Qed.

Lemma round_outputs_length s r bv : h_self s < h_n s -> 2 <= h_n s -> length (round_outputs s r bv) <= h_n s.
Proof.
  intros H1 H2. unfold round_outputs. destruct (_ <=? _); cbn; [lia|].
  rewrite app_length. pose proof (others_length s H1).
  destruct (sh_bcast (h_shape s) (S r)); destruct (sh_p2p (h_shape s) (S r)); cbn; rewrite ?map_length; lia.
Qed.

Section Ideal.
  Variable view_hash : nat -> list N -> N.
  Variable fp : party -> bool -> option party -> nat -> N.
  Variables (n : nat) (ssid proto : N) (sh : shape).
  Hypothesis Hn2 : 2 <= n.
  Hypothesis Hwf : wf_shapeb sh = true.
  Variable i : party.
  Hypothesis Hi : i < n.

  Notation ofp := (own_fp_of fp i).
  Notation ibv := (ideal_bv view_hash fp n sh).
  Notation final := (sh_final sh).
  Notation hwf := (hwf view_hash).
  Notation fs1 := (fs1 view_hash).
  Notation fs2 := (fs2 view_hash ofp).
  Notation fs3 := (fs3 view_hash ofp).
  Notation static_ok := (static_ok n ssid proto sh).
  Notation ideal_out_upto := (ideal_out_upto view_hash fp n ssid proto sh).
  Notation ideal_outs := (ideal_outs view_hash fp n ssid proto sh).

  Definition ideal_entry (bc : bool) (r : nat) (j : party) (x : msg) : Prop :=
    m_round x = r /\ m_from x = j /\ m_bcast x = bc /\ m_bv x = ibv (r - 1) /\ m_valid x = true
    /\ 2 <= r <= final /\ j < n
    /\ (bc = true -> m_fp x = fp j true None r /\ sh_bcast sh r = true)
    /\ (bc = false -> p2p_some (sh_p2p sh r) = true)
    /\ m_panic x = NoPanic.

  Definition rk (s : hstate) : nat := if h_res s then S final else h_cur s.

  Record HC (s : hstate) : Prop := mkHC {
    c_static : static_ok i s;
    c_rt : h_rt s = Running;
    c_err : h_err s = None;
    c_mode : (h_res s = false /\ h_closes s = 0 /\ 1 <= h_cur s /\ (h_cur s <= final \/ h_cur s = 1)
              /\ (forall r, In r (h_reached s) <-> 1 <= r <= h_cur s))
             \/ (h_res s = true /\ h_cur s = 0 /\ h_closes s = 1);
    c_qb : forall r j x, In (r, j, x) (h_qb s) -> ideal_entry true r j x;
    c_qp : forall r j x, In (r, j, x) (h_qp s) -> ideal_entry false r j x;
    c_hs : forall r d, hget (h_hashes s) r = Some d -> d = ibv r /\ sh_bcast sh r = true /\ 2 <= r <= final;
    c_hs2 : forall r, 2 <= r < rk s -> r <= final -> sh_bcast sh r = true -> hget (h_hashes s) r <> None;
    c_out : h_out s = ideal_out_upto i (rk s);
    c_own : forall r, 2 <= r <= rk s -> r <= final -> sh_bcast sh r = true -> qget (h_qb s) r i <> None;
    c_cpl : forall r j, 2 <= r < rk s -> r <= final -> j < n -> j <> i ->
              (sh_bcast sh r = true -> qget (h_qb s) r j <> None)
              /\ (p2p_some (sh_p2p sh r) = true -> qget (h_qp s) r j <> None)
  }.

  (* messages of other parties stored so far belong to rounds <= c0 + 1 *)
  Definition bnd (c0 : nat) (s : hstate) : Prop :=
    forall r j x, In (r, j, x) (h_qb s) \/ In (r, j, x) (h_qp s) -> j <> i -> r <= S c0.

  Lemma HC_running s : HC s -> h_res s = false ->
    h_closes s = 0 /\ 1 <= h_cur s /\ (h_cur s <= final \/ h_cur s = 1)
    /\ (forall r, In r (h_reached s) <-> 1 <= r <= h_cur s).
  Proof. intros C Hr. destruct (c_mode _ C) as [(_&H)|(H&_)]; [exact H|congruence]. Qed.

  Lemma ideal_bv_eq r : sh_bcast sh r = true -> 2 <= r <= final ->
    ibv r = view_hash r (ideal_view fp n r).
  Proof.
    intros Hb [H1 H2]. unfold ideal_bv. rewrite Hb.
    apply Nat.leb_le in H1, H2. now rewrite H1, H2.
  Qed.

  Lemma view_ideal s r v : HC s -> view_of s r = Some v -> v = ideal_view fp n r.
  Proof.
    intros C Hv. destruct (c_static _ C) as (_ & Sn & _).
    rewrite view_of_raw, Sn in Hv. apply view_raw_some in Hv as [-> Hall].
    unfold ideal_view. apply map_ext_in. intros j Hj. specialize (Hall j Hj).
    unfold fp_at. destruct (qget (h_qb s) r j) eqn:Hq; [|congruence].
    apply qget_In in Hq. apply (c_qb _ C) in Hq as (_&_&_&_&_&_&_&Hb&_). now apply Hb.
  Qed.

  Lemma has_queue_iff s r : h_shape s = sh -> has_queue s r = true <-> 2 <= r <= final.
  Proof.
    intros Hs. unfold has_queue. rewrite Hs, andb_true_iff, !Nat.leb_le. tauto.
  Qed.

  Lemma all_in_fs1 s : all_in (fs1 s) = all_in s.
  Proof.
    unfold all_in, SystemProofs.fs1, p2p_in, has_queue. autorewrite with hp.
    rewrite (view_of_same (hash_upd view_hash s) s) by now autorewrite with hp.
    rewrite (others_static s) by now autorewrite with hp. reflexivity.
  Qed.

  (* ---- the digest side effect keeps the ideal invariant ---- *)
  Lemma HC_fs1 s : HC s -> HC (fs1 s).
  Proof.
    intros C. unfold SystemProofs.fs1.
    destruct (hash_upd_hashes view_hash s) as [E|(v & E & Hv & Hnone & Hb & Hq)].
    - destruct C. constructor; unfold rk, SystemProofs.static_ok in *; autorewrite with hp; rewrite ?E; auto.
    - destruct (c_static _ C) as (S1 & S2 & S3 & S4 & S5).
      rewrite S5 in Hb. apply (has_queue_iff s _ S5) in Hq.
      pose proof (view_ideal s _ v C Hv) as ->.
      destruct C. constructor; unfold rk, SystemProofs.static_ok in *; autorewrite with hp; rewrite ?E; auto.
      + intros r d. rewrite hget_cons. destruct (h_cur s =? r) eqn:Hr; [|apply c_hs0].
        apply Nat.eqb_eq in Hr. subst r. intros H. inversion H. rewrite ideal_bv_eq; auto.
      + intros r H1 H2 H3. rewrite hget_cons. destruct (h_cur s =? r); [discriminate|auto].
  Qed.

  Lemma check_ok s : HC s -> check_broadcast_hash s = true.
  Proof.
    intros C. unfold check_broadcast_hash.
    destruct (hget (h_hashes s) (h_cur s - 1)) eqn:Hh; auto.
    apply (c_hs _ C) in Hh as (-> & _).
    apply andb_true_iff. split; apply forallb_forall; intros [[r j] x] Hin.
    - destruct (r =? h_cur s) eqn:Hr; auto. apply Nat.eqb_eq in Hr. subst r. cbn.
      apply (c_qp _ C) in Hin as (_&_&_&Hbv&_). now apply N.eqb_eq.
    - destruct (r =? h_cur s) eqn:Hr; auto. apply Nat.eqb_eq in Hr. subst r. cbn.
      apply (c_qb _ C) in Hin as (_&_&_&Hbv&_). now apply N.eqb_eq.
  Qed.

  Lemma fbv_ideal s : HC s -> h_res s = false -> all_in s = true -> fbv view_hash s = ibv (h_cur s).
  Proof.
    intros C Hr Ha. unfold fbv.
    pose proof (HC_fs1 s C) as C1.
    destruct (hget (h_hashes (fs1 s)) (h_cur s)) eqn:Hh.
    - now apply (c_hs _ C1) in Hh as (-> & _).
    - destruct (c_static _ C) as (S1 & S2 & S3 & S4 & S5).
      unfold ideal_bv. destruct (sh_bcast sh (h_cur s)) eqn:Hb; auto.
      destruct (2 <=? h_cur s) eqn:H2; auto. destruct (h_cur s <=? final) eqn:H3; auto. exfalso.
      apply Nat.leb_le in H2, H3.
      assert (Hq : has_queue s (h_cur s) = true) by (apply has_queue_iff; auto).
      destruct (all_in_spec s Ha Hq) as [A _]. rewrite S5 in A. destruct (A Hb) as [v Hv].
      assert (Hb' : sh_bcast (h_shape s) (h_cur s) = true) by now rewrite S5.
      pose proof (hash_upd_sets view_hash s v Hb' Hq Hv) as Hs. unfold SystemProofs.fs1 in Hh. congruence.
  Qed.

  Lemma same_view_ideal s bc r j x : HC s -> ideal_entry bc r j x -> same_view s x = true.
  Proof.
    intros C (Hr&_&_&Hbv&_). unfold same_view. rewrite Hr.
    destruct (hget (h_hashes s) (r - 1)) eqn:Hh; auto.
    apply (c_hs _ C) in Hh as (-> & _). now apply N.eqb_eq.
  Qed.

  Lemma verify_p2p_ideal s r j p : HC s -> ideal_entry false r j p -> verify_p2p s p = VOk.
  Proof.
    intros C Hp. pose proof (same_view_ideal s _ _ _ _ C Hp) as Hsv.
    destruct (c_static _ C) as (_ & _ & _ & _ & S5).
    destruct Hp as (Hr&_&_&_&Hv&_&_&_&Hpp&Hpn). unfold verify_p2p, panics_verify.
    destruct (negb _); auto. destruct (_ && _); auto. rewrite Hsv, Hv, S5, Hr, Hpn. cbn [negb].
    specialize (Hpp eq_refl). destruct (sh_p2p sh r); [discriminate|auto|auto].
  Qed.

  Lemma verify_bcast_ideal s r j x : HC s -> ideal_entry true r j x -> verify_bcast s x = VOk.
  Proof.
    intros C Hx. pose proof (same_view_ideal s _ _ _ _ C Hx) as Hsv.
    destruct (c_static _ C) as (_ & _ & _ & _ & S5).
    destruct Hx as (Hr&Hf&_&_&Hv&_&_&Hb&_&Hpn). destruct (Hb eq_refl) as [_ Hbc]. unfold verify_bcast, panics_verify.
    destruct (negb (existsb _ _)); auto. rewrite Hsv, Hv, S5, Hr, Hbc, Hpn. cbn [negb].
    destruct (sh_p2p sh r); auto;
      destruct (qget (h_qp s) r (m_from x)) eqn:Hq; auto;
      apply qget_In in Hq; apply (c_qp _ C) in Hq; eapply verify_p2p_ideal; eauto.
  Qed.

  Lemma first_bad_none s r : hwf s -> HC s -> first_bad s r = None.
  Proof.
    intros _ C. unfold first_bad.
    destruct (find _ (others s)) as [j|] eqn:Hf; auto. exfalso.
    apply find_some in Hf as [_ Hf]. apply negb_true_iff in Hf.
    unfold queued_verdict in Hf. destruct (sh_bcast (h_shape s) r).
    - destruct (qget (h_qb s) r j) eqn:Hq; [|discriminate]. apply qget_In in Hq.
      apply (c_qb _ C) in Hq. rewrite (verify_bcast_ideal s _ _ _ C Hq) in Hf. discriminate.
    - destruct (qget (h_qp s) r j) eqn:Hq; [|discriminate]. apply qget_In in Hq.
      apply (c_qp _ C) in Hq. rewrite (verify_p2p_ideal s _ _ _ C Hq) in Hf. discriminate.
  Qed.

  (* no stored message makes the round code panic *)
  Lemma fin_panics_ideal s : HC s -> fin_panics s = false.
  Proof.
    intros C.
    assert (G : forall bc (q : list qentry) c,
              (forall r j x, In (r, j, x) q -> ideal_entry bc r j x) ->
              existsb (fun e => match e with (r', _, m) => (r' =? c) && panics_finalize m end) q = false).
    { intros bc q c Hq. induction q as [|[[r' j'] m'] q IH]; [reflexivity|]. cbn [existsb].
      rewrite IH by (intros r0 j0 x0 Hin; apply Hq; now right).
      destruct (Hq r' j' m' (or_introl eq_refl)) as (_&_&_&_&_&_&_&_&_&Hpn).
      unfold panics_finalize. rewrite Hpn. now rewrite andb_false_r. }
    unfold fin_panics. cbv zeta.
    rewrite (G true _ _ (c_qb _ C)), (G false _ _ (c_qp _ C)), !andb_false_r. reflexivity.
  Qed.

  Lemma pick_other : exists j, j < n /\ j <> i.
  Proof. destruct (Nat.eq_dec i 0); [exists 1|exists 0]; lia. Qed.

  Lemma no_all_in c0 s :
    HC s -> bnd c0 s -> h_res s = false -> h_cur s = c0 + 2 -> all_in s = false.
  Proof.
    intros C B Hr Hc. destruct (all_in s) eqn:Ha; auto. exfalso.
    destruct (c_static _ C) as (S1 & S2 & S3 & S4 & S5).
    destruct (HC_running s C Hr) as (_ & _ & Hf & _).
    assert (Hrange : 2 <= h_cur s <= final) by lia.
    assert (Hq : has_queue s (h_cur s) = true) by (apply has_queue_iff; auto).
    destruct (all_in_spec s Ha Hq) as [A P]. rewrite S5 in A, P.
    destruct pick_other as (j & Hj1 & Hj2).
    destruct (wf_shapeb_spec sh _ Hwf Hrange) as [Hb|Hp].
    - destruct (A Hb) as [v Hv]. rewrite view_of_raw, S2 in Hv.
      apply view_raw_some in Hv as [_ Hall]. specialize (Hall j ltac:(apply in_seq; lia)).
      destruct (qget (h_qb s) (h_cur s) j) eqn:Hg; [|congruence]. apply qget_In in Hg.
      specialize (B _ _ _ (or_introl Hg) Hj2). lia.
    - specialize (P Hp j ltac:(apply In_others; rewrite S1, S2; lia)).
      destruct (qget (h_qp s) (h_cur s) j) eqn:Hg; [|congruence]. apply qget_In in Hg.
      specialize (B _ _ _ (or_intror Hg) Hj2). lia.
  Qed.

  Lemma round_outputs_static s s' r bv :
    h_self s' = h_self s -> h_n s' = h_n s -> h_shape s' = h_shape s ->
    round_outputs s' r bv = round_outputs s r bv.
  Proof. intros H1 H2 H3. unfold round_outputs, others. now rewrite H1, H2, H3. Qed.

  Lemma ideal_out_upto_S c : 1 <= c -> ideal_out_upto i (S c) = ideal_out_upto i c ++ ideal_outs i c.
  Proof.
    intros Hc. unfold System.ideal_out_upto. replace (S c - 1) with (S (c - 1)) by lia.
    rewrite seq_S, flat_map_app. cbn [flat_map]. rewrite app_nil_r. do 3 f_equal. lia.
  Qed.

  Lemma emit_all_qbn2 own_fp s l r j x :
    In (r, j, x) (h_qb (emit_all own_fp s l)) ->
    In (r, j, x) (h_qb s)
    \/ exists o, In o l /\ o_bcast o = true /\ (r, j, x) = (o_round o, h_self s, own_bcast_msg own_fp s o).
  Proof.
    revert s. induction l as [|o l IH]; intros s; cbn [emit_all]; auto.
    intros H. apply IH in H as [H|(o' & Ho' & Hb' & Heq)].
    - rewrite emit_h_qb in H. destruct (o_bcast o) eqn:Hb; auto.
      destruct (store_cases s (own_bcast_msg own_fp s o)) as [E|[(_&_&_&E&_)|(_&_&_&_&E)]];
        rewrite E in H; auto.
      destruct H as [H|H]; auto. right. exists o. split; [now left|]. split; auto.
    - right. exists o'. split; [now right|]. split; auto. rewrite Heq.
      assert (E1 : h_self (emit (if o_bcast o then store s (own_bcast_msg own_fp s o) else s) o) = h_self s)
        by (destruct (o_bcast o); now autorewrite with hp).
      rewrite E1. f_equal. apply own_bcast_msg_static; destruct (o_bcast o); now autorewrite with hp.
  Qed.

  Lemma fs2_facts s :
    HC s -> h_res s = false -> all_in s = true -> h_pending s + n <= 2 * n ->
    h_rt (fs2 s) = Running /\ h_out (fs2 s) = h_out s ++ ideal_outs i (h_cur s)
    /\ h_pending (fs2 s) <= h_pending s + n
    /\ (forall r j x, In (r, j, x) (h_qb (fs2 s)) ->
          In (r, j, x) (h_qb s) \/ (r = S (h_cur s) /\ j = i /\ ideal_entry true r j x))
    /\ (h_cur s < final -> sh_bcast sh (S (h_cur s)) = true -> qget (h_qb (fs2 s)) (S (h_cur s)) i <> None).
  Proof.
    intros C Hr Ha Hp.
    destruct (c_static _ C) as (S1 & S2 & S3 & S4 & S5).
    destruct (HC_running s C Hr) as (Hcl & Hc1 & Hcf & Hreach).
    assert (Hl : round_outputs (fs1 s) (h_cur s) (fbv view_hash s) = ideal_outs i (h_cur s)).
    { rewrite (fbv_ideal s C Hr Ha). unfold System.ideal_outs. apply round_outputs_static;
        unfold SystemProofs.fs1; autorewrite with hp; cbn; auto. }
    unfold SystemProofs.fs2. rewrite Hl.
    assert (Hlen : length (ideal_outs i (h_cur s)) <= n).
    { unfold System.ideal_outs. pose proof (round_outputs_length (init_state i n ssid proto sh) (h_cur s) (ibv (h_cur s))) as L.
      cbn in L. apply L; auto. }
    destruct (emit_all_ok ofp (fs1 s) (ideal_outs i (h_cur s))) as (A & B & D).
    { unfold SystemProofs.fs1. autorewrite with hp. apply (c_rt _ C). }
    { unfold SystemProofs.fs1. now autorewrite with hp. }
    { unfold SystemProofs.fs1, capacity. autorewrite with hp. rewrite S2. lia. }
    unfold SystemProofs.fs1 in *. autorewrite with hp in B, D.
    repeat split; auto.
    - rewrite D. lia.
    - intros r j x Hin. apply emit_all_qbn2 in Hin as [Hin|(o & Ho & Hb & Heq)].
      + left. now autorewrite with hp in Hin.
      + right. inversion Heq; subst r j x. autorewrite with hp.
        unfold System.ideal_outs in Ho. apply round_outputs_spec in Ho as (Hro & Hbv & Hlt & Hbc & _).
        cbn in Hlt, Hbc. destruct (Hbc Hb) as [Hbc1 _].
        rewrite Hro. split; auto. split; auto.
        unfold ideal_entry. cbn. rewrite Hro. rewrite Hbv.
        repeat split; auto; try lia; rewrite ?Nat.sub_0_r, ?S1; autorewrite with hp; auto.
    - intros Hlt Hb.
      set (o := mkOut None (S (h_cur s)) true (ibv (h_cur s))).
      assert (Ho : In o (ideal_outs i (h_cur s))).
      { unfold System.ideal_outs, round_outputs. cbn [h_shape init_state].
        apply Nat.leb_gt in Hlt. rewrite Hlt, Hb. apply in_or_app. left. now left. }
      pose proof (emit_all_own_stored ofp (hash_upd view_hash s) _ o Ho eq_refl) as Hst. cbn [o_round o] in Hst.
      rewrite hash_upd_h_self, S1 in Hst. apply Hst.
      apply has_queue_iff; [now autorewrite with hp|lia].
  Qed.

  Lemma all_in_present s :
    HC s -> h_res s = false -> all_in s = true -> 2 <= h_cur s ->
    (sh_bcast sh (h_cur s) = true -> hget (h_hashes (fs1 s)) (h_cur s) <> None)
    /\ forall j, j < n -> j <> i ->
         (sh_bcast sh (h_cur s) = true -> qget (h_qb s) (h_cur s) j <> None)
         /\ (p2p_some (sh_p2p sh (h_cur s)) = true -> qget (h_qp s) (h_cur s) j <> None).
  Proof.
    intros C Hr Ha H2.
    destruct (c_static _ C) as (S1 & S2 & S3 & S4 & S5).
    destruct (HC_running s C Hr) as (Hcl & Hc1 & Hcf & Hreach).
    assert (Hq : has_queue s (h_cur s) = true) by (apply has_queue_iff; auto; lia).
    destruct (all_in_spec s Ha Hq) as [A P]. rewrite S5 in A, P. split.
    - intros Hb. destruct (A Hb) as [v Hv]. apply (hash_upd_sets view_hash s v); auto. now rewrite S5.
    - intros j Hj Hji. split.
      + intros Hb. destruct (A Hb) as [v Hv]. rewrite view_of_raw, S2 in Hv.
        apply view_raw_some in Hv as [_ Hall]. apply Hall. apply in_seq. lia.
      + intros Hp. apply P; auto. apply In_others. rewrite S1, S2. lia.
  Qed.

  (* ---- one full round: from round c to round c+1 ---- *)
  Lemma HC_fs3 s :
    HC s -> h_res s = false -> all_in s = true -> h_pending s + n <= 2 * n -> h_cur s < final ->
    HC (fs3 s) /\ h_pending (fs3 s) <= h_pending s + n.
  Proof.
    intros C Hr Ha Hp Hlt.
    destruct (c_static _ C) as (S1 & S2 & S3 & S4 & S5).
    destruct (HC_running s C Hr) as (Hcl & Hc1 & Hcf & Hreach).
    destruct (fs2_facts s C Hr Ha Hp) as (F1 & F2 & F3 & F4 & F5).
    pose proof (HC_fs1 s C) as C1.
    assert (X12 : ext (own_entry ofp) s (fs2 s)).
    { eapply ext_trans; [apply own_entry_stable|apply ext_fs1|apply ext_fs2]. }
    assert (Hrk : rk (fs3 s) = S (h_cur s)).
    { unfold rk, SystemProofs.fs3, advance. cbn. rewrite fs2_res. now rewrite Hr. }
    assert (Hrk0 : rk s = h_cur s) by (unfold rk; now rewrite Hr).
    assert (Hrk1 : rk (fs1 s) = h_cur s) by (unfold rk, SystemProofs.fs1; autorewrite with hp; now rewrite Hr).
    split; [|unfold SystemProofs.fs3, advance; cbn; exact F3].
    constructor; rewrite ?Hrk.
    - unfold SystemProofs.static_ok, SystemProofs.fs3, advance. cbn.
      rewrite (x_self _ _ _ X12), (x_n _ _ _ X12), (x_ssid _ _ _ X12), (x_proto _ _ _ X12), (x_shape _ _ _ X12). auto.
    - exact F1.
    - unfold SystemProofs.fs3, advance. cbn. destruct (fs_err view_hash ofp s) as [-> _]. apply (c_err _ C).
    - left. unfold SystemProofs.fs3, advance. cbn. rewrite fs2_res.
      replace (h_closes (fs2 s)) with (h_closes s) by (unfold SystemProofs.fs2, SystemProofs.fs1; now autorewrite with hp).
      replace (h_reached (fs2 s)) with (h_reached s) by (unfold SystemProofs.fs2, SystemProofs.fs1; now autorewrite with hp).
      repeat split; auto; try lia.
      + destruct H as [<-|H]; [lia|]. apply Hreach in H. lia.
      + destruct H as [<-|H]; [lia|]. apply Hreach in H. lia.
      + intros H. destruct (Nat.eq_dec r (S (h_cur s))); [left; auto|right; apply Hreach; lia].
    - intros r j x Hin. unfold SystemProofs.fs3, advance in Hin. cbn in Hin.
      destruct (F4 _ _ _ Hin) as [H|(_&_&H)]; auto. now apply (c_qb _ C).
    - intros r j x Hin. unfold SystemProofs.fs3, advance in Hin. cbn in Hin.
      replace (h_qp (fs2 s)) with (h_qp s) in Hin by (unfold SystemProofs.fs2, SystemProofs.fs1; now autorewrite with hp).
      now apply (c_qp _ C).
    - intros r d H. unfold SystemProofs.fs3, advance in H. cbn in H.
      replace (h_hashes (fs2 s)) with (h_hashes (fs1 s)) in H by (unfold SystemProofs.fs2; now autorewrite with hp).
      now apply (c_hs _ C1).
    - intros r H1 H2 H3. unfold SystemProofs.fs3, advance. cbn.
      replace (h_hashes (fs2 s)) with (h_hashes (fs1 s)) by (unfold SystemProofs.fs2; now autorewrite with hp).
      destruct (Nat.eq_dec r (h_cur s)) as [->|Hne].
      + apply (all_in_present s C Hr Ha); auto. lia.
      + apply (c_hs2 _ C1); auto. rewrite Hrk1. lia.
    - unfold SystemProofs.fs3, advance. cbn. rewrite F2, (c_out _ C), Hrk0. symmetry. now apply ideal_out_upto_S.
    - intros r H1 H2 H3. unfold SystemProofs.fs3, advance. cbn.
      destruct (Nat.eq_dec r (S (h_cur s))) as [->|Hne]; [now apply F5|].
      pose proof (c_own _ C r ltac:(rewrite Hrk0; lia) H2 H3) as Ho.
      destruct (qget (h_qb s) r i) eqn:Hg; [|congruence]. now rewrite (x_qb _ _ _ X12 _ _ _ Hg).
    - intros r j H1 H2 H3 H4. unfold SystemProofs.fs3, advance. cbn.
      assert (Hold : (sh_bcast sh r = true -> qget (h_qb s) r j <> None)
                     /\ (p2p_some (sh_p2p sh r) = true -> qget (h_qp s) r j <> None)).
      { destruct (Nat.eq_dec r (h_cur s)) as [->|Hne].
        - apply (all_in_present s C Hr Ha); auto. lia.
        - apply (c_cpl _ C); auto. rewrite Hrk0. lia. }
      destruct Hold as [A B]. split; intros Hx.
      + specialize (A Hx). destruct (qget (h_qb s) r j) eqn:Hg; [|congruence].
        now rewrite (x_qb _ _ _ X12 _ _ _ Hg).
      + specialize (B Hx). destruct (qget (h_qp s) r j) eqn:Hg; [|congruence].
        now rewrite (x_qp _ _ _ X12 _ _ _ Hg).
  Qed.

  Lemma abort_none_running x :
    h_rt x = Running -> h_closes x = 0 ->
    h_rt (abort x None) = Running /\ h_closes (abort x None) = 1 /\ h_err (abort x None) = h_err x
    /\ h_out (abort x None) = h_out x /\ h_pending (abort x None) = h_pending x.
  Proof.
    intros H1 H2. unfold abort, close_out. rewrite H1, H2. cbn. auto.
  Qed.

  Lemma HC_done s :
    HC s -> h_res s = false -> all_in s = true -> h_pending s + n <= 2 * n -> final <= h_cur s ->
    HC (abort (set_res (advance (fs2 s) 0)) None).
  Proof.
    intros C Hr Ha Hp Hge.
    destruct (c_static _ C) as (S1 & S2 & S3 & S4 & S5).
    destruct (HC_running s C Hr) as (Hcl & Hc1 & Hcf & Hreach).
    destruct (fs2_facts s C Hr Ha Hp) as (F1 & F2 & F3 & F4 & F5).
    pose proof (HC_fs1 s C) as C1.
    assert (X12 : ext (own_entry ofp) s (fs2 s)).
    { eapply ext_trans; [apply own_entry_stable|apply ext_fs1|apply ext_fs2]. }
    assert (Hrk0 : rk s = h_cur s) by (unfold rk; now rewrite Hr).
    assert (Hrk1 : rk (fs1 s) = h_cur s) by (unfold rk, SystemProofs.fs1; autorewrite with hp; now rewrite Hr).
    set (x := set_res (advance (fs2 s) 0)).
    assert (Hx1 : h_rt x = Running) by exact F1.
    assert (Hx2 : h_closes x = 0).
    { unfold x, set_res, advance. cbn. unfold SystemProofs.fs2, SystemProofs.fs1. now autorewrite with hp. }
    destruct (abort_none_running x Hx1 Hx2) as (A1 & A2 & A3 & A4 & A5).
    assert (Hrk : rk (abort x None) = S final) by (unfold rk; now autorewrite with hp).
    assert (Hnone : ideal_outs i (h_cur s) = []).
    { unfold System.ideal_outs, round_outputs. cbn [h_shape init_state].
      apply Nat.leb_le in Hge. now rewrite Hge. }
    assert (Eqb : h_qb (abort x None) = h_qb (fs2 s)) by (now autorewrite with hp).
    assert (Eqp : h_qp (abort x None) = h_qp s).
    { autorewrite with hp. unfold x, set_res, advance; cbn. unfold SystemProofs.fs2, SystemProofs.fs1. now autorewrite with hp. }
    assert (Ehs : h_hashes (abort x None) = h_hashes (fs1 s)).
    { autorewrite with hp. unfold x, set_res, advance; cbn. unfold SystemProofs.fs2. now autorewrite with hp. }
    constructor; rewrite ?Hrk, ?Eqb, ?Eqp, ?Ehs.
    - unfold SystemProofs.static_ok. autorewrite with hp. unfold x, set_res, advance; cbn.
      rewrite (x_self _ _ _ X12), (x_n _ _ _ X12), (x_ssid _ _ _ X12), (x_proto _ _ _ X12), (x_shape _ _ _ X12). auto.
    - exact A1.
    - rewrite A3. unfold x, set_res, advance. cbn. destruct (fs_err view_hash ofp s) as [-> _]. apply (c_err _ C).
    - right. autorewrite with hp. auto.
    - intros r j y Hin. destruct (F4 _ _ _ Hin) as [H|(_&_&H)]; auto. now apply (c_qb _ C).
    - intros r j y Hin. now apply (c_qp _ C).
    - intros r d H. now apply (c_hs _ C1).
    - intros r H1 H2 H3.
      destruct (Nat.eq_dec r (h_cur s)) as [->|Hne].
      + apply (all_in_present s C Hr Ha); auto. lia.
      + apply (c_hs2 _ C1); auto. rewrite Hrk1. lia.
    - rewrite A4. unfold x, set_res, advance. cbn [h_out]. rewrite F2, Hnone, app_nil_r, (c_out _ C), Hrk0.
      destruct (Nat.eq_dec (h_cur s) final) as [Heq|Hne].
      + rewrite <- Heq. rewrite ideal_out_upto_S by lia. now rewrite Hnone, app_nil_r.
      + f_equal. lia.
    - intros r H1 H2 H3.
      pose proof (c_own _ C r ltac:(rewrite Hrk0; lia) H2 H3) as Ho.
      destruct (qget (h_qb s) r i) eqn:Hg; [|congruence]. now rewrite (x_qb _ _ _ X12 _ _ _ Hg).
    - intros r j H1 H2 H3 H4.
      assert (Hold : (sh_bcast sh r = true -> qget (h_qb s) r j <> None)
                     /\ (p2p_some (sh_p2p sh r) = true -> qget (h_qp s) r j <> None)).
      { destruct (Nat.eq_dec r (h_cur s)) as [->|Hne].
        - apply (all_in_present s C Hr Ha); auto. lia.
        - apply (c_cpl _ C); auto. rewrite Hrk0. lia. }
      destruct Hold as [A B]. split; intros Hx; [|now apply B].
      specialize (A Hx). destruct (qget (h_qb s) r j) eqn:Hg; [|congruence].
      now rewrite (x_qb _ _ _ X12 _ _ _ Hg).
  Qed.

  Lemma bnd_ext c0 s s' : ext (own_entry ofp) s s' -> h_self s = i -> bnd c0 s -> bnd c0 s'.
  Proof.
    intros X S1 B r j x Hin Hj.
    assert (Hown : own_entry ofp s (r, j, x) -> False).
    { intros (o & _ & _ & Heq). inversion Heq. congruence. }
    destruct Hin as [Hin|Hin].
    - destruct (x_qbn _ _ _ X _ Hin) as [H|H]; [|tauto]. eapply B; eauto.
    - destruct (x_qpn _ _ _ X _ Hin) as [H|H]; [|tauto]. eapply B; eauto.
  Qed.

  Lemma fin_ideal f : forall s c0,
    hwf s -> HC s -> h_res s = false -> bnd c0 s -> c0 <= h_cur s <= c0 + 2 ->
    h_pending s <= n * (h_cur s - c0) -> c0 + 3 <= f + h_cur s ->
    HC (finalize view_hash ofp f s)
    /\ (h_res (finalize view_hash ofp f s) = true \/ all_in (finalize view_hash ofp f s) = false).
  Proof.
    induction f as [|f IH]; intros s c0 W C Hr B Hc Hp Hf; [lia|].
    destruct (c_static _ C) as (S1 & S2 & S3 & S4 & S5).
    destruct (HC_running s C Hr) as (Hcl & Hc1 & Hcf & Hreach).
    pose proof (HC_fs1 s C) as C1.
    assert (Hcap : all_in s = true -> h_cur s <= c0 + 1 /\ h_pending s + n <= 2 * n).
    { intros Ha. assert (Hle : h_cur s <= c0 + 1).
      { destruct (Nat.eq_dec (h_cur s) (c0 + 2)) as [He|]; [|lia].
        rewrite (no_all_in c0 s C B Hr He) in Ha. discriminate. }
      split; auto. destruct (h_cur s - c0) as [|[|k]] eqn:Ek; lia. }
    assert (X12 : ext (own_entry ofp) s (fs2 s)).
    { eapply ext_trans; [apply own_entry_stable|apply ext_fs1|apply ext_fs2]. }
    destruct (finalize_cases view_hash ofp f s) as [H|H1 H2 H3|H1 H2 H3 H4|H1 H2 H3 H4 H5|H1 H2 H3 H4 H5 H6 H7|j v H1 H2 H3 H4 H5 H6 H7 H8 H9 H10|j H1 H2 H3 H4 H5 H6 H7 H8|H1 H2 H3 H4 H5 H6 H7 H8|H1 H2 H3 H4 H5|j H1 H2 H3 H4 H5 H6 H7 H8].
    - exfalso. destruct H as [H|H]; [apply H, (c_rt _ C)|lia].
    - split; [exact C1|right]. now rewrite all_in_fs1.
    - exfalso. rewrite (check_ok _ C1) in H4. discriminate.
    - exfalso. destruct (Hcap H3) as [Hle Hpn].
      destruct (fs2_facts s C Hr H3 Hpn) as (F1 & _).
      destruct H5 as [H5|H5]; [congruence|].
      apply existsb_exists in H5 as (r & Hin & Heq). apply Nat.eqb_eq in Heq. apply Hreach in Hin.
      rewrite S5 in Heq. destruct (final <=? h_cur s); lia.
    - destruct (Hcap H3) as [Hle Hpn]. rewrite S5 in H6. split.
      + now apply HC_done.
      + left. now autorewrite with hp.
    - exfalso. destruct (Hcap H3) as [Hle Hpn]. rewrite S5 in H6.
      destruct (HC_fs3 s C Hr H3 Hpn H6) as [C3 _].
      pose proof (hwf_fs3 view_hash ofp s W H2 H3 H4) as W3.
      rewrite (first_bad_none _ _ W3 C3) in H8. discriminate.
    - exfalso. destruct (Hcap H3) as [Hle Hpn]. rewrite S5 in H6.
      destruct (HC_fs3 s C Hr H3 Hpn H6) as [C3 _].
      pose proof (hwf_fs3 view_hash ofp s W H2 H3 H4) as W3.
      rewrite (first_bad_none _ _ W3 C3) in H8. discriminate.
    - destruct (Hcap H3) as [Hle Hpn]. rewrite S5 in H6.
      destruct (HC_fs3 s C Hr H3 Hpn H6) as [C3 P3].
      pose proof (hwf_fs3 view_hash ofp s W H2 H3 H4) as W3.
      assert (Hc3 : h_cur (fs3 s) = S (h_cur s)) by reflexivity.
      apply (IH (fs3 s) c0); auto.
      + unfold SystemProofs.fs3, advance. cbn. now rewrite fs2_res.
      + eapply bnd_ext; [|exact S1|exact B].
        eapply ext_trans; [apply own_entry_stable|exact X12|]. apply ext_advance. rewrite fs2_cur. lia.
      + rewrite Hc3. lia.
      + rewrite Hc3. replace (S (h_cur s) - c0) with (S (h_cur s - c0)) by lia.
        rewrite Nat.mul_succ_r. lia.
      + rewrite Hc3. lia.
    - exfalso. rewrite (fin_panics_ideal _ C1) in H5. discriminate.
    - exfalso. destruct (Hcap H3) as [Hle Hpn]. rewrite S5 in H6.
      destruct (HC_fs3 s C Hr H3 Hpn H6) as [C3 _].
      pose proof (hwf_fs3 view_hash ofp s W H2 H3 H4) as W3.
      rewrite (first_bad_none _ _ W3 C3) in H8. discriminate.
  Qed.

  (* ---- accepting an ideal message ---- *)
  Definition ideal_msg (m : msg) : Prop :=
    m_ssid m = ssid /\ m_proto m = proto /\ m_data m = true /\ (m_to m = None \/ m_to m = Some i)
    /\ m_from m <> i /\ ideal_entry (m_bcast m) (m_round m) (m_from m) m.

  Lemma HC_store s m :
    HC s -> ideal_entry (m_bcast m) (m_round m) (m_from m) m -> HC (store s m).
  Proof.
    intros C Hm. assert (X := ext_store ofp m s).
    assert (Hrk : rk (store s m) = rk s) by (unfold rk; now autorewrite with hp).
    destruct (store_cases s m) as [E|[(Hb&Hq&Hnone&Eb&Ep)|(Hb&Hq&Hnone&Ep&Eb)]]; [now rewrite E| |].
    - destruct C. constructor; rewrite ?Hrk; unfold SystemProofs.static_ok in *; autorewrite with hp; rewrite ?Eb, ?Ep; auto.
      + intros r j x [H|H]; auto. inversion H; subst. now rewrite Hb in Hm.
      + intros r H1 H2 H3. specialize (c_own0 r H1 H2 H3). rewrite qget_cons.
        destruct (_ && _); [discriminate|auto].
      + intros r j H1 H2 H3 H4. destruct (c_cpl0 r j H1 H2 H3 H4) as [A B']. split; auto.
        intros Hx. rewrite qget_cons. destruct (_ && _); [discriminate|auto].
    - destruct C. constructor; rewrite ?Hrk; unfold SystemProofs.static_ok in *; autorewrite with hp; rewrite ?Eb, ?Ep; auto.
      + intros r j x [H|H]; auto. inversion H; subst. now rewrite Hb in Hm.
      + intros r j H1 H2 H3 H4. destruct (c_cpl0 r j H1 H2 H3 H4) as [A B']. split; auto.
        intros Hx. rewrite qget_cons. destruct (_ && _); [discriminate|auto].
  Qed.

  Lemma view_raw_same q q' l r :
    (forall j, qget q' r j = qget q r j) -> view_raw q' l r = view_raw q l r.
  Proof. intros H. induction l as [|a l IH]; auto. now rewrite !view_raw_cons, H, IH. Qed.

  Lemma forallb_ext' {A} (f g : A -> bool) l : (forall x, f x = g x) -> forallb f l = forallb g l.
  Proof. intros H. induction l as [|a l IH]; cbn; auto. now rewrite H, IH. Qed.

  Lemma all_in_store_other s m : m_round m <> h_cur s -> all_in (store s m) = all_in s.
  Proof.
    intros Hne.
    assert (Hq : forall j, qget (h_qb (store s m)) (h_cur s) j = qget (h_qb s) (h_cur s) j
                           /\ qget (h_qp (store s m)) (h_cur s) j = qget (h_qp s) (h_cur s) j).
    { intros j. destruct (store_cases s m) as [E|[(_&_&_&Eb&Ep)|(_&_&_&Ep&Eb)]]; rewrite ?E, ?Eb, ?Ep; auto;
        rewrite qget_cons; apply Nat.eqb_neq in Hne; rewrite Hne; auto. }
    unfold all_in, p2p_in, has_queue. autorewrite with hp.
    rewrite !view_of_raw. autorewrite with hp.
    rewrite (view_raw_same (h_qb s) (h_qb (store s m))) by (intros; apply Hq).
    rewrite (others_static s) by now autorewrite with hp.
    assert (Hf : forallb (fun j => match qget (h_qp (store s m)) (h_cur s) j with Some _ => true | None => false end) (others s)
                 = forallb (fun j => match qget (h_qp s) (h_cur s) j with Some _ => true | None => false end) (others s)).
    { apply forallb_ext'. intros j. now rewrite (proj2 (Hq j)). }
    rewrite ?Hf. reflexivity.
  Qed.

  Lemma verify_ideal s m :
    hwf s -> HC s -> ideal_entry (m_bcast m) (m_round m) (m_from m) m ->
    (if m_bcast m then verify_bcast s m else verify_p2p s m) = VOk.
  Proof.
    intros _ C Hm. destruct (m_bcast m) eqn:Hb.
    - eapply verify_bcast_ideal; eauto.
    - eapply verify_p2p_ideal; eauto.
  Qed.

  Lemma accept_body_ideal s m :
    hwf s -> HC s -> h_pending s = 0 -> (h_res s = true \/ all_in s = false) ->
    (h_res s = false -> bnd (h_cur s) s) ->
    ideal_msg m -> (h_res s = false -> m_round m <= S (h_cur s)) ->
    let s' := accept_body view_hash ofp s m in
    HC s' /\ (h_res s' = true \/ all_in s' = false)
    /\ (h_res s' = true \/ m_round m < h_cur s' \/ qget (queue_of s' m) (m_round m) (m_from m) <> None).
  Proof.
    intros W C Hp Hq B (M1 & M2 & M3 & M4 & M5 & Hm) Hrd. cbv zeta.
    destruct (c_static _ C) as (S1 & S2 & S3 & S4 & S5).
    pose proof Hm as (_&_&_&_&_&Hrng&Hj&_).
    rewrite accept_body_eq, (c_rt _ C), (c_err _ C).
    destruct (h_res s) eqn:Hr.
    { rewrite !orb_true_r. cbn [orb]. split; [assumption|split; auto]. }
    destruct Hq as [Hq|Hq]; [discriminate|]. specialize (Hrd eq_refl). specialize (B eq_refl).
    destruct (can_accept s m) eqn:Hca; cbn [negb orb].
    2:{ split; [assumption|split; [auto|]]. right. left.
        unfold can_accept, is_for in Hca. rewrite S1, S2, S3, S4, S5, M1, M2, M3 in Hca.
        rewrite !N.eqb_refl in Hca.
        replace (negb (m_from m =? i)) with true in Hca by (symmetry; now apply negb_true_iff, Nat.eqb_neq).
        replace (match m_to m with Some t => t =? i | None => true end) with true in Hca
          by (destruct M4 as [-> | ->]; [auto|now rewrite Nat.eqb_refl]).
        replace (m_from m <? n) with true in Hca by (symmetry; now apply Nat.ltb_lt).
        replace (m_round m <=? final) with true in Hca by (symmetry; apply Nat.leb_le; lia).
        cbn in Hca. apply negb_false_iff, andb_true_iff in Hca as [Hca _]. now apply Nat.ltb_lt. }
    destruct (duplicate s m) eqn:Hdup.
    { split; [assumption|split; [auto|]]. right. right. unfold duplicate in Hdup.
      destruct (m_round m =? 0); [discriminate|].
      replace (has_queue s (m_round m)) with true in Hdup by (symmetry; now apply has_queue_iff).
      cbn in Hdup. destruct (qget (queue_of s m) (m_round m) (m_from m)); [discriminate|discriminate]. }
    destruct (m_round m =? 0) eqn:Hr0; [apply Nat.eqb_eq in Hr0; lia|].
    cbv zeta. autorewrite with hp.
    assert (C1 : HC (store s m)) by now apply HC_store.
    assert (Hsf : qget (queue_of (store s m) m) (m_round m) (m_from m) <> None).
    { apply store_fills. now apply has_queue_iff. }
    destruct (h_cur s =? m_round m) eqn:Hcr; cbn [negb].
    2:{ apply Nat.eqb_neq in Hcr. split; [assumption|split; [|auto]].
        right. rewrite all_in_store_other; auto. }
    apply Nat.eqb_eq in Hcr.
    assert (W1 : hwf (store s m)).
    { apply hwf_store; auto. unfold passed. rewrite Hr. intros [_ [H|H]]; [lia|discriminate]. }
    rewrite (verify_ideal (store s m) m W1 C1 Hm).
    assert (B1 : bnd (h_cur (store s m)) (store s m)).
    { autorewrite with hp. intros r j x Hin Hji.
      assert (Hin' : (In (r, j, x) (h_qb s) \/ In (r, j, x) (h_qp s)) \/ (r, j, x) = (m_round m, m_from m, m)).
      { destruct (store_cases s m) as [E|[(_&_&_&Eb&Ep)|(_&_&_&Ep&Eb)]]; rewrite ?E, ?Eb, ?Ep in Hin; auto;
          destruct Hin as [Hin|Hin]; auto; destruct Hin as [Hin|Hin]; auto. }
      destruct Hin' as [Hin'|Heq]; [eapply B; eauto|]. inversion Heq; subst. lia. }
    destruct (fin_ideal (fuel_of (store s m)) (store s m) (h_cur (store s m)) W1 C1) as [C' Q']; auto.
    - now autorewrite with hp.
    - lia.
    - autorewrite with hp. rewrite Hp. lia.
    - unfold fuel_of. lia.
    - split; [assumption|split; [auto|]]. right. right.
      pose proof (ext_finalize view_hash ofp (fuel_of (store s m)) (store s m)) as X.
      unfold queue_of in *. destruct (m_bcast m).
      + destruct (qget (h_qb (store s m)) (m_round m) (m_from m)) eqn:Hg; [|congruence].
        rewrite (x_qb _ _ _ X _ _ _ Hg). discriminate.
      + destruct (qget (h_qp (store s m)) (m_round m) (m_from m)) eqn:Hg; [|congruence].
        rewrite (x_qp _ _ _ X _ _ _ Hg). discriminate.
  Qed.

  (* on ideal traffic the round code never panics: the deferred recover of Accept does nothing *)
  Lemma accept_ideal s m :
    hwf s -> HC s -> h_pending s = 0 -> (h_res s = true \/ all_in s = false) ->
    (h_res s = false -> bnd (h_cur s) s) ->
    ideal_msg m -> (h_res s = false -> m_round m <= S (h_cur s)) ->
    let s' := accept view_hash ofp s m in
    HC s' /\ (h_res s' = true \/ all_in s' = false)
    /\ (h_res s' = true \/ m_round m < h_cur s' \/ qget (queue_of s' m) (m_round m) (m_from m) <> None).
  Proof.
    intros W C Hp Hq B Hm Hrd. cbv zeta.
    pose proof (accept_body_ideal s m W C Hp Hq B Hm Hrd) as H. cbv zeta in H.
    rewrite accept_eq, (c_rt _ C). unfold recover_abort. rewrite (c_rt _ (proj1 H)). exact H.
  Qed.

  Lemma HC_init : HC (init_state i n ssid proto sh).
  Proof.
    constructor; cbn; auto; try (intros; tauto); try discriminate.
    - repeat split.
    - left. repeat split; auto; try lia.
    - intros r [H1 H2]. lia.
    - intros r [H1 H2]. lia.
    - intros r j [H1 H2]. lia.
  Qed.

  Lemma HC_new :
    let s := new_handler view_hash ofp i n ssid proto sh in
    HC s /\ (h_res s = true \/ all_in s = false).
  Proof.
    cbv zeta. unfold new_handler.
    apply (fin_ideal _ (init_state i n ssid proto sh) 0); cbn; auto; try lia.
    - apply hwf_init. exact ofp.
    - apply HC_init.
    - intros r j x [[]|[]].
    - unfold fuel_of. lia.
  Qed.
End Ideal.

(* ================================================================== *)
(* 8. All-honest system: every complete schedule ends in the ideal run *)
(* ================================================================== *)
Section AllHonest.
  Variable view_hash : nat -> list N -> N.
  Variable fp : party -> bool -> option party -> nat -> N.
  Variable validity : hstate -> msg -> bool.
  Variables (n : nat) (ssid proto : N) (sh : shape).
  Hypothesis Hn2 : 2 <= n.
  Hypothesis Hwf : wf_shapeb sh = true.
  (* the recipient-side validity oracle never rejects a message that is valid (honest messages are) *)
  Hypothesis validity_keeps : forall s m, m_valid m = true -> validity s m = true.

  Notation step := (step view_hash fp validity n).
  Notation run := (run view_hash fp validity n).
  Notation deliver_to := (deliver_to view_hash fp validity n).
  Notation init_sys := (init_sys view_hash fp n ssid proto sh).
  Notation hwf := (hwf view_hash).
  Notation HC := (HC view_hash fp n ssid proto sh).
  Notation ideal_msg := (ideal_msg view_hash fp n ssid proto sh).
  Notation ideal_entry := (ideal_entry view_hash fp n sh).
  Notation ideal_outs := (ideal_outs view_hash fp n ssid proto sh).
  Notation ideal_out_upto := (ideal_out_upto view_hash fp n ssid proto sh).
  Notation ibv := (ideal_bv view_hash fp n sh).
  Notation mk_msg := (mk_msg fp ssid proto).
  Notation static_ok := (static_ok n ssid proto sh).
  Notation rk := (rk sh).
  Notation final := (sh_final sh).

  Definition addr (j : party) (o : outmsg) : list party :=
    match o_to o with Some x => [x] | None => filter (fun d => negb (d =? j)) (seq 0 n) end.

  Lemma addressees_static j s o : static_ok j s -> addressees s o = addr j o.
  Proof. intros (S1 & S2 & _). unfold addressees, addr, others. now rewrite S1, S2. Qed.

  Lemma in_upto j c o : In o (ideal_out_upto j c) -> exists r, 1 <= r < c /\ In o (ideal_outs j r).
  Proof.
    unfold System.ideal_out_upto. rewrite in_flat_map. intros (r & Hr & Ho). exists r. split; auto.
    apply in_seq in Hr. lia.
  Qed.

  Lemma upto_in j c r o : 1 <= r < c -> In o (ideal_outs j r) -> In o (ideal_out_upto j c).
  Proof.
    intros Hr Ho. unfold System.ideal_out_upto. apply in_flat_map. exists r. split; auto.
    apply in_seq. lia.
  Qed.

  Lemma ideal_outs_msg j r o d :
    j < n -> 1 <= r -> In o (ideal_outs j r) -> In d (addr j o) ->
    ideal_msg d (mk_msg j o) /\ d < n /\ d <> j /\ o_round o = S r /\ r < final.
  Proof.
    intros Hj Hr Ho Hd. unfold System.ideal_outs in Ho.
    apply round_outputs_spec in Ho as (Hro & Hbv & Hlt & Hb & Hp).
    cbn [h_shape init_state] in Hlt, Hb, Hp.
    assert (Hd' : d < n /\ d <> j /\ (o_to o = None \/ o_to o = Some d)).
    { unfold addr in Hd. destruct (o_to o) as [x|] eqn:Ht.
      - destruct Hd as [<-|[]]. destruct (o_bcast o) eqn:Hbc.
        + destruct (Hb eq_refl) as [_ H]. discriminate.
        + destruct (Hp eq_refl) as [_ [H|(x' & Hx' & Hin)]]; [discriminate|].
          inversion Hx'; subst x'. apply In_others in Hin. cbn in Hin. repeat split; auto; lia.
      - apply filter_In in Hd as [Hd1 Hd2]. apply in_seq in Hd1.
        apply negb_true_iff, Nat.eqb_neq in Hd2. repeat split; auto; lia. }
    destruct Hd' as (Hd1 & Hd2 & Hd3). split; [|repeat split; auto].
    unfold SystemProofs.ideal_msg, SystemProofs.ideal_entry, SystemProofs.mk_msg. cbn. rewrite Hro, Hbv.
    replace (S r - 1) with r by lia. repeat split; auto; try lia.
    - match goal with H : o_bcast o = true |- _ => destruct (Hb H) as [_ Ht]; now rewrite H, Ht end.
    - match goal with H : o_bcast o = true |- _ => now apply Hb end.
    - intros Hbc. now apply Hp.
  Qed.

  Definition quiet (i : party) (s : hstate) : Prop :=
    hwf s /\ HC i s /\ h_pending s = 0 /\ (h_res s = true \/ all_in s = false).

  Definition from_out (st : sys) (d : party) (m : msg) : Prop :=
    exists j o, j < n /\ In o (h_out (s_h st j)) /\ m = mk_msg j o /\ In d (addr j o).

  Definition delivered (s : hstate) (m : msg) : Prop :=
    h_res s = true \/ m_round m < h_cur s \/ qget (queue_of s m) (m_round m) (m_from m) <> None.

  Record AI (st : sys) : Prop := mkAI {
    a_q : forall i, i < n -> quiet i (s_h st i);
    a_sent : forall d m, In (d, m) (s_sent st) -> from_out st d m;
    a_net : forall e, In e (s_net st) -> In e (s_sent st);
    a_cov : forall j o d, j < n -> In o (h_out (s_h st j)) -> In d (addr j o) ->
                          In (d, mk_msg j o) (s_sent st);
    a_del : forall d m, In (d, m) (s_sent st) -> In (d, m) (s_net st) \/ delivered (s_h st d) m;
    a_gap : forall i j, i < n -> j < n -> rk (s_h st j) <= S (rk (s_h st i));
    a_bnd : forall i j r x, i < n -> j <> i ->
              In (r, j, x) (h_qb (s_h st i)) \/ In (r, j, x) (h_qp (s_h st i)) -> r <= rk (s_h st j)
  }.

  Lemma rk_range i s : HC i s -> 1 <= rk s <= S final.
  Proof.
    intros C. unfold SystemProofs.rk. destruct (c_mode _ _ _ _ _ _ _ _ C) as [(Hr&_&H1&H2&_)|(Hr&_)]; rewrite Hr; lia.
  Qed.

  Lemma rk_ext P i s s' : HC i s -> HC i s' -> ext P s s' -> rk s <= rk s'.
  Proof.
    intros C C' X. pose proof (rk_range _ _ C). pose proof (rk_range _ _ C').
    unfold SystemProofs.rk in *. destruct (x_cur _ _ _ X) as [H1|[H1 H2]].
    - rewrite H1. lia.
    - rewrite H1 in *. destruct (h_res s'); lia.
  Qed.

  Lemma sent_ideal st d m :
    AI st -> In (d, m) (s_sent st) ->
    ideal_msg d m /\ d < n /\ m_from m < n /\ m_from m <> d /\ m_round m <= rk (s_h st (m_from m))
    /\ m_valid m = true /\ set_valid m true = m.
  Proof.
    intros A Hin. destruct (a_sent _ A _ _ Hin) as (j & o & Hj & Ho & -> & Hd).
    destruct (a_q _ A j Hj) as (_ & C & _).
    rewrite (c_out _ _ _ _ _ _ _ _ C) in Ho. apply in_upto in Ho as (r & Hr & Ho).
    destruct (ideal_outs_msg j r o d Hj ltac:(lia) Ho Hd) as (M & Hd1 & Hd2 & Hro & _).
    split; [exact M|]. split; [exact Hd1|]. split; [exact Hj|]. split; [cbn; auto|].
    split; [|split; reflexivity].
    change (o_round o <= rk (s_h st j)). lia.
  Qed.

  Lemma HC_drain i s k : HC i s -> HC i (drain k s).
  Proof.
    intros C. assert (Hrk : rk (drain k s) = rk s) by (unfold SystemProofs.rk; now autorewrite with hp).
    destruct C. constructor; rewrite ?Hrk; unfold SystemProofs.static_ok in *; autorewrite with hp; auto.
  Qed.

  Lemma all_in_drain s k : all_in (drain k s) = all_in s.
  Proof.
    unfold all_in, p2p_in, has_queue. autorewrite with hp.
    rewrite (view_of_same s (drain k s)) by now autorewrite with hp.
    rewrite (others_static s) by now autorewrite with hp. reflexivity.
  Qed.

  Lemma delivered_ext P s s' m : ext P s s' -> delivered s m -> delivered s' m.
  Proof.
    intros X [H|[H|H]]; unfold delivered.
    - destruct (x_cur _ _ _ X) as [H'|[H' _]]; [auto|congruence].
    - destruct (x_cur _ _ _ X) as [H'|[_ H']]; [auto|right; left; lia].
    - right. right. unfold queue_of in *. destruct (m_bcast m).
      + destruct (qget (h_qb s) (m_round m) (m_from m)) eqn:Hg; [|congruence].
        rewrite (x_qb _ _ _ X _ _ _ Hg). discriminate.
      + destruct (qget (h_qp s) (m_round m) (m_from m)) eqn:Hg; [|congruence].
        rewrite (x_qp _ _ _ X _ _ _ Hg). discriminate.
  Qed.

  Lemma delivered_drain s k m : delivered s m -> delivered (drain k s) m.
  Proof. unfold delivered, queue_of. now autorewrite with hp. Qed.

  (* handler [to] moves from s to s1 (then drained), posting its new output *)
  Lemma AI_update st to s1 net' l P :
    AI st -> to < n ->
    ext P (s_h st to) s1 -> h_out s1 = h_out (s_h st to) ++ l ->
    hwf s1 -> HC to s1 -> (h_res s1 = true \/ all_in s1 = false) ->
    (forall r j x, j <> to -> In (r, j, x) (h_qb s1) \/ In (r, j, x) (h_qp s1) ->
        (In (r, j, x) (h_qb (s_h st to)) \/ In (r, j, x) (h_qp (s_h st to))) \/ r <= rk (s_h st j)) ->
    (forall e, In e net' -> In e (s_net st)) ->
    (forall d m, In (d, m) (s_net st) -> In (d, m) net' \/ (d = to /\ delivered s1 m)) ->
    AI (mkSys (fun j => if j =? to then drain (h_pending s1) s1 else s_h st j)
              (net' ++ posted fp s1 l) (s_sent st ++ posted fp s1 l)).
  Proof.
    intros A Hto X Hl W1 C1 Q1 Hent Hsub Hcov.
    set (s := s_h st to) in *.
    set (st' := mkSys _ _ _).
    destruct (a_q _ A to Hto) as (W & C & Hp & Q). fold s in W, C, Hp, Q.
    assert (Hst : forall j, j <> to -> s_h st' j = s_h st j).
    { intros j Hj. cbn. apply Nat.eqb_neq in Hj. now rewrite Hj. }
    assert (Hto' : s_h st' to = drain (h_pending s1) s1) by (cbn; now rewrite Nat.eqb_refl).
    assert (S1 : static_ok to s1) by apply (c_static _ _ _ _ _ _ _ _ C1).
    assert (Hrk1 : rk (drain (h_pending s1) s1) = rk s1) by (unfold SystemProofs.rk; now autorewrite with hp).
    assert (Hmono : forall j, rk (s_h st j) <= rk (s_h st' j)).
    { intros j. destruct (Nat.eq_dec j to) as [->|Hj]; [|now rewrite Hst].
      rewrite Hto', Hrk1. eapply rk_ext; eauto. }
    assert (Hgrow : forall j o, In o (h_out (s_h st j)) -> In o (h_out (s_h st' j))).
    { intros j o Ho. destruct (Nat.eq_dec j to) as [->|Hj]; [|now rewrite Hst].
      rewrite Hto'. autorewrite with hp. rewrite Hl. apply in_or_app. now left. }
    assert (Hposted : forall d m, In (d, m) (posted fp s1 l) <->
                                  exists o, In o l /\ m = mk_msg to o /\ In d (addr to o)).
    { intros d m. unfold posted. rewrite in_flat_map. split.
      - intros (o & Ho & Hin). unfold expand in Hin. apply in_map_iff in Hin as (d' & Heq & Hd').
        inversion Heq; subst. exists o. rewrite (msg_of_out_static fp n ssid proto sh to) by auto.
        rewrite (addressees_static to) in Hd' by auto. auto.
      - intros (o & Ho & -> & Hd). exists o. split; auto. unfold expand. apply in_map_iff. exists d.
        rewrite (msg_of_out_static fp n ssid proto sh to) by auto.
        rewrite (addressees_static to) by auto. auto. }
    (* the bound on stored messages, for the new state *)
    assert (Hbnd' : forall i j r x, i < n -> j <> i ->
              In (r, j, x) (h_qb (s_h st' i)) \/ In (r, j, x) (h_qp (s_h st' i)) -> r <= rk (s_h st' j)).
    { intros i j r x Hi Hji Hin. destruct (Nat.eq_dec i to) as [->|Hi'].
      - rewrite Hto' in Hin. autorewrite with hp in Hin.
        destruct (Hent r j x Hji Hin) as [Hold|Hle].
        + etransitivity; [eapply (a_bnd _ A to j r x); eauto|apply Hmono].
        + etransitivity; [exact Hle|apply Hmono].
      - rewrite (Hst i Hi') in Hin.
        etransitivity; [eapply (a_bnd _ A i j r x); eauto|apply Hmono]. }
    constructor.
    - intros i Hi. destruct (Nat.eq_dec i to) as [->|Hi']; [|rewrite Hst; auto; now apply (a_q _ A)].
      rewrite Hto'. split; [|split; [|split]].
      + now apply hwf_drain.
      + now apply HC_drain.
      + autorewrite with hp. cbn. lia.
      + rewrite all_in_drain. autorewrite with hp. exact Q1.
    - intros d m Hin. cbn [s_sent st'] in Hin. apply in_app_or in Hin as [Hin|Hin].
      + destruct (a_sent _ A _ _ Hin) as (j & o & Hj & Ho & Hm & Hd). exists j, o. repeat split; auto.
      + apply Hposted in Hin as (o & Ho & -> & Hd). exists to, o. repeat split; auto.
        rewrite Hto'. autorewrite with hp. rewrite Hl. apply in_or_app. now right.
    - intros e Hin. cbn [s_net s_sent st'] in *. apply in_app_or in Hin as [Hin|Hin]; apply in_or_app; auto.
      left. apply (a_net _ A). auto.
    - intros j o d Hj Ho Hd. cbn [s_sent st']. apply in_or_app.
      destruct (Nat.eq_dec j to) as [->|Hj']; [|rewrite Hst in Ho by auto; left; eapply (a_cov _ A); eauto].
      rewrite Hto' in Ho. autorewrite with hp in Ho. rewrite Hl in Ho. apply in_app_or in Ho as [Ho|Ho].
      + left. eapply (a_cov _ A); eauto.
      + right. apply Hposted. eauto.
    - intros d m Hin. cbn [s_sent s_net st'] in *. apply in_app_or in Hin as [Hin|Hin].
      2:{ left. apply in_or_app. now right. }
      assert (Hdel : delivered (s_h st d) m -> delivered (s_h st' d) m).
      { destruct (Nat.eq_dec d to) as [->|Hd]; [|now rewrite Hst].
        rewrite Hto'. intros H. apply delivered_drain. eapply delivered_ext; eauto. }
      destruct (a_del _ A _ _ Hin) as [Hn|Hd]; [|right; auto].
      destruct (Hcov _ _ Hn) as [Hn'|[-> Hd]].
      + left. apply in_or_app. now left.
      + right. rewrite Hto'. now apply delivered_drain.
    - intros i j Hi Hj.
      destruct (Nat.eq_dec j to) as [->|Hj'].
      2:{ rewrite (Hst j Hj'). etransitivity; [apply (a_gap _ A i j Hi Hj)|]. apply le_n_S, Hmono. }
      destruct (Nat.eq_dec i to) as [->|Hi']; [lia|].
      rewrite Hto', Hrk1, (Hst i Hi').
      destruct (a_q _ A i Hi) as (_ & Ci & _). pose proof (rk_range _ _ Ci) as Hri.
      pose proof (rk_range _ _ C1) as Hr1.
      destruct (le_lt_dec (rk s1) 2) as [Hle|Hgt]; [lia|].
      assert (Hr : 2 <= rk s1 - 1 < rk s1 /\ rk s1 - 1 <= final) by lia.
      destruct (c_cpl _ _ _ _ _ _ _ _ C1 (rk s1 - 1) i ltac:(lia) ltac:(lia) Hi Hi') as [Cb Cp].
      assert (Hx : exists x, In (rk s1 - 1, i, x) (h_qb s1) \/ In (rk s1 - 1, i, x) (h_qp s1)).
      { destruct (wf_shapeb_spec sh (rk s1 - 1) Hwf ltac:(lia)) as [H|H].
        - specialize (Cb H). destruct (qget (h_qb s1) (rk s1 - 1) i) eqn:Hg; [|congruence].
          exists m. left. now apply qget_In.
        - specialize (Cp H). destruct (qget (h_qp s1) (rk s1 - 1) i) eqn:Hg; [|congruence].
          exists m. right. now apply qget_In. }
      destruct Hx as [x Hx].
      pose proof (Hbnd' to i (rk s1 - 1) x Hto Hi') as Hb.
      rewrite Hto', (Hst i Hi') in Hb. autorewrite with hp in Hb. specialize (Hb Hx). lia.
    - exact Hbnd'.
  Qed.

  Lemma rk_running s : h_res s = false -> rk s = h_cur s.
  Proof. unfold SystemProofs.rk. now intros ->. Qed.

  Lemma AI_deliver_sent st net' to m :
    AI st -> In (to, m) (s_sent st) ->
    (forall e, In e net' -> In e (s_net st)) ->
    (forall e, In e (s_net st) -> e = (to, m) \/ In e net') ->
    AI (deliver_to st net' to m).
  Proof.
    intros A Hin Hsub Hcov. unfold System.deliver_to.
    destruct (to <? n) eqn:Hto; auto. apply Nat.ltb_lt in Hto.
    destruct (sent_ideal st to m A Hin) as (M & _ & Hf & Hfne & Hrnd & Hv & Hsv).
    rewrite (validity_keeps _ _ Hv), Hsv.
    set (s := s_h st to).
    destruct (a_q _ A to Hto) as (W & C & Hp & Q). fold s in W, C, Hp, Q.
    assert (B : h_res s = false -> bnd to (h_cur s) s).
    { intros Hr r j x Hx Hj. pose proof (a_bnd _ A to j r x Hto Hj Hx) as H1.
      assert (Hjn : j < n).
      { destruct Hx as [Hx|Hx]; [apply (c_qb _ _ _ _ _ _ _ _ C) in Hx|apply (c_qp _ _ _ _ _ _ _ _ C) in Hx];
          unfold SystemProofs.ideal_entry in Hx; tauto. }
      pose proof (a_gap _ A to j Hto Hjn) as H2. fold s in H2. rewrite (rk_running s Hr) in H2. lia. }
    assert (Hrd : h_res s = false -> m_round m <= S (h_cur s)).
    { intros Hr. pose proof (a_gap _ A to (m_from m) Hto Hf) as H2. fold s in H2.
      rewrite (rk_running s Hr) in H2. lia. }
    destruct (accept_ideal view_hash fp n ssid proto sh Hn2 Hwf to Hto s m W C Hp Q B M Hrd) as (C1 & Q1 & D1).
    set (s1 := accept view_hash (own_fp_of fp to) s m) in *.
    assert (X := ext_accept view_hash (own_fp_of fp to) s m). fold s1 in X.
    destruct (x_out _ _ _ X) as [l Hl]. rewrite Hl, skipn_app_exact.
    eapply AI_update; eauto.
    - now apply hwf_accept.
    - intros r j x Hj Hx.
      assert (Hnew : acc_entry (own_fp_of fp to) m s (r, j, x) -> r <= rk (s_h st j)).
      { intros [(o & _ & _ & Heq)|Heq]; inversion Heq; subst.
        - exfalso. apply Hj. apply (c_static _ _ _ _ _ _ _ _ C).
        - exact Hrnd. }
      destruct Hx as [Hx|Hx].
      + destruct (x_qbn _ _ _ X _ Hx) as [H|H]; auto.
      + destruct (x_qpn _ _ _ X _ Hx) as [H|H]; auto.
    - intros d m0 Hn. destruct (Hcov _ Hn) as [Heq|H]; auto. inversion Heq; subst. right. auto.
  Qed.

  Lemma accept_reject own_fp s m : can_accept s m = false -> accept view_hash own_fp s m = s.
  Proof.
    intros H. rewrite accept_eq, accept_body_eq. destruct (h_rt s) eqn:Hr; auto. rewrite H. cbn [negb orb].
    unfold recover_abort. now rewrite Hr.
  Qed.

  Lemma AI_deliver_junk st to m :
    AI st -> to < n -> can_accept (s_h st to) (set_valid m (validity (s_h st to) m)) = false ->
    AI (deliver_to st (s_net st) to m).
  Proof.
    intros A Hto Hca. unfold System.deliver_to. apply Nat.ltb_lt in Hto as Hto'. rewrite Hto'.
    rewrite (accept_reject _ _ _ Hca), skipn_all.
    destruct (a_q _ A to Hto) as (W & C & Hp & Q).
    eapply (AI_update st to (s_h st to) (s_net st) [] (fun _ _ => False)); eauto.
    - apply ext_refl.
    - now rewrite app_nil_r.
  Qed.

  Definition ev_ok (st : sys) (ev : sched_ev) : Prop :=
    match ev with
    | Inject to m => to < n -> can_accept (s_h st to) (set_valid m (validity (s_h st to) m)) = false
    | _ => True
    end.

  Lemma AI_step st ev : AI st -> ev_ok st ev -> AI (step st ev).
  Proof.
    intros A Hok. destruct ev as [to k|to k|to m]; cbn [System.step].
    - destruct (pick to k (s_net st)) as [[m rest]|] eqn:Hp; auto.
      apply pick_spec in Hp as (Hin & Hrest & Hcov). apply AI_deliver_sent; auto.
      apply (a_net _ A). auto.
    - destruct (pick to k (s_sent st)) as [[m rest]|] eqn:Hp; auto.
      apply pick_spec in Hp as (Hin & _ & _). apply AI_deliver_sent; auto.
    - destruct (le_lt_dec n to) as [Hge|Hlt].
      + unfold System.deliver_to. apply Nat.ltb_ge in Hge. now rewrite Hge.
      + apply AI_deliver_junk; auto.
  Qed.

  Lemma AI_run sched st : AI st -> junk_onlyb view_hash fp validity n st sched = true -> AI (run st sched).
  Proof.
    revert st. induction sched as [|ev sched IH]; intros st A Hj; cbn; auto.
    cbn [junk_onlyb] in Hj. apply andb_true_iff in Hj as [H1 H2]. apply IH; auto. apply AI_step; auto.
    destruct ev; cbn [ev_ok]; auto. intros Hto. apply Nat.ltb_lt in Hto. rewrite Hto in H1.
    cbn [negb orb] in H1. now apply negb_true_iff in H1.
  Qed.

  Lemma in_posted_iff to s1 l d m :
    static_ok to s1 ->
    (In (d, m) (posted fp s1 l) <-> exists o, In o l /\ m = mk_msg to o /\ In d (addr to o)).
  Proof.
    intros S1. unfold posted. rewrite in_flat_map. split.
    - intros (o & Ho & Hin). unfold expand in Hin. apply in_map_iff in Hin as (d' & Heq & Hd').
      inversion Heq; subst. exists o. rewrite (msg_of_out_static fp n ssid proto sh to) by auto.
      rewrite (addressees_static to) in Hd' by auto. auto.
    - intros (o & Ho & -> & Hd). exists o. split; auto. unfold expand. apply in_map_iff. exists d.
      rewrite (msg_of_out_static fp n ssid proto sh to) by auto.
      rewrite (addressees_static to) by auto. auto.
  Qed.

  Lemma other_exists i : exists j, j < n /\ j <> i.
  Proof. destruct (Nat.eq_dec i 0); [exists 1|exists 0]; lia. Qed.

  Lemma no_foreign_rk i s :
    i < n -> HC i s ->
    (forall r j x, In (r, j, x) (h_qb s) \/ In (r, j, x) (h_qp s) -> j = i) -> rk s <= 2.
  Proof.
    intros Hi C Hown. pose proof (rk_range _ _ C) as Hr.
    destruct (le_lt_dec (rk s) 2) as [|Hgt]; auto. exfalso.
    destruct (other_exists i) as (j & Hj & Hji).
    destruct (c_cpl _ _ _ _ _ _ _ _ C 2 j ltac:(lia) ltac:(lia) Hj Hji) as [Cb Cp].
    destruct (wf_shapeb_spec sh 2 Hwf ltac:(lia)) as [H|H].
    - specialize (Cb H). destruct (qget (h_qb s) 2 j) eqn:Hg; [|congruence].
      apply qget_In in Hg. apply Hji. eapply Hown; eauto.
    - specialize (Cp H). destruct (qget (h_qp s) 2 j) eqn:Hg; [|congruence].
      apply qget_In in Hg. apply Hji. eapply Hown; eauto.
  Qed.

  Lemma start_own i r j x :
    In (r, j, x) (h_qb (start_handler view_hash fp n ssid proto sh i))
    \/ In (r, j, x) (h_qp (start_handler view_hash fp n ssid proto sh i)) -> j = i.
  Proof.
    unfold start_handler. autorewrite with hp. intros Hin.
    pose proof (start_handler_ext view_hash fp n ssid proto sh i) as X.
    assert (Hown : own_entry (own_fp_of fp i) (init_state i n ssid proto sh) (r, j, x) -> j = i).
    { intros (o & _ & _ & Heq). now inversion Heq. }
    destruct Hin as [Hin|Hin].
    - destruct (x_qbn _ _ _ X _ Hin) as [[]|H]; auto.
    - destruct (x_qpn _ _ _ X _ Hin) as [[]|H]; auto.
  Qed.

  Lemma start_quiet i : i < n -> quiet i (start_handler view_hash fp n ssid proto sh i).
  Proof.
    intros Hi. unfold start_handler.
    destruct (HC_new view_hash fp n ssid proto sh Hn2 Hwf i Hi) as [C Q].
    split; [|split; [|split]].
    - apply hwf_drain, hwf_new.
    - now apply HC_drain.
    - autorewrite with hp. cbn. lia.
    - rewrite all_in_drain. autorewrite with hp. exact Q.
  Qed.

  Lemma AI_init : AI init_sys.
  Proof.
    assert (Hst : forall i, i < n -> static_ok i (start_handler view_hash fp n ssid proto sh i)).
    { intros i Hi. destruct (start_quiet i Hi) as (_ & C & _). apply (c_static _ _ _ _ _ _ _ _ C). }
    assert (Hrk : forall i, i < n -> 1 <= rk (start_handler view_hash fp n ssid proto sh i) <= 2).
    { intros i Hi. destruct (start_quiet i Hi) as (_ & C & _). split; [apply (rk_range _ _ C)|].
      apply (no_foreign_rk i); auto. apply start_own. }
    constructor; cbn [s_h s_net s_sent System.init_sys].
    - apply start_quiet.
    - intros d m Hin. apply in_flat_map in Hin as (i & Hi & Hin). apply in_seq in Hi.
      apply (in_posted_iff i) in Hin as (o & Ho & -> & Hd); [|apply Hst; lia].
      exists i, o. repeat split; auto. lia.
    - auto.
    - intros j o d Hj Ho Hd. apply in_flat_map. exists j. split; [apply in_seq; lia|].
      apply (in_posted_iff j); [now apply Hst|]. eauto.
    - auto.
    - intros i j Hi Hj. pose proof (Hrk i Hi). pose proof (Hrk j Hj). lia.
    - intros i j r x Hi Hji Hin. apply start_own in Hin. congruence.
  Qed.

  (* ---- completeness: with nothing left in flight nobody is stuck ---- *)
  Lemma ideal_outs_has i j c :
    2 <= c <= final -> j < n -> i < n -> i <> j ->
    (sh_bcast sh c = true ->
       exists o, In o (ideal_outs j (c - 1)) /\ o_bcast o = true /\ o_round o = c /\ In i (addr j o))
    /\ (p2p_some (sh_p2p sh c) = true ->
       exists o, In o (ideal_outs j (c - 1)) /\ o_bcast o = false /\ o_round o = c /\ In i (addr j o)).
  Proof.
    intros Hc Hj Hi Hij.
    assert (Hall : In i (filter (fun d => negb (d =? j)) (seq 0 n))).
    { apply filter_In. split; [apply in_seq; lia|]. now apply negb_true_iff, Nat.eqb_neq. }
    unfold System.ideal_outs, round_outputs. cbn [h_shape init_state].
    replace (final <=? c - 1) with false by (symmetry; apply Nat.leb_gt; lia).
    replace (S (c - 1)) with c by lia. split.
    - intros Hb. rewrite Hb. eexists. split; [apply in_or_app; left; now left|]. cbn. auto.
    - intros Hp. destruct (sh_p2p sh c) eqn:Hk; [discriminate| |].
      + eexists. split; [apply in_or_app; right; now left|]. cbn. auto.
      + exists (mkOut (Some i) c false (ibv (c - 1))). split; [|cbn; auto].
        apply in_or_app. right. apply in_map_iff. exists i. split; auto.
  Qed.

  Lemma stuck_impossible st i :
    AI st -> s_net st = [] -> i < n -> h_res (s_h st i) = false ->
    (forall j, j < n -> rk (s_h st i) <= rk (s_h st j)) -> False.
  Proof.
    intros A Hnet Hi Hr Hmin.
    destruct (a_q _ A i Hi) as (W & C & Hp & Q). set (s := s_h st i) in *.
    destruct Q as [Q|Q]; [congruence|].
    destruct (c_static _ _ _ _ _ _ _ _ C) as (S1 & S2 & S3 & S4 & S5).
    destruct (HC_running view_hash fp n ssid proto sh i s C Hr) as (_ & Hc1 & Hcf & _).
    assert (Hrk : rk s = h_cur s) by now apply rk_running.
    unfold all_in in Q.
    destruct (has_queue s (h_cur s)) eqn:Hq; [|discriminate]. cbn [negb] in Q.
    apply (has_queue_iff view_hash fp n sh s _ S5) in Hq.
    (* every other party's round-c messages have been stored *)
    assert (Hst : forall j, j < n -> j <> i ->
               (sh_bcast sh (h_cur s) = true -> qget (h_qb s) (h_cur s) j <> None)
               /\ (p2p_some (sh_p2p sh (h_cur s)) = true -> qget (h_qp s) (h_cur s) j <> None)).
    { intros j Hj Hji.
      destruct (a_q _ A j Hj) as (_ & Cj & _).
      pose proof (Hmin j Hj) as Hle. rewrite Hrk in Hle.
      destruct (ideal_outs_has i j (h_cur s) Hq Hj Hi ltac:(congruence)) as [Hb Hpp].
      assert (Hgo : forall o, In o (ideal_outs j (h_cur s - 1)) -> o_round o = h_cur s -> In i (addr j o) ->
                    qget (if o_bcast o then h_qb s else h_qp s) (h_cur s) j <> None).
      { intros o Ho Hro Hd.
        assert (Hout : In o (h_out (s_h st j))).
        { rewrite (c_out _ _ _ _ _ _ _ _ Cj). apply (upto_in j _ (h_cur s - 1)); auto. lia. }
        pose proof (a_cov _ A j o i Hj Hout Hd) as Hsent.
        destruct (a_del _ A _ _ Hsent) as [Hn|Hd'].
        { rewrite Hnet in Hn. destruct Hn. }
        fold s in Hd'. destruct Hd' as [H|[H|H]].
        - congruence.
        - cbn in H. lia.
        - unfold queue_of in H. cbn in H. now rewrite Hro in H. }
      split.
      - intros H. destruct (Hb H) as (o & Ho & Hbo & Hro & Hd). specialize (Hgo o Ho Hro Hd). now rewrite Hbo in Hgo.
      - intros H. destruct (Hpp H) as (o & Ho & Hbo & Hro & Hd). specialize (Hgo o Ho Hro Hd). now rewrite Hbo in Hgo. }
    rewrite S5 in Q.
    assert (Q1 : (if sh_bcast sh (h_cur s) then match view_of s (h_cur s) with Some _ => true | None => false end else true) = true).
    { destruct (sh_bcast sh (h_cur s)) eqn:Hb; auto.
      rewrite view_of_raw, S2. rewrite view_raw_complete; auto.
      intros j Hj. apply in_seq in Hj. destruct (Nat.eq_dec j i) as [->|Hji].
      - apply (c_own _ _ _ _ _ _ _ _ C); auto; lia.
      - apply Hst; auto. lia. }
    assert (Q2 : (if p2p_some (sh_p2p sh (h_cur s)) then p2p_in s else true) = true).
    { destruct (p2p_some (sh_p2p sh (h_cur s))) eqn:Hpp; auto.
      unfold p2p_in. apply forallb_forall. intros j Hj. apply In_others in Hj. rewrite S1, S2 in Hj.
      destruct (Hst j ltac:(lia) ltac:(lia)) as [_ H]. specialize (H eq_refl).
      destruct (qget (h_qp s) (h_cur s) j); congruence. }
    rewrite Q1, Q2 in Q. discriminate.
  Qed.

  Lemma all_finished st : AI st -> s_net st = [] -> forall i, i < n -> h_res (s_h st i) = true.
  Proof.
    intros A Hnet.
    assert (HP : forall c, c <= S final -> forall i, i < n -> c <= rk (s_h st i)).
    { induction c as [|c IH]; intros Hc i Hi; [lia|].
      specialize (IH ltac:(lia)).
      destruct (Nat.eq_dec (rk (s_h st i)) c) as [Heq|Hne]; [|specialize (IH i Hi); lia].
      exfalso. destruct (h_res (s_h st i)) eqn:Hr.
      - unfold SystemProofs.rk in Heq. rewrite Hr in Heq. lia.
      - apply (stuck_impossible st i A Hnet Hi Hr). intros j Hj. rewrite Heq. now apply IH. }
    intros i Hi. destruct (h_res (s_h st i)) eqn:Hr; auto. exfalso.
    apply (stuck_impossible st i A Hnet Hi Hr). intros j Hj.
    destruct (a_q _ A i Hi) as (_ & C & _). pose proof (rk_range _ _ C).
    specialize (HP (S final) (le_n _) j Hj). lia.
  Qed.

  Theorem schedule_independent sched i :
    junk_onlyb view_hash fp validity n init_sys sched = true ->
    complete (run init_sys sched) = true -> i < n ->
    h_res (s_h (run init_sys sched) i) = true
    /\ h_err (s_h (run init_sys sched) i) = None
    /\ h_rt (s_h (run init_sys sched) i) = Running
    /\ h_out (s_h (run init_sys sched) i) = ideal_out view_hash fp n ssid proto sh i.
  Proof.
    intros Hj Hc Hi. set (st := run init_sys sched) in *.
    assert (A : AI st) by (apply AI_run; [apply AI_init|exact Hj]).
    assert (Hnet : s_net st = []) by (unfold complete in Hc; destruct (s_net st); [auto|discriminate]).
    pose proof (all_finished st A Hnet i Hi) as Hr.
    destruct (a_q _ A i Hi) as (_ & C & _). repeat split; auto.
    - apply (c_err _ _ _ _ _ _ _ _ C).
    - apply (c_rt _ _ _ _ _ _ _ _ C).
    - rewrite (c_out _ _ _ _ _ _ _ _ C). unfold SystemProofs.rk. now rewrite Hr.
  Qed.
End AllHonest.

(* ================================================================== *)
(* 9. Corollaries and computed witnesses                               *)
(* ================================================================== *)
Section Corollaries.
  Variable view_hash : nat -> list N -> N.
  Variable fp : party -> bool -> option party -> nat -> N.
  Variable validity : hstate -> msg -> bool.
  Variables (n : nat) (ssid proto : N) (sh : shape).
  Hypothesis Hn2 : 2 <= n.
  Hypothesis Hwf : wf_shapeb sh = true.
  Hypothesis validity_keeps : forall s m, m_valid m = true -> validity s m = true.

  Notation run := (run view_hash fp validity n).
  Notation init_sys := (init_sys view_hash fp n ssid proto sh).
  Notation junk_onlyb := (junk_onlyb view_hash fp validity n).
  Notation lockstep_sched := (lockstep_sched view_hash fp validity n).

  Lemma lockstep_junk fuel st : junk_onlyb st (lockstep_sched fuel st) = true.
  Proof.
    revert st. induction fuel as [|f IH]; intros st; cbn [System.lockstep_sched]; auto.
    destruct (s_net st) as [|[to m] rest] eqn:Hn; auto.
    cbn [System.junk_onlyb]. rewrite IH. reflexivity.
  Qed.

  (* any complete schedule gives every party the result and exactly the output of the lockstep run *)
  Theorem schedule_independent_vs_lockstep sched fuel i :
    junk_onlyb init_sys sched = true -> complete (run init_sys sched) = true ->
    complete (run init_sys (lockstep_sched fuel init_sys)) = true -> i < n ->
    h_res (s_h (run init_sys sched) i) = true
    /\ h_err (s_h (run init_sys sched) i) = None
    /\ h_rt (s_h (run init_sys sched) i) = Running
    /\ h_out (s_h (run init_sys sched) i) = h_out (s_h (run init_sys (lockstep_sched fuel init_sys)) i)
    /\ Permutation (h_out (s_h (run init_sys sched) i))
                   (h_out (s_h (run init_sys (lockstep_sched fuel init_sys)) i)).
  Proof.
    intros Hj Hc Hl Hi.
    destruct (schedule_independent view_hash fp validity n ssid proto sh Hn2 Hwf validity_keeps sched i Hj Hc Hi)
      as (A & B & C & D).
    destruct (schedule_independent view_hash fp validity n ssid proto sh Hn2 Hwf validity_keeps _ i
                (lockstep_junk fuel init_sys) Hl Hi) as (_ & _ & _ & D').
    repeat split; auto; rewrite D, D'; auto.
  Qed.

  Theorem schedule_independent_pair sched1 sched2 i :
    junk_onlyb init_sys sched1 = true -> complete (run init_sys sched1) = true ->
    junk_onlyb init_sys sched2 = true -> complete (run init_sys sched2) = true -> i < n ->
    h_out (s_h (run init_sys sched1) i) = h_out (s_h (run init_sys sched2) i)
    /\ h_res (s_h (run init_sys sched1) i) = h_res (s_h (run init_sys sched2) i)
    /\ h_err (s_h (run init_sys sched1) i) = h_err (s_h (run init_sys sched2) i).
  Proof.
    intros J1 C1 J2 C2 Hi.
    destruct (schedule_independent view_hash fp validity n ssid proto sh Hn2 Hwf validity_keeps sched1 i J1 C1 Hi)
      as (A & B & C & D).
    destruct (schedule_independent view_hash fp validity n ssid proto sh Hn2 Hwf validity_keeps sched2 i J2 C2 Hi)
      as (A' & B' & C' & D').
    repeat split; congruence.
  Qed.
End Corollaries.

Theorem no_split_assuming_injective_view_hash
  (view_hash : nat -> list N -> N) fp validity n ssid proto sh E sched A B k j :
  (forall r v v', view_hash r v = view_hash r v' -> v = v') ->
  wf_shapeb sh = true -> authenticb E sched = true ->
  A < n -> B < n -> A <> E -> B <> E ->
  h_res (s_h (run view_hash fp validity n (init_sys view_hash fp n ssid proto sh) sched) A) = true ->
  h_res (s_h (run view_hash fp validity n (init_sys view_hash fp n ssid proto sh) sched) B) = true ->
  sh_bcast sh k = true -> 2 <= k < sh_final sh -> j < n ->
  stored_fp (s_h (run view_hash fp validity n (init_sys view_hash fp n ssid proto sh) sched) A) k j
  = stored_fp (s_h (run view_hash fp validity n (init_sys view_hash fp n ssid proto sh) sched) B) k j
  /\ stored_fp (s_h (run view_hash fp validity n (init_sys view_hash fp n ssid proto sh) sched) A) k j <> None.
Proof.
  intros Hinj Hwf Hau HA HB HAE HBE HrA HrB Hbk Hk Hj.
  destruct (no_split view_hash fp validity n ssid proto sh E sched A B k j Hwf Hau HA HB HAE HBE HrA HrB Hbk Hk Hj)
    as [H|(r & v & v' & Hne & Heq)]; auto.
  elim Hne. eapply Hinj; eauto.
Qed.

(* the message classes that CanAccept refuses (what an all-honest schedule may inject) *)
Definition junk_msg (s : hstate) (m : msg) : Prop :=
  (0 < m_round m < h_cur s)                      (* stale round *)
  \/ m_ssid m <> h_ssid s                        (* foreign session *)
  \/ m_proto m <> h_proto s                      (* foreign protocol *)
  \/ h_n s <= m_from m                           (* unknown sender *)
  \/ m_from m = h_self s                         (* own message echoed back *)
  \/ (exists t, m_to m = Some t /\ t <> h_self s) (* wrong recipient *)
  \/ m_data m = false                            (* no payload *)
  \/ sh_final (h_shape s) < m_round m.           (* round beyond the last one *)

Lemma junk_msg_rejected s m b : junk_msg s m -> can_accept s (set_valid m b) = false.
Proof.
  unfold can_accept, is_for. cbn [m_from m_to m_proto m_ssid m_data m_round set_valid].
  intros [H|[H|[H|[H|[H|[(t & Ht & Hne)|[H|H]]]]]]].
  - replace ((m_round m <? h_cur s) && (0 <? m_round m)) with true.
    + cbn [negb]. rewrite ?andb_false_r. reflexivity.
    + symmetry. apply andb_true_iff. split; apply Nat.ltb_lt; lia.
  - apply N.eqb_neq in H. rewrite H. now rewrite !andb_false_r.
  - apply N.eqb_neq in H. rewrite H. now rewrite !andb_false_r.
  - apply Nat.ltb_ge in H. rewrite H. now rewrite !andb_false_r.
  - rewrite H, Nat.eqb_refl. reflexivity.
  - rewrite Ht. apply Nat.eqb_neq in Hne. rewrite Hne. now rewrite !andb_false_r.
  - rewrite H. now rewrite !andb_false_r.
  - apply Nat.leb_gt in H. rewrite H. now rewrite !andb_false_r.
Qed.

Lemma wf_shapeb_iff sh :
  wf_shapeb sh = true <->
  forall r, 2 <= r <= sh_final sh -> sh_bcast sh r = true \/ sh_p2p sh r <> NoP2P.
Proof.
  unfold wf_shapeb. rewrite forallb_forall. split.
  - intros H r Hr. specialize (H r ltac:(apply in_seq; lia)). apply orb_true_iff in H as [H|H]; auto.
    right. destruct (sh_p2p sh r); [discriminate|discriminate|discriminate].
  - intros H r Hr. apply in_seq in Hr. destruct (H r ltac:(lia)) as [H'|H']; apply orb_true_iff; auto.
    right. destruct (sh_p2p sh r); auto; congruence.
Qed.

(* ---------------- computed witnesses ---------------- *)
Definition shape_bb3 : shape := mkShape 3 (fun r => (r =? 2) || (r =? 3)) (fun _ => NoP2P).
Definition shape_b5 : shape := mkShape 5 (fun r => 2 <=? r) (fun _ => NoP2P).

Lemma wf_shape_examples :
  wf_shapeb shape_xor = true /\ wf_shapeb shape_bp3 = true /\ wf_shapeb shape_mix4 = true
  /\ wf_shapeb shape_bb3 = true.
Proof. vm_compute. repeat split; reflexivity. Qed.
(* E = party 2 sends this as its round-2 broadcast; two versions differ in the fingerprint (payload) *)
Definition equiv_msg (fpv : N) : msg := mkMsg 7 9 2 None 2 true true 0 fpv true NoPanic.
Definition equiv_sched : list sched_ev :=
  [Inject 0 (equiv_msg 111); Inject 1 (equiv_msg 222); Deliver 0 0; Deliver 1 0].

(* C06: the LAST message round is not protected -- example/xor shape, n = 3, E = 2 equivocates round 2 *)
Definition last_round_run : sys :=
  run vh_pos fp_cantor keep_valid 3 (init_sys vh_pos fp_cantor 3 7 9 shape_xor) equiv_sched.

Lemma last_round_not_covered :
  authenticb 2 equiv_sched = true
  /\ h_res (s_h last_round_run 0) = true /\ h_res (s_h last_round_run 1) = true
  /\ h_err (s_h last_round_run 0) = None /\ h_err (s_h last_round_run 1) = None
  /\ stored_fp (s_h last_round_run 0) 2 2 = Some 111%N
  /\ stored_fp (s_h last_round_run 1) 2 2 = Some 222%N.
Proof. vm_compute. repeat split; reflexivity. Qed.

(* C04: round-3 validity depends on the round-2 view; E equivocates round 2; honest A = 0 then receives
   honest B = 1's authentic round-3 broadcast.  With the repaired handler (view check right before a
   message is processed) nobody is named.  (At the pinned commit this run ended with A naming B and B
   naming A -- defect D7.) *)
Definition blame_run0 : sys :=
  run vh_pos fp_cantor view_dependent_valid 3 (init_sys vh_pos fp_cantor 3 7 9 shape_bb3) equiv_sched.
Definition blame_msgB : msg :=
  match pick 0 1 (s_net blame_run0) with Some (m, _) => m | None => equiv_msg 0 end.
Definition blame_run : sys :=
  run vh_pos fp_cantor view_dependent_valid 3 blame_run0 [Deliver 0 1; Deliver 1 1].

Lemma equivocation_names_nobody :
  authenticb 2 (equiv_sched ++ [Deliver 0 1; Deliver 1 1]) = true
  (* B's message is authentic: it is in flight, emitted by B's honest handler, for round 3 *)
  /\ In (0, blame_msgB) (s_net blame_run0)
  /\ m_from blame_msgB = 1 /\ m_round blame_msgB = 3 /\ m_valid blame_msgB = true
  /\ blame_msgB = msg_of_out fp_cantor (s_h blame_run0 1) (mkOut None 3 true (m_bv blame_msgB))
  /\ In (mkOut None 3 true (m_bv blame_msgB)) (h_out (s_h blame_run0 1))
  (* A's and B's views of round 2 differ (E's slot), so B's message is not valid AT A *)
  /\ stored_fp (s_h blame_run0 0) 2 2 <> stored_fp (s_h blame_run0 1) 2 2
  /\ view_dependent_valid (s_h blame_run0 0) blame_msgB = false
  /\ view_dependent_valid (s_h blame_run0 1) blame_msgB = true
  /\ same_view (s_h blame_run0 0) blame_msgB = false
  (* the view comparison is made before the message is verified: nobody is named, on either side *)
  /\ h_err (s_h blame_run 0) = Some ([], EBroadcastHash)
  /\ h_err (s_h blame_run 1) = Some ([], EBroadcastHash).
Proof.
  vm_compute. repeat split; try reflexivity; try discriminate;
    repeat (first [left; reflexivity | right]).
Qed.

(* the queued path: B's round-3 message reaches A while A is still in round 2 (it is stored, flagged
   valid); A then completes round 2 with E's other version; the queued message is examined in finalize *)
Definition early_sched : list sched_ev :=
  [Inject 1 (equiv_msg 222); Deliver 1 0; Deliver 0 2; Inject 0 (equiv_msg 111); Deliver 0 0].
Definition early_run : sys :=
  run vh_pos fp_cantor view_dependent_valid 3 (init_sys vh_pos fp_cantor 3 7 9 shape_bb3) early_sched.
Lemma equivocation_names_nobody_queued :
  authenticb 2 early_sched = true /\ h_err (s_h early_run 0) = Some ([], EBroadcastHash).
Proof. vm_compute. split; reflexivity. Qed.

(* with the comparison done (validity not view dependent) the same equivocation ends without a culprit *)
Definition blame_run_keep : sys :=
  run vh_pos fp_cantor keep_valid 3 (init_sys vh_pos fp_cantor 3 7 9 shape_bb3)
      (equiv_sched ++ [Deliver 0 1; Deliver 1 1; Inject 0 (mkMsg 7 9 2 None 3 true true 5 333 true NoPanic)]).
Lemma equivocation_without_view_dependence :
  h_err (s_h blame_run_keep 0) = Some ([], EBroadcastHash).
Proof. vm_compute. reflexivity. Qed.

(* n = 1: NewMultiHandler runs through all rounds at construction and blocks on its own out channel
   (capacity 2n = 2) as soon as the protocol has three broadcast rounds -- why C07 needs n >= 2 *)
Lemma single_party_blocks :
  wf_shapeb shape_b5 = true
  /\ h_rt (s_h (init_sys vh_pos fp_cantor 1 7 9 shape_b5) 0) = BlockedOnSend
  /\ h_res (s_h (init_sys vh_pos fp_cantor 1 7 9 shape_b5) 0) = false.
Proof. vm_compute. repeat split; reflexivity. Qed.

(* ================================================================== *)
(* 10. The example fingerprint assignment is injective                 *)
(* ================================================================== *)
Local Open Scope N_scope.
Definition tri (s : N) : N := s * (s + 1) / 2.

Lemma tri_succ s : tri (s + 1) = tri s + s + 1.
Proof.
  unfold tri. replace ((s + 1) * (s + 1 + 1)) with (s * (s + 1) + (s + 1) * 2) by lia.
  rewrite N.div_add by discriminate. lia.
Qed.

Lemma tri_le s s' : s <= s' -> tri s <= tri s'.
Proof.
  intros H. unfold tri. apply N.div_le_mono; [discriminate|].
  apply N.mul_le_mono; lia.
Qed.

Lemma cantor_inj a b a' b' : cantor a b = cantor a' b' -> a = a' /\ b = b'.
Proof.
  unfold cantor. fold (tri (a + b)). fold (tri (a' + b')). intros H.
  assert (Hs : a + b = a' + b').
  { destruct (N.lt_trichotomy (a + b) (a' + b')) as [Hlt|[Heq|Hgt]]; auto; exfalso.
    - pose proof (tri_succ (a + b)). pose proof (tri_le (a + b + 1) (a' + b') ltac:(lia)). lia.
    - pose proof (tri_succ (a' + b')). pose proof (tri_le (a' + b' + 1) (a + b) ltac:(lia)). lia. }
  rewrite Hs in H. lia.
Qed.

Lemma fp_cantor_inj f bc to r f' bc' to' r' :
  fp_cantor f bc to r = fp_cantor f' bc' to' r' -> f = f' /\ bc = bc' /\ to = to' /\ r = r'.
Proof.
  unfold fp_cantor. intros H. apply cantor_inj in H as [H1 H2].
  apply cantor_inj in H1 as [Hf Hr]. apply cantor_inj in H2 as [Hb Ht].
  apply Nat2N.inj in Hf, Hr. repeat split; auto.
  - destruct bc, bc'; auto; discriminate.
  - destruct to as [j|], to' as [j'|]; auto; try (exfalso; lia).
    apply Nat2N.inj in Ht. congruence.
Qed.
