(* DispatchSystemProofs.v -- what "sys.run" (Model/DispatchSystem.v) executes IS Model/System.v:
     exec_is_run      the final state of a stop-free execution is [System.run] of the resolved schedule from
                      [System.init_sys], and the accumulated junk flag is [System.junk_onlyb] of that schedule;
     vh_table_inj     the view-digest oracle built from a table is injective iff the table is ([vh_injb]);
     sys_no_split, sys_schedule_independent, sys_blame_sound
                      the system theorems of Proofs/SystemProofs.v restated for the facts that sys.run reports. *)
From Coq Require Import List NArith ZArith Bool Arith Lia.
From MPS Require Import Model.Bytes Model.Sx Model.Handler Model.System Model.DispatchHandler Model.DispatchSystem
                        Proofs.SystemProofs.
Import ListNotations.
Local Open Scope nat_scope.

(* ---------------------------------------------------------------------------------------------- *)
(* tables *)

Lemma list_N_eqb_eq a : forall b, list_N_eqb a b = true <-> a = b.
Proof.
  induction a as [|x a IH]; intros [|y b]; simpl; split; intros H; try reflexivity; try discriminate.
  - apply andb_true_iff in H as [Hx Hl]. apply N.eqb_eq in Hx. apply IH in Hl. subst. reflexivity.
  - injection H as Hx Hl. subst. rewrite N.eqb_refl. simpl. apply IH. reflexivity.
Qed.

Lemma enc_list_inj a : forall b, enc_list a = enc_list b -> a = b.
Proof.
  induction a as [|x a IH]; intros [|y b]; simpl; intros H.
  - reflexivity.
  - exfalso. lia.
  - exfalso. lia.
  - assert (Hc : cantor x (enc_list a) = cantor y (enc_list b)) by lia.
    apply cantor_inj in Hc as [Hx Hl]. apply IH in Hl. subst. reflexivity.
Qed.

Lemma vh_find_in t r v d : vh_find t r v = Some d -> exists d0, In (r, v, d0) t.
Proof.
  induction t as [|[[r' v'] d'] t IH]; simpl; intros H.
  - discriminate.
  - destruct ((r' =? r) && list_N_eqb v' v) eqn:Hk.
    + apply andb_true_iff in Hk as [Hr Hv]. apply Nat.eqb_eq in Hr. apply list_N_eqb_eq in Hv. subst.
      exists d'. left. reflexivity.
    + destruct (IH H) as [d0 Hin]. exists d0. right. exact Hin.
Qed.

Lemma vh_find_le_max t r v d : vh_find t r v = Some d -> (d <= vh_max t)%N.
Proof.
  induction t as [|[[r' v'] d'] t IH]; simpl; intros H.
  - discriminate.
  - destruct ((r' =? r) && list_N_eqb v' v).
    + injection H as H. subst. unfold vh_max. simpl. lia.
    + specialize (IH H). unfold vh_max in *. simpl. lia.
Qed.

Theorem vh_table_inj t : vh_injb t = true -> forall r v v', vh_table t r v = vh_table t r v' -> v = v'.
Proof.
  intros Hinj r v v' H. unfold vh_table in H.
  destruct (vh_find t r v) as [d|] eqn:F1; destruct (vh_find t r v') as [d'|] eqn:F2.
  - subst d'. destruct (vh_find_in _ _ _ _ F1) as [d1 I1]. destruct (vh_find_in _ _ _ _ F2) as [d2 I2].
    unfold vh_injb in Hinj. rewrite forallb_forall in Hinj. specialize (Hinj _ I1). simpl in Hinj.
    rewrite forallb_forall in Hinj. specialize (Hinj _ I2). simpl in Hinj.
    rewrite F1, F2, Nat.eqb_refl, N.eqb_refl in Hinj. simpl in Hinj. apply list_N_eqb_eq. exact Hinj.
  - exfalso. apply vh_find_le_max in F1. lia.
  - exfalso. apply vh_find_le_max in F2. lia.
  - assert (He : enc_list (N.of_nat r :: v) = enc_list (N.of_nat r :: v')) by lia.
    apply enc_list_inj in He. injection He as He. exact He.
Qed.

Lemma validity_table_nil s m : m_valid m = true -> validity_table [] s m = true.
Proof. intros H. unfold validity_table. rewrite H. reflexivity. Qed.

Lemma inval_hit_other t E self m : inval_only_from t E = true -> m_from m <> E -> inval_hit t self m = false.
Proof.
  intros Ht Hm. unfold inval_hit. induction t as [|[[to from] f] t IH]; simpl in *.
  - reflexivity.
  - apply andb_true_iff in Ht as [Hf Ht]. apply Nat.eqb_eq in Hf. subst from.
    destruct (E =? m_from m) eqn:He.
    + apply Nat.eqb_eq in He. exfalso. apply Hm. symmetry. exact He.
    + rewrite andb_false_r. simpl. apply IH. exact Ht.
Qed.

Lemma validity_table_honest t E s m :
  inval_only_from t E = true -> m_from m <> E -> m_valid m = true -> validity_table t s m = true.
Proof.
  intros Ht Hm Hv. unfold validity_table. rewrite Hv, (inval_hit_other t E (h_self s) m Ht Hm). reflexivity.
Qed.

(* ---------------------------------------------------------------------------------------------- *)
(* resolution: a resolved Deliver / Dup hands over exactly the named copy *)

Lemma find_copy_pick to m l : forall k0 k, find_copy to m k0 l = Some k ->
  k0 <= k /\ exists x rest, pick to (k - k0) l = Some (x, rest) /\ msg_same x m = true.
Proof.
  induction l as [|[d x] l IH]; simpl; intros k0 k H.
  - discriminate.
  - destruct (d =? to) eqn:Hd.
    + destruct (msg_same x m) eqn:Hs.
      * injection H as H. subst k. split; [lia|]. rewrite Nat.sub_diag. exists x, l. split; [reflexivity | exact Hs].
      * destruct (IH _ _ H) as [Hle [y [rest [Hp Hy]]]]. split; [lia|].
        replace (k - k0) with (S (k - S k0)) by lia. rewrite Hp. exists y, ((d, x) :: rest). split; [reflexivity | exact Hy].
    + destruct (IH _ _ H) as [Hle [y [rest [Hp Hy]]]]. split; [exact Hle|].
      rewrite Hp. exists y, ((d, x) :: rest). split; [reflexivity | exact Hy].
Qed.

Theorem resolve_deliver_named st to m k :
  resolve st (NDeliver to m) = RStep (Deliver to k) true ->
  exists x rest, pick to k (s_net st) = Some (x, rest) /\ msg_same x m = true.
Proof.
  unfold resolve. destruct (find_copy to m 0 (s_net st)) as [k'|] eqn:F; intros H; [|discriminate].
  injection H as H. subst k'. destruct (find_copy_pick _ _ _ _ _ F) as [_ [x [rest [Hp Hs]]]].
  rewrite Nat.sub_0_r in Hp. exists x, rest. split; assumption.
Qed.

Theorem resolve_dup_named st to m k :
  resolve st (NDup to m) = RStep (Dup to k) true ->
  exists x rest, pick to k (s_sent st) = Some (x, rest) /\ msg_same x m = true.
Proof.
  unfold resolve. destruct (find_copy to m 0 (s_sent st)) as [k'|] eqn:F; intros H; [|discriminate].
  injection H as H. subst k'. destruct (find_copy_pick _ _ _ _ _ F) as [_ [x [rest [Hp Hs]]]].
  rewrite Nat.sub_0_r in Hp. exists x, rest. split; assumption.
Qed.

(* ---------------------------------------------------------------------------------------------- *)
(* the execution is System.run of the resolved schedule *)

Lemma filter_all {A} (f : A -> bool) l : forallb f l = true -> filter f l = l.
Proof.
  induction l as [|a l IH]; simpl; intros H; [reflexivity|].
  apply andb_true_iff in H as [Ha Hl]. rewrite Ha, (IH Hl). reflexivity.
Qed.

Section ExecRun.
  Variable cfg : sys_cfg.
  Let VH := vh_table (c_vht cfg).
  Let FP := fp_table (c_fpt cfg).
  Let VAL := validity_table (c_inval cfg).
  Let n := c_n cfg.

  Lemma xstep_cases x e :
    (exists ev, x_sys (xstep cfg x e) = step VH FP VAL n (x_sys x) ev
                /\ x_sched (xstep cfg x e) = ev :: x_sched x
                /\ x_stopfree (xstep cfg x e) = x_stopfree x
                /\ x_junk (xstep cfg x e) = x_junk x && junk_ok cfg (x_sys x) ev)
    \/ x_stopfree (xstep cfg x e) = false
    \/ (x_sys (xstep cfg x e) = x_sys x /\ x_sched (xstep cfg x e) = x_sched x
        /\ x_stopfree (xstep cfg x e) = x_stopfree x /\ x_junk (xstep cfg x e) = x_junk x).
  Proof.
    unfold xstep. destruct (resolve (x_sys x) e) as [ev found| p |]; simpl.
    - left. exists ev. repeat split; reflexivity.
    - right. left. reflexivity.
    - right. right. repeat split; reflexivity.
  Qed.

  Lemma xfold_run evs : forall x,
    x_stopfree (fold_left (xstep cfg) evs x) = true ->
    exists l,
      x_sched (fold_left (xstep cfg) evs x) = rev l ++ x_sched x
      /\ x_sys (fold_left (xstep cfg) evs x) = run VH FP VAL n (x_sys x) l
      /\ x_junk (fold_left (xstep cfg) evs x) = x_junk x && junk_onlyb VH FP VAL n (x_sys x) l
      /\ x_stopfree x = true.
  Proof.
    induction evs as [|e evs IH]; intros x H; simpl in *.
    - exists []. simpl. rewrite andb_true_r. repeat split; try reflexivity. exact H.
    - destruct (IH _ H) as [l [Hs [Hr [Hj Hf]]]]. clear IH H.
      destruct (xstep_cases x e) as [[ev [E1 [E2 [E3 E4]]]] | [E | [E1 [E2 [E3 E4]]]]].
      + rewrite E1 in Hr. rewrite E2 in Hs. rewrite E3 in Hf. rewrite E4, E1 in Hj.
        exists (ev :: l). simpl. repeat split.
        * rewrite Hs. rewrite <- app_assoc. reflexivity.
        * exact Hr.
        * rewrite Hj. rewrite <- andb_assoc. reflexivity.
        * exact Hf.
      + rewrite E in Hf. discriminate.
      + rewrite E1 in Hr. rewrite E2 in Hs. rewrite E3 in Hf. rewrite E4, E1 in Hj.
        exists l. repeat split; assumption.
  Qed.

  Theorem exec_is_run evs :
    x_stopfree (sys_exec cfg evs) = true ->
    x_sys (sys_exec cfg evs) = run VH FP VAL n (init_sys VH FP n (c_ssid cfg) (c_proto cfg) (c_sh cfg)) (f_sched (sys_exec cfg evs))
    /\ x_junk (sys_exec cfg evs)
       = junk_onlyb VH FP VAL n (init_sys VH FP n (c_ssid cfg) (c_proto cfg) (c_sh cfg)) (f_sched (sys_exec cfg evs)).
  Proof.
    intros H. unfold sys_exec in *. destruct (xfold_run evs (x_init cfg) H) as [l [Hs [Hr [Hj _]]]].
    unfold f_sched. rewrite Hs. simpl. rewrite app_nil_r, rev_involutive. split; [exact Hr | exact Hj].
  Qed.

  (* ---- C06: no split ---- *)
  Theorem sys_no_split evs E A B :
    x_stopfree (sys_exec cfg evs) = true ->
    f_wf cfg = true -> f_vh_inj cfg = true ->
    In E (f_authentic cfg (sys_exec cfg evs)) ->
    In A (f_completers cfg (sys_exec cfg evs)) -> In B (f_completers cfg (sys_exec cfg evs)) ->
    A <> E -> B <> E ->
    views_equalb cfg (x_sys (sys_exec cfg evs)) A B = true.
  Proof.
    intros Hsf Hwf Hinj HE HA HB HAE HBE.
    unfold f_authentic in HE. apply filter_In in HE as [_ Hau].
    unfold f_completers in HA, HB. apply filter_In in HA as [HAn HAr]. apply filter_In in HB as [HBn HBr].
    apply in_seq in HAn. apply in_seq in HBn.
    destruct (exec_is_run evs Hsf) as [Hrun _]. rewrite Hrun in *.
    unfold views_equalb, views_eq_on. apply forallb_forall. intros k Hk.
    unfold protected_rounds in Hk. apply in_seq in Hk.
    destruct (sh_bcast (c_sh cfg) k) eqn:Hb; simpl; [|reflexivity].
    apply forallb_forall. intros j Hj. apply in_seq in Hj.
    assert (HA' : A < n) by (unfold n; lia).
    assert (HB' : B < n) by (unfold n; lia).
    assert (Hj' : j < n) by (unfold n; lia).
    assert (Hk' : 2 <= k < sh_final (c_sh cfg)) by lia.
    assert (Hvi : forall r v v', VH r v = VH r v' -> v = v') by (apply vh_table_inj; exact Hinj).
    destruct (no_split_assuming_injective_view_hash VH FP VAL n (c_ssid cfg) (c_proto cfg) (c_sh cfg) E
                (f_sched (sys_exec cfg evs)) A B k j Hvi Hwf Hau HA' HB' HAE HBE HAr HBr Hb Hk' Hj') as [Heq Hne].
    rewrite <- Heq. destruct (stored_fp _ k j) as [a|]; [apply N.eqb_refl | exfalso; apply Hne; reflexivity].
  Qed.

  Lemma pairs_in (l : list party) a b : In (a, b) (pairs l) -> In a l /\ In b l.
  Proof.
    induction l as [|x l IH]; simpl; intros H; [contradiction|].
    apply in_app_or in H as [H|H].
    - apply in_map_iff in H as [y [Hy Hin]]. injection Hy as Hx Hb. subst. split; [left; reflexivity | right; exact Hin].
    - destruct (IH H) as [Ha Hb]. split; right; assumption.
  Qed.

  (* the same, read off the list of pairs that sys.run reports *)
  Theorem sys_no_split_pairs evs E A B p q :
    x_stopfree (sys_exec cfg evs) = true ->
    f_wf cfg = true -> f_vh_inj cfg = true ->
    In E (f_authentic cfg (sys_exec cfg evs)) ->
    In (A, B, p, q) (f_pairs cfg (sys_exec cfg evs)) ->
    A <> E -> B <> E -> p = true.
  Proof.
    intros Hsf Hwf Hinj HE Hp HAE HBE. unfold f_pairs in Hp. apply in_map_iff in Hp as [[a b] [Heq Hin]].
    simpl in Heq. injection Heq as Ha Hb Hpp Hq. subst a b. apply pairs_in in Hin as [HA HB].
    rewrite <- Hpp. apply sys_no_split with (E := E); assumption.
  Qed.

  (* ---- C07: schedule independence ---- *)
  Lemma outs_eqb_refl l : outs_eqb l l = true.
  Proof.
    induction l as [|o l IH]; simpl; [reflexivity|]. rewrite IH, andb_true_r. unfold outmsg_eqb.
    rewrite Nat.eqb_refl, N.eqb_refl, eqb_reflx. destruct (o_to o) as [j|]; simpl; [rewrite Nat.eqb_refl|]; reflexivity.
  Qed.

  Theorem sys_schedule_independent evs :
    x_stopfree (sys_exec cfg evs) = true ->
    f_n2 cfg = true -> f_wf cfg = true -> f_no_invalid cfg = true ->
    x_junk (sys_exec cfg evs) = true -> f_complete (sys_exec cfg evs) = true ->
    (forall i, i < n ->
       h_res (s_h (x_sys (sys_exec cfg evs)) i) = true
       /\ h_err (s_h (x_sys (sys_exec cfg evs)) i) = None
       /\ h_rt (s_h (x_sys (sys_exec cfg evs)) i) = Running
       /\ h_out (s_h (x_sys (sys_exec cfg evs)) i) = ideal_out VH FP n (c_ssid cfg) (c_proto cfg) (c_sh cfg) i)
    /\ f_all_done cfg (sys_exec cfg evs) = true
    /\ f_completers cfg (sys_exec cfg evs) = seq 0 n
    /\ (forall b, In b (f_ideal cfg (sys_exec cfg evs)) -> b = true).
  Proof.
    intros Hsf Hn2 Hwf Hni Hj Hc.
    destruct (exec_is_run evs Hsf) as [Hrun Hjunk].
    assert (Hval : forall s m, m_valid m = true -> VAL s m = true).
    { intros s m Hm. unfold VAL. unfold f_no_invalid in Hni. destruct (c_inval cfg); [|discriminate].
      apply validity_table_nil. exact Hm. }
    assert (Hall : forall i, i < n ->
       h_res (s_h (x_sys (sys_exec cfg evs)) i) = true
       /\ h_err (s_h (x_sys (sys_exec cfg evs)) i) = None
       /\ h_rt (s_h (x_sys (sys_exec cfg evs)) i) = Running
       /\ h_out (s_h (x_sys (sys_exec cfg evs)) i) = ideal_out VH FP n (c_ssid cfg) (c_proto cfg) (c_sh cfg) i).
    { intros i Hi. unfold f_complete in Hc. rewrite Hjunk in Hj. rewrite Hrun in *.
      apply schedule_independent; try assumption.
      unfold f_n2 in Hn2. apply Nat.leb_le in Hn2. exact Hn2. }
    split; [exact Hall|]. split; [|split].
    - unfold f_all_done, all_done. apply forallb_forall. intros i Hi. apply in_seq in Hi.
      destruct (Hall i) as [Hr [He _]]; [fold n; lia|]. fold n. rewrite Hr, He. reflexivity.
    - unfold f_completers. fold n. apply filter_all. apply forallb_forall. intros i Hi. apply in_seq in Hi.
      destruct (Hall i) as [Hr _]; [lia|]. exact Hr.
    - intros b Hb. unfold f_ideal in Hb. apply in_map_iff in Hb as [i [Hb Hi]]. apply in_seq in Hi.
      destruct (Hall i) as [_ [_ [_ Ho]]]; [fold n in Hi; lia|]. subst b. fold n VH FP. rewrite Ho. apply outs_eqb_refl.
  Qed.

  (* ---- C04: blame ---- *)
  Theorem sys_blame_sound evs E A c k :
    x_stopfree (sys_exec cfg evs) = true ->
    In E (f_authentic cfg (sys_exec cfg evs)) -> In E (f_inval_from cfg) ->
    h_err (s_h (x_sys (sys_exec cfg evs)) A) = Some (c, k) ->
    (k = EVerify -> incl c [E]) /\ (k = EBroadcastHash -> c = []).
  Proof.
    intros Hsf HE Hiv Herr.
    unfold f_authentic in HE. apply filter_In in HE as [_ Hau].
    unfold f_inval_from in Hiv. apply filter_In in Hiv as [_ Hiv].
    destruct (exec_is_run evs Hsf) as [Hrun _]. rewrite Hrun in Herr.
    apply (blame_sound VH FP VAL n (c_ssid cfg) (c_proto cfg) (c_sh cfg) E) with (sched := f_sched (sys_exec cfg evs)) (A := A);
      try assumption.
    intros s m Hm Hv _. unfold VAL. apply validity_table_honest with (E := E); assumption.
  Qed.
End ExecRun.

(* ---------------------------------------------------------------------------------------------- *)
(* the op is the rendering of [sys_exec] *)
Theorem op_sys_run_is_exec arg out :
  op_sys_run arg = Some out ->
  exists cfg evs, parse_sys arg = Some (cfg, evs) /\ out = sys_render cfg (sys_exec cfg evs).
Proof.
  unfold op_sys_run. destruct (parse_sys arg) as [[cfg evs]|]; intros H; [|discriminate].
  injection H as H. exists cfg, evs. split; [reflexivity | symmetry; exact H].
Qed.
