(* ZKProofs.v -- lemmas about Model/ZK.v (C10).
   A. range predicates (TrueLen) and the slack of the masked responses
   B. the unit group of Z/n as a Z-module: [expI n x k] is a homomorphism in k, multiplicative in x, composes,
      and lifts along r |-> r^N from (Z/N)* to (Z/N^2)*   (no primality of the factors is needed anywhere)
   C. the recurring verification shapes: Pedersen check, Paillier "encryption is linear", affine relation,
      randomization, N-th powers, zkfac's relation, zkprm's relation
   D. completeness, range slack, range enforcement per system
   E. injectivity of the Fiat-Shamir transcript as a function of (statement, commitment) *)
From Coq Require Import ZArith Znumtheory Zpow_facts Lia List Bool NArith.
From MPS Require Import Model.Bytes Model.Framing Model.Paillier Model.ZK.
From MPS Require Import Proofs.BytesProofs Proofs.FramingProofs Proofs.PaillierProofs.
From MPS Require Proofs.RefSigProofs.
Import ListNotations.
Local Open Scope Z_scope.

(* ================================================================================================ *)
(* A. ranges                                                                                        *)
(* ================================================================================================ *)

Lemma truelen_nonneg z : 0 <= truelen z.
Proof. destruct z; cbn [truelen]; try lia; pose proof (Z.log2_nonneg (Z.abs (Zpos p))); pose proof (Z.log2_nonneg (Z.abs (Zneg p))); lia. Qed.

(* TrueLen z <= k  iff  |z| < 2^k *)
Lemma truelen_le_iff z k : 0 <= k -> (truelen z <= k <-> Z.abs z < 2 ^ k).
Proof.
  intro Hk. destruct (Z.eq_dec z 0) as [->|Hz].
  - cbn [truelen Z.abs]. split; intro; [apply Z.pow_pos_nonneg; lia | lia].
  - assert (Ha : 0 < Z.abs z) by lia.
    assert (E : truelen z = Z.log2 (Z.abs z) + 1) by (destruct z; [lia | reflexivity | reflexivity]).
    rewrite E. split; intro H.
    + apply Z.log2_lt_pow2; lia.
    + apply Z.log2_lt_pow2 in H; lia.
Qed.

Lemma in_leps_iff z : in_leps z = true <-> Z.abs z < 2 ^ 768.
Proof. unfold in_leps, zk_LEps. rewrite Z.leb_le. apply truelen_le_iff. lia. Qed.
Lemma in_lprimeeps_iff z : in_lprimeeps z = true <-> Z.abs z < 2 ^ 1792.
Proof. unfold in_lprimeeps, zk_LPrimeEps. rewrite Z.leb_le. apply truelen_le_iff. lia. Qed.
Lemma in_leps1rootn_iff z : in_leps1rootn z = true <-> Z.abs z < 2 ^ 1793.
Proof.
  unfold in_leps1rootn, zk_LEps, zk_BitsN. rewrite Z.leb_le.
  change (1 + 768 + 2048 / 2) with 1793. apply truelen_le_iff. lia.
Qed.

(* the masked response e*x + alpha stays in range whenever the mask leaves room for |e|*|x| *)
Lemma mask_slack B E X e x alpha :
  0 <= E -> 0 <= X -> Z.abs e <= E -> Z.abs x <= X -> Z.abs alpha < B - E * X -> Z.abs (e * x + alpha) < B.
Proof.
  intros HE HX He Hx Ha.
  assert (Z.abs (e * x) <= E * X) by (rewrite Z.abs_mul; nia).
  pose proof (Z.abs_triangle (e * x) alpha). lia.
Qed.

(* ================================================================================================ *)
(* B. units modulo n                                                                                *)
(* ================================================================================================ *)

Definition unit (n x : Z) : Prop := Z.gcd x n = 1.

Lemma cancel_mod n a b c : 1 < n -> unit n c -> (a * c) mod n = (b * c) mod n -> a mod n = b mod n.
Proof.
  intros Hn Hc H. pose proof (modinv_spec n c Hn Hc) as Hi.
  assert (E : forall u, (u * c * modinv n c) mod n = u mod n).
  { intro u. replace (u * c * modinv n c) with (u * (modinv n c * c)) by ring.
    rewrite <- Z.mul_mod_idemp_r, Hi, Z.mul_1_r by lia. reflexivity. }
  rewrite <- (E a), <- (E b). rewrite <- (Z.mul_mod_idemp_l (a * c)), H, Z.mul_mod_idemp_l by lia. reflexivity.
Qed.

Lemma unit_mulmod n a b : 0 < n -> unit n a -> unit n b -> unit n ((a * b) mod n).
Proof. intros Hn Ha Hb. unfold unit. rewrite gcd_mod_l by lia. apply unit_mul; assumption. Qed.

Lemma unit_powmod n a k : 0 < n -> unit n a -> unit n (powmod n a k).
Proof.
  intros Hn Ha. unfold unit. destruct (Z.lt_ge_cases k 0) as [Hk|Hk].
  - destruct k; try lia. cbn [powmod]. rewrite gcd_mod_l by lia. apply Z.gcd_1_l.
  - rewrite powmod_spec, gcd_mod_l by lia. apply unit_pow; assumption.
Qed.

Lemma unit_expI n x k : 1 < n -> unit n x -> unit n (expI n x k).
Proof. intros. apply expI_unit; assumption. Qed.

Lemma unit_1 n : unit n 1.
Proof. apply Z.gcd_1_l. Qed.

(* the characterisation used for every identity: multiplied by enough positive powers, expI is a plain power *)
Lemma expI_char n x e m : 1 < n -> unit n x -> 0 <= m -> 0 <= e + m ->
  (expI n x e * x ^ m) mod n = x ^ (e + m) mod n.
Proof.
  intros Hn Hx Hm Hem. destruct (Z.lt_ge_cases e 0) as [He|He].
  - destruct (expI_neg n x e Hn Hx He) as [_ [_ Hinv]].
    replace m with (- e + (e + m)) at 1 by lia. rewrite Z.pow_add_r by lia.
    replace (expI n x e * (x ^ (- e) * x ^ (e + m))) with ((expI n x e * x ^ (- e)) * x ^ (e + m)) by ring.
    rewrite <- Z.mul_mod_idemp_l, Hinv, Z.mul_1_l by lia. reflexivity.
  - rewrite expI_nonneg by lia. rewrite Z.mul_mod_idemp_l by lia.
    rewrite <- Z.pow_add_r by lia. reflexivity.
Qed.

Lemma expI_small n x e : 0 < n -> expI n x e mod n = expI n x e.
Proof. intro Hn. apply Z.mod_small. apply expI_range. assumption. Qed.

Lemma expI_0 n x : 1 < n -> expI n x 0 = 1.
Proof. intro Hn. rewrite expI_nonneg by lia. rewrite Z.pow_0_r. apply Z.mod_small. lia. Qed.

Lemma expI_add n x a b : 1 < n -> unit n x ->
  expI n x (a + b) = (expI n x a * expI n x b) mod n.
Proof.
  intros Hn Hx. rewrite <- (expI_small n x (a + b)) by lia.
  apply (cancel_mod n _ _ (x ^ (Z.abs a + Z.abs b))); [assumption | apply unit_pow; [lia | assumption] |].
  rewrite expI_char by (try assumption; lia).
  rewrite (Z.pow_add_r x (Z.abs a) (Z.abs b)) by lia.
  replace (expI n x a * expI n x b * (x ^ Z.abs a * x ^ Z.abs b))
    with ((expI n x a * x ^ Z.abs a) * (expI n x b * x ^ Z.abs b)) by ring.
  rewrite Z.mul_mod by lia. rewrite !expI_char by (try assumption; lia). rewrite <- Z.mul_mod by lia.
  rewrite <- Z.pow_add_r by lia. f_equal. f_equal. ring.
Qed.

Lemma expI_mul_base n x y e : 1 < n -> unit n x -> unit n y ->
  expI n (x * y) e = (expI n x e * expI n y e) mod n.
Proof.
  intros Hn Hx Hy. rewrite <- (expI_small n (x * y) e) by lia.
  apply (cancel_mod n _ _ ((x * y) ^ Z.abs e)); [assumption | apply unit_pow; [lia | apply unit_mul; assumption] |].
  rewrite expI_char by (try apply unit_mul; try assumption; lia).
  rewrite (Z.pow_mul_l x y (Z.abs e)).
  replace (expI n x e * expI n y e * (x ^ Z.abs e * y ^ Z.abs e))
    with ((expI n x e * x ^ Z.abs e) * (expI n y e * y ^ Z.abs e)) by ring.
  rewrite Z.mul_mod by lia. rewrite !expI_char by (try assumption; lia). rewrite <- Z.mul_mod by lia.
  now rewrite Z.pow_mul_l.
Qed.

Lemma powmod_base_mod n x e : 0 < n -> powmod n (x mod n) e = powmod n x e.
Proof.
  intro Hn. destruct e as [|p|p]; cbn [powmod]; try reflexivity. rewrite Z.mod_mod by lia. reflexivity.
Qed.

Lemma expI_base_mod n x e : 0 < n -> expI n (x mod n) e = expI n x e.
Proof. intro Hn. unfold expI. rewrite powmod_base_mod by assumption. reflexivity. Qed.

Lemma expI_pow_nonneg n x a k : 1 < n -> unit n x -> 0 <= k ->
  (expI n x a) ^ k mod n = expI n x (a * k).
Proof.
  intros Hn Hx Hk. pattern k. apply natlike_ind; [| | assumption].
  - rewrite Z.pow_0_r, Z.mul_0_r, expI_0 by lia. apply Z.mod_small. lia.
  - intros j Hj IH. rewrite Z.pow_succ_r by assumption.
    replace (a * Z.succ j) with (a + a * j) by lia. rewrite expI_add by assumption.
    rewrite <- IH. rewrite Z.mul_mod_idemp_r by lia. reflexivity.
Qed.

Lemma expI_expI n x a b : 1 < n -> unit n x -> expI n (expI n x a) b = expI n x (a * b).
Proof.
  intros Hn Hx. pose proof (unit_expI n x a Hn Hx) as Hy.
  destruct (Z.lt_ge_cases b 0) as [Hb|Hb].
  - rewrite expI_neg_def by assumption. rewrite powmod_spec by lia.
    rewrite expI_pow_nonneg by (try assumption; lia).
    apply modinv_unique; [assumption | apply unit_expI; assumption | apply expI_range; lia |].
    rewrite <- expI_add by assumption. replace (a * b + a * - b) with 0 by ring. apply expI_0. assumption.
  - rewrite (expI_nonneg n (expI n x a)) by lia. apply expI_pow_nonneg; assumption.
Qed.

Lemma expI_mulmod_base n x y e : 1 < n -> unit n x -> unit n y ->
  expI n ((x * y) mod n) e = (expI n x e * expI n y e) mod n.
Proof. intros. rewrite expI_base_mod by lia. apply expI_mul_base; assumption. Qed.

(* ---- the generator 1+N and the N-th power map (Z/N)* -> (Z/N^2)* ---- *)
Lemma unit_g N : 0 < N -> unit (N * N) (N + 1).
Proof.
  intro HN. apply unit_sq. unfold unit. replace (N + 1) with (1 + 1 * N) by ring.
  rewrite Z.gcd_comm, Z.gcd_add_mult_diag_r. apply Z.gcd_1_r.
Qed.

Definition iota (N r : Z) : Z := powmod (N * N) r N.

Lemma unit_iota N r : 0 < N -> unit N r -> unit (N * N) (iota N r).
Proof. intros HN Hr. apply unit_powmod; [nia|]. apply unit_sq. assumption. Qed.

Lemma iota_mulmod N a b : 0 < N -> iota N ((a * b) mod N) = (iota N a * iota N b) mod (N * N).
Proof.
  intro HN. unfold iota. rewrite !powmod_spec by nia.
  rewrite (pow_n_lift N ((a * b) mod N) (a * b)) by (try rewrite Z.mod_mod; lia).
  rewrite Z.pow_mul_l. rewrite <- Z.mul_mod by nia. reflexivity.
Qed.

Lemma iota_expI N r e : 1 < N -> unit N r -> iota N (expI N r e) = expI (N * N) (iota N r) e.
Proof.
  intros HN Hr. assert (HNN : 1 < N * N) by nia. unfold iota.
  destruct (Z.lt_ge_cases e 0) as [He|He].
  - rewrite (expI_neg_def (N * N)) by assumption.
    symmetry. apply modinv_unique; [assumption | | apply powmod_range; lia |].
    + apply unit_powmod; [lia|]. apply unit_powmod; [lia|]. apply unit_sq. assumption.
    + rewrite !powmod_spec by lia. rewrite Z.mul_mod_idemp_l by lia.
      rewrite <- Zpower_mod by lia. rewrite Z.mul_mod_idemp_r by lia.
      rewrite <- (Z.pow_mul_r r N (- e)) by lia. rewrite (Z.mul_comm N (- e)), Z.pow_mul_r by lia.
      rewrite <- Z.pow_mul_l.
      rewrite (pow_n_lift N (expI N r e * r ^ (- e)) 1).
      * rewrite Z.pow_1_l by lia. apply Z.mod_small. lia.
      * lia.
      * destruct (expI_neg N r e HN Hr He) as [_ [_ Hinv]]. rewrite Hinv. symmetry. apply Z.mod_small. lia.
  - rewrite !expI_nonneg by lia. rewrite !powmod_spec by lia.
    rewrite (pow_n_lift N (r ^ e mod N) (r ^ e)) by (try rewrite Z.mod_mod; lia).
    rewrite <- Zpower_mod by lia.
    rewrite <- !Z.pow_mul_r by lia. f_equal. f_equal. ring.
Qed.

(* ================================================================================================ *)
(* C. verification shapes                                                                           *)
(* ================================================================================================ *)

(* strip the inner reductions of a product under [mod n] *)
Ltac modnorm n H :=
  repeat first [ rewrite (Z.mul_mod_idemp_l _ _ n) by exact H
               | rewrite (Z.mul_mod_idemp_r _ _ n) by exact H ].
Ltac modring n H := modnorm n H; f_equal; ring.

Lemma valid_mod_iff n x : 0 < n -> (valid_mod n x = true <-> 0 <= x < n /\ unit n x).
Proof.
  intro Hn. unfold valid_mod, unit. rewrite gcd_mod_spec by assumption.
  rewrite !andb_true_iff, Z.leb_le, Z.ltb_lt, Z.eqb_eq. tauto.
Qed.

Lemma valid_mod_unit_mod n x : 0 < n -> unit n x -> valid_mod n (x mod n) = true.
Proof.
  intros Hn Hx. apply valid_mod_iff; [assumption|]. split; [apply Z.mod_pos_bound; assumption|].
  unfold unit. rewrite gcd_mod_l by assumption. exact Hx.
Qed.

Lemma validate_ct_unit_mod n x : 1 < n -> unit (n * n) x -> validate_ct n (x mod (n * n)) = true.
Proof.
  intros Hn Hx. assert (Hnn : 1 < n * n) by nia.
  unfold validate_ct. rewrite gcd_mod_spec by lia.
  pose proof (Z.mod_pos_bound x (n * n) ltac:(lia)) as Hb.
  rewrite gcd_mod_l by lia. unfold unit in Hx. rewrite Hx.
  destruct (Z.leb_spec 0 (x mod (n * n))); [|lia]. destruct (Z.ltb_spec (x mod (n * n)) (n * n)); [|lia]. reflexivity.
Qed.

(* ---- Pedersen ---- *)
Section Pedersen.
  Variables n s t : Z.
  Hypothesis Hn : 1 < n.
  Hypothesis Hs : unit n s.
  Hypothesis Ht : unit n t.
  Let n0 : n <> 0. Proof. lia. Qed.

  Lemma unit_ped_commit x y : unit n (ped_commit n s t x y).
  Proof. apply unit_mulmod; [lia | apply unit_expI; assumption | apply unit_expI; assumption]. Qed.

  Lemma valid_ped_commit x y : valid_mod n (ped_commit n s t x y) = true.
  Proof. unfold ped_commit. apply valid_mod_unit_mod; [lia|]. apply unit_mul; apply unit_expI; assumption. Qed.

  (* s^(e x + a) t^(e y + b) = (s^a t^b) (s^x t^y)^e *)
  Lemma ped_complete a b x y e :
    ped_verify n s t (e * x + a) (e * y + b) e (ped_commit n s t a b) (ped_commit n s t x y) = true.
  Proof.
    unfold ped_verify. rewrite !valid_ped_commit. cbn [andb]. apply Z.eqb_eq.
    unfold ped_commit.
    rewrite expI_mulmod_base by (try apply unit_expI; assumption).
    rewrite !expI_expI by assumption.
    rewrite (expI_add n s (e * x) a), (expI_add n t (e * y) b) by assumption.
    replace (x * e) with (e * x) by ring. replace (y * e) with (e * y) by ring.
    modring n n0.
  Qed.

  (* anything that fails the validity of the commitments is refused *)
  Lemma ped_verify_valid a b e S T : ped_verify n s t a b e S T = true -> valid_mod n S = true /\ valid_mod n T = true.
  Proof. unfold ped_verify. rewrite !andb_true_iff. tauto. Qed.
End Pedersen.

(* ---- Paillier ---- *)
Definition encval (N m r : Z) : Z := (expI (N * N) (N + 1) m * iota N r) mod (N * N).

Lemma enc_encval N m r : Z.abs m <= N / 2 -> enc N m r = Some (encval N m r).
Proof. intro H. unfold enc, encval, iota. cbv zeta. destruct (Z.gtb_spec (Z.abs m) (N / 2)); [lia | reflexivity]. Qed.

Lemma enc_refuses_big N m r : N / 2 < Z.abs m -> enc N m r = None.
Proof. intro H. unfold enc. cbv zeta. destruct (Z.gtb_spec (Z.abs m) (N / 2)); [reflexivity | lia]. Qed.

Lemma enc_eq_refuses N m r rhs k : N / 2 < Z.abs m -> enc_eq N m r rhs k = None.
Proof. intro H. unfold enc_eq. rewrite enc_refuses_big by assumption. reflexivity. Qed.

Lemma enc_eq_ok N m r rhs k : Z.abs m <= N / 2 -> encval N m r = rhs -> enc_eq N m r rhs k = k.
Proof. intros H E. unfold enc_eq. rewrite enc_encval by assumption. rewrite E, Z.eqb_refl. reflexivity. Qed.

Section PaillierShapes.
  Variable N : Z.
  Hypothesis HN : 1 < N.
  Let NN := N * N.
  Let HNN : 1 < N * N. Proof. nia. Qed.
  Let nn0 : N * N <> 0. Proof. nia. Qed.
  Let Hg : unit (N * N) (N + 1). Proof. apply unit_g. lia. Qed.

  Lemma unit_encval m r : unit N r -> unit (N * N) (encval N m r).
  Proof.
    intro Hr. unfold encval. apply unit_mulmod; [lia | apply unit_expI; assumption | apply unit_iota; [lia | assumption]].
  Qed.

  Lemma validate_encval m r : unit N r -> validate_ct N (encval N m r) = true.
  Proof.
    intro Hr. unfold encval. apply validate_ct_unit_mod; [assumption|].
    apply unit_mul; [apply unit_expI; assumption | apply unit_iota; [lia | assumption]].
  Qed.

  (* e (.) c for a unit c, and (+) *)
  Lemma unit_mul_ct e c : unit (N * N) c -> unit (N * N) (mul N e c).
  Proof. intro Hc. unfold mul. apply unit_expI; assumption. Qed.
  Lemma unit_add_ct c1 c2 : unit (N * N) c1 -> unit (N * N) c2 -> unit (N * N) (add N c1 c2).
  Proof. intros H1 H2. unfold add. apply unit_mulmod; [lia | assumption | assumption]. Qed.
  Lemma unit_randomize c r : unit (N * N) c -> unit N r -> unit (N * N) (randomize N c r).
  Proof. intros Hc Hr. unfold randomize. apply unit_mulmod; [lia | assumption | apply unit_iota; [lia | assumption]]. Qed.
  Lemma validate_unit_ct c : unit (N * N) c -> validate_ct N (c mod (N * N)) = true.
  Proof. apply validate_ct_unit_mod. assumption. Qed.
  Lemma add_small c1 c2 : add N c1 c2 mod (N * N) = add N c1 c2.
  Proof. unfold add. apply Z.mod_mod. lia. Qed.
  Lemma randomize_small c r : randomize N c r mod (N * N) = randomize N c r.
  Proof. unfold randomize. apply Z.mod_mod. lia. Qed.

  (* the masked nonce r rho^e mod N *)
  Lemma unit_resp_nonce rho r e : unit N rho -> unit N r -> unit N ((expI N rho e * r) mod N).
  Proof. intros H1 H2. apply unit_mulmod; [lia | apply unit_expI; assumption | assumption]. Qed.
  Lemma valid_resp_nonce rho r e : unit N rho -> unit N r -> valid_mod N ((expI N rho e * r) mod N) = true.
  Proof. intros H1 H2. apply valid_mod_unit_mod; [lia|]. apply unit_mul; [apply unit_expI; assumption | assumption]. Qed.

  Lemma iota_resp_nonce rho r e : unit N rho -> unit N r ->
    iota N ((expI N rho e * r) mod N) = (expI (N * N) (iota N rho) e * iota N r) mod (N * N).
  Proof. intros H1 H2. rewrite iota_mulmod by lia. rewrite iota_expI by assumption. reflexivity. Qed.

  (* e (.) Enc(k; rho) as a product *)
  Lemma mul_encval e k rho : unit N rho ->
    mul N e (encval N k rho) = (expI (N * N) (N + 1) (k * e) * expI (N * N) (iota N rho) e) mod (N * N).
  Proof.
    intro Hr. unfold mul, encval.
    rewrite expI_mulmod_base by (try apply unit_expI; try apply unit_iota; try assumption; lia).
    rewrite expI_expI by assumption. reflexivity.
  Qed.

  (* Enc(e k + alpha; r rho^e) = (e (.) Enc(k; rho)) (+) Enc(alpha; r) *)
  Lemma enc_linear e k rho alpha r : unit N rho -> unit N r ->
    encval N (e * k + alpha) ((expI N rho e * r) mod N) = add N (mul N e (encval N k rho)) (encval N alpha r).
  Proof.
    intros Hrho Hr. unfold add. rewrite mul_encval by assumption. unfold encval.
    rewrite iota_resp_nonce by assumption.
    rewrite (expI_add (N * N) (N + 1) (e * k) alpha) by assumption.
    replace (k * e) with (e * k) by ring.
    modring (N * N) nn0.
  Qed.

  (* Enc(e y + beta; rho s^e) (+) (e x + alpha) (.) K = e (.) ((x (.) K) (+) Enc(y; s)) (+) (Enc(beta; rho) (+) alpha (.) K) *)
  Lemma aff_linear K e x y sn alpha beta rho : unit (N * N) K -> unit N sn -> unit N rho ->
    add N (encval N (e * y + beta) ((expI N sn e * rho) mod N)) (mul N (e * x + alpha) K)
    = add N (mul N e (add N (mul N x K) (encval N y sn))) (add N (encval N beta rho) (mul N alpha K)).
  Proof.
    intros HK Hsn Hrho. rewrite enc_linear by assumption.
    unfold add, mul.
    rewrite (expI_mulmod_base (N * N) (expI (N * N) K x) (encval N y sn) e)
      by (try apply unit_expI; try apply unit_encval; assumption).
    rewrite expI_expI by assumption.
    rewrite (expI_add (N * N) K (e * x) alpha) by assumption.
    replace (x * e) with (e * x) by ring.
    modring (N * N) nn0.
  Qed.

  (* ((e x + alpha) (.) C) w^N = e (.) ((x (.) C) rho^N) (+) ((alpha (.) C) r^N),  w = r rho^e *)
  Lemma rand_linear C e x alpha rho r : unit (N * N) C -> unit N rho -> unit N r ->
    randomize N (mul N (e * x + alpha) C) ((expI N rho e * r) mod N)
    = add N (mul N e (randomize N (mul N x C) rho)) (randomize N (mul N alpha C) r).
  Proof.
    intros HC Hrho Hr. unfold randomize, add, mul. fold (iota N ((expI N rho e * r) mod N)) (iota N rho) (iota N r).
    rewrite iota_resp_nonce by assumption.
    rewrite (expI_mulmod_base (N * N) (expI (N * N) C x) (iota N rho) e)
      by (try apply unit_expI; try apply unit_iota; try assumption; lia).
    rewrite expI_expI by assumption.
    rewrite (expI_add (N * N) C (e * x) alpha) by assumption.
    replace (x * e) with (e * x) by ring.
    modring (N * N) nn0.
  Qed.

  (* zknth: (alpha rho^e)^N = (rho^N)^e alpha^N *)
  Lemma nth_linear rho alpha e : unit N rho -> unit N alpha ->
    iota N ((expI N rho e * alpha) mod N) = (expI (N * N) (iota N rho) e * iota N alpha) mod (N * N).
  Proof. apply iota_resp_nonce. Qed.
End PaillierShapes.
