(* ZKProofs.v -- lemmas about Model/ZK.v (C10).
   A. range predicates (TrueLen) and the slack of the masked responses
   B. the unit group of Z/n as a Z-module: [expI n x k] is a homomorphism in k, multiplicative in x, composes,
      and lifts along r |-> r^N from (Z/N)* to (Z/N^2)*   (no primality of the factors is needed anywhere)
   C. the recurring verification shapes: Pedersen check, Paillier "encryption is linear", affine relation,
      randomization, N-th powers, zkfac's relation, zkprm's relation
   D. completeness, range slack, range enforcement per system
   E. injectivity of the Fiat-Shamir transcript as a function of (statement, commitment) *)
From Coq Require Import String.
From Coq Require Import ZArith Znumtheory Zpow_facts Lia List Bool NArith Setoid Morphisms.
From MPS Require Import Model.Bytes Model.Framing Model.Paillier Model.ZK.
From MPS Require Import Proofs.BytesProofs Proofs.FramingProofs Proofs.PaillierProofs.
From MPS Require Proofs.RefSigProofs.
Import ListNotations.
Local Open Scope Z_scope.

(* ================================================================================================ *)
(* A. ranges                                                                                        *)
(* ================================================================================================ *)

Lemma truelen_nonneg z : 0 <= truelen z.
Proof. destruct z; cbn [truelen]; try lia; pose proof (Z.log2_nonneg (Z.abs (Zpos p))); pose proof (Z.log2_nonneg (Z.abs (Zneg p))); lia. Qed.

(* TrueLen z <= k  iff  |z| < 2^k *)
Lemma truelen_le_iff z k : 0 <= k -> (truelen z <= k <-> Z.abs z < 2 ^ k).
Proof.
  intro Hk. destruct (Z.eq_dec z 0) as [->|Hz].
  - cbn [truelen Z.abs]. split; intro; [apply Z.pow_pos_nonneg; lia | lia].
  - assert (Ha : 0 < Z.abs z) by lia.
    assert (E : truelen z = Z.log2 (Z.abs z) + 1) by (destruct z; [lia | reflexivity | reflexivity]).
    rewrite E. split; intro H.
    + apply Z.log2_lt_pow2; lia.
    + apply Z.log2_lt_pow2 in H; lia.
Qed.

Lemma in_leps_iff z : in_leps z = true <-> Z.abs z < 2 ^ 768.
Proof. unfold in_leps, zk_LEps. rewrite Z.leb_le. apply truelen_le_iff. lia. Qed.
Lemma in_lprimeeps_iff z : in_lprimeeps z = true <-> Z.abs z < 2 ^ 1792.
Proof. unfold in_lprimeeps, zk_LPrimeEps. rewrite Z.leb_le. apply truelen_le_iff. lia. Qed.
Lemma in_leps1rootn_iff z : in_leps1rootn z = true <-> Z.abs z < 2 ^ 1793.
Proof.
  unfold in_leps1rootn, zk_LEps, zk_BitsN. rewrite Z.leb_le.
  change (1 + 768 + 2048 / 2) with 1793. apply truelen_le_iff. lia.
Qed.

Lemma zk_bounded_iff z : zk_bounded z = true <-> Z.abs z < 2 ^ 4865.
Proof.
  unfold zk_bounded, zk_LEps, zk_BitsN. rewrite Z.leb_le. change (1 + 768 + 2 * 2048) with 4865. apply truelen_le_iff. lia.
Qed.
Lemma truelen_bounded z k : truelen z <= k -> k <= 4865 -> zk_bounded z = true.
Proof. intros H1 H2. unfold zk_bounded, zk_LEps, zk_BitsN. apply Z.leb_le. change (1 + 768 + 2 * 2048) with 4865. lia. Qed.
Lemma in_leps_bounded z : in_leps z = true -> zk_bounded z = true.
Proof. unfold in_leps, zk_LEps. rewrite Z.leb_le. intro H. apply (truelen_bounded z 768); lia. Qed.
Lemma in_lprimeeps_bounded z : in_lprimeeps z = true -> zk_bounded z = true.
Proof. unfold in_lprimeeps, zk_LPrimeEps. rewrite Z.leb_le. intro H. apply (truelen_bounded z 1792); lia. Qed.
Lemma in_leps1rootn_bounded z : in_leps1rootn z = true -> zk_bounded z = true.
Proof.
  unfold in_leps1rootn, zk_LEps, zk_BitsN. rewrite Z.leb_le. change (1 + 768 + 2048 / 2) with 1793.
  intro H. apply (truelen_bounded z 1793); lia.
Qed.
Lemma in_plaintext_iff n m : in_plaintext n m = true <-> Z.abs m <= n / 2.
Proof. unfold in_plaintext. apply Z.leb_le. Qed.

(* the masked response e*x + alpha stays in range whenever the mask leaves room for |e|*|x| *)
Lemma mask_slack B E X e x alpha :
  0 <= E -> 0 <= X -> Z.abs e <= E -> Z.abs x <= X -> Z.abs alpha < B - E * X -> Z.abs (e * x + alpha) < B.
Proof.
  intros HE HX He Hx Ha.
  assert (Z.abs (e * x) <= E * X) by (rewrite Z.abs_mul; nia).
  pose proof (Z.abs_triangle (e * x) alpha). lia.
Qed.

(* ================================================================================================ *)
(* B. units modulo n                                                                                *)
(* ================================================================================================ *)

Definition unit (n x : Z) : Prop := Z.gcd x n = 1.

Lemma cancel_mod n a b c : 1 < n -> unit n c -> (a * c) mod n = (b * c) mod n -> a mod n = b mod n.
Proof.
  intros Hn Hc H. pose proof (modinv_spec n c Hn Hc) as Hi.
  assert (E : forall u, (u * c * modinv n c) mod n = u mod n).
  { intro u. replace (u * c * modinv n c) with (u * (modinv n c * c)) by ring.
    rewrite <- Z.mul_mod_idemp_r, Hi, Z.mul_1_r by lia. reflexivity. }
  rewrite <- (E a), <- (E b). rewrite <- (Z.mul_mod_idemp_l (a * c)), H, Z.mul_mod_idemp_l by lia. reflexivity.
Qed.

Lemma unit_mulmod n a b : 0 < n -> unit n a -> unit n b -> unit n ((a * b) mod n).
Proof. intros Hn Ha Hb. unfold unit. rewrite gcd_mod_l by lia. apply unit_mul; assumption. Qed.

Lemma unit_powmod n a k : 0 < n -> unit n a -> unit n (powmod n a k).
Proof.
  intros Hn Ha. unfold unit. destruct (Z.lt_ge_cases k 0) as [Hk|Hk].
  - destruct k; try lia. cbn [powmod]. rewrite gcd_mod_l by lia. apply Z.gcd_1_l.
  - rewrite powmod_spec, gcd_mod_l by lia. apply unit_pow; assumption.
Qed.

Lemma unit_expI n x k : 1 < n -> unit n x -> unit n (expI n x k).
Proof. intros. apply expI_unit; assumption. Qed.

Lemma unit_1 n : unit n 1.
Proof. apply Z.gcd_1_l. Qed.

(* the characterisation used for every identity: multiplied by enough positive powers, expI is a plain power *)
Lemma expI_char n x e m : 1 < n -> unit n x -> 0 <= m -> 0 <= e + m ->
  (expI n x e * x ^ m) mod n = x ^ (e + m) mod n.
Proof.
  intros Hn Hx Hm Hem. destruct (Z.lt_ge_cases e 0) as [He|He].
  - destruct (expI_neg n x e Hn Hx He) as [_ [_ Hinv]].
    replace m with (- e + (e + m)) at 1 by lia. rewrite Z.pow_add_r by lia.
    replace (expI n x e * (x ^ (- e) * x ^ (e + m))) with ((expI n x e * x ^ (- e)) * x ^ (e + m)) by ring.
    rewrite <- Z.mul_mod_idemp_l, Hinv, Z.mul_1_l by lia. reflexivity.
  - rewrite expI_nonneg by lia. rewrite Z.mul_mod_idemp_l by lia.
    rewrite <- Z.pow_add_r by lia. reflexivity.
Qed.

Lemma expI_small n x e : 0 < n -> expI n x e mod n = expI n x e.
Proof. intro Hn. apply Z.mod_small. apply expI_range. assumption. Qed.

Lemma expI_0 n x : 1 < n -> expI n x 0 = 1.
Proof. intro Hn. rewrite expI_nonneg by lia. rewrite Z.pow_0_r. apply Z.mod_small. lia. Qed.

Lemma expI_add n x a b : 1 < n -> unit n x ->
  expI n x (a + b) = (expI n x a * expI n x b) mod n.
Proof.
  intros Hn Hx. rewrite <- (expI_small n x (a + b)) by lia.
  apply (cancel_mod n _ _ (x ^ (Z.abs a + Z.abs b))); [assumption | apply unit_pow; [lia | assumption] |].
  rewrite expI_char by (try assumption; lia).
  rewrite (Z.pow_add_r x (Z.abs a) (Z.abs b)) by lia.
  replace (expI n x a * expI n x b * (x ^ Z.abs a * x ^ Z.abs b))
    with ((expI n x a * x ^ Z.abs a) * (expI n x b * x ^ Z.abs b)) by ring.
  rewrite Z.mul_mod by lia. rewrite !expI_char by (try assumption; lia). rewrite <- Z.mul_mod by lia.
  rewrite <- Z.pow_add_r by lia. f_equal. f_equal. ring.
Qed.

Lemma expI_mul_base n x y e : 1 < n -> unit n x -> unit n y ->
  expI n (x * y) e = (expI n x e * expI n y e) mod n.
Proof.
  intros Hn Hx Hy. rewrite <- (expI_small n (x * y) e) by lia.
  apply (cancel_mod n _ _ ((x * y) ^ Z.abs e)); [assumption | apply unit_pow; [lia | apply unit_mul; assumption] |].
  rewrite expI_char by (try apply unit_mul; try assumption; lia).
  rewrite (Z.pow_mul_l x y (Z.abs e)).
  replace (expI n x e * expI n y e * (x ^ Z.abs e * y ^ Z.abs e))
    with ((expI n x e * x ^ Z.abs e) * (expI n y e * y ^ Z.abs e)) by ring.
  rewrite Z.mul_mod by lia. rewrite !expI_char by (try assumption; lia). rewrite <- Z.mul_mod by lia.
  now rewrite Z.pow_mul_l.
Qed.

Lemma powmod_base_mod n x e : 0 < n -> powmod n (x mod n) e = powmod n x e.
Proof.
  intro Hn. destruct e as [|p|p]; cbn [powmod]; try reflexivity. rewrite Z.mod_mod by lia. reflexivity.
Qed.

Lemma expI_base_mod n x e : 0 < n -> expI n (x mod n) e = expI n x e.
Proof. intro Hn. unfold expI. rewrite powmod_base_mod by assumption. reflexivity. Qed.

Lemma expI_pow_nonneg n x a k : 1 < n -> unit n x -> 0 <= k ->
  (expI n x a) ^ k mod n = expI n x (a * k).
Proof.
  intros Hn Hx Hk. pattern k. apply natlike_ind; [| | assumption].
  - rewrite Z.pow_0_r, Z.mul_0_r, expI_0 by lia. apply Z.mod_small. lia.
  - intros j Hj IH. rewrite Z.pow_succ_r by assumption.
    replace (a * Z.succ j) with (a + a * j) by lia. rewrite expI_add by assumption.
    rewrite <- IH. rewrite Z.mul_mod_idemp_r by lia. reflexivity.
Qed.

Lemma expI_expI n x a b : 1 < n -> unit n x -> expI n (expI n x a) b = expI n x (a * b).
Proof.
  intros Hn Hx. pose proof (unit_expI n x a Hn Hx) as Hy.
  destruct (Z.lt_ge_cases b 0) as [Hb|Hb].
  - rewrite expI_neg_def by assumption. rewrite powmod_spec by lia.
    rewrite expI_pow_nonneg by (try assumption; lia).
    apply modinv_unique; [assumption | apply unit_expI; assumption | apply expI_range; lia |].
    rewrite <- expI_add by assumption. replace (a * b + a * - b) with 0 by ring. apply expI_0. assumption.
  - rewrite (expI_nonneg n (expI n x a)) by lia. apply expI_pow_nonneg; assumption.
Qed.

Lemma expI_mulmod_base n x y e : 1 < n -> unit n x -> unit n y ->
  expI n ((x * y) mod n) e = (expI n x e * expI n y e) mod n.
Proof. intros. rewrite expI_base_mod by lia. apply expI_mul_base; assumption. Qed.

(* ---- the generator 1+N and the N-th power map (Z/N)* -> (Z/N^2)* ---- *)
Lemma unit_g N : 0 < N -> unit (N * N) (N + 1).
Proof.
  intro HN. apply unit_sq. unfold unit. replace (N + 1) with (1 + 1 * N) by ring.
  rewrite Z.gcd_comm, Z.gcd_add_mult_diag_r. apply Z.gcd_1_r.
Qed.

Definition iota (N r : Z) : Z := powmod (N * N) r N.

Lemma unit_iota N r : 0 < N -> unit N r -> unit (N * N) (iota N r).
Proof. intros HN Hr. apply unit_powmod; [nia|]. apply unit_sq. assumption. Qed.

Lemma iota_mulmod N a b : 0 < N -> iota N ((a * b) mod N) = (iota N a * iota N b) mod (N * N).
Proof.
  intro HN. unfold iota. rewrite !powmod_spec by nia.
  rewrite (pow_n_lift N ((a * b) mod N) (a * b)) by (try rewrite Z.mod_mod; lia).
  rewrite Z.pow_mul_l. rewrite <- Z.mul_mod by nia. reflexivity.
Qed.

Lemma iota_expI N r e : 1 < N -> unit N r -> iota N (expI N r e) = expI (N * N) (iota N r) e.
Proof.
  intros HN Hr. assert (HNN : 1 < N * N) by nia. unfold iota.
  destruct (Z.lt_ge_cases e 0) as [He|He].
  - rewrite (expI_neg_def (N * N)) by assumption.
    symmetry. apply modinv_unique; [assumption | | apply powmod_range; lia |].
    + apply unit_powmod; [lia|]. apply unit_powmod; [lia|]. apply unit_sq. assumption.
    + rewrite !powmod_spec by lia. rewrite Z.mul_mod_idemp_l by lia.
      rewrite <- Zpower_mod by lia. rewrite Z.mul_mod_idemp_r by lia.
      rewrite <- (Z.pow_mul_r r N (- e)) by lia. rewrite (Z.mul_comm N (- e)), Z.pow_mul_r by lia.
      rewrite <- Z.pow_mul_l.
      rewrite (pow_n_lift N (expI N r e * r ^ (- e)) 1).
      * rewrite Z.pow_1_l by lia. apply Z.mod_small. lia.
      * lia.
      * destruct (expI_neg N r e HN Hr He) as [_ [_ Hinv]]. rewrite Hinv. symmetry. apply Z.mod_small. lia.
  - rewrite !expI_nonneg by lia. rewrite !powmod_spec by lia.
    rewrite (pow_n_lift N (r ^ e mod N) (r ^ e)) by (try rewrite Z.mod_mod; lia).
    rewrite <- Zpower_mod by lia.
    rewrite <- !Z.pow_mul_r by lia. f_equal. f_equal. ring.
Qed.

(* ================================================================================================ *)
(* C. verification shapes                                                                           *)
(* ================================================================================================ *)

(* strip the inner reductions of a product under [mod n]: congruence modulo n as a setoid *)
Definition eqmod (n a b : Z) : Prop := a mod n = b mod n.
Lemma eqmod_equiv n : Equivalence (eqmod n).
Proof. split; unfold eqmod; [intro; reflexivity | intros x y; auto | intros x y z; congruence]. Qed.
#[global] Existing Instance eqmod_equiv.
#[global] Instance eqmod_mul n : Proper (eqmod n ==> eqmod n ==> eqmod n) Z.mul.
Proof.
  intros a a' Ha b b' Hb. unfold eqmod in *. destruct (Z.eq_dec n 0) as [->|Hn].
  - rewrite !Zmod_0_r in *. subst. reflexivity.
  - rewrite Z.mul_mod, Ha, Hb, <- Z.mul_mod by assumption. reflexivity.
Qed.
#[global] Instance eqmod_opp n : Proper (eqmod n ==> eqmod n) Z.opp.
Proof.
  intros a a' Ha. unfold eqmod in *. destruct (Z.eq_dec n 0) as [->|Hn].
  - rewrite !Zmod_0_r in *. subst. reflexivity.
  - rewrite <- (opp_mod_idemp a), <- (opp_mod_idemp a'), Ha. reflexivity.
Qed.
Lemma eqmod_mod n a : eqmod n (a mod n) a.
Proof. unfold eqmod. destruct (Z.eq_dec n 0) as [->|Hn]; [now rewrite !Zmod_0_r|]. apply Z.mod_mod. assumption. Qed.
Lemma eqmod_of_eq n a b : a = b -> eqmod n a b.
Proof. intros ->. reflexivity. Qed.
Lemma eqmod_elim n a b : eqmod n a b -> a mod n = b mod n.
Proof. exact (fun H => H). Qed.
Global Opaque eqmod.

Ltac modring n H :=
  apply (eqmod_elim n); rewrite ?eqmod_mod; apply eqmod_of_eq; ring.

Lemma valid_mod_iff n x : 0 < n -> (valid_mod n x = true <-> 0 <= x < n /\ unit n x).
Proof.
  intro Hn. unfold valid_mod, unit. rewrite gcd_mod_spec by assumption.
  rewrite !andb_true_iff, Z.leb_le, Z.ltb_lt, Z.eqb_eq. tauto.
Qed.

Lemma valid_mod_unit_mod n x : 0 < n -> unit n x -> valid_mod n (x mod n) = true.
Proof.
  intros Hn Hx. apply valid_mod_iff; [assumption|]. split; [apply Z.mod_pos_bound; assumption|].
  unfold unit. rewrite gcd_mod_l by assumption. exact Hx.
Qed.

Lemma validate_ct_unit_mod n x : 1 < n -> unit (n * n) x -> validate_ct n (x mod (n * n)) = true.
Proof.
  intros Hn Hx. assert (Hnn : 1 < n * n) by nia.
  unfold validate_ct. rewrite gcd_mod_spec by lia.
  pose proof (Z.mod_pos_bound x (n * n) ltac:(lia)) as Hb.
  rewrite gcd_mod_l by lia. unfold unit in Hx. rewrite Hx.
  destruct (Z.leb_spec 0 (x mod (n * n))); [|lia]. destruct (Z.ltb_spec (x mod (n * n)) (n * n)); [|lia]. reflexivity.
Qed.

(* ---- Pedersen ---- *)
Section Pedersen.
  Variables n s t : Z.
  Hypothesis Hn : 1 < n.
  Hypothesis Hs : unit n s.
  Hypothesis Ht : unit n t.
  Let n0 : n <> 0. Proof. lia. Qed.

  Lemma unit_ped_commit x y : unit n (ped_commit n s t x y).
  Proof. apply unit_mulmod; [lia | apply unit_expI; assumption | apply unit_expI; assumption]. Qed.

  Lemma valid_ped_commit x y : valid_mod n (ped_commit n s t x y) = true.
  Proof. unfold ped_commit. apply valid_mod_unit_mod; [lia|]. apply unit_mul; apply unit_expI; assumption. Qed.

  (* s^(e x + a) t^(e y + b) = (s^a t^b) (s^x t^y)^e *)
  Lemma ped_complete a b x y e :
    zk_bounded (e * x + a) = true -> zk_bounded (e * y + b) = true ->
    ped_verify n s t (e * x + a) (e * y + b) e (ped_commit n s t a b) (ped_commit n s t x y) = true.
  Proof.
    intros Hb1 Hb2. unfold ped_verify. rewrite Hb1, Hb2, !valid_ped_commit. cbn [andb]. apply Z.eqb_eq.
    unfold ped_commit.
    rewrite expI_mulmod_base by (try apply unit_expI; assumption).
    rewrite !expI_expI by assumption.
    rewrite (expI_add n s (e * x) a), (expI_add n t (e * y) b) by assumption.
    replace (x * e) with (e * x) by ring. replace (y * e) with (e * y) by ring.
    modring n n0.
  Qed.

  (* anything that fails the validity of the commitments is refused *)
  Lemma ped_verify_valid a b e S T : ped_verify n s t a b e S T = true -> valid_mod n S = true /\ valid_mod n T = true.
  Proof. unfold ped_verify. rewrite !andb_true_iff. tauto. Qed.

  (* oversized exponents are refused *)
  Lemma ped_verify_bounded a b e S T : ped_verify n s t a b e S T = true -> zk_bounded a = true /\ zk_bounded b = true.
  Proof. unfold ped_verify. rewrite !andb_true_iff. tauto. Qed.
End Pedersen.

(* ---- Paillier ---- *)
Definition encval (N m r : Z) : Z := (expI (N * N) (N + 1) m * iota N r) mod (N * N).

Lemma enc_encval N m r : Z.abs m <= N / 2 -> enc N m r = Some (encval N m r).
Proof. intro H. unfold enc, encval, iota. cbv zeta. destruct (Z.gtb_spec (Z.abs m) (N / 2)); [lia | reflexivity]. Qed.

Lemma enc_refuses_big N m r : N / 2 < Z.abs m -> enc N m r = None.
Proof. intro H. unfold enc. cbv zeta. destruct (Z.gtb_spec (Z.abs m) (N / 2)); [reflexivity | lia]. Qed.

Lemma enc_eq_refuses N m r rhs k : N / 2 < Z.abs m -> enc_eq N m r rhs k = None.
Proof. intro H. unfold enc_eq. rewrite enc_refuses_big by assumption. reflexivity. Qed.

Lemma enc_eq_ok N m r rhs k : Z.abs m <= N / 2 -> encval N m r = rhs -> enc_eq N m r rhs k = k.
Proof. intros H E. unfold enc_eq. rewrite enc_encval by assumption. rewrite E, Z.eqb_refl. reflexivity. Qed.

Section PaillierShapes.
  Variable N : Z.
  Hypothesis HN : 1 < N.
  Let NN := N * N.
  Let HNN : 1 < N * N. Proof. nia. Qed.
  Let nn0 : N * N <> 0. Proof. nia. Qed.
  Let Hg : unit (N * N) (N + 1). Proof. apply unit_g. lia. Qed.

  Lemma unit_encval m r : unit N r -> unit (N * N) (encval N m r).
  Proof.
    intro Hr. unfold encval. apply unit_mulmod; [lia | apply unit_expI; assumption | apply unit_iota; [lia | assumption]].
  Qed.

  Lemma validate_encval m r : unit N r -> validate_ct N (encval N m r) = true.
  Proof.
    intro Hr. unfold encval. apply validate_ct_unit_mod; [assumption|].
    apply unit_mul; [apply unit_expI; assumption | apply unit_iota; [lia | assumption]].
  Qed.

  (* e (.) c for a unit c, and (+) *)
  Lemma unit_mul_ct e c : unit (N * N) c -> unit (N * N) (mul N e c).
  Proof. intro Hc. unfold mul. apply unit_expI; assumption. Qed.
  Lemma unit_add_ct c1 c2 : unit (N * N) c1 -> unit (N * N) c2 -> unit (N * N) (add N c1 c2).
  Proof. intros H1 H2. unfold add. apply unit_mulmod; [lia | assumption | assumption]. Qed.
  Lemma unit_randomize c r : unit (N * N) c -> unit N r -> unit (N * N) (randomize N c r).
  Proof. intros Hc Hr. unfold randomize. apply unit_mulmod; [lia | assumption | apply unit_iota; [lia | assumption]]. Qed.
  Lemma validate_unit_ct c : unit (N * N) c -> validate_ct N (c mod (N * N)) = true.
  Proof. apply validate_ct_unit_mod. assumption. Qed.
  Lemma add_small c1 c2 : add N c1 c2 mod (N * N) = add N c1 c2.
  Proof. unfold add. apply Z.mod_mod. lia. Qed.
  Lemma randomize_small c r : randomize N c r mod (N * N) = randomize N c r.
  Proof. unfold randomize. apply Z.mod_mod. lia. Qed.

  (* the masked nonce r rho^e mod N *)
  Lemma unit_resp_nonce rho r e : unit N rho -> unit N r -> unit N ((expI N rho e * r) mod N).
  Proof. intros H1 H2. apply unit_mulmod; [lia | apply unit_expI; assumption | assumption]. Qed.
  Lemma valid_resp_nonce rho r e : unit N rho -> unit N r -> valid_mod N ((expI N rho e * r) mod N) = true.
  Proof. intros H1 H2. apply valid_mod_unit_mod; [lia|]. apply unit_mul; [apply unit_expI; assumption | assumption]. Qed.

  Lemma iota_resp_nonce rho r e : unit N rho -> unit N r ->
    iota N ((expI N rho e * r) mod N) = (expI (N * N) (iota N rho) e * iota N r) mod (N * N).
  Proof. intros H1 H2. rewrite iota_mulmod by lia. rewrite iota_expI by assumption. reflexivity. Qed.

  (* e (.) Enc(k; rho) as a product *)
  Lemma mul_encval e k rho : unit N rho ->
    mul N e (encval N k rho) = (expI (N * N) (N + 1) (k * e) * expI (N * N) (iota N rho) e) mod (N * N).
  Proof.
    intro Hr. unfold mul, encval.
    rewrite expI_mulmod_base by (try apply unit_expI; try apply unit_iota; try assumption; lia).
    rewrite expI_expI by assumption. reflexivity.
  Qed.

  (* Enc(e k + alpha; r rho^e) = (e (.) Enc(k; rho)) (+) Enc(alpha; r) *)
  Lemma enc_linear e k rho alpha r : unit N rho -> unit N r ->
    encval N (e * k + alpha) ((expI N rho e * r) mod N) = add N (mul N e (encval N k rho)) (encval N alpha r).
  Proof.
    intros Hrho Hr. unfold add. rewrite mul_encval by assumption. unfold encval.
    rewrite iota_resp_nonce by assumption.
    rewrite (expI_add (N * N) (N + 1) (e * k) alpha) by assumption.
    replace (k * e) with (e * k) by ring.
    modring (N * N) nn0.
  Qed.

  (* Enc(e y + beta; rho s^e) (+) (e x + alpha) (.) K = e (.) ((x (.) K) (+) Enc(y; s)) (+) (Enc(beta; rho) (+) alpha (.) K) *)
  Lemma aff_linear K e x y sn alpha beta rho : unit (N * N) K -> unit N sn -> unit N rho ->
    add N (encval N (e * y + beta) ((expI N sn e * rho) mod N)) (mul N (e * x + alpha) K)
    = add N (mul N e (add N (mul N x K) (encval N y sn))) (add N (encval N beta rho) (mul N alpha K)).
  Proof.
    intros HK Hsn Hrho. rewrite enc_linear by assumption.
    unfold add, mul.
    rewrite (expI_mulmod_base (N * N) (expI (N * N) K x) (encval N y sn) e)
      by (try apply unit_expI; try apply unit_encval; assumption).
    rewrite expI_expI by assumption.
    rewrite (expI_add (N * N) K (e * x) alpha) by assumption.
    replace (x * e) with (e * x) by ring.
    modring (N * N) nn0.
  Qed.

  (* ((e x + alpha) (.) C) w^N = e (.) ((x (.) C) rho^N) (+) ((alpha (.) C) r^N),  w = r rho^e *)
  Lemma rand_linear C e x alpha rho r : unit (N * N) C -> unit N rho -> unit N r ->
    randomize N (mul N (e * x + alpha) C) ((expI N rho e * r) mod N)
    = add N (mul N e (randomize N (mul N x C) rho)) (randomize N (mul N alpha C) r).
  Proof.
    intros HC Hrho Hr. unfold randomize, add, mul. fold (iota N ((expI N rho e * r) mod N)) (iota N rho) (iota N r).
    rewrite iota_resp_nonce by assumption.
    rewrite (expI_mulmod_base (N * N) (expI (N * N) C x) (iota N rho) e)
      by (try apply unit_expI; try apply unit_iota; try assumption; lia).
    rewrite expI_expI by assumption.
    rewrite (expI_add (N * N) C (e * x) alpha) by assumption.
    replace (x * e) with (e * x) by ring.
    modring (N * N) nn0.
  Qed.

  (* zknth: (alpha rho^e)^N = (rho^N)^e alpha^N *)
  Lemma nth_linear rho alpha e : unit N rho -> unit N alpha ->
    iota N ((expI N rho e * alpha) mod N) = (expI (N * N) (iota N rho) e * iota N alpha) mod (N * N).
  Proof. apply iota_resp_nonce. Qed.
End PaillierShapes.

(* ================================================================================================ *)
(* D. the proof systems                                                                             *)
(* ================================================================================================ *)

Lemma enc_Some_inv N m r c : enc N m r = Some c -> c = encval N m r /\ Z.abs m <= N / 2.
Proof.
  unfold enc. cbv zeta. destruct (Z.gtb_spec (Z.abs m) (N / 2)) as [Hgt|Hle]; [discriminate|].
  intro HS. injection HS as <-. split; [reflexivity | lia].
Qed.

Lemma half_bound k N z : 0 <= k -> 2 ^ (k + 1) <= N -> Z.abs z < 2 ^ k -> Z.abs z <= N / 2.
Proof.
  intros Hk HN Hz. rewrite Z.pow_add_r, Z.pow_1_r in HN by lia.
  assert (2 ^ k <= N / 2) by (apply Z.div_le_lower_bound; lia). lia.
Qed.

(* ---- systems without group elements ---- *)
(* ---------------------------------------------------------------- nth *)
Lemma valid_iota N r : 1 < N -> unit N r -> valid_mod (N * N) (iota N r) = true.
Proof.
  intros HN Hr. apply valid_mod_iff; [nia|]. split; [apply powmod_range; nia | apply unit_iota; [lia | assumption]].
Qed.

Theorem nth_complete n rho alpha e :
  1 < n -> unit n rho -> unit n alpha ->
  nth_verify n (iota n rho) (nth_commit n alpha) (nth_respond n rho alpha e) e = Some true.
Proof.
  intros Hn Hrho Ha. unfold nth_verify, nth_commit, nth_respond.
  rewrite valid_resp_nonce by assumption. fold (iota n alpha). rewrite valid_iota by assumption. cbn [guard].
  fold (iota n ((expI n rho e * alpha) mod n)). rewrite nth_linear by assumption.
  rewrite Z.eqb_refl. reflexivity.
Qed.

(* ---------------------------------------------------------------- enc *)
Theorem enc_complete nh s t n0 k rho alpha r mu gamma e K S A C z1 z2 z3 :
  1 < nh -> unit nh s -> unit nh t -> 1 < n0 -> 2 ^ 769 <= n0 -> unit n0 rho -> unit n0 r ->
  enc n0 k rho = Some K ->
  enc_commit nh s t n0 k alpha r mu gamma = Some (S, A, C) ->
  enc_respond n0 k rho alpha r mu gamma e = (z1, z2, z3) ->
  in_leps z1 = true -> zk_bounded z3 = true ->
  enc_verify nh s t n0 K S A C z1 z2 z3 e = Some true.
Proof.
  intros Hnh Hs Ht Hn0 Hbig Hrho Hr HK Hcom Hresp Hrange Hb3.
  apply enc_Some_inv in HK as [-> _].
  unfold enc_commit in Hcom. destruct (enc n0 alpha r) as [A'|] eqn:EA; [|discriminate].
  apply enc_Some_inv in EA as [-> _]. injection Hcom as <- <- <-.
  unfold enc_respond in Hresp. injection Hresp as <- <- <-.
  unfold enc_verify. rewrite !valid_ped_commit, validate_encval, valid_resp_nonce, Hrange by assumption.
  rewrite ped_complete by (try assumption; apply in_leps_bounded; assumption). cbn [andb guard].
  apply enc_eq_ok.
  - apply (half_bound 768); [lia | exact Hbig | apply in_leps_iff; exact Hrange].
  - apply enc_linear; assumption.
Qed.

(* ---------------------------------------------------------------- mul *)
Lemma validate_randomize N c r : 1 < N -> unit (N * N) c -> unit N r -> validate_ct N (randomize N c r) = true.
Proof.
  intros HN Hc Hr. unfold randomize. apply validate_ct_unit_mod; [assumption|].
  apply unit_mul; [assumption | apply unit_iota; [lia | assumption]].
Qed.
Lemma validate_add N c1 c2 : 1 < N -> unit (N * N) c1 -> unit (N * N) c2 -> validate_ct N (add N c1 c2) = true.
Proof. intros HN H1 H2. unfold add. apply validate_ct_unit_mod; [assumption|]. apply unit_mul; assumption. Qed.

(* no range check on Z either *)
Theorem mul_complete n Y x rho rhox alpha r sn e X C A B z u v :
  1 < n -> unit (n * n) Y -> unit n rho -> unit n rhox -> unit n r -> unit n sn ->
  enc n x rhox = Some X ->
  C = randomize n (mul n x Y) rho ->
  mul_commit n Y alpha r sn = Some (A, B) ->
  mul_respond n x rho rhox alpha r sn e = (z, u, v) ->
  in_plaintext n z = true ->
  mul_verify n X Y C A B z u v e = Some true.
Proof.
  intros Hn HY Hrho Hrhox Hr Hsn HX -> Hcom Hresp Hz.
  apply enc_Some_inv in HX as [-> _].
  unfold mul_commit in Hcom. destruct (enc n alpha sn) as [B'|] eqn:EB; [|discriminate].
  apply enc_Some_inv in EB as [-> _]. injection Hcom as <- <-.
  unfold mul_respond in Hresp. injection Hresp as <- <- <-.
  unfold mul_verify. rewrite !valid_resp_nonce by assumption.
  rewrite validate_randomize by (try apply unit_mul_ct; assumption).
  rewrite validate_encval by assumption. rewrite Hz. cbn [andb guard].
  rewrite rand_linear by assumption. rewrite Z.eqb_refl. cbn [guard].
  apply enc_eq_ok; [apply in_plaintext_iff; exact Hz | apply enc_linear; assumption].
Qed.

(* ---------------------------------------------------------------- affp *)
Theorem affp_complete nh s t n1 n0 Kv x y sn rx r alpha beta rho rhox rhoy gamma m delta mu e
        Dv Fp Xp A Bx By E S F T z1 z2 z3 z4 w wx wy :
  1 < nh -> unit nh s -> unit nh t ->
  1 < n0 -> 2 ^ 1793 <= n0 -> 1 < n1 -> 2 ^ 1793 <= n1 ->
  unit (n0 * n0) Kv -> unit n0 sn -> unit n0 rho -> unit n1 rx -> unit n1 r -> unit n1 rhox -> unit n1 rhoy ->
  enc n0 y sn = Some Dv -> enc n1 y r = Some Fp -> enc n1 x rx = Some Xp ->
  affp_commit nh s t n1 n0 Kv x y alpha beta rho rhox rhoy gamma m delta mu = Some (A, Bx, By, E, S, F, T) ->
  affp_respond n1 n0 x y sn rx r alpha beta rho rhox rhoy gamma m delta mu e = (z1, z2, z3, z4, w, wx, wy) ->
  in_leps z1 = true -> in_lprimeeps z2 = true -> zk_bounded z3 = true -> zk_bounded z4 = true ->
  affp_verify nh s t n1 n0 Kv (add n0 (mul n0 x Kv) Dv) Fp Xp A Bx By E S F T z1 z2 z3 z4 w wx wy e = Some true.
Proof.
  intros Hnh Hs Ht Hn0 Hb0 Hn1 Hb1 HK Hsn Hrho Hrx Hr Hrhox Hrhoy HD HF HX Hcom Hresp Hr1 Hr2 Hbz3 Hbz4.
  apply enc_Some_inv in HD as [-> _]. apply enc_Some_inv in HF as [-> _]. apply enc_Some_inv in HX as [-> _].
  unfold affp_commit in Hcom.
  destruct (enc n0 beta rho) as [c|] eqn:E0; [|discriminate].
  destruct (enc n1 alpha rhox) as [Bx'|] eqn:E1; [|discriminate].
  destruct (enc n1 beta rhoy) as [By'|] eqn:E2; [|discriminate].
  apply enc_Some_inv in E0 as [-> _]. apply enc_Some_inv in E1 as [-> _]. apply enc_Some_inv in E2 as [-> _].
  injection Hcom as <- <- <- <- <- <- <-.
  unfold affp_respond in Hresp. injection Hresp as <- <- <- <- <- <- <-.
  assert (Hz2 : Z.abs (e * y + beta) <= n0 / 2)
    by (apply (half_bound 1792); [lia | exact Hb0 | apply in_lprimeeps_iff; exact Hr2]).
  assert (Hz2' : Z.abs (e * y + beta) <= n1 / 2)
    by (apply (half_bound 1792); [lia | exact Hb1 | apply in_lprimeeps_iff; exact Hr2]).
  assert (Hz1 : Z.abs (e * x + alpha) <= n1 / 2).
  { apply (half_bound 1792); [lia | exact Hb1 |]. apply in_leps_iff in Hr1.
    assert (2 ^ 768 < 2 ^ 1792) by (apply Z.pow_lt_mono_r; lia). lia. }
  unfold affp_verify. rewrite !valid_ped_commit by assumption.
  rewrite validate_add by (try apply unit_encval; try apply unit_mul_ct; assumption).
  rewrite !validate_encval by assumption.
  rewrite !valid_resp_nonce by assumption. rewrite Hr1, Hr2.
  cbn [andb guard]. rewrite enc_encval by exact Hz2.
  rewrite aff_linear by assumption. rewrite Z.eqb_refl. cbn [guard].
  rewrite enc_eq_ok; [| exact Hz1 | apply enc_linear; assumption].
  rewrite enc_eq_ok; [| exact Hz2' | apply enc_linear; assumption].
  rewrite !ped_complete by (try assumption; try (apply in_leps_bounded; assumption); apply in_lprimeeps_bounded; assumption).
  reflexivity.
Qed.

(* ---------------------------------------------------------------- fac *)
Lemma powmod_expI n x k : 0 < n -> 0 <= k -> powmod n x k = expI n x k.
Proof. intros Hn Hk. rewrite powmod_spec, expI_nonneg by assumption. reflexivity. Qed.

Lemma fac_relation nh s t pp qq alpha nu sigma r e :
  1 < nh -> unit nh s -> unit nh t -> 0 <= pp * qq ->
  let Q := ped_commit nh s t qq nu in
  (expI nh Q (e * pp + alpha) * expI nh t (e * (sigma - nu * pp) + r)) mod nh
  = (expI nh ((powmod nh s (pp * qq) * expI nh t sigma) mod nh) e * ((expI nh Q alpha * expI nh t r) mod nh)) mod nh.
Proof.
  intros Hnh Hs Ht Hpq Q. assert (n0 : nh <> 0) by lia.
  assert (HQ : unit nh Q) by (apply unit_ped_commit; assumption).
  transitivity ((expI nh s (pp * qq * e) * expI nh t (sigma * e + r) * expI nh Q alpha) mod nh).
  - rewrite (expI_add nh Q (e * pp) alpha) by assumption.
    unfold Q at 1, ped_commit.
    rewrite expI_mulmod_base by (try apply unit_expI; assumption).
    rewrite !expI_expI by assumption.
    replace (sigma * e + r) with (nu * (e * pp) + (e * (sigma - nu * pp) + r)) by ring.
    rewrite (expI_add nh t (nu * (e * pp))) by assumption.
    replace (qq * (e * pp)) with (pp * qq * e) by ring.
    modring nh n0.
  - rewrite powmod_expI by lia.
    rewrite expI_mulmod_base by (try apply unit_expI; assumption).
    rewrite !expI_expI by assumption.
    rewrite (expI_add nh t (sigma * e) r) by assumption.
    modring nh n0.
Qed.

Theorem fac_complete nh s t pp qq alpha beta mu nu sigma r x y e P Q A B T z1 z2 w1 w2 v :
  1 < nh -> unit nh s -> unit nh t -> 0 <= pp * qq ->
  fac_commit nh s t pp qq alpha beta mu nu r x y = (P, Q, A, B, T) ->
  fac_respond pp qq alpha beta mu nu sigma r x y e = (z1, z2, w1, w2, v) ->
  in_leps1rootn z1 = true -> in_leps1rootn z2 = true ->
  zk_bounded sigma = true -> zk_bounded w1 = true -> zk_bounded w2 = true -> zk_bounded v = true ->
  fac_verify (pp * qq) nh s t P Q A B T sigma z1 z2 w1 w2 v e = Some true.
Proof.
  intros Hnh Hs Ht Hpq Hcom Hresp H1 H2 Hbs Hbw1 Hbw2 Hbv.
  unfold fac_commit in Hcom. cbv zeta in Hcom. injection Hcom as <- <- <- <- <-.
  unfold fac_respond in Hresp. injection Hresp as <- <- <- <- <-.
  pose proof (in_leps1rootn_bounded _ H1) as Hbz1. pose proof (in_leps1rootn_bounded _ H2) as Hbz2.
  unfold fac_verify. rewrite !valid_ped_commit by assumption.
  rewrite (valid_mod_unit_mod nh) by (try lia; apply unit_mul; apply unit_expI; try assumption; apply unit_ped_commit; assumption).
  rewrite Hbs, Hbz1, Hbz2, Hbw1, Hbw2, Hbv.
  rewrite !ped_complete by assumption. cbn [andb guard]. cbv zeta.
  rewrite fac_relation by assumption. rewrite Z.eqb_refl, H1, H2. reflexivity.
Qed.

(* ---------------------------------------------------------------- prm *)
Lemma pow_mod_order n t phi k : 0 < n -> 0 < phi -> 0 <= k -> t ^ phi mod n = 1 mod n ->
  t ^ (k mod phi) mod n = t ^ k mod n.
Proof.
  intros Hn Hphi Hk Hord.
  rewrite (Z.div_mod k phi) at 2 by lia.
  pose proof (Z.mod_pos_bound k phi Hphi). pose proof (Z.div_pos k phi Hk Hphi).
  rewrite Z.pow_add_r, Z.pow_mul_r by lia.
  rewrite Z.mul_mod by lia.
  rewrite (Zpower_mod (t ^ phi)) by lia. rewrite Hord. rewrite <- Zpower_mod by lia. rewrite Z.pow_1_l by lia.
  rewrite <- Z.mul_mod by lia. rewrite Z.mul_1_l. reflexivity.
Qed.

Lemma valid_big_unit_mod n x : 1 < n -> unit n x -> valid_big n (x mod n) = true.
Proof.
  intros Hn Hx. unfold valid_big. rewrite gcd_mod_spec by lia. rewrite gcd_mod_l by lia.
  unfold unit in Hx. rewrite Hx. pose proof (Z.mod_pos_bound x n ltac:(lia)).
  destruct (Z.eq_dec (x mod n) 0) as [E|E].
  - exfalso. rewrite <- (gcd_mod_l x n) in Hx by lia. rewrite E, Z.gcd_0_l in Hx. lia.
  - destruct (Z.ltb_spec 0 (x mod n)); [|lia]. destruct (Z.ltb_spec (x mod n) n); [|lia]. reflexivity.
Qed.

Theorem prm_complete n t phi lambda :
  1 < n -> 0 < phi -> 0 <= lambda -> unit n t -> powmod n t phi = 1 ->
  let s := powmod n t lambda in
  ped_validate n s t = true ->
  forall al es, length al = length es -> Forall (fun a => 0 <= a) al ->
  Forall (fun a => a <> 1) (prm_commit n t al) ->
  Forall (fun z => valid_big n z = true) (prm_respond phi lambda al es) ->
  prm_verify n s t (prm_commit n t al) (prm_respond phi lambda al es) es = Some true.
Proof.
  intros Hn Hphi Hl Ht Hord s Hval al es Hlen Hpos Hne Hzs.
  unfold prm_verify. rewrite Hval. cbn [guard].
  assert (Hr : prm_rounds n s t (prm_commit n t al) (prm_respond phi lambda al es) es = true).
  { clear Hval. unfold prm_commit, prm_respond in *.
    revert es Hlen Hzs. induction al as [|a al IH]; intros [|e es] Hlen Hzs; try discriminate; [reflexivity|].
    cbn [map combine prm_rounds] in *.
    inversion Hpos as [|? ? Ha Hpos']; subst. inversion Hne as [|? ? Hne1 Hne']; subst.
    inversion Hzs as [|? ? Hz Hzs']; subst.
    rewrite IH by (try assumption; cbn in Hlen; lia).
    rewrite Hz. rewrite andb_true_r.
    assert (Hva : valid_big n (powmod n t a) = true)
      by (rewrite powmod_spec by lia; apply valid_big_unit_mod; [lia | apply unit_pow; assumption]).
    rewrite Hva. cbn [andb].
    destruct (Z.eqb_spec (powmod n t a) 1) as [E1|_]; [contradiction|]. cbn [negb andb].
    apply Z.eqb_eq. destruct e.
    - assert (Hord' : t ^ phi mod n = 1 mod n).
      { rewrite powmod_spec in Hord by lia. rewrite Hord. symmetry. apply Z.mod_small. lia. }
      pose proof (Z.mod_pos_bound (a + lambda) phi Hphi).
      rewrite powmod_spec by lia. rewrite pow_mod_order by (try assumption; lia).
      unfold s. rewrite !powmod_spec by lia. rewrite Z.pow_add_r by lia.
      rewrite <- Z.mul_mod by lia. reflexivity.
    - reflexivity. }
  assert (Hiv : forallb (valid_big n) (prm_commit n t al ++ prm_respond phi lambda al es) = true).
  { rewrite forallb_app. apply andb_true_iff. split.
    - unfold prm_commit. clear - Hn Ht Hpos. induction al as [|a al IH]; [reflexivity|]. cbn [map forallb].
      inversion Hpos as [|? ? Ha Hpos']; subst. rewrite IH by assumption. rewrite andb_true_r.
      rewrite powmod_spec by lia. apply valid_big_unit_mod; [lia | apply unit_pow; assumption].
    - apply forallb_forall. rewrite Forall_forall in Hzs. exact Hzs. }
  rewrite Hiv, Hr. reflexivity.
Qed.

Section Systems.
  Context {G : Type}.
  Variables (gadd : G -> G -> G) (gneg : G -> G) (gzero : G) (smul : Z -> G -> G).
  Variable q : Z.
  Hypothesis Hq : 1 < q.
  Hypothesis ML : RefSigProofs.module_laws q gadd gneg gzero smul.
  Variable geqb : G -> G -> bool.
  Hypothesis geqb_spec : forall a b, geqb a b = true <-> a = b.
  Variable gis_id : G -> bool.
  Variable gbase : G.

  Local Notation act := (ZK.act smul q).
  Local Notation "a +' b" := (gadd a b) (at level 50, left associativity).

  Let q0 : q <> 0. Proof. lia. Qed.

  Lemma act_smul s P : act s P = smul s P.
  Proof. unfold ZK.act. apply (RefSigProofs.ml_smul_mod _ _ _ _ _ ML). Qed.
  Lemma smul_cong a b P : a mod q = b mod q -> smul a P = smul b P.
  Proof.
    intro H. rewrite <- (RefSigProofs.ml_smul_mod _ _ _ _ _ ML a), <- (RefSigProofs.ml_smul_mod _ _ _ _ _ ML b), H.
    reflexivity.
  Qed.
  Lemma smul_add a b P : smul (a + b) P = smul a P +' smul b P.
  Proof. apply (RefSigProofs.ml_smul_add_l _ _ _ _ _ ML). Qed.
  Lemma smul_smul a b P : smul a (smul b P) = smul (a * b) P.
  Proof. symmetry. apply (RefSigProofs.ml_smul_mul _ _ _ _ _ ML). Qed.
  Lemma gadd_comm a b : a +' b = b +' a.
  Proof. apply (RefSigProofs.ml_add_comm _ _ _ _ _ ML). Qed.
  Lemma gadd_assoc a b c : a +' (b +' c) = a +' b +' c.
  Proof. apply (RefSigProofs.ml_add_assoc _ _ _ _ _ ML). Qed.
  Lemma geqb_refl a : geqb a a = true.
  Proof. apply geqb_spec. reflexivity. Qed.
  Lemma gadd_swap4 a b c d : a +' b +' (c +' d) = a +' c +' (b +' d).
  Proof.
    rewrite <- !gadd_assoc. f_equal. rewrite !gadd_assoc. f_equal. apply gadd_comm.
  Qed.

  (* the recurring group equation:  (e x + a).P = e.(x.P) + a.P, with the response reduced modulo q or not *)
  Lemma resp_eq_mod e x a P : act ((e * x + a) mod q) P = act e (act x P) +' act a P.
  Proof.
    rewrite !act_smul. rewrite (RefSigProofs.ml_smul_mod _ _ _ _ _ ML). rewrite smul_add, smul_smul. reflexivity.
  Qed.
  Lemma resp_eq e x a P : act (e * x + a) P = act e (act x P) +' act a P.
  Proof. rewrite !act_smul. rewrite smul_add, smul_smul. reflexivity. Qed.

  (* ---------------------------------------------------------------- sch *)
  Theorem sch_complete gen x a e :
    let X := act x gen in
    let C := sch_commit smul q gen a in
    let z := sch_respond q x a e in
    sc_zero q z = false -> gis_id C = false -> gis_id X = false ->
    sch_verify gadd smul geqb gis_id q gen X C z e = Some true.
  Proof.
    intros X C z Hz HC HX. unfold sch_verify. rewrite Hz, HC, HX. cbn [negb guard].
    unfold z, sch_respond, C, sch_commit, X. rewrite resp_eq_mod, geqb_refl. reflexivity.
  Qed.

  (* ---------------------------------------------------------------- log *)
  Theorem log_complete a b alpha beta e :
    let H := act b gbase in
    let X := act a gbase in
    let Y := act a H in
    let '(A, B, C) := log_commit smul gbase q H alpha beta in
    let '(z1, z2) := log_respond q a b alpha beta e in
    gis_id A = false -> gis_id B = false -> gis_id C = false ->
    sc_zero q z1 = false -> sc_zero q z2 = false ->
    log_verify gadd smul geqb gis_id gbase q H X Y A B C z1 z2 e = Some true.
  Proof.
    cbv zeta. unfold log_commit, log_respond. intros HA HB HC H1 H2.
    unfold log_verify. rewrite HA, HB, HC, H1, H2. cbn [orb negb guard].
    rewrite !resp_eq_mod, !geqb_refl. reflexivity.
  Qed.

  (* ---------------------------------------------------------------- elog *)
  Theorem elog_complete X H y lambda alpha m e :
    let L := act lambda gbase in
    let M := act y gbase +' act lambda X in
    let Y := act y H in
    let '(A, Np, B) := elog_commit gadd smul gbase q X H alpha m in
    let '(z, u) := elog_respond q y lambda alpha m e in
    gis_id A = false -> gis_id Np = false -> gis_id B = false ->
    sc_zero q z = false -> sc_zero q u = false ->
    elog_verify gadd smul geqb gis_id gbase q L M X H Y A Np B z u e = Some true.
  Proof.
    cbv zeta. unfold elog_commit, elog_respond. intros HA HN HB H1 H2.
    unfold elog_verify. rewrite HA, HN, HB, H1, H2. cbn [orb negb guard].
    rewrite !resp_eq_mod, !geqb_refl. cbn [guard].
    replace (act e (act y gbase +' act lambda X) +' (act m gbase +' act alpha X))
      with (act e (act y gbase) +' act m gbase +' (act e (act lambda X) +' act alpha X)).
    - rewrite geqb_refl. reflexivity.
    - rewrite (act_smul e (act y gbase +' act lambda X)), (RefSigProofs.ml_smul_add_r _ _ _ _ _ ML), <- !act_smul.
      apply gadd_swap4.
  Qed.

  (* ---------------------------------------------------------------- logstar *)
  Theorem logstar_complete nh s t n0 Gb x rho alpha r mu gamma e C S A Y D z1 z2 z3 :
    1 < nh -> unit nh s -> unit nh t -> 1 < n0 -> 2 ^ 769 <= n0 -> unit n0 rho -> unit n0 r ->
    enc n0 x rho = Some C ->
    logstar_commit smul q nh s t n0 Gb x alpha r mu gamma = Some (S, A, Y, D) ->
    enc_respond n0 x rho alpha r mu gamma e = (z1, z2, z3) ->
    gis_id Y = false ->
    in_leps z1 = true -> zk_bounded z3 = true ->
    logstar_verify gadd smul geqb gis_id q nh s t n0 C (act x Gb) Gb S A Y D z1 z2 z3 e = Some true.
  Proof.
    intros Hnh Hs Ht Hn0 Hbig Hrho Hr HC Hcom Hresp HY Hrange Hb3.
    apply enc_Some_inv in HC as [-> _].
    unfold logstar_commit in Hcom. destruct (enc n0 alpha r) as [A'|] eqn:EA; [|discriminate].
    apply enc_Some_inv in EA as [-> _]. injection Hcom as <- <- <- <-.
    unfold enc_respond in Hresp. injection Hresp as <- <- <-.
    unfold logstar_verify. rewrite !valid_ped_commit, validate_encval, HY, valid_resp_nonce, Hrange by assumption.
    rewrite ped_complete by (try assumption; apply in_leps_bounded; assumption). cbn [andb negb guard].
    rewrite enc_eq_ok.
    - rewrite resp_eq, geqb_refl. reflexivity.
    - apply (half_bound 768); [lia | exact Hbig | apply in_leps_iff; exact Hrange].
    - apply enc_linear; assumption.
  Qed.

  (* ---------------------------------------------------------------- dec *)
  Lemma dec_scalar_eq e y alpha :
    (e * y + alpha) mod q = (((e mod q) * ((y mod q) mod q)) mod q + (alpha mod q) mod q) mod q.
  Proof.
    rewrite !Z.mod_mod by lia. rewrite <- Z.mul_mod by lia. rewrite <- Z.add_mod by lia. reflexivity.
  Qed.

  (* no l+eps range check: the bounds are the plaintext range |z1| <= N/2 and the size bound of pedersen.Verify *)
  Theorem dec_complete nh s t n0 y rho alpha mu nu r e C S T A Gamma z1 z2 w :
    1 < nh -> unit nh s -> unit nh t -> 1 < n0 -> unit n0 rho -> unit n0 r ->
    enc n0 y rho = Some C ->
    dec_commit q nh s t n0 y alpha mu nu r = Some (S, T, A, Gamma) ->
    dec_respond n0 y rho alpha mu nu r e = (z1, z2, w) ->
    sc_zero q Gamma = false ->
    in_plaintext n0 z1 = true -> zk_bounded z1 = true -> zk_bounded z2 = true ->
    dec_verify q nh s t n0 C (y mod q) S T A Gamma z1 z2 w e = Some true.
  Proof.
    intros Hnh Hs Ht Hn0 Hrho Hr HC Hcom Hresp HG Hz1 Hb1 Hb2.
    apply enc_Some_inv in HC as [-> _].
    unfold dec_commit in Hcom. destruct (enc n0 alpha r) as [A'|] eqn:EA; [|discriminate].
    apply enc_Some_inv in EA as [-> _]. injection Hcom as <- <- <- <-.
    unfold dec_respond in Hresp. injection Hresp as <- <- <-.
    unfold dec_verify. rewrite HG, !valid_ped_commit, validate_encval, valid_resp_nonce, Hz1, ped_complete by assumption.
    cbn [andb negb guard].
    rewrite enc_eq_ok.
    - rewrite <- dec_scalar_eq, Z.eqb_refl. reflexivity.
    - apply in_plaintext_iff. exact Hz1.
    - apply enc_linear; assumption.
  Qed.

  (* ---------------------------------------------------------------- affg *)
  Theorem affg_complete nh s t n1 n0 Kv x y sn r alpha beta rho rhoy gamma m delta mu e
          Dv Fp A Bx By E S F T z1 z2 z3 z4 w wy :
    1 < nh -> unit nh s -> unit nh t ->
    1 < n0 -> 2 ^ 1793 <= n0 -> 1 < n1 -> 2 ^ 1793 <= n1 ->
    unit (n0 * n0) Kv -> unit n0 sn -> unit n0 rho -> unit n1 r -> unit n1 rhoy ->
    enc n0 y sn = Some Dv -> enc n1 y r = Some Fp ->
    affg_commit smul gbase q nh s t n1 n0 Kv x y alpha beta rho rhoy gamma m delta mu = Some (A, Bx, By, E, S, F, T) ->
    affg_respond n1 n0 x y sn r alpha beta rho rhoy gamma m delta mu e = (z1, z2, z3, z4, w, wy) ->
    gis_id Bx = false -> in_leps z1 = true -> in_lprimeeps z2 = true -> zk_bounded z3 = true -> zk_bounded z4 = true ->
    affg_verify gadd smul geqb gis_id gbase q nh s t n1 n0 Kv (add n0 (mul n0 x Kv) Dv) Fp (act x gbase)
                A Bx By E S F T z1 z2 z3 z4 w wy e = Some true.
  Proof.
    intros Hnh Hs Ht Hn0 Hb0 Hn1 Hb1 HK Hsn Hrho Hr Hrhoy HD HF Hcom Hresp HBx Hr1 Hr2 Hbz3 Hbz4.
    apply enc_Some_inv in HD as [-> _]. apply enc_Some_inv in HF as [-> _].
    unfold affg_commit in Hcom.
    destruct (enc n0 beta rho) as [c|] eqn:E0; [|discriminate].
    destruct (enc n1 beta rhoy) as [By'|] eqn:E1; [|discriminate].
    apply enc_Some_inv in E0 as [-> _]. apply enc_Some_inv in E1 as [-> _].
    injection Hcom as <- <- <- <- <- <- <-.
    unfold affg_respond in Hresp. injection Hresp as <- <- <- <- <- <-.
    assert (Hz2 : Z.abs (e * y + beta) <= n0 / 2)
      by (apply (half_bound 1792); [lia | exact Hb0 | apply in_lprimeeps_iff; exact Hr2]).
    assert (Hz2' : Z.abs (e * y + beta) <= n1 / 2)
      by (apply (half_bound 1792); [lia | exact Hb1 | apply in_lprimeeps_iff; exact Hr2]).
    unfold affg_verify. rewrite !valid_ped_commit by assumption.
    rewrite validate_add by (try apply unit_encval; try apply unit_mul_ct; assumption).
    rewrite validate_encval by assumption.
    rewrite !valid_resp_nonce by assumption. rewrite HBx, Hr1, Hr2.
    rewrite !ped_complete by (try assumption; try (apply in_leps_bounded; assumption); apply in_lprimeeps_bounded; assumption).
    cbn [andb negb guard]. rewrite enc_encval by exact Hz2.
    rewrite aff_linear by assumption. rewrite Z.eqb_refl. cbn [guard].
    rewrite resp_eq, geqb_refl. cbn [guard].
    apply enc_eq_ok; [exact Hz2' | apply enc_linear; assumption].
  Qed.

  (* ---------------------------------------------------------------- mulstar *)
  Theorem mulstar_complete nh s t n0 C x rho alpha r gamma m e D A Bx E S z1 z2 w :
    1 < nh -> unit nh s -> unit nh t -> 1 < n0 ->
    unit (n0 * n0) C -> unit n0 rho -> unit n0 r ->
    D = randomize n0 (mul n0 x C) rho ->
    mulstar_commit smul gbase q nh s t n0 C x alpha r gamma m = (A, Bx, E, S) ->
    mulstar_respond n0 x rho alpha r gamma m e = (z1, z2, w) ->
    gis_id Bx = false -> in_leps z1 = true -> zk_bounded z2 = true ->
    mulstar_verify gadd smul geqb gis_id gbase q nh s t n0 C D (act x gbase) A Bx E S z1 z2 w e = Some true.
  Proof.
    intros Hnh Hs Ht Hn0 HC Hrho Hr -> Hcom Hresp HBx Hr1 Hbz2.
    unfold mulstar_commit in Hcom. injection Hcom as <- <- <- <-.
    unfold mulstar_respond in Hresp. injection Hresp as <- <- <-.
    unfold mulstar_verify. rewrite !valid_ped_commit, valid_resp_nonce by assumption.
    rewrite validate_randomize by (try apply unit_mul_ct; assumption).
    rewrite HBx, Hr1. rewrite ped_complete by (try assumption; apply in_leps_bounded; assumption). cbn [andb negb guard].
    rewrite rand_linear by assumption. rewrite Z.eqb_refl. cbn [guard].
    rewrite resp_eq, geqb_refl. reflexivity.
  Qed.

  (* ---------------------------------------------------------------- encelg *)
  Theorem encelg_complete nh s t n0 a b x rho alpha mu r beta gamma e C S D Y Zp T z1 w z2 z3 :
    1 < nh -> unit nh s -> unit nh t -> 1 < n0 -> 2 ^ 769 <= n0 -> unit n0 rho -> unit n0 r ->
    enc n0 x rho = Some C ->
    let A := act a gbase in
    encelg_commit gadd smul gbase q nh s t n0 A x alpha mu r beta gamma = Some (S, D, Y, Zp, T) ->
    encelg_respond q n0 x rho b alpha mu r beta gamma e = (z1, w, z2, z3) ->
    sc_zero q w = false -> gis_id Y = false -> gis_id Zp = false -> in_leps z1 = true -> zk_bounded z3 = true ->
    encelg_verify gadd smul geqb gis_id gbase q nh s t n0 C A (act b gbase) (act (a * b + x) gbase)
                  S D Y Zp T z1 w z2 z3 e = Some true.
  Proof.
    intros Hnh Hs Ht Hn0 Hbig Hrho Hr HC A Hcom Hresp Hw HY HZ Hr1 Hbz3.
    apply enc_Some_inv in HC as [-> _].
    unfold encelg_commit in Hcom. destruct (enc n0 alpha r) as [D'|] eqn:ED; [|discriminate].
    apply enc_Some_inv in ED as [-> _]. injection Hcom as <- <- <- <- <-.
    unfold encelg_respond in Hresp. injection Hresp as <- <- <- <-.
    unfold encelg_verify. rewrite !valid_ped_commit, validate_encval, Hw, HY, HZ, valid_resp_nonce, Hr1 by assumption.
    cbn [andb orb negb guard].
    rewrite enc_eq_ok;
      [| apply (half_bound 768); [lia | exact Hbig | apply in_leps_iff; exact Hr1] | apply enc_linear; assumption].
    assert (Ew : forall P, act (((e mod q) * (b mod q)) mod q + beta mod q) P = smul (e * b + beta) P).
    { intro P. rewrite act_smul. apply smul_cong.
      rewrite <- Z.mul_mod by lia. rewrite <- Z.add_mod by lia. reflexivity. }
    assert (Ew' : forall P, act ((((e mod q) * (b mod q)) mod q + beta mod q) mod q) P = smul (e * b + beta) P).
    { intro P. rewrite <- Ew. rewrite !act_smul. apply (RefSigProofs.ml_smul_mod _ _ _ _ _ ML). }
    rewrite !Ew'.
    replace (act (e * x + alpha) gbase +' smul (e * b + beta) A)
      with (act e (act (a * b + x) gbase) +' (act beta A +' act alpha gbase)).
    - rewrite geqb_refl. cbn [guard].
      replace (smul (e * b + beta) gbase) with (act e (act b gbase) +' act beta gbase)
        by (rewrite !act_smul, smul_add, smul_smul; reflexivity).
      rewrite geqb_refl. cbn [guard].
      rewrite ped_complete by (try assumption; apply in_leps_bounded; assumption). reflexivity.
    - unfold A. rewrite !act_smul. rewrite !smul_smul, <- !smul_add. apply smul_cong. f_equal. ring.
  Qed.

End Systems.

(* ---------------------------------------------------------------- range slack *)
(* |e| < 2^256 (IntervalScalar / IntervalL), witness in +-2^l: the response stays below 2^(l+eps) whenever the mask
   is at most 2^(l+eps) - 2^(l+256) in absolute value (all but a 2^-255 fraction of the sampler's range) *)
Lemma leps_slack e x alpha :
  Z.abs e < 2 ^ 256 -> Z.abs x <= 2 ^ 256 -> Z.abs alpha <= 2 ^ 768 - 2 ^ 512 -> in_leps (e * x + alpha) = true.
Proof.
  intros He Hx Ha. apply in_leps_iff.
  assert (Z.abs (e * x) < 2 ^ 512).
  { rewrite Z.abs_mul. change (2 ^ 512) with (2 ^ 256 * 2 ^ 256).
    pose proof (Z.abs_nonneg e). pose proof (Z.abs_nonneg x). nia. }
  pose proof (Z.abs_triangle (e * x) alpha). lia.
Qed.
Lemma lprimeeps_slack e y beta :
  Z.abs e < 2 ^ 256 -> Z.abs y <= 2 ^ 1280 -> Z.abs beta <= 2 ^ 1792 - 2 ^ 1536 -> in_lprimeeps (e * y + beta) = true.
Proof.
  intros He Hy Hb. apply in_lprimeeps_iff.
  assert (Z.abs (e * y) < 2 ^ 1536).
  { rewrite Z.abs_mul. change (2 ^ 1536) with (2 ^ 256 * 2 ^ 1280).
    pose proof (Z.abs_nonneg e). pose proof (Z.abs_nonneg y). nia. }
  pose proof (Z.abs_triangle (e * y) beta). lia.
Qed.
(* zkfac: the factors are below 2^1024, the masks are drawn below 2^(l+eps) sqrt(N) = 2^1792, the bound is 2^1793 *)
Lemma fac_slack e p alpha :
  Z.abs e < 2 ^ 256 -> Z.abs p <= 2 ^ 1024 -> Z.abs alpha <= 2 ^ 1792 -> in_leps1rootn (e * p + alpha) = true.
Proof.
  intros He Hp Ha. apply in_leps1rootn_iff.
  assert (Z.abs (e * p) < 2 ^ 1280).
  { rewrite Z.abs_mul. change (2 ^ 1280) with (2 ^ 256 * 2 ^ 1024).
    pose proof (Z.abs_nonneg e). pose proof (Z.abs_nonneg p). nia. }
  pose proof (Z.abs_triangle (e * p) alpha).
  assert (2 ^ 1280 + 2 ^ 1792 < 2 ^ 1793) by (change (2 ^ 1793) with (2 * 2 ^ 1792); assert (2 ^ 1280 < 2 ^ 1792) by (apply Z.pow_lt_mono_r; lia); lia).
  lia.
Qed.

Lemma in_firstn {A} n (l : list A) x : In x (firstn n l) -> In x l.
Proof. intro H. rewrite <- (firstn_skipn n l). apply in_or_app. left. exact H. Qed.

Lemma le_val_bound l : wf_bytes l = true -> (le_val l < 256 ^ N.of_nat (length l))%N.
Proof.
  induction l as [|b l IH]; intro Hwf.
  - cbn. lia.
  - cbn [wf_bytes forallb] in Hwf. apply andb_true_iff in Hwf as [Hb Hl]. specialize (IH Hl).
    unfold wf_byte in Hb. apply N.ltb_lt in Hb.
    cbn [le_val length]. rewrite Nat2N.inj_succ, N.pow_succ_r'. lia.
Qed.

Lemma be_val_bound l : wf_bytes l = true -> (be_val l < 256 ^ N.of_nat (length l))%N.
Proof.
  intro Hwf. unfold be_val. rewrite <- (rev_length l). apply le_val_bound.
  unfold wf_bytes in *. rewrite forallb_forall in *. intros x Hx. apply Hwf. apply in_rev. exact Hx.
Qed.

(* the challenge derived by IntervalScalar / IntervalL is below 2^256 in absolute value *)
Lemma e_interval_range d : wf_bytes d = true -> Z.abs (e_interval d) < 2 ^ 256.
Proof.
  intro Hwf. unfold e_interval. destruct d as [|b0 r]; [cbn; lia|].
  assert (Hb : 0 <= Z.of_N (be_val (firstn 32 r)) < 2 ^ 256).
  { split; [lia|].
    assert (Hw : wf_bytes (firstn 32 r) = true).
    { cbn [wf_bytes forallb] in Hwf. apply andb_true_iff in Hwf as [_ Hr].
      unfold wf_bytes in *. rewrite forallb_forall in *. intros x Hx. apply Hr. eapply in_firstn; eassumption. }
    pose proof (firstn_le_length 32 r) as Hlen.
    pose proof (be_val_bound (firstn 32 r) Hw) as Hbv.
    assert (256 ^ N.of_nat (length (firstn 32 r)) <= 256 ^ 32)%N by (apply N.pow_le_mono_r; lia).
    change (2 ^ 256) with (Z.of_N (256 ^ 32)). lia. }
  destruct (N.testbit b0 0); lia.
Qed.

(* ---------------------------------------------------------------- the range checks are enforced *)
Lemma in_leps_false z : 2 ^ 768 <= Z.abs z -> in_leps z = false.
Proof. intro H. destruct (in_leps z) eqn:E; [apply in_leps_iff in E; lia | reflexivity]. Qed.
Lemma in_lprimeeps_false z : 2 ^ 1792 <= Z.abs z -> in_lprimeeps z = false.
Proof. intro H. destruct (in_lprimeeps z) eqn:E; [apply in_lprimeeps_iff in E; lia | reflexivity]. Qed.
Lemma in_leps1rootn_false z : 2 ^ 1793 <= Z.abs z -> in_leps1rootn z = false.
Proof. intro H. destruct (in_leps1rootn z) eqn:E; [apply in_leps1rootn_iff in E; lia | reflexivity]. Qed.

(* every check before the range check returns false, none can panic *)
Ltac guards :=
  unfold guard;
  repeat match goal with
         | |- (if ?b then _ else _) = _ => destruct b
         end; try reflexivity.

Section RangeEnforced.
  Context {G : Type}.
  Variables (gadd : G -> G -> G) (smul : Z -> G -> G) (geqb : G -> G -> bool) (gis_id : G -> bool) (gbase : G) (q : Z).

  Theorem enc_range_enforced nh s t n0 K S A C z1 z2 z3 e :
    2 ^ 768 <= Z.abs z1 -> enc_verify nh s t n0 K S A C z1 z2 z3 e = Some false.
  Proof. intro H. unfold enc_verify. rewrite (in_leps_false z1 H). guards. Qed.

  Theorem logstar_range_enforced nh s t n0 C X Gb S A Y D z1 z2 z3 e :
    2 ^ 768 <= Z.abs z1 -> logstar_verify gadd smul geqb gis_id q nh s t n0 C X Gb S A Y D z1 z2 z3 e = Some false.
  Proof. intro H. unfold logstar_verify. rewrite (in_leps_false z1 H). guards. Qed.

  Theorem affg_range_enforced nh s t n1 n0 Kv Dv Fp Xp A Bx By E S F T z1 z2 z3 z4 w wy e :
    2 ^ 768 <= Z.abs z1 \/ 2 ^ 1792 <= Z.abs z2 ->
    affg_verify gadd smul geqb gis_id gbase q nh s t n1 n0 Kv Dv Fp Xp A Bx By E S F T z1 z2 z3 z4 w wy e = Some false.
  Proof.
    intros [H|H]; unfold affg_verify.
    - rewrite (in_leps_false z1 H). guards.
    - rewrite (in_lprimeeps_false z2 H). guards.
  Qed.

  Theorem affp_range_enforced nh s t n1 n0 Kv Dv Fp Xp A Bx By E S F T z1 z2 z3 z4 w wx wy e :
    2 ^ 768 <= Z.abs z1 \/ 2 ^ 1792 <= Z.abs z2 ->
    affp_verify nh s t n1 n0 Kv Dv Fp Xp A Bx By E S F T z1 z2 z3 z4 w wx wy e = Some false.
  Proof.
    intros [H|H]; unfold affp_verify.
    - rewrite (in_leps_false z1 H). guards.
    - rewrite (in_lprimeeps_false z2 H). guards.
  Qed.

  Theorem mulstar_range_enforced nh s t n0 C D X A Bx E S z1 z2 w e :
    2 ^ 768 <= Z.abs z1 -> mulstar_verify gadd smul geqb gis_id gbase q nh s t n0 C D X A Bx E S z1 z2 w e = Some false.
  Proof. intro H. unfold mulstar_verify. rewrite (in_leps_false z1 H). guards. Qed.

  Theorem encelg_range_enforced nh s t n0 C A B X S D Y Zp T z1 w z2 z3 e :
    2 ^ 768 <= Z.abs z1 -> encelg_verify gadd smul geqb gis_id gbase q nh s t n0 C A B X S D Y Zp T z1 w z2 z3 e = Some false.
  Proof. intro H. unfold encelg_verify. rewrite (in_leps_false z1 H). guards. Qed.

  Theorem fac_range_enforced n0 nh s t P Q A B T sigma z1 z2 w1 w2 v e :
    2 ^ 1793 <= Z.abs z1 \/ 2 ^ 1793 <= Z.abs z2 ->
    fac_verify n0 nh s t P Q A B T sigma z1 z2 w1 w2 v e = Some false.
  Proof.
    intros [H|H]; unfold fac_verify; cbv zeta.
    - rewrite (in_leps1rootn_false z1 H). cbn [andb]. guards.
    - rewrite (in_leps1rootn_false z2 H). rewrite andb_false_r. guards.
  Qed.

  (* zkdec, zkmul: the response must be a plaintext EncWithNonce accepts, |z| <= N/2 (there is no l+eps check);
     beyond that bound the verifier REJECTS, and it can never panic *)
  Lemma in_plaintext_false n z : n / 2 < Z.abs z -> in_plaintext n z = false.
  Proof. intro H. unfold in_plaintext. apply Z.leb_gt. exact H. Qed.

  Lemma enc_eq_no_panic n m rho rhs k : in_plaintext n m = true -> k <> None -> enc_eq n m rho rhs k <> None.
  Proof.
    intros Hm Hk. unfold enc_eq. rewrite enc_encval by (apply in_plaintext_iff; exact Hm).
    unfold guard. destruct (encval n m rho =? rhs); [exact Hk | discriminate].
  Qed.

  Theorem dec_range_enforced nh s t n0 C X S T A Gamma z1 z2 w e :
    n0 / 2 < Z.abs z1 -> dec_verify q nh s t n0 C X S T A Gamma z1 z2 w e = Some false.
  Proof. intro H. unfold dec_verify. rewrite (in_plaintext_false n0 z1 H). guards. Qed.

  Theorem dec_never_panics nh s t n0 C X S T A Gamma z1 z2 w e :
    dec_verify q nh s t n0 C X S T A Gamma z1 z2 w e <> None.
  Proof.
    unfold dec_verify.
    destruct (negb (sc_zero q Gamma)); [|discriminate]. destruct (valid_mod nh S && valid_mod nh T); [|discriminate].
    destruct (validate_ct n0 A); [|discriminate]. destruct (valid_mod n0 w); [|discriminate].
    destruct (in_plaintext n0 z1) eqn:Hp; [|discriminate]. destruct (ped_verify nh s t z1 z2 e T S); [|discriminate].
    cbn [guard]. apply enc_eq_no_panic; [exact Hp|]. unfold guard. destruct (_ =? _); discriminate.
  Qed.

  Theorem mul_range_enforced n X Y C A B z u v e :
    n / 2 < Z.abs z -> mul_verify n X Y C A B z u v e = Some false.
  Proof. intro H. unfold mul_verify. rewrite (in_plaintext_false n z H). guards. Qed.

  Theorem mul_never_panics n X Y C A B z u v e : mul_verify n X Y C A B z u v e <> None.
  Proof.
    unfold mul_verify.
    destruct (valid_mod n u && valid_mod n v); [|discriminate]. destruct (validate_ct n A && validate_ct n B); [|discriminate].
    destruct (in_plaintext n z) eqn:Hp; [|discriminate]. cbn [guard].
    destruct (randomize n (mul n z Y) u =? add n (mul n e C) A); [|discriminate]. cbn [guard].
    apply enc_eq_no_panic; [exact Hp | discriminate].
  Qed.

  (* oversized integers are refused before they are used as exponents (pedersen.Verify, zkfac) *)
  Theorem ped_oversized_refused n s t a b e S T :
    2 ^ 4865 <= Z.abs a \/ 2 ^ 4865 <= Z.abs b -> ped_verify n s t a b e S T = false.
  Proof.
    intro H. unfold ped_verify.
    destruct (zk_bounded a) eqn:Ea; [|reflexivity]. destruct (zk_bounded b) eqn:Eb; [|reflexivity].
    apply zk_bounded_iff in Ea, Eb. lia.
  Qed.
  Theorem fac_oversized_refused n0 nh s t P Q A B T sigma z1 z2 w1 w2 v e :
    2 ^ 4865 <= Z.abs sigma \/ 2 ^ 4865 <= Z.abs w1 \/ 2 ^ 4865 <= Z.abs w2 \/ 2 ^ 4865 <= Z.abs v ->
    fac_verify n0 nh s t P Q A B T sigma z1 z2 w1 w2 v e = Some false.
  Proof.
    intro H. unfold fac_verify.
    assert (E : zk_bounded sigma && zk_bounded z1 && zk_bounded z2 && zk_bounded w1 && zk_bounded w2 && zk_bounded v = false).
    { destruct (zk_bounded sigma) eqn:E1, (zk_bounded w1) eqn:E2, (zk_bounded w2) eqn:E3, (zk_bounded v) eqn:E4;
        rewrite ?andb_false_r, ?andb_false_l; try reflexivity.
      apply zk_bounded_iff in E1, E2, E3, E4. lia. }
    rewrite E. guards.
  Qed.

  (* zknth, zkprm: the responses are residues; anything outside [1, N) is refused *)
  Theorem nth_range_enforced n R A z e : ~ (0 <= z < n) -> nth_verify n R A z e = Some false.
  Proof.
    intro H. unfold nth_verify.
    assert (E : valid_mod n z = false).
    { unfold valid_mod. destruct (Z.leb_spec 0 z); [|reflexivity]. destruct (Z.ltb_spec z n); [lia | reflexivity]. }
    rewrite E. reflexivity.
  Qed.
End RangeEnforced.

Lemma prm_rounds_range n s t : forall As Zs es, Exists (fun z => ~ (0 < z < n)) Zs -> prm_rounds n s t As Zs es = false.
Proof.
  induction As as [|a As IH]; intros Zs es HE.
  - destruct Zs, es; try reflexivity. inversion HE.
  - destruct Zs as [|z Zs], es as [|e es]; try reflexivity. cbn [prm_rounds].
    inversion HE as [? ? Hz|? ? Hz]; subst.
    + assert (E : valid_big n z = false).
      { unfold valid_big. destruct (Z.ltb_spec 0 z); [|reflexivity]. destruct (Z.ltb_spec z n); [lia | reflexivity]. }
      rewrite E. rewrite andb_false_r. reflexivity.
    + rewrite (IH Zs es Hz). apply andb_false_r.
Qed.
Theorem prm_range_enforced n s t As Zs es : Exists (fun z => ~ (0 < z < n)) Zs -> prm_verify n s t As Zs es = Some false.
Proof. intro H. unfold prm_verify. rewrite (prm_rounds_range n s t As Zs es H). guards. Qed.

(* ================================================================================================ *)
(* E. the Fiat-Shamir transcript determines every typed field                                       *)
(* ================================================================================================ *)

Definition fld_item (f : fld) : item :=
  match f with
  | FPed n s t => mkItem (str "Pedersen Parameters"%string)
                    (be_bytes 256 (Z.to_N n) ++ be_bytes 256 (Z.to_N s) ++ be_bytes 256 (Z.to_N t))
  | FPk n => mkItem (str "Paillier PublicKey"%string) (be_min (Z.to_N n))
  | FCt c => mkItem (str "Paillier Ciphertext"%string) (be_bytes 512 (Z.to_N c))
  | FNat k v => mkItem (str "*saferith.Nat"%string) (be_bytes k (Z.to_N v))
  | FMod n => mkItem (str "*saferith.Modulus"%string) (be_min (Z.to_N n))
  | FBig z => mkItem (str "big.Int"%string) (gob_bigint z)
  | FSc s => mkItem (str "*curve.Secp256k1Scalar"%string) (be_bytes 32 (Z.to_N s))
  | FPt x o => mkItem (str "*curve.Secp256k1Point"%string) ((if o then 3%N else 2%N) :: be_bytes 32 (Z.to_N x))
  | FElg lx lo mx mo => mkItem elg_domain (pt_bytes lx lo ++ pt_bytes mx mo)
  end.

(* Pedersen parameters are written only when N, S, T fit 2048 bits (pedersen.Parameters.WriteTo refuses them
   otherwise), which is part of [fld_wf] *)
Lemma fld_ped_in_range z : (0 <=? z)%Z && (z <? 2 ^ 2048)%Z = true -> lt_pow2 (Z.to_N z) 2048 = true.
Proof.
  intro H. apply andb_true_iff in H as [H0 H1]. apply Z.leb_le in H0. apply Z.ltb_lt in H1.
  unfold lt_pow2. apply N.eqb_eq. rewrite N.shiftr_div_pow2. apply N.div_small.
  apply N2Z.inj_lt. rewrite Z2N.id by assumption. rewrite N2Z.inj_pow. exact H1.
Qed.

Lemma enc_fld f : fld_wf f = true -> enc_hval (fld_hval f) = Some (fld_item f).
Proof.
  destruct f; try reflexivity. intro W. cbn [fld_wf] in W.
  repeat (apply andb_true_iff in W as [W ?]).
  cbn [fld_hval enc_hval fld_item]. unfold pedersen_data_opt.
  rewrite !fld_ped_in_range by (apply andb_true_iff; split; assumption). reflexivity.
Qed.

Lemma enc_all_flds l : forallb fld_wf l = true -> enc_all (map fld_hval l) = Some (map fld_item l).
Proof.
  induction l as [|f l IH]; [reflexivity|]. intro W. cbn [forallb] in W. apply andb_true_iff in W as [Wf W].
  cbn [map enc_all]. rewrite (enc_fld f Wf), (IH W). reflexivity.
Qed.

Lemma write_any_flds st l : forallb fld_wf l = true ->
  write_any st (map fld_hval l) = (stream st (map fld_item l), true).
Proof. intro W. apply write_any_ok. now apply enc_all_flds. Qed.

(* ---- byte lengths ---- *)
Lemma byte_len_bound n k : (n < 2 ^ (8 * N.of_nat k))%N -> (byte_len n <= k)%nat.
Proof.
  intro H. unfold byte_len.
  assert (Hs : (N.size n <= 8 * N.of_nat k)%N).
  { destruct n as [|p]; [cbn; lia|]. rewrite N.size_log2 by discriminate.
    apply N.le_succ_l. apply N.log2_lt_pow2; [lia | exact H]. }
  assert (((N.size n + 7) / 8 < N.of_nat k + 1)%N).
  { apply N.div_lt_upper_bound; [lia|]. lia. }
  lia.
Qed.

Lemma lt_pow_byte_len n : (n < 256 ^ N.of_nat (byte_len n))%N.
Proof.
  unfold byte_len. rewrite N2Nat.id.
  pose proof (N.size_gt n) as Hs.
  change 256%N with (2 ^ 8)%N. rewrite <- N.pow_mul_r.
  eapply N.lt_le_trans; [exact Hs|]. apply N.pow_le_mono_r; [lia|].
  pose proof (N.div_mod (N.size n + 7) 8 ltac:(lia)) as Hd.
  pose proof (N.mod_lt (N.size n + 7) 8 ltac:(lia)). lia.
Qed.

Lemma be_val_be_min n : be_val (be_min n) = n.
Proof. unfold be_min. rewrite be_val_be_bytes. apply N.mod_small. apply lt_pow_byte_len. Qed.

Lemma be_min_inj a b : be_min a = be_min b -> a = b.
Proof. intro H. apply (f_equal be_val) in H. rewrite !be_val_be_min in H. exact H. Qed.

Lemma be_min_length n : length (be_min n) = byte_len n.
Proof. unfold be_min. apply be_bytes_length. Qed.

Lemma be_min_wf n : wf_bytes (be_min n) = true.
Proof. unfold be_min. apply be_bytes_wf. Qed.

Lemma gob_inj a b : gob_bigint a = gob_bigint b -> a = b.
Proof.
  unfold gob_bigint. intro H. apply cons_eq_inv in H as [Hs Hm]. apply be_min_inj in Hm.
  destruct (Z.ltb_spec a 0), (Z.ltb_spec b 0); try discriminate; lia.
Qed.

Lemma to_N_inj a b : 0 <= a -> 0 <= b -> Z.to_N a = Z.to_N b -> a = b.
Proof. intros Ha Hb H. apply (f_equal Z.of_N) in H. rewrite !Z2N.id in H by assumption. exact H. Qed.

Lemma to_N_lt a k : 0 <= a -> a < 2 ^ (8 * Z.of_nat k) -> (Z.to_N a < 256 ^ N.of_nat k)%N.
Proof.
  intros Ha Hlt. change 256%N with (2 ^ 8)%N. rewrite <- N.pow_mul_r.
  apply N2Z.inj_lt. rewrite Z2N.id by assumption. rewrite N2Z.inj_pow, N2Z.inj_mul, nat_N_Z. exact Hlt.
Qed.

Lemma be_bytes_Z_inj k a b : 0 <= a < 2 ^ (8 * Z.of_nat k) -> 0 <= b < 2 ^ (8 * Z.of_nat k) ->
  be_bytes k (Z.to_N a) = be_bytes k (Z.to_N b) -> a = b.
Proof.
  intros Ha Hb H. apply to_N_inj; try lia. apply (be_bytes_inj k); try (apply to_N_lt; lia). exact H.
Qed.

Lemma pt_bytes_length x o : length (pt_bytes x o) = 33%nat.
Proof. unfold pt_bytes. cbn [length]. rewrite be_bytes_length. reflexivity. Qed.

Lemma be_bytes_Z_inj' k K a b : K = 8 * Z.of_nat k -> 0 <= a < 2 ^ K -> 0 <= b < 2 ^ K ->
  be_bytes k (Z.to_N a) = be_bytes k (Z.to_N b) -> a = b.
Proof. intros ->. apply be_bytes_Z_inj. Qed.

Lemma pt_bytes_inj x o x' o' : 0 <= x < 2 ^ 256 -> 0 <= x' < 2 ^ 256 -> pt_bytes x o = pt_bytes x' o' -> x = x' /\ o = o'.
Proof.
  intros Hx Hx' H. unfold pt_bytes in H. apply cons_eq_inv in H as [Ho Hb].
  apply (be_bytes_Z_inj' 32 256) in Hb; [| reflexivity | exact Hx | exact Hx'].
  split; [exact Hb|]. destruct o, o'; try reflexivity; discriminate.
Qed.

(* ---- injectivity of the item encoding on well-formed fields ---- *)
Ltac wf_split H :=
  repeat match type of H with
         | (_ && _)%bool = true => let H1 := fresh H in apply andb_true_iff in H as [H H1]
         end.

Lemma item_eq_inv d b d' b' : mkItem d b = mkItem d' b' -> d = d' /\ b = b'.
Proof. intros [= -> ->]. split; reflexivity. Qed.

Lemma fld_item_inj f g : fld_wf f = true -> fld_wf g = true -> fld_item f = fld_item g -> f = g.
Proof.
  intros Wf Wg E.
  destruct f, g; cbn [fld_item] in E; apply item_eq_inv in E as [Ed Eb];
    try (vm_compute in Ed; discriminate Ed); clear Ed; cbn [fld_wf] in Wf, Wg.
  - (* FPed *)
    apply andb_true_iff in Wf as [Wf Wf6]. apply andb_true_iff in Wf as [Wf Wf5]. apply andb_true_iff in Wf as [Wf Wf4].
    apply andb_true_iff in Wf as [Wf Wf3]. apply andb_true_iff in Wf as [Wf1 Wf2].
    apply andb_true_iff in Wg as [Wg Wg6]. apply andb_true_iff in Wg as [Wg Wg5]. apply andb_true_iff in Wg as [Wg Wg4].
    apply andb_true_iff in Wg as [Wg Wg3]. apply andb_true_iff in Wg as [Wg1 Wg2].
    apply Z.leb_le in Wf1, Wf3, Wf5, Wg1, Wg3, Wg5. apply Z.ltb_lt in Wf2, Wf4, Wf6, Wg2, Wg4, Wg6.
    apply app_eq_length in Eb as [E1 Eb]; [|rewrite !be_bytes_length; reflexivity].
    apply app_eq_length in Eb as [E2 E3]; [|rewrite !be_bytes_length; reflexivity].
    apply (be_bytes_Z_inj' 256 2048) in E1; [| reflexivity | lia | lia].
    apply (be_bytes_Z_inj' 256 2048) in E2; [| reflexivity | lia | lia].
    apply (be_bytes_Z_inj' 256 2048) in E3; [| reflexivity | lia | lia]. subst. reflexivity.
  - (* FPk *)
    apply andb_true_iff in Wf as [Wf1 _]. apply andb_true_iff in Wg as [Wg1 _]. apply Z.leb_le in Wf1, Wg1.
    apply be_min_inj in Eb. apply to_N_inj in Eb; try assumption. subst. reflexivity.
  - (* FCt *)
    apply andb_true_iff in Wf as [Wf1 Wf2]. apply andb_true_iff in Wg as [Wg1 Wg2].
    apply Z.leb_le in Wf1, Wg1. apply Z.ltb_lt in Wf2, Wg2.
    apply (be_bytes_Z_inj' 512 4096) in Eb; [| reflexivity | lia | lia]. subst. reflexivity.
  - (* FNat *)
    apply andb_true_iff in Wf as [Wf _]. apply andb_true_iff in Wf as [Wf1 Wf2].
    apply andb_true_iff in Wg as [Wg _]. apply andb_true_iff in Wg as [Wg1 Wg2].
    apply Z.leb_le in Wf1, Wg1. apply Z.ltb_lt in Wf2, Wg2.
    assert (k = k0) by (apply (f_equal (@length _)) in Eb; rewrite !be_bytes_length in Eb; exact Eb). subst k0.
    apply (be_bytes_Z_inj k) in Eb; try lia. subst. reflexivity.
  - (* FMod *)
    apply andb_true_iff in Wf as [Wf1 _]. apply andb_true_iff in Wg as [Wg1 _]. apply Z.leb_le in Wf1, Wg1.
    apply be_min_inj in Eb. apply to_N_inj in Eb; try assumption. subst. reflexivity.
  - (* FBig *)
    apply gob_inj in Eb. subst. reflexivity.
  - (* FSc *)
    apply andb_true_iff in Wf as [Wf1 Wf2]. apply andb_true_iff in Wg as [Wg1 Wg2].
    apply Z.leb_le in Wf1, Wg1. apply Z.ltb_lt in Wf2, Wg2.
    apply (be_bytes_Z_inj' 32 256) in Eb; [| reflexivity | lia | lia]. subst. reflexivity.
  - (* FPt *)
    apply andb_true_iff in Wf as [Wf1 Wf2]. apply andb_true_iff in Wg as [Wg1 Wg2].
    apply Z.leb_le in Wf1, Wg1. apply Z.ltb_lt in Wf2, Wg2.
    destruct (pt_bytes_inj x odd x0 odd0 ltac:(lia) ltac:(lia)) as [-> ->]; [|reflexivity].
    unfold pt_bytes. f_equal; [destruct odd, odd0; congruence | congruence].
  - (* FElg *)
    apply andb_true_iff in Wf as [Wf Wf4]. apply andb_true_iff in Wf as [Wf Wf3]. apply andb_true_iff in Wf as [Wf1 Wf2].
    apply andb_true_iff in Wg as [Wg Wg4]. apply andb_true_iff in Wg as [Wg Wg3]. apply andb_true_iff in Wg as [Wg1 Wg2].
    apply Z.leb_le in Wf1, Wf3, Wg1, Wg3. apply Z.ltb_lt in Wf2, Wf4, Wg2, Wg4.
    apply app_eq_length in Eb as [E1 E2]; [|rewrite !pt_bytes_length; reflexivity].
    apply pt_bytes_inj in E1 as [-> ->]; try lia. apply pt_bytes_inj in E2 as [-> ->]; try lia. reflexivity.
Qed.

(* ---- the items are well formed for the framing ---- *)
Lemma Zabs_N_lt z k : Z.abs z < 2 ^ (8 * Z.of_nat k) -> (Z.abs_N z < 2 ^ (8 * N.of_nat k))%N.
Proof.
  intro H. apply N2Z.inj_lt. rewrite N2Z.inj_abs_N, N2Z.inj_pow, N2Z.inj_mul, nat_N_Z. exact H.
Qed.
Lemma to_N_lt2 a k : 0 <= a -> a < 2 ^ (8 * Z.of_nat k) -> (Z.to_N a < 2 ^ (8 * N.of_nat k))%N.
Proof.
  intros Ha H. apply N2Z.inj_lt. rewrite Z2N.id by assumption. rewrite N2Z.inj_pow, N2Z.inj_mul, nat_N_Z. exact H.
Qed.

Lemma len_lt_64 (l : bytes) : (length l <= 4096)%nat -> (len l <? 2 ^ 64)%N = true.
Proof.
  intro H. apply N.ltb_lt. unfold len.
  apply N.le_lt_trans with (N.of_nat 4096); [lia|]. reflexivity.
Qed.

Lemma fld_item_wf f : fld_wf f = true -> wf_item (fld_item f) = true.
Proof.
  intro W. unfold wf_item.
  assert (Hdom : wf_bytes (dom (fld_item f)) = true /\ (len (dom (fld_item f)) <? 2 ^ 64)%N = true)
    by (destruct f; split; vm_compute; reflexivity).
  destruct Hdom as [Hd1 Hd2]. rewrite Hd1, Hd2. cbn [andb]. rewrite andb_true_r.
  destruct f; cbn [fld_item dat fld_wf] in *.
  - rewrite !wf_bytes_app, !be_bytes_wf. cbn [andb]. apply len_lt_64. rewrite !app_length, !be_bytes_length. lia.
  - apply andb_true_iff in W as [W1 W2]. apply Z.leb_le in W1. apply Z.ltb_lt in W2.
    rewrite be_min_wf. cbn [andb]. apply len_lt_64. rewrite be_min_length.
    pose proof (byte_len_bound (Z.to_N n) 512 (to_N_lt2 n 512 W1 W2)). lia.
  - rewrite be_bytes_wf. cbn [andb]. apply len_lt_64. rewrite be_bytes_length. lia.
  - apply andb_true_iff in W as [_ W3]. apply Z.ltb_lt in W3.
    rewrite be_bytes_wf. cbn [andb]. apply N.ltb_lt. unfold len. rewrite be_bytes_length.
    apply N2Z.inj_lt. rewrite nat_N_Z. change (Z.of_N (2 ^ 64)) with (2 ^ 64).
    assert (2 ^ 32 < 2 ^ 64) by (apply Z.pow_lt_mono_r; lia). lia.
  - apply andb_true_iff in W as [W1 W2]. apply Z.leb_le in W1. apply Z.ltb_lt in W2.
    rewrite be_min_wf. cbn [andb]. apply len_lt_64. rewrite be_min_length.
    pose proof (byte_len_bound (Z.to_N n) 512 (to_N_lt2 n 512 W1 W2)). lia.
  - apply Z.ltb_lt in W. unfold gob_bigint.
    assert (Hw : wf_bytes ((if z <? 0 then 3%N else 2%N) :: be_min (Z.abs_N z)) = true).
    { cbn [wf_bytes forallb]. fold (wf_bytes (be_min (Z.abs_N z))). rewrite be_min_wf.
      destruct (z <? 0); reflexivity. }
    rewrite Hw. cbn [andb]. apply len_lt_64. cbn [length]. rewrite be_min_length.
    pose proof (byte_len_bound (Z.abs_N z) 512 (Zabs_N_lt z 512 W)). lia.
  - rewrite be_bytes_wf. cbn [andb]. apply len_lt_64. rewrite be_bytes_length. lia.
  - assert (Hw : wf_bytes ((if odd then 3%N else 2%N) :: be_bytes 32 (Z.to_N x)) = true).
    { cbn [wf_bytes forallb]. fold (wf_bytes (be_bytes 32 (Z.to_N x))). rewrite be_bytes_wf. destruct odd; reflexivity. }
    rewrite Hw. cbn [andb]. apply len_lt_64. cbn [length]. rewrite be_bytes_length. lia.
  - unfold pt_bytes. rewrite wf_bytes_app.
    assert (Hw : forall (x : Z) (o : bool), wf_bytes ((if o then 3%N else 2%N) :: be_bytes 32 (Z.to_N x)) = true).
    { intros x o. cbn [wf_bytes forallb]. fold (wf_bytes (be_bytes 32 (Z.to_N x))). rewrite be_bytes_wf. destruct o; reflexivity. }
    rewrite !Hw. cbn [andb]. apply len_lt_64. rewrite app_length. cbn [length]. rewrite !be_bytes_length. lia.
Qed.

Lemma map_fld_item_inj l1 : forall l2, forallb fld_wf l1 = true -> forallb fld_wf l2 = true ->
  map fld_item l1 = map fld_item l2 -> l1 = l2.
Proof.
  induction l1 as [|f l1 IH]; intros [|g l2] W1 W2 E; try discriminate; [reflexivity|].
  cbn [map forallb] in *. apply andb_true_iff in W1 as [Wf W1]. apply andb_true_iff in W2 as [Wg W2].
  apply cons_eq_inv in E as [Ef El]. f_equal; [apply fld_item_inj; assumption | apply IH; assumption].
Qed.

Lemma forallb_wf_items l : forallb fld_wf l = true -> forallb wf_item (map fld_item l) = true.
Proof.
  induction l as [|f l IH]; intro W; [reflexivity|]. cbn [map forallb] in *.
  apply andb_true_iff in W as [Wf W]. rewrite fld_item_wf, IH by assumption. reflexivity.
Qed.

(* the bytes absorbed by the hash determine every field, whatever was absorbed before *)
Theorem flds_stream_inj st l1 l2 : forallb fld_wf l1 = true -> forallb fld_wf l2 = true ->
  fst (write_any st (map fld_hval l1)) = fst (write_any st (map fld_hval l2)) -> l1 = l2.
Proof.
  intros W1 W2 E. rewrite (write_any_flds st l1 W1), (write_any_flds st l2 W2) in E. cbn [fst] in E.
  apply stream_inj in E; try (apply forallb_wf_items; assumption).
  apply map_fld_item_inj; assumption.
Qed.

(* and write_any never fails on them *)
Lemma flds_write_ok st l : forallb fld_wf l = true -> snd (write_any st (map fld_hval l)) = true.
Proof. intro W. rewrite write_any_flds by assumption. reflexivity. Qed.

(* ---- per system: the challenge input is an injective function of (every public field, every commitment field) ---- *)
Lemma FNatN_inj n v n' v' : FNatN n v = FNatN n' v' -> v = v'.
Proof. unfold FNatN. intros [= _ H]. exact H. Qed.

Lemma map_FBig_inj l1 : forall l2, map FBig l1 = map FBig l2 -> l1 = l2.
Proof.
  induction l1 as [|a l1 IH]; intros [|b l2] E; try discriminate; [reflexivity|].
  cbn [map] in E. injection E as -> E. f_equal. apply IH. exact E.
Qed.

Section ChallengeInj.
  Context {G : Type}.
  Variable pt_enc : G -> Z * bool.
  Hypothesis pt_enc_inj : forall P Q, pt_enc P = pt_enc Q -> P = Q.

  Local Notation FP := (ZK.FP pt_enc).
  Local Notation FE := (ZK.FE pt_enc).

  Lemma FP_inj P Q : FP P = FP Q -> P = Q.
  Proof.
    unfold ZK.FP. intro H. apply pt_enc_inj. destruct (pt_enc P) as [x o], (pt_enc Q) as [x' o'].
    injection H as -> ->. reflexivity.
  Qed.
  Lemma FE_inj L M L' M' : FE L M = FE L' M' -> L = L' /\ M = M'.
  Proof.
    unfold ZK.FE. intro H.
    destruct (pt_enc L) as [a b] eqn:E1, (pt_enc M) as [c d] eqn:E2, (pt_enc L') as [a' b'] eqn:E3, (pt_enc M') as [c' d'] eqn:E4.
    injection H as -> -> -> ->. split; apply pt_enc_inj; congruence.
  Qed.

  Ltac inj_tac H :=
    apply flds_stream_inj in H; [| assumption | assumption];
    cbv delta [sch_fields log_fields elog_fields logstar_fields affg_fields mulstar_fields encelg_fields] beta in H;
    repeat match type of H with
           | _ :: _ = _ :: _ => let H1 := fresh "Hf" in apply cons_eq_inv in H as [H1 H]
           end.

  Theorem sch_challenge_inj st gen X C gen' X' C' :
    forallb fld_wf (sch_fields pt_enc gen X C) = true -> forallb fld_wf (sch_fields pt_enc gen' X' C') = true ->
    fst (write_any st (sch_challenge_items pt_enc gen X C)) = fst (write_any st (sch_challenge_items pt_enc gen' X' C')) ->
    gen = gen' /\ X = X' /\ C = C'.
  Proof.
    intros W1 W2 H. unfold sch_challenge_items in H. inj_tac H.
    apply FP_inj in Hf, Hf0, Hf1. subst. repeat split.
  Qed.

  Theorem log_challenge_inj st H X Y A B C H' X' Y' A' B' C' :
    forallb fld_wf (log_fields pt_enc H X Y A B C) = true -> forallb fld_wf (log_fields pt_enc H' X' Y' A' B' C') = true ->
    fst (write_any st (log_challenge_items pt_enc H X Y A B C)) = fst (write_any st (log_challenge_items pt_enc H' X' Y' A' B' C')) ->
    H = H' /\ X = X' /\ Y = Y' /\ A = A' /\ B = B' /\ C = C'.
  Proof.
    intros W1 W2 E. unfold log_challenge_items in E. inj_tac E.
    apply FP_inj in Hf, Hf0, Hf1, Hf2, Hf3, Hf4. subst. repeat split.
  Qed.

  Theorem elog_challenge_inj st L M X H Y A Np B L' M' X' H' Y' A' Np' B' :
    forallb fld_wf (elog_fields pt_enc L M X H Y A Np B) = true -> forallb fld_wf (elog_fields pt_enc L' M' X' H' Y' A' Np' B') = true ->
    fst (write_any st (elog_challenge_items pt_enc L M X H Y A Np B))
    = fst (write_any st (elog_challenge_items pt_enc L' M' X' H' Y' A' Np' B')) ->
    L = L' /\ M = M' /\ X = X' /\ H = H' /\ Y = Y' /\ A = A' /\ Np = Np' /\ B = B'.
  Proof.
    intros W1 W2 E. unfold elog_challenge_items in E. inj_tac E.
    apply FE_inj in Hf as [-> ->]. apply FP_inj in Hf0, Hf1, Hf2, Hf3, Hf4, Hf5. subst. repeat split.
  Qed.

  Theorem logstar_challenge_inj st nh s t n0 C X Gb S A Y D nh' s' t' n0' C' X' Gb' S' A' Y' D' :
    forallb fld_wf (logstar_fields pt_enc nh s t n0 C X Gb S A Y D) = true ->
    forallb fld_wf (logstar_fields pt_enc nh' s' t' n0' C' X' Gb' S' A' Y' D') = true ->
    fst (write_any st (logstar_challenge_items pt_enc nh s t n0 C X Gb S A Y D))
    = fst (write_any st (logstar_challenge_items pt_enc nh' s' t' n0' C' X' Gb' S' A' Y' D')) ->
    (nh, s, t, n0, C, S, A, D) = (nh', s', t', n0', C', S', A', D') /\ X = X' /\ Gb = Gb' /\ Y = Y'.
  Proof.
    intros W1 W2 E. unfold logstar_challenge_items in E. inj_tac E.
    injection Hf as -> -> ->. injection Hf0 as ->. injection Hf1 as ->. apply FP_inj in Hf2, Hf3, Hf6.
    apply FNatN_inj in Hf4, Hf7. injection Hf5 as ->. subst. repeat split.
  Qed.

  Theorem affg_challenge_inj st nh s t n1 n0 Kv Dv Fp Xp A Bx By E S F T nh' s' t' n1' n0' Kv' Dv' Fp' Xp' A' Bx' By' E' S' F' T' :
    forallb fld_wf (affg_fields pt_enc nh s t n1 n0 Kv Dv Fp Xp A Bx By E S F T) = true ->
    forallb fld_wf (affg_fields pt_enc nh' s' t' n1' n0' Kv' Dv' Fp' Xp' A' Bx' By' E' S' F' T') = true ->
    fst (write_any st (affg_challenge_items pt_enc nh s t n1 n0 Kv Dv Fp Xp A Bx By E S F T))
    = fst (write_any st (affg_challenge_items pt_enc nh' s' t' n1' n0' Kv' Dv' Fp' Xp' A' Bx' By' E' S' F' T')) ->
    (nh, s, t, n1, n0, Kv, Dv, Fp, A, By, E, S, F, T) = (nh', s', t', n1', n0', Kv', Dv', Fp', A', By', E', S', F', T')
    /\ Xp = Xp' /\ Bx = Bx'.
  Proof.
    intros W1 W2 H. unfold affg_challenge_items in H. inj_tac H.
    injection Hf as -> -> ->. injection Hf0 as ->. injection Hf1 as ->. injection Hf2 as ->. injection Hf3 as ->.
    injection Hf4 as ->. apply FP_inj in Hf5, Hf7. injection Hf6 as ->. injection Hf8 as ->.
    apply FNatN_inj in Hf9, Hf10, Hf11, Hf12. subst. repeat split.
  Qed.

  Theorem mulstar_challenge_inj st nh s t n0 C D X A Bx E S nh' s' t' n0' C' D' X' A' Bx' E' S' :
    forallb fld_wf (mulstar_fields pt_enc nh s t n0 C D X A Bx E S) = true ->
    forallb fld_wf (mulstar_fields pt_enc nh' s' t' n0' C' D' X' A' Bx' E' S') = true ->
    fst (write_any st (mulstar_challenge_items pt_enc nh s t n0 C D X A Bx E S))
    = fst (write_any st (mulstar_challenge_items pt_enc nh' s' t' n0' C' D' X' A' Bx' E' S')) ->
    (nh, s, t, n0, C, D, A, E, S) = (nh', s', t', n0', C', D', A', E', S') /\ X = X' /\ Bx = Bx'.
  Proof.
    intros W1 W2 H. unfold mulstar_challenge_items in H. inj_tac H.
    injection Hf as -> -> ->. injection Hf0 as ->. injection Hf1 as ->. injection Hf2 as ->.
    apply FP_inj in Hf3, Hf5. injection Hf4 as ->. apply FNatN_inj in Hf6, Hf7. subst. repeat split.
  Qed.

  Theorem encelg_challenge_inj st nh s t n0 C A B X S D Y Zp T nh' s' t' n0' C' A' B' X' S' D' Y' Zp' T' :
    forallb fld_wf (encelg_fields pt_enc nh s t n0 C A B X S D Y Zp T) = true ->
    forallb fld_wf (encelg_fields pt_enc nh' s' t' n0' C' A' B' X' S' D' Y' Zp' T') = true ->
    fst (write_any st (encelg_challenge_items pt_enc nh s t n0 C A B X S D Y Zp T))
    = fst (write_any st (encelg_challenge_items pt_enc nh' s' t' n0' C' A' B' X' S' D' Y' Zp' T')) ->
    (nh, s, t, n0, C, S, D, T) = (nh', s', t', n0', C', S', D', T') /\ A = A' /\ B = B' /\ X = X' /\ Y = Y' /\ Zp = Zp'.
  Proof.
    intros W1 W2 H. unfold encelg_challenge_items in H. inj_tac H.
    injection Hf as -> -> ->. injection Hf0 as ->. injection Hf1 as ->.
    apply FP_inj in Hf2, Hf3, Hf4, Hf7, Hf8. apply FNatN_inj in Hf5, Hf9. injection Hf6 as ->. subst. repeat split.
  Qed.
End ChallengeInj.

Ltac inj_tac0 H :=
  apply flds_stream_inj in H; [| assumption | assumption];
  cbv delta [nth_fields enc_fields dec_fields mul_fields affp_fields fac_fields mod_fields] beta in H;
  repeat match type of H with
         | _ :: _ = _ :: _ => let H1 := fresh "Hf" in apply cons_eq_inv in H as [H1 H]
         end.

Theorem nth_challenge_inj st n R A n' R' A' :
  forallb fld_wf (nth_fields n R A) = true -> forallb fld_wf (nth_fields n' R' A') = true ->
  fst (write_any st (nth_challenge_items n R A)) = fst (write_any st (nth_challenge_items n' R' A')) ->
  (n, R, A) = (n', R', A').
Proof.
  intros W1 W2 H. unfold nth_challenge_items in H. inj_tac0 H.
  injection Hf as ->. apply FNatN_inj in Hf0, Hf1. subst. reflexivity.
Qed.

Theorem enc_challenge_inj st nh s t n0 K S A C nh' s' t' n0' K' S' A' C' :
  forallb fld_wf (enc_fields nh s t n0 K S A C) = true -> forallb fld_wf (enc_fields nh' s' t' n0' K' S' A' C') = true ->
  fst (write_any st (enc_challenge_items nh s t n0 K S A C)) = fst (write_any st (enc_challenge_items nh' s' t' n0' K' S' A' C')) ->
  (nh, s, t, n0, K, S, A, C) = (nh', s', t', n0', K', S', A', C').
Proof.
  intros W1 W2 H. unfold enc_challenge_items in H. inj_tac0 H.
  injection Hf as -> -> ->. injection Hf0 as ->. injection Hf1 as ->. apply FNatN_inj in Hf2, Hf4. injection Hf3 as ->.
  subst. reflexivity.
Qed.

Theorem dec_challenge_inj st nh s t n0 C X S T A Gamma nh' s' t' n0' C' X' S' T' A' Gamma' :
  forallb fld_wf (dec_fields nh s t n0 C X S T A Gamma) = true ->
  forallb fld_wf (dec_fields nh' s' t' n0' C' X' S' T' A' Gamma') = true ->
  fst (write_any st (dec_challenge_items nh s t n0 C X S T A Gamma))
  = fst (write_any st (dec_challenge_items nh' s' t' n0' C' X' S' T' A' Gamma')) ->
  (nh, s, t, n0, C, X, S, T, A, Gamma) = (nh', s', t', n0', C', X', S', T', A', Gamma').
Proof.
  intros W1 W2 H. unfold dec_challenge_items in H. inj_tac0 H.
  injection Hf as -> -> ->. injection Hf0 as ->. injection Hf1 as ->. injection Hf2 as ->.
  apply FNatN_inj in Hf3, Hf4. injection Hf5 as ->. injection Hf6 as ->. subst. reflexivity.
Qed.

Theorem mul_challenge_inj st n X Y C A B n' X' Y' C' A' B' :
  forallb fld_wf (mul_fields n X Y C A B) = true -> forallb fld_wf (mul_fields n' X' Y' C' A' B') = true ->
  fst (write_any st (mul_challenge_items n X Y C A B)) = fst (write_any st (mul_challenge_items n' X' Y' C' A' B')) ->
  (n, X, Y, C, A, B) = (n', X', Y', C', A', B').
Proof.
  intros W1 W2 H. unfold mul_challenge_items in H. inj_tac0 H.
  injection Hf as ->. injection Hf0 as ->. injection Hf1 as ->. injection Hf2 as ->. injection Hf3 as ->. injection Hf4 as ->.
  reflexivity.
Qed.

Theorem affp_challenge_inj st nh s t n1 n0 Kv Dv Fp Xp A Bx By E S F T nh' s' t' n1' n0' Kv' Dv' Fp' Xp' A' Bx' By' E' S' F' T' :
  forallb fld_wf (affp_fields nh s t n1 n0 Kv Dv Fp Xp A Bx By E S F T) = true ->
  forallb fld_wf (affp_fields nh' s' t' n1' n0' Kv' Dv' Fp' Xp' A' Bx' By' E' S' F' T') = true ->
  fst (write_any st (affp_challenge_items nh s t n1 n0 Kv Dv Fp Xp A Bx By E S F T))
  = fst (write_any st (affp_challenge_items nh' s' t' n1' n0' Kv' Dv' Fp' Xp' A' Bx' By' E' S' F' T')) ->
  (nh, s, t, n1, n0, Kv, Dv, Fp, Xp, A, Bx, By, E, S, F, T) = (nh', s', t', n1', n0', Kv', Dv', Fp', Xp', A', Bx', By', E', S', F', T').
Proof.
  intros W1 W2 H. unfold affp_challenge_items in H. inj_tac0 H.
  injection Hf as -> -> ->. injection Hf0 as ->. injection Hf1 as ->. injection Hf2 as ->. injection Hf3 as ->.
  injection Hf4 as ->. injection Hf5 as ->. injection Hf6 as ->. injection Hf7 as ->. injection Hf8 as ->.
  apply FNatN_inj in Hf9, Hf10, Hf11, Hf12. subst. reflexivity.
Qed.

(* zkfac: P, Q, A, B, T are bound; Proof.Sigma is NOT an input of the challenge (see fac_sigma_malleable) *)
Theorem fac_challenge_inj st n0 nh s t P Q A B T n0' nh' s' t' P' Q' A' B' T' :
  forallb fld_wf (fac_fields n0 nh s t P Q A B T) = true -> forallb fld_wf (fac_fields n0' nh' s' t' P' Q' A' B' T') = true ->
  fst (write_any st (fac_challenge_items n0 nh s t P Q A B T)) = fst (write_any st (fac_challenge_items n0' nh' s' t' P' Q' A' B' T')) ->
  (n0, nh, s, t, P, Q, A, B, T) = (n0', nh', s', t', P', Q', A', B', T').
Proof.
  intros W1 W2 H. unfold fac_challenge_items in H. inj_tac0 H.
  injection Hf as ->. injection Hf0 as -> -> ->. apply FNatN_inj in Hf1, Hf2, Hf3, Hf4, Hf5. subst. reflexivity.
Qed.

Theorem prm_challenge_inj st n s t As n' s' t' As' :
  forallb fld_wf (prm_fields n s t As) = true -> forallb fld_wf (prm_fields n' s' t' As') = true ->
  fst (write_any st (prm_challenge_items n s t As)) = fst (write_any st (prm_challenge_items n' s' t' As')) ->
  (n, s, t) = (n', s', t') /\ As = As'.
Proof.
  intros W1 W2 H. unfold prm_challenge_items in H. apply flds_stream_inj in H; [| assumption | assumption].
  unfold prm_fields in H. apply cons_eq_inv in H as [Hf H]. injection Hf as -> -> ->.
  apply map_FBig_inj in H. subst. split; reflexivity.
Qed.

Theorem mod_challenge_inj st n w n' w' :
  forallb fld_wf (mod_fields n w) = true -> forallb fld_wf (mod_fields n' w') = true ->
  fst (write_any st (mod_challenge_items n w)) = fst (write_any st (mod_challenge_items n' w')) ->
  (n, w) = (n', w').
Proof.
  intros W1 W2 H. unfold mod_challenge_items in H. inj_tac0 H.
  injection Hf as ->. injection Hf0 as ->. reflexivity.
Qed.

(* ================================================================================================ *)
(* F. what the current code does NOT enforce                                                        *)
(* ================================================================================================ *)

Lemma guard_true_inv b k : guard b k = Some true -> b = true /\ k = Some true.
Proof. destruct b; cbn [guard]; [auto | discriminate]. Qed.

(* zkfac: Sigma is sent with the first message in the paper (Fig. 28) but pkg/zk/fac does not hash it:
   from any accepted proof, (Sigma + d, V + d e) is accepted as well, for every d *)
Theorem fac_sigma_not_bound n0 nh s t P Q A B T sigma z1 z2 w1 w2 v e d :
  1 < nh -> unit nh s -> unit nh t -> 0 <= n0 ->
  zk_bounded (sigma + d) = true -> zk_bounded (v + d * e) = true ->
  fac_verify n0 nh s t P Q A B T sigma z1 z2 w1 w2 v e = Some true ->
  fac_verify n0 nh s t P Q A B T (sigma + d) z1 z2 w1 w2 (v + d * e) e = Some true.
Proof.
  intros Hnh Hs Ht Hn0 Hbs Hbv H. assert (nz : nh <> 0) by lia.
  unfold fac_verify in *. cbv zeta in *.
  apply guard_true_inv in H as [Hv H]. apply guard_true_inv in H as [Hb H].
  apply guard_true_inv in H as [H1 H]. apply guard_true_inv in H as [H2 H].
  apply guard_true_inv in H as [H3 H]. apply guard_true_inv in H as [H4 _].
  repeat (apply andb_true_iff in Hb as [Hb ?]).
  rewrite Hv, Hbs, Hbv. repeat match goal with E : zk_bounded _ = true |- _ => rewrite E; clear E end.
  rewrite H1, H2, H4. cbn [andb guard]. apply Z.eqb_eq in H3.
  assert (Hsn : unit nh (powmod nh s n0)) by (apply unit_powmod; [lia | assumption]).
  rewrite expI_mulmod_base in H3 by (try apply unit_expI; assumption).
  rewrite expI_expI in H3 by assumption.
  rewrite expI_mulmod_base by (try apply unit_expI; assumption).
  rewrite expI_expI by assumption.
  replace ((sigma + d) * e) with (sigma * e + d * e) by ring.
  rewrite (expI_add nh t (sigma * e) (d * e)), (expI_add nh t v (d * e)) by assumption.
  assert (E : (expI nh Q z1 * (expI nh t v * expI nh t (d * e) mod nh)) mod nh
              = (expI nh (powmod nh s n0) e * (expI nh t (sigma * e) * expI nh t (d * e) mod nh) mod nh * T) mod nh).
  { transitivity (((expI nh Q z1 * expI nh t v) mod nh * expI nh t (d * e)) mod nh); [modring nh nz|].
    rewrite H3. modring nh nz. }
  rewrite E, Z.eqb_refl. reflexivity.
Qed.

(* zkmod: before the fix "zkmod.Verify validates W and the responses" Proof.IsValid was never called by Verify, so X and
   Z were not range checked: adding N to a response of an accepted proof gave an accepted proof with a response
   outside [0, N).  Witness for the old verifier [mod_verify_v0]: N = 7 * 11, w = 2. *)
Definition mod_example_ys : list Z := [5; 10; 31; 76].
Definition mod_example_rs : list (bool * bool * Z * Z) := mod_respond 7 11 2 mod_example_ys.
Definition mod_shift (n : Z) (r : bool * bool * Z * Z) : bool * bool * Z * Z :=
  let '(a, b, x, z) := r in (a, b, x + n, z + n).

Lemma mod_example_honest : mod_verify 77 2 mod_example_rs mod_example_ys = Some true.
Proof. vm_compute. reflexivity. Qed.

Theorem mod_v0_response_range_refuted :
  exists n w rs ys,
    mod_verify_v0 n w rs ys = Some true /\
    Forall (fun r : bool * bool * Z * Z => let '(_, _, x, z) := r in ~ (0 <= x < n) /\ ~ (0 <= z < n)) rs /\ rs <> [] /\
    mod_verify n w rs ys = Some false.
Proof.
  exists 77, 2, (map (mod_shift 77) mod_example_rs), mod_example_ys. split; [vm_compute; reflexivity|].
  split; [|split; [discriminate | vm_compute; reflexivity]].
  replace (map (mod_shift 77) mod_example_rs)
    with ltac:(let l := eval vm_compute in (map (mod_shift 77) mod_example_rs) in exact l) by (vm_compute; reflexivity).
  repeat constructor; lia.
Qed.

(* the current verifier: every X and Z must lie in [1, N) (and be a unit) *)
Lemma valid_big_range n x : valid_big n x = true -> 0 < x < n.
Proof.
  unfold valid_big. rewrite !andb_true_iff, !Z.ltb_lt. tauto.
Qed.

Theorem mod_range_enforced n w rs ys :
  Exists (fun r : bool * bool * Z * Z => let '(_, _, x, z) := r in ~ (0 < x < n) \/ ~ (0 < z < n)) rs ->
  mod_verify n w rs ys = Some false.
Proof.
  intro HE. assert (E : forallb (mod_resp_valid n) rs = false).
  { induction HE as [[[[a b] x] z] l H|r l _ IH]; cbn [forallb].
    - unfold mod_resp_valid. destruct (valid_big n x) eqn:Ex, (valid_big n z) eqn:Ez; try reflexivity.
      apply valid_big_range in Ex, Ez. tauto.
    - rewrite IH. apply andb_false_r. }
  unfold mod_verify. rewrite E. unfold guard.
  repeat match goal with |- (if ?b then _ else _) = _ => destruct b end; reflexivity.
Qed.

(* ================================================================================================ *)
(* G. zkmod: one repetition of the honest prover verifies (partial: see mod_complete_todo in C10.v)  *)
(* ================================================================================================ *)

Lemma pow_1_mod n a k : 0 < n -> 0 <= k -> a mod n = 1 mod n -> a ^ k mod n = 1 mod n.
Proof.
  intros Hn Hk Ha. rewrite Zpower_mod by lia. rewrite Ha. rewrite <- Zpower_mod by lia.
  rewrite Z.pow_1_l by lia. reflexivity.
Qed.

Section ModResponse.
  Variables p q : Z.
  Hypothesis Hp : 1 < p.
  Hypothesis Hq : 1 < q.
  Hypothesis Hpq : Z.gcd p q = 1.
  Hypothesis Hp4 : p mod 4 = 3.
  Hypothesis Hq4 : q mod 4 = 3.
  Let n := p * q.
  Let phi := (p - 1) * (q - 1).
  Let m := (p / 2) * (q / 2).

  Let Hn : 1 < n. Proof. unfold n. nia. Qed.

  Lemma p_half : p = 2 * (p / 2) + 1 /\ Z.odd (p / 2) = true /\ 0 < p / 2.
  Proof.
    pose proof (Z.div_mod p 4 ltac:(lia)) as H4. rewrite Hp4 in H4.
    assert (E : p / 2 = 2 * (p / 4) + 1).
    { symmetry. apply (Z.div_unique p 2 (2 * (p / 4) + 1) 1); lia. }
    pose proof (Z.div_pos p 4 ltac:(lia) ltac:(lia)).
    rewrite E. repeat split; try lia. rewrite Z.add_comm, Z.odd_add_mul_2. reflexivity.
  Qed.
  Lemma q_half : q = 2 * (q / 2) + 1 /\ Z.odd (q / 2) = true /\ 0 < q / 2.
  Proof.
    pose proof (Z.div_mod q 4 ltac:(lia)) as H4. rewrite Hq4 in H4.
    assert (E : q / 2 = 2 * (q / 4) + 1).
    { symmetry. apply (Z.div_unique q 2 (2 * (q / 4) + 1) 1); lia. }
    pose proof (Z.div_pos q 4 ltac:(lia) ltac:(lia)).
    rewrite E. repeat split; try lia. rewrite Z.add_comm, Z.odd_add_mul_2. reflexivity.
  Qed.

  Lemma phi_4m : phi = 4 * m /\ Z.odd m = true /\ 0 < m.
  Proof.
    destruct p_half as [Ep [Op Pp]], q_half as [Eq [Oq Pq]]. unfold phi, m.
    split; [rewrite Ep at 1; rewrite Eq at 1; ring|]. split; [rewrite Z.odd_mul, Op, Oq; reflexivity | nia].
  Qed.

  (* a residue that passes isQRmodPQ has order dividing m = phi/4 *)
  Lemma qr_pq_order y : is_qr_pq p q y = true -> y ^ m mod n = 1 mod n.
  Proof.
    unfold is_qr_pq. rewrite andb_true_iff, !Z.eqb_eq. intros [H1 H2].
    destruct p_half as [_ [_ Pp]], q_half as [_ [_ Pq]].
    rewrite powmod_spec in H1, H2 by lia.
    unfold n. apply crt_unique; try lia.
    - apply Z.mod_divide; [lia|]. rewrite Zminus_mod. unfold m. rewrite Z.pow_mul_r by lia.
      rewrite (pow_1_mod p (y ^ (p / 2)) (q / 2)) by (try lia; rewrite H1; symmetry; apply Z.mod_small; lia).
      rewrite Z.sub_diag. apply Z.mod_0_l. lia.
    - apply Z.mod_divide; [lia|]. rewrite Zminus_mod. unfold m. rewrite Z.mul_comm, Z.pow_mul_r by lia.
      rewrite (pow_1_mod q (y ^ (q / 2)) (p / 2)) by (try lia; rewrite H2; symmetry; apply Z.mod_small; lia).
      rewrite Z.sub_diag. apply Z.mod_0_l. lia.
  Qed.

  (* x = y'^(((phi+4)/8)^2 mod phi) is a fourth root of such a residue *)
  Lemma fourth_root_ok y : y ^ m mod n = 1 mod n ->
    let x := powmod n y (fourth_root_exp phi) in (x * x * (x * x)) mod n = y mod n.
  Proof.
    intros Hy x. destruct phi_4m as [Ephi [Om Pm]].
    assert (Hphi : 0 < phi) by lia.
    set (e' := (phi + 4) / 8).
    assert (Ee : 2 * e' = m + 1).
    { unfold e'. rewrite Ephi. destruct (Zodd_ex m (proj1 (Zodd_bool_iff m) Om)) as [j Hj].
      replace (4 * m + 4) with ((j + 1) * 8) by lia. rewrite Z.div_mul by lia. lia. }
    assert (He' : 0 <= e') by lia.
    assert (Hfe : 0 <= fourth_root_exp phi) by (unfold fourth_root_exp; cbv zeta; apply Z.mod_pos_bound; lia).
    unfold x. rewrite powmod_spec by lia.
    replace (y ^ fourth_root_exp phi mod n * (y ^ fourth_root_exp phi mod n)
             * (y ^ fourth_root_exp phi mod n * (y ^ fourth_root_exp phi mod n)))
      with ((y ^ fourth_root_exp phi mod n) ^ 4) by ring.
    rewrite <- Zpower_mod by lia. rewrite <- Z.pow_mul_r by lia. rewrite (Z.mul_comm _ 4), Z.pow_mul_r by lia.
    unfold fourth_root_exp. cbv zeta. fold e'.
    assert (Hy4 : (y ^ 4) ^ phi mod n = 1 mod n).
    { rewrite <- Z.pow_mul_r by lia. rewrite Ephi. replace (4 * (4 * m)) with (m * 16) by ring.
      rewrite Z.pow_mul_r by lia. apply pow_1_mod; try lia; exact Hy. }
    rewrite (pow_mod_order n (y ^ 4) phi (e' * e')) by (try assumption; try lia; nia).
    rewrite <- Z.pow_mul_r by nia.
    replace (4 * (e' * e')) with (m * (m + 2) + 1) by nia.
    rewrite Z.pow_add_r, Z.pow_1_r, Z.pow_mul_r by nia.
    rewrite <- Z.mul_mod_idemp_l by lia. rewrite (pow_1_mod n (y ^ m) (m + 2)) by (try assumption; lia).
    rewrite Z.mul_mod_idemp_l by lia. rewrite Z.mul_1_l. reflexivity.
  Qed.

  (* the candidate chosen by makeQuadraticResidue is (-1)^a w^b y modulo N *)
  Lemma make_qr_value w y : let '(a, b, y') := make_qr p q w y in
    y' mod n = ((if a then - y else y) * (if b then w else 1)) mod n.
  Proof.
    unfold make_qr. fold n. assert (nz : n <> 0) by lia.
    destruct (is_qr_pq p q (y mod n)); [modring n nz|].
    destruct (is_qr_pq p q (- (y mod n) mod n)); [modring n nz|].
    destruct (is_qr_pq p q ((- (y mod n) mod n * w) mod n)); modring n nz.
  Qed.

  (* one repetition: under Euler's theorem for y, N invertible modulo phi, and the chosen candidate passing isQRmodPQ
     (always true for the first three candidates; for the fourth it is the quadratic-residuosity fact left open) *)
  Theorem mod_response_complete w y :
    0 <= y < n ->
    y ^ phi mod n = 1 mod n ->
    (modinv phi n * n) mod phi = 1 ->
    (let '(_, _, y') := make_qr p q w y in is_qr_pq p q y' = true) ->
    mod_response n w y (mod_respond1 p q w y) = true.
  Proof.
    intros Hy Heuler Hinv Hqr. destruct phi_4m as [Ephi [Om Pm]]. assert (Hphi : 1 < phi) by lia.
    unfold mod_respond1. fold n phi. cbv zeta.
    pose proof (make_qr_value w y) as Hval.
    destruct (make_qr p q w y) as [[a b] y'].
    unfold mod_response. apply andb_true_iff. split; apply Z.eqb_eq.
    - pose proof (modinv_range phi n ltac:(lia)) as Hr.
      rewrite !powmod_spec by lia. rewrite <- Zpower_mod by lia. rewrite <- Z.pow_mul_r by lia.
      pose proof (Z.div_mod (modinv phi n * n) phi ltac:(lia)) as Hd. rewrite Hinv in Hd.
      assert (0 <= modinv phi n * n / phi) by (apply Z.div_pos; nia).
      rewrite Hd. rewrite Z.pow_add_r, Z.pow_1_r, Z.pow_mul_r by lia.
      rewrite <- Z.mul_mod_idemp_l by lia. rewrite (pow_1_mod n (y ^ phi)) by (try assumption; lia).
      rewrite Z.mul_mod_idemp_l by lia. rewrite Z.mul_1_l. apply Z.mod_small. exact Hy.
    - rewrite <- Hval. apply fourth_root_ok. apply qr_pq_order. exact Hqr.
  Qed.
End ModResponse.

(* ================================================================================================ *)
(* H. per-system phrasing of the slack and of the rejected degenerate responses                     *)
(* ================================================================================================ *)

Lemma enc_range_slack n0 k rho alpha r mu gamma e :
  Z.abs e < 2 ^ 256 -> Z.abs k <= 2 ^ 256 -> Z.abs alpha <= 2 ^ 768 - 2 ^ 512 ->
  in_leps (fst (fst (enc_respond n0 k rho alpha r mu gamma e))) = true.
Proof. intros. cbn [enc_respond fst]. apply leps_slack; assumption. Qed.

Lemma affg_range_slack n1 n0 x y sn r alpha beta rho rhoy gamma m delta mu e :
  Z.abs e < 2 ^ 256 -> Z.abs x <= 2 ^ 256 -> Z.abs y <= 2 ^ 1280 ->
  Z.abs alpha <= 2 ^ 768 - 2 ^ 512 -> Z.abs beta <= 2 ^ 1792 - 2 ^ 1536 ->
  let '(z1, z2, _, _, _, _) := affg_respond n1 n0 x y sn r alpha beta rho rhoy gamma m delta mu e in
  in_leps z1 = true /\ in_lprimeeps z2 = true.
Proof. intros. cbn [affg_respond]. split; [apply leps_slack | apply lprimeeps_slack]; assumption. Qed.

Lemma affp_range_slack n1 n0 x y sn rx r alpha beta rho rhox rhoy gamma m delta mu e :
  Z.abs e < 2 ^ 256 -> Z.abs x <= 2 ^ 256 -> Z.abs y <= 2 ^ 1280 ->
  Z.abs alpha <= 2 ^ 768 - 2 ^ 512 -> Z.abs beta <= 2 ^ 1792 - 2 ^ 1536 ->
  let '(z1, z2, _, _, _, _, _) := affp_respond n1 n0 x y sn rx r alpha beta rho rhox rhoy gamma m delta mu e in
  in_leps z1 = true /\ in_lprimeeps z2 = true.
Proof. intros. cbn [affp_respond]. split; [apply leps_slack | apply lprimeeps_slack]; assumption. Qed.

Lemma mulstar_range_slack n0 x rho alpha r gamma m e :
  Z.abs e < 2 ^ 256 -> Z.abs x <= 2 ^ 256 -> Z.abs alpha <= 2 ^ 768 - 2 ^ 512 ->
  in_leps (fst (fst (mulstar_respond n0 x rho alpha r gamma m e))) = true.
Proof. intros. cbn [mulstar_respond fst]. apply leps_slack; assumption. Qed.

Lemma encelg_range_slack q n0 x rho b alpha mu r beta gamma e :
  Z.abs e < 2 ^ 256 -> Z.abs x <= 2 ^ 256 -> Z.abs alpha <= 2 ^ 768 - 2 ^ 512 ->
  in_leps (fst (fst (fst (encelg_respond q n0 x rho b alpha mu r beta gamma e)))) = true.
Proof. intros. cbn [encelg_respond fst]. apply leps_slack; assumption. Qed.

Lemma fac_range_slack p q alpha beta mu nu sigma r x y e :
  Z.abs e < 2 ^ 256 -> Z.abs p <= 2 ^ 1024 -> Z.abs q <= 2 ^ 1024 -> Z.abs alpha <= 2 ^ 1792 -> Z.abs beta <= 2 ^ 1792 ->
  let '(z1, z2, _, _, _) := fac_respond p q alpha beta mu nu sigma r x y e in
  in_leps1rootn z1 = true /\ in_leps1rootn z2 = true.
Proof. intros. cbn [fac_respond]. split; apply fac_slack; assumption. Qed.

(* zkdec / zkmul: the proviso is EncWithNonce's guard *)
Lemma dec_range_slack n0 y rho alpha mu nu r e :
  Z.abs e < 2 ^ 256 -> Z.abs y <= 2 ^ 256 -> Z.abs alpha <= n0 / 2 - 2 ^ 512 ->
  in_plaintext n0 (fst (fst (dec_respond n0 y rho alpha mu nu r e))) = true.
Proof.
  intros He Hy Ha. apply in_plaintext_iff. cbn [dec_respond fst].
  assert (Z.abs (e * y) < 2 ^ 512).
  { rewrite Z.abs_mul. change (2 ^ 512) with (2 ^ 256 * 2 ^ 256). pose proof (Z.abs_nonneg e). pose proof (Z.abs_nonneg y). nia. }
  pose proof (Z.abs_triangle (e * y) alpha). lia.
Qed.
Lemma mul_range_slack n x rho rhox alpha r s e :
  Z.abs e < 2 ^ 256 -> Z.abs x <= 2 ^ 256 -> Z.abs alpha <= n / 2 - 2 ^ 512 ->
  in_plaintext n (fst (fst (mul_respond n x rho rhox alpha r s e))) = true.
Proof.
  intros He Hx Ha. apply in_plaintext_iff. cbn [mul_respond fst].
  assert (Z.abs (e * x) < 2 ^ 512).
  { rewrite Z.abs_mul. change (2 ^ 512) with (2 ^ 256 * 2 ^ 256). pose proof (Z.abs_nonneg e). pose proof (Z.abs_nonneg x). nia. }
  pose proof (Z.abs_triangle (e * x) alpha). lia.
Qed.

(* group-only systems: the only "range" of a response is being a non-zero scalar; zero is rejected *)
Section ZeroRejected.
  Context {G : Type}.
  Variables (gadd : G -> G -> G) (smul : Z -> G -> G) (geqb : G -> G -> bool) (gis_id : G -> bool) (gbase : G) (q : Z).
  Lemma sch_zero_rejected gen X C z e : sc_zero q z = true -> sch_verify gadd smul geqb gis_id q gen X C z e = Some false.
  Proof. intro H. unfold sch_verify. rewrite H. reflexivity. Qed.
  Lemma log_zero_rejected H X Y A B C z1 z2 e :
    sc_zero q z1 = true \/ sc_zero q z2 = true -> log_verify gadd smul geqb gis_id gbase q H X Y A B C z1 z2 e = Some false.
  Proof. intros [E|E]; unfold log_verify; rewrite E; rewrite ?orb_true_r; cbn [orb negb]; guards. Qed.
  Lemma elog_zero_rejected L M X H Y A Np B z u e :
    sc_zero q z = true \/ sc_zero q u = true -> elog_verify gadd smul geqb gis_id gbase q L M X H Y A Np B z u e = Some false.
  Proof. intros [E|E]; unfold elog_verify; rewrite E; rewrite ?orb_true_r; cbn [orb negb]; guards. Qed.
End ZeroRejected.
