From Coq Require Import String.
From Coq Require Import List NArith ZArith Bool Lia.
From MPS Require Import Model.Bytes Model.Framing Proofs.BytesProofs.
Import ListNotations.
Open Scope N_scope.

Lemma wf_item_lens i : wf_item i = true ->
  len (dom i) < 256 ^ N.of_nat 8 /\ len (dat i) < 256 ^ N.of_nat 8.
Proof.
  unfold wf_item. rewrite !andb_true_iff. intros [[[_ _] H1] H2].
  apply N.ltb_lt in H1, H2. change (256 ^ N.of_nat 8) with (2 ^ 64). now split.
Qed.

Lemma cons_eq_inv {A} (x y : A) a b : x :: a = y :: b -> x = y /\ a = b.
Proof. intros [= -> ->]. now split. Qed.

(* frame is prefix-free: a frame followed by anything determines the item and the rest *)
Theorem frame_prefix_free i1 i2 r1 r2 :
  wf_item i1 = true -> wf_item i2 = true ->
  frame i1 ++ r1 = frame i2 ++ r2 -> i1 = i2 /\ r1 = r2.
Proof.
  intros W1 W2 E.
  destruct (wf_item_lens _ W1) as [Ld1 Lt1]. destruct (wf_item_lens _ W2) as [Ld2 Lt2].
  destruct i1 as [d1 t1], i2 as [d2 t2]. unfold frame in E. cbn [dom dat] in *.
  repeat rewrite <- app_assoc in E. cbn [app] in E. apply cons_eq_inv in E as [_ E].
  apply app_eq_length in E as [E1 E]; [| unfold be64; now rewrite !be_bytes_length].
  apply be_bytes_inj in E1; try assumption. apply len_lt_inj in E1.
  apply app_eq_length in E as [-> E]; [| assumption].
  apply app_eq_length in E as [E2 E]; [| unfold be64; now rewrite !be_bytes_length].
  apply be_bytes_inj in E2; try assumption. apply len_lt_inj in E2.
  apply app_eq_length in E as [-> E]; [| assumption].
  injection E as ->. now split.
Qed.

Lemma frame_nonempty i : frame i <> [].
Proof. unfold frame. discriminate. Qed.

Theorem frames_inj l1 : forall l2,
  forallb wf_item l1 = true -> forallb wf_item l2 = true ->
  frames l1 = frames l2 -> l1 = l2.
Proof.
  induction l1 as [|i1 l1 IH]; intros [|i2 l2] W1 W2 E; cbn [frames flat_map] in *.
  - reflexivity.
  - exfalso. symmetry in E. apply app_eq_nil in E as [E _]. now apply frame_nonempty in E.
  - exfalso. apply app_eq_nil in E as [E _]. now apply frame_nonempty in E.
  - cbn [forallb] in W1, W2. apply andb_true_iff in W1 as [Wi1 W1], W2 as [Wi2 W2].
    apply frame_prefix_free in E as [-> E]; try assumption.
    f_equal. now apply IH.
Qed.

(* C19 core: the absorbed byte stream is an injective function of the item sequence *)
Theorem stream_inj st l1 l2 :
  forallb wf_item l1 = true -> forallb wf_item l2 = true ->
  stream st l1 = stream st l2 -> l1 = l2.
Proof.
  intros W1 W2 E. unfold stream in E. apply app_inv_head in E. now apply frames_inj.
Qed.

Lemma frames_app l1 l2 : frames (l1 ++ l2) = frames l1 ++ frames l2.
Proof. unfold frames. apply flat_map_app. Qed.

(* Clone / Fork: writing more items extends the stream *)
Theorem stream_app st l1 l2 : stream st (l1 ++ l2) = stream (stream st l1) l2.
Proof. unfold stream. now rewrite frames_app, app_assoc. Qed.

(* Two streams that start from the same state and one is a strict extension of the other differ *)
Theorem stream_ext_neq st l i l' : stream st l <> stream st (l ++ i :: l').
Proof.
  unfold stream. rewrite frames_app. cbn [frames flat_map]. intro E.
  apply app_inv_head in E. rewrite <- (app_nil_r (frames l)) in E at 1.
  apply app_inv_head in E. symmetry in E. apply app_eq_nil in E as [E _].
  now apply frame_nonempty in E.
Qed.

Section Digest.
  Variable H : bytes -> bytes.
  Definition collision (x y : bytes) : Prop := x <> y /\ H x = H y.

  (* equal digests come from equal item sequences, or an explicit collision of H is exhibited *)
  Theorem digest_binding st l1 l2 :
    forallb wf_item l1 = true -> forallb wf_item l2 = true ->
    H (stream st l1) = H (stream st l2) ->
    l1 = l2 \/ collision (stream st l1) (stream st l2).
  Proof.
    intros W1 W2 E.
    destruct (list_eq_dec N.eq_dec (stream st l1) (stream st l2)) as [Es|Ns].
    - left. now apply stream_inj with st.
    - right. now split.
  Qed.
End Digest.

(* ------------------------------------------------------------------ *)
(* The attack shapes named in the property, as corollaries of stream_inj. *)

Definition it (d t : bytes) := mkItem d t.

(* moving a byte across the boundary of two adjacent items *)
Corollary shift_boundary_changes_stream st d1 d2 a b x pre post :
  forallb wf_item (pre ++ it d1 (a ++ [x]) :: it d2 b :: post) = true ->
  forallb wf_item (pre ++ it d1 a :: it d2 (x :: b) :: post) = true ->
  stream st (pre ++ it d1 (a ++ [x]) :: it d2 b :: post)
  <> stream st (pre ++ it d1 a :: it d2 (x :: b) :: post).
Proof.
  intros W1 W2 E. apply stream_inj in E; try assumption.
  apply app_inv_head in E. injection E as E _.
  rewrite <- (app_nil_r a) in E at 2. apply app_inv_head in E. discriminate.
Qed.

(* moving a byte between the domain tag and the data of one item *)
Corollary move_between_tag_and_data_changes_stream st d t x pre post :
  forallb wf_item (pre ++ it (d ++ [x]) t :: post) = true ->
  forallb wf_item (pre ++ it d (x :: t) :: post) = true ->
  stream st (pre ++ it (d ++ [x]) t :: post) <> stream st (pre ++ it d (x :: t) :: post).
Proof.
  intros W1 W2 E. apply stream_inj in E; try assumption.
  apply app_inv_head in E. injection E as E _.
  rewrite <- (app_nil_r d) in E at 2. apply app_inv_head in E. discriminate.
Qed.

(* splitting one item in two (equivalently merging two into one) *)
Corollary split_merge_changes_stream st d a b d' pre post :
  forallb wf_item (pre ++ it d (a ++ b) :: post) = true ->
  forallb wf_item (pre ++ it d a :: it d' b :: post) = true ->
  stream st (pre ++ it d (a ++ b) :: post) <> stream st (pre ++ it d a :: it d' b :: post).
Proof.
  intros W1 W2 E. apply stream_inj in E; try assumption.
  apply app_inv_head in E. apply (f_equal (@length item)) in E.
  cbn [length] in E. lia.
Qed.

(* same bytes under a different type tag *)
Corollary retag_changes_stream st d d' t pre post :
  d <> d' ->
  forallb wf_item (pre ++ it d t :: post) = true ->
  forallb wf_item (pre ++ it d' t :: post) = true ->
  stream st (pre ++ it d t :: post) <> stream st (pre ++ it d' t :: post).
Proof.
  intros N W1 W2 E. apply stream_inj in E; try assumption.
  apply app_inv_head in E. injection E as E. contradiction.
Qed.

(* any reordering that changes the sequence changes the stream *)
Corollary permute_changes_stream st l1 l2 :
  l1 <> l2 -> forallb wf_item l1 = true -> forallb wf_item l2 = true ->
  stream st l1 <> stream st l2.
Proof. intros N W1 W2 E. apply N. now apply stream_inj with st. Qed.

(* ------------------------------------------------------------------ *)
(* write_any produces init ++ frames of the encoded items *)

Fixpoint enc_all (vs : list hval) : option (list item) :=
  match vs with
  | [] => Some []
  | v :: vs' => match enc_hval v, enc_all vs' with
                | Some i, Some l => Some (i :: l)
                | _, _ => None end
  end.

Lemma write_any_ok vs : forall st l, enc_all vs = Some l -> write_any st vs = (stream st l, true).
Proof.
  induction vs as [|v vs IH]; intros st l E; cbn [enc_all write_any] in *.
  - injection E as <-. unfold stream. cbn. now rewrite app_nil_r.
  - destruct (enc_hval v) as [i|]; [|discriminate].
    destruct (enc_all vs) as [l'|] eqn:E'; [|discriminate]. injection E as <-.
    rewrite (IH (st ++ frame i) l' eq_refl). unfold stream. cbn [frames flat_map].
    now rewrite app_assoc.
Qed.

Lemma write_any_true_enc vs : forall st st', write_any st vs = (st', true) ->
  exists l, enc_all vs = Some l /\ st' = stream st l.
Proof.
  induction vs as [|v vs IH]; intros st st' E; cbn [enc_all write_any] in *.
  - injection E as <-. exists []. unfold stream. cbn. now rewrite app_nil_r.
  - destruct (enc_hval v) as [i|]; [|discriminate].
    destruct (IH _ _ E) as [l [-> ->]]. exists (i :: l). split; [reflexivity|].
    unfold stream. cbn [frames flat_map]. now rewrite app_assoc.
Qed.

(* ------------------------------------------------------------------ *)
(* Commitments *)

Section CommitBinding.
  Variable H : bytes -> bytes.

  Lemma commit_input_stream st vs d inp :
    commit_input st vs d = Some inp ->
    exists l, enc_all vs = Some l /\ inp = stream st (l ++ [mkItem (str "Decommitment"%string) d]).
  Proof.
    unfold commit_input. destruct (write_any st vs) as [st' [|]] eqn:E; [|discriminate].
    cbn [enc_hval opt_item]. intros [= <-].
    destruct (write_any_true_enc _ _ _ E) as [l [El ->]]. exists l. split; [assumption|].
    rewrite stream_app. unfold stream at 2. cbn [frames flat_map]. now rewrite app_nil_r.
  Qed.

  Theorem decommit_validates_lengths st c d vs :
    decommit H st c d vs = true ->
    length c = 64%nat /\ length d = 32%nat /\ all_zero c = false /\ all_zero d = false.
  Proof.
    unfold decommit, commitment_valid, decommitment_valid.
    rewrite !andb_true_iff, !negb_true_iff, !Nat.eqb_eq. tauto.
  Qed.

  (* A commitment opens to one (item sequence, decommitment) only -- or H collides, explicitly. *)
  Theorem commit_binding st c d d' vs vs' l l' :
    enc_all vs = Some l -> enc_all vs' = Some l' ->
    forallb wf_item l = true -> forallb wf_item l' = true ->
    wf_bytes d = true -> wf_bytes d' = true ->
    decommit H st c d vs = true -> decommit H st c d' vs' = true ->
    (l = l' /\ d = d') \/
    exists x y, commit_input st vs d = Some x /\ commit_input st vs' d' = Some y /\ collision H x y.
  Proof.
    intros El El' Wl Wl' Wd Wd' D1 D2.
    pose proof (decommit_validates_lengths _ _ _ _ D1) as (_ & Ld & _ & _).
    pose proof (decommit_validates_lengths _ _ _ _ D2) as (_ & Ld' & _ & _).
    unfold decommit in D1, D2. apply andb_true_iff in D1 as [_ D1], D2 as [_ D2].
    destruct (commit_input st vs d) as [x|] eqn:Ex; [|discriminate].
    destruct (commit_input st vs' d') as [y|] eqn:Ey; [|discriminate].
    apply bytes_eqb_eq in D1, D2.
    destruct (commit_input_stream _ _ _ _ Ex) as [m [Em ->]].
    destruct (commit_input_stream _ _ _ _ Ey) as [m' [Em' ->]].
    rewrite El in Em. injection Em as <-. rewrite El' in Em'. injection Em' as <-.
    set (s1 := stream st (l ++ [mkItem (str "Decommitment"%string) d])) in *.
    set (s2 := stream st (l' ++ [mkItem (str "Decommitment"%string) d'])) in *.
    destruct (list_eq_dec N.eq_dec s1 s2) as [Es|Ns].
    - left. unfold s1, s2 in Es. apply stream_inj in Es.
      + apply app_inj_tail in Es as [-> Ed]. injection Ed as ->. now split.
      + rewrite forallb_app, Wl. cbn. unfold wf_item. cbn [dom dat].
        rewrite Wd. unfold len. rewrite Ld. reflexivity.
      + rewrite forallb_app, Wl'. cbn. unfold wf_item. cbn [dom dat].
        rewrite Wd'. unfold len. rewrite Ld'. reflexivity.
    - right. exists s1, s2. repeat split; try assumption. congruence.
  Qed.
End CommitBinding.

(* ------------------------------------------------------------------ *)
(* IDSlice payload encoders *)

Lemma idslice_v0_not_injective :
  exists a b : list bytes, a <> b /\ idslice_data_v0 a = idslice_data_v0 b.
Proof.
  exists [[97]; [98; 99]], [[97; 98]; [99]]. split; [discriminate | reflexivity].
Qed.

Lemma idslice_body_inj l1 : forall l2 r1 r2,
  Forall (fun id => len id < 256 ^ N.of_nat 8) l1 ->
  Forall (fun id => len id < 256 ^ N.of_nat 8) l2 ->
  length l1 = length l2 ->
  flat_map (fun id => be64 (len id) ++ id) l1 ++ r1 =
  flat_map (fun id => be64 (len id) ++ id) l2 ++ r2 -> l1 = l2 /\ r1 = r2.
Proof.
  induction l1 as [|a l1 IH]; intros [|b l2] r1 r2 F1 F2 L E; try discriminate.
  - now split.
  - cbn [flat_map] in E. repeat rewrite <- app_assoc in E.
    inversion F1 as [|? ? Ha F1']; inversion F2 as [|? ? Hb F2']; subst.
    apply app_eq_length in E as [E1 E]; [| unfold be64; now rewrite !be_bytes_length].
    apply be_bytes_inj in E1; try assumption. apply len_lt_inj in E1.
    apply app_eq_length in E as [-> E]; [| assumption].
    injection L as L. destruct (IH l2 r1 r2 F1' F2' L E) as [-> ->]. now split.
Qed.

Theorem idslice_data_inj l1 l2 :
  Forall (fun id => len id < 256 ^ N.of_nat 8) l1 ->
  Forall (fun id => len id < 256 ^ N.of_nat 8) l2 ->
  N.of_nat (length l1) < 256 ^ N.of_nat 8 -> N.of_nat (length l2) < 256 ^ N.of_nat 8 ->
  idslice_data l1 = idslice_data l2 -> l1 = l2.
Proof.
  intros F1 F2 B1 B2 E. unfold idslice_data in E.
  apply app_eq_length in E as [E1 E]; [| unfold be64; now rewrite !be_bytes_length].
  apply be_bytes_inj in E1; try assumption. apply Nat2N.inj in E1.
  rewrite <- (app_nil_r (flat_map _ l1)), <- (app_nil_r (flat_map _ l2)) in E.
  now destruct (idslice_body_inj _ _ _ _ F1 F2 E1 E) as [-> _].
Qed.
