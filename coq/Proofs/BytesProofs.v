From Coq Require Import List NArith ZArith Bool Lia.
From MPS Require Import Model.Bytes.
Import ListNotations.
Open Scope N_scope.

Lemma le_bytes_length k : forall n, length (le_bytes k n) = k.
Proof. induction k as [|k IH]; intro n; simpl; [reflexivity | now rewrite IH]. Qed.

Lemma be_bytes_length k n : length (be_bytes k n) = k.
Proof. unfold be_bytes. now rewrite rev_length, le_bytes_length. Qed.

Lemma pow256_pos k : 0 < 256 ^ k.
Proof. apply N.neq_0_lt_0, N.pow_nonzero; discriminate. Qed.

Lemma le_val_le_bytes k : forall n, le_val (le_bytes k n) = n mod 256 ^ N.of_nat k.
Proof.
  induction k as [|k IH]; intro n.
  - simpl. now rewrite N.mod_1_r.
  - cbn [le_bytes le_val]. rewrite IH.
    rewrite Nat2N.inj_succ, N.pow_succ_r'.
    rewrite (N.mod_mul_r n 256 (256 ^ N.of_nat k)).
    + change 255 with (N.ones 8). rewrite N.land_ones, N.shiftr_div_pow2. reflexivity.
    + discriminate.
    + apply N.pow_nonzero; discriminate.
Qed.

Lemma be_val_be_bytes k n : be_val (be_bytes k n) = n mod 256 ^ N.of_nat k.
Proof. unfold be_val, be_bytes. rewrite rev_involutive. apply le_val_le_bytes. Qed.

Lemma be_bytes_inj k a b :
  a < 256 ^ N.of_nat k -> b < 256 ^ N.of_nat k -> be_bytes k a = be_bytes k b -> a = b.
Proof.
  intros Ha Hb E. apply (f_equal be_val) in E.
  rewrite !be_val_be_bytes in E. now rewrite !N.mod_small in E.
Qed.

Lemma le_bytes_wf k : forall n, wf_bytes (le_bytes k n) = true.
Proof.
  induction k as [|k IH]; intro n; [reflexivity|].
  cbn [le_bytes wf_bytes forallb]. fold (wf_bytes (le_bytes k (N.shiftr n 8))).
  rewrite IH, andb_true_r. unfold wf_byte. apply N.ltb_lt.
  change 255 with (N.ones 8). rewrite N.land_ones. apply N.mod_lt. discriminate.
Qed.

Lemma be_bytes_wf k n : wf_bytes (be_bytes k n) = true.
Proof.
  unfold be_bytes, wf_bytes. rewrite forallb_forall. intros x Hx. apply in_rev in Hx.
  pose proof (le_bytes_wf k n) as W. unfold wf_bytes in W. rewrite forallb_forall in W. now apply W.
Qed.

Lemma app_eq_length {A} (a b x y : list A) :
  length a = length b -> a ++ x = b ++ y -> a = b /\ x = y.
Proof.
  revert b; induction a as [|h a IH]; intros [|h' b] L E; simpl in *; try discriminate.
  - now split.
  - injection E as -> E. injection L as L. destruct (IH b L E) as [-> ->]. now split.
Qed.

Lemma bytes_eqb_eq a b : bytes_eqb a b = true <-> a = b.
Proof.
  revert b; induction a as [|x a IH]; intros [|y b]; simpl; split; intro H;
    try reflexivity; try discriminate.
  - apply andb_true_iff in H as [H1 H2]. apply N.eqb_eq in H1. apply IH in H2. now subst.
  - injection H as -> ->. rewrite N.eqb_refl. now apply IH.
Qed.

Lemma wf_bytes_app a b : wf_bytes (a ++ b) = wf_bytes a && wf_bytes b.
Proof. unfold wf_bytes. apply forallb_app. Qed.

Lemma len_lt_inj (a b : bytes) : len a = len b -> length a = length b.
Proof. unfold len. apply Nat2N.inj. Qed.
