(* Locks.v -- an abstract semantics of goroutines that bracket every access to shared state by one mutex,
   and the theorem that such programs have no reachable racy state (two threads both about to access the same
   field, one of them writing).  Used by Properties/C17_locks.v together with the access summary that verifgen
   extracts from handler.go / twoparty.go. *)
From Coq Require Import List Bool Arith Lia.
Import ListNotations.

Inductive act := ALock | AUnlock | AAcc (field : nat) (write : bool).

(* a thread = the list of actions it still has to execute *)
Definition thread := list act.

(* a method body that follows the discipline: Lock; accesses; Unlock *)
Fixpoint all_acc (l : list act) : bool :=
  match l with
  | [] => true
  | AAcc _ _ :: l' => all_acc l'
  | _ => false
  end.

(* a thread follows the discipline if it is a sequence of such sections.  [inside = true]: we are in the middle of one. *)
Fixpoint disciplined (inside : bool) (t : thread) : bool :=
  match t with
  | [] => negb inside
  | ALock :: t' => negb inside && disciplined true t'
  | AUnlock :: t' => inside && disciplined false t'
  | AAcc _ _ :: t' => inside && disciplined inside t'
  end.

Record state := mkS { threads : list thread; holder : option nat }.

Fixpoint set_nth {A} (n : nat) (x : A) (l : list A) : list A :=
  match n, l with
  | _, [] => []
  | O, _ :: l' => x :: l'
  | S n', y :: l' => y :: set_nth n' x l'
  end.

(* one step of thread i *)
Inductive step : state -> state -> Prop :=
| SLock i t ts : nth_error ts i = Some (ALock :: t) ->
    step (mkS ts None) (mkS (set_nth i t ts) (Some i))
| SUnlock i t ts : nth_error ts i = Some (AUnlock :: t) ->
    step (mkS ts (Some i)) (mkS (set_nth i t ts) None)
| SAcc i f w t ts h : nth_error ts i = Some (AAcc f w :: t) ->
    step (mkS ts h) (mkS (set_nth i t ts) h).

Inductive reach (s0 : state) : state -> Prop :=
| R0 : reach s0 s0
| RS s s' : reach s0 s -> step s s' -> reach s0 s'.

(* thread i is "inside" a section iff it holds the lock *)
Definition inv (s : state) : Prop :=
  forall i t, nth_error (threads s) i = Some t ->
    disciplined (match holder s with Some j => Nat.eqb i j | None => false end) t = true.

Lemma nth_error_set_nth_eq {A} i (x : A) : forall l, i < length l -> nth_error (set_nth i x l) i = Some x.
Proof.
  induction i as [|i IH]; intros [|y l] H; simpl in *; try lia; [reflexivity|]. apply IH. lia.
Qed.

Lemma nth_error_set_nth_neq {A} i (x : A) : forall j l, i <> j -> nth_error (set_nth i x l) j = nth_error l j.
Proof.
  induction i as [|i IH]; intros j [|y l] N; simpl; try reflexivity.
  - destruct j; [contradiction | reflexivity].
  - destruct j; [reflexivity|]. simpl. apply IH. lia.
Qed.

Lemma nth_error_lt {A} (l : list A) i x : nth_error l i = Some x -> i < length l.
Proof. intro H. apply nth_error_Some. congruence. Qed.

Lemma step_inv s s' : inv s -> step s s' -> inv s'.
Proof.
  intros I St. destruct St as [i t ts E | i t ts E | i f w t ts h E]; unfold inv in *; cbn [threads holder] in *.
  - intros j u Hj. destruct (Nat.eq_dec i j) as [<-|N].
    + rewrite nth_error_set_nth_eq in Hj by (eapply nth_error_lt; eassumption). injection Hj as <-.
      specialize (I i _ E). cbn in I. rewrite Nat.eqb_refl. exact I.
    + rewrite nth_error_set_nth_neq in Hj by assumption. specialize (I j u Hj).
      destruct (Nat.eqb_spec j i) as [->|_]; [contradiction | exact I].
  - intros j u Hj. destruct (Nat.eq_dec i j) as [<-|N].
    + rewrite nth_error_set_nth_eq in Hj by (eapply nth_error_lt; eassumption). injection Hj as <-.
      specialize (I i _ E). rewrite Nat.eqb_refl in I. cbn in I. exact I.
    + rewrite nth_error_set_nth_neq in Hj by assumption. specialize (I j u Hj).
      destruct (Nat.eqb_spec j i) as [->|_]; [contradiction | exact I].
  - intros j u Hj. destruct (Nat.eq_dec i j) as [<-|N].
    + rewrite nth_error_set_nth_eq in Hj by (eapply nth_error_lt; eassumption). injection Hj as <-.
      specialize (I i _ E). cbn [disciplined] in I. apply andb_true_iff in I as [Hin I]. rewrite Hin in I. now rewrite Hin.
    + rewrite nth_error_set_nth_neq in Hj by assumption. exact (I j u Hj).
Qed.

Lemma reach_inv s0 s : inv s0 -> reach s0 s -> inv s.
Proof. intros I R. induction R as [|s s' R IH St]; [assumption | eapply step_inv; eauto]. Qed.

(* a racy state: two different threads are both about to access the same field, and one access is a write *)
Definition racy (s : state) : Prop :=
  exists i j f w1 w2 t1 t2, i <> j /\
    nth_error (threads s) i = Some (AAcc f w1 :: t1) /\
    nth_error (threads s) j = Some (AAcc f w2 :: t2) /\ (w1 || w2 = true).

Lemma inv_not_racy s : inv s -> ~ racy s.
Proof.
  intros I (i & j & f & w1 & w2 & t1 & t2 & N & E1 & E2 & _).
  pose proof (I _ _ E1) as D1. pose proof (I _ _ E2) as D2. cbn [disciplined] in D1, D2.
  apply andb_true_iff in D1 as [H1 _], D2 as [H2 _].
  destruct (holder s) as [k|]; [|discriminate].
  apply Nat.eqb_eq in H1, H2. congruence.
Qed.

(* Lock discipline implies race freedom: from an initial state in which nobody holds the lock and every thread is a
   sequence of Lock; accesses; Unlock sections, no reachable state is racy -- any number of threads, any program length,
   any interleaving. *)
Theorem lock_discipline_implies_race_free ts s :
  Forall (fun t => disciplined false t = true) ts ->
  reach (mkS ts None) s -> ~ racy s.
Proof.
  intros F R. apply inv_not_racy. eapply reach_inv; [|exact R].
  intros i t Hi. cbn [threads holder] in *. rewrite Forall_forall in F. apply F. eapply nth_error_In. exact Hi.
Qed.

(* and the lock is exclusive: at most one thread is inside a section *)
Theorem at_most_one_inside ts s i j t1 t2 a1 a2 :
  Forall (fun t => disciplined false t = true) ts -> reach (mkS ts None) s ->
  nth_error (threads s) i = Some (a1 :: t1) -> nth_error (threads s) j = Some (a2 :: t2) ->
  a1 <> ALock -> a2 <> ALock -> i = j.
Proof.
  intros F R E1 E2 N1 N2.
  assert (I : inv s). { eapply reach_inv; [|exact R]. intros k t Hk. cbn in *. rewrite Forall_forall in F. apply F. eapply nth_error_In. exact Hk. }
  pose proof (I _ _ E1) as D1. pose proof (I _ _ E2) as D2.
  destruct (holder s) as [k|].
  - destruct a1, a2; try contradiction; cbn [disciplined] in D1, D2;
      apply andb_true_iff in D1 as [H1 _], D2 as [H2 _]; apply Nat.eqb_eq in H1, H2; congruence.
  - destruct a1; try contradiction; cbn [disciplined] in D1; apply andb_true_iff in D1 as [H1 _]; discriminate.
Qed.
