(* ZKGuardsBase.v -- environments for the decision logic of the numeric validators translated from /repo's source on every run
   (Generated/ZKGuards.v, written by verifgen/gen_zk.go): pkg/math/arith/int.go, paillier.ValidateCiphertexts / ValidateN /
   ValidatePrime, pedersen.ValidateParameters / Parameters.Verify, and IsValid / Verify of the 15 proof systems of pkg/zk.

   As in Proofs/GuardsBase.v an environment maps every atom (canonical source text of a comparison / call leaf) to the
   corresponding boolean of the MODEL (Model/ZK.v, Model/Paillier.v), or to [None] when the atom must not be evaluated:
     * a dereference of a nil pointer ([nl "p.Bx"] says that the Go expression p.Bx is nil): moving a nil test behind the
       use it protects makes the evaluation [None] and breaks the theorem;
     * paillier.EncWithNonce refusing its plaintext (a panic in Go): the equation atoms that contain such a call are [None]
       exactly when the model's [enc] is, so the theorems  geval env go_X_Verify = X_verify ...  also say that the Go verifier
       panics in exactly the model's cases.
   The meaning of an atom that mentions locals assigned by computing statements (`lhs.Equal(rhs)`) depends on those
   statements; go_<f>_trace pins them and their position literally (Proofs/ZKGuardsProofs.v, *_trace_ok lemmas).
   Definitions and tactics only. *)
From Coq Require Import String List Bool NArith ZArith.
From MPS Require Import Model.Bytes Model.Framing Model.Paillier Model.ZK.
From MPS Require Model.Cbor.
From MPS Require Import Generated.Params Generated.Guards Generated.ZKGuards Proofs.GuardsBase.
Import ListNotations.
Local Open Scope string_scope.
Local Open Scope Z_scope.

(* ---------------------------------------------------------------- nil-ness *)

(* which Go expressions (by source text) hold nil *)
Definition nilmap := string -> bool.
Definition no_nil : nilmap := fun _ => false.

(* an atom that dereferences the expressions [ds]: undefined when one of them is nil *)
Definition dep (nl : nilmap) (ds : list string) (v : bool) : option bool := if existsb nl ds then None else Some v.
(* none of them is nil *)
Definition nn (nl : nilmap) (xs : list string) : bool := negb (existsb nl xs).

Definition onz {A} (o : option A) (f : A -> bool) : option bool := match o with Some z => Some (f z) | None => None end.
Definition some_and {A} (o : option A) (f : A -> bool) : bool := match o with Some z => f z | None => false end.

(* arith.IsValidNatModN(N, xs...) / IsValidBigModN / ValidateCiphertexts over named fields: every one non-nil and valid *)
Definition named_all (nl : nilmap) (f : Z -> bool) (xs : list (string * Z)) : bool :=
  forallb (fun nx => negb (nl (fst nx)) && f (snd nx)) xs.

(* ---------------------------------------------------------------- pkg/math/arith/int.go *)

(* the interval predicates: n is nil or a value *)
Definition env_interval (n : option Z) : aenv :=
  [ ("n == nil", Some (is_none n));
    (* the announced-size test (bounded exponent work) is outside the value model: a mathematical integer has no padding; it is
       read as true for every value and exercised separately by the C05 padded-integer probe *)
    ("hasBoundedAnnouncedLen(n)", onz n (fun _ => true));
    ("n.TrueLen() <= params.LPlusEpsilon", onz n (fun z => truelen z <=? go_param_LPlusEpsilon));
    ("n.TrueLen() <= params.LPrimePlusEpsilon", onz n (fun z => truelen z <=? go_param_LPrimePlusEpsilon));
    ("n.TrueLen() <= 1+params.LPlusEpsilon+(params.BitsIntModN/2)",
       onz n (fun z => truelen z <=? 1 + go_param_LPlusEpsilon + (go_param_BitsIntModN / 2)));
    ("n.TrueLen() <= 1+params.LPlusEpsilon+2*params.BitsIntModN",
       onz n (fun z => truelen z <=? 1 + go_param_LPlusEpsilon + 2 * go_param_BitsIntModN)) ].

(* IsInPlaintextRange(N, n): the steps compute nHalf = N >> 1 and gt = (|n| > nHalf) *)
Definition env_plaintext (N n : option Z) : aenv :=
  [ ("N == nil", Some (is_none N));
    ("n == nil", Some (is_none n));
    ("hasBoundedAnnouncedLen(n)", onz n (fun _ => true));
    ("n.TrueLen() > N.BitLen()", match N, n with Some N, Some z => Some (Cbor.bitlen N <? truelen z) | _, _ => None end);
    ("gt != 1", match N, n with Some N, Some z => Some (negb (N / 2 <? Z.abs z)) | _, _ => None end) ].

(* the announced-size disjuncts of the two loops below (zero-padded encodings) are outside the value model: a mathematical
   integer has no padding; they are read as false for every value and exercised by the C05 padded-integer probe *)
(* the loop of IsValidNatModN, read as it was: some element is nil, not below N, or not a unit *)
Definition nat_refused (N : Z) (i : option Z) : bool :=
  match i with None => true | Some x => negb (x <? N) || negb (gcd_mod N x =? 1) end.
Definition env_natmodn (N : Z) (ints : list (option Z)) : aenv :=
  [ ("any i in ints: i == nil || i.AnnouncedLen() > maxAnnouncedBits || (lt != 1 where _, _, lt := i.CmpMod(N)) || i.IsUnit(N) != 1", Some (existsb (nat_refused N) ints)) ].
(* saferith.Nat values are >= 0 by type *)
Definition nats_nonneg (ints : list (option Z)) : bool := forallb (fun i => match i with Some x => 0 <=? x | None => true end) ints.

(* the loop of IsValidBigModN: nil, not positive, not below N, gcd different from 1 *)
Definition big_refused (N : Z) (i : option Z) : bool :=
  match i with None => true | Some x => negb (0 <? x) || negb (x <? N) || negb (gcd_mod N x =? 1) end.
Definition env_bigmodn (N : Z) (ints : list (option Z)) : aenv :=
  [ ("any i in ints: i == nil || i.Sign() != 1 || i.Cmp(N) != -1 || [gcd.GCD(nil, nil, i, N)] gcd.Cmp(one) != 0",
       Some (existsb (big_refused N) ints)) ].

(* ---------------------------------------------------------------- pkg/paillier *)

(* the loop of ValidateCiphertexts: nil, not below N^2, not a unit modulo N^2  (a ciphertext with a nil Nat is None as well) *)
Definition ct_refused (N : Z) (c : option Z) : bool :=
  match c with None => true | Some c => negb (c <? N * N) || negb (gcd_mod (N * N) c =? 1) end.
Definition env_validate_cts (N : Z) (cts : list (option Z)) : aenv :=
  [ ("any ct in cts: ct == nil || ct.c == nil || ct.c.AnnouncedLen() > 4*8*params.BytesCiphertext || [_, _, lt := ct.c.CmpMod(pk.nSquared.Modulus)] lt != 1 || ct.c.IsUnit(pk.nSquared.Modulus) != 1",
       Some (existsb (ct_refused N) cts)) ].

(* ValidateN: step nBig := n.Big() *)
Definition env_validate_n (n : option Z) : aenv :=
  [ ("n == nil", Some (is_none n));
    ("bits != params.BitsPaillier where bits := nBig.BitLen()", onz n (fun n => negb (Cbor.bitlen n =? go_param_BitsPaillier)));
    ("nBig.Bit(0) != 1", onz n (fun n => negb (Z.odd n))) ].

(* ValidatePrime: steps const bitsWant = params.BitsBlumPrime, pMinus1Div2 := p >> 1; big.Int.ProbablyPrime(1) is a parameter *)
Definition env_validate_prime (prime_test : Z -> bool) (p : option Z) : aenv :=
  [ ("p == nil", Some (is_none p));
    ("bits != bitsWant where bits := p.TrueLen()", onz p (fun p => negb (Cbor.bitlen p =? go_param_BitsBlumPrime)));
    ("p.Byte(0)&0b11 != 3", onz p (fun p => negb (p mod 4 =? 3)));
    ("pMinus1Div2.Big().ProbablyPrime(1)", onz p (fun p => prime_test (p / 2)));
    ("p.Big().ProbablyPrime(1)", onz p prime_test) ].

(* ---------------------------------------------------------------- pkg/pedersen *)

Definition env_ped_validate (n s t : option Z) : aenv :=
  [ ("n == nil", Some (is_none n)); ("s == nil", Some (is_none s)); ("t == nil", Some (is_none t));
    ("arith.IsValidNatModN(n, s, t)", onz n (fun n => some_and s (valid_mod n) && some_and t (valid_mod n)));
    ("eq == 1 where _, eq, _ := s.Cmp(t)", match s, t with Some s, Some t => Some (s =? t) | _, _ => None end) ].

(* Parameters.Verify: receiver (n, s, t); steps nMod := p.n.Modulus, sa, tb, lhs = s^a t^b, te, rhs = T^e S *)
Definition env_ped_verify (n s t : Z) (a b e S T : option Z) : aenv :=
  [ ("a == nil", Some (is_none a)); ("b == nil", Some (is_none b)); ("S == nil", Some (is_none S));
    ("T == nil", Some (is_none T)); ("e == nil", Some (is_none e));
    ("arith.IsBoundedInt(a)", Some (some_and a zk_bounded));
    ("arith.IsBoundedInt(b)", Some (some_and b zk_bounded));
    ("arith.IsValidNatModN(nMod, S, T)", Some (some_and S (valid_mod n) && some_and T (valid_mod n)));
    ("lhs.Eq(rhs) == 1",
       match a, b, e, S, T with
       | Some a, Some b, Some e, Some cS, Some cT => Some ((expI n s a * expI n t b) mod n =? (expI n cT e * cS) mod n)
       | _, _, _, _, _ => None
       end) ].

(* ---------------------------------------------------------------- tactics *)

Ltac zunfold := cbv [geval alookup String.eqb Ascii.eqb Bool.eqb andb orb negb is_some is_none onz some_and dep nn existsb forallb named_all fst snd].
Ltac zsolve := zunfold; repeat first [reflexivity | gstep].

Definition ztranslated (names : list string) : bool :=
  forallb (fun n => negb (existsb (String.eqb n) zkguards_untranslatable_names) && existsb (String.eqb n) (map fst go_zkguards)) names.

(* ================================================================================================ *)
(* pkg/zk: IsValid (with nil-ness) and Verify (all fields present; the model has no nil)            *)

(* a field of the embedded *Commitment / of the proof itself *)
Definition pc : list string := ["p"; "p.Commitment"].
Definition pp : list string := ["p"].

(* the validity predicates: the IsValid prefix of the model's verifiers (Model/ZK.v X_verify), in the order of the Go IsValid *)
Definition enc_valid (nh n0 S A C z2 : Z) : bool :=
  valid_mod nh S && valid_mod nh C && validate_ct n0 A && valid_mod n0 z2.
Definition mul_valid (n A B u v : Z) : bool :=
  valid_mod n u && valid_mod n v && validate_ct n A && validate_ct n B.
Definition nth_valid (n A z : Z) : bool := valid_mod n z && valid_mod (n * n) A.
Definition affp_valid (nh n1 n0 A Bx By E S F T w wx wy : Z) : bool :=
  valid_mod nh E && valid_mod nh S && valid_mod nh F && valid_mod nh T && validate_ct n0 A &&
  validate_ct n1 Bx && validate_ct n1 By && valid_mod n1 wx && valid_mod n1 wy && valid_mod n0 w.
Definition mod_valid (n w : Z) (rs : list (bool * bool * Z * Z)) : bool :=
  valid_big n w && (jacobi w n =? -1) && forallb (mod_resp_valid n) rs.
Definition prm_valid (n : Z) (As Zs : list Z) : bool := forallb (valid_big n) (As ++ Zs).

(* ---- nth *)
Definition nth_names : list string := ["p"; "public.N"; "p.Z"; "p.A"].
Definition env_nth_valid (nl : nilmap) (n A z : Z) : aenv :=
  [ ("p == nil", Some (nl "p")); ("public.N == nil", Some (nl "public.N"));
    ("arith.IsValidNatModN(public.N.N(), p.Z)", dep nl ["p"; "public.N"] (named_all nl (valid_mod n) [("p.Z", z)]));
    ("arith.IsValidNatModN(public.N.ModulusSquared().Modulus, p.A)",
       dep nl ["p"; "public.N"] (named_all nl (valid_mod (n * n)) [("p.A", A)])) ].
(* steps: NSquared, lhs = z^N, rhs = R^e A  (mod N^2) *)
Definition env_nth_verify (n R A z e : Z) : aenv :=
  [ ("p.IsValid(public)", Some (nth_valid n A z)); ("err != nil", Some false);
    ("lhs.Eq(rhs) != 1", Some (negb (powmod (n * n) z n =? (expI (n * n) R e * A) mod (n * n)))) ].

(* ---- enc *)
Definition enc_names : list string := ["p"; "p.Commitment"; "public.Prover"; "public.Aux"; "p.S"; "p.C"; "p.A"; "p.Z2"].
Definition env_enc_valid (nl : nilmap) (nh n0 S A C z2 : Z) : aenv :=
  [ ("p == nil", Some (nl "p")); ("p.Commitment == nil", dep nl pp (nl "p.Commitment"));
    ("public.Prover == nil", Some (nl "public.Prover")); ("public.Aux == nil", Some (nl "public.Aux"));
    ("arith.IsValidNatModN(public.Aux.N(), p.S, p.C)", dep nl (pc ++ ["public.Aux"]) (named_all nl (valid_mod nh) [("p.S", S); ("p.C", C)]));
    ("public.Prover.ValidateCiphertexts(p.A)", dep nl (pc ++ ["public.Prover"]) (named_all nl (validate_ct n0) [("p.A", A)]));
    ("arith.IsValidNatModN(public.Prover.N(), p.Z2)", dep nl (pp ++ ["public.Prover"]) (named_all nl (valid_mod n0) [("p.Z2", z2)])) ].
Definition env_enc_verify (nh s t n0 K S A C z1 z2 z3 e : Z) : aenv :=
  [ ("p.IsValid(public)", Some (enc_valid nh n0 S A C z2)); ("arith.IsInIntervalLEps(p.Z1)", Some (in_leps z1));
    ("err != nil", Some false);
    ("public.Aux.Verify(p.Z1, p.Z3, e, p.C, p.S)", Some (ped_verify nh s t z1 z3 e C S));
    ("lhs.Equal(rhs)", onz (enc n0 z1 z2) (fun l => l =? add n0 (mul n0 e K) A)) ].

(* ---- mul *)
Definition mul_names : list string := ["p"; "p.Commitment"; "public.Prover"; "p.U"; "p.V"; "p.A"; "p.B"].
Definition env_mul_valid (nl : nilmap) (n A B u v : Z) : aenv :=
  [ ("p == nil", Some (nl "p")); ("p.Commitment == nil", dep nl pp (nl "p.Commitment"));
    ("public.Prover == nil", Some (nl "public.Prover"));
    ("arith.IsValidNatModN(public.Prover.N(), p.U, p.V)", dep nl (pp ++ ["public.Prover"]) (named_all nl (valid_mod n) [("p.U", u); ("p.V", v)]));
    ("public.Prover.ValidateCiphertexts(p.A, p.B)", dep nl (pc ++ ["public.Prover"]) (named_all nl (validate_ct n) [("p.A", A); ("p.B", B)])) ].
Definition env_mul_verify (n X Y C A B z u v e : Z) : aenv :=
  [ ("p.IsValid(public)", Some (mul_valid n A B u v)); ("arith.IsInPlaintextRange(prover.N(), p.Z)", Some (in_plaintext n z));
    ("err != nil", Some false);
    ("lhs.Equal(rhs)", Some (randomize n (mul n z Y) u =? add n (mul n e C) A));
    ("lhs.Equal(rhs)#2", onz (enc n z v) (fun l => l =? add n (mul n e X) B)) ].

(* ---- affp *)
Definition affp_names : list string :=
  ["p"; "p.Commitment"; "public.Prover"; "public.Verifier"; "public.Aux"; "p.E"; "p.S"; "p.F"; "p.T"; "p.A"; "p.Bx"; "p.By"; "p.Wx"; "p.Wy"; "p.W"].
Definition env_affp_valid (nl : nilmap) (nh n1 n0 A Bx By E S F T w wx wy : Z) : aenv :=
  [ ("p == nil", Some (nl "p")); ("p.Commitment == nil", dep nl pp (nl "p.Commitment"));
    ("public.Prover == nil", Some (nl "public.Prover")); ("public.Verifier == nil", Some (nl "public.Verifier"));
    ("public.Aux == nil", Some (nl "public.Aux"));
    ("arith.IsValidNatModN(public.Aux.N(), p.E, p.S, p.F, p.T)",
       dep nl (pc ++ ["public.Aux"]) (named_all nl (valid_mod nh) [("p.E", E); ("p.S", S); ("p.F", F); ("p.T", T)]));
    ("public.Verifier.ValidateCiphertexts(p.A)", dep nl (pc ++ ["public.Verifier"]) (named_all nl (validate_ct n0) [("p.A", A)]));
    ("public.Prover.ValidateCiphertexts(p.Bx, p.By)", dep nl (pc ++ ["public.Prover"]) (named_all nl (validate_ct n1) [("p.Bx", Bx); ("p.By", By)]));
    ("arith.IsValidNatModN(public.Prover.N(), p.Wx, p.Wy)", dep nl (pp ++ ["public.Prover"]) (named_all nl (valid_mod n1) [("p.Wx", wx); ("p.Wy", wy)]));
    ("arith.IsValidNatModN(public.Verifier.N(), p.W)", dep nl (pp ++ ["public.Verifier"]) (named_all nl (valid_mod n0) [("p.W", w)])) ].
Definition env_affp_verify (nh s t n1 n0 Kv Dv Fp Xp A Bx By E S F T z1 z2 z3 z4 w wx wy e : Z) : aenv :=
  [ ("p.IsValid(public)", Some (affp_valid nh n1 n0 A Bx By E S F T w wx wy));
    ("arith.IsInIntervalLEps(p.Z1)", Some (in_leps z1)); ("arith.IsInIntervalLPrimeEps(p.Z2)", Some (in_lprimeeps z2));
    ("err != nil", Some false);
    ("lhs.Equal(rhs)", onz (enc n0 z2 w) (fun c => add n0 c (mul n0 z1 Kv) =? add n0 (mul n0 e Dv) A));
    ("lhs.Equal(rhs)#2", onz (enc n1 z1 wx) (fun l => l =? add n1 (mul n1 e Xp) Bx));
    ("lhs.Equal(rhs)#3", onz (enc n1 z2 wy) (fun l => l =? add n1 (mul n1 e Fp) By));
    ("public.Aux.Verify(p.Z1, p.Z3, e, p.E, p.S)", Some (ped_verify nh s t z1 z3 e E S));
    ("public.Aux.Verify(p.Z2, p.Z4, e, p.F, p.T)", Some (ped_verify nh s t z2 z4 e F T)) ].

(* ---- fac (Verify only; checks are inline) *)
Definition env_fac_verify (n0 nh s t P Q A B T sigma z1 z2 w1 w2 v e : Z) : aenv :=
  [ ("p == nil", Some false); ("public.N == nil", Some false); ("public.Aux == nil", Some false);
    ("arith.IsValidNatModN(public.Aux.N(), p.Comm.P, p.Comm.Q, p.Comm.A, p.Comm.B, p.Comm.T)",
       Some (valid_mod nh P && valid_mod nh Q && valid_mod nh A && valid_mod nh B && valid_mod nh T));
    ("any z in []*saferith.Int{p.Sigma, p.Z1, p.Z2, p.W1, p.W2, p.V}: !arith.IsBoundedInt(z)",
       Some (existsb (fun z => negb (zk_bounded z)) [sigma; z1; z2; w1; w2; v]));
    ("err != nil", Some false);
    ("public.Aux.Verify(p.Z1, p.W1, e, p.Comm.A, p.Comm.P)", Some (ped_verify nh s t z1 w1 e A P));
    ("public.Aux.Verify(p.Z2, p.W2, e, p.Comm.B, p.Comm.Q)", Some (ped_verify nh s t z2 w2 e B Q));
    ("lhs.Eq(rhs) != 1",
       Some (negb ((expI nh Q z1 * expI nh t v) mod nh =? (expI nh ((powmod nh s n0 * expI nh t sigma) mod nh) e * T) mod nh)));
    ("arith.IsInIntervalLEpsPlus1RootN(p.Z1)", Some (in_leps1rootn z1));
    ("arith.IsInIntervalLEpsPlus1RootN(p.Z2)", Some (in_leps1rootn z2)) ].

(* ---- mod *)
Definition mod_names : list string := ["p"; "public.N"; "p.W"].
(* the responses' X and Z are present here (nil is refused by IsValidBigModN: see arith_IsValidBigModN) *)
Definition env_mod_valid (nl : nilmap) (n w : Z) (rs : list (bool * bool * Z * Z)) : aenv :=
  [ ("p == nil", Some (nl "p")); ("public.N == nil", Some (nl "public.N"));
    ("arith.IsValidBigModN(N, p.W)", dep nl ["p"; "public.N"] (named_all nl (valid_big n) [("p.W", w)]));
    ("big.Jacobi(p.W, N) != -1", dep nl ["p"; "public.N"; "p.W"] (negb (jacobi w n =? -1)));
    ("any r in p.Responses: !arith.IsValidBigModN(N, r.X, r.Z)",
       dep nl ["p"; "public.N"] (existsb (fun r => negb (mod_resp_valid n r)) rs)) ].
(* verifications[i] = p.Responses[i].Verify(n, p.W, ys[i]) *)
Definition env_mod_verify (n w : Z) (rs : list (bool * bool * Z * Z)) (ys : list Z) : aenv :=
  [ ("p == nil", Some false); ("public.N == nil", Some false);
    ("n.Bit(0) == 0", Some (Z.even n)); ("n.ProbablyPrime(20)", Some (probably_prime n));
    ("p.IsValid(public)", Some (mod_valid n w rs)); ("err != nil", Some false);
    ("any i in [0, len(verifications)): !verifications[i].(bool)",
       Some (existsb (fun yr => negb (mod_response n w (fst yr) (snd yr))) (combine ys rs))) ].
(* Response.Verify(n, w, y): steps lhs = Z^n mod n; then lhs = X^4 mod n, rhs = (+-y)(w or 1) mod n *)
Definition env_mod_response (n w y : Z) (r : bool * bool * Z * Z) : aenv :=
  let '(a, b, x, z) := r in
  [ ("lhs.Cmp(y) != 0", Some (negb (powmod n z n =? y)));
    ("lhs.Cmp(&rhs) == 0", Some ((x * x * (x * x)) mod n =? ((if a then - y else y) * (if b then w else 1)) mod n)) ].

(* ---- prm *)
Definition prm_names : list string := ["p"; "public.Aux"].
Definition env_prm_valid (nl : nilmap) (n : Z) (As Zs : list Z) : aenv :=
  [ ("p == nil", Some (nl "p")); ("public.Aux == nil", Some (nl "public.Aux"));
    ("arith.IsValidBigModN(public.Aux.N().Big(), append(p.As[:], p.Zs[:]...)...)", dep nl ["p"; "public.Aux"] (prm_valid n As Zs)) ].
(* one repetition, as the closure given to Parallelize computes it *)
Definition prm_round (n s t : Z) (aze : Z * Z * bool) : bool :=
  let '(a, z, e) := aze in
  valid_big n a && valid_big n z && negb (a =? 1) && (powmod n t z =? (if e then (a * s) mod n else a)).
Definition env_prm_verify (n s t : Z) (As Zs : list Z) (es : list bool) : aenv :=
  [ ("p == nil", Some false); ("public.Aux == nil", Some false);
    ("err != nil where err := pedersen.ValidateParameters(public.Aux.N(), public.Aux.S(), public.Aux.T())", Some (negb (ped_validate n s t)));
    ("p.IsValid(public)", Some (prm_valid n As Zs)); ("err != nil", Some false);
    ("any i in [0, len(verifications)): [ok, _ := verifications[i].(bool)] !ok",
       Some (existsb (fun aze => negb (prm_round n s t aze)) (combine (combine As Zs) es))) ].

(* ---------------------------------------------------------------- the systems over the curve *)
Section Curve.
  Context {G : Type}.
  Variable gadd : G -> G -> G.
  Variable smul : Z -> G -> G.
  Variable geqb : G -> G -> bool.
  Variable gis_id : G -> bool.
  Variable gbase : G.
  Variable q : Z.
  Notation act := (act smul q).
  Notation sc_zero := (sc_zero q).

  Definition affg_valid (nh n1 n0 A : Z) (Bx : G) (By E S F T w wy : Z) : bool :=
    valid_mod nh E && valid_mod nh S && valid_mod nh F && valid_mod nh T && validate_ct n0 A && validate_ct n1 By &&
    valid_mod n1 wy && valid_mod n0 w && negb (gis_id Bx).
  Definition dec_valid (nh n0 S T A Gamma w : Z) : bool :=
    negb (sc_zero Gamma) && valid_mod nh S && valid_mod nh T && validate_ct n0 A && valid_mod n0 w.
  Definition elog_valid (A Np B : G) (z u : Z) : bool :=
    negb (gis_id A || gis_id Np || gis_id B) && negb (sc_zero z || sc_zero u).
  Definition log_valid (A B C : G) (z1 z2 : Z) : bool :=
    negb (gis_id A || gis_id B || gis_id C) && negb (sc_zero z1 || sc_zero z2).
  Definition logstar_valid (nh n0 S A : Z) (Y : G) (D z2 : Z) : bool :=
    valid_mod nh S && valid_mod nh D && validate_ct n0 A && negb (gis_id Y) && valid_mod n0 z2.
  Definition mulstar_valid (nh n0 A : Z) (Bx : G) (E S w : Z) : bool :=
    valid_mod nh E && valid_mod nh S && valid_mod n0 w && validate_ct n0 A && negb (gis_id Bx).
  Definition encelg_valid (nh n0 S D : Z) (Y Zp : G) (T w z2 : Z) : bool :=
    valid_mod nh S && valid_mod nh T && validate_ct n0 D && negb (sc_zero w || gis_id Y || gis_id Zp) && valid_mod n0 z2.

  (* ---- sch *)
  Definition env_sch_commitment (nl : nilmap) (C : G) : aenv :=
    [ ("c == nil", Some (nl "c")); ("curve.IsNilPoint(c.C)", dep nl ["c"] (nl "c.C")); ("c.C.IsIdentity()", dep nl ["c"; "c.C"] (gis_id C)) ].
  Definition env_sch_response (nl : nilmap) (z : Z) : aenv :=
    [ ("z == nil", Some (nl "z")); ("curve.IsNilScalar(z.Z)", dep nl ["z"] (nl "z.Z")); ("z.Z.IsZero()", dep nl ["z"; "z.Z"] (sc_zero z)) ].
  (* Proof{C Commitment; Z Response}: p.Z.IsValid() / p.C.IsValid() are the two functions above on &p.Z / &p.C (never nil) *)
  Definition env_sch_proof (nl : nilmap) (C : G) (z : Z) : aenv :=
    [ ("p == nil", Some (nl "p"));
      ("p.Z.IsValid()", dep nl pp (nn nl ["p.Z.Z"] && negb (sc_zero z)));
      ("p.C.IsValid()", dep nl pp (nn nl ["p.C.C"] && negb (gis_id C))) ].
  (* Response.Verify(hash, public, commitment, gen): steps e := challenge; lhs = z.gen; rhs = e.public + C *)
  Definition sch_response_verify (gen X C : G) (z e : Z) : bool :=
    negb (sc_zero z) && negb (gis_id X) && geqb (act z gen) (gadd (act e X) C).
  Definition env_sch_response_verify (gen X C : G) (z e : Z) : aenv :=
    [ ("z == nil", Some false); ("z.IsValid()", Some (negb (sc_zero z))); ("public.IsIdentity()", Some (gis_id X));
      ("err != nil", Some false); ("lhs.Equal(rhs)", Some (geqb (act z gen) (gadd (act e X) C))) ].
  Definition env_sch_verify (gen X C : G) (z e : Z) : aenv :=
    [ ("p.IsValid()", Some (negb (sc_zero z) && negb (gis_id C)));
      ("p.Z.Verify(hash, public, &p.C, gen)", Some (sch_response_verify gen X C z e)) ].

  (* ---- log *)
  Definition log_names : list string := ["p"; "p.group"; "p.Commitment"; "p.A"; "p.B"; "p.C"; "p.Z1"; "p.Z2"].
  Definition env_log_valid (nl : nilmap) (A B C : G) (z1 z2 : Z) : aenv :=
    [ ("p == nil", Some (nl "p")); ("p.group == nil", dep nl pp (nl "p.group")); ("p.Commitment == nil", dep nl pp (nl "p.Commitment"));
      ("curve.IsNilPoint(p.A)", dep nl pc (nl "p.A")); ("curve.IsNilPoint(p.B)", dep nl pc (nl "p.B"));
      ("curve.IsNilPoint(p.C)", dep nl pc (nl "p.C"));
      ("curve.IsNilScalar(p.Z1)", dep nl pp (nl "p.Z1")); ("curve.IsNilScalar(p.Z2)", dep nl pp (nl "p.Z2"));
      ("p.A.IsIdentity()", dep nl (pc ++ ["p.A"]) (gis_id A)); ("p.B.IsIdentity()", dep nl (pc ++ ["p.B"]) (gis_id B));
      ("p.C.IsIdentity()", dep nl (pc ++ ["p.C"]) (gis_id C));
      ("p.Z1.IsZero()", dep nl (pp ++ ["p.Z1"]) (sc_zero z1)); ("p.Z2.IsZero()", dep nl (pp ++ ["p.Z2"]) (sc_zero z2)) ].
  Definition env_log_verify (H X Y A B C : G) (z1 z2 e : Z) : aenv :=
    [ ("p.IsValid()", Some (log_valid A B C z1 z2)); ("err != nil", Some false);
      ("lhs.Equal(rhs)", Some (geqb (act z1 gbase) (gadd (act e X) A)));
      ("lhs.Equal(rhs)#2", Some (geqb (act z1 H) (gadd (act e Y) B)));
      ("lhs.Equal(rhs)#3", Some (geqb (act z2 gbase) (gadd (act e H) C))) ].

  (* ---- elog *)
  Definition elog_names : list string :=
    ["p"; "p.group"; "p.Commitment"; "public.E"; "public.E.L"; "public.E.M"; "p.A"; "p.N"; "p.B"; "p.Z"; "p.U"].
  Definition env_elog_valid (nl : nilmap) (A Np B : G) (z u : Z) : aenv :=
    [ ("p == nil", Some (nl "p")); ("p.group == nil", dep nl pp (nl "p.group")); ("p.Commitment == nil", dep nl pp (nl "p.Commitment"));
      ("public.E == nil", Some (nl "public.E"));
      ("curve.IsNilPoint(public.E.L)", dep nl ["public.E"] (nl "public.E.L"));
      ("curve.IsNilPoint(public.E.M)", dep nl ["public.E"] (nl "public.E.M"));
      ("curve.IsNilPoint(p.A)", dep nl pc (nl "p.A")); ("curve.IsNilPoint(p.N)", dep nl pc (nl "p.N"));
      ("curve.IsNilPoint(p.B)", dep nl pc (nl "p.B"));
      ("curve.IsNilScalar(p.Z)", dep nl pp (nl "p.Z")); ("curve.IsNilScalar(p.U)", dep nl pp (nl "p.U"));
      ("p.A.IsIdentity()", dep nl (pc ++ ["p.A"]) (gis_id A)); ("p.N.IsIdentity()", dep nl (pc ++ ["p.N"]) (gis_id Np));
      ("p.B.IsIdentity()", dep nl (pc ++ ["p.B"]) (gis_id B));
      ("p.Z.IsZero()", dep nl (pp ++ ["p.Z"]) (sc_zero z)); ("p.U.IsZero()", dep nl (pp ++ ["p.U"]) (sc_zero u)) ].
  Definition env_elog_verify (L M X H Y A Np B : G) (z u e : Z) : aenv :=
    [ ("p.IsValid(public)", Some (elog_valid A Np B z u)); ("err != nil", Some false);
      ("lhs.Equal(rhs)", Some (geqb (act z gbase) (gadd (act e L) A)));
      ("lhs.Equal(rhs)#2", Some (geqb (gadd (act u gbase) (act z X)) (gadd (act e M) Np)));
      ("lhs.Equal(rhs)#3", Some (geqb (act u H) (gadd (act e Y) B))) ].

  (* ---- logstar *)
  Definition logstar_names : list string :=
    ["p"; "p.group"; "p.Commitment"; "public.Prover"; "public.Aux"; "p.S"; "p.D"; "p.A"; "p.Y"; "p.Z2"].
  Definition env_logstar_valid (nl : nilmap) (nh n0 S A : Z) (Y : G) (D z2 : Z) : aenv :=
    [ ("p == nil", Some (nl "p")); ("p.group == nil", dep nl pp (nl "p.group")); ("p.Commitment == nil", dep nl pp (nl "p.Commitment"));
      ("public.Prover == nil", Some (nl "public.Prover")); ("public.Aux == nil", Some (nl "public.Aux"));
      ("arith.IsValidNatModN(public.Aux.N(), p.S, p.D)", dep nl (pc ++ ["public.Aux"]) (named_all nl (valid_mod nh) [("p.S", S); ("p.D", D)]));
      ("public.Prover.ValidateCiphertexts(p.A)", dep nl (pc ++ ["public.Prover"]) (named_all nl (validate_ct n0) [("p.A", A)]));
      ("curve.IsNilPoint(p.Y)", dep nl pc (nl "p.Y")); ("p.Y.IsIdentity()", dep nl (pc ++ ["p.Y"]) (gis_id Y));
      ("arith.IsValidNatModN(public.Prover.N(), p.Z2)", dep nl (pp ++ ["public.Prover"]) (named_all nl (valid_mod n0) [("p.Z2", z2)])) ].
  (* step: public.G defaults to the base point (the caller of the model passes Gb) *)
  Definition env_logstar_verify (nh s t n0 C : Z) (X Gb : G) (S A : Z) (Y : G) (D z1 z2 z3 e : Z) : aenv :=
    [ ("p.IsValid(public)", Some (logstar_valid nh n0 S A Y D z2)); ("arith.IsInIntervalLEps(p.Z1)", Some (in_leps z1));
      ("err != nil", Some false);
      ("public.Aux.Verify(p.Z1, p.Z3, e, p.D, p.S)", Some (ped_verify nh s t z1 z3 e D S));
      ("lhs.Equal(rhs)", onz (enc n0 z1 z2) (fun l => l =? add n0 (mul n0 e C) A));
      ("lhs.Equal(rhs)#2", Some (geqb (act z1 Gb) (gadd (act e X) Y))) ].

  (* ---- dec *)
  Definition dec_names : list string :=
    ["p"; "p.group"; "p.Commitment"; "public.Prover"; "public.Aux"; "p.Gamma"; "p.S"; "p.T"; "p.A"; "p.W"].
  Definition env_dec_valid (nl : nilmap) (nh n0 S T A Gamma w : Z) : aenv :=
    [ ("p == nil", Some (nl "p")); ("p.group == nil", dep nl pp (nl "p.group")); ("p.Commitment == nil", dep nl pp (nl "p.Commitment"));
      ("public.Prover == nil", Some (nl "public.Prover")); ("public.Aux == nil", Some (nl "public.Aux"));
      ("curve.IsNilScalar(p.Gamma)", dep nl pc (nl "p.Gamma")); ("p.Gamma.IsZero()", dep nl (pc ++ ["p.Gamma"]) (sc_zero Gamma));
      ("arith.IsValidNatModN(public.Aux.N(), p.S, p.T)", dep nl (pc ++ ["public.Aux"]) (named_all nl (valid_mod nh) [("p.S", S); ("p.T", T)]));
      ("public.Prover.ValidateCiphertexts(p.A)", dep nl (pc ++ ["public.Prover"]) (named_all nl (validate_ct n0) [("p.A", A)]));
      ("arith.IsValidNatModN(public.Prover.N(), p.W)", dep nl (pp ++ ["public.Prover"]) (named_all nl (valid_mod n0) [("p.W", w)])) ].
  Definition env_dec_verify (nh s t n0 C X S T A Gamma z1 z2 w e : Z) : aenv :=
    [ ("p.IsValid(public)", Some (dec_valid nh n0 S T A Gamma w));
      ("arith.IsInPlaintextRange(public.Prover.N(), p.Z1)", Some (in_plaintext n0 z1));
      ("err != nil", Some false);
      ("public.Aux.Verify(p.Z1, p.Z2, e, p.T, p.S)", Some (ped_verify nh s t z1 z2 e T S));
      ("lhs.Equal(rhs)", onz (enc n0 z1 w) (fun l => l =? add n0 (mul n0 e C) A));
      ("lhs.Equal(rhs)#2", Some (z1 mod q =? (((e mod q) * (X mod q)) mod q + Gamma mod q) mod q)) ].

  (* ---- affg *)
  Definition affg_names : list string :=
    ["p"; "p.group"; "p.Commitment"; "public.Prover"; "public.Verifier"; "public.Aux"; "p.E"; "p.S"; "p.F"; "p.T"; "p.A"; "p.By"; "p.Wy"; "p.W"; "p.Bx"].
  Definition env_affg_valid (nl : nilmap) (nh n1 n0 A : Z) (Bx : G) (By E S F T w wy : Z) : aenv :=
    [ ("p == nil", Some (nl "p")); ("p.group == nil", dep nl pp (nl "p.group")); ("p.Commitment == nil", dep nl pp (nl "p.Commitment"));
      ("public.Prover == nil", Some (nl "public.Prover")); ("public.Verifier == nil", Some (nl "public.Verifier"));
      ("public.Aux == nil", Some (nl "public.Aux"));
      ("arith.IsValidNatModN(public.Aux.N(), p.E, p.S, p.F, p.T)",
         dep nl (pc ++ ["public.Aux"]) (named_all nl (valid_mod nh) [("p.E", E); ("p.S", S); ("p.F", F); ("p.T", T)]));
      ("public.Verifier.ValidateCiphertexts(p.A)", dep nl (pc ++ ["public.Verifier"]) (named_all nl (validate_ct n0) [("p.A", A)]));
      ("public.Prover.ValidateCiphertexts(p.By)", dep nl (pc ++ ["public.Prover"]) (named_all nl (validate_ct n1) [("p.By", By)]));
      ("arith.IsValidNatModN(public.Prover.N(), p.Wy)", dep nl (pp ++ ["public.Prover"]) (named_all nl (valid_mod n1) [("p.Wy", wy)]));
      ("arith.IsValidNatModN(public.Verifier.N(), p.W)", dep nl (pp ++ ["public.Verifier"]) (named_all nl (valid_mod n0) [("p.W", w)]));
      ("curve.IsNilPoint(p.Bx)", dep nl pc (nl "p.Bx")); ("p.Bx.IsIdentity()", dep nl (pc ++ ["p.Bx"]) (gis_id Bx)) ].
  Definition env_affg_verify (nh s t n1 n0 Kv Dv Fp : Z) (Xp : G) (A : Z) (Bx : G) (By E S F T z1 z2 z3 z4 w wy e : Z) : aenv :=
    [ ("p.IsValid(public)", Some (affg_valid nh n1 n0 A Bx By E S F T w wy));
      ("arith.IsInIntervalLEps(p.Z1)", Some (in_leps z1)); ("arith.IsInIntervalLPrimeEps(p.Z2)", Some (in_lprimeeps z2));
      ("err != nil", Some false);
      ("public.Aux.Verify(p.Z1, p.Z3, e, p.E, p.S)", Some (ped_verify nh s t z1 z3 e E S));
      ("public.Aux.Verify(p.Z2, p.Z4, e, p.F, p.T)", Some (ped_verify nh s t z2 z4 e F T));
      ("lhs.Equal(rhs)", onz (enc n0 z2 w) (fun c => add n0 c (mul n0 z1 Kv) =? add n0 (mul n0 e Dv) A));
      ("lhs.Equal(rhs)#2", Some (geqb (act z1 gbase) (gadd (act e Xp) Bx)));
      ("lhs.Equal(rhs)#3", onz (enc n1 z2 wy) (fun l => l =? add n1 (mul n1 e Fp) By)) ].

  (* ---- mulstar *)
  Definition mulstar_names : list string :=
    ["p"; "p.group"; "p.Commitment"; "public.Verifier"; "public.Aux"; "p.E"; "p.S"; "p.W"; "p.A"; "p.Bx"].
  Definition env_mulstar_valid (nl : nilmap) (nh n0 A : Z) (Bx : G) (E S w : Z) : aenv :=
    [ ("p == nil", Some (nl "p")); ("p.group == nil", dep nl pp (nl "p.group")); ("p.Commitment == nil", dep nl pp (nl "p.Commitment"));
      ("public.Verifier == nil", Some (nl "public.Verifier")); ("public.Aux == nil", Some (nl "public.Aux"));
      ("arith.IsValidNatModN(public.Aux.N(), p.E, p.S)", dep nl (pc ++ ["public.Aux"]) (named_all nl (valid_mod nh) [("p.E", E); ("p.S", S)]));
      ("arith.IsValidNatModN(public.Verifier.N(), p.W)", dep nl (pp ++ ["public.Verifier"]) (named_all nl (valid_mod n0) [("p.W", w)]));
      ("public.Verifier.ValidateCiphertexts(p.A)", dep nl (pc ++ ["public.Verifier"]) (named_all nl (validate_ct n0) [("p.A", A)]));
      ("curve.IsNilPoint(p.Bx)", dep nl pc (nl "p.Bx")); ("p.Bx.IsIdentity()", dep nl (pc ++ ["p.Bx"]) (gis_id Bx)) ].
  Definition env_mulstar_verify (nh s t n0 C D : Z) (X : G) (A : Z) (Bx : G) (E S z1 z2 w e : Z) : aenv :=
    [ ("p.IsValid(public)", Some (mulstar_valid nh n0 A Bx E S w)); ("arith.IsInIntervalLEps(p.Z1)", Some (in_leps z1));
      ("err != nil", Some false);
      ("public.Aux.Verify(p.Z1, p.Z2, e, p.E, p.S)", Some (ped_verify nh s t z1 z2 e E S));
      ("lhs.Equal(rhs)", Some (randomize n0 (mul n0 z1 C) w =? add n0 (mul n0 e D) A));
      ("lhs.Equal(rhs)#2", Some (geqb (act z1 gbase) (gadd (act e X) Bx))) ].

  (* ---- encelg *)
  Definition encelg_names : list string :=
    ["p"; "p.group"; "p.Commitment"; "public.Prover"; "public.Aux"; "p.S"; "p.T"; "p.D"; "p.W"; "p.Y"; "p.Z"; "p.Z2"].
  Definition env_encelg_valid (nl : nilmap) (nh n0 S D : Z) (Y Zp : G) (T w z2 : Z) : aenv :=
    [ ("p == nil", Some (nl "p")); ("p.group == nil", dep nl pp (nl "p.group")); ("p.Commitment == nil", dep nl pp (nl "p.Commitment"));
      ("public.Prover == nil", Some (nl "public.Prover")); ("public.Aux == nil", Some (nl "public.Aux"));
      ("arith.IsValidNatModN(public.Aux.N(), p.S, p.T)", dep nl (pc ++ ["public.Aux"]) (named_all nl (valid_mod nh) [("p.S", S); ("p.T", T)]));
      ("public.Prover.ValidateCiphertexts(p.D)", dep nl (pc ++ ["public.Prover"]) (named_all nl (validate_ct n0) [("p.D", D)]));
      ("curve.IsNilScalar(p.W)", dep nl pp (nl "p.W")); ("curve.IsNilPoint(p.Y)", dep nl pc (nl "p.Y")); ("curve.IsNilPoint(p.Z)", dep nl pc (nl "p.Z"));
      ("p.W.IsZero()", dep nl (pp ++ ["p.W"]) (sc_zero w)); ("p.Y.IsIdentity()", dep nl (pc ++ ["p.Y"]) (gis_id Y));
      ("p.Z.IsIdentity()", dep nl (pc ++ ["p.Z"]) (gis_id Zp));
      ("arith.IsValidNatModN(public.Prover.N(), p.Z2)", dep nl (pp ++ ["public.Prover"]) (named_all nl (valid_mod n0) [("p.Z2", z2)])) ].
  (* steps: group, q, eScalar = e mod q; z1 := Z1 mod q in the second block *)
  Definition env_encelg_verify (nh s t n0 C : Z) (A B X : G) (S D : Z) (Y Zp : G) (T z1 w z2 z3 e : Z) : aenv :=
    [ ("p.IsValid(public)", Some (encelg_valid nh n0 S D Y Zp T w z2)); ("arith.IsInIntervalLEps(p.Z1)", Some (in_leps z1));
      ("err != nil", Some false);
      ("lhs.Equal(rhs)", onz (enc n0 z1 z2) (fun l => l =? add n0 (mul n0 e C) D));
      ("lhs.Equal(rhs)#2", Some (geqb (gadd (act z1 gbase) (act w A)) (gadd (act e X) Y)));
      ("lhs.Equal(rhs)#3", Some (geqb (act w gbase) (gadd (act e B) Zp)));
      ("public.Aux.Verify(p.Z1, p.Z3, e, p.T, p.S)", Some (ped_verify nh s t z1 z3 e T S)) ].
End Curve.
