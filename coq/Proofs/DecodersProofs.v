(* DecodersProofs.v -- totality / no-panic / bounded allocation of the byte decoders of Model/Decoders.v,
   their exact acceptance conditions, and the refutation of both for Exponent.UnmarshalBinary as found at the pinned commit. *)
From Coq Require Import List NArith ZArith Bool Arith Lia.
From MPS Require Import Model.Bytes Model.Decoders Proofs.BytesProofs.
Import ListNotations.
Open Scope N_scope.

(* ------------------------------------------------------------------ scalar *)

Lemma scalar_unmarshal_no_panic data : r_out (scalar_unmarshal data) <> Panic.
Proof.
  unfold scalar_unmarshal.
  destruct (Nat.eqb (length data) 32); cbn [negb]; [|discriminate].
  destruct (secp_q <=? be_val data); discriminate.
Qed.

Lemma scalar_unmarshal_alloc data : r_alloc (scalar_unmarshal data) <= 32.
Proof.
  unfold scalar_unmarshal.
  destruct (Nat.eqb (length data) 32); cbn [negb r_alloc]; [|lia].
  destruct (secp_q <=? be_val data); cbn [r_alloc]; lia.
Qed.

Lemma scalar_unmarshal_spec data v :
  r_out (scalar_unmarshal data) = Ok v <-> (length data = 32%nat /\ v = be_val data /\ v < secp_q).
Proof.
  unfold scalar_unmarshal. split.
  - destruct (Nat.eqb (length data) 32) eqn:L; cbn [negb]; [|discriminate].
    apply Nat.eqb_eq in L.
    destruct (secp_q <=? be_val data) eqn:Q; cbn [r_out]; [discriminate|].
    intro H. injection H as <-. apply N.leb_gt in Q. now repeat split.
  - intros (L & -> & Q). apply Nat.eqb_eq in L. rewrite L. cbn [negb].
    apply N.leb_gt in Q. rewrite Q. reflexivity.
Qed.

(* two accepted encodings of the same scalar are the same 32 bytes (canonical encoding) *)
Lemma le_val_inj : forall a b : bytes,
  length a = length b -> wf_bytes a = true -> wf_bytes b = true -> le_val a = le_val b -> a = b.
Proof.
  induction a as [|x a IH]; intros [|y b] L Wa Wb E; simpl in L; try discriminate; [reflexivity|].
  injection L as L.
  cbn [wf_bytes forallb] in Wa, Wb.
  apply andb_true_iff in Wa as [Wx Wa]. apply andb_true_iff in Wb as [Wy Wb].
  unfold wf_byte in Wx, Wy. apply N.ltb_lt in Wx. apply N.ltb_lt in Wy.
  cbn [le_val] in E.
  assert (Hx : x = y).
  { assert (E1 : (x + 256 * le_val a) mod 256 = (y + 256 * le_val b) mod 256) by now rewrite E.
    rewrite !(N.mul_comm 256), !N.mod_add in E1 by discriminate.
    now rewrite !N.mod_small in E1 by assumption. }
  subst y. f_equal. apply IH; try assumption. lia.
Qed.

Lemma be_val_inj (a b : bytes) :
  length a = length b -> wf_bytes a = true -> wf_bytes b = true -> be_val a = be_val b -> a = b.
Proof.
  intros L Wa Wb E. unfold be_val in E.
  assert (R : rev a = rev b).
  { apply le_val_inj; try assumption.
    - now rewrite !rev_length.
    - unfold wf_bytes in *. rewrite forallb_forall in *. intros x Hx. apply Wa. now apply in_rev.
    - unfold wf_bytes in *. rewrite forallb_forall in *. intros x Hx. apply Wb. now apply in_rev. }
  apply (f_equal (@rev byte)) in R. now rewrite !rev_involutive in R.
Qed.

Lemma scalar_unmarshal_canonical a b v :
  wf_bytes a = true -> wf_bytes b = true ->
  r_out (scalar_unmarshal a) = Ok v -> r_out (scalar_unmarshal b) = Ok v -> a = b.
Proof.
  intros Wa Wb Ha Hb. apply scalar_unmarshal_spec in Ha as (La & Va & _).
  apply scalar_unmarshal_spec in Hb as (Lb & Vb & _).
  apply be_val_inj; try assumption; congruence.
Qed.

(* ------------------------------------------------------------------ point *)

Lemma point_unmarshal_no_panic data : r_out (point_unmarshal data) <> Panic.
Proof.
  unfold point_unmarshal.
  destruct (Nat.eqb (length data) 33); cbn [negb]; [|discriminate].
  destruct data as [|pre xs]; [discriminate|].
  destruct ((pre =? 2) || (pre =? 3)); cbn [negb]; [|discriminate].
  destruct (secp_p <=? be_val xs); [discriminate|].
  match goal with |- context [negb ?c] => destruct c end; cbn [negb]; discriminate.
Qed.

Lemma point_unmarshal_alloc data : r_alloc (point_unmarshal data) = 0.
Proof.
  unfold point_unmarshal.
  destruct (Nat.eqb (length data) 33); cbn [negb]; [|reflexivity].
  destruct data as [|pre xs]; [reflexivity|].
  destruct ((pre =? 2) || (pre =? 3)); cbn [negb]; [|reflexivity].
  destruct (secp_p <=? be_val xs); [reflexivity|].
  match goal with |- context [negb ?c] => destruct c end; reflexivity.
Qed.

Lemma sq_neg_mod (p y : N) : y <= p -> p <> 0 -> ((p - y) * (p - y)) mod p = (y * y) mod p.
Proof.
  intros Hy Hp.
  assert (E : (p - y) * (p - y) + (2 * y) * p = y * y + p * p) by nia.
  assert (E1 : ((p - y) * (p - y) + (2 * y) * p) mod p = (y * y + p * p) mod p) by now rewrite E.
  now rewrite !N.mod_add in E1 by assumption.
Qed.

(* what an accepted point encoding guarantees: 33 bytes, prefix 2 or 3, x < p, (x, y) on y^2 = x^3 + 7 over F_p *)
Lemma point_unmarshal_ok data x y :
  r_out (point_unmarshal data) = Ok (x, y) ->
  length data = 33%nat /\
  (exists pre xs, data = pre :: xs /\ (pre = 2 \/ pre = 3) /\ x = be_val xs) /\
  x < secp_p /\ (y * y) mod secp_p = (x * x * x + 7) mod secp_p.
Proof.
  unfold point_unmarshal.
  destruct (Nat.eqb (length data) 33) eqn:L; cbn [negb]; [|discriminate].
  apply Nat.eqb_eq in L.
  destruct data as [|pre xs]; [discriminate|].
  destruct ((pre =? 2) || (pre =? 3)) eqn:P; cbn [negb]; [|discriminate].
  destruct (secp_p <=? be_val xs) eqn:X; [discriminate|].
  apply N.leb_gt in X.
  remember ((be_val xs * be_val xs * be_val xs + 7) mod secp_p) as rhs eqn:Erhs.
  remember (pow_mod rhs ((secp_p + 1) / 4) secp_p) as y0 eqn:Ey0.
  destruct ((y0 * y0) mod secp_p =? rhs) eqn:C; cbn [negb r_out]; [|discriminate].
  apply N.eqb_eq in C.
  intro H.
  assert (Hx : x = be_val xs) by congruence.
  assert (Hy : (if Bool.eqb (N.odd y0) (pre =? 3) then y0 else (secp_p - y0) mod secp_p) = y) by congruence.
  clear H. subst x.
  split; [exact L|]. split.
  { exists pre, xs. split; [reflexivity|]. split; [|reflexivity].
    apply orb_true_iff in P as [P|P]; apply N.eqb_eq in P; auto. }
  split; [exact X|].
  assert (Pnz : secp_p <> 0) by (unfold secp_p; discriminate).
  assert (B : y0 < secp_p).
  { rewrite Ey0. unfold pow_mod.
    assert (G : forall i b e acc, acc < secp_p -> pow_mod_bits i b e secp_p acc < secp_p).
    { induction i as [|i IH]; intros b e acc Ha; cbn [pow_mod_bits]; [exact Ha|].
      apply IH. destruct (N.testbit e (N.of_nat i)); apply N.mod_lt; exact Pnz. }
    apply G. apply N.mod_lt. exact Pnz. }
  rewrite <- Erhs.
  destruct (Bool.eqb (N.odd y0) (pre =? 3)).
  - subst y. exact C.
  - subst y.
    rewrite N.mul_mod_idemp_l, N.mul_mod_idemp_r by assumption.
    rewrite sq_neg_mod by (try assumption; apply N.lt_le_incl; exact B).
    exact C.
Qed.

(* ------------------------------------------------------------------ fixed-length validators *)

Lemma all_zero_false_iff (l : bytes) : all_zero l = false <-> exists b, In b l /\ b <> 0.
Proof.
  unfold all_zero. split.
  - induction l as [|x l IH]; cbn [forallb]; [discriminate|].
    destruct (x =? 0) eqn:E; cbn [andb].
    + intro H. destruct (IH H) as (b & Hb & Nz). exists b. split; [now right|exact Nz].
    + intros _. exists x. split; [now left|]. now apply N.eqb_neq.
  - intros (b & Hb & Nz). apply not_true_iff_false. intro A.
    rewrite forallb_forall in A. specialize (A b Hb). apply N.eqb_eq in A. contradiction.
Qed.

Lemma validate_fixed_nonzero_spec n data :
  validate_fixed_nonzero n data = true <-> (length data = n /\ exists b, In b data /\ b <> 0).
Proof.
  unfold validate_fixed_nonzero. rewrite andb_true_iff, Nat.eqb_eq, negb_true_iff, all_zero_false_iff.
  reflexivity.
Qed.

(* ------------------------------------------------------------------ Exponent.UnmarshalBinary *)

Section Exponent.
  Variable body_decode : bytes -> option (bool * list bytes) * N.
  Variable point_size : N.
  (* fxamacker/cbor checks every declared length against the remaining input: its allocation is linear in the input *)
  Variables cb cb' : N.
  Hypothesis body_alloc : forall bs, snd (body_decode bs) <= cb * len bs + cb'.

  Lemma len_skipn_le k (l : bytes) : len (skipn k l) <= len l.
  Proof.
    unfold len. rewrite skipn_length. lia.
  Qed.

  Lemma exp_unmarshal_no_panic data : r_out (exp_unmarshal body_decode point_size data) <> Panic.
  Proof.
    unfold exp_unmarshal.
    destruct (Nat.ltb (length data) 4); [discriminate|].
    destruct (len data <? be_val (firstn 4 data)); [discriminate|].
    destruct (body_decode (skipn 4 data)) as [[r|] b]; discriminate.
  Qed.

  Lemma exp_unmarshal_alloc data :
    r_alloc (exp_unmarshal body_decode point_size data) <= (point_size + cb) * len data + cb'.
  Proof.
    unfold exp_unmarshal.
    destruct (Nat.ltb (length data) 4); cbn [r_alloc]; [lia|].
    destruct (len data <? be_val (firstn 4 data)) eqn:S; cbn [r_alloc]; [lia|].
    apply N.ltb_ge in S.
    pose proof (body_alloc (skipn 4 data)) as B.
    pose proof (len_skipn_le 4 data) as K.
    assert (A : r_alloc (match body_decode (skipn 4 data) with
                         | (None, b) => mkRun Err (be_val (firstn 4 data) * point_size + b)
                         | (Some r, b) => mkRun (Ok r) (be_val (firstn 4 data) * point_size + b)
                         end) = be_val (firstn 4 data) * point_size + snd (body_decode (skipn 4 data))).
    { destruct (body_decode (skipn 4 data)) as [[r|] b]; reflexivity. }
    rewrite A. nia.
  Qed.

  (* the repair changes nothing where the old code behaved: at least 4 bytes and an announced count that the input can hold *)
  Lemma exp_unmarshal_agrees data :
    (4 <= length data)%nat -> be_val (firstn 4 data) <= len data ->
    exp_unmarshal body_decode point_size data = exp_unmarshal_pinned body_decode point_size data.
  Proof.
    intros L S. unfold exp_unmarshal, exp_unmarshal_pinned.
    assert (E : Nat.ltb (length data) 4 = false) by (apply Nat.ltb_ge; exact L).
    rewrite E. apply N.ltb_ge in S. now rewrite S.
  Qed.

  (* --- the decoder as found at the pinned commit --- *)

  Lemma exp_unmarshal_pinned_panics : r_out (exp_unmarshal_pinned body_decode point_size [1; 2; 3]) = Panic.
  Proof. reflexivity. Qed.

  Lemma exp_unmarshal_pinned_short_panics data :
    (length data < 4)%nat -> r_out (exp_unmarshal_pinned body_decode point_size data) = Panic.
  Proof. intro L. unfold exp_unmarshal_pinned. apply Nat.ltb_lt in L. now rewrite L. Qed.

  Lemma exp_unmarshal_pinned_alloc_4 :
    point_size * 4294967295 <= r_alloc (exp_unmarshal_pinned body_decode point_size [255; 255; 255; 255]).
  Proof.
    unfold exp_unmarshal_pinned.
    change (Nat.ltb (length [255; 255; 255; 255]) 4) with false. cbv iota zeta.
    change (skipn 4 [255; 255; 255; 255]) with (@nil byte).
    change (firstn 4 [255; 255; 255; 255]) with [255; 255; 255; 255].
    assert (E : be_val [255; 255; 255; 255] = 4294967295) by reflexivity. rewrite E.
    destruct (body_decode []) as [o b]. destruct o; cbn [r_alloc]; lia.
  Qed.

  (* no linear bound c * |data| + c' (with c * 4 + c' below 2^32 - 1 and a non-empty point) holds for the pinned decoder *)
  Lemma exp_unmarshal_pinned_alloc_unbounded c c' :
    1 <= point_size -> c * 4 + c' < 4294967295 ->
    exists data, len data = 4 /\ c * len data + c' < r_alloc (exp_unmarshal_pinned body_decode point_size data).
  Proof.
    intros P C. exists [255; 255; 255; 255]. split; [reflexivity|].
    pose proof exp_unmarshal_pinned_alloc_4 as A. change (len [255; 255; 255; 255]) with 4. nia.
  Qed.
End Exponent.
