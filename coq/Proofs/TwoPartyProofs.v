(* TwoPartyProofs.v -- theorems over Model/TwoParty.v (TwoPartyHandler): C17 lifecycle, C05/C09 handler level,
   C07 no-op / overwrite / stale-message lemmas.  All results are for arbitrary shapes (under the stated shape
   conditions), arbitrary messages and arbitrary API histories (induction over the event list). *)
From Coq Require Import List NArith ZArith Bool Arith Lia.
From MPS Require Import Model.Handler Model.TwoParty.
Import ListNotations.

(* ------------------------------------------------------------------ *)
(* API histories                                                       *)
(* ------------------------------------------------------------------ *)
Inductive tapi := TAccept (m : msg) | TStop | TDrain (k : nat).

Definition tp_api_step (fixed : bool) (s : tstate) (e : tapi) : tstate :=
  match e with
  | TAccept m => tp_accept s m
  | TStop => tp_stop fixed s
  | TDrain k => tp_drain k s
  end.

Definition tp_run_api (fixed : bool) (s : tstate) (es : list tapi) : tstate := fold_left (tp_api_step fixed) es s.

(* "well-drained": the user empties the Listen() channel after every API call *)
Definition tp_drain_all (s : tstate) : tstate := tp_drain (t_pending s) s.
Definition tp_api_step_drained (fixed : bool) (s : tstate) (e : tapi) : tstate := tp_drain_all (tp_api_step fixed s e).
Definition tp_run_api_drained (fixed : bool) (s : tstate) (es : list tapi) : tstate :=
  fold_left (tp_api_step_drained fixed) es s.

Definition tp_reachable (fixed leader : bool) (self : party) (n : nat) (ssid proto : N) (sh : tshape) (s : tstate) : Prop :=
  exists es, s = tp_run_api fixed (tp_new leader self n ssid proto sh) es.

Definition t_panicked (rt : runtime) : bool := match rt with Panicked _ => true | _ => false end.

(* ------------------------------------------------------------------ *)
(* Shape conditions                                                     *)
(* ------------------------------------------------------------------ *)
(* no round's Finalize returns (nil, nil), an Output without result or an Abort without error *)
Definition clean_next (nx : tnext) : Prop :=
  match nx with TNRound _ => True | TNOutput b => b = true | TNAbort b => b = true end.
Definition shape_clean (sh : tshape) : Prop :=
  forall r, match ts_fin sh r with TFErr => True | TFNil => False | TFNext _ nx => clean_next nx end.
(* round numbers strictly increase and stay within 1..final *)
Definition shape_increasing (sh : tshape) : Prop :=
  forall r outs nr, ts_fin sh r = TFNext outs (TNRound nr) -> r < nr <= ts_final sh.

(* ------------------------------------------------------------------ *)
(* Tactics and frames                                                   *)
(* ------------------------------------------------------------------ *)
Ltac tprj :=
  cbn [t_self t_n t_ssid t_proto t_shape t_leader t_round t_msgs t_err t_res t_out t_pending t_closes t_rt
       set_trt set_terr set_tres set_tround set_tmsgs set_tcloses push_tout set_tpending].
Tactic Notation "tprj" "in" hyp(H) :=
  cbn [t_self t_n t_ssid t_proto t_shape t_leader t_round t_msgs t_err t_res t_out t_pending t_closes t_rt
       set_trt set_terr set_tres set_tround set_tmsgs set_tcloses push_tout set_tpending] in H.
Tactic Notation "tprj" "in" "*" :=
  cbn [t_self t_n t_ssid t_proto t_shape t_leader t_round t_msgs t_err t_res t_out t_pending t_closes t_rt
       set_trt set_terr set_tres set_tround set_tmsgs set_tcloses push_tout set_tpending] in *.

Ltac tdm :=
  repeat match goal with
         | |- context [match ?x with _ => _ end] => destruct x eqn:?
         end.

(* session parameters *)
Definition static (s : tstate) := (t_self s, t_n s, t_ssid s, t_proto s, t_shape s, t_leader s).
(* everything the control logic reads or writes except the channel contents and the runtime *)
Definition ctl (s : tstate) := (static s, t_round s, t_msgs s, t_err s, t_res s, t_closes s).

Lemma static_shape s s' : static s' = static s -> t_shape s' = t_shape s.
Proof. unfold static. intro H. injection H. intros. assumption. Qed.

Lemma ctl_static s s' : ctl s' = ctl s -> static s' = static s.
Proof. unfold ctl, static. intro H. injection H. intros. congruence. Qed.

Lemma ctl_fields s s' : ctl s' = ctl s ->
  t_shape s' = t_shape s /\ t_round s' = t_round s /\ t_msgs s' = t_msgs s /\ t_err s' = t_err s
  /\ t_res s' = t_res s /\ t_closes s' = t_closes s.
Proof. unfold ctl, static. intro H. injection H. intros. repeat split; assumption. Qed.

Lemma tp_emit_ctl s o : ctl (tp_emit s o) = ctl s.
Proof. unfold tp_emit. tdm; reflexivity. Qed.

Lemma tp_emit_all_ctl l : forall s, ctl (tp_emit_all s l) = ctl s.
Proof. induction l as [|o l IH]; intro s; cbn [tp_emit_all]; [reflexivity|]. rewrite IH. apply tp_emit_ctl. Qed.

Lemma tp_close_static s : static (tp_close s) = static s.
Proof. unfold tp_close. tdm; reflexivity. Qed.

Lemma tp_abort_static s e : static (tp_abort s e) = static s.
Proof. unfold tp_abort, tp_close. tdm; tprj in *; try reflexivity; try discriminate. Qed.

Lemma tp_abort_round s e : t_round (tp_abort s e) = t_round s.
Proof. unfold tp_abort, tp_close. tdm; tprj in *; try reflexivity; try discriminate. Qed.

Lemma tp_abort_msgs s e : t_msgs (tp_abort s e) = t_msgs s.
Proof. unfold tp_abort, tp_close. tdm; tprj in *; try reflexivity; try discriminate. Qed.

Lemma tp_abort_res s e : t_res (tp_abort s e) = t_res s.
Proof. unfold tp_abort, tp_close. tdm; tprj in *; try reflexivity; try discriminate. Qed.

Lemma tp_step_static s :
  match tp_step s with TDone s' => static s' = static s | TCont s' => static s' = static s end.
Proof.
  unfold tp_step.
  destruct (t_rt s); try reflexivity.
  destruct (negb (tp_can_advance s)); [reflexivity|].
  destruct (negb (tp_verify s)); [apply tp_abort_static|].
  destruct (tp_fin_of s) as [| |outs nx]; try apply tp_abort_static.
  destruct (1 <? length outs); [apply tp_abort_static|].
  pose proof (ctl_static _ _ (tp_emit_all_ctl outs s)) as E.
  destruct (t_rt (tp_emit_all s outs)); try exact E.
  destruct nx; try (rewrite tp_abort_static); exact E.
Qed.

Lemma tp_advance_static f : forall s, static (tp_advance f s) = static s.
Proof.
  induction f as [|f IH]; intro s; cbn [tp_advance]; [reflexivity|].
  pose proof (tp_step_static s) as H. destruct (tp_step s) as [s'|s']; [exact H|].
  rewrite IH. exact H.
Qed.

Lemma tp_recover_static s : static (tp_recover s) = static s.
Proof.
  unfold tp_recover. destruct (t_rt s); try reflexivity.
  destruct (tp_terminal _); [reflexivity|]. rewrite tp_abort_static. reflexivity.
Qed.

Lemma tp_accept_static s m : static (tp_accept s m) = static s.
Proof.
  unfold tp_accept. destruct (t_rt s); try reflexivity.
  rewrite tp_recover_static.
  destruct (_ || _); [reflexivity|].
  destruct (m_round m =? 0); [apply tp_abort_static|].
  rewrite tp_advance_static. reflexivity.
Qed.

Lemma tp_stop_static fixed s : static (tp_stop fixed s) = static s.
Proof. unfold tp_stop. tdm; try reflexivity; apply tp_abort_static. Qed.

Lemma tp_api_step_static fixed s e : static (tp_api_step fixed s e) = static s.
Proof. destruct e; cbn [tp_api_step]; [apply tp_accept_static|apply tp_stop_static|reflexivity]. Qed.

Lemma tp_run_api_inv (P : tstate -> Prop) fixed :
  (forall s e, P s -> P (tp_api_step fixed s e)) ->
  forall es s, P s -> P (tp_run_api fixed s es).
Proof.
  intros Hstep. induction es as [|e es IH]; intros s Hs; cbn; [exact Hs|].
  apply IH, Hstep, Hs.
Qed.

Lemma tp_new_static leader self n ssid proto sh :
  static (tp_new leader self n ssid proto sh) = (self, n, ssid, proto, sh, leader).
Proof. unfold tp_new. destruct leader; [rewrite tp_advance_static|]; reflexivity. Qed.

(* C09: the session parameters of a handler never change *)
Theorem tp_reachable_static fixed leader self n ssid proto sh s :
  tp_reachable fixed leader self n ssid proto sh s ->
  t_self s = self /\ t_n s = n /\ t_ssid s = ssid /\ t_proto s = proto /\ t_shape s = sh /\ t_leader s = leader.
Proof.
  intros [es ->].
  assert (H : static (tp_run_api fixed (tp_new leader self n ssid proto sh) es) = (self, n, ssid, proto, sh, leader)).
  { apply (tp_run_api_inv (fun s => static s = (self, n, ssid, proto, sh, leader))).
    - intros s e Hs. rewrite tp_api_step_static. exact Hs.
    - apply tp_new_static. }
  unfold static in H. injection H. intros. repeat split; assumption.
Qed.

(* ------------------------------------------------------------------ *)
(* Primitive behaviour on an open / closed channel                      *)
(* ------------------------------------------------------------------ *)
Definition notice : outmsg := mkOut None 0 false 0%N.

Lemma tp_abort_some_open s k :
  t_rt s = Running -> t_closes s = 0 ->
  tp_abort s (Some k) =
  set_tcloses (if t_pending s <? tp_capacity then push_tout (set_terr s (Some k)) notice else set_terr s (Some k)) 1.
Proof.
  intros Hr Hc. unfold tp_abort, tp_close. rewrite Hr. tprj. rewrite Hc. change (0 <? 0) with false. cbv iota.
  destruct (t_pending s <? tp_capacity); tprj; rewrite Hr, Hc; reflexivity.
Qed.

Lemma tp_abort_none_open s :
  t_rt s = Running -> t_closes s = 0 -> tp_abort s None = set_tcloses s 1.
Proof. intros Hr Hc. unfold tp_abort, tp_close. rewrite Hr, Hc. reflexivity. Qed.

Lemma tp_abort_some_closed s k :
  t_rt s = Running -> 0 < t_closes s ->
  tp_abort s (Some k) = set_trt (set_terr s (Some k)) (Panicked 2).
Proof.
  intros Hr Hc. unfold tp_abort, tp_close. rewrite Hr. tprj.
  apply Nat.ltb_lt in Hc. rewrite Hc. reflexivity.
Qed.

Lemma tp_abort_none_closed s :
  t_rt s = Running -> 0 < t_closes s -> tp_abort s None = set_trt s (Panicked 1).
Proof.
  intros Hr Hc. unfold tp_abort, tp_close. rewrite Hr.
  apply Nat.ltb_lt in Hc. rewrite Hc. reflexivity.
Qed.

Lemma tp_abort_not_running s e : t_rt s <> Running -> tp_abort s e = s.
Proof. unfold tp_abort. destruct (t_rt s); congruence. Qed.

Lemma tp_emit_open_rt s o : t_closes s = 0 -> t_panicked (t_rt s) = false -> t_panicked (t_rt (tp_emit s o)) = false.
Proof.
  intros Hc Hp. unfold tp_emit. destruct (t_rt s) eqn:Hr; try (rewrite Hr; exact Hp).
  rewrite Hc. change (0 <? 0) with false. cbv iota. destruct (_ <? _); tprj; [rewrite Hr|]; reflexivity.
Qed.

Lemma tp_emit_all_open_rt l : forall s,
  t_closes s = 0 -> t_panicked (t_rt s) = false -> t_panicked (t_rt (tp_emit_all s l)) = false.
Proof.
  induction l as [|o l IH]; intros s Hc Hp; cbn [tp_emit_all]; [exact Hp|].
  apply IH; [|apply tp_emit_open_rt; assumption].
  destruct (ctl_fields _ _ (tp_emit_ctl s o)) as (_ & _ & _ & _ & _ & E). rewrite E. exact Hc.
Qed.

(* ------------------------------------------------------------------ *)
(* Lifecycle invariant                                                  *)
(* ------------------------------------------------------------------ *)
Definition is_num (x : tround) : bool := match x with RNum _ => true | _ => false end.

Definition t_nonterm_ok (s : tstate) : Prop :=
  t_closes s = 0 /\ tp_terminal s = false /\ t_panicked (t_rt s) = false /\ is_num (t_round s) = true.
Definition t_term_ok (s : tstate) : Prop :=
  t_closes s = 1 /\ tp_terminal s = true /\ t_panicked (t_rt s) = false /\ (t_res s = true -> t_err s = None).
Definition t_life_ok (s : tstate) : Prop := t_nonterm_ok s \/ t_term_ok s.

Lemma tp_terminal_false s : tp_terminal s = false <-> t_err s = None /\ t_res s = false.
Proof.
  unfold tp_terminal. destruct (t_err s), (t_res s); cbn; split; try intros [? ?]; try discriminate; auto.
Qed.

Lemma t_term_abort_some s k :
  t_rt s = Running -> t_closes s = 0 -> tp_terminal s = false -> t_term_ok (tp_abort s (Some k)).
Proof.
  intros Hr A B. rewrite (tp_abort_some_open s k Hr A).
  apply tp_terminal_false in B as [_ B].
  unfold t_term_ok, tp_terminal. destruct (_ <? _); tprj; rewrite Hr, B; cbn; repeat split; auto; discriminate.
Qed.

Lemma t_life_abort_some s k : t_nonterm_ok s -> t_life_ok (tp_abort s (Some k)).
Proof.
  intros (A & B & C & D). destruct (t_rt s) eqn:Hr; try discriminate.
  - right. apply t_term_abort_some; assumption.
  - rewrite tp_abort_not_running by congruence. left. unfold t_nonterm_ok. rewrite Hr. auto.
Qed.

Lemma t_nonterm_ctl s s' :
  ctl s' = ctl s -> t_panicked (t_rt s') = false -> t_nonterm_ok s -> t_nonterm_ok s'.
Proof.
  intros E P (A & B & C & D). destruct (ctl_fields _ _ E) as (_ & Er & _ & Ee & Es & Ec).
  unfold t_nonterm_ok, tp_terminal in *. rewrite Er, Ee, Es, Ec. auto.
Qed.

Lemma tp_step_life s :
  shape_clean (t_shape s) -> t_nonterm_ok s ->
  match tp_step s with TDone s' => t_life_ok s' | TCont s' => t_nonterm_ok s' end.
Proof.
  intros Hcl H. unfold tp_step.
  destruct (t_rt s) eqn:Hr; try (left; exact H).
  destruct (negb (tp_can_advance s)); [left; exact H|].
  destruct (negb (tp_verify s)); [apply t_life_abort_some; exact H|].
  destruct H as (A & B & C & D).
  unfold tp_fin_of. destruct (t_round s) as [r| |] eqn:Hrd; try discriminate.
  specialize (Hcl r).
  destruct (ts_fin (t_shape s) r) as [| |outs nx]; [apply t_life_abort_some; unfold t_nonterm_ok; rewrite Hrd; auto|contradiction|].
  destruct (1 <? length outs); [apply t_life_abort_some; unfold t_nonterm_ok; rewrite Hrd; auto|].
  assert (H2 : t_nonterm_ok (tp_emit_all s outs)).
  { apply (t_nonterm_ctl s); [apply tp_emit_all_ctl|apply tp_emit_all_open_rt; assumption|].
    unfold t_nonterm_ok; rewrite Hrd; auto. }
  set (s2 := tp_emit_all s outs) in *.
  destruct (t_rt s2) eqn:Hr2; try (left; exact H2).
  destruct H2 as (A2 & B2 & C2 & D2). apply tp_terminal_false in B2 as [B2e B2r].
  destruct nx as [nr|b|b]; cbn [clean_next] in Hcl.
  - unfold t_nonterm_ok, tp_terminal. tprj. rewrite B2e, B2r, Hr2. auto.
  - subst b. rewrite tp_abort_none_open by (tprj; assumption). right.
    unfold t_term_ok, tp_terminal. tprj. rewrite B2e, Hr2. cbn. auto.
  - subst b. right. apply t_term_abort_some; tprj; auto. unfold tp_terminal. tprj. rewrite B2e, B2r. reflexivity.
Qed.

Lemma tp_advance_life f : forall s,
  shape_clean (t_shape s) -> t_nonterm_ok s -> t_life_ok (tp_advance f s).
Proof.
  induction f as [|f IH]; intros s Hcl H; cbn [tp_advance]; [left; exact H|].
  pose proof (tp_step_life s Hcl H) as L. pose proof (tp_step_static s) as St.
  destruct (tp_step s) as [s'|s']; [exact L|].
  apply IH; [|exact L]. rewrite (static_shape _ _ St). exact Hcl.
Qed.

Lemma t_life_not_terminal s : t_life_ok s -> tp_terminal s = false -> t_nonterm_ok s.
Proof. intros [H|(A & B & C)] T; [exact H|congruence]. Qed.

Lemma t_life_not_panicked s : t_life_ok s -> t_panicked (t_rt s) = false.
Proof. intros [(A & B & C & D)|(A & B & C & D)]; exact C. Qed.

Lemma tp_recover_id s : t_panicked (t_rt s) = false -> tp_recover s = s.
Proof. unfold tp_recover. destruct (t_rt s); try reflexivity; discriminate. Qed.

Lemma tp_accept_life s m : shape_clean (t_shape s) -> t_life_ok s -> t_life_ok (tp_accept s m).
Proof.
  intros Hcl H. unfold tp_accept.
  destruct (t_rt s) eqn:Hr; try exact H.
  assert (L : t_life_ok (if negb (tp_can_accept s m) || tp_terminal s then s
                         else if m_round m =? 0 then tp_abort s (Some TEAbortNotice)
                              else tp_advance (tp_fuel (tp_store s m)) (tp_store s m))).
  { destruct (negb (tp_can_accept s m)); cbn [orb]; [exact H|].
    destruct (tp_terminal s) eqn:T; [exact H|].
    pose proof (t_life_not_terminal s H T) as Hn.
    destruct (m_round m =? 0); [apply t_life_abort_some; exact Hn|].
    apply tp_advance_life; [exact Hcl|]. exact Hn. }
  rewrite tp_recover_id; [exact L|apply t_life_not_panicked; exact L].
Qed.

Lemma tp_stop_life s : t_life_ok s -> t_life_ok (tp_stop true s).
Proof.
  intro H. unfold tp_stop. destruct (t_rt s); try exact H.
  destruct (tp_terminal s) eqn:T; [exact H|].
  apply t_life_abort_some. apply t_life_not_terminal; assumption.
Qed.

Lemma tp_drain_life k s : t_life_ok s -> t_life_ok (tp_drain k s).
Proof. intro H. exact H. Qed.

Lemma tp_api_step_life s e : shape_clean (t_shape s) -> t_life_ok s -> t_life_ok (tp_api_step true s e).
Proof. destruct e; cbn [tp_api_step]; auto using tp_accept_life, tp_stop_life, tp_drain_life. Qed.

Lemma tp_new_life leader self n ssid proto sh : shape_clean sh -> t_life_ok (tp_new leader self n ssid proto sh).
Proof.
  intro Hcl. unfold tp_new.
  assert (t_nonterm_ok (tp_init leader self n ssid proto sh)) by (repeat split).
  destruct leader; [apply tp_advance_life; assumption|left; assumption].
Qed.

Lemma tp_reachable_life leader self n ssid proto sh s :
  shape_clean sh -> tp_reachable true leader self n ssid proto sh s -> t_life_ok s.
Proof.
  intros Hcl [es ->].
  assert (H : t_shape (tp_run_api true (tp_new leader self n ssid proto sh) es) = sh
              /\ t_life_ok (tp_run_api true (tp_new leader self n ssid proto sh) es)).
  { apply (tp_run_api_inv (fun s => t_shape s = sh /\ t_life_ok s)).
    - intros s e [Hs Hl]. split.
      + rewrite (static_shape _ _ (tp_api_step_static true s e)). exact Hs.
      + apply tp_api_step_life; [rewrite Hs; exact Hcl|exact Hl].
    - split; [|apply tp_new_life; exact Hcl].
      pose proof (tp_new_static leader self n ssid proto sh) as E. unfold static in E. injection E. intros. assumption. }
  exact (proj2 H).
Qed.

Lemma t_life_facts s :
  t_life_ok s ->
  t_closes s <= 1
  /\ (t_closes s = 1 <-> tp_terminal s = true)
  /\ ~ (t_res s = true /\ t_err s <> None)
  /\ (forall w, t_rt s <> Panicked w).
Proof.
  intros [(A & B & C & D)|(A & B & C & D)].
  - repeat split; try lia; try congruence.
    + apply tp_terminal_false in B as [E Rz]. intros [X Y]; congruence.
    + intros w Hw; rewrite Hw in C; discriminate.
  - repeat split; try lia; try congruence.
    + intros [X Y]. auto.
    + intros w Hw; rewrite Hw in C; discriminate.
Qed.

(* C17: lifecycle invariant on every reachable state (repaired Stop guard) *)
Theorem tp_lifecycle_inv leader self n ssid proto sh s :
  shape_clean sh ->
  tp_reachable true leader self n ssid proto sh s ->
  t_closes s <= 1
  /\ (t_closes s = 1 <-> tp_terminal s = true)
  /\ ~ (t_res s = true /\ t_err s <> None)
  /\ (forall w, t_rt s <> Panicked w).
Proof. intros Hcl R. apply t_life_facts. eapply tp_reachable_life; eassumption. Qed.

(* ------------------------------------------------------------------ *)
(* C07 / C09 / C05: CanAccept and the no-op lemmas                       *)
(* ------------------------------------------------------------------ *)
Lemma tp_recover_running s : t_rt s = Running -> tp_recover s = s.
Proof. intro H. unfold tp_recover. rewrite H. reflexivity. Qed.

Lemma tp_reject_noop s m : tp_can_accept s m = false -> tp_accept s m = s.
Proof.
  intro H. unfold tp_accept. destruct (t_rt s) eqn:Hr; try reflexivity.
  rewrite H. cbn [negb orb]. apply tp_recover_running, Hr.
Qed.

Lemma tp_terminal_noop s m : tp_terminal s = true -> tp_accept s m = s.
Proof.
  intro H. unfold tp_accept. destruct (t_rt s) eqn:Hr; try reflexivity.
  rewrite H, orb_true_r. apply tp_recover_running, Hr.
Qed.

Lemma tp_not_running_noop s m : t_rt s <> Running -> tp_accept s m = s.
Proof. intro H. unfold tp_accept. destruct (t_rt s); congruence. Qed.

Definition tp_can_accept_spec (s : tstate) (m : msg) : Prop :=
  m_from m <> t_self s
  /\ (m_to m = None \/ m_to m = Some (t_self s))
  /\ m_proto m = t_proto s
  /\ m_ssid m = t_ssid s
  /\ m_from m < t_n s
  /\ m_data m = true
  /\ m_round m <= ts_final (t_shape s).

Lemma t_is_for_spec self m :
  is_for self m = true <-> m_from m <> self /\ (m_to m = None \/ m_to m = Some self).
Proof.
  unfold is_for. rewrite andb_true_iff, negb_true_iff, Nat.eqb_neq.
  destruct (m_to m) as [t|].
  - rewrite Nat.eqb_eq. split.
    + intros [A B]. split; [exact A|right; congruence].
    + intros [A [B|B]]; [discriminate|]. split; [exact A|congruence].
  - split; intros [A B]; auto.
Qed.

(* CanAccept is exactly this conjunction of header conditions: the current round does not occur in it *)
Lemma tp_can_accept_total_spec s m : tp_can_accept s m = true <-> tp_can_accept_spec s m.
Proof.
  unfold tp_can_accept, tp_can_accept_spec.
  rewrite !andb_true_iff, t_is_for_spec, !N.eqb_eq, Nat.ltb_lt, Nat.leb_le.
  intuition.
Qed.

Lemma tp_can_accept_header_only s m m' :
  m_ssid m = m_ssid m' /\ m_proto m = m_proto m' /\ m_from m = m_from m' /\ m_to m = m_to m'
  /\ m_round m = m_round m' /\ m_data m = m_data m' ->
  tp_can_accept s m = tp_can_accept s m'.
Proof.
  intros (A & B & C & D & E & F). unfold tp_can_accept, is_for. rewrite A, B, C, D, E, F. reflexivity.
Qed.

(* no stale-round check: the verdict is the same whatever round the handler is in, whatever it has stored,
   and whether or not it has finished *)
Lemma tp_can_accept_ignores_progress s s' m :
  static s' = static s -> tp_can_accept s' m = tp_can_accept s m.
Proof.
  unfold static, tp_can_accept. intro H. injection H. intros _ E1 E2 E3 E4 E5. rewrite E1, E2, E3, E4, E5. reflexivity.
Qed.

Lemma tp_foreign_session_rejected s m :
  m_ssid m <> t_ssid s \/ m_proto m <> t_proto s \/ ~ (m_from m < t_n s) \/ is_for (t_self s) m = false ->
  tp_can_accept s m = false.
Proof.
  intro H. destruct (tp_can_accept s m) eqn:C; [|reflexivity].
  apply tp_can_accept_total_spec in C. destruct C as (A & B & C & D & E & _).
  destruct H as [H|[H|[H|H]]]; try contradiction; try congruence.
  assert (is_for (t_self s) m = true) by (apply t_is_for_spec; auto). congruence.
Qed.

Lemma tp_foreign_session_noop s m :
  m_ssid m <> t_ssid s \/ m_proto m <> t_proto s \/ ~ (m_from m < t_n s) \/ is_for (t_self s) m = false ->
  tp_accept s m = s.
Proof. intro H. apply tp_reject_noop, tp_foreign_session_rejected, H. Qed.

Lemma tp_future_round_rejected s m : ts_final (t_shape s) < m_round m -> tp_can_accept s m = false.
Proof.
  intro H. destruct (tp_can_accept s m) eqn:C; [|reflexivity].
  apply tp_can_accept_total_spec in C. unfold tp_can_accept_spec in C. lia.
Qed.

(* ------------------------------------------------------------------ *)
(* The message map                                                      *)
(* ------------------------------------------------------------------ *)
Lemma tget_tupd_same q r m : tget (tupd q r m) r = Some m.
Proof.
  induction q as [|[r' m'] q IH]; cbn [tupd tget]; [rewrite Nat.eqb_refl; reflexivity|].
  destruct (r' =? r) eqn:E; cbn [tget]; [rewrite Nat.eqb_refl; reflexivity|rewrite E; exact IH].
Qed.

Lemma tget_tupd_other q r m r' : r' <> r -> tget (tupd q r m) r' = tget q r'.
Proof.
  intro N. induction q as [|[r0 m0] q IH]; cbn [tupd tget].
  - apply Nat.eqb_neq in N. rewrite Nat.eqb_sym, N. reflexivity.
  - destruct (r0 =? r) eqn:E; cbn [tget].
    + apply Nat.eqb_eq in E. subst r0.
      assert (r =? r' = false) as -> by (apply Nat.eqb_neq; congruence). reflexivity.
    + destruct (r0 =? r'); [reflexivity|exact IH].
Qed.

Lemma tupd_same_id q r m : tget q r = Some m -> tupd q r m = q.
Proof.
  induction q as [|[r' m'] q IH]; cbn [tupd tget]; [discriminate|].
  destruct (r' =? r) eqn:E.
  - intro H. injection H as ->. apply Nat.eqb_eq in E. subst. reflexivity.
  - intro H. rewrite IH by exact H. reflexivity.
Qed.

Lemma tupd_tupd q r m m' : tupd (tupd q r m) r m' = tupd q r m'.
Proof.
  induction q as [|[r0 m0] q IH]; cbn [tupd]; [rewrite Nat.eqb_refl; reflexivity|].
  destruct (r0 =? r) eqn:E; cbn [tupd]; [rewrite Nat.eqb_refl; reflexivity|rewrite E, IH; reflexivity].
Qed.

(* the key set only grows; an update of an existing key keeps the number of entries *)
Lemma tupd_length_existing q r m x : tget q r = Some x -> length (tupd q r m) = length q.
Proof.
  induction q as [|[r' m'] q IH]; cbn [tupd tget]; [discriminate|].
  destruct (r' =? r); cbn [length]; [reflexivity|]. intro H. rewrite IH by exact H. reflexivity.
Qed.

Lemma set_tmsgs_same s : set_tmsgs s (t_msgs s) = s.
Proof. destruct s; reflexivity. Qed.

(* operations that never touch the message map commute with replacing it *)
Lemma tp_abort_set_tmsgs s e q : tp_abort (set_tmsgs s q) e = set_tmsgs (tp_abort s e) q.
Proof. unfold tp_abort, tp_close. tprj. tdm; tprj in *; try reflexivity; try congruence. Qed.

Lemma tp_emit_set_tmsgs s o q : tp_emit (set_tmsgs s q) o = set_tmsgs (tp_emit s o) q.
Proof. unfold tp_emit. tprj. tdm; reflexivity. Qed.

Lemma tp_emit_all_set_tmsgs l : forall s q, tp_emit_all (set_tmsgs s q) l = set_tmsgs (tp_emit_all s l) q.
Proof.
  induction l as [|o l IH]; intros s q; cbn [tp_emit_all]; [reflexivity|].
  rewrite tp_emit_set_tmsgs. apply IH.
Qed.

Lemma tp_emit_all_msgs l s : t_msgs (tp_emit_all s l) = t_msgs s.
Proof. destruct (ctl_fields _ _ (tp_emit_all_ctl l s)) as (_ & _ & E & _). exact E. Qed.

Definition tstep_map (f : tstate -> tstate) (x : tstep) : tstep :=
  match x with TDone s => TDone (f s) | TCont s => TCont (f s) end.

(* one loop iteration looks only at the entry of the current round *)
Lemma tp_step_set_tmsgs s q :
  tget q (rnum (t_round s)) = tget (t_msgs s) (rnum (t_round s)) ->
  tp_step (set_tmsgs s q) = tstep_map (fun x => set_tmsgs x q) (tp_step s).
Proof.
  intro E. unfold tp_step. tprj.
  destruct (t_rt s) eqn:Hr; try reflexivity.
  assert (Ec : tp_cur_msg (set_tmsgs s q) = tp_cur_msg s) by (unfold tp_cur_msg; tprj; exact E).
  assert (Ea : tp_can_advance (set_tmsgs s q) = tp_can_advance s) by (unfold tp_can_advance, tp_expects; rewrite Ec; reflexivity).
  assert (Ev : tp_verify (set_tmsgs s q) = tp_verify s) by (unfold tp_verify, tp_expects; rewrite Ec; reflexivity).
  rewrite Ea, Ev.
  destruct (negb (tp_can_advance s)); [reflexivity|].
  destruct (negb (tp_verify s)); [cbn [tstep_map]; rewrite tp_abort_set_tmsgs; reflexivity|].
  change (tp_fin_of (set_tmsgs s q)) with (tp_fin_of s).
  destruct (tp_fin_of s) as [| |outs nx]; try (cbn [tstep_map]; rewrite tp_abort_set_tmsgs; reflexivity).
  destruct (1 <? length outs); [cbn [tstep_map]; rewrite tp_abort_set_tmsgs; reflexivity|].
  rewrite tp_emit_all_set_tmsgs. tprj.
  destruct (t_rt (tp_emit_all s outs)); try reflexivity.
  destruct nx; cbn [tstep_map]; try reflexivity.
  - change (set_tres (set_tround (set_tmsgs (tp_emit_all s outs) q) (ROut nonnil)) nonnil)
      with (set_tmsgs (set_tres (set_tround (tp_emit_all s outs) (ROut nonnil)) nonnil) q).
    rewrite tp_abort_set_tmsgs. reflexivity.
  - change (set_tround (set_tmsgs (tp_emit_all s outs) q) (RAbt witherr))
      with (set_tmsgs (set_tround (tp_emit_all s outs) (RAbt witherr)) q).
    rewrite tp_abort_set_tmsgs. reflexivity.
Qed.

Lemma tp_step_msgs s :
  match tp_step s with TDone s' => t_msgs s' = t_msgs s | TCont s' => t_msgs s' = t_msgs s end.
Proof.
  unfold tp_step.
  destruct (t_rt s); try reflexivity.
  destruct (negb (tp_can_advance s)); [reflexivity|].
  destruct (negb (tp_verify s)); [apply tp_abort_msgs|].
  destruct (tp_fin_of s) as [| |outs nx]; try apply tp_abort_msgs.
  destruct (1 <? length outs); [apply tp_abort_msgs|].
  pose proof (tp_emit_all_msgs outs s) as E.
  destruct (t_rt (tp_emit_all s outs)); try exact E.
  destruct nx; try (rewrite tp_abort_msgs); exact E.
Qed.

Lemma tp_advance_msgs f : forall s, t_msgs (tp_advance f s) = t_msgs s.
Proof.
  induction f as [|f IH]; intro s; cbn [tp_advance]; [reflexivity|].
  pose proof (tp_step_msgs s) as H. destruct (tp_step s) as [s'|s']; [exact H|].
  rewrite IH. exact H.
Qed.

Lemma tp_recover_msgs s : t_msgs (tp_recover s) = t_msgs s.
Proof.
  unfold tp_recover. destruct (t_rt s); try reflexivity.
  destruct (tp_terminal _); [reflexivity|]. rewrite tp_abort_msgs. reflexivity.
Qed.

(* Accept either leaves the map alone or performs exactly one assignment messages[m.RoundNumber] = m *)
Lemma tp_accept_msgs s m :
  t_msgs (tp_accept s m) = t_msgs s
  \/ (m_round m <> 0 /\ t_msgs (tp_accept s m) = tupd (t_msgs s) (m_round m) m).
Proof.
  unfold tp_accept. destruct (t_rt s); auto.
  rewrite tp_recover_msgs.
  destruct (_ || _); auto.
  destruct (m_round m =? 0) eqn:E; [left; apply tp_abort_msgs|].
  right. split; [apply Nat.eqb_neq; exact E|]. rewrite tp_advance_msgs. reflexivity.
Qed.

Lemma tp_stop_msgs fixed s : t_msgs (tp_stop fixed s) = t_msgs s.
Proof. unfold tp_stop. tdm; try reflexivity; apply tp_abort_msgs. Qed.

(* round-0 messages (abort notices) are never stored *)
Lemma tp_api_step_no_zero fixed s e : tget (t_msgs s) 0 = None -> tget (t_msgs (tp_api_step fixed s e)) 0 = None.
Proof.
  intro H. destruct e as [m| |k]; cbn [tp_api_step].
  - destruct (tp_accept_msgs s m) as [->|[N ->]]; [exact H|]. rewrite tget_tupd_other by auto. exact H.
  - rewrite tp_stop_msgs. exact H.
  - exact H.
Qed.

Lemma tp_reachable_no_zero fixed leader self n ssid proto sh s :
  tp_reachable fixed leader self n ssid proto sh s -> tget (t_msgs s) 0 = None.
Proof.
  intros [es ->]. apply tp_run_api_inv; [intros; now apply tp_api_step_no_zero|].
  unfold tp_new. destruct leader; [rewrite tp_advance_msgs|]; reflexivity.
Qed.

(* ------------------------------------------------------------------ *)
(* What a message for another round than the current one does           *)
(* ------------------------------------------------------------------ *)
Lemma tp_advance_waiting f s : tp_can_advance s = false -> tp_advance f s = s.
Proof.
  intro H. destruct f as [|f]; [reflexivity|]. cbn [tp_advance]. unfold tp_step.
  destruct (t_rt s); try reflexivity. rewrite H. reflexivity.
Qed.

Lemma tp_store_can_advance s m :
  m_round m <> rnum (t_round s) -> tp_can_advance (tp_store s m) = tp_can_advance s.
Proof.
  intro N. unfold tp_can_advance, tp_cur_msg, tp_expects, tp_store. tprj.
  rewrite tget_tupd_other by congruence. reflexivity.
Qed.

(* A handler that is waiting (canAdvance() false) and is offered an acceptable message for ANY other round than
   the one it is in -- a later round, or an earlier one it has long consumed: there is no stale check -- performs
   exactly the assignment messages[m.RoundNumber] = m and nothing else. *)
Lemma tp_waiting_other_round_store_only s m :
  t_rt s = Running -> tp_terminal s = false -> tp_can_accept s m = true ->
  0 < m_round m -> tp_can_advance s = false -> m_round m <> rnum (t_round s) ->
  tp_accept s m = tp_store s m.
Proof.
  intros Hr T C P W N. unfold tp_accept. rewrite Hr, C, T. cbn [negb orb].
  assert (m_round m =? 0 = false) as -> by (apply Nat.eqb_neq; lia).
  rewrite tp_advance_waiting by (rewrite tp_store_can_advance; assumption).
  apply tp_recover_running. exact Hr.
Qed.

(* C07 (two-party): the LAST message for a round wins.  Whatever was stored for that round before -- nothing,
   the same message, or a different one -- is replaced; no other entry and no other field changes. *)
Lemma tp_overwrite s m' :
  t_rt s = Running -> tp_terminal s = false -> tp_can_accept s m' = true ->
  0 < m_round m' -> tp_can_advance s = false -> m_round m' <> rnum (t_round s) ->
  let s' := tp_accept s m' in
  tget (t_msgs s') (m_round m') = Some m'
  /\ (forall r, r <> m_round m' -> tget (t_msgs s') r = tget (t_msgs s) r)
  /\ s' = set_tmsgs s (t_msgs s').
Proof.
  intros Hr T C P W N. cbv zeta. rewrite tp_waiting_other_round_store_only by assumption.
  unfold tp_store. tprj. split; [apply tget_tupd_same|]. split; [|reflexivity].
  intros r Hne. apply tget_tupd_other. exact Hne.
Qed.

(* ... so of two messages for the same pending round only the second one counts: the state after both is the
   state after the second alone *)
Lemma tp_second_message_replaces_first s m m' :
  t_rt s = Running -> tp_terminal s = false -> tp_can_accept s m = true -> tp_can_accept s m' = true ->
  0 < m_round m -> m_round m' = m_round m -> tp_can_advance s = false -> m_round m <> rnum (t_round s) ->
  tp_accept (tp_accept s m) m' = tp_accept s m'.
Proof.
  intros Hr T C C' P E W N.
  rewrite (tp_waiting_other_round_store_only s m) by assumption.
  rewrite (tp_waiting_other_round_store_only s m') by (try assumption; lia).
  rewrite tp_waiting_other_round_store_only.
  - unfold tp_store. tprj. rewrite E, tupd_tupd. reflexivity.
  - exact Hr.
  - exact T.
  - rewrite <- C'. apply tp_can_accept_ignores_progress. reflexivity.
  - lia.
  - rewrite tp_store_can_advance; assumption.
  - unfold tp_store. tprj. lia.
Qed.

(* an identical copy of a stored message (a duplicate of a pending message, or a late duplicate of a message of a
   round consumed long ago) is literally a no-op *)
Lemma tp_duplicate_noop s m :
  0 < m_round m -> tp_can_advance s = false -> tget (t_msgs s) (m_round m) = Some m ->
  tp_accept s m = s.
Proof.
  intros P W G. unfold tp_accept. destruct (t_rt s) eqn:Hr; try reflexivity.
  rewrite tp_recover_running.
  - destruct (_ || _); [reflexivity|].
    assert (m_round m =? 0 = false) as -> by (apply Nat.eqb_neq; lia).
    unfold tp_store. rewrite tupd_same_id by exact G. rewrite set_tmsgs_same.
    apply tp_advance_waiting. exact W.
  - destruct (_ || _); [exact Hr|].
    assert (m_round m =? 0 = false) as -> by (apply Nat.eqb_neq; lia).
    unfold tp_store. rewrite tupd_same_id by exact G. rewrite set_tmsgs_same.
    rewrite tp_advance_waiting by exact W. exact Hr.
Qed.

Lemma tp_duplicate_after_consumption_noop s m :
  0 < m_round m < rnum (t_round s) -> tp_can_advance s = false -> tget (t_msgs s) (m_round m) = Some m ->
  tp_accept s m = s.
Proof. intros [H _]. exact (tp_duplicate_noop s m H). Qed.

(* ------------------------------------------------------------------ *)
(* Round numbers only grow (increasing shapes); fuel                    *)
(* ------------------------------------------------------------------ *)
Definition round_ge (c : nat) (s : tstate) : Prop := match t_round s with RNum r => c <= r | _ => True end.

Lemma tp_abort_round_ge c s e : round_ge c s -> round_ge c (tp_abort s e).
Proof. unfold round_ge. rewrite tp_abort_round. auto. Qed.

Lemma tp_step_cont s s' :
  tp_step s = TCont s' ->
  exists r outs nr, t_round s = RNum r /\ ts_fin (t_shape s) r = TFNext outs (TNRound nr) /\ t_round s' = RNum nr
                    /\ t_rt s' = Running /\ length outs <= 1 /\ s' = set_tround (tp_emit_all s outs) (RNum nr).
Proof.
  unfold tp_step.
  destruct (t_rt s); try discriminate.
  destruct (negb (tp_can_advance s)); [discriminate|].
  destruct (negb (tp_verify s)); [discriminate|].
  unfold tp_fin_of. destruct (t_round s) as [r|b|b] eqn:Hrd.
  - destruct (ts_fin (t_shape s) r) as [| |outs nx] eqn:Hf; try discriminate.
    destruct (1 <? length outs) eqn:L; [discriminate|].
    destruct (t_rt (tp_emit_all s outs)) eqn:R2; try discriminate.
    destruct nx; try discriminate.
    intro H. injection H as <-. exists r, outs, nr. tprj. apply Nat.ltb_ge in L. repeat split; auto.
  - cbn. destruct (t_rt s); discriminate.
  - cbn. destruct (t_rt s); discriminate.
Qed.

Lemma tp_step_round_ge c s :
  shape_increasing (t_shape s) -> round_ge c s ->
  match tp_step s with TDone s' => round_ge c s' | TCont s' => round_ge c s' end.
Proof.
  intros Inc H. destruct (tp_step s) as [s'|s'] eqn:E.
  - revert E. unfold tp_step.
    destruct (t_rt s); try (intro E; injection E as <-; exact H).
    destruct (negb (tp_can_advance s)); [intro E; injection E as <-; exact H|].
    destruct (negb (tp_verify s)); [intro E; injection E as <-; apply tp_abort_round_ge; exact H|].
    destruct (tp_fin_of s) as [| |outs nx]; try (intro E; injection E as <-; apply tp_abort_round_ge; exact H).
    destruct (1 <? length outs); [intro E; injection E as <-; apply tp_abort_round_ge; exact H|].
    destruct (ctl_fields _ _ (tp_emit_all_ctl outs s)) as (_ & Er & _).
    destruct (t_rt (tp_emit_all s outs)); try (intro E; injection E as <-; unfold round_ge; rewrite Er; exact H).
    destruct nx; try discriminate; intro E; injection E as <-; unfold round_ge; rewrite tp_abort_round; tprj; exact I.
  - apply tp_step_cont in E as (r & outs & nr & Hr & Hf & Hr' & _).
    unfold round_ge in *. rewrite Hr in H. rewrite Hr'. specialize (Inc r outs nr Hf). lia.
Qed.

Lemma tp_advance_round_ge c f : forall s,
  shape_increasing (t_shape s) -> round_ge c s -> round_ge c (tp_advance f s).
Proof.
  induction f as [|f IH]; intros s Inc H; cbn [tp_advance]; [exact H|].
  pose proof (tp_step_round_ge c s Inc H) as L. pose proof (tp_step_static s) as St.
  destruct (tp_step s) as [s'|s']; [exact L|].
  apply IH; [|exact L]. rewrite (static_shape _ _ St). exact Inc.
Qed.

(* number of loop iterations still possible *)
Definition tp_measure (s : tstate) : nat :=
  match t_round s with RNum r => S (ts_final (t_shape s)) - r | _ => 0 end.

Lemma tp_advance_fuel_step f : forall s,
  shape_increasing (t_shape s) -> tp_measure s < f -> tp_advance (S f) s = tp_advance f s.
Proof.
  induction f as [|f IH]; intros s Inc M; [lia|].
  change (tp_advance (S (S f)) s) with (match tp_step s with TDone s' => s' | TCont s' => tp_advance (S f) s' end).
  change (tp_advance (S f) s) with (match tp_step s with TDone s' => s' | TCont s' => tp_advance f s' end).
  pose proof (tp_step_static s) as St.
  destruct (tp_step s) as [s'|s'] eqn:E; [reflexivity|].
  apply tp_step_cont in E as (r & outs & nr & Hr & Hf & Hr' & _).
  pose proof (static_shape _ _ St) as Sh.
  apply IH; [rewrite Sh; exact Inc|].
  unfold tp_measure in *. rewrite Hr in M. rewrite Hr', Sh. specialize (Inc r outs nr Hf). lia.
Qed.

(* the fuel given to advance() by the model is enough: more fuel changes nothing *)
Lemma tp_advance_fuel_enough k s :
  shape_increasing (t_shape s) -> tp_advance (tp_fuel s + k) s = tp_advance (tp_fuel s) s.
Proof.
  intro Inc. induction k as [|k IH]; [rewrite Nat.add_0_r; reflexivity|].
  rewrite Nat.add_succ_r, tp_advance_fuel_step; [exact IH|exact Inc|].
  unfold tp_measure, tp_fuel. destruct (t_round s); lia.
Qed.

(* ------------------------------------------------------------------ *)
(* Entries of consumed rounds are dead: two handlers that differ only   *)
(* in entries below the current round stay indistinguishable forever    *)
(* ------------------------------------------------------------------ *)
Definition agree_from (c : nat) (q q' : list (nat * msg)) : Prop :=
  (forall r, c <= r -> tget q' r = tget q r) /\ tget q 0 = None /\ tget q' 0 = None.

(* s' is s with another message map that agrees with the one of s on every round >= c, and s is in a round >= c *)
Definition dead_below (c : nat) (s s' : tstate) : Prop :=
  s' = set_tmsgs s (t_msgs s') /\ agree_from c (t_msgs s) (t_msgs s') /\ round_ge c s.

Lemma agree_cur c s q' : agree_from c (t_msgs s) q' -> round_ge c s ->
  tget q' (rnum (t_round s)) = tget (t_msgs s) (rnum (t_round s)).
Proof.
  intros (A & Z & Z') G. unfold round_ge in G. destruct (t_round s) as [r| |]; cbn [rnum]; [apply A, G|congruence..].
Qed.

Lemma tp_advance_dead_below c f : forall s q',
  shape_increasing (t_shape s) -> agree_from c (t_msgs s) q' -> round_ge c s ->
  tp_advance f (set_tmsgs s q') = set_tmsgs (tp_advance f s) q'.
Proof.
  induction f as [|f IH]; intros s q' Inc A G; cbn [tp_advance]; [reflexivity|].
  rewrite (tp_step_set_tmsgs s q') by (eapply agree_cur; eassumption).
  pose proof (tp_step_round_ge c s Inc G) as L. pose proof (tp_step_static s) as St. pose proof (tp_step_msgs s) as Ms.
  destruct (tp_step s) as [s1|s1]; cbn [tstep_map]; [reflexivity|].
  apply IH; [rewrite (static_shape _ _ St); exact Inc|rewrite Ms; exact A|exact L].
Qed.

Lemma agree_tupd c q q' r m : r <> 0 -> agree_from c q q' -> agree_from c (tupd q r m) (tupd q' r m).
Proof.
  intros N (A & Z & Z'). repeat split.
  - intros r' H. destruct (Nat.eq_dec r' r) as [->|Hne]; [rewrite !tget_tupd_same; reflexivity|].
    rewrite !tget_tupd_other by exact Hne. apply A, H.
  - rewrite tget_tupd_other by auto. exact Z.
  - rewrite tget_tupd_other by auto. exact Z'.
Qed.

Lemma tp_recover_set_tmsgs s q : tp_recover (set_tmsgs s q) = set_tmsgs (tp_recover s) q.
Proof.
  unfold tp_recover. tprj. destruct (t_rt s); try reflexivity.
  change (tp_terminal (set_trt (set_tmsgs s q) Running)) with (tp_terminal (set_trt s Running)).
  destruct (tp_terminal _); [reflexivity|].
  change (set_trt (set_tmsgs s q) Running) with (set_tmsgs (set_trt s Running) q).
  apply tp_abort_set_tmsgs.
Qed.

Lemma tp_recover_round_ge c s : round_ge c s -> round_ge c (tp_recover s).
Proof.
  intro H. unfold tp_recover. destruct (t_rt s); try exact H.
  destruct (tp_terminal _); [exact H|]. apply tp_abort_round_ge. exact H.
Qed.

Lemma tp_api_step_dead_below fixed c s s' e :
  shape_increasing (t_shape s) -> dead_below c s s' ->
  dead_below c (tp_api_step fixed s e) (tp_api_step fixed s' e).
Proof.
  intros Inc (E & A & G). set (q' := t_msgs s') in *. rewrite E.
  destruct e as [m| |k]; cbn [tp_api_step].
  - (* Accept *)
    unfold tp_accept. tprj.
    change (tp_can_accept (set_tmsgs s q') m) with (tp_can_accept s m).
    change (tp_terminal (set_tmsgs s q')) with (tp_terminal s).
    destruct (t_rt s) eqn:Hr; try (split; [tprj; reflexivity|split; [exact A|exact G]]).
    destruct (negb (tp_can_accept s m) || tp_terminal s).
    + rewrite tp_recover_set_tmsgs. split; [tprj; reflexivity|]. tprj. rewrite tp_recover_msgs.
      split; [exact A|apply tp_recover_round_ge; exact G].
    + destruct (m_round m =? 0) eqn:Z.
      * rewrite tp_abort_set_tmsgs, tp_recover_set_tmsgs. split; [tprj; reflexivity|]. tprj.
        rewrite tp_recover_msgs, tp_abort_msgs. split; [exact A|apply tp_recover_round_ge, tp_abort_round_ge; exact G].
      * apply Nat.eqb_neq in Z.
        change (tp_fuel (tp_store (set_tmsgs s q') m)) with (tp_fuel (tp_store s m)).
        change (tp_store (set_tmsgs s q') m) with (set_tmsgs (tp_store s m) (tupd q' (m_round m) m)).
        assert (A2 : agree_from c (t_msgs (tp_store s m)) (tupd q' (m_round m) m))
          by (unfold tp_store; tprj; apply agree_tupd; assumption).
        rewrite (tp_advance_dead_below c) by (try exact A2; exact Inc || exact G).
        rewrite tp_recover_set_tmsgs. split; [tprj; reflexivity|]. tprj.
        rewrite tp_recover_msgs, tp_advance_msgs. split; [exact A2|].
        apply tp_recover_round_ge, tp_advance_round_ge; [exact Inc|exact G].
  - (* Stop *)
    unfold tp_stop. tprj. change (tp_terminal (set_tmsgs s q')) with (tp_terminal s).
    destruct (t_rt s) eqn:Hr; try (split; [tprj; reflexivity|split; [exact A|exact G]]).
    destruct fixed, (tp_terminal s);
      try (split; [tprj; reflexivity|split; [exact A|exact G]]);
      rewrite tp_abort_set_tmsgs; (split; [tprj; reflexivity|]); tprj; rewrite tp_abort_msgs;
      (split; [exact A|apply tp_abort_round_ge; exact G]).
  - (* Drain *)
    split; [reflexivity|]. split; [exact A|exact G].
Qed.

Lemma tp_run_api_dead_below fixed c es : forall s s',
  shape_increasing (t_shape s) -> dead_below c s s' ->
  dead_below c (tp_run_api fixed s es) (tp_run_api fixed s' es).
Proof.
  induction es as [|e es IH]; intros s s' Inc D; cbn; [exact D|].
  apply IH; [rewrite (static_shape _ _ (tp_api_step_static fixed s e)); exact Inc|].
  apply tp_api_step_dead_below; assumption.
Qed.

(* everything observable except the message map *)
Definition same_but_msgs (s s' : tstate) : Prop := s' = set_tmsgs s (t_msgs s').

(* C07 (two-party): a message for a round the handler has already left -- ANY such message, a copy of the consumed one
   or a different one -- is accepted (no stale check) and stored, and that is all: at once and after every later
   API history the handler that got it and the handler that did not differ in nothing but entries of the message
   map for rounds below the current one, which are never read again. *)
Theorem tp_stale_message_invisible fixed s m es :
  shape_increasing (t_shape s) ->
  t_rt s = Running -> tp_terminal s = false -> tp_can_accept s m = true -> tp_can_advance s = false ->
  tget (t_msgs s) 0 = None ->
  0 < m_round m < rnum (t_round s) ->
  tp_accept s m = tp_store s m
  /\ same_but_msgs (tp_run_api fixed s es) (tp_run_api fixed (tp_accept s m) es)
  /\ (forall r, rnum (t_round s) <= r ->
        tget (t_msgs (tp_run_api fixed (tp_accept s m) es)) r = tget (t_msgs (tp_run_api fixed s es)) r).
Proof.
  intros Inc Hr T C W Z [P L].
  assert (E : tp_accept s m = tp_store s m) by (apply tp_waiting_other_round_store_only; try assumption; lia).
  split; [exact E|].
  assert (D : dead_below (rnum (t_round s)) s (tp_accept s m)).
  { rewrite E. unfold tp_store. split; [tprj; reflexivity|]. tprj. split.
    - repeat split; [|exact Z|rewrite tget_tupd_other by lia; exact Z].
      intros r H. apply tget_tupd_other. lia.
    - unfold round_ge. destruct (t_round s); cbn [rnum]; auto. }
  destruct (tp_run_api_dead_below fixed _ es s _ Inc D) as (E2 & (A2 & _) & _).
  split; [exact E2|exact A2].
Qed.

(* ------------------------------------------------------------------ *)
(* Terminal stability, Stop                                             *)
(* ------------------------------------------------------------------ *)
Definition t_same_but_pending (s s' : tstate) : Prop := s' = set_tpending s (t_pending s').

Lemma t_same_but_pending_refl s : t_same_but_pending s s.
Proof. destruct s; reflexivity. Qed.

Lemma tp_stop_finished_noop s : tp_terminal s = true -> tp_stop true s = s.
Proof. intro H. unfold tp_stop. rewrite H. destruct (t_rt s); reflexivity. Qed.

Lemma tp_accept_terminal_any_rt s m : tp_terminal s = true -> tp_accept s m = s.
Proof.
  intro H. destruct (t_rt s) eqn:Hr; [apply tp_terminal_noop; exact H|apply tp_not_running_noop; congruence..].
Qed.

Lemma tp_terminal_stable_step s e :
  tp_terminal s = true ->
  let s' := tp_api_step true s e in
  t_same_but_pending s s' /\ ((forall k, e <> TDrain k) -> s' = s).
Proof.
  intro T. destruct e as [m| |k]; cbn [tp_api_step].
  - rewrite tp_accept_terminal_any_rt by exact T. split; [apply t_same_but_pending_refl|reflexivity].
  - rewrite tp_stop_finished_noop by exact T. split; [apply t_same_but_pending_refl|reflexivity].
  - split; [reflexivity|]. intro H. exfalso. apply (H k). reflexivity.
Qed.

Lemma tp_terminal_stable es : forall s,
  tp_terminal s = true ->
  let s' := tp_run_api true s es in
  t_same_but_pending s s' /\ tp_terminal s' = true /\ tp_result_class s' = tp_result_class s.
Proof.
  induction es as [|e es IH]; intros s T.
  - cbn. split; [apply t_same_but_pending_refl|auto].
  - change (tp_run_api true s (e :: es)) with (tp_run_api true (tp_api_step true s e) es).
    destruct (tp_terminal_stable_step s e T) as [Sp _]. cbv zeta in Sp.
    set (s1 := tp_api_step true s e) in *.
    assert (T1 : tp_terminal s1 = true) by (rewrite Sp; exact T).
    destruct (IH s1 T1) as (Sp2 & T2 & R2). cbv zeta in *.
    split; [|split; [exact T2|]].
    + unfold t_same_but_pending in *. rewrite Sp2 at 1. rewrite Sp. reflexivity.
    + rewrite R2. rewrite Sp. reflexivity.
Qed.

(* Stop on a running session ends it with the user error, closes the channel once *)
Lemma tp_stop_ends_running leader self n ssid proto sh s :
  shape_clean sh ->
  tp_reachable true leader self n ssid proto sh s ->
  tp_terminal s = false -> t_rt s = Running ->
  let s' := tp_stop true s in
  tp_result_class s' = 2 /\ t_closes s' = 1 /\ t_err s' = Some TEUser /\ t_rt s' = Running.
Proof.
  intros Hcl R T Hr. cbv zeta.
  pose proof (tp_reachable_life _ _ _ _ _ _ _ Hcl R) as L.
  destruct (t_life_not_terminal s L T) as (A & _ & _ & _).
  unfold tp_stop. rewrite Hr, T. rewrite tp_abort_some_open by assumption.
  apply tp_terminal_false in T as [_ T].
  unfold tp_result_class. destruct (_ <? _); tprj; rewrite T, Hr; auto.
Qed.

(* -- the guard as found at the pinned commit (inverted) -- *)
Lemma tp_stop_v0_running_noop s : tp_terminal s = false -> tp_stop false s = s.
Proof. intro H. unfold tp_stop. rewrite H. destruct (t_rt s); reflexivity. Qed.

(* on EVERY finished state it overwrites the error, then panics in the send on the closed channel *)
Lemma tp_stop_v0_finished_panics s :
  t_rt s = Running -> tp_terminal s = true -> 0 < t_closes s ->
  let s' := tp_stop false s in
  t_rt s' = Panicked 2 /\ t_err s' = Some TEUser /\ t_res s' = t_res s.
Proof.
  intros Hr T C. cbv zeta. unfold tp_stop. rewrite Hr, T. rewrite tp_abort_some_closed by assumption.
  tprj. auto.
Qed.

(* ------------------------------------------------------------------ *)
(* C05 (handler level): clean aborts                                    *)
(* ------------------------------------------------------------------ *)
Lemma tp_accept_no_panic leader self n ssid proto sh s m :
  shape_clean sh -> tp_reachable true leader self n ssid proto sh s ->
  forall w, t_rt (tp_accept s m) <> Panicked w.
Proof.
  intros Hcl [es ->].
  assert (R : tp_reachable true leader self n ssid proto sh
                (tp_run_api true (tp_new leader self n ssid proto sh) (es ++ [TAccept m]))) by (eexists; reflexivity).
  unfold tp_run_api in R. rewrite fold_left_app in R. cbn in R.
  apply (tp_lifecycle_inv _ _ _ _ _ _ _ Hcl R).
Qed.

(* an accepted message for the CURRENT round that the round rejects (or that arrives for a round that expects
   none) ends the session in a clean abort at once *)
Lemma tp_invalid_message_clean_abort leader self n ssid proto sh s m :
  shape_clean sh -> tp_reachable true leader self n ssid proto sh s ->
  t_rt s = Running -> tp_terminal s = false -> tp_can_accept s m = true ->
  0 < m_round m -> m_round m = rnum (t_round s) -> tp_expects s && m_valid m = false ->
  let s' := tp_accept s m in
  t_closes s' = 1 /\ tp_result_class s' = 2 /\ t_err s' = Some TEVerify /\ t_rt s' = Running
  /\ t_round s' = t_round s /\ length (t_out s') <= S (length (t_out s)).
Proof.
  intros Hcl R Hr T C P E V. cbv zeta.
  pose proof (tp_reachable_life _ _ _ _ _ _ _ Hcl R) as L.
  destruct (t_life_not_terminal s L T) as (A & _ & _ & _).
  unfold tp_accept. rewrite Hr, C, T. cbn [negb orb].
  assert (m_round m =? 0 = false) as -> by (apply Nat.eqb_neq; lia).
  set (s1 := tp_store s m).
  assert (G : tp_cur_msg s1 = Some m).
  { unfold tp_cur_msg, s1, tp_store. tprj. rewrite <- E. apply tget_tupd_same. }
  assert (X : tp_expects s1 = tp_expects s) by reflexivity.
  assert (St : tp_step s1 = TDone (tp_abort s1 (Some TEVerify))).
  { unfold tp_step. change (t_rt s1) with (t_rt s). rewrite Hr.
    unfold tp_can_advance, tp_verify. rewrite G, X, V, orb_true_r. reflexivity. }
  unfold tp_fuel. rewrite Nat.add_comm. cbn [Nat.add tp_advance]. rewrite St.
  rewrite tp_abort_some_open by assumption.
  apply tp_terminal_false in T as [_ T].
  subst s1. unfold tp_store.
  unfold tp_result_class, tp_recover. destruct (_ <? _); tprj; rewrite Hr; tprj; rewrite T; repeat split; auto.
  rewrite app_length. cbn. lia.
Qed.

(* a peer's abort notice (round number 0) ends a running session *)
Lemma tp_abort_notice_ends_session leader self n ssid proto sh s m :
  shape_clean sh -> tp_reachable true leader self n ssid proto sh s ->
  t_rt s = Running -> tp_terminal s = false -> tp_can_accept s m = true -> m_round m = 0 ->
  let s' := tp_accept s m in
  t_closes s' = 1 /\ tp_result_class s' = 2 /\ t_err s' = Some TEAbortNotice /\ t_rt s' = Running.
Proof.
  intros Hcl R Hr T C Z. cbv zeta.
  pose proof (tp_reachable_life _ _ _ _ _ _ _ Hcl R) as L.
  destruct (t_life_not_terminal s L T) as (A & _ & _ & _).
  unfold tp_accept. rewrite Hr, C, T, Z. cbn [negb orb Nat.eqb].
  rewrite tp_abort_some_open by assumption.
  apply tp_terminal_false in T as [_ T].
  unfold tp_result_class, tp_recover. destruct (_ <? _); tprj; rewrite Hr; tprj; rewrite T; auto.
Qed.

(* ------------------------------------------------------------------ *)
(* Capacity of the out channel (2) and blocking                         *)
(* ------------------------------------------------------------------ *)
(* every round from the second on expects a message of the peer *)
Definition shape_busy (sh : tshape) : Prop := forall r, 2 <= r -> ts_expects sh r = true.
(* nothing is stored for round b or later *)
Definition quiet_from (s : tstate) (b : nat) : Prop := forall r, b <= r -> tget (t_msgs s) r = None.

Lemma tp_emit_all_fits l : forall s,
  t_rt s = Running -> t_closes s = 0 -> t_pending s + length l <= tp_capacity ->
  t_rt (tp_emit_all s l) = Running /\ t_out (tp_emit_all s l) = t_out s ++ l
  /\ t_pending (tp_emit_all s l) = t_pending s + length l.
Proof.
  induction l as [|o l IH]; intros s Hr Hc Hp; cbn [tp_emit_all length] in *.
  - rewrite app_nil_r, Nat.add_0_r. auto.
  - assert (E : tp_emit s o = push_tout s o).
    { unfold tp_emit. rewrite Hr, Hc. change (0 <? 0) with false. cbv iota.
      assert (t_pending s <? tp_capacity = true) as -> by (apply Nat.ltb_lt; lia). reflexivity. }
    rewrite E. destruct (IH (push_tout s o)) as (R & O & P); tprj; try assumption; try lia.
    rewrite R, O, P. tprj. rewrite <- app_assoc. repeat split; auto. lia.
Qed.

Lemma tp_advance_capacity f : forall k s cur,
  shape_clean (t_shape s) -> shape_increasing (t_shape s) -> shape_busy (t_shape s) ->
  t_nonterm_ok s -> t_rt s = Running -> t_round s = RNum cur ->
  quiet_from s (cur + k) -> 2 <= cur + k -> t_pending s + k <= tp_capacity ->
  t_rt (tp_advance f s) = Running /\ length (t_out (tp_advance f s)) <= length (t_out s) + k + 1.
Proof.
  induction f as [|f IH]; intros k s cur Hcl Inc Busy Hn Hr Hrd Q K2 Cap; cbn [tp_advance].
  - split; [exact Hr|lia].
  - destruct (tp_can_advance s) eqn:CA.
    2: { unfold tp_step. rewrite Hr, CA. cbn [negb]. split; [exact Hr|lia]. }
    assert (K1 : 1 <= k).
    { destruct k; [|lia]. exfalso. rewrite Nat.add_0_r in *.
      unfold tp_can_advance, tp_expects, tp_cur_msg in CA. rewrite Hrd in CA. cbn [rnum] in CA.
      rewrite (Busy cur K2), (Q cur (le_n _)) in CA. discriminate. }
    destruct Hn as (A & B & C & D).
    assert (AB : forall e, t_rt (tp_abort s (Some e)) = Running
                           /\ length (t_out (tp_abort s (Some e))) <= length (t_out s) + k + 1).
    { intro e. rewrite tp_abort_some_open by assumption.
      destruct (_ <? _); tprj; (split; [exact Hr|]); rewrite ?app_length; cbn [length]; lia. }
    unfold tp_step. rewrite Hr, CA. cbn [negb].
    destruct (negb (tp_verify s)); [apply AB|].
    unfold tp_fin_of. rewrite Hrd. pose proof (Hcl cur) as Hc.
    destruct (ts_fin (t_shape s) cur) as [| |outs nx] eqn:Hf; [apply AB|contradiction|].
    destruct (1 <? length outs) eqn:L1; [apply AB|].
    apply Nat.ltb_ge in L1.
    destruct (tp_emit_all_fits outs s Hr A) as (R2 & O2 & P2); [lia|].
    destruct (ctl_fields _ _ (tp_emit_all_ctl outs s)) as (Esh & Erd & Ems & Eer & Ers & Ecl).
    apply tp_terminal_false in B as [Be Br].
    rewrite R2.
    destruct nx as [nr|b|b]; cbn [clean_next] in Hc.
    + specialize (Inc cur outs nr Hf) as Inr.
      set (s3 := set_tround (tp_emit_all s outs) (RNum nr)).
      assert (Sh3 : t_shape s3 = t_shape s) by exact Esh.
      assert (N3 : t_nonterm_ok s3).
      { unfold t_nonterm_ok, tp_terminal, s3. tprj. rewrite Ecl, Eer, Ers, R2, Be, Br. auto. }
      assert (Q3 : quiet_from s3 (nr + (k - 1))).
      { intros r H. unfold s3. tprj. rewrite Ems. apply Q. lia. }
      assert (P3 : t_pending s3 + (k - 1) <= tp_capacity) by (unfold s3; tprj; rewrite P2; lia).
      destruct (IH (k - 1) s3 nr) as [Ra Oa]; try (rewrite Sh3; assumption); try assumption; try reflexivity; try lia.
      split; [exact Ra|]. etransitivity; [exact Oa|]. unfold s3. tprj. rewrite O2, app_length. lia.
    + subst b. rewrite tp_abort_none_open by (tprj; congruence). tprj.
      split; [exact R2|]. rewrite O2, app_length. lia.
    + subst b. rewrite tp_abort_some_open by (tprj; congruence). tprj.
      destruct (_ <? _); tprj; (split; [exact R2|]); rewrite ?app_length, O2, ?app_length; cbn [length]; lia.
Qed.

(* If nothing is stored for round cur+k or later and the delivered message is for a round below cur+k, one
   Accept passes at most k rounds: it does not block provided the channel has room for k messages, and it emits at
   most k round messages plus possibly one abort notice. *)
Lemma tp_out_capacity s m k cur :
  shape_clean (t_shape s) -> shape_increasing (t_shape s) -> shape_busy (t_shape s) ->
  t_life_ok s -> t_rt s = Running -> t_round s = RNum cur ->
  quiet_from s (cur + k) -> m_round m < cur + k -> 2 <= cur + k -> t_pending s + k <= tp_capacity ->
  t_rt (tp_accept s m) = Running /\ length (t_out (tp_accept s m)) <= length (t_out s) + k + 1.
Proof.
  intros Hcl Inc Busy L Hr Hrd Q Mk K2 Cap. unfold tp_accept. rewrite Hr.
  destruct (negb (tp_can_accept s m) || tp_terminal s) eqn:G.
  - rewrite tp_recover_running by exact Hr. split; [exact Hr|lia].
  - apply orb_false_iff in G as [_ T].
    pose proof (t_life_not_terminal s L T) as Hn.
    destruct (m_round m =? 0) eqn:Z.
    + destruct Hn as (A & _). rewrite tp_abort_some_open by assumption.
      destruct (_ <? _); tprj; rewrite tp_recover_running by (tprj; exact Hr); tprj;
        (split; [exact Hr|]); rewrite ?app_length; cbn [length]; lia.
    + apply Nat.eqb_neq in Z.
      destruct (tp_advance_capacity (tp_fuel (tp_store s m)) k (tp_store s m) cur) as [Ra Oa]; try assumption.
      * intros r H. unfold tp_store. tprj. rewrite tget_tupd_other by lia. apply Q, H.
      * rewrite tp_recover_running by exact Ra. split; [exact Ra|exact Oa].
Qed.

Lemma tp_accept_round_ge c s m : shape_increasing (t_shape s) -> round_ge c s -> round_ge c (tp_accept s m).
Proof.
  intros Inc G. unfold tp_accept. destruct (t_rt s); try exact G.
  apply tp_recover_round_ge.
  destruct (_ || _); [exact G|].
  destruct (m_round m =? 0); [apply tp_abort_round_ge; exact G|].
  apply tp_advance_round_ge; [exact Inc|exact G].
Qed.

(* honest-shaped traffic: every delivered message is for a round at most one ahead of the handler *)
Fixpoint tp_peers_one_ahead (s : tstate) (es : list tapi) : Prop :=
  match es with
  | [] => True
  | e :: es' =>
      (match e with TAccept m => m_round m <= rnum (t_round s) + 1 | _ => True end)
      /\ tp_peers_one_ahead (tp_api_step_drained true s e) es'
  end.

Definition drained_inv (sh : tshape) (s : tstate) : Prop :=
  t_shape s = sh /\ t_life_ok s /\ t_rt s = Running /\ t_pending s = 0
  /\ (tp_terminal s = true \/ exists cur, t_round s = RNum cur /\ 1 <= cur /\ quiet_from s (cur + 2)).

Lemma nonterm_round s : t_nonterm_ok s -> exists r, t_round s = RNum r.
Proof. intros (_ & _ & _ & D). destruct (t_round s) as [r| |]; try discriminate. eauto. Qed.

Lemma drained_inv_step sh s e :
  shape_clean sh -> shape_increasing sh -> shape_busy sh ->
  drained_inv sh s ->
  (match e with TAccept m => m_round m <= rnum (t_round s) + 1 | _ => True end) ->
  drained_inv sh (tp_api_step_drained true s e).
Proof.
  intros Hcl Inc Busy (Sh & L & Hr & Pd & Rd) One.
  unfold tp_api_step_drained, tp_drain_all.
  assert (Dr : forall x, drained_inv sh (set_tpending x 0) <->
                         (t_shape x = sh /\ t_life_ok x /\ t_rt x = Running
                          /\ (tp_terminal x = true \/ exists cur, t_round x = RNum cur /\ 1 <= cur /\ quiet_from x (cur + 2)))).
  { intro x. unfold drained_inv. tprj.
    change (t_life_ok (set_tpending x 0)) with (t_life_ok x).
    change (tp_terminal (set_tpending x 0)) with (tp_terminal x).
    change (quiet_from (set_tpending x 0)) with (quiet_from x). intuition. }
  unfold tp_drain. rewrite Nat.sub_diag. apply Dr.
  destruct (tp_terminal s) eqn:T.
  { (* finished: every call is a no-op up to pending *)
    destruct (tp_terminal_stable_step s e T) as [Sp _]. cbv zeta in Sp. rewrite Sp.
    change (t_life_ok (set_tpending s (t_pending (tp_api_step true s e)))) with (t_life_ok s).
    change (tp_terminal (set_tpending s (t_pending (tp_api_step true s e)))) with (tp_terminal s).
    tprj. auto. }
  destruct Rd as [Rd|(cur & Hrd & C1 & Q)]; [congruence|].
  destruct e as [m| |k]; cbn [tp_api_step].
  - rewrite Hrd in One. cbn [rnum] in One.
    destruct (tp_out_capacity s m 2 cur) as [Ra _]; try (rewrite Sh; assumption); try assumption; try lia.
    { rewrite Pd. unfold tp_capacity. lia. }
    pose proof (tp_accept_life s m ltac:(rewrite Sh; exact Hcl) L) as L'.
    split; [rewrite (static_shape _ _ (tp_accept_static s m)); exact Sh|].
    split; [exact L'|]. split; [exact Ra|].
    destruct (tp_terminal (tp_accept s m)) eqn:T'; [left; reflexivity|right].
    destruct (nonterm_round _ (t_life_not_terminal _ L' T')) as [cur' Hrd'].
    exists cur'. split; [exact Hrd'|].
    assert (G : round_ge cur (tp_accept s m)).
    { apply tp_accept_round_ge; [rewrite Sh; exact Inc|]. unfold round_ge. rewrite Hrd. lia. }
    unfold round_ge in G. rewrite Hrd' in G. split; [lia|].
    intros r H. destruct (tp_accept_msgs s m) as [->|[_ ->]].
    + apply Q. lia.
    + rewrite tget_tupd_other by lia. apply Q. lia.
  - unfold tp_stop. rewrite Hr, T.
    pose proof (t_life_not_terminal s L T) as Hn. destruct Hn as (A & _).
    split; [rewrite (static_shape _ _ (tp_abort_static s _)); exact Sh|].
    pose proof (t_term_abort_some s TEUser Hr A T) as Tm.
    split; [right; exact Tm|].
    split; [rewrite tp_abort_some_open by assumption; destruct (_ <? _); tprj; exact Hr|].
    left. destruct Tm as (_ & X & _). exact X.
  - split; [exact Sh|]. split; [exact L|]. split; [exact Hr|]. right. exists cur. auto.
Qed.

(* Well-drained history (the user empties Listen() after every call), honest-shaped traffic (every delivered
   message is for a round at most one ahead): the handler never blocks on its channel of capacity 2. *)
Theorem tp_no_block_when_drained leader self n ssid proto sh es :
  shape_clean sh -> shape_increasing sh -> shape_busy sh ->
  let s0 := tp_drain_all (tp_new leader self n ssid proto sh) in
  tp_peers_one_ahead s0 es ->
  let s := tp_run_api_drained true s0 es in
  t_rt s = Running /\ t_rt s <> BlockedOnSend.
Proof.
  intros Hcl Inc Busy s0 One s.
  assert (I0 : drained_inv sh s0).
  { subst s0. unfold tp_drain_all, tp_drain. rewrite Nat.sub_diag.
    pose proof (tp_new_life leader self n ssid proto sh Hcl) as L.
    assert (Sh : t_shape (tp_new leader self n ssid proto sh) = sh).
    { pose proof (tp_new_static leader self n ssid proto sh) as E. unfold static in E. injection E. intros. assumption. }
    assert (Ms : t_msgs (tp_new leader self n ssid proto sh) = []).
    { unfold tp_new. destruct leader; [rewrite tp_advance_msgs|]; reflexivity. }
    assert (Rn : t_rt (tp_new leader self n ssid proto sh) = Running).
    { unfold tp_new. destruct leader; [|reflexivity].
      destruct (tp_advance_capacity (tp_fuel (tp_init true self n ssid proto sh)) 2 (tp_init true self n ssid proto sh) 1)
        as [Ra _]; try assumption; try reflexivity; try (repeat split); try (cbn; lia). }
    assert (G : round_ge 1 (tp_new leader self n ssid proto sh)).
    { unfold tp_new. destruct leader; [apply tp_advance_round_ge; [exact Inc|]|]; unfold round_ge; cbn; lia. }
    unfold drained_inv. tprj.
    change (t_life_ok (set_tpending (tp_new leader self n ssid proto sh) 0)) with (t_life_ok (tp_new leader self n ssid proto sh)).
    change (tp_terminal (set_tpending (tp_new leader self n ssid proto sh) 0)) with (tp_terminal (tp_new leader self n ssid proto sh)).
    split; [exact Sh|]. split; [exact L|]. split; [exact Rn|]. split; [reflexivity|].
    destruct (tp_terminal (tp_new leader self n ssid proto sh)) eqn:T; [left; reflexivity|right].
    destruct (nonterm_round _ (t_life_not_terminal _ L T)) as [cur Hrd].
    exists cur. split; [exact Hrd|]. unfold round_ge in G. rewrite Hrd in G. split; [exact G|].
    intros r _. change (t_msgs (set_tpending (tp_new leader self n ssid proto sh) 0)) with (t_msgs (tp_new leader self n ssid proto sh)).
    rewrite Ms. reflexivity. }
  assert (I : drained_inv sh s).
  { subst s. clearbody s0. revert s0 One I0. induction es as [|e es IH]; intros s0 One I0; [exact I0|].
    destruct One as [O1 O2]. cbn [tp_run_api_drained fold_left].
    apply IH; [exact O2|]. apply drained_inv_step; assumption. }
  destruct I as (_ & _ & R & _). split; [exact R|congruence].
Qed.

(* ------------------------------------------------------------------ *)
(* Concrete shapes and witnesses                                        *)
(* ------------------------------------------------------------------ *)
Definition om (r : nat) : outmsg := mkOut None r false 0%N.

(* Doerner key generation, receiver ("Bob", leader): round 1 expects nothing; messages carry the number of the
   round that emits them.  Sender ("Alice", not leader): every round expects a message; its messages carry the
   number of the NEXT round; its last round emits nothing. *)
Definition dk_recv_shape : tshape :=
  mkTShape 3 (fun r => 2 <=? r)
    (fun r => match r with
              | 1 => TFNext [om 1] (TNRound 2)
              | 2 => TFNext [om 2] (TNRound 3)
              | 3 => TFNext [om 3] (TNOutput true)
              | _ => TFErr end).
Definition dk_send_shape : tshape :=
  mkTShape 3 (fun r => 1 <=? r)
    (fun r => match r with
              | 1 => TFNext [om 2] (TNRound 2)
              | 2 => TFNext [om 3] (TNRound 3)
              | 3 => TFNext [] (TNOutput true)
              | _ => TFErr end).
(* a three-round protocol in which every round expects a message and emits one *)
Definition chain3_shape : tshape :=
  mkTShape 3 (fun r => 1 <=? r)
    (fun r => match r with
              | 1 => TFNext [om 2] (TNRound 2)
              | 2 => TFNext [om 3] (TNRound 3)
              | 3 => TFNext [om 4] (TNOutput true)
              | _ => TFErr end).

(* message of party [from] for round [rnd] of session 7 / protocol 9 *)
Definition dmsg (from rnd : nat) (fp : N) (valid : bool) : msg := mkMsg 7 9 from None rnd true false 0 fp valid NoPanic.

Ltac shape_cases r := destruct r as [|[|[|[|r]]]].

Lemma dk_recv_clean : shape_clean dk_recv_shape.
Proof. intro r. shape_cases r; cbn; auto. Qed.
Lemma dk_send_clean : shape_clean dk_send_shape.
Proof. intro r. shape_cases r; cbn; auto. Qed.
Lemma chain3_clean : shape_clean chain3_shape.
Proof. intro r. shape_cases r; cbn; auto. Qed.

Lemma dk_recv_increasing : shape_increasing dk_recv_shape.
Proof. intros r outs nr. shape_cases r; cbn; intro H; try discriminate; injection H as _ <-; lia. Qed.
Lemma dk_send_increasing : shape_increasing dk_send_shape.
Proof. intros r outs nr. shape_cases r; cbn; intro H; try discriminate; injection H as _ <-; lia. Qed.
Lemma chain3_increasing : shape_increasing chain3_shape.
Proof. intros r outs nr. shape_cases r; cbn; intro H; try discriminate; injection H as _ <-; lia. Qed.

Lemma dk_recv_busy : shape_busy dk_recv_shape.
Proof. intros r H. change (ts_expects dk_recv_shape r) with (2 <=? r). apply Nat.leb_le. exact H. Qed.
Lemma dk_send_busy : shape_busy dk_send_shape.
Proof. intros r H. change (ts_expects dk_send_shape r) with (1 <=? r). apply Nat.leb_le. lia. Qed.
Lemma chain3_busy : shape_busy chain3_shape.
Proof. intros r H. change (ts_expects chain3_shape r) with (1 <=? r). apply Nat.leb_le. lia. Qed.

Definition dk_recv_start : tstate := tp_new true 0 2 7 9 dk_recv_shape.
Definition dk_send_start : tstate := tp_new false 1 2 7 9 dk_send_shape.
(* the user takes each emitted message from Listen() before the next call (three messages in all do not fit into the channel) *)
Definition dk_recv_honest : list tapi := [TDrain 1; TAccept (dmsg 1 2 102 true); TDrain 1; TAccept (dmsg 1 3 103 true)].
Definition dk_send_honest : list tapi := [TAccept (dmsg 0 1 201 true); TAccept (dmsg 0 2 202 true); TAccept (dmsg 0 3 203 true)].

(* messages of the receiver (party 0) to the sender; bad2 is one the sender's round 2 rejects *)
Definition good1 := dmsg 0 1 201 true.
Definition good2 := dmsg 0 2 202 true.
Definition good3 := dmsg 0 3 203 true.
Definition bad2 := dmsg 0 2 900 false.

(* -- the Stop guard as found at the pinned commit, by computation -- *)
Lemma tp_stop_v0_running_refuted :
  exists s, tp_reachable false true 0 2 7 9 dk_recv_shape s
            /\ t_rt s = Running /\ tp_terminal s = false
            /\ tp_stop false s = s
            /\ tp_result_class (tp_stop false s) = 0 /\ t_closes (tp_stop false s) = 0.
Proof. exists dk_recv_start. split; [exists []; reflexivity|]. vm_compute. repeat split. Qed.

Lemma tp_stop_v0_finished_panics_refuted :
  exists s, tp_reachable false true 0 2 7 9 dk_recv_shape s
            /\ t_rt s = Running /\ tp_terminal s = true /\ tp_result_class s = 1
            /\ t_rt (tp_stop false s) = Panicked 2
            /\ t_res (tp_stop false s) = true /\ t_err (tp_stop false s) = Some TEUser.
Proof.
  exists (tp_run_api false dk_recv_start dk_recv_honest). split; [exists dk_recv_honest; reflexivity|].
  vm_compute. repeat split.
Qed.

Lemma tp_lifecycle_inv_v0_refuted :
  exists s, tp_reachable false true 0 2 7 9 dk_recv_shape s
            /\ t_rt s = Panicked 2 /\ t_res s = true /\ t_err s <> None.
Proof.
  exists (tp_run_api false dk_recv_start (dk_recv_honest ++ [TStop])).
  split; [exists (dk_recv_honest ++ [TStop]); reflexivity|]. vm_compute. repeat split. discriminate.
Qed.

(* -- blocking IS reachable without the traffic hypothesis: a peer that pre-sends its messages for all later
      rounds makes a single Accept cascade through three rounds; the third message does not fit -- *)
Definition chain3_presend : list tapi :=
  [TAccept (dmsg 1 3 303 true); TAccept (dmsg 1 2 302 true); TAccept (dmsg 1 1 301 true)].

Lemma tp_block_reachable_with_presending_peer :
  let s0 := tp_drain_all (tp_new false 0 2 7 9 chain3_shape) in
  shape_clean chain3_shape /\ shape_increasing chain3_shape /\ shape_busy chain3_shape
  /\ t_rt s0 = Running /\ t_pending s0 = 0
  /\ t_rt (tp_run_api_drained true s0 chain3_presend) = BlockedOnSend
  /\ ~ tp_peers_one_ahead s0 chain3_presend.
Proof.
  cbv zeta. split; [exact chain3_clean|]. split; [exact chain3_increasing|]. split; [exact chain3_busy|].
  split; [reflexivity|]. split; [reflexivity|]. split; [vm_compute; reflexivity|].
  cbn [tp_peers_one_ahead chain3_presend]. intros [H _]. vm_compute in H. lia.
Qed.

(* -- latent: a round whose Finalize returns (nil, nil), an Abort round without error, an Output round without
      result.  abort(nil) closes the channel without recording an outcome: Result() says "not finished" for ever,
      and the next Stop or Accept panics ("send on closed channel"; in Accept the recover handler itself panics).
      No round in the repository does this; the Session interface does not forbid it. -- *)
Definition nil_fin_shape : tshape :=
  mkTShape 2 (fun r => 1 <=? r) (fun r => match r with 1 => TFNil | _ => TFErr end).
Definition abort_noerr_shape : tshape :=
  mkTShape 2 (fun r => 1 <=? r) (fun r => match r with 1 => TFNext [] (TNAbort false) | _ => TFErr end).
Definition output_nil_shape : tshape :=
  mkTShape 2 (fun r => 1 <=? r) (fun r => match r with 1 => TFNext [] (TNOutput false) | _ => TFErr end).

Definition unclean_witness (sh : tshape) : Prop :=
  exists s, tp_reachable true false 0 2 7 9 sh s
            /\ t_rt s = Running /\ t_closes s = 1 /\ tp_terminal s = false /\ tp_result_class s = 0
            /\ t_rt (tp_stop true s) = Panicked 2
            /\ t_rt (tp_accept s (dmsg 1 2 402 true)) = Panicked 2.

Lemma tp_unclean_shapes_refuted :
  unclean_witness nil_fin_shape /\ unclean_witness abort_noerr_shape /\ unclean_witness output_nil_shape.
Proof.
  repeat split.
  - exists (tp_run_api true (tp_new false 0 2 7 9 nil_fin_shape) [TAccept (dmsg 1 1 401 true)]).
    split; [eexists; reflexivity|]. vm_compute. repeat split.
  - exists (tp_run_api true (tp_new false 0 2 7 9 abort_noerr_shape) [TAccept (dmsg 1 1 401 true)]).
    split; [eexists; reflexivity|]. vm_compute. repeat split.
  - exists (tp_run_api true (tp_new false 0 2 7 9 output_nil_shape) [TAccept (dmsg 1 1 401 true)]).
    split; [eexists; reflexivity|]. vm_compute. repeat split.
Qed.
