(* GuardsStopProofs.v -- C17 part: the guard of Stop of both handlers, as translated from /repo's source on every run
   (Generated/Guards.v), is the model's "finished or aborted" test, i.e. the [fixed = true] reading of stop / tp_stop.
   See Proofs/GuardsBase.v. *)
From Coq Require Import String List Bool Arith NArith ZArith Lia.
From MPS Require Import Model.Bytes Model.Framing Model.Session Model.Handler Model.TwoParty.
From MPS Require Model.Cbor.
From MPS Require Import Generated.Params Generated.Guards Proofs.GuardsBase.
Import ListNotations.
Local Open Scope string_scope.
Local Open Scope nat_scope.
Local Open Scope list_scope.

Lemma mh_stop_guard : forall s om,
  geval (alookup (env_mh s om)) go_MultiHandler_Stop_guard = Some (terminal s).
Proof.
  intros s om. unfold terminal, env_mh, go_MultiHandler_Stop_guard. destruct om; gsolve.
Qed.

(* the source guard selects the [fixed = true] reading of the model's stop *)
Lemma mh_stop_guard_early_return : forall s om,
  geval (alookup (env_mh s om)) go_MultiHandler_Stop_guard = Some true -> stop true s = s.
Proof.
  intros s om H. assert (G : terminal s = true) by (rewrite mh_stop_guard in H; congruence).
  unfold stop. rewrite G. destruct (h_rt s); reflexivity.
Qed.

Lemma mh_stop_guard_acts : forall s om,
  geval (alookup (env_mh s om)) go_MultiHandler_Stop_guard = Some false -> h_rt s = Running ->
  stop true s = abort s (Some ([h_self s], EUser)).
Proof.
  intros s om H R. assert (G : terminal s = false) by (rewrite mh_stop_guard in H; congruence).
  unfold stop. rewrite G, R. reflexivity.
Qed.

Lemma tp_terminal_is : forall s, tp_terminal s = is_some (t_err s) || t_res s.
Proof. reflexivity. Qed.

Lemma tp_stop_guard : forall s om,
  geval (alookup (env_tp s om)) go_TwoPartyHandler_Stop_guard = Some (tp_terminal s).
Proof.
  intros s om. rewrite tp_terminal_is. unfold env_tp, go_TwoPartyHandler_Stop_guard. destruct om; gsolve.
Qed.

Lemma tp_stop_guard_early_return : forall s om,
  geval (alookup (env_tp s om)) go_TwoPartyHandler_Stop_guard = Some true -> tp_stop true s = s.
Proof.
  intros s om H. assert (G : tp_terminal s = true) by (rewrite tp_stop_guard in H; congruence).
  unfold tp_stop. rewrite G. destruct (t_rt s); reflexivity.
Qed.

Lemma tp_stop_guard_acts : forall s om,
  geval (alookup (env_tp s om)) go_TwoPartyHandler_Stop_guard = Some false -> t_rt s = Running ->
  tp_stop true s = tp_abort s (Some TEUser).
Proof.
  intros s om H R. assert (G : tp_terminal s = false) by (rewrite tp_stop_guard in H; congruence).
  unfold tp_stop. rewrite G, R. reflexivity.
Qed.

(* the guards are the FIRST test after taking the lock (and installing the deferred unlock / recover), and Stop does
   nothing but abort after its guard *)
Lemma guards_preambles_ok :
  go_MultiHandler_Accept_guard_preamble = ["h.mtx.Lock()"; "defer h.mtx.Unlock()"; "defer h.recoverToAbort()"] /\
  go_MultiHandler_Stop_guard_preamble = ["h.mtx.Lock()"; "defer h.mtx.Unlock()"] /\
  go_TwoPartyHandler_Accept_guard_preamble = ["h.mtx.Lock()"; "defer h.mtx.Unlock()"; "defer func() {...}()"] /\
  go_TwoPartyHandler_Stop_guard_preamble = ["h.mtx.Lock()"; "defer h.mtx.Unlock()"].
Proof. repeat split. Qed.

Lemma guards_stop_rest_ok :
  go_MultiHandler_Stop_guard_rest = ["h.abort(errors.New(""aborted by user""), h.currentRound.SelfID())"] /\
  go_TwoPartyHandler_Stop_guard_rest = ["h.abort(errors.New(""aborted by user""))"].
Proof. repeat split. Qed.

Lemma guards_stop_translated : translated ["MultiHandler_Stop_guard"; "TwoPartyHandler_Stop_guard"] = true.
Proof. vm_compute. reflexivity. Qed.

Lemma guards_stop_lets_ok : go_MultiHandler_Stop_guard_lets = [] /\ go_TwoPartyHandler_Stop_guard_lets = [].
Proof. repeat split. Qed.
