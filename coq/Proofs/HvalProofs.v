(* HvalProofs.v -- typed-value level injectivity of the transcript encoding (C19).
   Framing.v gives, per Go type ("kind"), the item (domain string, payload bytes) that hash.WriteAny frames.
   FramingProofs.v proves that the stream determines the ITEM sequence.  Here:
   * per kind, the payload encoder is injective on the well-formed values of that kind (wf_hval);
   * items of different fixed-domain kinds never coincide (the domain strings differ); the one exception is
     hash.BytesWithDomain, whose domain is chosen by the caller;
   * composition: equal streams => equal VALUE sequences (element-wise, modulo that exception);
   * cmp config.Config.WriteTo writes its parts into ONE item; after the repair (length-prefixed RID and Paillier
     modulus) it is injective whatever the sizes; Pedersen parameters are written in fixed width or refused.
     The encoders before the repairs ([enc_hval_v0]) are kept with their collision witnesses as regressions. *)
From Coq Require Import String.
From Coq Require Import List NArith ZArith Bool Lia.
From MPS Require Import Model.Bytes Model.Framing Proofs.BytesProofs Proofs.FramingProofs.
Import ListNotations.
Open Scope N_scope.

(* ------------------------------------------------------------------ *)
(* 1. arithmetic and list helpers                                      *)

Lemma pow256_pow2 k : 256 ^ k = 2 ^ (8 * k).
Proof. change 256 with (2 ^ 8). now rewrite <- N.pow_mul_r. Qed.

Lemma byte_len_bound n : n < 256 ^ N.of_nat (byte_len n).
Proof.
  unfold byte_len. rewrite N2Nat.id, pow256_pow2.
  apply N.lt_le_trans with (2 ^ N.size n); [apply N.size_gt|].
  apply N.pow_le_mono_r; [discriminate|].
  pose proof (N.div_mod (N.size n + 7) 8 ltac:(discriminate)) as D.
  pose proof (N.mod_lt (N.size n + 7) 8 ltac:(discriminate)) as M. lia.
Qed.

Lemma be_min_length n : length (be_min n) = byte_len n.
Proof. unfold be_min. apply be_bytes_length. Qed.

Lemma be_min_inj a b : be_min a = be_min b -> a = b.
Proof.
  intro E. pose proof (f_equal (@length _) E) as L. rewrite !be_min_length in L.
  unfold be_min in E. rewrite L in E.
  apply be_bytes_inj in E; [assumption | rewrite <- L|]; apply byte_len_bound.
Qed.

Lemma lt_pow2_spec n b : lt_pow2 n b = true -> n < 2 ^ b.
Proof.
  unfold lt_pow2. intro H. apply N.eqb_eq in H. rewrite N.shiftr_div_pow2 in H.
  apply N.div_small_iff in H; [assumption|]. apply N.pow_nonzero. discriminate.
Qed.

Lemma lt_2048 n : lt_pow2 n 2048 = true -> n < 256 ^ N.of_nat 256.
Proof. intro H. apply lt_pow2_spec in H. now rewrite pow256_pow2. Qed.

Lemma lt_4096 n : lt_pow2 n 4096 = true -> n < 256 ^ N.of_nat 512.
Proof. intro H. apply lt_pow2_spec in H. now rewrite pow256_pow2. Qed.

Lemma secp_p_lt : secp256k1_p < 256 ^ N.of_nat 32.
Proof. vm_compute. reflexivity. Qed.
Lemma secp_q_lt : secp256k1_q < 256 ^ N.of_nat 32.
Proof. vm_compute. reflexivity. Qed.

Lemma app_eq_length_r {A} (a b x y : list A) :
  length x = length y -> a ++ x = b ++ y -> a = b /\ x = y.
Proof.
  intros L E. apply app_eq_length; [|assumption].
  apply (f_equal (@length _)) in E. rewrite !app_length in E. lia.
Qed.

(* concatenation of fixed-width encodings of list elements *)
Lemma flat_map_length_fixed {A} (f : A -> bytes) (P : A -> Prop) k l :
  (forall a, P a -> length (f a) = k) -> Forall P l -> length (flat_map f l) = (length l * k)%nat.
Proof.
  intros Hk F. induction F as [|a l Pa F IH]; [reflexivity|].
  cbn [flat_map length]. rewrite app_length, IH, (Hk a Pa). lia.
Qed.

Lemma flat_map_fixed_inj {A} (f : A -> bytes) (P : A -> Prop) k :
  (forall a, P a -> length (f a) = k) ->
  (forall a b, P a -> P b -> f a = f b -> a = b) ->
  forall l1 l2, Forall P l1 -> Forall P l2 -> length l1 = length l2 ->
  flat_map f l1 = flat_map f l2 -> l1 = l2.
Proof.
  intros Hk Hinj. induction l1 as [|a l1 IH]; intros [|b l2] F1 F2 L E; try discriminate; [reflexivity|].
  inversion F1 as [|? ? Pa F1']; inversion F2 as [|? ? Pb F2']; subst.
  cbn [flat_map] in E. apply app_eq_length in E as [E1 E]; [| now rewrite (Hk a Pa), (Hk b Pb)].
  injection L as L. f_equal; [now apply Hinj | now apply IH].
Qed.

Lemma flat_map_snd {A B} (f : B -> bytes) (l : list (A * B)) :
  flat_map (fun e => f (snd e)) l = flat_map f (map snd l).
Proof. induction l as [|e l IH]; [reflexivity|]. cbn [flat_map map]. now rewrite IH. Qed.

Lemma split_eq {A B} (l1 : list (A * B)) : forall l2,
  map fst l1 = map fst l2 -> map snd l1 = map snd l2 -> l1 = l2.
Proof.
  induction l1 as [|[a b] l1 IH]; intros [|[a' b'] l2] E1 E2; try discriminate; [reflexivity|].
  cbn [map fst snd] in E1, E2. injection E1 as -> E1. injection E2 as -> E2. f_equal. now apply IH.
Qed.

Lemma Some_inj {A} (a b : A) : Some a = Some b -> a = b.
Proof. intro H. congruence. Qed.

Lemma forallb_Forall {A} (p : A -> bool) l : forallb p l = true -> Forall (fun a => p a = true) l.
Proof. intro H. apply Forall_forall. now apply forallb_forall. Qed.

(* ------------------------------------------------------------------ *)
(* 2. payload encoders                                                 *)

Lemma point_bytes_length p : length (point_bytes p) = 33%nat.
Proof. unfold point_bytes. cbn [length]. now rewrite be_bytes_length. Qed.

Lemma wf_cpoint_lt p : wf_cpoint p = true -> fst p < 256 ^ N.of_nat 32.
Proof.
  unfold wf_cpoint. intro H. apply N.ltb_lt in H. eapply N.lt_trans; [exact H | exact secp_p_lt].
Qed.

Lemma point_bytes_inj p q :
  wf_cpoint p = true -> wf_cpoint q = true -> point_bytes p = point_bytes q -> p = q.
Proof.
  intros Wp Wq E. destruct p as [x o], q as [y o']. unfold point_bytes in E. cbn [fst snd] in *.
  apply cons_eq_inv in E as [Eo Ex].
  apply be_bytes_inj in Ex; [| now apply (wf_cpoint_lt (x, o)) | now apply (wf_cpoint_lt (y, o'))].
  subst. destruct o, o'; try discriminate; reflexivity.
Qed.

Lemma pedersen_data_length n s t : length (pedersen_data n s t) = 768%nat.
Proof. unfold pedersen_data. now rewrite !app_length, !be_bytes_length. Qed.

Lemma pedersen_data_inj n s t n' s' t' :
  n < 256 ^ N.of_nat 256 -> s < 256 ^ N.of_nat 256 -> t < 256 ^ N.of_nat 256 ->
  n' < 256 ^ N.of_nat 256 -> s' < 256 ^ N.of_nat 256 -> t' < 256 ^ N.of_nat 256 ->
  pedersen_data n s t = pedersen_data n' s' t' -> n = n' /\ s = s' /\ t = t'.
Proof.
  intros Hn Hs Ht Hn' Hs' Ht' E. unfold pedersen_data in E.
  apply app_eq_length in E as [E1 E]; [| now rewrite !be_bytes_length].
  apply app_eq_length in E as [E2 E3]; [| now rewrite !be_bytes_length].
  apply be_bytes_inj in E1, E2, E3; try assumption. now subst.
Qed.

Lemma pedersen_data_opt_some n s t d : pedersen_data_opt n s t = Some d ->
  d = pedersen_data n s t /\ n < 256 ^ N.of_nat 256 /\ s < 256 ^ N.of_nat 256 /\ t < 256 ^ N.of_nat 256.
Proof.
  unfold pedersen_data_opt. destruct (lt_pow2 n 2048 && lt_pow2 s 2048 && lt_pow2 t 2048) eqn:R; [|discriminate].
  intro E. apply Some_inj in E. apply andb_true_iff in R as [R Rt]. apply andb_true_iff in R as [Rn Rs].
  repeat split; [now symmetry | now apply lt_2048 ..].
Qed.

(* after the repair: Pedersen parameters are written or refused; no range clause is needed for injectivity *)
Theorem pedersen_data_opt_inj n s t n' s' t' d :
  pedersen_data_opt n s t = Some d -> pedersen_data_opt n' s' t' = Some d -> n = n' /\ s = s' /\ t = t'.
Proof.
  intros E1 E2. apply pedersen_data_opt_some in E1 as (-> & Hn & Hs & Ht), E2 as (E & Hn' & Hs' & Ht').
  now apply pedersen_data_inj.
Qed.

(* a modulus whose byte length fits the 8-byte length prefix (any modulus that exists in memory) *)
Definition modulus_small (p : cmp_public) : Prop := len (be_min (cp_paillier p)) < 256 ^ N.of_nat 8.

Lemma wf_public_parts p : wf_public p = true ->
  wf_cpoint (cp_ecdsa p) = true /\ wf_cpoint (cp_elgamal p) = true /\ modulus_small p.
Proof.
  unfold wf_public, modulus_small, len. rewrite !andb_true_iff, be_min_length. intros [[A B] C].
  apply N.ltb_lt in C. now repeat split.
Qed.

Lemma ped_in_range_parts p : ped_in_range p = true ->
  cp_ped_n p < 256 ^ N.of_nat 256 /\ cp_ped_s p < 256 ^ N.of_nat 256 /\ cp_ped_t p < 256 ^ N.of_nat 256.
Proof.
  unfold ped_in_range. rewrite !andb_true_iff. intros [[A B] C]. repeat split; now apply lt_2048.
Qed.

(* config.Public.WriteTo after the repair is PREFIX-FREE: what follows a record cannot be confused with its end.
   No assumption on the size of the Paillier modulus or of the Pedersen values. *)
Theorem public_data_prefix_free p q dp dq r1 r2 :
  wf_public p = true -> wf_public q = true ->
  public_data p = Some dp -> public_data q = Some dq ->
  dp ++ r1 = dq ++ r2 -> p = q /\ r1 = r2.
Proof.
  intros Wp Wq Dp Dq E.
  destruct (wf_public_parts _ Wp) as (We & Wg & Mp). destruct (wf_public_parts _ Wq) as (We' & Wg' & Mq).
  unfold modulus_small in Mp, Mq.
  destruct p as [e g pn n s t], q as [e' g' pn' n' s' t']. unfold public_data in Dp, Dq.
  cbn [cp_ecdsa cp_elgamal cp_paillier cp_ped_n cp_ped_s cp_ped_t] in *.
  destruct (pedersen_data_opt n s t) as [pd|] eqn:P1; [|discriminate].
  destruct (pedersen_data_opt n' s' t') as [pd'|] eqn:P2; [|discriminate].
  apply Some_inj in Dp, Dq. subst dp dq. rewrite <- !app_assoc in E.
  apply app_eq_length in E as [E1 E]; [| now rewrite !point_bytes_length].
  apply app_eq_length in E as [E2 E]; [| now rewrite !point_bytes_length].
  apply app_eq_length in E as [E3 E]; [| unfold be64; now rewrite !be_bytes_length].
  apply be_bytes_inj in E3; try assumption. apply len_lt_inj in E3.
  apply app_eq_length in E as [E4 E]; [| assumption].
  apply pedersen_data_opt_some in P1 as (-> & Hn & Hs & Ht), P2 as (-> & Hn' & Hs' & Ht').
  apply app_eq_length in E as [E5 E]; [| now rewrite !pedersen_data_length].
  apply point_bytes_inj in E1, E2; try assumption. apply be_min_inj in E4.
  apply pedersen_data_inj in E5 as (-> & -> & ->); try assumption. now subst.
Qed.

Theorem public_data_inj p q d :
  wf_public p = true -> wf_public q = true ->
  public_data p = Some d -> public_data q = Some d -> p = q.
Proof.
  intros Wp Wq Dp Dq.
  now destruct (public_data_prefix_free p q d d [] [] Wp Wq Dp Dq eq_refl).
Qed.

(* the pre-fix encoder (raw concatenation): injective on its own, given the Pedersen ranges *)
Theorem public_data_v0_inj p q :
  wf_public p = true -> wf_public q = true -> ped_in_range p = true -> ped_in_range q = true ->
  public_data_v0 p = public_data_v0 q -> p = q.
Proof.
  intros Wp Wq Rp Rq E.
  destruct (wf_public_parts _ Wp) as (We & Wg & _). destruct (wf_public_parts _ Wq) as (We' & Wg' & _).
  destruct (ped_in_range_parts _ Rp) as (Hn & Hs & Ht). destruct (ped_in_range_parts _ Rq) as (Hn' & Hs' & Ht').
  destruct p as [e g pn n s t], q as [e' g' pn' n' s' t']. unfold public_data_v0 in E. cbn [cp_ecdsa cp_elgamal cp_paillier cp_ped_n cp_ped_s cp_ped_t] in *.
  apply app_eq_length in E as [E1 E]; [| now rewrite !point_bytes_length].
  apply app_eq_length in E as [E2 E]; [| now rewrite !point_bytes_length].
  apply app_eq_length_r in E as [E3 E4]; [| now rewrite !pedersen_data_length].
  apply point_bytes_inj in E1, E2; try assumption. apply be_min_inj in E3.
  apply pedersen_data_inj in E4 as (-> & -> & ->); try assumption. now subst.
Qed.

Lemma public_data_v0_length p : length (public_data_v0 p) = (66 + byte_len (cp_paillier p) + 768)%nat.
Proof.
  unfold public_data_v0. rewrite !app_length, !point_bytes_length, be_min_length, pedersen_data_length. lia.
Qed.

(* --- Exponent --- *)

Lemma exponent_coeff_bytes_length p : length (exponent_coeff_bytes p) = 35%nat.
Proof. unfold exponent_coeff_bytes. cbn [length]. now rewrite point_bytes_length. Qed.

Lemma exponent_coeff_bytes_inj p q :
  wf_cpoint p = true -> wf_cpoint q = true -> exponent_coeff_bytes p = exponent_coeff_bytes q -> p = q.
Proof.
  intros Wp Wq E. unfold exponent_coeff_bytes in E.
  apply cons_eq_inv in E as [_ E]. apply cons_eq_inv in E as [_ E]. now apply point_bytes_inj.
Qed.

Lemma cbor_head_nonnull n : exists b r, cbor_head 4 n = b :: r /\ b <> 246.
Proof.
  unfold cbor_head.
  destruct (n <? 24) eqn:E; [| destruct (n <? 256); [| destruct (n <? 65536); [| destruct (n <? 4294967296)]]];
    eexists; eexists; (split; [reflexivity|]); try discriminate.
  apply N.ltb_lt in E. lia.
Qed.

Definition wf_coeffs (co : option (list cpoint)) : Prop :=
  match co with
  | Some l => Forall (fun p => wf_cpoint p = true) l /\ N.of_nat (length l) < 2 ^ 32
  | None => True
  end.

Theorem exponent_data_inj c1 co1 c2 co2 :
  wf_coeffs co1 -> wf_coeffs co2 ->
  exponent_data c1 co1 = exponent_data c2 co2 -> c1 = c2 /\ co1 = co2.
Proof.
  intros W1 W2 E. unfold exponent_data in E.
  apply app_eq_length in E as [En E]; [| unfold be32; now rewrite !be_bytes_length].
  apply cons_eq_inv in E as [_ E]. apply cons_eq_inv in E as [_ E].
  apply app_eq_length in E as [_ E]; [|reflexivity].
  apply cons_eq_inv in E as [Ec E]. apply cons_eq_inv in E as [_ E].
  apply app_eq_length in E as [_ E]; [|reflexivity].
  split; [destruct c1, c2; try discriminate; reflexivity|].
  destruct co1 as [l1|], co2 as [l2|].
  - destruct W1 as [F1 B1], W2 as [F2 B2].
    apply be_bytes_inj in En; [| assumption | assumption]. apply Nat2N.inj in En.
    rewrite En in E. apply app_inv_head in E. f_equal.
    eapply (flat_map_fixed_inj exponent_coeff_bytes (fun p => wf_cpoint p = true) 35); try eassumption.
    + intros a _. apply exponent_coeff_bytes_length.
    + apply exponent_coeff_bytes_inj.
  - exfalso. destruct (cbor_head_nonnull (N.of_nat (length l1))) as (b & r & Hh & Hb).
    rewrite Hh in E. cbn [app] in E. apply cons_eq_inv in E as [E _]. contradiction.
  - exfalso. destruct (cbor_head_nonnull (N.of_nat (length l2))) as (b & r & Hh & Hb).
    rewrite Hh in E. cbn [app] in E. apply cons_eq_inv in E as [E _]. symmetry in E. contradiction.
  - reflexivity.
Qed.

(* --- IDSlice, prefix-free form --- *)

Definition ids_small_P (l : list bytes) : Prop :=
  Forall (fun id => len id < 256 ^ N.of_nat 8) l /\ N.of_nat (length l) < 256 ^ N.of_nat 8.

Lemma ids_small_spec l : ids_small l = true -> ids_small_P l.
Proof.
  unfold ids_small, ids_small_P. rewrite andb_true_iff. intros [A B]. split.
  - apply forallb_Forall in A. eapply Forall_impl; [|exact A]. cbn beta. intros id H. now apply N.ltb_lt in H.
  - now apply N.ltb_lt in B.
Qed.

Lemma idslice_data_prefix_free l1 l2 r1 r2 :
  ids_small_P l1 -> ids_small_P l2 ->
  idslice_data l1 ++ r1 = idslice_data l2 ++ r2 -> l1 = l2 /\ r1 = r2.
Proof.
  intros [F1 B1] [F2 B2] E. unfold idslice_data in E. rewrite <- !app_assoc in E.
  apply app_eq_length in E as [E1 E]; [| unfold be64; now rewrite !be_bytes_length].
  apply be_bytes_inj in E1; try assumption. apply Nat2N.inj in E1.
  now apply idslice_body_inj.
Qed.

(* --- sorting the map entries --- *)

Lemma key_ltb_asym a : forall b, key_ltb a b = true -> key_ltb b a = false.
Proof.
  induction a as [|x a IH]; intros [|y b] H; cbn [key_ltb] in *; try discriminate; try reflexivity.
  destruct (x <? y) eqn:Exy.
  - apply N.ltb_lt in Exy. destruct (y <? x) eqn:Eyx; [apply N.ltb_lt in Eyx; lia | reflexivity].
  - destruct (y <? x) eqn:Eyx; [discriminate|]. now apply IH.
Qed.

Lemma sort_entries_sorted {A} (l : list (bytes * A)) :
  keys_sorted (map fst l) = true -> sort_entries l = l.
Proof.
  induction l as [|e l IH]; intro S; [reflexivity|].
  unfold sort_entries in *. cbn [fold_right]. cbn [map keys_sorted] in S.
  destruct l as [|f l'].
  - reflexivity.
  - cbn [map] in S. apply andb_true_iff in S as [Lt S]. rewrite (IH S).
    cbn [insert_entry]. now rewrite (key_ltb_asym _ _ Lt).
Qed.

(* ------------------------------------------------------------------ *)
(* 3. config.Config.WriteTo                                            *)

Definition pub_ok (p : cmp_public) : Prop := wf_public p = true.

Lemma publics_data_prefix_free es1 : forall es2 d1 d2 r1 r2,
  Forall pub_ok (map snd es1) -> Forall pub_ok (map snd es2) -> length es1 = length es2 ->
  publics_data es1 = Some d1 -> publics_data es2 = Some d2 ->
  d1 ++ r1 = d2 ++ r2 -> map snd es1 = map snd es2 /\ r1 = r2.
Proof.
  induction es1 as [|e1 es1 IH]; intros [|e2 es2] d1 d2 r1 r2 F1 F2 L D1 D2 E; try discriminate.
  - cbn [publics_data] in D1, D2. apply Some_inj in D1, D2. subst. now split.
  - cbn [publics_data] in D1, D2. cbn [map] in F1, F2.
    inversion F1 as [|? ? W1 F1']; inversion F2 as [|? ? W2 F2']; subst.
    destruct (public_data (snd e1)) as [a1|] eqn:P1; [|discriminate].
    destruct (publics_data es1) as [b1|] eqn:Q1; [|discriminate].
    destruct (public_data (snd e2)) as [a2|] eqn:P2; [|discriminate].
    destruct (publics_data es2) as [b2|] eqn:Q2; [|discriminate].
    apply Some_inj in D1, D2. subst d1 d2. rewrite <- !app_assoc in E.
    destruct (public_data_prefix_free _ _ _ _ _ _ W1 W2 P1 P2 E) as [Ep E'].
    injection L as L. destruct (IH es2 b1 b2 r1 r2 F1' F2' L eq_refl Q2 E') as [Em Er].
    split; [|assumption]. cbn [map]. now rewrite Ep, Em.
Qed.

Lemma wf_config_spec c : wf_config c = true ->
  (0 <= cc_threshold c < 4294967296)%Z /\ keys_sorted (map fst (cc_public c)) = true /\
  ids_small_P (map fst (cc_public c)) /\ Forall pub_ok (map snd (cc_public c)) /\
  match cc_rid c with Some rid => len rid < 256 ^ N.of_nat 8 | None => True end /\
  len (cc_chainkey c) < 256 ^ N.of_nat 8.
Proof.
  unfold wf_config. rewrite !andb_true_iff. intros [[[[[[T0 T1] S] I] F] R] K].
  apply Z.leb_le in T0. apply Z.ltb_lt in T1. repeat split; try assumption; try (now apply ids_small_spec).
  - apply Forall_map. now apply forallb_Forall in F.
  - destruct (cc_rid c); [now apply N.ltb_lt in R | exact Logic.I].
  - now apply N.ltb_lt in K.
Qed.

(* Injectivity of config.Config.WriteTo after the repair -- UNCONDITIONAL in the sizes: no common width of the Paillier
   moduli, no Pedersen range, RID and chain key of any length.  Hypotheses left: threshold in uint32 range; keys strictly sorted (the
   list is the canonical form of the map); point coordinates in range; lengths below 2^64. *)
Theorem config_data_inj c1 c2 d :
  wf_config c1 = true -> wf_config c2 = true ->
  config_data c1 = Some d -> config_data c2 = Some d -> c1 = c2.
Proof.
  intros W1 W2 D1 D2.
  destruct (wf_config_spec _ W1) as ([T1a T1b] & S1 & I1 & G1 & R1 & K1).
  destruct (wf_config_spec _ W2) as ([T2a T2b] & S2 & I2 & G2 & R2 & K2).
  destruct c1 as [t1 [rid1|] ck1 p1], c2 as [t2 [rid2|] ck2 p2]; unfold config_data in D1, D2;
    cbn [cc_threshold cc_rid cc_chainkey cc_public] in *; try discriminate.
  rewrite (sort_entries_sorted _ S1) in D1. rewrite (sort_entries_sorted _ S2) in D2.
  destruct (publics_data p1) as [b1|] eqn:Q1; [|discriminate].
  destruct (publics_data p2) as [b2|] eqn:Q2; [|discriminate].
  pose proof (Some_inj _ _ (eq_trans D1 (eq_sym D2))) as E. clear D1 D2 d.
  apply app_eq_length in E as [Et E]; [| unfold be32; now rewrite !be_bytes_length].
  rewrite !Z.mod_small in Et by lia.
  apply be_bytes_inj in Et; [| change (256 ^ N.of_nat 4) with 4294967296; lia ..].
  apply Z2N.inj in Et; try lia. subst t2.
  apply idslice_data_prefix_free in E as [Ek E]; try assumption.
  apply app_eq_length in E as [El E]; [| unfold be64; now rewrite !be_bytes_length].
  apply be_bytes_inj in El; try assumption. apply len_lt_inj in El.
  apply app_eq_length in E as [Er E]; [| assumption]. subst rid2.
  apply app_eq_length in E as [Ec E]; [| unfold be64; now rewrite !be_bytes_length].
  apply be_bytes_inj in Ec; try assumption. apply len_lt_inj in Ec.
  apply app_eq_length in E as [Eck E]; [| assumption]. subst ck2.
  assert (L : length p1 = length p2).
  { rewrite <- (map_length fst p1), <- (map_length fst p2). now rewrite Ek. }
  rewrite <- (app_nil_r b1), <- (app_nil_r b2) in E.
  destruct (publics_data_prefix_free p1 p2 b1 b2 [] [] G1 G2 L Q1 Q2 E) as [Es _].
  f_equal. now apply split_eq.
Qed.

(* the encoder between the two repairs determined everything but the chain key *)
Theorem config_data_v1_inj c1 c2 d :
  wf_config c1 = true -> wf_config c2 = true -> cc_chainkey c1 = cc_chainkey c2 ->
  config_data_v1 c1 = Some d -> config_data_v1 c2 = Some d -> c1 = c2.
Proof.
  intros W1 W2 CK D1 D2.
  destruct (wf_config_spec _ W1) as ([T1a T1b] & S1 & I1 & G1 & R1 & _).
  destruct (wf_config_spec _ W2) as ([T2a T2b] & S2 & I2 & G2 & R2 & _).
  destruct c1 as [t1 [rid1|] ck1 p1], c2 as [t2 [rid2|] ck2 p2]; unfold config_data_v1 in D1, D2;
    cbn [cc_threshold cc_rid cc_chainkey cc_public] in *; try discriminate.
  rewrite (sort_entries_sorted _ S1) in D1. rewrite (sort_entries_sorted _ S2) in D2.
  destruct (publics_data p1) as [b1|] eqn:Q1; [|discriminate].
  destruct (publics_data p2) as [b2|] eqn:Q2; [|discriminate].
  pose proof (Some_inj _ _ (eq_trans D1 (eq_sym D2))) as E. clear D1 D2 d.
  apply app_eq_length in E as [Et E]; [| unfold be32; now rewrite !be_bytes_length].
  rewrite !Z.mod_small in Et by lia.
  apply be_bytes_inj in Et; [| change (256 ^ N.of_nat 4) with 4294967296; lia ..].
  apply Z2N.inj in Et; try lia. subst t2.
  apply idslice_data_prefix_free in E as [Ek E]; try assumption.
  apply app_eq_length in E as [El E]; [| unfold be64; now rewrite !be_bytes_length].
  apply be_bytes_inj in El; try assumption. apply len_lt_inj in El.
  apply app_eq_length in E as [Er E]; [| assumption]. subst rid2 ck2.
  assert (L : length p1 = length p2).
  { rewrite <- (map_length fst p1), <- (map_length fst p2). now rewrite Ek. }
  rewrite <- (app_nil_r b1), <- (app_nil_r b2) in E.
  destruct (publics_data_prefix_free p1 p2 b1 b2 [] [] G1 G2 L Q1 Q2 E) as [Es _].
  f_equal. now apply split_eq.
Qed.

(* ---- the pre-fix encoder: injective only for one common width of the Paillier moduli ---- *)

Definition pub_w (w : nat) (p : cmp_public) : Prop :=
  wf_public p = true /\ ped_in_range p = true /\ byte_len (cp_paillier p) = w.

Lemma wf_config_w_spec w c : wf_config_w w c = true ->
  wf_config c = true /\ Forall (pub_w w) (map snd (cc_public c)).
Proof.
  unfold wf_config_w. rewrite andb_true_iff. intros [W F]. split; [assumption|].
  destruct (wf_config_spec _ W) as (_ & _ & _ & Fw & _ & _). unfold pub_ok in Fw.
  apply Forall_map. apply forallb_Forall in F. rewrite Forall_map in Fw.
  apply Forall_forall. intros e He. pose proof (proj1 (Forall_forall _ _) F e He) as H. cbn beta in H.
  pose proof (proj1 (Forall_forall _ _) Fw e He) as Hw. cbn beta in Hw.
  apply andb_true_iff in H as [H1 H2]. apply Nat.eqb_eq in H2. now repeat split.
Qed.

Theorem config_data_v0_inj w c1 c2 d :
  wf_config_w w c1 = true -> wf_config_w w c2 = true -> cc_chainkey c1 = cc_chainkey c2 ->
  config_data_v0 c1 = Some d -> config_data_v0 c2 = Some d -> c1 = c2.
Proof.
  intros W1 W2 CK D1 D2.
  destruct (wf_config_w_spec _ _ W1) as (V1 & F1). destruct (wf_config_w_spec _ _ W2) as (V2 & F2).
  destruct (wf_config_spec _ V1) as ([T1a T1b] & S1 & I1 & _ & _ & _).
  destruct (wf_config_spec _ V2) as ([T2a T2b] & S2 & I2 & _ & _ & _).
  destruct c1 as [t1 [rid1|] ck1 p1], c2 as [t2 [rid2|] ck2 p2]; unfold config_data_v0 in D1, D2;
    cbn [cc_threshold cc_rid cc_chainkey cc_public] in *; try discriminate.
  rewrite (sort_entries_sorted _ S1) in D1. rewrite (sort_entries_sorted _ S2) in D2.
  pose proof (Some_inj _ _ (eq_trans D1 (eq_sym D2))) as E. clear D1 D2 d.
  apply app_eq_length in E as [Et E]; [| unfold be32; now rewrite !be_bytes_length].
  rewrite !Z.mod_small in Et by lia.
  apply be_bytes_inj in Et; [| change (256 ^ N.of_nat 4) with 4294967296; lia ..].
  apply Z2N.inj in Et; try lia. subst t2.
  apply idslice_data_prefix_free in E as [Ek E]; try assumption.
  rewrite !flat_map_snd in E.
  assert (L : length (map snd p1) = length (map snd p2)).
  { rewrite !map_length. rewrite <- (map_length fst p1), <- (map_length fst p2). now rewrite Ek. }
  assert (Hk : forall a, pub_w w a -> length (public_data_v0 a) = (66 + w + 768)%nat).
  { intros a (_ & _ & Ha). now rewrite public_data_v0_length, Ha. }
  apply app_eq_length_r in E as [Er Ep].
  2:{ rewrite (flat_map_length_fixed _ _ _ _ Hk F1), (flat_map_length_fixed _ _ _ _ Hk F2). now rewrite L. }
  apply (flat_map_fixed_inj public_data_v0 (pub_w w) _ Hk) in Ep; try assumption.
  2:{ intros a b (Wa & Ra & _) (Wb & Rb & _). now apply public_data_v0_inj. }
  subst rid2 ck2. f_equal. now apply split_eq.
Qed.

(* ------------------------------------------------------------------ *)
(* 4. the typed values                                                 *)

Definition same_kind (a b : hval) : Prop := hval_kind a = hval_kind b.

Lemma wf_hval_item v i : wf_hval v = true -> enc_hval v = Some i -> wf_item i = true.
Proof.
  unfold wf_hval, item_ok. intros H E. rewrite E in H. now apply andb_true_iff in H as [H _].
Qed.

Lemma wf_hval_range v : wf_hval v = true -> range_ok v = true.
Proof. unfold wf_hval. intro H. now apply andb_true_iff in H as [_ H]. Qed.

Lemma opt_item_inj d o1 o2 i : opt_item d o1 = Some i -> opt_item d o2 = Some i -> o1 = o2.
Proof. destruct o1, o2; cbn [opt_item]; intros [= <-] [= E]; try discriminate. now subst. Qed.

Lemma sign_abs_inj (z1 z2 : Z) :
  (z1 <? 0)%Z = (z2 <? 0)%Z -> Z.abs_N z1 = Z.abs_N z2 -> z1 = z2.
Proof.
  intros S A. destruct (z1 <? 0)%Z eqn:E1; symmetry in S; [apply Z.ltb_lt in E1, S | apply Z.ltb_ge in E1, S]; lia.
Qed.

(* Per type, the item determines the value.  For *saferith.Nat / *saferith.Int the ANNOUNCED byte length is part
   of the value (two Go objects holding the same number with different announced lengths are different values here
   and are written differently); everywhere else a value is the mathematical object. *)
Lemma some_item_dat d1 a1 d2 a2 : Some (mkItem d1 a1) = Some (mkItem d2 a2) -> a1 = a2.
Proof. intro E. assert (E' : mkItem d1 a1 = mkItem d2 a2) by congruence. exact (f_equal dat E'). Qed.
Lemma some_item_dom d1 a1 d2 a2 : Some (mkItem d1 a1) = Some (mkItem d2 a2) -> d1 = d2.
Proof. intro E. assert (E' : mkItem d1 a1 = mkItem d2 a2) by congruence. exact (f_equal dom E'). Qed.

Lemma bool_tag_inj (a b : bool) (x y : N) : x <> y -> (if a then x else y) = (if b then x else y) -> a = b.
Proof. destruct a, b; intros N E; congruence. Qed.

Theorem value_inj v1 v2 i :
  wf_hval v1 = true -> wf_hval v2 = true ->
  enc_hval v1 = Some i -> enc_hval v2 = Some i -> same_kind v1 v2 -> v1 = v2.
Proof.
  intros W1 W2 E1 E2 K. apply wf_hval_range in W1, W2. unfold same_kind in K.
  destruct v1, v2; cbn [hval_kind] in K; try discriminate K; clear K;
    cbn [enc_hval] in E1, E2; cbn [range_ok] in W1, W2;
    try (f_equal; eapply opt_item_inj; eassumption).
  - (* big.Int *) pose proof (some_item_dat _ _ _ _ (eq_trans E1 (eq_sym E2))) as E. unfold gob_bigint in E.
    apply cons_eq_inv in E as [Es Em]. apply be_min_inj in Em. f_equal. apply sign_abs_inj; [|assumption].
    destruct (z <? 0)%Z, (z0 <? 0)%Z; try discriminate; reflexivity.
  - (* Nat *) pose proof (some_item_dat _ _ _ _ (eq_trans E1 (eq_sym E2))) as E.
    pose proof (f_equal (@length _) E) as L. rewrite !be_bytes_length in L. subst blen0.
    apply N.ltb_lt in W1, W2. apply be_bytes_inj in E; try assumption. now subst.
  - (* Int *) pose proof (some_item_dat _ _ _ _ (eq_trans E1 (eq_sym E2))) as E.
    apply cons_eq_inv in E as [Es E].
    pose proof (f_equal (@length _) E) as L. rewrite !be_bytes_length in L. subst blen0.
    apply N.ltb_lt in W1, W2. apply be_bytes_inj in E; try assumption. f_equal.
    apply sign_abs_inj; [|assumption]. destruct (z <? 0)%Z, (z0 <? 0)%Z; try discriminate; reflexivity.
  - (* Modulus *) pose proof (some_item_dat _ _ _ _ (eq_trans E1 (eq_sym E2))) as E.
    apply be_min_inj in E. now subst.
  - (* Scalar *) pose proof (some_item_dat _ _ _ _ (eq_trans E1 (eq_sym E2))) as E. apply N.ltb_lt in W1, W2.
    apply be_bytes_inj in E; [now subst | eapply N.lt_trans; [eassumption | exact secp_q_lt] ..].
  - (* Point *) pose proof (some_item_dat _ _ _ _ (eq_trans E1 (eq_sym E2))) as E.
    assert (P : (x, odd) = (x0, odd0)) by (apply point_bytes_inj; [exact W1 | exact W2 | exact E]).
    now injection P as -> ->.
  - (* ID *) destruct b; [discriminate|]. destruct b0; [discriminate|].
    pose proof (some_item_dat _ _ _ _ (eq_trans E1 (eq_sym E2))) as E. now rewrite E.
  - (* IDSlice *) destruct l as [l|]; [|discriminate]. destruct l0 as [l0|]; [|discriminate].
    pose proof (some_item_dat _ _ _ _ (eq_trans E1 (eq_sym E2))) as E.
    apply ids_small_spec in W1, W2. destruct W1, W2. f_equal. f_equal. now apply idslice_data_inj.
  - (* Threshold *) pose proof (some_item_dat _ _ _ _ (eq_trans E1 (eq_sym E2))) as E. apply N.ltb_lt in W1, W2.
    apply be_bytes_inj in E; [now subst | assumption ..].
  - (* Round *) pose proof (some_item_dat _ _ _ _ (eq_trans E1 (eq_sym E2))) as E. apply N.ltb_lt in W1, W2.
    apply be_bytes_inj in E; [now subst | change (256 ^ N.of_nat 8) with (2 ^ 64); lia ..].
  - (* SigningMessage *) destruct b, b0.
    + pose proof (some_item_dat _ _ _ _ (eq_trans E1 (eq_sym E2))) as E. now rewrite E.
    + pose proof (some_item_dom _ _ _ _ (eq_trans E1 (eq_sym E2))) as E. discriminate E.
    + pose proof (some_item_dom _ _ _ _ (eq_trans E1 (eq_sym E2))) as E. discriminate E.
    + reflexivity.
  - (* BytesWithDomain *) destruct b, b0; cbn [opt_item] in *; try discriminate.
    pose proof (some_item_dat _ _ _ _ (eq_trans E1 (eq_sym E2))) as Ea.
    pose proof (some_item_dom _ _ _ _ (eq_trans E1 (eq_sym E2))) as Ed. now rewrite Ea, Ed.
  - (* Paillier ciphertext *) pose proof (some_item_dat _ _ _ _ (eq_trans E1 (eq_sym E2))) as E.
    apply be_bytes_inj in E; [now subst | now apply lt_4096 ..].
  - (* Paillier public key *) pose proof (some_item_dat _ _ _ _ (eq_trans E1 (eq_sym E2))) as E.
    apply be_min_inj in E. now subst.
  - (* Pedersen: written or refused, no range clause *)
    pose proof (opt_item_inj _ _ _ _ E1 E2) as E.
    destruct (pedersen_data_opt n s t) as [d|] eqn:P1; [|discriminate E1]. symmetry in E.
    destruct (pedersen_data_opt_inj _ _ _ _ _ _ _ P1 E) as (-> & -> & ->). reflexivity.
  - (* Exponent *) pose proof (some_item_dat _ _ _ _ (eq_trans E1 (eq_sym E2))) as E.
    apply exponent_data_inj in E as [-> ->]; [reflexivity | |].
    + destruct coeffs as [l|]; [|exact I]. apply andb_true_iff in W1 as [A B]. split; [now apply forallb_Forall | now apply N.ltb_lt].
    + destruct coeffs0 as [l|]; [|exact I]. apply andb_true_iff in W2 as [A B]. split; [now apply forallb_Forall | now apply N.ltb_lt].
  - (* ElGamal *) pose proof (some_item_dat _ _ _ _ (eq_trans E1 (eq_sym E2))) as E.
    apply andb_true_iff in W1 as [Wl Wm], W2 as [Wl' Wm'].
    apply app_eq_length in E as [El Em]; [| now rewrite !point_bytes_length].
    apply point_bytes_inj in El, Em; try assumption. now subst.
  - (* Schnorr commitment *) pose proof (some_item_dat _ _ _ _ (eq_trans E1 (eq_sym E2))) as E.
    apply point_bytes_inj in E; try assumption. now subst.
  - (* config.Public *) destruct p as [p|]; [|discriminate]. destruct p0 as [p0|]; [|discriminate].
    pose proof (opt_item_inj _ _ _ _ E1 E2) as E.
    destruct (public_data p) as [d|] eqn:P1; [|discriminate E1]. symmetry in E.
    f_equal. f_equal. now apply (public_data_inj p p0 d).
  - (* config.Config *) destruct c as [c|]; [|discriminate]. destruct c0 as [c0|]; [|discriminate].
    pose proof (opt_item_inj _ _ _ _ E1 E2) as E.
    destruct (config_data c) as [d|] eqn:D1; [|discriminate E1]. symmetry in E.
    f_equal. f_equal. now apply (config_data_inj c c0 d).
Qed.

(* ------------------------------------------------------------------ *)
(* 5. different types                                                  *)

(* every fixed domain string the model writes, with the kind that writes it (SigningMessage has two) *)
Definition kind_domain_table : list (string * nat) :=
  [ ("[]byte", 0); ("big.Int", 1); ("*saferith.Nat", 2); ("*saferith.Int", 3); ("*saferith.Modulus", 4);
    ("*curve.Secp256k1Scalar", 5); ("*curve.Secp256k1Point", 6); ("ID", 7); ("IDSlice", 8); ("RID", 9);
    ("Commitment", 10); ("Decommitment", 11); ("Threshold", 12); ("Round Number", 13);
    ("Signature Message", 14); ("Empty Message", 14);
    ("Paillier Ciphertext", 16); ("Paillier PublicKey", 17); ("Pedersen Parameters", 18); ("Exponent", 19);
    ("ElGamal Ciphertext", 20); ("Schnorr Commitment", 21); ("messageHash", 22); ("Public Data", 23);
    ("CMP Config", 24) ]%string%nat.

Fixpoint lookup_dom (d : bytes) (t : list (string * nat)) : option nat :=
  match t with
  | [] => None
  | (s, k) :: t' => if bytes_eqb (str s) d then Some k else lookup_dom d t'
  end.
Definition fixed_kind_of_domain (d : bytes) : option nat := lookup_dom d kind_domain_table.

(* kind 15 = hash.BytesWithDomain *)
Definition caller_domain (v : hval) : Prop := hval_kind v = 15%nat.

Lemma enc_fixed_domain v i :
  enc_hval v = Some i -> ~ caller_domain v -> fixed_kind_of_domain (dom i) = Some (hval_kind v).
Proof.
  unfold caller_domain. intros E N.
  destruct v; cbn [enc_hval hval_kind] in *; try (exfalso; apply N; reflexivity); unfold opt_item in E;
    repeat match type of E with
           | context [match ?x with _ => _ end] => destruct x eqn:?
           end; try discriminate E; apply Some_inj in E; subst i; cbn [dom]; vm_compute; reflexivity.
Qed.

(* changing an item's TYPE changes the item -- for all types whose domain string is fixed by the type *)
Theorem fixed_domain_kinds_distinct v1 v2 i1 i2 :
  ~ caller_domain v1 -> ~ caller_domain v2 -> hval_kind v1 <> hval_kind v2 ->
  enc_hval v1 = Some i1 -> enc_hval v2 = Some i2 -> dom i1 <> dom i2.
Proof.
  intros N1 N2 K E1 E2 D. apply enc_fixed_domain in E1, E2; try assumption.
  rewrite D in E1. rewrite E1 in E2. injection E2 as E2. contradiction.
Qed.

(* the exception, precisely: a BytesWithDomain coincides with a value of another type only if its caller-chosen
   domain IS that type's domain string (and then the payloads are equal as well) *)
Theorem with_domain_alias_only_on_fixed_domain d o v i :
  ~ caller_domain v -> enc_hval (HWithDomain d o) = Some i -> enc_hval v = Some i ->
  fixed_kind_of_domain d = Some (hval_kind v).
Proof.
  intros N E1 E2. apply enc_fixed_domain in E2; [|assumption].
  cbn [enc_hval] in E1. destruct o; cbn [opt_item] in E1; [|discriminate]. now injection E1 as <-.
Qed.

(* ... and that exception is real *)
Theorem with_domain_alias_witness :
  exists v1 v2, hval_kind v1 <> hval_kind v2 /\ wf_hval v1 = true /\ wf_hval v2 = true /\
                enc_hval v1 = enc_hval v2 /\ enc_hval v1 <> None.
Proof.
  exists (HWithDomain (str "RID") (Some [1])), (HRID (Some [1])).
  repeat split; try reflexivity; discriminate.
Qed.

(* ------------------------------------------------------------------ *)
(* 6. sequences: the stream determines the typed values                *)

(* the only way two different values can be written identically *)
Definition alias_exception (a b : hval) : Prop :=
  hval_kind a <> hval_kind b /\ (caller_domain a \/ caller_domain b).

Definition same_value (a b : hval) : Prop := a = b \/ alias_exception a b.

Lemma caller_domain_dec v : {caller_domain v} + {~ caller_domain v}.
Proof. unfold caller_domain. apply Nat.eq_dec. Qed.

Lemma same_item_same_value a b i :
  wf_hval a = true -> wf_hval b = true -> enc_hval a = Some i -> enc_hval b = Some i -> same_value a b.
Proof.
  intros Wa Wb Ea Eb. destruct (Nat.eq_dec (hval_kind a) (hval_kind b)) as [K|K].
  - left. now apply (value_inj a b i).
  - right. split; [assumption|].
    destruct (caller_domain_dec a) as [|Na]; [now left|].
    destruct (caller_domain_dec b) as [|Nb]; [now right|].
    exfalso. now apply (fixed_domain_kinds_distinct a b i i Na Nb K Ea Eb).
Qed.

Lemma enc_all_same_values vs1 : forall vs2 l,
  forallb wf_hval vs1 = true -> forallb wf_hval vs2 = true ->
  enc_all vs1 = Some l -> enc_all vs2 = Some l -> Forall2 same_value vs1 vs2.
Proof.
  induction vs1 as [|a vs1 IH]; intros [|b vs2] l W1 W2 E1 E2; cbn [enc_all] in *.
  - constructor.
  - injection E1 as <-. destruct (enc_hval b), (enc_all vs2); discriminate.
  - injection E2 as <-. destruct (enc_hval a), (enc_all vs1); discriminate.
  - cbn [forallb] in W1, W2. apply andb_true_iff in W1 as [Wa W1], W2 as [Wb W2].
    destruct (enc_hval a) as [ia|] eqn:Ea; [|discriminate]. destruct (enc_all vs1) as [l1|] eqn:El1; [|discriminate].
    destruct (enc_hval b) as [ib|] eqn:Eb; [|discriminate]. destruct (enc_all vs2) as [l2|] eqn:El2; [|discriminate].
    injection E1 as <-. injection E2 as -> ->.
    constructor; [now apply (same_item_same_value a b ia) | now apply (IH vs2 l1)].
Qed.

Lemma enc_all_wf_items vs : forall l,
  forallb wf_hval vs = true -> enc_all vs = Some l -> forallb wf_item l = true.
Proof.
  induction vs as [|v vs IH]; intros l W E; cbn [enc_all] in E.
  - now injection E as <-.
  - cbn [forallb] in W. apply andb_true_iff in W as [Wv W].
    destruct (enc_hval v) as [i|] eqn:Ev; [|discriminate]. destruct (enc_all vs) as [l'|] eqn:El; [|discriminate].
    injection E as <-. cbn [forallb]. now rewrite (wf_hval_item v i Wv Ev), (IH l' W eq_refl).
Qed.

(* two successful WriteAny calls on the same state that leave the same absorbed stream wrote the same values *)
Theorem values_stream_inj st vs1 vs2 s :
  forallb wf_hval vs1 = true -> forallb wf_hval vs2 = true ->
  write_any st vs1 = (s, true) -> write_any st vs2 = (s, true) ->
  Forall2 same_value vs1 vs2.
Proof.
  intros W1 W2 E1 E2.
  destruct (write_any_true_enc _ _ _ E1) as (l1 & El1 & S1).
  destruct (write_any_true_enc _ _ _ E2) as (l2 & El2 & S2).
  assert (l1 = l2).
  { apply (stream_inj st); [now apply (enc_all_wf_items vs1) | now apply (enc_all_wf_items vs2) | congruence]. }
  subst l2. now apply (enc_all_same_values vs1 vs2 l1).
Qed.

Section ValuesDigest.
  Variable H : bytes -> bytes.

  (* equal digests: the same typed values were written, or an explicit collision of H is exhibited *)
  Theorem values_digest_binding st vs1 vs2 s1 s2 :
    forallb wf_hval vs1 = true -> forallb wf_hval vs2 = true ->
    write_any st vs1 = (s1, true) -> write_any st vs2 = (s2, true) ->
    H s1 = H s2 ->
    Forall2 same_value vs1 vs2 \/ collision H s1 s2.
  Proof.
    intros W1 W2 E1 E2 EH.
    destruct (list_eq_dec N.eq_dec s1 s2) as [Es|Ns].
    - left. subst s2. now apply (values_stream_inj st vs1 vs2 s1).
    - right. now split.
  Qed.
End ValuesDigest.

(* sequences free of the exception: no BytesWithDomain whose domain is one of the fixed type domains *)
Definition no_alias (v : hval) : bool :=
  match v with
  | HWithDomain d _ => match fixed_kind_of_domain d with Some _ => false | None => true end
  | _ => true
  end.

Lemma same_value_no_alias a b i :
  no_alias a = true -> no_alias b = true -> enc_hval a = Some i -> enc_hval b = Some i ->
  same_value a b -> a = b.
Proof.
  intros Na Nb Ea Eb [E|[K [C|C]]]; [assumption | exfalso ..].
  - destruct a; try discriminate C. cbn [no_alias] in Na.
    destruct (caller_domain_dec b) as [Cb|Cb]; [apply K; unfold caller_domain in *; congruence|].
    rewrite (with_domain_alias_only_on_fixed_domain _ _ b i Cb Ea Eb) in Na. discriminate.
  - destruct b; try discriminate C. cbn [no_alias] in Nb.
    destruct (caller_domain_dec a) as [Ca|Ca]; [apply K; unfold caller_domain in *; congruence|].
    rewrite (with_domain_alias_only_on_fixed_domain _ _ a i Ca Eb Ea) in Nb. discriminate.
Qed.

Lemma enc_all_no_alias_eq vs1 : forall vs2 l,
  forallb wf_hval vs1 = true -> forallb wf_hval vs2 = true ->
  forallb no_alias vs1 = true -> forallb no_alias vs2 = true ->
  enc_all vs1 = Some l -> enc_all vs2 = Some l -> vs1 = vs2.
Proof.
  induction vs1 as [|a vs1 IH]; intros [|b vs2] l W1 W2 N1 N2 E1 E2; cbn [enc_all] in *.
  - reflexivity.
  - injection E1 as <-. destruct (enc_hval b), (enc_all vs2); discriminate.
  - injection E2 as <-. destruct (enc_hval a), (enc_all vs1); discriminate.
  - cbn [forallb] in W1, W2, N1, N2.
    apply andb_true_iff in W1 as [Wa W1], W2 as [Wb W2], N1 as [Na N1], N2 as [Nb N2].
    destruct (enc_hval a) as [ia|] eqn:Ea; [|discriminate]. destruct (enc_all vs1) as [l1|] eqn:El1; [|discriminate].
    destruct (enc_hval b) as [ib|] eqn:Eb; [|discriminate]. destruct (enc_all vs2) as [l2|] eqn:El2; [|discriminate].
    injection E1 as <-. injection E2 as -> ->. f_equal.
    + apply (same_value_no_alias a b ia); try assumption. now apply (same_item_same_value a b ia).
    + now apply (IH vs2 l1).
Qed.

Theorem values_stream_inj_strict st vs1 vs2 s :
  forallb wf_hval vs1 = true -> forallb wf_hval vs2 = true ->
  forallb no_alias vs1 = true -> forallb no_alias vs2 = true ->
  write_any st vs1 = (s, true) -> write_any st vs2 = (s, true) -> vs1 = vs2.
Proof.
  intros W1 W2 N1 N2 E1 E2.
  destruct (write_any_true_enc _ _ _ E1) as (l1 & El1 & S1).
  destruct (write_any_true_enc _ _ _ E2) as (l2 & El2 & S2).
  assert (l1 = l2).
  { apply (stream_inj st); [now apply (enc_all_wf_items vs1) | now apply (enc_all_wf_items vs2) | congruence]. }
  subst l2. now apply (enc_all_no_alias_eq vs1 vs2 l1).
Qed.

(* ------------------------------------------------------------------ *)
(* 7. regression: the encoders BEFORE the repairs (enc_hval_v0) collide; the repaired ones separate the same values *)

Definition item_ok_v0 (v : hval) : bool :=
  match enc_hval_v0 v with Some i => wf_item i | None => false end.
Definition peds_in_range (c : cmp_config) : bool := forallb (fun e => ped_in_range (snd e)) (cc_public c).

(* x coordinates of G and 2G (both have even y): real curve points, so that the witness can be replayed on the Go types *)
Definition wit_gx : N := 0x79BE667EF9DCBBAC55A06295CE870B07029BFCDB2DCE28D959F2815B16F81798.
Definition wit_g2x : N := 0xC6047F9441ED7D6D3045406E95C07CD85C778E4B8CEF3CA7ABAC09B95C709EE5.
Definition wit_rid : bytes := repeat 7 32.
Definition wit_sh : N := 256 ^ 33.          (* 33 bytes: the distance by which the field boundaries move *)
Definition wit_top : N := 256 ^ 223.        (* a 1 in byte 32 of a 256-byte field *)
Definition wit_encG : N := 2 * 256 ^ 32 + wit_gx.   (* the 33 bytes 02 || x(G) read as a number *)

(* A: party "a" has a 1-byte modulus (7), party "b" a 34-byte modulus whose first 33 bytes are the encoding of G *)
Definition wit_config_a : cmp_config :=
  mkCmpConfig 1 (Some wit_rid) []
    [ ([97], mkCmpPublic (wit_gx, false) (wit_g2x, false) 7 (wit_top + 11) (wit_top + 12) (wit_top + 13));
      ([98], mkCmpPublic (wit_gx, false) (wit_g2x, false) (wit_encG * 256 + 9) 14 15 16) ].
(* B: same threshold, parties and RID; "a" has a 34-byte modulus, "b" a 1-byte modulus; every field boundary after
   the first modulus is 33 bytes further to the right *)
Definition wit_config_b : cmp_config :=
  mkCmpConfig 1 (Some wit_rid) []
    [ ([97], mkCmpPublic (wit_gx, false) (wit_g2x, false) (7 * wit_sh + 1)
                         (11 * wit_sh + 1) (12 * wit_sh + 1) (13 * wit_sh + wit_encG));
      ([98], mkCmpPublic (wit_g2x, false) (wit_gx, false) 9 14 15 16) ].

Lemma wit_configs_differ : wit_config_a <> wit_config_b.
Proof.
  intro E. apply (f_equal (fun c => map (fun e => cp_paillier (snd e)) (cc_public c))) in E.
  vm_compute in E. discriminate E.
Qed.

(* pre-fix Config.WriteTo: two different well-formed configs (same threshold, parties, 32-byte RID, all ranges
   respected), one byte string *)
Theorem config_v0_refuted :
  exists c1 c2 : cmp_config,
    c1 <> c2 /\
    wf_config c1 = true /\ wf_config c2 = true /\ peds_in_range c1 = true /\ peds_in_range c2 = true /\
    item_ok_v0 (HCmpConfig (Some c1)) = true /\
    cc_threshold c1 = cc_threshold c2 /\ cc_rid c1 = cc_rid c2 /\ map fst (cc_public c1) = map fst (cc_public c2) /\
    enc_hval_v0 (HCmpConfig (Some c1)) = enc_hval_v0 (HCmpConfig (Some c2)).
Proof.
  exists wit_config_a, wit_config_b. split; [exact wit_configs_differ|].
  repeat split; vm_compute; reflexivity.
Qed.

(* ... and the repaired Config.WriteTo writes them differently *)
Theorem config_witness_repaired :
  wf_hval (HCmpConfig (Some wit_config_a)) = true /\ wf_hval (HCmpConfig (Some wit_config_b)) = true /\
  enc_hval (HCmpConfig (Some wit_config_a)) <> None /\
  enc_hval (HCmpConfig (Some wit_config_a)) <> enc_hval (HCmpConfig (Some wit_config_b)).
Proof.
  repeat split; try (vm_compute; reflexivity).
  - vm_compute. discriminate.
  - intro E. destruct (enc_hval (HCmpConfig (Some wit_config_a))) as [i|] eqn:Ea; [|vm_compute in Ea; discriminate Ea].
    symmetry in E. apply wit_configs_differ.
    assert (V : HCmpConfig (Some wit_config_a) = HCmpConfig (Some wit_config_b)).
    { apply (value_inj _ _ i); try assumption; try reflexivity; vm_compute; reflexivity. }
    congruence.
Qed.

(* with a free RID length a single party was enough: one byte string, two readings *)
Definition wit1_config_a : cmp_config :=
  mkCmpConfig 0 (Some (repeat 7 32)) []
    [ ([97], mkCmpPublic (wit_gx, false) (wit_g2x, false) (wit_encG * 256 + 9) 14 15 16) ].
Definition wit1_config_b : cmp_config :=
  mkCmpConfig 0 (Some (repeat 7 32 ++ point_bytes (wit_gx, false))) []
    [ ([97], mkCmpPublic (wit_g2x, false) (wit_gx, false) 9 14 15 16) ].

Theorem config_v0_one_party_refuted :
  exists c1 c2 : cmp_config,
    c1 <> c2 /\ wf_config c1 = true /\ wf_config c2 = true /\ peds_in_range c1 = true /\ peds_in_range c2 = true /\
    length (cc_public c1) = 1%nat /\ length (cc_public c2) = 1%nat /\
    item_ok_v0 (HCmpConfig (Some c1)) = true /\
    enc_hval_v0 (HCmpConfig (Some c1)) = enc_hval_v0 (HCmpConfig (Some c2)) /\
    enc_hval (HCmpConfig (Some c1)) <> enc_hval (HCmpConfig (Some c2)).
Proof.
  exists wit1_config_a, wit1_config_b. split; [|repeat split; try (vm_compute; reflexivity)].
  - intro E. apply (f_equal (fun c => map (fun e => cp_paillier (snd e)) (cc_public c))) in E.
    vm_compute in E. discriminate E.
  - vm_compute. discriminate.
Qed.

(* pre-fix Parameters.WriteTo: FillBytes into a fixed-width buffer silently drops the bytes that do not fit -- a value
   and its residue mod 256^width were written identically; the repaired WriteTo refuses the oversized value *)
Theorem pedersen_v0_truncation_refuted :
  exists v1 v2, v1 <> v2 /\ same_kind v1 v2 /\ item_ok_v0 v1 = true /\
                enc_hval_v0 v1 = enc_hval_v0 v2 /\
                enc_hval v1 <> None /\ enc_hval v2 = None.
Proof.
  exists (HPedersen 5 1 1), (HPedersen (5 + 2 ^ 2048) 1 1). split; [|repeat split; try (vm_compute; reflexivity)].
  - intro E. apply (f_equal (fun v => match v with HPedersen n _ _ => n | _ => 0 end)) in E.
    vm_compute in E. discriminate E.
  - vm_compute. discriminate.
Qed.

(* ------------------------------------------------------------------ *)
(* 8. non-vacuity: well-formed values of the new kinds                 *)

Definition ex_public (n : N) : cmp_public :=
  mkCmpPublic (wit_gx, false) (wit_g2x, false) (2 ^ 2047 + n) 14 15 16.
Definition ex_config : cmp_config :=
  mkCmpConfig 1 (Some wit_rid) (repeat 9 32) [ ([97], ex_public 1); ([98], ex_public 3) ].
Definition ex_values : list hval :=
  [ HExponent false (Some [(wit_gx, false); (wit_g2x, false)]); HExponent true None;
    HElGamal (wit_gx, false) (wit_g2x, false); HSchCommitment (wit_gx, false); HMessageHash (Some [1; 2]);
    HCmpPublic (Some (ex_public 1)); HCmpConfig (Some ex_config) ].
Lemma ex_values_wf : forallb wf_hval ex_values = true /\ forallb no_alias ex_values = true /\
                     snd (write_any init_state ex_values) = true.
Proof. repeat split; vm_compute; reflexivity. Qed.

(* ------------------------------------------------------------------ *)
(* 9. regression: Config.WriteTo before the chain key was written (enc_hval_v1) *)

Definition item_ok_v1 (v : hval) : bool :=
  match enc_hval_v1 v with Some i => wf_item i | None => false end.

(* two configs that differ ONLY in their chain key (nil/empty against 32 bytes) *)
Definition wit_ck_config (ck : bytes) : cmp_config :=
  mkCmpConfig 1 (Some wit_rid) ck [ ([97], ex_public 1); ([98], ex_public 3) ].

Theorem config_v1_chainkey_refuted :
  exists c1 c2 : cmp_config,
    c1 <> c2 /\ wf_config c1 = true /\ wf_config c2 = true /\
    cc_threshold c1 = cc_threshold c2 /\ cc_rid c1 = cc_rid c2 /\ cc_public c1 = cc_public c2 /\
    cc_chainkey c1 <> cc_chainkey c2 /\
    item_ok_v1 (HCmpConfig (Some c1)) = true /\
    enc_hval_v1 (HCmpConfig (Some c1)) = enc_hval_v1 (HCmpConfig (Some c2)) /\
    enc_hval (HCmpConfig (Some c1)) <> None /\
    enc_hval (HCmpConfig (Some c1)) <> enc_hval (HCmpConfig (Some c2)).
Proof.
  exists (wit_ck_config []), (wit_ck_config (repeat 9 32)).
  split; [intro E; apply (f_equal cc_chainkey) in E; discriminate E|].
  repeat split; try (vm_compute; reflexivity); try discriminate; vm_compute; discriminate.
Qed.

(* the pre-chain-key encoder never looks at the chain key, for any config *)
Lemma config_data_v1_ignores_chainkey t rid ck ck' pubs :
  config_data_v1 (mkCmpConfig t rid ck pubs) = config_data_v1 (mkCmpConfig t rid ck' pubs).
Proof. reflexivity. Qed.
