(* SessionFieldsProofs.v -- the items internal/round.NewSession writes into the session hash, Helper.HashForID, and the Doerner
   signing transcript, as transcribed from /repo's source on every run (Generated/Challenges.v), against Model/Session.v
   (ssid_vals, hash_for_id).  Lemmas; statements are restated in Properties/C09_fields.v. *)
From Coq Require Import String List Bool NArith ZArith.
From MPS Require Import Model.Bytes Model.Framing Model.Session.
From MPS Require Import Generated.Challenges Proofs.FieldsBase.
Import ListNotations.
Local Open Scope string_scope.
Local Open Scope list_scope.

(* ---------------------------------------------------------------- NewSession: the items of the session tag *)

(* a written item of NewSession: present always, or only under a condition on the parameters; auxInfo is a list *)
Definition tbl_session (p : sess_params) : list (string * list hval) :=
  [ ("h <- [if sessionID != nil] &hash.BytesWithDomain{TheDomain: ""Session ID"", Bytes: sessionID}",
       match sp_sid p with Some s => [HWithDomain (str "Session ID") (Some s)] | None => [] end);
    ("h <- &hash.BytesWithDomain{TheDomain: ""Protocol ID"", Bytes: []byte(info.ProtocolID)}",
       [HWithDomain (str "Protocol ID") (Some (sp_proto p))]);
    ("h <- [if info.Group != nil] &hash.BytesWithDomain{TheDomain: ""Group Name"", Bytes: []byte(info.Group.Name())}",
       match sp_group p with Some g => [HWithDomain (str "Group Name") (Some g)] | None => [] end);
    ("h <- partyIDs", [HIDSlice (Some (sort_ids (sp_ids p)))]);
    ("h <- types.ThresholdWrapper(info.Threshold)", [HThreshold (Z.to_N (sp_thr p))]);
    ("h <- [for _, a := range auxInfo] [unless a == nil] a", sp_aux p) ].

Lemma go_NewSession_ssid_fields p : collect (tbl_session p) go_NewSession_writes = Some (ssid_vals p).
Proof.
  cbv [collect wlookup String.eqb Ascii.eqb Bool.eqb go_NewSession_writes tbl_session ssid_vals].
  rewrite app_nil_r. repeat rewrite <- app_assoc. reflexivity.
Qed.

Lemma tbl_session_keys_distinct p : distinctb (map fst (tbl_session p)) = true.
Proof. vm_compute. reflexivity. Qed.

(* where the hash comes from and where it goes: a fresh hash, only the writes above, the SSID is the digest of a clone and
   the state itself is kept for HashForID *)
Lemma go_NewSession_hash_trace_ok :
  go_NewSession_hash_trace =
  [ "h := hash.New()";
    "[if sessionID != nil] err = h.WriteAny(&hash.BytesWithDomain{TheDomain: ""Session ID"", Bytes: sessionID})";
    "err = h.WriteAny(&hash.BytesWithDomain{TheDomain: ""Protocol ID"", Bytes: []byte(info.ProtocolID)})";
    "[if info.Group != nil] err = h.WriteAny(&hash.BytesWithDomain{TheDomain: ""Group Name"", Bytes: []byte(info.Group.Name())})";
    "err = h.WriteAny(partyIDs)";
    "err = h.WriteAny(types.ThresholdWrapper(info.Threshold))";
    "[for _, a := range auxInfo] [unless a == nil] err = h.WriteAny(a)";
    "return &Helper{info: info, Pool: pl, partyIDs: partyIDs, otherPartyIDs: partyIDs.Remove(info.SelfID), ssid: h.Clone().Sum(), hash: h}, nil" ].
Proof. reflexivity. Qed.

(* HashForID: a clone of the session state, the id written unless empty *)
Definition tbl_hash_for_id (id : bytes) : list (string * list item) :=
  [ ("cloned <- [if id != """"] id", match id with [] => [] | _ => [mkItem (str "ID") id] end) ].
Lemma go_HashForID_fields ssid_stream id :
  go_Helper_HashForID_hash_trace = ["cloned := h.hash.Clone()"; "[if id != """"] _ = cloned.WriteAny(id)"; "return cloned"] /\
  match collect (tbl_hash_for_id id) go_Helper_HashForID_writes with
  | Some items => hash_for_id ssid_stream id = ssid_stream ++ concat (map frame items)
  | None => False
  end.
Proof.
  split; [reflexivity|].
  cbv [collect wlookup String.eqb Ascii.eqb Bool.eqb go_Helper_HashForID_writes tbl_hash_for_id].
  destruct id; cbn [app map concat hash_for_id]; rewrite ?app_nil_r; reflexivity.
Qed.

(* ---------------------------------------------------------------- Doerner signing transcript *)

(* sender and receiver hash the same three values in the same order, each into a fresh copy of the session hash *)
Definition strip_recv (s : string) : string :=
  (* the text after " <- ", with the receiver's field prefix "r." removed *)
  let fix go (n : nat) (s : string) : string :=
      match n with
      | O => s
      | S n' => if prefix_b " <- " s then substring 4 (String.length s) s
                else match s with EmptyString => s | String _ r => go n' r end
      end in
  let e := go (String.length s) s in
  if prefix_b "r." e then substring 2 (String.length e) e else e.

Lemma go_doerner_sign_transcripts_agree :
  map strip_recv go_doerner_sign_round1S_writes = ["RPrime"; "Gamma1"; "Gamma2"] /\
  map strip_recv go_doerner_sign_round2R_writes = ["RPrime"; "Gamma1"; "Gamma2"].
Proof. split; vm_compute; reflexivity. Qed.

Lemma go_doerner_sign_hash_traces_ok :
  go_doerner_sign_round1S_hash_trace =
  [ "H := r.Hash()"; "_ = H.WriteAny(RPrime)"; "kA := sample.Scalar(H.Digest(), group).Add(kAPrime)";
    "tag0 := &hash.BytesWithDomain{TheDomain: ""Multiply0"", Bytes: nil}";
    "multiply0 := ot.NewMultiplySender(r.Hash().Fork(tag0), r.config.Setup, alpha0)";
    "tag1 := &hash.BytesWithDomain{TheDomain: ""Multiply1"", Bytes: nil}";
    "multiply1 := ot.NewMultiplySender(r.Hash().Fork(tag1), r.config.Setup, alpha1)";
    "tag2 := &hash.BytesWithDomain{TheDomain: ""Multiply1"", Bytes: nil}";
    "multiply2 := ot.NewMultiplySender(r.Hash().Fork(tag2), r.config.Setup, alpha2)";
    "H = r.Hash()"; "_ = H.WriteAny(Gamma1)"; "HGamma1 := sample.Scalar(H.Digest(), group)";
    "H = r.Hash()"; "_ = H.WriteAny(Gamma2)"; "HGamma2 := sample.Scalar(H.Digest(), group)" ] /\
  go_doerner_sign_round2R_hash_trace =
  [ "hash := r.Hash()"; "_ = hash.WriteAny(r.RPrime)"; "R := sample.Scalar(hash.Digest(), group).Act(r.D).Add(r.RPrime)";
    "hash = r.Hash()"; "_ = hash.WriteAny(Gamma1)"; "HGamma1 := sample.Scalar(hash.Digest(), group)";
    "hash = r.Hash()"; "_ = hash.WriteAny(Gamma2)"; "HGamma2 := sample.Scalar(hash.Digest(), group)" ] /\
  go_doerner_sign_round1R_hash_trace =
  [ "tag0 := &hash.BytesWithDomain{TheDomain: ""Multiply0"", Bytes: nil}";
    "multiply0, err := ot.NewMultiplyReceiver(r.Hash().Fork(tag0), r.config.Setup, kB)";
    "tag1 := &hash.BytesWithDomain{TheDomain: ""Multiply1"", Bytes: nil}";
    "multiply1, err := ot.NewMultiplyReceiver(r.Hash().Fork(tag1), r.config.Setup, kB)";
    "tag2 := &hash.BytesWithDomain{TheDomain: ""Multiply1"", Bytes: nil}";
    "multiply2, err := ot.NewMultiplyReceiver(r.Hash().Fork(tag2), r.config.Setup, beta)" ].
Proof. repeat split; reflexivity. Qed.

(* the fork tags of the three OT multiplications, as (tag variable, domain) read off the traces: sender and receiver agree,
   but the second and third multiplication share the domain "Multiply1" (a finding: see NOTES) *)
Definition fork_domains (tr : list string) : list string :=
  filter (fun s => prefix_b "tag" s) tr.
Lemma go_doerner_fork_tags_agree :
  fork_domains go_doerner_sign_round1S_hash_trace = fork_domains go_doerner_sign_round1R_hash_trace.
Proof. vm_compute. reflexivity. Qed.
Lemma go_doerner_fork_tags_distinct_refuted :
  exists a b, a <> b /\
    nth_error (fork_domains go_doerner_sign_round1S_hash_trace) 1 = Some a /\
    nth_error (fork_domains go_doerner_sign_round1S_hash_trace) 2 = Some b /\
    substring 8 (String.length a) a = substring 8 (String.length b) b.
Proof.
  eexists; eexists. split; [|split; [reflexivity|split; [reflexivity|reflexivity]]].
  discriminate.
Qed.

Lemma challenges_none_missing : challenges_missing = [].
Proof. reflexivity. Qed.
