(* ValidatorsBase.v -- environments for the restore-time validation of stored key material, translated from /repo's source on
   every run (Generated/Validators.v, written by verifgen/gen_validate.go): types.RID.Validate, the Validate / UnmarshalCBOR
   methods of the FROST, taproot and Doerner configs, of ecdsa.PreSignature and ecdsa.Signature, cmp config.UnmarshalBinary
   (with the loop over the public entries as a gexp of its own), polynomial.Exponent.UnmarshalBinary,
   protocol.Message.UnmarshalBinary and the guards of taproot.PublicKey.Verify.

   As in Proofs/GuardsBase.v / ZKGuardsBase.v an environment maps every atom (canonical source text of a comparison / call
   leaf) to the corresponding boolean of the MODEL (Model/Cbor.v), or to [None] when the atom must not be evaluated there
   (a nil receiver or field would be dereferenced, binary.BigEndian.Uint32 on fewer than 4 bytes, a field of an object whose
   decoding failed).  Maps with nil-able entries are lists of (id, option point): [None] is a nil pointer, and [collapse]
   reads it as the identity (both are refused by the same test `share == nil || share.IsIdentity()`).
   Definitions only. *)
From Coq Require Import String List Bool Arith NArith ZArith.
From MPS Require Import Model.Bytes Model.Secp256k1 Model.Cbor.
From MPS Require Import Generated.Params Generated.Guards Generated.Validators Proofs.GuardsBase Proofs.ZKGuardsBase.
Import ListNotations.
Local Open Scope string_scope.
Local Open Scope Z_scope.

Definition is_okb {A} (o : outcome A) : bool := match o with Ok _ => true | _ => false end.
Definition olen (o : option bytes) : nat := match o with Some b => length b | None => 0%nat end.      (* len of a slice, nil = 0 *)

(* a map id -> pointer: None = nil pointer *)
Definition pmap := list (bytes * option point).
Definition collapse (m : pmap) : list (bytes * point) := map (fun e => (fst e, match snd e with Some P => P | None => None end)) m.
Definition nil_entry (m : pmap) : bool := existsb (fun e => is_none (snd e)) m.
(* `share == nil || share.IsIdentity()` for some entry *)
Definition bad_share (m : pmap) : bool := existsb (fun e => match snd e with None => true | Some P => is_identity P end) m.

Definition vtranslated (names : list string) : bool :=
  forallb (fun n => negb (existsb (String.eqb n) validators_untranslatable_names) && existsb (String.eqb n) (map fst go_validators)) names.

(* ---------------------------------------------------------------- types.RID.Validate (internal/types/rid.go) *)

Definition env_rid (r : option bytes) : aenv :=
  [ ("l != params.SecBytes where l := len(rid)", Some (negb (Z.of_nat (olen r) =? go_param_SecBytes)));
    ("any b in rid: b != 0", Some (any_nonzero (match r with Some b => b | None => [] end))) ].

(* ---------------------------------------------------------------- frost keygen.Config.Validate *)

Definition frost_names : list string := ["r"; "r.PrivateShare"; "r.PublicKey"; "r.VerificationShares"].

(* local: n = len(r.VerificationShares.Points) *)
Definition env_frost_validate (nl : nilmap) (id : bytes) (thr x : Z) (Y : point) (shares : pmap) : aenv :=
  let r := ["r"] in
  let rv := ["r"; "r.VerificationShares"] in
  [ ("r == nil", Some (nl "r"));
    ("r.PrivateShare == nil", dep nl r (nl "r.PrivateShare"));
    ("r.PublicKey == nil", dep nl r (nl "r.PublicKey"));
    ("r.VerificationShares == nil", dep nl r (nl "r.VerificationShares"));
    ("r.PrivateShare.IsZero()", dep nl ["r"; "r.PrivateShare"] (x =? 0));
    ("r.PublicKey.IsIdentity()", dep nl ["r"; "r.PublicKey"] (is_identity Y));
    ("r.Threshold < 0", dep nl r (thr <? 0));
    ("r.Threshold > n-1", dep nl rv (Z.of_nat (length shares) - 1 <? thr));
    ("ok where _, ok := r.VerificationShares.Points[r.ID]", dep nl rv (has_share id (collapse shares)));
    ("any id, share in r.VerificationShares.Points: share == nil || share.IsIdentity()", dep nl rv (bad_share shares)) ].

(* ---------------------------------------------------------------- frost keygen.TaprootConfig.Validate *)

(* PrivateShare is a *Secp256k1Scalar (None = nil), PublicKey a byte slice (None = nil, length 0), VerificationShares a plain map
   (a nil map has no entries and may be read) *)
Definition env_taproot_validate (nl : nilmap) (id : bytes) (thr : Z) (x : option Z) (pk : option bytes) (shares : pmap) : aenv :=
  let r := ["r"] in
  let pkb := match pk with Some b => b | None => [] end in
  [ ("r == nil", Some (nl "r"));
    ("r.PrivateShare == nil", dep nl r (is_none x));
    ("r.PrivateShare.IsZero()", match x with Some x => dep nl r (x =? 0) | None => None end);
    ("len(r.PublicKey) != 32", dep nl r (negb (Nat.eqb (olen pk) 32)));
    ("err != nil where _, err := (curve.Secp256k1{}).LiftX(r.PublicKey)", dep nl r (negb (liftable pkb)));
    ("r.Threshold < 0", dep nl r (thr <? 0));
    ("r.Threshold > n-1", dep nl r (Z.of_nat (length shares) - 1 <? thr));
    ("ok where _, ok := r.VerificationShares[r.ID]", dep nl r (has_share id (collapse shares)));
    ("any id, share in r.VerificationShares: share == nil || share.IsIdentity()", dep nl r (bad_share shares)) ].

(* ---------------------------------------------------------------- doerner keygen: validateConfig, Config*.Validate *)

Definition env_doerner_validate (noSetup : bool) (x : option Z) (Y : option point) (ck : option bytes) : aenv :=
  [ ("noSetup", Some noSetup);
    ("secretShare == nil", Some (is_none x));
    ("public == nil", Some (is_none Y));
    ("secretShare.IsZero()", onz x (fun x => x =? 0));
    ("public.IsIdentity()", onz Y is_identity);
    ("len(chainKey) != params.SecBytes", Some (negb (Z.of_nat (olen ck) =? go_param_SecBytes))) ].

(* the model's record for these arguments (a present setup is any byte string) *)
Definition doerner_of (noSetup : bool) (x : Z) (Y : point) (ck : option bytes) : doerner_config :=
  mkDoerner (if noSetup then None else Some []) x Y ck.

(* ConfigReceiver.Validate / ConfigSender.Validate: [v] = what validateConfig answers for the fields of c *)
Definition env_doerner_cfg (nl : nilmap) (v : bool) : aenv :=
  [ ("c == nil", Some (nl "c"));
    ("validateConfig(c.Setup == nil, c.SecretShare, c.Public, c.ChainKey) == nil", dep nl ["c"] v) ].

(* ---------------------------------------------------------------- the validating UnmarshalCBOR methods *)

(* [o] = the outcome of the default decoding into the receiver (a panic is turned into an error by the deferred recover, which
   the trace pins); Validate looks at the decoded object, so it is undefined when there is none *)
Definition env_unmarshal_cbor {A} (valid : A -> bool) (o : outcome A) : aenv :=
  let v := match o with Ok a => Some (valid a) | _ => None end in
  [ ("err != nil where err := cbor.Unmarshal(data, (*plain)(r))", Some (negb (is_okb o)));
    ("err != nil where err := cbor.Unmarshal(data, (*plain)(c))", Some (negb (is_okb o)));
    ("err != nil where err := cbor.Unmarshal(data, (*plain)(sig))", Some (negb (is_okb o)));
    ("r.Validate() == nil", v); ("c.Validate() == nil", v); ("sig.Validate() == nil", v) ].

(* ---------------------------------------------------------------- ecdsa.Signature.Validate (value receiver) *)

Definition sig_names : list string := ["sig.R"; "sig.S"].
Definition env_signature_validate (nl : nilmap) (R : point) (s : Z) : aenv :=
  [ ("sig.R == nil", Some (nl "sig.R")); ("sig.S == nil", Some (nl "sig.S"));
    ("sig.R.IsIdentity()", dep nl ["sig.R"] (is_identity R));
    ("sig.S.IsZero()", dep nl ["sig.S"] (s =? 0)) ].

(* ---------------------------------------------------------------- ecdsa.PreSignature.Validate / UnmarshalCBOR *)

Definition presig_names : list string := ["sig"; "sig.R"; "sig.KShare"; "sig.ChiShare"].

(* PreSignature.Validate = the model's presig_validate without the last test ("at least one signer"), which UnmarshalCBOR adds *)
Definition presig_validate_go (p : presig) : bool :=
  match ps_RBar p, ps_S p with
  | Some rb, Some sm =>
      Nat.eqb (length rb) (length sm)
      && forallb (fun e => negb (is_identity (snd e))
                           && match find_share (fst e) sm with
                              | Some Sj => negb (is_identity Sj)
                              | None => false end) rb
      && negb (is_identity (ps_R p))
      && rid_validate (ps_id p)
      && negb (ps_chi p =? 0) && negb (ps_k p =? 0)
  | _, _ => false
  end.

(* the third loop: some RBar entry has no S entry, an identity S entry, or is the identity itself *)
Definition presig_pair_refused (sm : list (bytes * point)) (e : bytes * point) : bool :=
  match find_share (fst e) sm with Some Sj => is_identity Sj | None => true end || is_identity (snd e).

(* RBar and S with nil-able entries; dereferencing a nil entry (S.IsIdentity(), R.IsIdentity()) is undefined *)
Definition env_presig_validate (nl : nilmap) (id : option bytes) (R : point) (rb sm : option pmap) (k chi : Z) : aenv :=
  let s := ["sig"] in
  let both (f : pmap -> pmap -> option bool) := match rb, sm with Some a, Some b => f a b | _, _ => None end in
  [ ("sig == nil", Some (nl "sig"));
    ("sig.R == nil", dep nl s (nl "sig.R"));
    ("sig.RBar == nil", dep nl s (is_none rb));
    ("sig.S == nil", dep nl s (is_none sm));
    ("sig.KShare == nil", dep nl s (nl "sig.KShare"));
    ("sig.ChiShare == nil", dep nl s (nl "sig.ChiShare"));
    ("any R in sig.RBar.Points: R == nil", match rb with Some a => dep nl s (nil_entry a) | None => None end);
    ("any S in sig.S.Points: S == nil", match sm with Some b => dep nl s (nil_entry b) | None => None end);
    ("len(sig.RBar.Points) != len(sig.S.Points)", both (fun a b => dep nl s (negb (Nat.eqb (length a) (length b)))));
    ("any id, R in sig.RBar.Points: (!ok || S.IsIdentity() where S, ok := sig.S.Points[id]) || R.IsIdentity()",
       both (fun a b => if nil_entry a || nil_entry b then None
                        else dep nl s (existsb (presig_pair_refused (collapse b)) (collapse a))));
    ("sig.R.IsIdentity()", dep nl ["sig"; "sig.R"] (is_identity R));
    ("err != nil where err := sig.ID.Validate()", dep nl s (negb (rid_validate id)));
    ("sig.ChiShare.IsZero()", dep nl ["sig"; "sig.ChiShare"] (chi =? 0));
    ("sig.KShare.IsZero()", dep nl ["sig"; "sig.KShare"] (k =? 0)) ].

Definition presig_of (id : option bytes) (R : point) (rb sm : option pmap) (k chi : Z) : presig :=
  mkPresig id R (option_map collapse rb) (option_map collapse sm) k chi.
Definition no_nil_entries (rb sm : option pmap) : bool :=
  match rb, sm with Some a, Some b => negb (nil_entry a) && negb (nil_entry b) | _, _ => true end.

(* UnmarshalCBOR: decoding, Validate, then "at least one signer" (RBar is not nil once Validate has passed) *)
Definition env_presig_unmarshal (o : outcome presig) : aenv :=
  [ ("err != nil where err := cbor.Unmarshal(data, (*plain)(sig))", Some (negb (is_okb o)));
    ("err != nil where err := sig.Validate()", match o with Ok p => Some (negb (presig_validate_go p)) | _ => None end);
    ("len(sig.RBar.Points) == 0",
       match o with Ok p => match ps_RBar p with Some rb => Some (Nat.eqb (length rb) 0) | None => None end | _ => None end) ].

(* ---------------------------------------------------------------- polynomial.Exponent.UnmarshalBinary *)

Definition exp_names : list string := ["e"; "e.group"].
(* steps: size := binary.BigEndian.Uint32(data) (a panic below 4 bytes), the slice of fresh points, rawExponent *)
Definition env_exponent (nl : nilmap) (bs : bytes) : aenv :=
  let short := (length bs <? 4)%nat in
  let size := be_val (firstn 4 bs) in
  [ ("e == nil", Some (nl "e"));
    ("e.group == nil", dep nl ["e"] (nl "e.group"));
    ("len(data) < 4", Some short);
    ("uint64(size) > uint64(len(data))", if short then None else Some (lenN bs <? size)%N);
    ("err != nil where err := cbor.Unmarshal(data[4:], &rawExponent)",
       if short then None else Some (negb (is_okb (exponent_decode_body size (skipn 4 bs))))) ].

(* ---------------------------------------------------------------- protocol.Message.UnmarshalBinary *)

(* [dec] = the decoding of the data into the FRESH struct `deserialized` *)
Definition env_message (dec : option message) : aenv :=
  [ ("err != nil where err := cbor.Unmarshal(data, deserialized)", Some (is_none dec));
    ("deserialized.From == """"", onz dec (fun m => negb (nonempty (m_from m))));
    ("deserialized.Protocol == """"", onz dec (fun m => negb (nonempty (m_protocol m)))) ].

(* ---------------------------------------------------------------- cmp config.UnmarshalBinary *)

Section CmpUnmarshal.
  Variable prime_test : Z -> bool.
  Variable act_on_base : Z -> point.

  (* one iteration of the loop over cm.Public: [acc] = the map ps so far, [e] = the decoding of this entry (a panic is an
     error return, through the deferred recover), NN = P*Q *)
  Definition env_cmp_iter (id : bytes) (NN : Z) (acc : list pub_c) (e : outcome pub_m) : aenv :=
    let on (f : pub_m -> bool) := match e with Ok p => Some (f p) | _ => None end in
    [ ("err != nil where err := cbor.Unmarshal(pm, p)", Some (negb (is_okb e)));
      ("ok where _, ok := ps[p.ID]", on (fun p => has_id (pm_id p) acc));
      ("p.ECDSA == nil", on (fun _ => false)); ("p.ElGamal == nil", on (fun _ => false));     (* pre-set interface values *)
      ("p.S == nil", on (fun p => is_none (pm_S p))); ("p.T == nil", on (fun p => is_none (pm_T p)));
      ("p.ID == cm.ID", on (fun p => bytes_eqb (pm_id p) id));
      ("err != nil where err := pedersen.ValidateParameters(paillierSecret.PublicKey.N(), p.S, p.T)",
         on (fun p => negb (validate_pedersen (Some NN) (pm_S p) (pm_T p))));
      ("p.N == nil", on (fun p => is_none (pm_N p)));
      ("err != nil where err := paillier.ValidateN(p.N)", on (fun p => negb (validate_N (pm_N p))));
      ("err != nil where err := pedersen.ValidateParameters(p.N, p.S, p.T)",
         on (fun p => negb (validate_pedersen (pm_N p) (pm_S p) (pm_T p))));
      ("p.ECDSA.IsIdentity()", on (fun p => is_identity (pm_ecdsa p)));
      ("p.ElGamal.IsIdentity()", on (fun p => is_identity (pm_elgamal p))) ].

  (* the two `ps[p.ID] = &Public{...}` steps: the own entry is rebuilt from the secrets, another entry is taken as decoded *)
  Definition cmp_entry (id : bytes) (x y NN : Z) (p : pub_m) : pub_c :=
    if bytes_eqb (pm_id p) id then mkPubC (pm_id p) (act_on_base x) (act_on_base y) NN (pm_S p) (pm_T p)
    else mkPubC (pm_id p) (pm_ecdsa p) (pm_elgamal p) (match pm_N p with Some n => n | None => 0 end) (pm_S p) (pm_T p).

  (* the loop, run with the TRANSLATED body: None as soon as an iteration returns (or is undefined) *)
  Fixpoint cmp_loop_run (id : bytes) (x y NN : Z) (l : list (outcome pub_m)) (acc : list pub_c) : option (list pub_c) :=
    match l with
    | [] => Some acc
    | e :: l' =>
        match geval (alookup (env_cmp_iter id NN acc e)) go_cmp_Config_UnmarshalBinary_loop1, e with
        | Some true, Ok p => cmp_loop_run id x y NN l' (acc ++ [cmp_entry id x y NN p])
        | _, _ => None
        end
    end.

  (* [o]: None = cbor.Unmarshal of the outer struct failed (or panicked: recover), Some None = it left cm nil (CBOR null),
     Some (Some cm) = the decoded configMarshal *)
  Definition env_cmp_unmarshal (group_nil : bool) (o : option (option config_m)) : aenv :=
    let on (f : config_m -> option bool) := match o with Some (Some cm) => f cm | _ => None end in
    let pq (f : config_m -> Z -> Z -> option bool) :=
      on (fun cm => match cm_P cm, cm_Q cm with Some P, Some Q => f cm P Q | _, _ => None end) in
    let run cm P Q := cmp_loop_run (cm_id cm) (cm_ecdsa cm) (cm_elgamal cm) (P * Q) (cm_public cm) [] in
    [ ("c.Group == nil", Some group_nil);
      ("err != nil where err := cbor.Unmarshal(data, &cm)", Some (is_none o));
      ("cm == nil", onz o is_none);
      ("cm.ECDSA == nil", on (fun _ => Some false)); ("cm.ElGamal == nil", on (fun _ => Some false));   (* pre-set interface values *)
      ("cm.P == nil", on (fun cm => Some (is_none (cm_P cm)))); ("cm.Q == nil", on (fun cm => Some (is_none (cm_Q cm))));
      ("err != nil where err := cm.RID.Validate()", on (fun cm => Some (negb (rid_validate (cm_rid cm)))));
      ("err != nil where err := cm.ChainKey.Validate()", on (fun cm => Some (negb (rid_validate (cm_chain cm)))));
      ("cm.ECDSA.IsZero()", on (fun cm => Some (cm_ecdsa cm =? 0))); ("cm.ElGamal.IsZero()", on (fun cm => Some (cm_elgamal cm =? 0)));
      ("err != nil where err := paillier.ValidatePrime(cm.P)", on (fun cm => Some (negb (validate_prime prime_test (cm_P cm)))));
      ("err != nil where err := paillier.ValidatePrime(cm.Q)", on (fun cm => Some (negb (validate_prime prime_test (cm_Q cm)))));
      ("cm.P.Eq(cm.Q) == 1", pq (fun _ P Q => Some (P =? Q)));
      ("err != nil where err := paillier.ValidateN(paillierSecret.PublicKey.N())", pq (fun _ P Q => Some (negb (validate_N (Some (P * Q))))));
      ("every pm in cm.Public: loop1", pq (fun cm P Q => Some (is_some (run cm P Q))));
      ("ValidThreshold(cm.Threshold, len(ps))",
         pq (fun cm P Q => match run cm P Q with Some ps => Some (valid_threshold (cm_threshold cm) (Z.of_nat (length ps))) | None => None end));
      ("ok where _, ok := ps[cm.ID]",
         pq (fun cm P Q => match run cm P Q with Some ps => Some (has_id (cm_id cm) ps) | None => None end)) ].

  (* what the model answers for the same decoding outcome *)
  Definition cmp_unmarshal_ok (o : option (option config_m)) : bool :=
    match o with Some (Some cm) => is_okb (config_checks prime_test act_on_base cm) | _ => false end.
End CmpUnmarshal.

(* one iteration of the translated loop body completes exactly when the model's loop goes on *)
Definition cmp_iter_ok (id : bytes) (NN : Z) (acc : list pub_c) (e : outcome pub_m) : bool :=
  match e with
  | Ok p =>
      negb (has_id (pm_id p) acc)
      && negb (is_none (pm_S p) || is_none (pm_T p))
      && (if bytes_eqb (pm_id p) id then validate_pedersen (Some NN) (pm_S p) (pm_T p)
          else negb (is_none (pm_N p)) && validate_N (pm_N p) && validate_pedersen (pm_N p) (pm_S p) (pm_T p)
               && negb (is_identity (pm_ecdsa p) || is_identity (pm_elgamal p)))
  | _ => false
  end.

(* the decoding outcome of config_unmarshal as the environment wants it *)
Definition cmp_decoded (bs : bytes) : option (option config_m) :=
  match decode bs with
  | None => None
  | Some (CNull, _) => Some None
  | Some (t, _) => match config_of_tree t with Ok cm => Some (Some cm) | _ => None end
  end.

(* ---------------------------------------------------------------- taproot.PublicKey.Verify: the two length guards *)

(* whatever the other atoms say *)
Definition env_taproot_lengths (sig_len pk_len : nat) (rest : string -> option bool) : string -> option bool :=
  fun a => if String.eqb a "len(sig) != SignatureLen" then Some (negb (Z.of_nat sig_len =? go_const_taproot_SignatureLen))
           else if String.eqb a "len(pk) != 32" then Some (negb (Nat.eqb pk_len 32))
           else rest a.
