(* EulerBridge.v -- Euler's theorem for N = p*q and for N^2, exported as plain Z statements.
   The only file of the development that uses mathcomp (Euler_exp_totient, totient_coprime, totient_pfactor);
   kept small and in ssreflect style.  Clients should [Require] it without importing mathcomp notations:
     From MPS Require Proofs.EulerBridge.     and use EulerBridge.euler_pq / EulerBridge.euler_pq2. *)
From Coq Require Import ZArith Znumtheory Lia.
From mathcomp Require Import all_ssreflect.
From mathcomp Require Import cyclic.
From mathcomp Require Import zify.
Set Implicit Arguments.
Unset Strict Implicit.
Unset Printing Implicit Defensive.
Local Open Scope nat_scope.

Lemma modn_Z (a n : nat) : (0 < n)%nat -> (Z.of_nat (a %% n) = Z.of_nat a mod Z.of_nat n)%Z.
Proof.
move=> n0. apply: (@Z.mod_unique _ _ (Z.of_nat (a %/ n))); first by left; lia.
have := divn_eq a n. lia.
Qed.

Lemma expn_Z (a n : nat) : (Z.of_nat (a ^ n) = Z.of_nat a ^ Z.of_nat n)%Z.
Proof.
elim: n => [|n IH]; first by rewrite expn0.
rewrite expnS Nat2Z.inj_succ Z.pow_succ_r; last by lia.
rewrite -IH. lia.
Qed.

Lemma prime_Z_nat (p : Z) : Znumtheory.prime p -> prime (Z.to_nat p).
Proof.
move=> pp. have p2 := prime_ge_2 _ pp.
apply/primeP; split; first by lia.
move=> d /dvdnP [k E].
have dv : (Z.of_nat d | p)%Z by exists (Z.of_nat k); lia.
case: (prime_divisors _ pp _ dv) => [|[|[|]]] H; apply/orP.
- lia.
- left. apply/eqP. lia.
- right. apply/eqP. lia.
- lia.
Qed.

Lemma coprime_Z_nat (a n : nat) : Z.gcd (Z.of_nat a) (Z.of_nat n) = 1%Z -> coprime a n.
Proof.
move=> g. rewrite /coprime. apply/eqP.
have d1 : (gcdn a n %| a) by apply: dvdn_gcdl.
have d2 : (gcdn a n %| n) by apply: dvdn_gcdr.
move/dvdnP: d1 => [k1 E1]. move/dvdnP: d2 => [k2 E2].
have D1 : (Z.of_nat (gcdn a n) | Z.of_nat a)%Z by exists (Z.of_nat k1); lia.
have D2 : (Z.of_nat (gcdn a n) | Z.of_nat n)%Z by exists (Z.of_nat k2); lia.
have := Z.gcd_greatest _ _ _ D1 D2. rewrite g => D.
have : (Z.of_nat (gcdn a n) = 1)%Z by apply: Z.divide_1_r_nonneg => //; lia.
lia.
Qed.

Lemma euler_nat_Z (a n k : nat) : (1 < n)%nat -> a ^ k = 1 %[mod n] ->
  (Z.of_nat a ^ Z.of_nat k mod Z.of_nat n = 1)%Z.
Proof.
move=> n1 E. rewrite -expn_Z -modn_Z; last by lia.
rewrite E modn_small //. 
Qed.

Lemma totient_pq (p q : nat) : prime p -> prime q -> p != q -> totient (p * q) = p.-1 * q.-1.
Proof.
move=> pp pq ne. rewrite totient_coprime ?totient_prime //.
by rewrite prime_coprime // dvdn_prime2.
Qed.

Lemma totient_pq2 (p q : nat) : prime p -> prime q -> p != q ->
  totient ((p * q) * (p * q)) = (p * q) * (p.-1 * q.-1).
Proof.
move=> pp pq ne.
have -> : (p * q) * (p * q) = p ^ 2 * q ^ 2 by rewrite -expnMn mulnn.
rewrite totient_coprime; last first.
  by rewrite coprime_pexpl // coprime_pexpr // prime_coprime // dvdn_prime2.
rewrite !totient_pfactor //= !expn1. lia.
Qed.


Lemma euler_gen (P Q a k : nat) (n := P * Q) :
  1 < P -> 1 < Q -> coprime a n -> a ^ k = 1 %[mod n] ->
  (Z.of_nat a ^ Z.of_nat k mod (Z.of_nat P * Z.of_nat Q) = 1)%Z.
Proof.
move=> P1 Q1 co E.
have n1 : 1 < P * Q by rewrite -[1]/(1 * 1) ltn_mul.
rewrite -Nat2Z.inj_mul. exact: euler_nat_Z n1 E.
Qed.

Section Z.
Variables p q a : Z.
Hypothesis pp : Znumtheory.prime p.
Hypothesis pq : Znumtheory.prime q.
Hypothesis ne : p <> q.
Hypothesis a0 : (0 <= a)%Z.
Let P := Z.to_nat p.
Let Q := Z.to_nat q.
Let A := Z.to_nat a.
Let p2 := prime_ge_2 _ pp.
Let q2 := prime_ge_2 _ pq.
Let eP : Z.of_nat P = p. Proof. rewrite /P. lia. Qed.
Let eQ : Z.of_nat Q = q. Proof. rewrite /Q. lia. Qed.
Let eA : Z.of_nat A = a. Proof. rewrite /A. lia. Qed.
Let eP1 : Z.of_nat P.-1 = (p - 1)%Z. Proof. rewrite /P. lia. Qed.
Let eQ1 : Z.of_nat Q.-1 = (q - 1)%Z. Proof. rewrite /Q. lia. Qed.
Let P1 : 1 < P. Proof. rewrite /P. lia. Qed.
Let Q1 : 1 < Q. Proof. rewrite /Q. lia. Qed.
Let Pp : prime P := prime_Z_nat pp.
Let Pq : prime Q := prime_Z_nat pq.
Let neq : P != Q. Proof. apply/eqP. rewrite /P /Q. lia. Qed.

Theorem euler_pq : Z.gcd a (p * q) = 1%Z ->
  (a ^ ((p - 1) * (q - 1)) mod (p * q) = 1)%Z.
Proof.
move=> g.
have co : coprime A (P * Q).
  by apply: coprime_Z_nat; rewrite Nat2Z.inj_mul eP eQ eA.
have E := Euler_exp_totient co. rewrite totient_pq // in E.
have := euler_gen P1 Q1 co E.
by rewrite Nat2Z.inj_mul eP eQ eA eP1 eQ1.
Qed.

Theorem euler_pq2 : Z.gcd a (p * q * (p * q)) = 1%Z ->
  (a ^ (p * q * ((p - 1) * (q - 1))) mod (p * q * (p * q)) = 1)%Z.
Proof.
move=> g.
have co : coprime A ((P * Q) * (P * Q)).
  by apply: coprime_Z_nat; rewrite !Nat2Z.inj_mul eP eQ eA.
have E := Euler_exp_totient co. rewrite totient_pq2 // in E.
have n1 : 1 < (P * Q) * (P * Q).
  by rewrite -[1]/(1 * 1) ltn_mul // -[1]/(1 * 1) ltn_mul.
have := euler_nat_Z n1 E.
by rewrite !Nat2Z.inj_mul eP eQ eA eP1 eQ1.
Qed.
End Z.
Print Assumptions euler_pq.
Print Assumptions euler_pq2.
