(* WritersProofs.v -- the byte-level writers translated from /repo's source (Generated/Writers.v) produce exactly the
   bytes of the model's encoders (Model/Framing.v), failure for failure.  Interpreter and environments:
   Proofs/WritersBase.v.  Every lemma is for ALL values of the kind; the generated programs are only unfolded and run. *)
From Coq Require Import String Ascii List Bool Arith NArith ZArith Lia.
From MPS Require Import Model.Bytes Model.Framing Proofs.BytesProofs.
From MPS Require Import Generated.Params Generated.Guards Generated.Domains Generated.Writers Proofs.WritersBase.
Import ListNotations.
Local Open Scope string_scope.
Local Open Scope N_scope.
Local Open Scope list_scope.

(* symbolic run of a closed program on an environment with symbolic leaves: only the interpreter is unfolded *)
Ltac wstep :=
  cbn [seq blk exec_op loop switch
       lookup sget sset restrict eval_e eval_n eval_len eval_c bytes_of method is_nil append_res bind_res set_err
       wconst wconsts cbor_struct cbor_fields cbor_value put_int copy_at
       String.eqb Ascii.eqb Bool.eqb callkey String.append existsb orb andb flat_map fst snd app option_map opt_bytes negb
       res_of dom_of fold_right n_nat pos_nat Z.to_N go_param_SecBytes go_param_BytesIntModN go_param_BitsIntModN go_param_BytesPaillier go_param_BitsPaillier go_param_BytesCiphertext go_const_hash_DigestLengthBytes Nat.add Nat.sub Nat.leb Nat.eqb repeat length skipn firstn].
Ltac wrun :=
  unfold writer_result, marshal_result, domain_result, writeany_run, sum_run, exec1, exec2, exec; wstep.

(* ------------------------------------------------------------------ helpers *)

Lemma size_le_shiftr n k : (k <? N.size n) = negb (lt_pow2 n k).
Proof.
  unfold lt_pow2. destruct (N.eq_dec n 0) as [->|Hn].
  - rewrite N.shiftr_0_l. cbn. destruct k; reflexivity.
  - rewrite N.size_log2 by assumption.
    destruct (N.shiftr n k =? 0) eqn:E; cbn [negb].
    + apply N.eqb_eq in E. apply N.ltb_ge.
      rewrite N.shiftr_div_pow2 in E. apply N.div_small_iff in E; [|apply N.pow_nonzero; discriminate].
      apply N.log2_lt_pow2 in E; lia.
    + apply N.eqb_neq in E. apply N.ltb_lt.
      destruct (N.lt_ge_cases k (N.succ (N.log2 n))) as [L|L]; [assumption|exfalso; apply E].
      rewrite N.shiftr_div_pow2. apply N.div_small. apply N.log2_lt_pow2; lia.
Qed.

Definition is_err (r : res) : bool := match r with Err _ => true | _ => false end.

Section Writers.
Variable xof : bytes -> nat -> bytes.

Notation step1 := (exec_op xof (fun _ _ => None) (fun _ => None) (fun _ _ => None)).

(* what a theorem about a writer says: the run of the translated WriteTo on the components of v = the data part of
   the model's item, None (an error is returned) exactly when the model has no item *)
Definition writes_model (v : hval) (en : env) (p : list wop) : Prop :=
  writer_result xof en p = Some (option_map dat (enc_hval v)).

(* ------------------------------------------------------------------ straight-line writers *)

Lemma w_id b : writes_model (HID b) (env_id b) gw_party_ID_WriteTo.
Proof. unfold writes_model, gw_party_ID_WriteTo, env_id. wrun. destruct b; reflexivity. Qed.

Lemma w_rid o : writes_model (HRID o) (env_rid o) gw_types_RID_WriteTo.
Proof. unfold writes_model, gw_types_RID_WriteTo, env_rid. destruct o; reflexivity. Qed.

Lemma w_commitment o : writes_model (HCommitment o) (env_commitment o) gw_hash_Commitment_WriteTo.
Proof. unfold writes_model, gw_hash_Commitment_WriteTo, env_commitment. destruct o; reflexivity. Qed.

Lemma w_decommitment o : writes_model (HDecommitment o) (env_decommitment o) gw_hash_Decommitment_WriteTo.
Proof. unfold writes_model, gw_hash_Decommitment_WriteTo, env_decommitment. destruct o; reflexivity. Qed.

Lemma w_msghash o : writes_model (HMessageHash o) (env_msghash o) gw_sign_messageHash_WriteTo.
Proof. unfold writes_model, gw_sign_messageHash_WriteTo, env_msghash. destruct o; reflexivity. Qed.

Lemma w_withdomain d o : writes_model (HWithDomain d o) (env_withdomain d o) gw_hash_BytesWithDomain_WriteTo.
Proof. unfold writes_model, gw_hash_BytesWithDomain_WriteTo, env_withdomain. destruct o; reflexivity. Qed.

Lemma w_sigmsg o : writes_model (HSigMsg o) (env_sigmsg o) gw_types_SigningMessage_WriteTo.
Proof. unfold writes_model, gw_types_SigningMessage_WriteTo, env_sigmsg. destruct o; reflexivity. Qed.

Lemma w_threshold t : writes_model (HThreshold t) (env_threshold t) gw_types_ThresholdWrapper_WriteTo.
Proof.
  unfold writes_model, gw_types_ThresholdWrapper_WriteTo, env_threshold. wrun. rewrite app_nil_r. reflexivity.
Qed.

Lemma w_round r : writes_model (HRound r) (env_round r) gw_round_Number_WriteTo.
Proof. unfold writes_model, gw_round_Number_WriteTo, env_round. reflexivity. Qed.

Lemma w_ciphertext c : writes_model (HCiphertext c) (env_ciphertext c) gw_paillier_Ciphertext_WriteTo.
Proof.
  unfold writes_model, gw_paillier_Ciphertext_WriteTo, env_ciphertext. wrun. reflexivity.
Qed.

Lemma w_paillierpk n : writes_model (HPaillierPK n) (env_paillierpk n) gw_paillier_PublicKey_WriteTo.
Proof. unfold writes_model, gw_paillier_PublicKey_WriteTo, env_paillierpk. reflexivity. Qed.

Lemma w_elgamal l m : writes_model (HElGamal l m) (env_elgamal l m) gw_elgamal_Ciphertext_WriteTo.
Proof. unfold writes_model, gw_elgamal_Ciphertext_WriteTo, env_elgamal. reflexivity. Qed.

Lemma w_sch c : writes_model (HSchCommitment c) (env_sch c) gw_sch_Commitment_WriteTo.
Proof. unfold writes_model, gw_sch_Commitment_WriteTo, env_sch. reflexivity. Qed.

Lemma pedersen_run n s t :
  writer_result xof (env_pedersen n s t) gw_pedersen_Parameters_WriteTo = Some (pedersen_data_opt n s t).
Proof.
  unfold gw_pedersen_Parameters_WriteTo, env_pedersen, pedersen_data_opt. wrun.
  rewrite !size_le_shiftr.
  destruct (lt_pow2 n 2048); cbn [negb andb]; [|reflexivity].
  destruct (lt_pow2 s 2048); cbn [negb andb]; [|reflexivity].
  destruct (lt_pow2 t 2048); cbn [negb andb]; [|reflexivity].
  wstep. rewrite !be_bytes_length. unfold pedersen_data. rewrite <- !app_assoc. reflexivity.
Qed.

Lemma w_pedersen n s t : writes_model (HPedersen n s t) (env_pedersen n s t) gw_pedersen_Parameters_WriteTo.
Proof.
  unfold writes_model. rewrite pedersen_run. cbn [enc_hval]. destruct (pedersen_data_opt n s t); reflexivity.
Qed.

(* ------------------------------------------------------------------ polynomial.Exponent: MarshalBinary, then WriteTo *)

Lemma n_nat_to_nat n : n_nat n = N.to_nat n.
Proof.
  destruct n as [|p]; [reflexivity|]. cbn [n_nat N.to_nat].
  induction p as [p IH|p IH|]; cbn [pos_nat].
  - rewrite IH, Pos2Nat.inj_xI. lia.
  - rewrite IH, Pos2Nat.inj_xO. lia.
  - reflexivity.
Qed.

Lemma copy_make (n : N) (data : bytes) :
  match put_int 4 (repeat 0 (n_nat (4 + len data))) n with
  | Some b => copy_at b 4 data
  | None => None
  end = Some (be_bytes 4 n ++ data).
Proof.
  rewrite n_nat_to_nat. unfold len. rewrite N2Nat.inj_add, Nat2N.id. change (N.to_nat 4) with 4%nat.
  unfold put_int. cbn [repeat Nat.add Nat.leb length skipn]. unfold copy_at.
  pose proof (be_bytes_length 4 n) as Hh. set (hd := be_bytes 4 n) in *. clearbody hd.
  unfold bytes, byte in *.
  destruct hd as [|a [|b [|c [|d [|x hd]]]]]; try discriminate Hh. clear Hh.
  cbn [app length Nat.leb Nat.add Nat.sub firstn skipn]. rewrite repeat_length, Nat.sub_0_r, firstn_all.
  rewrite skipn_all2 by (rewrite repeat_length; lia). rewrite app_nil_r. reflexivity.
Qed.

Lemma point_bytes_len p : len (point_bytes p) = 33.
Proof. unfold len, point_bytes. cbn [length]. rewrite be_bytes_length. reflexivity. Qed.

Lemma exponent_marshal c co :
  marshal_result xof (env_exponent_marshal c co) gw_polynomial_Exponent_MarshalBinary = Some (Some (exponent_data c co)).
Proof.
  unfold gw_polynomial_Exponent_MarshalBinary, env_exponent_marshal.
  destruct co as [l|]; wrun;
    (match goal with |- context [put_int 4 (repeat 0 (n_nat (4 + len ?d))) ?n] => pose proof (copy_make n d) as C end);
    (destruct (put_int 4 _ _) as [b|]; [|discriminate]); cbn beta iota in C; wstep; rewrite C; wstep;
    unfold exponent_data; rewrite ?app_nil_r.
  - replace (flat_map (fun p => cbor_head 2 (len (point_bytes p)) ++ point_bytes p) l) with (flat_map exponent_coeff_bytes l)
      by (apply flat_map_ext; intro p; rewrite point_bytes_len; reflexivity).
    reflexivity.
  - reflexivity.
Qed.

Lemma w_exponent c co : writes_model (HExponent c co) (env_exponent xof c co) gw_polynomial_Exponent_WriteTo.
Proof.
  unfold writes_model, gw_polynomial_Exponent_WriteTo, env_exponent. rewrite exponent_marshal. reflexivity.
Qed.

(* ------------------------------------------------------------------ cmp config.Public *)

Lemma public_run p : writer_result xof (env_public xof p) gw_config_Public_WriteTo = Some (public_data p).
Proof.
  unfold gw_config_Public_WriteTo, env_public, public_data.
  rewrite pedersen_run, (w_paillierpk (cp_paillier p)). cbn [enc_hval option_map dat]. wrun.
  destruct (pedersen_data_opt _ _ _) as [pd|]; wstep; [|reflexivity].
  rewrite <- !app_assoc. reflexivity.
Qed.

Lemma w_public o : writes_model (HCmpPublic o) (env_public_opt xof o) gw_config_Public_WriteTo.
Proof.
  unfold writes_model. destruct o as [p|]; cbn [env_public_opt enc_hval].
  - rewrite public_run. destruct (public_data p); reflexivity.
  - reflexivity.
Qed.

(* ------------------------------------------------------------------ party.IDSlice: count, then every id behind its length *)

(* rewrite with a lemma about a loop, up to conversion of the loop term (implicit type arguments bytes / list N differ) *)
Ltac rew_loop L :=
  match type of L with
  | ?lhs = _ => match goal with |- context [loop ?f ?its ?s ?e] => change (loop f its s e) with lhs end; rewrite L
  | is_err ?lhs = true =>
      match goal with |- context [loop ?f ?its ?s ?e] => change (loop f its s e) with lhs end;
      destruct lhs; try discriminate L
  end.
Ltac fold_for body := match goal with |- context [WFor _ _ ?b] => change b with body end.

Definition idslice_body : list wop :=
  Eval cbv [first_for gw_party_IDSlice_WriteTo] in first_for gw_party_IDSlice_WriteTo.

Lemma idslice_loop en : forall l (acc : bytes),
  loop (fun it s' e' => blk step1 (it ++ en) idslice_body s' e') (idslice_iters l) [("w", acc)] false
  = Next [("w", acc ++ flat_map (fun id => be64 (len id) ++ id) l)] false.
Proof.
  induction l as [|id l IH]; intro acc; cbn [idslice_iters map loop flat_map].
  - rewrite app_nil_r. reflexivity.
  - unfold idslice_body at 1. wstep. fold (idslice_iters l). rewrite IH. rewrite <- !app_assoc. reflexivity.
Qed.

Lemma idslice_run o : writer_result xof (env_idslice o) gw_party_IDSlice_WriteTo = Some (option_map idslice_data o).
Proof.
  unfold gw_party_IDSlice_WriteTo, env_idslice. fold_for idslice_body. destruct o as [l|]; [|reflexivity].
  wrun. rewrite idslice_loop. wstep. unfold idslice_iters. rewrite map_length. reflexivity.
Qed.

Lemma w_idslice o : writes_model (HIDSlice o) (env_idslice o) gw_party_IDSlice_WriteTo.
Proof. unfold writes_model. rewrite idslice_run. destruct o; reflexivity. Qed.

(* ------------------------------------------------------------------ cmp config.Config *)

Definition config_body : list wop :=
  Eval cbv [first_for gw_config_Config_WriteTo] in first_for gw_config_Config_WriteTo.

Lemma config_loop en : forall es (acc : bytes),
  match publics_data es with
  | Some pubs => loop (fun it s' e' => blk step1 (it ++ en) config_body s' e') (config_iters xof es) [("w", acc)] false
                 = Next [("w", acc ++ pubs)] false
  | None => is_err (loop (fun it s' e' => blk step1 (it ++ en) config_body s' e') (config_iters xof es) [("w", acc)] false) = true
  end.
Proof.
  induction es as [|e es IH]; intro acc; cbn [config_iters map loop publics_data].
  - rewrite app_nil_r. reflexivity.
  - rewrite public_run. fold (config_iters xof es).
    destruct (public_data (snd e)) as [d|].
    + unfold config_body at 1. wstep. specialize (IH (acc ++ d)).
      destruct (publics_data es) as [r|].
      * unfold config_body in *. wstep. rewrite IH, app_assoc. reflexivity.
      * unfold config_body in *. wstep. exact IH.
    + unfold config_body. wstep. destruct (publics_data es); reflexivity.
Qed.

Lemma threshold_run t : writer_result xof (env_threshold t) gw_types_ThresholdWrapper_WriteTo = Some (Some (be32 t)).
Proof. exact (w_threshold t). Qed.
Lemma rid_run o : writer_result xof (env_rid o) gw_types_RID_WriteTo = Some o.
Proof. pose proof (w_rid o) as R. unfold writes_model in R. rewrite R. destruct o; reflexivity. Qed.

Lemma config_run c : writer_result xof (env_config xof c) gw_config_Config_WriteTo = Some (config_data c).
Proof.
  unfold gw_config_Config_WriteTo, env_config, config_data. fold_for config_body.
  rewrite threshold_run, idslice_run, rid_run. cbn [option_map].
  destruct (cc_rid c) as [rid|]; [|reflexivity].
  wrun.
  match goal with |- context [loop (fun it s' e' => blk _ (it ++ ?en) config_body s' e') (config_iters xof ?es) [("w", ?acc)] false] =>
    pose proof (config_loop en es acc) as L end.
  destruct (publics_data (sort_entries (cc_public c))) as [pubs|].
  - rew_loop L. wstep. rewrite <- !app_assoc. reflexivity.
  - rew_loop L. reflexivity.
Qed.

Lemma w_config o : writes_model (HCmpConfig o) (env_config_opt xof o) gw_config_Config_WriteTo.
Proof.
  unfold writes_model. destruct o as [c|]; cbn [env_config_opt enc_hval].
  - rewrite config_run. destruct (config_data c); reflexivity.
  - reflexivity.
Qed.

(* ------------------------------------------------------------------ every kind with a WriteTo: bytes and domain *)

Ltac dom_case :=
  unfold enc_hval, opt_item;
  repeat match goal with |- context [match ?x with _ => _ end] =>
           lazymatch x with context [match _ with _ => _ end] => fail | _ => destruct x end end;
  first [reflexivity | exact I].

Theorem writer_kinds v en wp dp :
  hval_writer xof v = Some (en, wp, dp) ->
  writer_result xof en wp = Some (option_map dat (enc_hval v)) /\
  match enc_hval v with Some i => domain_result xof en dp = Some (dom i) | None => True end.
Proof.
  destruct v; cbn [hval_writer]; intro Hw; try discriminate Hw; injection Hw as <- <- <-;
    (split; [|timeout 20 dom_case]).
  - apply w_id.
  - apply w_idslice.
  - apply w_rid.
  - apply w_commitment.
  - apply w_decommitment.
  - apply w_threshold.
  - apply w_round.
  - apply w_sigmsg.
  - apply w_withdomain.
  - apply w_ciphertext.
  - apply w_paillierpk.
  - apply w_pedersen.
  - apply w_exponent.
  - apply w_elgamal.
  - apply w_sch.
  - apply w_msghash.
  - apply w_public.
  - apply w_config.
Qed.

(* ------------------------------------------------------------------ hash.WriteAny: type switch and frame *)

Definition any_body : list wop :=
  Eval cbv [first_for gw_hash_WriteAny] in first_for gw_hash_WriteAny.

(* the store of WriteAny inside its loop: hasher state, sizeBuf, the two fields of toBeWritten *)
Definition any_store (st sb td tb : bytes) : store :=
  [("hash.h", st); ("sizeBuf", sb); ("toBeWritten.TheDomain", td); ("toBeWritten.Bytes", tb)].

(* one iteration on the interface value d: the frame of item i is appended / an error is returned with the state as it was *)
Definition any_iter_spec (en : env) (d : cval) (st sb td tb : bytes) (oi : option item) : Prop :=
  match oi with
  | Some i => blk step1 ([("d", d)] ++ en) any_body (any_store st sb td tb) false
              = Next (any_store (st ++ frame i) (be64 (len (dat i))) (dom i) (dat i)) false
  | None => exists s', blk step1 ([("d", d)] ++ en) any_body (any_store st sb td tb) false = Err s'
                       /\ sget s' "hash.h" = Some st
  end.

Ltac eight sb H :=
  destruct sb as [|? [|? [|? [|? [|? [|? [|? [|? [|? ?]]]]]]]]]; try discriminate H; clear H.

Ltac frame_eq := unfold any_store, frame; cbn [dom dat]; rewrite ?app_nil_r, <- ?app_assoc; reflexivity.

Lemma put_int_be8 x n : put_int 8 (be_bytes 8 x ++ []) n = Some (be_bytes 8 n ++ []).
Proof.
  unfold put_int. rewrite app_nil_r. pose proof (be_bytes_length 8 x) as L. set (h := be_bytes 8 x) in *. clearbody h.
  unfold bytes, byte in *. rewrite L. cbn [Nat.leb]. rewrite skipn_all2 by lia. reflexivity.
Qed.

(* one iteration: the switch and the first length are computed, the second PutUint64 needs the length of sizeBuf *)
Ltac any_run := unfold blk at 1; wstep; rewrite ?put_int_be8; wstep.

Lemma any_writer en mb (r : option bytes) (dm : cval) (d : bytes) st sb td tb :
  length sb = 8%nat -> (r <> None -> dm = VBytes d) ->
  any_iter_spec en (writer_dyn mb (VRes r) dm) st sb td tb (option_map (mkItem d) r).
Proof.
  intros H8 Hd. eight sb H8. unfold any_iter_spec, any_store, writer_dyn, any_body.
  destruct r as [rb|]; cbn [option_map].
  - rewrite Hd by discriminate. destruct mb; any_run; frame_eq.
  - destruct mb; any_run; eexists; split; reflexivity.
Qed.

Lemma any_marshaler en tn (b : bytes) st sb td tb :
  length sb = 8%nat ->
  any_iter_spec en (marshaler_dyn tn b) st sb td tb (Some (mkItem (str tn) b)).
Proof.
  intros H8. eight sb H8. unfold any_iter_spec, any_store, marshaler_dyn, any_body.
  any_run. frame_eq.
Qed.

Lemma any_bytes en (o : option bytes) st sb td tb :
  length sb = 8%nat ->
  any_iter_spec en (VDyn ["[]byte"] (opt_bytes o) []) st sb td tb (option_map (mkItem (str "[]byte")) o).
Proof.
  intros H8. eight sb H8. unfold any_iter_spec, any_store, any_body.
  destruct o as [ob|]; cbn [option_map opt_bytes]; any_run.
  - frame_eq.
  - eexists; split; reflexivity.
Qed.

Lemma any_bigint en z st sb td tb :
  length sb = 8%nat ->
  any_iter_spec en (VDyn ["*big.Int"] (VBig z) []) st sb td tb (Some (mkItem (str "big.Int") (gob_bigint z))).
Proof.
  intros H8. eight sb H8. unfold any_iter_spec, any_store, any_body.
  any_run. frame_eq.
Qed.

Lemma dyn_of_writer v en wp dp :
  hval_writer xof v = Some (en, wp, dp) ->
  dyn_of xof v = writer_dyn (also_marshals v) (res_of (writer_result xof en wp)) (dom_of (domain_result xof en dp)).
Proof. destruct v; cbn [hval_writer]; intro Hw; try discriminate Hw; injection Hw as <- <- <-; reflexivity. Qed.

Lemma item_eta (i : item) : mkItem (dom i) (dat i) = i.
Proof. destruct i; reflexivity. Qed.

(* the translated WriteAny, on one value of ANY kind, appends the model's frame of the model's item *)
Lemma any_iter en v st sb td tb :
  length sb = 8%nat -> any_iter_spec en (dyn_of xof v) st sb td tb (enc_hval v).
Proof.
  intro H8. destruct (hval_writer xof v) as [[[en' wp] dp]|] eqn:Hw.
  - rewrite (dyn_of_writer _ _ _ _ Hw). destruct (writer_kinds _ _ _ _ Hw) as [W D]. rewrite W. cbn [res_of].
    destruct (enc_hval v) as [i|]; cbn [option_map].
    + rewrite D. cbn [dom_of]. rewrite <- (item_eta i) at 3.
      apply (any_writer en _ (Some (dat i)) _ (dom i)); [assumption|reflexivity].
    + apply (any_writer en _ None _ []); [assumption|]. intro C. now elim C.
  - destruct v; try discriminate Hw; cbn [dyn_of enc_hval].
    + apply any_bytes; assumption.
    + apply any_bigint; assumption.
    + apply (any_marshaler en "*saferith.Nat"); assumption.
    + apply (any_marshaler en "*saferith.Int"); assumption.
    + apply (any_marshaler en "*saferith.Modulus"); assumption.
    + apply (any_marshaler en "*curve.Secp256k1Scalar"); assumption.
    + apply (any_marshaler en "*curve.Secp256k1Point"); assumption.
Qed.

Ltac fold_loop T := match goal with |- context [loop ?f ?its ?s ?e] => change (loop f its s e) with T end.

Lemma any_loop en : forall vs st sb td tb,
  length sb = 8%nat ->
  match write_any st vs with
  | (st', true) => exists sb' td' tb',
      loop (fun it s' e' => blk step1 (it ++ en) any_body s' e') (any_iters (map (dyn_of xof) vs)) (any_store st sb td tb) false
      = Next (any_store st' sb' td' tb') false
  | (st', false) => exists s',
      loop (fun it s' e' => blk step1 (it ++ en) any_body s' e') (any_iters (map (dyn_of xof) vs)) (any_store st sb td tb) false
      = Err s' /\ sget s' "hash.h" = Some st'
  end.
Proof.
  induction vs as [|v vs IH]; intros st sb td tb H8; cbn [write_any map any_iters loop].
  - do 3 eexists. reflexivity.
  - fold (any_iters (map (dyn_of xof) vs)). pose proof (any_iter en v st sb td tb H8) as I. unfold any_iter_spec in I.
    destruct (enc_hval v) as [i|].
    + rewrite I. apply IH. unfold be64. apply be_bytes_length.
    + destruct I as [s' [I1 I2]]. rewrite I1. exists s'. split; [reflexivity|assumption].
Qed.

(* THE theorem about WriteAny: on the interface values of any list of model values, the translated function leaves the
   hasher with exactly the model's stream, and returns nil exactly when the model writes every value *)
Theorem writeany_items vs st :
  writeany_run xof gw_hash_WriteAny st (map (dyn_of xof) vs) = Some (write_any st vs).
Proof.
  unfold gw_hash_WriteAny. fold_for any_body. wrun.
  match goal with |- context [loop (fun it s' e' => blk _ (it ++ ?en) any_body s' e') _ _ false] =>
    pose proof (any_loop en vs st (repeat 0 8) [] [] eq_refl) as L end.
  destruct (write_any st vs) as [st' [|]].
  - destruct L as [sb' [td' [tb' L]]].
    match type of L with ?lhs = _ => fold_loop lhs end. rewrite L. reflexivity.
  - destruct L as [s' [L1 L2]].
    match type of L1 with ?lhs = _ => fold_loop lhs end. rewrite L1. wstep. rewrite L2. reflexivity.
Qed.

Corollary writeany_one v st :
  writeany_run xof gw_hash_WriteAny st [dyn_of xof v] =
  Some (match enc_hval v with Some i => (st ++ frame i, true) | None => (st, false) end).
Proof.
  change [dyn_of xof v] with (map (dyn_of xof) [v]). rewrite (writeany_items [v] st). cbn [write_any].
  destruct (enc_hval v); reflexivity.
Qed.

(* the frame alone: any value whose WriteTo yields b and whose Domain() is d is absorbed as frame (d, b) *)
Theorem writeany_frame mb (b d st : bytes) :
  writeany_run xof gw_hash_WriteAny st [writer_dyn mb (VRes (Some b)) (VBytes d)] = Some (st ++ frame (mkItem d b), true).
Proof.
  unfold gw_hash_WriteAny. fold_for any_body. wrun. cbn [any_iters map loop].
  pose proof (any_writer [("data", VIter (any_iters [writer_dyn mb (VRes (Some b)) (VBytes d)]))] mb (Some b) (VBytes d) d st (repeat 0 8) [] [] eq_refl (fun _ => eq_refl)) as I.
  unfold any_iter_spec in I. cbn [option_map] in I.
  match type of I with ?lhs = _ =>
    match goal with |- context [blk ?a ?b' ?c ?d' ?e'] => change (blk a b' c d' e') with lhs end end.
  rewrite I. reflexivity.
Qed.

(* ------------------------------------------------------------------ Sum, Digest, Clone *)

Theorem sum_is_digest64 st : sum_run xof gw_hash_Sum st = Some (H64 xof st).
Proof. reflexivity. Qed.

Theorem digest_program st :
  exec1 xof [] gw_hash_Digest [("hash.h", st)] false = Ret [("hash.h", st)] (RDigest st).
Proof. reflexivity. Qed.

Theorem clone_program st :
  exec1 xof [] gw_hash_Clone [("hash.h", st)] false = Ret [("hash.h", st); ("return.h", st)] (RHash st).
Proof. reflexivity. Qed.

(* ------------------------------------------------------------------ second level: Fork, New, Commit, Decommit *)

Notation step2 := (exec_op xof (writeany_run xof gw_hash_WriteAny) (sum_run xof gw_hash_Sum) (local_dyn xof)).
Ltac wrun2 := unfold exec2, exec; wstep.

Lemma dyn_is_dyn v : exists tys self ms, dyn_of xof v = VDyn tys self ms.
Proof. destruct v; cbn [dyn_of hval_writer writer_dyn marshaler_dyn]; do 3 eexists; reflexivity. Qed.

(* what one value adds to the state when the error of WriteAny is ignored *)
Definition absorb (st : bytes) (v : hval) : bytes :=
  match enc_hval v with Some i => st ++ frame i | None => st end.

Theorem fork_program vs st :
  exec2 xof (env_fork xof vs) gw_hash_Fork [("hash.h", st)] false
  = Ret [("hash.h", st); ("newHash.h", fst (write_any st vs))] (RHash (fst (write_any st vs))).
Proof.
  unfold gw_hash_Fork, env_fork. wrun2. rewrite writeany_items. destruct (write_any st vs) as [st' ok]. reflexivity.
Qed.

Definition new_body : list wop := Eval cbv [first_for gw_hash_New] in first_for gw_hash_New.

Lemma new_loop en : forall vs (st : bytes),
  loop (fun it s' e' => blk step2 (it ++ en) new_body s' e') (item_iters xof "d" vs) [("hash.h", st)] false
  = Next [("hash.h", fold_left absorb vs st)] false.
Proof.
  induction vs as [|v vs IH]; intro st; cbn [item_iters map loop fold_left]; [reflexivity|].
  fold (item_iters xof "d" vs). destruct (dyn_is_dyn v) as [tys [self [ms D]]].
  unfold new_body at 1. wstep. rewrite D. unfold blk at 1. wstep. rewrite <- D, writeany_one. unfold absorb at 2.
  destruct (enc_hval v); wstep; apply IH.
Qed.

(* hash.New(initialData...): "CMP-BLAKE", then every value that can be written (the error of each WriteAny is dropped) *)
Theorem new_program vs :
  exec2 xof (env_new xof vs) gw_hash_New [] false
  = Ret [("hash.h", fold_left absorb vs init_state)] (RHash (fold_left absorb vs init_state)).
Proof.
  unfold gw_hash_New, env_new, items_iter. fold_for new_body. wrun2.
  match goal with |- context [loop (fun it s' e' => blk _ (it ++ ?en) new_body s' e') _ [(_, ?st)] false] =>
    pose proof (new_loop en vs st) as L end.
  rew_loop L. reflexivity.
Qed.

Definition commit_body : list wop := Eval cbv [first_for gw_hash_Commit] in first_for gw_hash_Commit.
Definition decommit_body : list wop := Eval cbv [first_for gw_hash_Decommit] in first_for gw_hash_Decommit.

(* the loop `for _, item := range data { if err = h.WriteAny(item); err != nil { return .. } }` against write_any *)
Definition loop_spec (r : res) (mk : bytes -> store) (w : bytes * bool) : Prop :=
  match w with
  | (st', true) => r = Next (mk st') false
  | (_, false) => is_err r = true
  end.

Lemma commit_loop en : forall vs (st0 d st : bytes),
  loop_spec (loop (fun it s' e' => blk step2 (it ++ en) commit_body s' e') (item_iters xof "item" vs)
                  [("hash.h", st0); ("decommitment", d); ("h.h", st)] false)
            (fun st' => [("hash.h", st0); ("decommitment", d); ("h.h", st')]) (write_any st vs).
Proof.
  induction vs as [|v vs IH]; intros st0 d st; cbn [item_iters map loop write_any]; [reflexivity|].
  fold (item_iters xof "item" vs). destruct (dyn_is_dyn v) as [tys [self [ms D]]].
  unfold commit_body at 1. wstep. rewrite D. unfold blk at 1. wstep. rewrite <- D, writeany_one.
  destruct (enc_hval v); wstep; [apply IH|reflexivity].
Qed.

Lemma decommit_loop en : forall vs (st0 st : bytes),
  loop_spec (loop (fun it s' e' => blk step2 (it ++ en) decommit_body s' e') (item_iters xof "item" vs)
                  [("hash.h", st0); ("h.h", st)] false)
            (fun st' => [("hash.h", st0); ("h.h", st')]) (write_any st vs).
Proof.
  induction vs as [|v vs IH]; intros st0 st; cbn [item_iters map loop write_any]; [reflexivity|].
  fold (item_iters xof "item" vs). destruct (dyn_is_dyn v) as [tys [self [ms D]]].
  unfold decommit_body at 1. wstep. rewrite D. unfold blk at 1. wstep. rewrite <- D, writeany_one.
  destruct (enc_hval v); wstep; [apply IH|reflexivity].
Qed.

Ltac use_loop L :=
  match type of L with loop_spec ?lhs _ _ =>
    match goal with |- context [loop ?f ?its ?s ?e] => change (loop f its s e) with lhs end end.

(* Commit: with r = the 32 bytes that rand.Read delivers, the function returns (H(input), r) where input is the model's
   commit_input -- the state, every value framed, the decommitment framed -- or an error when a value cannot be written *)
Theorem commit_program vs st (r : bytes) :
  length r = 32%nat ->
  result_of (exec2 xof (env_commit xof vs r) gw_hash_Commit [("hash.h", st)] false)
  = Some (option_map (fun inp => RBytes [H64 xof inp; r]) (commit_input st vs r)).
Proof.
  intro Hr. unfold gw_hash_Commit, env_commit, items_iter, commit_input. fold_for commit_body. wrun2.
  rewrite Hr. wstep.
  match goal with |- context [loop (fun it s' e' => blk _ (it ++ ?en) commit_body s' e') _ [("hash.h", ?a); ("decommitment", ?b); ("h.h", ?c)] false] =>
    pose proof (commit_loop en vs a b c) as L end.
  use_loop L. destruct (write_any st vs) as [st' [|]]; unfold loop_spec in L.
  - rewrite L. wstep. change (local_dyn xof "pkg/hash.Decommitment" r) with (Some (dyn_of xof (HDecommitment (Some r)))).
    wstep. rewrite writeany_one. cbn [enc_hval opt_item]. wstep. reflexivity.
  - match type of L with is_err ?x = true => destruct x; try discriminate L end. reflexivity.
Qed.

(* Decommit: the boolean the function returns is the model's decommit for the digest function H64 *)
Theorem decommit_program vs st (c d : bytes) :
  bool_result (exec2 xof (env_decommit xof c d vs) gw_hash_Decommit [("hash.h", st)] false)
  = Some (decommit (H64 xof) st c d vs).
Proof.
  destruct (dyn_is_dyn (HDecommitment (Some d))) as [tys [self [ms D]]].
  unfold gw_hash_Decommit, env_decommit, items_iter, decommit, commit_input. rewrite D. fold_for decommit_body. wrun2.
  destruct (commitment_valid c); wstep; [|reflexivity].
  destruct (decommitment_valid d); wstep; [|reflexivity].
  match goal with |- context [loop (fun it s' e' => blk _ (it ++ ?en) decommit_body s' e') _ [("hash.h", ?a); ("h.h", ?b)] false] =>
    pose proof (decommit_loop en vs a b) as L end.
  use_loop L. destruct (write_any st vs) as [st' [|]]; unfold loop_spec in L.
  - rewrite L. wstep. rewrite <- D, writeany_one. cbn [enc_hval opt_item]. wstep. reflexivity.
  - match type of L with is_err ?x = true => destruct x; try discriminate L end. reflexivity.
Qed.

(* ------------------------------------------------------------------ coverage: the source's writers and the model's kinds *)

(* one value per kind of Model/Framing.v that has a WriteTo *)
Definition kind_reps : list hval :=
  [HID []; HIDSlice None; HRID None; HCommitment None; HDecommitment None; HThreshold 0; HRound 0; HSigMsg None;
   HWithDomain [] None; HCiphertext 0; HPaillierPK 0; HPedersen 0 0 0; HExponent false None;
   HElGamal (0, false) (0, false); HSchCommitment (0, false); HMessageHash None; HCmpPublic None; HCmpConfig None].

Definition has_writer (k : string) : bool := existsb (fun e => String.eqb (fst e) k) go_writers.

(* every type of the tree with a WriteTo(io.Writer) is a kind of the model ... *)
Lemma writer_types_modelled :
  forallb (fun t => existsb (fun v => match hval_go_type v with Some t' => String.eqb t t' | None => false end) kind_reps)
          go_writer_types = true.
Proof. vm_compute. reflexivity. Qed.

(* ... has a Domain() too, and both are translated; so is every Domain() of Generated/Domains.v *)
Lemma writer_types_translated :
  forallb (fun t => has_writer (String.append t ".WriteTo") && has_writer (String.append t ".Domain")) go_writer_types = true
  /\ forallb (fun d => match d with (dir, ty, _) =>
                 has_writer (String.append dir (String.append "." (String.append ty ".WriteTo")))
                 && has_writer (String.append dir (String.append "." (String.append ty ".Domain"))) end) go_domains = true
  /\ go_writer_types = go_domain_types.
Proof. split; [|split]; vm_compute; reflexivity. Qed.

(* the programs that hval_writer runs for a kind are the ones translated from the WriteTo / Domain of its Go type *)
Lemma writer_programs_registered :
  Forall (fun v => match hval_go_type v, hval_writer xof v with
                   | Some ty, Some (_, wp, dp) =>
                       prog_of go_writers (String.append ty ".WriteTo") = Some wp
                       /\ prog_of go_writers (String.append ty ".Domain") = Some dp
                   | _, _ => False
                   end) kind_reps.
Proof.
  unfold kind_reps. repeat (apply Forall_cons; [|]); try apply Forall_nil;
    cbn [hval_go_type hval_writer]; (split; vm_compute; reflexivity).
Qed.

Lemma writers_lets_ok :
  gw_config_Config_WriteTo_lets = [("partyIDs", "c.PartyIDs()")]
  /\ forallb (fun l => match l with [] => true | _ => false end)
       [gw_hash_WriteAny_lets; gw_hash_Sum_lets; gw_hash_Clone_lets; gw_hash_Fork_lets; gw_hash_Commit_lets;
        gw_hash_Decommit_lets; gw_hash_New_lets; gw_party_IDSlice_WriteTo_lets; gw_config_Public_WriteTo_lets;
        gw_pedersen_Parameters_WriteTo_lets; gw_polynomial_Exponent_WriteTo_lets;
        gw_polynomial_Exponent_MarshalBinary_lets] = true.
Proof. split; reflexivity. Qed.

Lemma writers_all_translated : writers_untranslatable = [].
Proof. reflexivity. Qed.
End Writers.
