(* ChallengesProofs.v -- the Fiat-Shamir field lists, the session-tag items and the nonce inputs that /repo's source writes
   into its hashes (Generated/Challenges.v, transcribed by gen/gen_zk.go on every run) against the lists the MODEL hashes.

   pkg/zk/*: for every proof system X the model's transcript is
        X_challenge_items ... = map fld_hval (X_fields ...)            (Model/ZK.v; Model/DispatchZK.v op "zk.X.items")
   and X_fields is the list proved here to be what the Go `challenge` function passes to hash.WriteAny:
        go_zkX_challenge_fields :  collect (tbl_X args) go_zkX_challenge_writes = Some (X_fields args)
   where tbl_X is the table "source expression -> model field" (one row per distinct expression; a loop
   `for _, a := range A { hash.WriteAny(a) }` is one row carrying the list `map FBig As`), for ALL values of the arguments.
   [collect] looks every written expression up, in order, and concatenates: a field written twice in place of two fields,
   a dropped or added field, or a different order gives a different list of model fields (the arguments are universally
   quantified variables, so two different rows never produce equal fields) and the theorem fails.
        go_zkX_challenge_kinds  :  the DECLARED Go type of every written expression (struct field / parameter type, from
   source) has the hash encoding of the model field at that position (FCt for *paillier.Ciphertext, FP for curve.Point, ...).
        go_zkX_challenge_sampler:  what is drawn from the digest (sample.Scalar / IntervalScalar / IntervalL / ModN / StatParam
   bytes) is the derivation the model uses for that system (e_scalar / e_interval / e_modn / e_bits).
   Lemmas only; statements are restated in Properties/C10_gen.v.  (NewSession / HashForID / Doerner: Proofs/SessionFieldsProofs.v;
   FROST nonce: Proofs/NonceFieldsProofs.v.) *)
From Coq Require Import String List Bool NArith ZArith.
From MPS Require Import Model.Bytes Model.Framing Model.Paillier Model.ZK.
From MPS Require Import Generated.Challenges Proofs.FieldsBase.
Import ListNotations.
Local Open Scope string_scope.
Local Open Scope list_scope.

(* hash encodings of the model fields *)
Inductive fkind := KPed | KPk | KCt | KNat | KMod | KBig | KSc | KPt | KElg.
Definition fkind_eqb (a b : fkind) : bool :=
  match a, b with
  | KPed, KPed | KPk, KPk | KCt, KCt | KNat, KNat | KMod, KMod | KBig, KBig | KSc, KSc | KPt, KPt | KElg, KElg => true
  | _, _ => false
  end.
Definition fld_kind (f : fld) : fkind :=
  match f with
  | FPed _ _ _ => KPed | FPk _ => KPk | FCt _ => KCt | FNat _ _ => KNat | FMod _ => KMod | FBig _ => KBig
  | FSc _ => KSc | FPt _ _ => KPt | FElg _ _ _ _ => KElg
  end.
(* the Go type names as they are declared in the Public / Commitment structs and parameter lists *)
Definition kind_of_type (s : string) : option fkind :=
  if s =? "*pedersen.Parameters" then Some KPed
  else if s =? "*paillier.PublicKey" then Some KPk
  else if s =? "*paillier.Ciphertext" then Some KCt
  else if s =? "*saferith.Nat" then Some KNat
  else if s =? "*saferith.Modulus" then Some KMod
  else if s =? "*big.Int" then Some KBig
  else if s =? "curve.Scalar" then Some KSc
  else if s =? "curve.Point" then Some KPt
  else if s =? "elgamal.PublicKey" then Some KPt          (* type PublicKey = curve.Point *)
  else if s =? "*elgamal.Ciphertext" then Some KElg
  else None.

(* row by row: the declared type of the written expression encodes like every model field of its row *)
Fixpoint kinds_ok (t : list (string * list fld)) (ws tys : list string) : bool :=
  match ws, tys with
  | [], [] => true
  | w :: ws', ty :: tys' =>
      match wlookup t w, kind_of_type ty with
      | Some fs, Some k => forallb (fun f => fkind_eqb (fld_kind f) k) fs && kinds_ok t ws' tys'
      | _, _ => false
      end
  | _, _ => false
  end.

(* what is read from the digest *)
Inductive sampler := SScalar | SInterval | SBits | SModN.
Definition sampler_of_call (s : string) : option sampler :=
  if s =? "sample.Scalar(hash.Digest(), group)" then Some SScalar            (* e_scalar q   *)
  else if s =? "sample.IntervalScalar(hash.Digest(), group)" then Some SInterval   (* e_interval *)
  else if s =? "sample.IntervalL(hash.Digest())" then Some SInterval         (* e_interval *)
  else if s =? "io.ReadFull(hash.Digest(), tmpBytes)" then Some SBits        (* e_bits *)
  else if s =? "sample.ModN(digest, n)" then Some SModN                      (* e_modn *)
  else None.
(* the derivation the model (and the harness driving it) uses for each system: Model/ZK.v e_scalar / e_interval / e_bits / e_modn *)
Definition zk_model_sampler (sys : string) : option sampler :=
  if existsb (String.eqb sys) ["sch"; "log"; "elog"] then Some SScalar
  else if existsb (String.eqb sys) ["nth"; "enc"; "logstar"; "dec"; "mul"; "affg"; "affp"; "mulstar"; "encelg"; "fac"] then Some SInterval
  else if sys =? "prm" then Some SBits
  else if sys =? "mod" then Some SModN
  else None.


(* ---------------------------------------------------------------- the systems over the curve *)
Section Curve.
  Context {G : Type}.
  Variable pt_enc : G -> Z * bool.
  Notation FP := (FP pt_enc).
  Notation FE := (FE pt_enc).

  Lemma fld_kind_FP P : fld_kind (FP P) = KPt.
  Proof. unfold ZK.FP. destruct (pt_enc P). reflexivity. Qed.
  Lemma fld_kind_FE L M : fld_kind (FE L M) = KElg.
  Proof. unfold ZK.FE. destruct (pt_enc L), (pt_enc M). reflexivity. Qed.

  Ltac kinds_solve :=
    cbv -[ZK.FP ZK.FE fld_kind FNatN];
    rewrite ?fld_kind_FP, ?fld_kind_FE; reflexivity.

  (* sch: challenge(hash, group, commitment, public, gen) *)
  Definition tbl_sch (gen X C : G) : list (string * list fld) :=
    [ ("hash <- commitment.C", [FP C]); ("hash <- public", [FP X]); ("hash <- gen", [FP gen]) ].
  Lemma go_zksch_challenge_fields gen X C :
    collect (tbl_sch gen X C) go_zksch_challenge_writes = Some (sch_fields pt_enc gen X C).
  Proof. tbl_solve. Qed.
  Lemma go_zksch_challenge_kinds gen X C :
    kinds_ok (tbl_sch gen X C) go_zksch_challenge_writes go_zksch_challenge_write_types = true.
  Proof. kinds_solve. Qed.

  (* log *)
  Definition tbl_log (H X Y A B C : G) : list (string * list fld) :=
    [ ("hash <- public.H", [FP H]); ("hash <- public.X", [FP X]); ("hash <- public.Y", [FP Y]);
      ("hash <- commitment.A", [FP A]); ("hash <- commitment.B", [FP B]); ("hash <- commitment.C", [FP C]) ].
  Lemma go_zklog_challenge_fields H X Y A B C :
    collect (tbl_log H X Y A B C) go_zklog_challenge_writes = Some (log_fields pt_enc H X Y A B C).
  Proof. tbl_solve. Qed.
  Lemma go_zklog_challenge_kinds H X Y A B C :
    kinds_ok (tbl_log H X Y A B C) go_zklog_challenge_writes go_zklog_challenge_write_types = true.
  Proof. kinds_solve. Qed.

  (* elog: public.E = (L, M), public.ElGamalPublic = X, public.Base = H, commitment.N = Np *)
  Definition tbl_elog (L M X H Y A Np B : G) : list (string * list fld) :=
    [ ("hash <- public.E", [FE L M]); ("hash <- public.ElGamalPublic", [FP X]); ("hash <- public.Y", [FP Y]);
      ("hash <- public.Base", [FP H]);
      ("hash <- commitment.A", [FP A]); ("hash <- commitment.N", [FP Np]); ("hash <- commitment.B", [FP B]) ].
  Lemma go_zkelog_challenge_fields L M X H Y A Np B :
    collect (tbl_elog L M X H Y A Np B) go_zkelog_challenge_writes = Some (elog_fields pt_enc L M X H Y A Np B).
  Proof. tbl_solve. Qed.
  Lemma go_zkelog_challenge_kinds L M X H Y A Np B :
    kinds_ok (tbl_elog L M X H Y A Np B) go_zkelog_challenge_writes go_zkelog_challenge_write_types = true.
  Proof. kinds_solve. Qed.

  (* logstar: public.Aux = (nh, s, t), public.Prover = n0, public.G = Gb *)
  Definition tbl_logstar (nh s t n0 C : Z) (X Gb : G) (S A : Z) (Y : G) (D : Z) : list (string * list fld) :=
    [ ("hash <- public.Aux", [FPed nh s t]); ("hash <- public.Prover", [FPk n0]); ("hash <- public.C", [FCt C]);
      ("hash <- public.X", [FP X]); ("hash <- public.G", [FP Gb]);
      ("hash <- commitment.S", [FNatN nh S]); ("hash <- commitment.A", [FCt A]); ("hash <- commitment.Y", [FP Y]);
      ("hash <- commitment.D", [FNatN nh D]) ].
  Lemma go_zklogstar_challenge_fields nh s t n0 C X Gb S A Y D :
    collect (tbl_logstar nh s t n0 C X Gb S A Y D) go_zklogstar_challenge_writes
    = Some (logstar_fields pt_enc nh s t n0 C X Gb S A Y D).
  Proof. tbl_solve. Qed.
  Lemma go_zklogstar_challenge_kinds nh s t n0 C X Gb S A Y D :
    kinds_ok (tbl_logstar nh s t n0 C X Gb S A Y D) go_zklogstar_challenge_writes go_zklogstar_challenge_write_types = true.
  Proof. kinds_solve. Qed.

  (* affg: Prover = n1, Verifier = n0 *)
  Definition tbl_affg (nh s t n1 n0 Kv Dv Fp : Z) (Xp : G) (A : Z) (Bx : G) (By E S F T : Z) : list (string * list fld) :=
    [ ("hash <- public.Aux", [FPed nh s t]); ("hash <- public.Prover", [FPk n1]); ("hash <- public.Verifier", [FPk n0]);
      ("hash <- public.Kv", [FCt Kv]); ("hash <- public.Dv", [FCt Dv]); ("hash <- public.Fp", [FCt Fp]);
      ("hash <- public.Xp", [FP Xp]);
      ("hash <- commitment.A", [FCt A]); ("hash <- commitment.Bx", [FP Bx]); ("hash <- commitment.By", [FCt By]);
      ("hash <- commitment.E", [FNatN nh E]); ("hash <- commitment.S", [FNatN nh S]);
      ("hash <- commitment.F", [FNatN nh F]); ("hash <- commitment.T", [FNatN nh T]) ].
  Lemma go_zkaffg_challenge_fields nh s t n1 n0 Kv Dv Fp Xp A Bx By E S F T :
    collect (tbl_affg nh s t n1 n0 Kv Dv Fp Xp A Bx By E S F T) go_zkaffg_challenge_writes
    = Some (affg_fields pt_enc nh s t n1 n0 Kv Dv Fp Xp A Bx By E S F T).
  Proof. tbl_solve. Qed.
  Lemma go_zkaffg_challenge_kinds nh s t n1 n0 Kv Dv Fp Xp A Bx By E S F T :
    kinds_ok (tbl_affg nh s t n1 n0 Kv Dv Fp Xp A Bx By E S F T) go_zkaffg_challenge_writes go_zkaffg_challenge_write_types = true.
  Proof. kinds_solve. Qed.

  (* mulstar: Verifier = n0 *)
  Definition tbl_mulstar (nh s t n0 C D : Z) (X : G) (A : Z) (Bx : G) (E S : Z) : list (string * list fld) :=
    [ ("hash <- public.Aux", [FPed nh s t]); ("hash <- public.Verifier", [FPk n0]); ("hash <- public.C", [FCt C]);
      ("hash <- public.D", [FCt D]); ("hash <- public.X", [FP X]);
      ("hash <- commitment.A", [FCt A]); ("hash <- commitment.Bx", [FP Bx]);
      ("hash <- commitment.E", [FNatN nh E]); ("hash <- commitment.S", [FNatN nh S]) ].
  Lemma go_zkmulstar_challenge_fields nh s t n0 C D X A Bx E S :
    collect (tbl_mulstar nh s t n0 C D X A Bx E S) go_zkmulstar_challenge_writes
    = Some (mulstar_fields pt_enc nh s t n0 C D X A Bx E S).
  Proof. tbl_solve. Qed.
  Lemma go_zkmulstar_challenge_kinds nh s t n0 C D X A Bx E S :
    kinds_ok (tbl_mulstar nh s t n0 C D X A Bx E S) go_zkmulstar_challenge_writes go_zkmulstar_challenge_write_types = true.
  Proof. kinds_solve. Qed.

  (* encelg: commitment.Z = Zp *)
  Definition tbl_encelg (nh s t n0 C : Z) (A B X : G) (S D : Z) (Y Zp : G) (T : Z) : list (string * list fld) :=
    [ ("hash <- public.Aux", [FPed nh s t]); ("hash <- public.Prover", [FPk n0]); ("hash <- public.C", [FCt C]);
      ("hash <- public.A", [FP A]); ("hash <- public.B", [FP B]); ("hash <- public.X", [FP X]);
      ("hash <- commitment.S", [FNatN nh S]); ("hash <- commitment.D", [FCt D]); ("hash <- commitment.Y", [FP Y]);
      ("hash <- commitment.Z", [FP Zp]); ("hash <- commitment.T", [FNatN nh T]) ].
  Lemma go_zkencelg_challenge_fields nh s t n0 C A B X S D Y Zp T :
    collect (tbl_encelg nh s t n0 C A B X S D Y Zp T) go_zkencelg_challenge_writes
    = Some (encelg_fields pt_enc nh s t n0 C A B X S D Y Zp T).
  Proof. tbl_solve. Qed.
  Lemma go_zkencelg_challenge_kinds nh s t n0 C A B X S D Y Zp T :
    kinds_ok (tbl_encelg nh s t n0 C A B X S D Y Zp T) go_zkencelg_challenge_writes go_zkencelg_challenge_write_types = true.
  Proof. kinds_solve. Qed.
End Curve.

(* ---------------------------------------------------------------- the systems over integers only *)

Ltac kinds_solveZ := cbv -[nlen]; reflexivity.

(* dec: public.X and commitment.Gamma are curve.Scalar *)
Definition tbl_dec (nh s t n0 C X S T A Gamma : Z) : list (string * list fld) :=
  [ ("hash <- public.Aux", [FPed nh s t]); ("hash <- public.Prover", [FPk n0]); ("hash <- public.C", [FCt C]);
    ("hash <- public.X", [FSc X]);
    ("hash <- commitment.S", [FNatN nh S]); ("hash <- commitment.T", [FNatN nh T]); ("hash <- commitment.A", [FCt A]);
    ("hash <- commitment.Gamma", [FSc Gamma]) ].
Lemma go_zkdec_challenge_fields nh s t n0 C X S T A Gamma :
  collect (tbl_dec nh s t n0 C X S T A Gamma) go_zkdec_challenge_writes = Some (dec_fields nh s t n0 C X S T A Gamma).
Proof. tbl_solve. Qed.
Lemma go_zkdec_challenge_kinds nh s t n0 C X S T A Gamma :
  kinds_ok (tbl_dec nh s t n0 C X S T A Gamma) go_zkdec_challenge_writes go_zkdec_challenge_write_types = true.
Proof. kinds_solveZ. Qed.

(* nth: public.N is the Paillier key; R and A live modulo N^2 *)
Definition tbl_nth (n R A : Z) : list (string * list fld) :=
  [ ("hash <- public.N", [FPk n]); ("hash <- public.R", [FNatN (n * n) R]); ("hash <- commitment.A", [FNatN (n * n) A]) ].
Lemma go_zknth_challenge_fields n R A : collect (tbl_nth n R A) go_zknth_challenge_writes = Some (nth_fields n R A).
Proof. tbl_solve. Qed.
Lemma go_zknth_challenge_kinds n R A : kinds_ok (tbl_nth n R A) go_zknth_challenge_writes go_zknth_challenge_write_types = true.
Proof. kinds_solveZ. Qed.

(* enc *)
Definition tbl_enc (nh s t n0 K S A C : Z) : list (string * list fld) :=
  [ ("hash <- public.Aux", [FPed nh s t]); ("hash <- public.Prover", [FPk n0]); ("hash <- public.K", [FCt K]);
    ("hash <- commitment.S", [FNatN nh S]); ("hash <- commitment.A", [FCt A]); ("hash <- commitment.C", [FNatN nh C]) ].
Lemma go_zkenc_challenge_fields nh s t n0 K S A C :
  collect (tbl_enc nh s t n0 K S A C) go_zkenc_challenge_writes = Some (enc_fields nh s t n0 K S A C).
Proof. tbl_solve. Qed.
Lemma go_zkenc_challenge_kinds nh s t n0 K S A C :
  kinds_ok (tbl_enc nh s t n0 K S A C) go_zkenc_challenge_writes go_zkenc_challenge_write_types = true.
Proof. kinds_solveZ. Qed.

(* mul *)
Definition tbl_mul (n X Y C A B : Z) : list (string * list fld) :=
  [ ("hash <- public.Prover", [FPk n]); ("hash <- public.X", [FCt X]); ("hash <- public.Y", [FCt Y]);
    ("hash <- public.C", [FCt C]); ("hash <- commitment.A", [FCt A]); ("hash <- commitment.B", [FCt B]) ].
Lemma go_zkmul_challenge_fields n X Y C A B :
  collect (tbl_mul n X Y C A B) go_zkmul_challenge_writes = Some (mul_fields n X Y C A B).
Proof. tbl_solve. Qed.
Lemma go_zkmul_challenge_kinds n X Y C A B :
  kinds_ok (tbl_mul n X Y C A B) go_zkmul_challenge_writes go_zkmul_challenge_write_types = true.
Proof. kinds_solveZ. Qed.

(* affp: as affg, Xp and Bx are ciphertexts *)
Definition tbl_affp (nh s t n1 n0 Kv Dv Fp Xp A Bx By E S F T : Z) : list (string * list fld) :=
  [ ("hash <- public.Aux", [FPed nh s t]); ("hash <- public.Prover", [FPk n1]); ("hash <- public.Verifier", [FPk n0]);
    ("hash <- public.Kv", [FCt Kv]); ("hash <- public.Dv", [FCt Dv]); ("hash <- public.Fp", [FCt Fp]);
    ("hash <- public.Xp", [FCt Xp]);
    ("hash <- commitment.A", [FCt A]); ("hash <- commitment.Bx", [FCt Bx]); ("hash <- commitment.By", [FCt By]);
    ("hash <- commitment.E", [FNatN nh E]); ("hash <- commitment.S", [FNatN nh S]);
    ("hash <- commitment.F", [FNatN nh F]); ("hash <- commitment.T", [FNatN nh T]) ].
Lemma go_zkaffp_challenge_fields nh s t n1 n0 Kv Dv Fp Xp A Bx By E S F T :
  collect (tbl_affp nh s t n1 n0 Kv Dv Fp Xp A Bx By E S F T) go_zkaffp_challenge_writes
  = Some (affp_fields nh s t n1 n0 Kv Dv Fp Xp A Bx By E S F T).
Proof. tbl_solve. Qed.
Lemma go_zkaffp_challenge_kinds nh s t n1 n0 Kv Dv Fp Xp A Bx By E S F T :
  kinds_ok (tbl_affp nh s t n1 n0 Kv Dv Fp Xp A Bx By E S F T) go_zkaffp_challenge_writes go_zkaffp_challenge_write_types = true.
Proof. kinds_solveZ. Qed.

(* fac: public.N is a bare modulus; Proof.Sigma is NOT written (C10_fac_sigma_not_bound) *)
Definition tbl_fac (n0 nh s t P Q A B T : Z) : list (string * list fld) :=
  [ ("hash <- public.N", [FMod n0]); ("hash <- public.Aux", [FPed nh s t]);
    ("hash <- commitment.P", [FNatN nh P]); ("hash <- commitment.Q", [FNatN nh Q]); ("hash <- commitment.A", [FNatN nh A]);
    ("hash <- commitment.B", [FNatN nh B]); ("hash <- commitment.T", [FNatN nh T]) ].
Lemma go_zkfac_challenge_fields n0 nh s t P Q A B T :
  collect (tbl_fac n0 nh s t P Q A B T) go_zkfac_challenge_writes = Some (fac_fields n0 nh s t P Q A B T).
Proof. tbl_solve. Qed.
Lemma go_zkfac_challenge_kinds n0 nh s t P Q A B T :
  kinds_ok (tbl_fac n0 nh s t P Q A B T) go_zkfac_challenge_writes go_zkfac_challenge_write_types = true.
Proof. kinds_solveZ. Qed.

(* prm: the parameters, then every A[i] in index order *)
Definition tbl_prm (n s t : Z) (As : list Z) : list (string * list fld) :=
  [ ("hash <- public.Aux", [FPed n s t]); ("hash <- [for _, a := range A] a", map FBig As) ].
Lemma go_zkprm_challenge_fields n s t As : collect (tbl_prm n s t As) go_zkprm_challenge_writes = Some (prm_fields n s t As).
Proof. cbv [collect wlookup String.eqb Ascii.eqb Bool.eqb go_zkprm_challenge_writes tbl_prm prm_fields]. rewrite app_nil_r. reflexivity. Qed.
Lemma go_zkprm_challenge_kinds n s t As :
  kinds_ok (tbl_prm n s t As) go_zkprm_challenge_writes go_zkprm_challenge_write_types = true.
Proof.
  cbv [kinds_ok wlookup String.eqb Ascii.eqb Bool.eqb kind_of_type go_zkprm_challenge_writes go_zkprm_challenge_write_types tbl_prm].
  cbn [forallb fld_kind fkind_eqb andb].
  replace (forallb (fun f : fld => fkind_eqb (fld_kind f) KBig) (map FBig As)) with true; [reflexivity|].
  symmetry. apply forallb_forall. intros f Hin.
  apply in_map_iff in Hin. destruct Hin as [a [<- _]]. reflexivity.
Qed.

(* mod *)
Definition tbl_mod (n w : Z) : list (string * list fld) := [ ("hash <- n", [FMod n]); ("hash <- w", [FBig w]) ].
Lemma go_zkmod_challenge_fields n w : collect (tbl_mod n w) go_zkmod_challenge_writes = Some (mod_fields n w).
Proof. tbl_solve. Qed.
Lemma go_zkmod_challenge_kinds n w : kinds_ok (tbl_mod n w) go_zkmod_challenge_writes go_zkmod_challenge_write_types = true.
Proof. kinds_solveZ. Qed.

(* ---------------------------------------------------------------- all systems at once *)

(* the proof systems of the code are the 15 of the model *)
Lemma go_zk_systems_ok :
  go_zk_systems = ["affg"; "affp"; "dec"; "elog"; "enc"; "encelg"; "fac"; "log"; "logstar"; "mod"; "mul"; "mulstar"; "nth"; "prm"; "sch"].
Proof. reflexivity. Qed.

Definition go_zk_samples : list (string * list string) :=
  [ ("affg", go_zkaffg_challenge_samples); ("affp", go_zkaffp_challenge_samples); ("dec", go_zkdec_challenge_samples);
    ("elog", go_zkelog_challenge_samples); ("enc", go_zkenc_challenge_samples); ("encelg", go_zkencelg_challenge_samples);
    ("fac", go_zkfac_challenge_samples); ("log", go_zklog_challenge_samples); ("logstar", go_zklogstar_challenge_samples);
    ("mod", go_zkmod_challenge_samples); ("mul", go_zkmul_challenge_samples); ("mulstar", go_zkmulstar_challenge_samples);
    ("nth", go_zknth_challenge_samples); ("prm", go_zkprm_challenge_samples); ("sch", go_zksch_challenge_samples) ].

(* exactly one draw from the digest per challenge function, and it is the model's derivation for that system *)
Definition sampler_ok (e : string * list string) : bool :=
  match snd e, zk_model_sampler (fst e) with
  | [c], Some m => match sampler_of_call c with
                   | Some k => match k, m with
                               | SScalar, SScalar | SInterval, SInterval | SBits, SBits | SModN, SModN => true
                               | _, _ => false
                               end
                   | None => false
                   end
  | _, _ => false
  end.
Lemma go_zk_challenge_samplers : map fst go_zk_samples = go_zk_systems /\ forallb sampler_ok go_zk_samples = true.
Proof. split; vm_compute; reflexivity. Qed.

(* prover and verifier call challenge() with corresponding arguments: the verifier passes the commitment of the proof it checks *)
Definition go_zk_calls : list (string * list string) :=
  [ ("affg", go_zkaffg_challenge_calls); ("affp", go_zkaffp_challenge_calls); ("dec", go_zkdec_challenge_calls);
    ("elog", go_zkelog_challenge_calls); ("enc", go_zkenc_challenge_calls); ("encelg", go_zkencelg_challenge_calls);
    ("fac", go_zkfac_challenge_calls); ("log", go_zklog_challenge_calls); ("logstar", go_zklogstar_challenge_calls);
    ("mod", go_zkmod_challenge_calls); ("mul", go_zkmul_challenge_calls); ("mulstar", go_zkmulstar_challenge_calls);
    ("nth", go_zknth_challenge_calls); ("prm", go_zkprm_challenge_calls); ("sch", go_zksch_challenge_calls) ].
Lemma go_zk_challenge_calls_ok :
  go_zk_calls =
  [ ("affg", ["NewProof: challenge(hash, group, public, commitment)"; "(Proof).Verify: challenge(hash, p.group, public, p.Commitment)"]);
    ("affp", ["NewProof: challenge(hash, group, public, commitment)"; "(Proof).Verify: challenge(hash, group, public, p.Commitment)"]);
    ("dec", ["NewProof: challenge(hash, group, public, commitment)"; "(Proof).Verify: challenge(hash, p.group, public, p.Commitment)"]);
    ("elog", ["NewProof: challenge(hash, group, public, commitment)"; "(Proof).Verify: challenge(hash, p.group, public, p.Commitment)"]);
    ("enc", ["NewProof: challenge(hash, group, public, commitment)"; "(Proof).Verify: challenge(hash, group, public, p.Commitment)"]);
    ("encelg", ["NewProof: challenge(hash, group, public, commitment)"; "(Proof).Verify: challenge(hash, p.group, public, p.Commitment)"]);
    ("fac", ["NewProof: challenge(hash, public, comm)"; "(Proof).Verify: challenge(hash, public, p.Comm)"]);
    ("log", ["NewProof: challenge(hash, group, public, commitment)"; "(Proof).Verify: challenge(hash, p.group, public, p.Commitment)"]);
    ("logstar", ["NewProof: challenge(hash, group, public, commitment)"; "(Proof).Verify: challenge(hash, p.group, public, p.Commitment)"]);
    ("mod", ["NewProof: challenge(hash, n, w.Big())"; "(Proof).Verify: challenge(hash, nMod, p.W)"]);
    ("mul", ["NewProof: challenge(hash, group, public, commitment)"; "(Proof).Verify: challenge(hash, group, public, p.Commitment)"]);
    ("mulstar", ["NewProof: challenge(group, hash, public, commitment)"; "(Proof).Verify: challenge(group, hash, public, p.Commitment)"]);
    ("nth", ["NewProof: challenge(hash, public, commitment)"; "(Proof).Verify: challenge(hash, public, p.Commitment)"]);
    ("prm", ["NewProof: challenge(hash, public, As)"; "(Proof).Verify: challenge(hash, public, p.As)"]);
    ("sch", ["(Randomness).Prove: challenge(hash, group, &r.commitment, public, gen)"; "(Response).Verify: challenge(hash, z.group, commitment, public, gen)"]) ].
Proof. reflexivity. Qed.

(* every challenge function is "write everything, then draw": no statement between the writes and the draw touches the hash *)
Definition go_zk_bodies : list (list string) :=
  [ go_zkaffg_challenge_body; go_zkaffp_challenge_body; go_zkdec_challenge_body; go_zkelog_challenge_body; go_zkenc_challenge_body;
    go_zkencelg_challenge_body; go_zklog_challenge_body; go_zklogstar_challenge_body; go_zkmul_challenge_body;
    go_zkmulstar_challenge_body; go_zknth_challenge_body; go_zksch_challenge_body ].
Definition simple_body (b : list string) : bool :=
  match b with
  | [w; d; r] => prefix_b "err = hash.WriteAny(" w && (prefix_b "e = sample." d) && String.eqb r "return"
  | _ => false
  end.
Lemma go_zk_challenge_bodies_simple : forallb simple_body go_zk_bodies = true.
Proof. vm_compute. reflexivity. Qed.
Lemma go_zk_challenge_bodies_other :
  go_zkfac_challenge_body =
    [ "err := hash.WriteAny(public.N, public.Aux, commitment.P, commitment.Q, commitment.A, commitment.B, commitment.T)";
      "[if err != nil] return nil, err"; "return sample.IntervalL(hash.Digest()), nil" ] /\
  go_zkmod_challenge_body =
    [ "err = hash.WriteAny(n, w)"; "es = make([]*saferith.Nat, params.StatParam)"; "var digest = hash.Digest()";
      "[for i := range es] es[i] = sample.ModN(digest, n)"; "return" ] /\
  go_zkprm_challenge_body =
    [ "err = hash.WriteAny(public.Aux)"; "[for _, a := range A] _ = hash.WriteAny(a)";
      "tmpBytes := make([]byte, params.StatParam)"; "_, _ = io.ReadFull(hash.Digest(), tmpBytes)";
      "es = make([]bool, params.StatParam)"; "[for i := range es] b := (tmpBytes[i] & 1) == 1"; "[for i := range es] es[i] = b";
      "return" ].
Proof. repeat split; reflexivity. Qed.

