package main

// C05 -- no network input can crash, hang or exhaust an honest party.
//
// Search: for every protocol (xor, FROST keygen/sign(+taproot), Doerner keygen/sign, CMP keygen/sign/presign; thorough: also the
// refresh variants and CMP presign-online) an honest session is run deterministically; for every genuine message from a sender to
// the victim, in every reachable handler state (in order; p2p before the sender's broadcast; one round early), the payload is
// decoded into a generic CBOR tree and every field path is malformed (absent, null, wrong major type, empty, too short / long,
// hand-made heads announcing 2^32-1 / 2^62 elements, zero / negative / out-of-range numbers, nil entries, over- / undersized
// collections, duplicate keys, nested encodings), the header is malformed, or the payload is replaced by arbitrary bytes.  The
// message goes through CanAccept + Accept of the REAL handler (fresh, brought to the state by replaying the deterministic
// session) under recover, a 20 s hang watchdog and, because all of this runs in child processes with RLIMIT_AS, a memory guard.
// Outcome classes: ignored / continued / clean-abort are fine; PANIC, HANG, OOM (and a process crash) violate the property.
// Also: Unmarshal of stored key material and wire messages from malformed bytes, and direct calls of the hand-written decoders.
//
// Correspondence: for MultiHandler sessions the victim's API history up to and including the malformed message is replayed in
// the Coq handler model (op hnd.run): CanAccept verdict, ignored / queued / verified-now, abort with culprit, closed channel.

import (
	"bufio"
	"encoding/hex"
	"encoding/json"
	"fmt"
	"hash/fnv"
	"math/rand"
	"os"
	"os/exec"
	"path/filepath"
	"runtime"
	"runtime/debug"
	"sort"
	"strings"
	"sync"
	"syscall"
	"time"

	"github.com/taurusgroup/multi-party-sig/pkg/party"
	"github.com/taurusgroup/multi-party-sig/pkg/protocol"

	"verifharness/sx"
)

func init() { props["C05"] = runC05; props["C05CHILD"] = runC05Child }

const c05MemLimit = 1536 << 20 // address-space limit of a child process

type c05Job struct {
	Kind        string     `json:"kind"` // prep | session | clone | direct | one
	Spec        string     `json:"spec"`
	Victim      string     `json:"victim"`
	Sender      string     `json:"sender"`
	Tier        string     `json:"tier"`
	Seed        int64      `json:"seed"`
	Shard       int        `json:"shard"`
	Shards      int        `json:"shards"`
	Start       int        `json:"start"`
	Dir         string     `json:"dir"`
	Out         string     `json:"out"`
	PerIn       int        `json:"per_inorder"`
	PerOth      int        `json:"per_other"`
	Budget      int        `json:"budget_s"`
	Count       int        `json:"count"`
	OnlyMalf    string     `json:"only_malformation,omitempty"`
	Pick        bool       `json:"pick,omitempty"`
	SkipClasses []string   `json:"skip_classes,omitempty"`
	CoreAlways  bool       `json:"core_always,omitempty"`
	One         *c05Replay `json:"one,omitempty"`
	after       []int
	label       string
}

type c05Replay struct {
	Kind    string            `json:"kind"` // message | direct
	Spec    string            `json:"spec,omitempty"`
	Victim  string            `json:"victim,omitempty"`
	Sender  string            `json:"sender,omitempty"`
	Target  string            `json:"target_envelope,omitempty"`
	State   string            `json:"state,omitempty"`
	Hold    []string          `json:"held_envelopes,omitempty"`
	Mode    string            `json:"mode,omitempty"`
	Key     string            `json:"key"`
	MsgHex  string            `json:"message_cbor_hex,omitempty"`
	MsgNil  bool              `json:"message_nil,omitempty"`
	Extra   map[string]string `json:"extra_messages,omitempty"`
	Decoder string            `json:"decoder,omitempty"`
	Input   string            `json:"input_hex,omitempty"`
	Class   string            `json:"class,omitempty"`
	Where   string            `json:"where,omitempty"`
	Text    string            `json:"text,omitempty"`
	Stack   string            `json:"stack,omitempty"`
	Tier    string            `json:"tier,omitempty"`
	Seed    int64             `json:"seed,omitempty"`
}

type c05Line struct {
	Start *int        `json:"start,omitempty"` // position in the child's processing sequence
	I     int         `json:"ci,omitempty"`    // candidate index
	Key   string      `json:"k,omitempty"`
	In    string      `json:"in,omitempty"` // direct cases: the input (hex), so that a case that kills the child can be replayed
	Dec   string      `json:"dec,omitempty"`
	Out   *c05Outcome `json:"out,omitempty"`
	Note  string      `json:"note,omitempty"`
	Done  bool        `json:"done,omitempty"`
	Next  *int        `json:"restart_at,omitempty"`
	Total int         `json:"total,omitempty"`
	Calls int         `json:"model_calls,omitempty"`
}

// ---------------------------------------------------------------------------------------------
// child process

type c05Writer struct {
	f  *os.File
	mu sync.Mutex
}

func (w *c05Writer) line(l c05Line) {
	b, _ := json.Marshal(l)
	w.mu.Lock()
	w.f.Write(append(b, '\n'))
	w.mu.Unlock()
}

func c05SeedFor(seed int64, s string) int64 {
	h := fnv.New64a()
	h.Write([]byte(s))
	return seed*1000003 + int64(h.Sum64()&0x7fffffffffff)
}

func runC05Child(c *ctx) {
	var job c05Job
	if err := readJSON(c.replay, &job); err != nil {
		fmt.Fprintln(os.Stderr, "C05CHILD: cannot read job:", err)
		os.Exit(3)
	}
	f, err := os.OpenFile(job.Out, os.O_APPEND|os.O_CREATE|os.O_WRONLY, 0o644)
	if err != nil {
		fmt.Fprintln(os.Stderr, "C05CHILD:", err)
		os.Exit(3)
	}
	w := &c05Writer{f: f}
	// memory guard: an allocation beyond the limit kills this child ("fatal error: out of memory"), not the harness
	lim := syscall.Rlimit{Cur: c05MemLimit, Max: c05MemLimit}
	if err := syscall.Setrlimit(syscall.RLIMIT_AS, &lim); err != nil {
		w.line(c05Line{Note: "setrlimit failed: " + err.Error()})
	}
	debug.SetMemoryLimit(c05MemLimit * 3 / 4)
	debug.SetMaxStack(256 << 20)
	debug.SetGCPercent(50)
	env := &c05Env{rnd: c05InstallRand(), dir: job.Dir, tier: job.Tier}
	c.res.Case("child", "child", false)
	switch job.Kind {
	case "prep":
		c.c05ChildPrep(env, &job, w)
	case "session":
		c.c05ChildSession(env, &job, w)
	case "clone":
		c.c05ChildClone(env, &job, w)
	case "direct":
		c.c05ChildDirect(env, &job, w)
	case "one":
		c.c05ChildOne(env, &job, w)
	case "regen":
		c.c05ChildRegen(env, &job, w)
	default:
		w.line(c05Line{Note: "unknown job kind " + job.Kind})
	}
	w.line(c05Line{Done: true, Calls: c.m.Calls})
	f.Close()
}

func (c *ctx) c05ChildPrep(env *c05Env, job *c05Job, w *c05Writer) {
	spec, err := c05MkSpec(job.Spec)
	if err != nil {
		w.line(c05Line{Note: err.Error()})
		return
	}
	t0 := time.Now()
	if _, err := env.reference(spec); err != nil {
		w.line(c05Line{Note: "PREP-FAILED " + err.Error()})
		return
	}
	w.line(c05Line{Note: fmt.Sprintf("prepared %s in %.1fs", job.Spec, time.Since(t0).Seconds())})
}

func (c *ctx) c05Setup(env *c05Env, job *c05Job, w *c05Writer) (*c05Spec, *c05Ref, []*c05Cand, bool) {
	spec, err := c05MkSpec(job.Spec)
	if err != nil {
		w.line(c05Line{Note: err.Error()})
		return nil, nil, nil, false
	}
	ref, err := env.reference(spec)
	if err != nil {
		w.line(c05Line{Note: "REFERENCE-FAILED " + err.Error()})
		return nil, nil, nil, false
	}
	spec.Victim = party.ID(job.Victim)
	senders := []party.ID{party.ID(job.Sender)}
	if job.Sender == "*" {
		senders = nil
		for _, id := range spec.IDs {
			if id != spec.Victim {
				senders = append(senders, id)
			}
		}
	}
	pr := c05CandParams{Tier: job.Tier, Heavy: spec.Heavy, Victim: spec.Victim, Senders: senders,
		Rng: rand.New(rand.NewSource(c05SeedFor(job.Seed, job.Spec+"/"+job.Victim))), PerTargetInorder: job.PerIn, PerTargetOther: job.PerOth, CoreAlways: !spec.Heavy || job.Kind == "clone" || job.CoreAlways, Seed: job.Seed,
		BigAll: (job.Tier == "thorough" && job.Kind == "clone") || job.OnlyMalf != "", OnlyMalf: job.OnlyMalf}
	cands, notes := c05Candidates(spec, ref, pr)
	for _, n := range notes {
		w.line(c05Line{Note: n})
	}
	return spec, ref, cands, true
}

func (c *ctx) c05ChildSession(env *c05Env, job *c05Job, w *c05Writer) {
	spec, ref, cands, ok := c.c05Setup(env, job, w)
	if !ok {
		return
	}
	// baseline: the unmodified message in the unmodified order must let the victim complete (otherwise nothing below means anything)
	if job.Start == 0 {
		base := &c05Cand{Key: "baseline", Target: "", make: nil}
		_ = base
	}
	deadline := time.Now().Add(time.Duration(job.Budget) * time.Second)
	if job.Pick && len(cands) > 0 && job.Start == 0 {
		// probe job: one seeded candidate of the filtered list
		k := rand.New(rand.NewSource(c05SeedFor(job.Seed, "pick"))).Intn(len(cands))
		job.Start, job.Count = k, 1
	}
	n := 0
	pos := -1
	// processing sequence of this shard: the always-included picks first
	var seq []int
	for i := range cands {
		if job.Shards > 1 && i%job.Shards != job.Shard {
			continue
		}
		seq = append(seq, i)
	}
	sort.SliceStable(seq, func(a, b int) bool { return cands[seq[a]].RunToEnd && !cands[seq[b]].RunToEnd })
	for _, i := range seq {
		cand := cands[i]
		pos++
		if pos < job.Start {
			continue
		}
		if job.Budget > 0 && time.Now().After(deadline) {
			w.line(c05Line{Note: fmt.Sprintf("time budget reached after %d candidates of shard %d/%d (%s/%s); remaining candidates skipped", n, job.Shard, job.Shards, job.Spec, job.Victim)})
			break
		}
		if job.Count > 0 && n >= job.Count {
			break
		}
		pp := pos
		w.line(c05Line{Start: &pp, I: i, Key: cand.Key})
		mut := cand.make()
		oc := c.c05RunCandidate(env, spec, ref, spec.Victim, cand, mut, true)
		oc.I = i
		w.line(c05Line{Out: &oc})
		n++
		if oc.Class == "HANG" || oc.Later == "LATE-HANG" {
			// a hung call keeps its goroutine busy: let the parent replace this process
			nx := pos + 1
			w.line(c05Line{Next: &nx, Calls: c.m.Calls})
			w.f.Close()
			os.Exit(0)
		}
	}
	w.line(c05Line{Total: len(cands)})
}

// c05ChildRegen reports the message bytes of candidate job.Start without running it.
func (c *ctx) c05ChildRegen(env *c05Env, job *c05Job, w *c05Writer) {
	_, _, cands, ok := c.c05Setup(env, job, w)
	if !ok || job.Start >= len(cands) {
		return
	}
	cand := cands[job.Start]
	h, isNil, _ := c05MsgHex(cand.make())
	oc := c05Outcome{I: job.Start, Key: cand.Key, MsgHex: h, MsgNil: isNil, Hold: c05HoldList(cand.Hold), Extra: c05ExtraHex(cand.Extra), Class: "regen",
		Target: cand.Target, State: cand.State, Spec: job.Spec, Victim: job.Victim, Mode: "full"}
	w.line(c05Line{Out: &oc})
}

func c05HoldList(h map[string]bool) []string {
	var l []string
	for k := range h {
		l = append(l, k)
	}
	sort.Strings(l)
	return l
}

func c05ExtraHex(m map[string]*protocol.Message) map[string]string {
	if len(m) == 0 {
		return nil
	}
	out := map[string]string{}
	for k, v := range m {
		h, _, _ := c05MsgHex(v)
		out[k] = h
	}
	return out
}

// c05ChildOne re-runs exactly one recorded case (replay)
func (c *ctx) c05ChildOne(env *c05Env, job *c05Job, w *c05Writer) {
	rp := job.One
	if rp == nil {
		return
	}
	if rp.Kind == "direct" {
		if strings.HasPrefix(rp.Decoder, "zk/") {
			if err := c05ZKInit(env); err != nil {
				w.line(c05Line{Note: "zk replay: " + err.Error()})
			}
		}
		in, _ := hex.DecodeString(rp.Input)
		zero := 0
		w.line(c05Line{Start: &zero, Key: rp.Key})
		oc := c05RunDirect(rp.Decoder, in, rp.Key)
		w.line(c05Line{Out: &oc})
		return
	}
	spec, err := c05MkSpec(rp.Spec)
	if err != nil {
		w.line(c05Line{Note: err.Error()})
		return
	}
	ref, err := env.reference(spec)
	if err != nil {
		w.line(c05Line{Note: "REFERENCE-FAILED " + err.Error()})
		return
	}
	spec.Victim = party.ID(rp.Victim)
	var mut *protocol.Message
	if !rp.MsgNil {
		raw, err := hex.DecodeString(rp.MsgHex)
		if err != nil {
			w.line(c05Line{Note: "bad message hex"})
			return
		}
		mut = &protocol.Message{}
		if err := mut.UnmarshalBinary(raw); err != nil {
			w.line(c05Line{Note: "message does not decode: " + err.Error()})
			return
		}
	}
	cand := &c05Cand{Key: rp.Key, Bucket: "replay", Target: rp.Target, State: rp.State, Hold: map[string]bool{}, Family: "replay", Extra: map[string]*protocol.Message{}}
	for _, h := range rp.Hold {
		cand.Hold[h] = true
	}
	for k, hx := range rp.Extra {
		raw, _ := hex.DecodeString(hx)
		m := &protocol.Message{}
		if m.UnmarshalBinary(raw) == nil {
			cand.Extra[k] = m
		}
	}
	if tg := ref.Envs[rp.Target]; tg != nil {
		cand.Round = int(tg.Msg.RoundNumber)
	}
	zero := 0
	w.line(c05Line{Start: &zero, Key: rp.Key})
	var oc c05Outcome
	if rp.Mode == "clone" {
		oc = c.c05RunCloneOne(env, spec, ref, cand, mut)
	} else {
		oc = c.c05RunCandidate(env, spec, ref, spec.Victim, cand, mut, true)
	}
	w.line(c05Line{Out: &oc})
}

// ---------------------------------------------------------------------------------------------
// parent

type c05JobResult struct {
	job      *c05Job
	outcomes []c05Outcome
	notes    []string
	total    int
	calls    int
	wall     float64
	restarts int
}

func c05ReadLines(path string) []c05Line {
	f, err := os.Open(path)
	if err != nil {
		return nil
	}
	defer f.Close()
	var out []c05Line
	sc := bufio.NewScanner(f)
	sc.Buffer(make([]byte, 1<<20), 64<<20)
	for sc.Scan() {
		var l c05Line
		if json.Unmarshal(sc.Bytes(), &l) == nil {
			out = append(out, l)
		}
	}
	return out
}

func c05TailOf(s string, n int) string {
	if len(s) > n {
		return "…" + s[len(s)-n:]
	}
	return s
}

// c05CrashSite names the failure site from a Go crash dump on stderr (first goroutine of the dump = the one that died)
func c05CrashSite(stderr string) string {
	i := strings.Index(stderr, "\ngoroutine ")
	if i < 0 {
		return "?"
	}
	blk := stderr[i+1:]
	if j := strings.Index(blk, "\n\n"); j > 0 {
		blk = blk[:j]
	}
	if k := strings.Index(blk, "\n"); k >= 0 {
		blk = blk[k+1:]
	}
	return c05PanicSite(blk)
}

// runJob runs one job in child processes, restarting after the candidate that killed a child.
func (c *ctx) c05RunJob(job *c05Job, idx int, model string) *c05JobResult {
	res := &c05JobResult{job: job}
	t0 := time.Now()
	start := job.Start
	seen := map[int]bool{}
	modelRetries := 0
	deaths := map[string]int{}
	skip := append([]string{}, job.SkipClasses...)
	for attempt := 0; attempt < 300; attempt++ {
		j := *job
		j.Start = start
		j.SkipClasses = skip
		if job.Budget > 0 {
			if j.Budget = job.Budget - int(time.Since(t0).Seconds()); j.Budget < 3 {
				j.Budget = 3
			}
		}
		j.Out = filepath.Join(job.Dir, fmt.Sprintf("job%03d-%d.jsonl", idx, attempt))
		jf := filepath.Join(job.Dir, fmt.Sprintf("job%03d-%d.json", idx, attempt))
		b, _ := json.Marshal(j)
		os.WriteFile(jf, b, 0o644)
		self, eerr := os.Executable()
		if eerr != nil {
			self = os.Args[0]
		}
		cmd := exec.Command(self, "C05CHILD", "-tier", job.Tier, "-seed", fmt.Sprint(job.Seed), "-model", model, "-replay", jf)
		var stderr strings.Builder
		cmd.Stderr = &c05LimitedWriter{w: &stderr, max: 1 << 20}
		cmd.Stdout = nil
		err := cmd.Run()
		lines := c05ReadLines(j.Out)
		done := false
		var restartAt *int
		var lastStart *int
		lastKey := ""
		lastI := 0
		lastIn, lastDec := "", ""
		for _, l := range lines {
			switch {
			case l.Start != nil:
				lastStart, lastKey, lastI, lastIn, lastDec = l.Start, l.Key, l.I, l.In, l.Dec
			case l.Out != nil:
				if !seen[l.Out.I] {
					seen[l.Out.I] = true
					res.outcomes = append(res.outcomes, *l.Out)
				}
				lastStart = nil
			case l.Next != nil:
				restartAt = l.Next
				res.calls += l.Calls
			case l.Done:
				done = true
				res.calls += l.Calls
			case l.Total > 0:
				res.total = l.Total
			case l.Note != "":
				res.notes = append(res.notes, l.Note)
			}
		}
		if done && err == nil {
			break
		}
		if restartAt != nil && lastStart == nil {
			// the child asked to be replaced (a hung call left a goroutine spinning)
			if *restartAt >= 1<<30 {
				break // the child stopped on purpose (probe found what it was looking for)
			}
			start = *restartAt
			continue
		}
		// the child died
		se := stderr.String()
		if lastStart == nil && strings.Contains(se, "cannot start model") && modelRetries < 5 {
			// the model binary is being replaced by a concurrent build: try again shortly
			modelRetries++
			time.Sleep(1500 * time.Millisecond)
			attempt--
			continue
		}
		if lastStart == nil {
			res.notes = append(res.notes, fmt.Sprintf("child of %s died outside a candidate (%v): %s", job.label, err, c05TailOf(se, 400)))
			break
		}
		class := "CRASH"
		switch {
		case strings.Contains(se, "out of memory") || strings.Contains(se, "cannot allocate memory") || strings.Contains(se, "runtime: cannot allocate"):
			class = "OOM"
		case strings.Contains(se, "stack overflow") || strings.Contains(se, "goroutine stack exceeds"):
			class = "STACK-OVERFLOW"
		case strings.Contains(se, "panic:"):
			class = "PANIC"
		}
		first := se
		if i := strings.Index(first, "\n\n"); i > 0 {
			first = first[:i]
		}
		oc := c05Outcome{I: lastI, Key: lastKey, Bucket: job.Spec + "/child-killed", Class: class, Spec: job.Spec, Victim: job.Victim,
			Err: fmt.Sprintf("the child process running this case died (%v): %s", err, c05TailOf(first, 300)), FP: lastKey, Nontriv: true,
			Bad: &c05Bad{Party: job.Victim, Kind: class, Text: c05TailOf(first, 300), Site: c05CrashSite(se), Stack: c05TailOf(se, 1500)}, Note: "process-death"}
		if site := c05CrashSite(se); class == "OOM" && !strings.Contains(site, "<-") && (strings.HasPrefix(site, "encoding/") || strings.HasPrefix(site, "bytes/") ||
			strings.HasPrefix(site, "strings/") || strings.Contains(site, " main.") || strings.HasPrefix(site, "bufio/") || strings.HasPrefix(site, "os/")) {
			// the allocation that failed was the harness's own (no library frame on the stack): not a verdict about the library
			res.notes = append(res.notes, fmt.Sprintf("case %s: the harness itself ran out of memory in the child (%s); no verdict", lastKey, site))
			oc.Class, oc.Bad, oc.Nontriv = "unreached", nil, false
		}
		if job.Kind == "direct" && oc.Bad != nil && class == "OOM" {
			// RLIMIT_AS bounds the ADDRESS SPACE of a child that has already decoded thousands of inputs: the Go runtime can fail to
			// map a new block long before the heap is large ("cannot allocate ... (N in use)" with N far below the limit).  What
			// counts is this input alone in a fresh process.
			cj := &c05Job{Kind: "one", Spec: job.Spec, Tier: job.Tier, Seed: job.Seed, Dir: job.Dir, label: job.label + " (OOM confirmation)",
				One: &c05Replay{Kind: "direct", Key: lastKey, Decoder: lastDec, Input: lastIn, Class: class}}
			cr := c.c05RunJob(cj, 700+idx*40+attempt, model)
			again := false
			for _, x := range cr.outcomes {
				if x.Bad != nil {
					again = true
				}
			}
			if !again && len(cr.outcomes) > 0 {
				res.notes = append(res.notes, fmt.Sprintf("case %s: the long-running decoder child ran out of address space (%s); the same input alone in a fresh process is handled normally: no verdict",
					lastKey, c05TailOf(first, 120)))
				oc.Class, oc.Bad, oc.Nontriv = "unreached", nil, false
			}
		}
		if job.Kind == "direct" && oc.Bad != nil {
			oc.Mode, oc.Note, oc.Target, oc.MsgHex, oc.Bucket = "direct", "direct", lastDec, lastIn, "direct/"+lastDec
			oc.Bad.Party = lastDec
			// a decoder class that keeps killing the child (same defect, different random bytes) is cut short
			cls := lastKey
			deaths[cls]++
			if deaths[cls] >= 3 {
				skip = append(skip, cls)
			}
		}
		if job.Kind == "clone" && oc.Bad != nil {
			// the sweep child died: what counts is the same case through the real handler
			cj := *job
			cj.Kind, cj.Shards, cj.Shard, cj.Start, cj.Count, cj.PerOth, cj.Budget = "session", 1, 0, lastI, 1, -1, 0
			cj.CoreAlways = true
			cj.label = job.label + " (confirmation)"
			cr := c.c05RunJob(&cj, 600+idx*40+attempt, model)
			confirmed := false
			for _, x := range cr.outcomes {
				if x.Key == lastKey {
					x.Bucket = "sweep/" + x.Bucket
					x.Note = strings.TrimSpace(x.Note + " found by the round-level sweep (child died: " + class + ")")
					oc, confirmed = x, true
				}
			}
			if !confirmed {
				res.notes = append(res.notes, fmt.Sprintf("sweep child died at %s (%s) but the confirmation through the real handler produced no outcome", lastKey, class))
			}
			res.notes = append(res.notes, cr.notes...)
		}
		if !seen[oc.I] {
			seen[oc.I] = true
			res.outcomes = append(res.outcomes, oc)
		}
		start = *lastStart + 1
		res.restarts++
	}
	res.wall = time.Since(t0).Seconds()
	sort.Slice(res.outcomes, func(i, j int) bool { return res.outcomes[i].I < res.outcomes[j].I })
	return res
}

type c05LimitedWriter struct {
	w   *strings.Builder
	max int
}

func (l *c05LimitedWriter) Write(p []byte) (int, error) {
	if l.w.Len() < l.max {
		q := p
		if l.w.Len()+len(q) > l.max {
			q = q[:l.max-l.w.Len()]
		}
		l.w.Write(q)
	}
	return len(p), nil
}

func c05ModelPath() string {
	for i, a := range os.Args {
		if a == "-model" && i+1 < len(os.Args) {
			return os.Args[i+1]
		}
		if strings.HasPrefix(a, "-model=") {
			return strings.TrimPrefix(a, "-model=")
		}
	}
	return "/verif/coq/Extract/out/mpsmodel"
}

func (c *ctx) c05Plan(dir string) []*c05Job {
	var jobs []*c05Job
	tier := c.tier
	ncpu := runtime.NumCPU()
	if ncpu < 2 {
		ncpu = 2
	}
	add := func(j *c05Job) int {
		j.Tier, j.Dir = tier, dir
		j.Seed = c.res.Rng.Int63n(1 << 40)
		jobs = append(jobs, j)
		return len(jobs) - 1
	}
	// direct decoder / Unmarshal cases first (cheap)
	prepKG := add(&c05Job{Kind: "prep", Spec: "cmp-keygen", label: "prep cmp-keygen"})
	add(&c05Job{Kind: "direct", Spec: "decoders", label: "direct decoders", after: []int{prepKG}})
	prep := map[string]int{"cmp-keygen": prepKG}
	for _, name := range c05SpecNames(tier) {
		if !strings.HasPrefix(name, "cmp-") || name == "cmp-keygen" {
			continue
		}
		after := []int{prepKG}
		if name == "cmp-presign-online" {
			after = []int{prep["cmp-presign"]}
		}
		prep[name] = add(&c05Job{Kind: "prep", Spec: name, label: "prep " + name, after: after})
	}
	for _, name := range c05SpecNames(tier) {
		heavy := strings.HasPrefix(name, "cmp-")
		for _, vs := range c05Victims(name, tier) {
			sender := vs[1]
			if tier == "thorough" && !heavy && !strings.HasPrefix(name, "doerner") && !strings.HasPrefix(name, "frost-sign") {
				sender = "*"
			}
			if !heavy {
				perOther := 0
				if tier != "thorough" {
					perOther = 120
				}
				shards := 1
				if tier == "thorough" {
					shards = 4
				} else if strings.HasPrefix(name, "doerner") {
					shards = 4
				} else if name == "frost-keygen" || name == "frost-keygen-taproot" {
					shards = 2
				}
				perIn := 0
				if tier != "thorough" && strings.HasPrefix(name, "doerner") {
					// OT messages are large and a Doerner session costs ~50 ms: core catalogue + seeded sample
					perIn, perOther, shards = 25, 0, 2
				}
				cheapBudget := 45
				if tier == "thorough" {
					cheapBudget = 800
				}
				for s := 0; s < shards; s++ {
					add(&c05Job{Kind: "session", Spec: name, Victim: vs[0], Sender: sender, Shard: s, Shards: shards, PerIn: perIn, PerOth: perOther, Budget: cheapBudget,
						label: fmt.Sprintf("%s victim=%s shard %d/%d", name, vs[0], s, shards)})
				}
				continue
			}
			// CMP: a verify-path sweep over every path x malformation on handler clones, plus sampled full replays
			// quick tier: round-level sweep = seed-independent core of the catalogue for every path + swPer seeded others per message;
			// full replays = perIn seeded cases per message (+ the always-included picks); the time budgets are only a safety net
			sw, swBudget, swPer := 3, 75, 8
			shards, perIn, perOth, budget := 2, 4, 1, 75
			probe := true
			if name == "cmp-keygen" || name == "cmp-refresh" {
				// key generation costs a victim ~3.5 s per replay: fewer full replays, no oversized-integer probe in the quick tier
				sw, shards, perIn, perOth, probe = 3, 1, 1, -1, false
			}
			if tier == "thorough" {
				// thorough: the sweep covers every path x malformation (including the oversized integers); the full replays take a
				// larger seeded sample in every state.  CPU budget of the tier: about 15 min x the number of CPUs.
				sw, swBudget, swPer = 4, 700, 0
				shards, perIn, perOth, budget = 4, 50, 8, 700
				if name == "cmp-keygen" || name == "cmp-refresh" {
					perIn, perOth = 25, 4
				}
			}
			if tier != "thorough" && probe {
				// one oversized-integer probe per protocol (20 s watchdog): its own child
				add(&c05Job{Kind: "clone", Spec: name, Victim: vs[0], Sender: sender, Shards: 1, OnlyMalf: "long-4M", Count: 1, Budget: 40, PerOth: -1,
					after: []int{prep[name]}, label: fmt.Sprintf("%s victim=%s oversized-integer probe", name, vs[0])})
				// and one zero-padded-integer probe (same value, 256 KiB announced size)
				add(&c05Job{Kind: "clone", Spec: name, Victim: vs[0], Sender: sender, Shards: 1, OnlyMalf: "pad-*", Count: 1, Budget: 60, PerOth: -1,
					after: []int{prep[name]}, label: fmt.Sprintf("%s victim=%s zero-padded-integer probe", name, vs[0])})
			}
			for s := 0; s < sw; s++ {
				add(&c05Job{Kind: "clone", Spec: name, Victim: vs[0], Sender: sender, Shard: s, Shards: sw, Budget: swBudget, PerIn: swPer, PerOth: -1, after: []int{prep[name]},
					label: fmt.Sprintf("%s victim=%s round-level sweep %d/%d", name, vs[0], s, sw)})
			}
			for s := 0; s < shards; s++ {
				add(&c05Job{Kind: "session", Spec: name, Victim: vs[0], Sender: sender, Shard: s, Shards: shards, PerIn: perIn, PerOth: perOth, Budget: budget,
					after: []int{prep[name]}, label: fmt.Sprintf("%s victim=%s shard %d/%d", name, vs[0], s, shards)})
			}
		}
	}
	if only := os.Getenv("C05_ONLY"); only != "" {
		// development aid: restrict the plan to jobs whose label contains the given text (dependencies are kept)
		keep := map[int]bool{}
		for i, j := range jobs {
			if strings.Contains(j.label, only) {
				keep[i] = true
				for _, a := range j.after {
					keep[a] = true
					for _, b := range jobs[a].after {
						keep[b] = true
					}
				}
			}
		}
		var out []*c05Job
		remap := map[int]int{}
		for i, j := range jobs {
			if keep[i] {
				remap[i] = len(out)
				out = append(out, j)
			}
		}
		for _, j := range out {
			for k, a := range j.after {
				j.after[k] = remap[a]
			}
		}
		jobs = out
	}
	return jobs
}

func runC05(c *ctx) {
	c.res.Rule = "per protocol (xor, FROST keygen/sign(+taproot), Doerner keygen/sign, CMP keygen/sign/presign; thorough: + refresh variants, CMP presign-online) and victim: " +
		"every genuine message to the victim x handler state (in order / p2p before the sender's broadcast / one round early) x {every CBOR field path x malformation catalogue, " +
		"header malformations, arbitrary payload bytes, crafted multi-message cases}, delivered through CanAccept+Accept of a fresh real handler brought to that state by replaying the " +
		"deterministic session, in child processes with RLIMIT_AS 1.5 GiB and a 20 s (CPU) watchdog. Cheap protocols: in-order state exhaustive (Doerner: core catalogue + seeded sample), " +
		"other states seeded sample. CMP: round-level sweep of the verify path (quick: core catalogue + seeded sample; thorough: everything) whose alarms count only when reproduced " +
		"through the real handler, seeded full replays, one oversized-integer probe. Plus Unmarshal of stored material / wire messages, hand-written decoders and zk verifiers on " +
		"malformed / incomplete inputs. Non-trivial = an input different from the genuine one reached a running victim / decoder; distinct by (session, target message, state, message bytes)"
	dir, err := os.MkdirTemp("", "c05-")
	if err != nil {
		c.res.Note("cannot create work directory: %v", err)
		return
	}
	defer os.RemoveAll(dir)
	model := c05ModelPath()
	if c.replay != "" {
		c.c05Replay(dir, model)
		return
	}
	// two-party handler: genuine later-round messages delivered early, non-draining driver (c05_twoparty.go)
	c.c05TwoPartyEarly()
	jobs := c.c05Plan(dir)
	results := make([]*c05JobResult, len(jobs))
	doneCh := make([]chan struct{}, len(jobs))
	for i := range doneCh {
		doneCh[i] = make(chan struct{})
	}
	slots := runtime.NumCPU()
	if slots > 16 {
		slots = 16
	}
	if slots < 2 {
		slots = 2
	}
	sem := make(chan struct{}, slots)
	var wg sync.WaitGroup
	for i, j := range jobs {
		wg.Add(1)
		go func(i int, j *c05Job) {
			defer wg.Done()
			defer close(doneCh[i])
			for _, a := range j.after {
				<-doneCh[a]
			}
			sem <- struct{}{}
			results[i] = c.c05RunJob(j, i, model)
			<-sem
		}(i, j)
	}
	wg.Wait()
	c.c05Aggregate(jobs, results)
}

type c05Finding struct {
	group  string
	key    string
	kind   string
	desc   string
	replay c05Replay
	rank   int // lower = preferred representative (exhaustively enumerated cases first, so that the choice is seed-independent)
}

func (c *ctx) c05Aggregate(jobs []*c05Job, results []*c05JobResult) {
	classCount := map[string]int{}
	childCalls := 0
	samples := 0
	var finds []c05Finding
	for i, r := range results {
		if r == nil {
			continue
		}
		j := jobs[i]
		childCalls += r.calls
		for _, n := range r.notes {
			if strings.HasPrefix(n, "prepared ") {
				continue
			}
			c.res.Note("%s: %s", j.label, n)
		}
		if os.Getenv("C05_DEBUG") != "" {
			c.res.Note("%s: wall %.1fs, %d outcomes, %d restarts", j.label, r.wall, len(r.outcomes), r.restarts)
		}
		if r.restarts > 0 {
			c.res.Note("%s: %d child process(es) died and were restarted after the offending case", j.label, r.restarts)
		}
		for _, oc := range r.outcomes {
			o := oc
			c.res.Case(o.Bucket, o.FP, o.Nontriv)
			classCount[o.Class]++
			if o.Later != "" && strings.HasPrefix(o.Later, "LATE-") {
				classCount[o.Later]++
			}
			if o.Corr > 0 {
				c.res.Corr(o.Corr == 1)
			}
			if samples < 3 && o.Nontriv && o.Mode == "full" && (o.I%97 == 5 || o.I%41 == 3) {
				samples++
				c.res.Sample(3, map[string]interface{}{"key": o.Key, "state": o.State, "target": o.Target, "can_accept": o.CanAccept, "class": o.Class, "later": o.Later, "error": o.Err})
			}
			// replay a few model comparisons in the parent's model client so that they end up in cases.v
			if o.ModelArg != "" && len(c.m.Log) < 24 && o.Corr == 1 && (o.I%13 == 1 || o.Class == "ignored") {
				if a, err := sx.Parse(o.ModelArg); err == nil {
					c.m.Call("hnd.run", a)
				}
			}
			finds = append(finds, c.c05Judge(j, &o)...)
		}
	}
	var cs []string
	for _, k := range c05SortedKeys(classCount) {
		cs = append(cs, fmt.Sprintf("%s=%d", k, classCount[k]))
	}
	c.res.Note("outcome classes: %s", strings.Join(cs, " "))
	c.res.Note("model calls made by child processes: %d", childCalls)
	// one violation per (failure kind, site, message type): the representative is the smallest key among the exhaustively
	// enumerated cases; every other failing case of the group is counted and the first few are listed
	groups := map[string][]c05Finding{}
	for _, f := range finds {
		groups[f.group] = append(groups[f.group], f)
	}
	var gk []string
	for k := range groups {
		gk = append(gk, k)
	}
	sort.Strings(gk)
	siteCount := map[string]int{}
	for _, g := range gk {
		fs := groups[g]
		sort.Slice(fs, func(i, j int) bool {
			if fs[i].rank != fs[j].rank {
				return fs[i].rank < fs[j].rank
			}
			return fs[i].key < fs[j].key
		})
		c05Rep := fs[0]
		if len(fs) > 1 {
			var others []string
			for _, f := range fs[1:] {
				if len(others) < 6 {
					others = append(others, f.key)
				}
			}
			c05Rep.desc += fmt.Sprintf(" (+%d other malformed inputs of this message type fail at the same site, e.g. %s)", len(fs)-1, strings.Join(others, ", "))
		}
		c.res.Violate(c05Rep.kind, c05Rep.key, c05Rep.desc, c05Rep.replay)
		site := strings.SplitN(g, "|", 3)
		if len(site) >= 2 {
			siteCount[site[0]+" @ "+site[1]] += len(fs)
		}
	}
	if len(siteCount) > 0 {
		var ss []string
		for _, k := range c05SortedKeys(siteCount) {
			ss = append(ss, fmt.Sprintf("%s x%d", k, siteCount[k]))
		}
		c.res.Note("failing cases by site: %s", strings.Join(ss, "; "))
	}
	if len(c.res.Samples) == 0 {
		c.res.Sample(1, "no candidate ran")
	}
}

// c05Judge turns one outcome into findings.
func (c *ctx) c05Judge(j *c05Job, o *c05Outcome) []c05Finding {
	var out []c05Finding
	mkReplay := func() c05Replay {
		rp := c05Replay{Kind: "message", Spec: o.Spec, Victim: o.Victim, Target: o.Target, State: o.State, Hold: o.Hold, Mode: o.Mode, Key: o.Key,
			MsgHex: o.MsgHex, MsgNil: o.MsgNil, Extra: o.Extra, Class: o.Class, Tier: j.Tier, Seed: j.Seed}
		if o.Mode == "direct" {
			rp = c05Replay{Kind: "direct", Key: o.Key, Decoder: o.Target, Input: o.MsgHex, Class: o.Class}
		}
		if o.Bad != nil {
			rp.Where, rp.Text, rp.Stack = o.Bad.Site, o.Bad.Text, o.Bad.Stack
			if o.Later != "" {
				rp.Class = o.Class + " then " + o.Later
			}
		}
		return rp
	}
	rank := 0
	if o.State != "" && o.State != "inorder" {
		rank = 4
	} else if !o.Core {
		rank = 2
	}
	if strings.HasPrefix(o.Spec, "cmp-") && o.Mode == "full" {
		rank++ // the clone sweep is the exhaustive enumeration for CMP
	}
	msgType := o.Key
	if p := strings.Split(o.Key, "/"); o.Mode == "direct" && len(p) >= 3 {
		msgType = strings.Join(p[:3], "/")
	} else if len(p) >= 4 {
		msgType = strings.Join(p[:4], "/")
	}
	bad := ""
	switch {
	case o.Class == "PANIC" || o.Class == "HANG" || o.Class == "OOM" || o.Class == "CRASH" || o.Class == "STACK-OVERFLOW":
		bad = o.Class
	case strings.HasPrefix(o.Later, "LATE-"):
		bad = o.Later
	case o.Class == "DIRTY-ABORT" || o.Later == "DIRTY-ABORT":
		bad = "DIRTY-ABORT"
	}
	if bad != "" {
		site := "?"
		text := o.Err
		who := o.Victim
		if o.Bad != nil {
			site, text, who = o.Bad.Site, o.Bad.Text, o.Bad.Party
			if o.Bad.AtKey != "" && o.Bad.AtKey != o.Target {
				text += " (while processing " + o.Bad.AtKey + ")"
			}
		}
		if o.MsgHex == "" && !o.MsgNil && o.Note == "process-death" && o.Mode != "direct" {
			// the child died before it could report the message: regenerate it for the replay
			if h, isNil, ok := c.c05RegenerateHex(j, o); ok {
				o.MsgHex, o.MsgNil = h, isNil
			}
		}
		what := "party " + who
		if o.Mode == "direct" {
			what = "decoder " + o.Target
		}
		desc := fmt.Sprintf("%s at %s [%s]: %s", bad, what, site, text)
		if len(desc) > 420 {
			desc = desc[:420] + "…"
		}
		gbad := strings.TrimPrefix(bad, "LATE-")
		gsite := site
		if k := strings.Index(gsite, "<- "); gbad == "HANG" && k >= 0 {
			gsite = gsite[k+3:] // a hang is sampled somewhere inside the arithmetic: group by the library frame
		}
		out = append(out, c05Finding{group: gbad + "|" + gsite + "|" + msgType, key: o.Key, kind: "property", desc: desc, replay: mkReplay(), rank: rank})
	}
	if !o.CanAccept && (o.Class == "continued" || o.Class == "clean-abort") && o.Mode == "full" {
		out = append(out, c05Finding{group: "canaccept|-|" + msgType, key: o.Key + "#canaccept", kind: "property",
			desc: "CanAccept returned false but Accept acted on the message (" + o.Class + ")", replay: mkReplay(), rank: rank})
	}
	if o.Corr == 2 {
		out = append(out, c05Finding{group: "corr|-|" + o.Spec, key: "C05/handler-model/" + o.Spec, kind: "correspondence",
			desc: fmt.Sprintf("handler state differs from the Coq model at observation %d of the history ending with the malformed message (%s): model %s, handler %s",
				o.CorrAt, o.Key, o.CorrModel, o.CorrReal), replay: mkReplay(), rank: rank})
	}
	if o.Corr == 3 {
		out = append(out, c05Finding{group: "corr-error|-|" + o.Spec, key: "C05/model-error", kind: "correspondence", desc: o.CorrModel, replay: mkReplay(), rank: rank})
	}
	return out
}

// c05RegenerateHex rebuilds the message bytes of candidate o.I of job j in a child (used when the child that ran the case
// died before it could report them).
func (c *ctx) c05RegenerateHex(j *c05Job, o *c05Outcome) (string, bool, bool) {
	if j.Kind != "session" && j.Kind != "clone" {
		return "", false, false
	}
	jj := *j
	jj.CoreAlways = j.Kind == "clone"
	jj.Kind, jj.Start, jj.Shards, jj.Shard = "regen", o.I, 1, 0
	jj.label = "regen"
	r := c.c05RunJob(&jj, 500+c.res.Evaluations%400, c05ModelPath())
	for _, x := range r.outcomes {
		if x.Key == o.Key {
			o.Hold, o.Extra, o.Target, o.State, o.Mode = x.Hold, x.Extra, x.Target, x.State, x.Mode
			return x.MsgHex, x.MsgNil, true
		}
	}
	return "", false, false
}

// ---------------------------------------------------------------------------------------------
// replay

func (c *ctx) c05Replay(dir, model string) {
	var rp c05Replay
	if err := readJSON(c.replay, &rp); err != nil {
		c.res.Note("cannot read replay file: %v", err)
		return
	}
	c.res.Note("replay: re-running %s", rp.Key)
	job := &c05Job{Kind: "one", Spec: rp.Spec, Victim: rp.Victim, Tier: c.tier, Seed: rp.Seed, Dir: dir, One: &rp, label: "replay " + rp.Key}
	if rp.Kind == "direct" && strings.HasPrefix(rp.Decoder, "zk/") {
		c.c05RunJob(&c05Job{Kind: "prep", Spec: "cmp-keygen", Tier: c.tier, Dir: dir, label: "prep"}, 900, model)
	}
	if rp.Kind != "direct" && strings.HasPrefix(rp.Spec, "cmp-") {
		// heavy material first
		c.c05RunJob(&c05Job{Kind: "prep", Spec: "cmp-keygen", Tier: c.tier, Dir: dir, label: "prep"}, 900, model)
		if rp.Spec != "cmp-keygen" {
			if rp.Spec == "cmp-presign-online" {
				c.c05RunJob(&c05Job{Kind: "prep", Spec: "cmp-presign", Tier: c.tier, Dir: dir, label: "prep"}, 901, model)
			}
			c.c05RunJob(&c05Job{Kind: "prep", Spec: rp.Spec, Tier: c.tier, Dir: dir, label: "prep"}, 902, model)
		}
	}
	r := c.c05RunJob(job, 0, model)
	c.c05Aggregate([]*c05Job{job}, []*c05JobResult{r})
	for _, o := range r.outcomes {
		c.res.Note("replayed %s: class %s %s %s", o.Key, o.Class, o.Later, o.Err)
	}
}
