package main

// C09 -- adversarial identifier sets whose members embed 8-byte big-endian length prefixes (prefixEmbeddingPairs, c19_new.go):
// two sessions which differ only in such participant sets ({a, b|L|c, t} vs {a|L|b, c, t}, count confusions) must have different
// session tags; both tags are also compared byte-exactly with the model.  NewSession sorts the identifiers, so the common
// last identifier t ("zz..", several lengths including L) is the last one written in both sessions.

import (
	"bytes"
	"encoding/hex"
	"fmt"
	"math/rand"

	"verifharness/sx"
)

func sessParamsOf(v sx.V) (p sessParams, ok bool) {
	defer func() {
		if recover() != nil {
			ok = false
		}
	}()
	if len(v.L) != 7 {
		return p, false
	}
	if len(v.L[0].L) == 1 {
		p.Sid = v.L[0].L[0].B
		if p.Sid == nil {
			p.Sid = []byte{}
		}
	}
	p.Proto = string(v.L[1].B)
	p.Group = len(v.L[2].L) == 1
	for _, id := range v.L[3].L {
		p.IDs = append(p.IDs, id.B)
	}
	p.Self = v.L[4].B
	p.Thr = v.L[5].AsInt()
	p.Aux = v.L[6].L
	return p, true
}

// c09TagPair: both sessions valid => tags differ; model correspondence of both
func (c *ctx) c09TagPair(p, q sessParams, class, key string) (collided bool) {
	tags := [2][]byte{}
	for i, s := range []sessParams{p, q} {
		ssid, _, err := goSession(s)
		rep, merr := c.m.Call("sess.new", s.sx())
		if merr != nil {
			c.res.Violate("correspondence", "C09/model-error", merr.Error(), c09Replay{What: "model error", A: s.String()})
			return false
		}
		mok := len(rep.L) == 1
		agree := mok == (err == nil)
		if agree && mok {
			agree = bytes.Equal(blake64(rep.L[0].B), ssid)
		}
		c.res.Corr(agree)
		if !agree {
			c.res.Violate("correspondence", "C09/ssid-mismatch", fmt.Sprintf("model ok=%v, Go err=%v, or digests differ", mok, err), c09Replay{What: "ssid correspondence", A: s.String()})
		}
		tags[i] = ssid
	}
	c.res.Case(class, p.String()+"|"+q.String(), tags[0] != nil && tags[1] != nil)
	if tags[0] != nil && tags[1] != nil && bytes.Equal(tags[0], tags[1]) {
		c.res.Violate("property", key, "two sessions with different participant sets (identifiers embedding an 8-byte length prefix) have the same session tag",
			c09Replay{What: "ssid collision", A: p.String(), B: q.String(), Detail: hex.EncodeToString(tags[0]), Key: key})
		return true
	}
	return false
}

func (c *ctx) c09PrefixEmbedding(r *rand.Rand) {
	maxL := 12
	if c.thorough() {
		maxL = 40
	}
	for _, pr := range prefixEmbeddingPairs(r, maxL) {
		dup := func(ids [][]byte) bool {
			seen := map[string]bool{}
			for _, id := range ids {
				if seen[string(id)] {
					return true
				}
				seen[string(id)] = true
			}
			return false
		}
		if dup(pr.a) || dup(pr.b) {
			continue
		}
		// the owner is an identifier both sets have (the common last one), else the first of each
		selfA, selfB := pr.a[len(pr.a)-1], pr.b[len(pr.b)-1]
		if !bytes.Equal(selfA, selfB) {
			selfA, selfB = pr.a[0], pr.b[0]
		}
		base := sessParams{Sid: []byte("sid"), Proto: "cmp/sign", Group: true, Thr: 0}
		if r.Intn(2) == 0 {
			base.Sid = nil
		}
		p, q := base, base
		p.IDs, p.Self = pr.a, selfA
		q.IDs, q.Self = pr.b, selfB
		if c.c09TagPair(p, q, "variant/ids-prefix-embedding/"+pr.shape, "C09/ssid-collision/ids-prefix-embedding") {
			return
		}
	}
}

// c09ReplayTagPair: `-replay` of an ssid-collision replay (two printed parameter sets)
func (c *ctx) c09ReplayTagPair(rp c09Replay) bool {
	if rp.What != "ssid collision" || rp.A == "" || rp.B == "" {
		return false
	}
	va, e1 := sx.Parse(rp.A)
	vb, e2 := sx.Parse(rp.B)
	if e1 != nil || e2 != nil {
		return false
	}
	p, ok1 := sessParamsOf(va)
	q, ok2 := sessParamsOf(vb)
	if !ok1 || !ok2 {
		return false
	}
	c.res.Rule = "replay of one pair of session parameter sets"
	key := rp.Key
	if key == "" {
		key = "C09/ssid-collision/replay"
	}
	c.c09TagPair(p, q, "replay", key)
	return true
}
