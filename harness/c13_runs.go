package main

// C13, real runs of the OT stack: random OT, correlated-OT setup, correlated / extended / additive OT, Multiply,
// and the alteration search.

import (
	"bytes"
	"encoding/hex"
	"fmt"
	"io"
	"math/big"
	"math/rand"
	"reflect"

	"github.com/cronokirby/saferith"

	"github.com/taurusgroup/multi-party-sig/pkg/hash"
	"github.com/taurusgroup/multi-party-sig/pkg/math/curve"
	"github.com/taurusgroup/multi-party-sig/pkg/pool"
	"github.com/taurusgroup/multi-party-sig/pkg/verifhook"

	"verifharness/sx"
)

// ---------------------------------------------------------------------------------------------
// random OT (random.go): the receiver gets exactly the pad it chose

// c13RandomOT runs one random OT on a fresh setup derived from cs.Seed; cs.Msg/Path/Op optionally alter one message.
// outcome: "ok" (pads agree), "wrong" (completed with a pad that is neither error nor the chosen one),
// "<who>-error", "<stage>-panic".
func c13RandomOT(rd *c13Reader, cs c13Case) (outcome string) {
	stage := "setup"
	defer func() {
		if r := recover(); r != nil {
			outcome = stage + "-panic: " + fmt.Sprint(r)
		}
	}()
	alt := func(name string, m interface{}) bool {
		if cs.Msg != name {
			return true
		}
		if err := c13Apply(m, cs.Path, cs.Op); err != nil {
			outcome = "inapplicable: " + err.Error()
			return false
		}
		return true
	}
	rd.seed(cs.Seed)
	nonce, _ := hex.DecodeString(cs.Nonce)
	h := c13Hash(nonce)
	smsg, ssetup := verifhook.OTRandomOTSetupSend(h.Clone(), c13Group)
	if !alt("Setup", smsg) {
		return
	}
	stage = "setup-receive"
	rsetup, err := verifhook.OTRandomOTSetupReceive(h.Clone(), smsg)
	if err != nil {
		return "receiver-error"
	}
	key := make([]byte, 32)
	rd.Read(key)
	R := verifhook.OTNewRandomOTReceiver(key, rsetup, saferith.Choice(cs.Choice))
	S := verifhook.OTNewRandomOTSender(key, ssetup)
	stage = "receiver-round1"
	m1, err := R.Round1()
	if err != nil {
		return "receiver-error"
	}
	if !alt("R1", &m1) {
		return
	}
	stage = "sender-round1"
	s1, err := S.Round1(&m1)
	if err != nil {
		return "sender-error"
	}
	if !alt("S1", &s1) {
		return
	}
	stage = "receiver-round2"
	m2 := R.Round2(&s1)
	if !alt("R2", &m2) {
		return
	}
	stage = "sender-round2"
	s2, sres, err := S.Round2(&m2)
	if err != nil {
		return "sender-error"
	}
	if !alt("S2", &s2) {
		return
	}
	stage = "receiver-round3"
	pad, err := R.Round3(&s2)
	if err != nil {
		return "receiver-error"
	}
	want := sres.Rand0
	if cs.Choice == 1 {
		want = sres.Rand1
	}
	if pad != want {
		return "wrong"
	}
	return "ok"
}

func (c *ctx) c13RandomOTAll(rd *c13Reader, r *rand.Rand, n int) {
	alts := []c13Alt{{}, {"R1", "ABytes", "flip@1"}, {"R1", "ABytes", "flip@-1"}, {"R1", "ABytes", "trunc:5"}, {"R1", "ABytes", "nil"}, {"R1", "ABytes", "extend:1"},
		{"S1", "Challenge", "flip@0"}, {"S1", "Challenge", "flip@15"}, {"R2", "Response", "flip@0"}, {"R2", "Response", "flip@15"},
		{"S2", "Decommit0", "flip@0"}, {"S2", "Decommit1", "flip@15"}, {"Setup", "BProof.Z.Z", "add1"}, {"Setup", "BProof.Z.Z", "nil"}, {"Setup", "BProof", "nil"}}
	for k := 0; k < n; k++ {
		seed := r.Int63()
		nonce := randBytes(r, 4)
		for choice := 0; choice < 2; choice++ {
			for _, a := range alts {
				if a.Msg != "" && k >= 2 && !c.thorough() {
					continue
				}
				cs := c13Case{What: "randomot", Seed: seed, Nonce: hex.EncodeToString(nonce), Choice: choice, Msg: a.Msg, Path: a.Path, Op: a.Op}
				c.c13RandomOTJudge(rd, cs)
			}
		}
	}
}

func (c *ctx) c13RandomOTJudge(rd *c13Reader, cs c13Case) string {
	out := c13RandomOT(rd, cs)
	cs.Observed = out
	if cs.Msg != "" {
		c13Outcome("randomot "+cs.Msg+"."+cs.Path+"/"+c13OpClass(cs.Op), c13Short(out))
	}
	class := "randomot-honest"
	if cs.Msg != "" {
		class = "randomot-alter/" + cs.Msg + "." + cs.Path + "/" + c13OpClass(cs.Op)
	}
	c.res.Case(class, fmt.Sprintf("%d/%s/%d/%s%s%s", cs.Seed, cs.Nonce, cs.Choice, cs.Msg, cs.Path, cs.Op), true)
	switch {
	case out == "ok" || (cs.Msg != "" && (out == "sender-error" || out == "receiver-error")):
	case len(out) > 12 && out[:12] == "inapplicable":
		c.res.Note("random OT alteration %s.%s %s inapplicable: %s", cs.Msg, cs.Path, cs.Op, out)
	case cs.Msg == "":
		c.res.Violate("property", "C13/randomot/honest-"+c13Short(out), "honest random OT: the receiver's pad is not the chosen one of the sender's two ("+out+")", cs)
	default:
		c.res.Violate("property", "C13/randomot-alter/"+cs.Msg+"."+cs.Path+"/"+c13OpClass(cs.Op)+"/"+c13Short(out),
			"altered random-OT message: neither an error nor agreeing pads ("+out+")", cs)
	}
	return out
}

// c13Short keeps the stable part of an outcome ("receiver-round2-panic: runtime error: ..." -> "receiver-round2-panic").
func c13Short(out string) string {
	for i := 0; i < len(out); i++ {
		if out[i] == ':' {
			return out[:i]
		}
	}
	return out
}

// ---------------------------------------------------------------------------------------------
// correlated-OT setup (128 random OTs)

// setupRun runs the setup from cs.SetupSeed; with cs.Msg set one message is altered. The env's setups are filled
// by an unaltered successful run.
func (e *c13Env) setupRun(cs c13Case) (outcome string) {
	stage := "new"
	defer func() {
		if r := recover(); r != nil {
			outcome = stage + "-panic: " + fmt.Sprint(r)
		}
	}()
	alt := func(name string, m interface{}) bool {
		if cs.Msg != name {
			return true
		}
		if err := c13Apply(m, cs.Path, cs.Op); err != nil {
			outcome = "inapplicable: " + err.Error()
			return false
		}
		return true
	}
	e.rd.seed(cs.SetupSeed)
	h := c13Hash([]byte("setup"))
	var pl *pool.Pool
	sender := verifhook.OTNewCorreOTSetupSender(pl, h.Clone())
	receiver := verifhook.OTNewCorreOTSetupReceiver(pl, h.Clone(), c13Group)
	stage = "receiver-round1"
	mR1 := receiver.Round1()
	if !alt("R1", mR1) {
		return
	}
	stage = "sender-round1"
	mS1, err := sender.Round1(mR1)
	if err != nil {
		return "sender-error"
	}
	if !alt("S1", mS1) {
		return
	}
	stage = "receiver-round2"
	mR2, err := receiver.Round2(mS1)
	if err != nil {
		return "receiver-error"
	}
	if !alt("R2", mR2) {
		return
	}
	stage = "sender-round2"
	mS2 := sender.Round2(mR2)
	if !alt("S2", mS2) {
		return
	}
	stage = "receiver-round3"
	mR3, rs, err := receiver.Round3(mS2)
	if err != nil {
		return "receiver-error"
	}
	if !alt("R3", mR3) {
		return
	}
	stage = "sender-round3"
	ss, err := sender.Round3(mR3)
	if err != nil {
		return "sender-error"
	}
	stage = "relation"
	delta, kd := ss.VerifDelta()
	k0, k1 := rs.VerifK()
	for i := 0; i < c13OTParam; i++ {
		want := k0[i]
		if c13BitAt(i, delta[:]) == 1 {
			want = k1[i]
		}
		if kd[i] != want {
			return fmt.Sprintf("wrong: K_Delta[%d] is not K_{Delta_%d}[%d]", i, i, i)
		}
	}
	if cs.Msg == "" {
		e.ss, e.rs, e.delta = ss, rs, delta
	}
	return "ok"
}

func (c *ctx) c13SetupAlterAll(rd *c13Reader, r *rand.Rand, rounds int) {
	idx := []int{0, 127}
	for k := 0; k < rounds; k++ {
		seed := r.Int63()
		var alts []c13Alt
		alts = append(alts, c13Alt{"R1", "Msg.BProof.Z.Z", "add1"})
		for _, i := range idx {
			if k > 0 {
				i = 1 + r.Intn(126)
			}
			alts = append(alts,
				c13Alt{"S1", fmt.Sprintf("Msgs[%d].ABytes", i), "flip@-1"},
				c13Alt{"S1", fmt.Sprintf("Msgs[%d].ABytes", i), "trunc:5"},
				c13Alt{"R2", fmt.Sprintf("Msgs[%d].Challenge", i), "flip@3"},
				c13Alt{"S2", fmt.Sprintf("Msgs[%d].Response", i), "flip@3"},
				c13Alt{"R3", fmt.Sprintf("Msgs[%d].Decommit0", i), "flip@3"},
				c13Alt{"R3", fmt.Sprintf("Msgs[%d].Decommit1", i), "flip@3"})
		}
		for _, a := range alts {
			e := &c13Env{c: c, rd: rd}
			cs := c13Case{What: "setup", SetupSeed: seed, Msg: a.Msg, Path: a.Path, Op: a.Op}
			c.c13SetupJudge(e, cs)
		}
	}
}

func (c *ctx) c13SetupJudge(e *c13Env, cs c13Case) string {
	out := e.setupRun(cs)
	cs.Observed = out
	pc := c13PathClassSetup(cs.Path)
	c13Outcome("setup "+cs.Msg+"."+pc+"/"+c13OpClass(cs.Op), c13Short(out))
	c.res.Case("setup-alter/"+cs.Msg+"."+pc+"/"+c13OpClass(cs.Op), fmt.Sprintf("%d/%s", cs.SetupSeed, cs.Path+cs.Op), true)
	switch {
	case out == "ok" || out == "sender-error" || out == "receiver-error":
	case len(out) > 12 && out[:12] == "inapplicable":
		c.res.Note("setup alteration %s inapplicable: %s", cs.Path, out)
	default:
		c.res.Violate("property", "C13/setup-alter/"+cs.Msg+"."+pc+"/"+c13OpClass(cs.Op)+"/"+c13Short(out),
			"altered correlated-OT setup message: neither an error nor a correct setup ("+out+")", cs)
	}
	return out
}

func c13PathClassSetup(p string) string { return c13PathClass(p) }

// ---------------------------------------------------------------------------------------------
// correlated OT

func c13PlainCorre(delta []byte, choices []byte, T, Q [][c13OTBytes]byte) bool {
	if len(T) != len(Q) || len(T) != 8*len(choices) {
		return false
	}
	for j := range T {
		for k := 0; k < c13OTBytes; k++ {
			w := T[j][k]
			if c13BitAt(j, choices) == 1 {
				w ^= delta[k]
			}
			if Q[j][k] != w {
				return false
			}
		}
	}
	return true
}

func (e *c13Env) correCase(cs c13Case) {
	c := e.c
	choices, _ := hex.DecodeString(cs.Choices)
	nonce, _ := hex.DecodeString(cs.Nonce)
	h := c13Hash(nonce)
	e.rd.seed(cs.Seed)
	var T, Q [][c13OTBytes]byte
	var serr error
	p := c13Try(func() {
		msg, rres := verifhook.OTCorreOTReceive(h.Clone(), e.rs, choices)
		sres, err := verifhook.OTCorreOTSend(h.Clone(), e.ss, 8*len(choices), msg)
		serr = err
		if err == nil {
			T = rres.VerifT()
			_, Q = sres.VerifUQ()
		}
	})
	nz := false
	for _, b := range choices {
		nz = nz || b != 0
	}
	c.res.Case(fmt.Sprintf("corre/batch%d/%s", 8*len(choices), cs.Op), cs.Nonce+"/"+cs.Choices, nz)
	if p != "" || serr != nil {
		cs.Observed = fmt.Sprintf("panic=%q err=%v", p, serr)
		c.res.Violate("property", "C13/corre-fails", "honest correlated OT fails", cs)
		return
	}
	plain := c13PlainCorre(e.delta[:], choices, T, Q)
	rep, err := c.m.Call("ot.corre_check", sx.List(sx.Bytes(e.delta[:]), sx.Bytes(choices), c13Rows(T), c13Rows(Q)))
	if err != nil {
		c.c13ModelErr("ot.corre_check", err, cs)
		return
	}
	c.res.Corr(rep.AsBool() == plain)
	if rep.AsBool() != plain {
		c.res.Violate("correspondence", "C13/corre-check-oracles-disagree", "model checker and XOR checker disagree on Q^j = T^j xor c_j*Delta", cs)
	}
	if !rep.AsBool() || !plain {
		c.res.Violate("property", "C13/corre-relation/"+cs.Op, "correlated OT: Q^j != T^j xor c_j*Delta for some j", cs)
	}
}

func (e *c13Env) correAll(r *rand.Rand, s int) {
	lens := []int{1, 2, 5, 16, 84, 110}
	if e.c.thorough() {
		lens = []int{1, 2, 3, 4, 5, 8, 16, 17, 32, 84, 110, 200}
	}
	for _, l := range lens {
		ps, pn := c13Patterns(r, l)
		for k := range ps {
			if !e.c.thorough() && s > 0 && k < 4 {
				continue
			}
			e.correCase(c13Case{What: "corre", SetupSeed: e.setupSeed, Seed: r.Int63(), Nonce: hex.EncodeToString(randBytes(r, 4)),
				Choices: hex.EncodeToString(ps[k]), Op: pn[k]})
		}
	}
}

// ---------------------------------------------------------------------------------------------
// extended OT

func c13Chi(h *hash.Hash, U [c13OTParam][]byte, n int) ([][c13OTBytes]byte, error) {
	hc := h.Clone()
	for i := 0; i < c13OTParam; i++ {
		if err := hc.WriteAny(U[i]); err != nil {
			return nil, err
		}
	}
	d := hc.Digest()
	chi := make([][c13OTBytes]byte, n)
	for i := range chi {
		if _, err := io.ReadFull(d, chi[i][:]); err != nil {
			return nil, err
		}
	}
	return chi, nil
}

// heavy: also evaluate the model's GF(2^128) sums (ot.ext_t, ot.ext_check: ~5 ms per row in the extracted model).
func (e *c13Env) extendedCase(cs c13Case, heavy bool) {
	c := e.c
	choices, _ := hex.DecodeString(cs.Choices)
	nonce, _ := hex.DecodeString(cs.Nonce)
	h := c13Hash(nonce)
	e.rd.seed(cs.Seed)
	batch := 8 * len(choices)
	infl := batch + c13OTParam + c13StatParam
	nz := false
	for _, b := range choices {
		nz = nz || b != 0
	}
	c.res.Case(fmt.Sprintf("extended/batch%d/%s", batch, cs.Op), cs.Nonce+"/"+cs.Choices, nz)
	var V0, V1, VC, T, Q [][c13OTBytes]byte
	var X [c13OTBytes]byte
	var Tfe []byte
	var U, U2 [c13OTParam][]byte
	var serr, cerr error
	var extra []byte
	p := c13Try(func() {
		e.rd.record()
		msg, rres := verifhook.OTExtendedOTReceive(h.Clone(), e.rs, choices)
		pad := e.rd.stop()
		extra = append(append([]byte{}, choices...), pad...)
		U, X = msg.CorreMsg.U, msg.X
		Tfe = c13FeBytes([4]uint64(msg.T))
		// the inner correlated OT, re-run on the same hash state and choices (deterministic): gives T and Q
		cm, cres := verifhook.OTCorreOTReceive(h.Clone(), e.rs, extra)
		U2 = cm.U
		T = cres.VerifT()
		csend, err := verifhook.OTCorreOTSend(h.Clone(), e.ss, infl, msg.CorreMsg)
		cerr = err
		if err == nil {
			_, Q = csend.VerifUQ()
		}
		sres, err := verifhook.OTExtendedOTSend(h.Clone(), e.ss, batch, msg)
		serr = err
		if err == nil {
			V0, V1 = sres.VerifV()
			VC = rres.VerifVChoices()
		}
	})
	if p != "" || serr != nil || cerr != nil {
		cs.Observed = fmt.Sprintf("panic=%q err=%v/%v", p, serr, cerr)
		c.res.Violate("property", "C13/extended-fails", "honest extended OT fails (the sender's consistency check must pass)", cs)
		return
	}
	// output relation, plain
	good := len(V0) == batch && len(V1) == batch && len(VC) == batch
	for j := 0; j < batch && good; j++ {
		want := V0[j]
		if c13BitAt(j, choices) == 1 {
			want = V1[j]
		}
		if VC[j] != want {
			good = false
			cs.Observed = fmt.Sprintf("V_choice[%d] != V_%d[%d]", j, c13BitAt(j, choices), j)
		}
		if V0[j] == V1[j] {
			good = false
			cs.Observed = fmt.Sprintf("V_0[%d] == V_1[%d]", j, j)
		}
	}
	if !good {
		c.res.Violate("property", "C13/extended-relation/"+cs.Op, "extended OT: the receiver's vector is not the chosen one of the sender's two", cs)
	}
	// message fields against the model
	if len(extra) != infl/8 || !reflect.DeepEqual(U, U2) {
		c.res.Corr(false)
		c.res.Violate("correspondence", "C13/extended-inner-corre", "ExtendedOTReceive's U is not CorreOTReceive(choices ++ random pad) on the same hash", cs)
		return
	}
	chi, err := c13Chi(h, U, infl)
	if err != nil {
		c.res.Note("chi: %v", err)
		return
	}
	chiL := c13Rows(chi)
	rx, err := c.m.Call("ot.ext_x", sx.List(sx.Int(c13OTBytes), sx.Bytes(extra), chiL))
	if err != nil {
		c.c13ModelErr("ot.ext_x", err, cs)
		return
	}
	ok := rx.Kind == 1 && bytes.Equal(rx.B, X[:])
	c.res.Corr(ok)
	if !ok {
		cs.Observed = fmt.Sprintf("X=%x model=%s", X, rx)
		c.res.Violate("correspondence", "C13/extended-X-mismatch", "message field X differs from the model", cs)
	}
	rk, err := c.m.Call("ot.corre_check", sx.List(sx.Bytes(e.delta[:]), sx.Bytes(extra), c13Rows(T), c13Rows(Q)))
	if err != nil {
		c.c13ModelErr("ot.corre_check", err, cs)
		return
	}
	c.res.Corr(rk.AsBool())
	if !rk.AsBool() {
		c.res.Violate("property", "C13/corre-relation/inflated", "correlated OT inside the extended OT: Q^j != T^j xor c_j*Delta", cs)
	}
	if !heavy {
		return
	}
	rt, err := c.m.Call("ot.ext_t", sx.List(c13Rows(T), chiL))
	if err != nil {
		c.c13ModelErr("ot.ext_t", err, cs)
		return
	}
	ok = rt.Kind == 1 && bytes.Equal(rt.B, Tfe)
	c.res.Corr(ok)
	if !ok {
		cs.Observed = fmt.Sprintf("T=%x model=%s", Tfe, rt)
		c.res.Violate("correspondence", "C13/extended-T-mismatch", "message field T differs from the model", cs)
	}
	rc, err := c.m.Call("ot.ext_check", sx.List(sx.Bytes(e.delta[:]), c13Rows(Q), chiL, sx.Bytes(X[:]), sx.Bytes(Tfe)))
	if err != nil {
		c.c13ModelErr("ot.ext_check", err, cs)
		return
	}
	c.res.Corr(rc.AsBool())
	if !rc.AsBool() {
		c.res.Violate("correspondence", "C13/extended-check-mismatch", "ExtendedOTSend accepted but the model's sender check fails on the same Q, chi, X, T", cs)
	}
}

func (e *c13Env) extendedAll(r *rand.Rand, s int) {
	lens := []int{1, 2, 11, 84}
	if e.c.thorough() {
		lens = []int{1, 2, 3, 4, 5, 11, 16, 32, 84, 100}
	}
	for _, l := range lens {
		ps, pn := c13Patterns(r, l)
		for k := range ps {
			if !e.c.thorough() && ((s > 0 && k < 4) || (l == 84 && k != 4 && k != 0)) {
				continue
			}
			heavy := e.c.thorough() && (s == 0 || k == 4)
			if !e.c.thorough() {
				heavy = s == 0 && ((l == 1 && (k == 0 || k == 4)) || (l == 11 && k == 4))
			}
			e.extendedCase(c13Case{What: "extended", SetupSeed: e.setupSeed, Seed: r.Int63(), Nonce: hex.EncodeToString(randBytes(r, 4)),
				Choices: hex.EncodeToString(ps[k]), Op: pn[k]}, heavy)
		}
	}
}

// ---------------------------------------------------------------------------------------------
// additive OT

// predictAdditiveR2 asks the model for the outcome of AdditiveOTReceiver.Round2 on the message (repaired code:
// the number of pads must equal the batch size, every pad is masked over its own length and must then decode
// as a scalar): ot.additive_recv_class = Model/OT.v additive_msg_ok, which Proofs/OTProofs.v
// (additive_recv_outcome) shows to decide additive_recv exactly; ok | err, never panic.
func (e *c13Env) predictAdditiveR2(pads [][2][]byte, choices []byte) (class string, err error) {
	ps := make([]sx.V, len(pads))
	for i := range pads {
		ps[i] = sx.List(sx.Bytes(pads[i][0]), sx.Bytes(pads[i][1]))
	}
	rep, err := e.c.m.Call("ot.additive_recv_class", sx.List(sx.Big(secpQ), sx.Int(32), sx.Bytes(choices), sx.List(ps...)))
	if err != nil {
		return "", err
	}
	return c13ResClass(rep), nil
}

func c13CopyPads(p [][2][]byte) [][2][]byte {
	if p == nil {
		return nil
	}
	out := make([][2][]byte, len(p))
	for i := range p {
		for w := 0; w < 2; w++ {
			if p[i][w] != nil {
				out[i][w] = append([]byte{}, p[i][w]...)
			}
		}
	}
	return out
}

func c13Pairs(res [][2]curve.Scalar) (z0, z1 []*big.Int) {
	for i := range res {
		z0 = append(z0, c13Z(res[i][0]))
		z1 = append(z1, c13Z(res[i][1]))
	}
	return
}

func (e *c13Env) additiveCase(cs c13Case) {
	c := e.c
	choices, _ := hex.DecodeString(cs.Choices)
	nonce, _ := hex.DecodeString(cs.Nonce)
	a0, a1 := c13UnHex(cs.Alpha), c13UnHex(cs.Alpha1)
	h := c13Hash(nonce)
	e.rd.seed(cs.Seed)
	batch := 8 * len(choices)
	nz := false
	for _, b := range choices {
		nz = nz || b != 0
	}
	c.res.Case(fmt.Sprintf("additive/batch%d/%s", batch, cs.Op), cs.Nonce+"/"+cs.Choices+"/"+cs.Alpha+"/"+cs.Alpha1, nz || a0.Sign() != 0)
	var send, recv [][2]curve.Scalar
	var pads [][2][]byte
	var serr, rerr error
	stage := "sender"
	p := c13Try(func() {
		sender := verifhook.OTNewAdditiveOTSender(h.Clone(), e.ss, batch, [2]curve.Scalar{c13Sc(a0), c13Sc(a1)})
		receiver := verifhook.OTNewAdditiveOTReceiver(h.Clone(), e.rs, c13Group, choices)
		m1 := receiver.Round1()
		m2, sres, err := sender.Round1(m1)
		serr = err
		if err != nil {
			return
		}
		send = sres
		pads = c13CopyPads(m2.CombinedPads)
		stage = "receiver-round2"
		rres, err := receiver.Round2(m2)
		rerr = err
		recv = rres
	})
	if stage == "sender" && (p != "" || serr != nil) {
		cs.Observed = fmt.Sprintf("panic=%q err=%v", p, serr)
		c.res.Violate("property", "C13/additive-sender-fails", "honest additive OT: the sender fails", cs)
		return
	}
	goClass := "ok"
	if p != "" {
		goClass = "panic"
	} else if rerr != nil {
		goClass = "err"
	}
	pred, err := e.predictAdditiveR2(pads, choices)
	if err != nil {
		c.c13ModelErr("ot.additive_recv_class", err, cs)
	} else {
		c.res.Corr(pred == goClass)
		if pred != goClass {
			cs.Observed = fmt.Sprintf("go=%s (%s %v) model=%s", goClass, p, rerr, pred)
			c.res.Violate("correspondence", "C13/additive-round2-outcome", "AdditiveOTReceiver.Round2 outcome differs from the model's mask loops", cs)
		}
	}
	if goClass != "ok" {
		cs.Observed = fmt.Sprintf("%s: %s %v", goClass, p, rerr)
		bucket := "batch>32"
		if batch <= 32 {
			bucket = "batch<=32"
		}
		c.res.Violate("property", "C13/additive-honest-"+goClass+"/"+bucket,
			"honest additive OT does not complete: AdditiveOTReceiver.Round2 reads its loop bound from CombinedPads[j] (byte index j) instead of CombinedPads[i]", cs)
		return
	}
	s0, s1 := c13Pairs(send)
	r0, r1 := c13Pairs(recv)
	for w, tr := range []struct {
		a    *big.Int
		s, r []*big.Int
	}{{a0, s0, r0}, {a1, s1, r1}} {
		plain := len(tr.s) == batch && len(tr.r) == batch
		for j := 0; j < batch && plain; j++ {
			sum := new(big.Int).Add(tr.s[j], tr.r[j])
			sum.Mod(sum, secpQ)
			want := new(big.Int)
			if c13BitAt(j, choices) == 1 {
				want.Mod(tr.a, secpQ)
			}
			plain = sum.Cmp(want) == 0
		}
		rep, err := c.m.Call("ot.additive_check", sx.List(sx.Big(secpQ), sx.Big(tr.a), sx.Bytes(choices), c13Zs(tr.s), c13Zs(tr.r)))
		if err != nil {
			c.c13ModelErr("ot.additive_check", err, cs)
			return
		}
		c.res.Corr(rep.AsBool() == plain)
		if rep.AsBool() != plain {
			c.res.Violate("correspondence", "C13/additive-check-oracles-disagree", "model checker and big.Int checker disagree on send+recv = c*alpha", cs)
		}
		if !rep.AsBool() || !plain {
			cs.Observed = fmt.Sprintf("component %d", w)
			c.res.Violate("property", "C13/additive-relation/"+cs.Op, "additive OT: send[j] + recv[j] != c_j * alpha (mod q)", cs)
		}
	}
}

func (e *c13Env) additiveAll(r *rand.Rand, s int) {
	lens := []int{1, 2, 3, 4, 5, 11, 84}
	if e.c.thorough() {
		lens = []int{1, 2, 3, 4, 5, 6, 8, 11, 16, 33, 84}
	}
	zs, _ := c13Lattice(r, false)
	for _, l := range lens {
		ps, pn := c13Patterns(r, l)
		for k := range ps {
			if !e.c.thorough() && ((s > 0 && k < 4) || (l == 84 && k != 4) || (l <= 4 && k != 4 && k != 0)) {
				continue
			}
			a0, a1 := zs[r.Intn(len(zs))], zs[r.Intn(len(zs))]
			e.additiveCase(c13Case{What: "additive", SetupSeed: e.setupSeed, Seed: r.Int63(), Nonce: hex.EncodeToString(randBytes(r, 4)),
				Choices: hex.EncodeToString(ps[k]), Op: pn[k], Alpha: c13Hex(a0), Alpha1: c13Hex(a1)})
		}
	}
}
