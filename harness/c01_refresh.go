package main

// C01, refreshed / restored key material: "... valid under the group public key FIXED AT KEY GENERATION ... key material that is
// fresh, refreshed or derived".  Chains  keygen -> (refresh | restore)* ; after every step a signing session (CMP sign, CMP
// presign + online, FROST, FROST-Taproot, Doerner) with a signer subset |S| > t runs on the current material.  The verifier's
// key is the encoding of the group key RECORDED WHEN KEY GENERATION ENDED (never re-read from refreshed material); every
// all-honest session must complete, all completers return the same signature, and each signature is judged by the Coq
// reference verifier.  Every session (refresh and signing) gets private objects restored from the documented encoding
// (Refresh aliases its input; points and Nats write to themselves in read-only operations).

import (
	"fmt"
	"math/rand"
	"strings"

	"github.com/fxamacker/cbor/v2"

	"github.com/taurusgroup/multi-party-sig/pkg/ecdsa"
	"github.com/taurusgroup/multi-party-sig/pkg/math/curve"
	"github.com/taurusgroup/multi-party-sig/pkg/party"
	"github.com/taurusgroup/multi-party-sig/pkg/taproot"
	"github.com/taurusgroup/multi-party-sig/protocols/cmp"
	"github.com/taurusgroup/multi-party-sig/protocols/doerner"
	"github.com/taurusgroup/multi-party-sig/protocols/frost"
)

type c01Chain struct {
	Kind   string   `json:"chain"` // "frost", "taproot-frost", "cmp", "doerner"
	N      int      `json:"n"`
	T      int      `json:"t"`
	IDs    []string `json:"ids"`
	Steps  []string `json:"steps"` // "refresh" | "restore"; a signing session follows every step
	Seed   int64    `json:"seed"`
	Online bool     `json:"cmp_presign_online"` // cmp: after the last step also presign + online sign
	// filled in when a violation is reported
	After    string   `json:"failed_after,omitempty"`
	Problems []string `json:"problems,omitempty"`
}

func c01ProblemClass(p string) string {
	switch {
	case strings.Contains(p, "panicked"):
		return "panic"
	case strings.Contains(p, "did not complete"), strings.Contains(p, "did not return"), strings.Contains(p, "no party returned"):
		return "session-incomplete"
	case strings.Contains(p, "invalid under the reference verifier"):
		return "signature-invalid-under-keygen-key"
	case strings.Contains(p, "different signature"):
		return "different-signatures"
	case strings.Contains(p, "restore"):
		return "restore-failed"
	}
	return "failed"
}

// c01SessionProblems: the C01 oracle on one finished all-honest signing sim (needAll: every party must return the signature)
func (c *ctx) c01SessionProblems(s *Sim, pub interface{}, msg []byte, needAll bool) []string {
	var probs []string
	first, got := "", 0
	for _, id := range s.IDs {
		n := s.Nodes[id]
		if n.H == nil {
			probs = append(probs, fmt.Sprintf("all-honest session did not complete at %s: could not start: %v", id, n.StartErr))
			continue
		}
		for _, o := range n.Obs {
			if o.Panic != "" {
				probs = append(probs, fmt.Sprintf("party %s panicked: %s", id, o.Panic))
			}
			if o.Hung {
				probs = append(probs, fmt.Sprintf("all-honest session did not complete at %s: Accept did not return", id))
			}
		}
		r, e := resultOf(n)
		if r == nil {
			probs = append(probs, fmt.Sprintf("all-honest session did not complete at %s: %s", id, e))
			continue
		}
		if _, isSig := r.(*ecdsa.Signature); !isSig && !needAll {
			continue // Doerner: the sender ends without a signature
		}
		got++
		ok, why := c.verifyAnySignature(pub, r, msg)
		c.res.Corr(ok)
		if !ok {
			probs = append(probs, fmt.Sprintf("signature returned to %s is invalid under the reference verifier for the key recorded at key generation %s", id, why))
		}
		if fp := resultFP(r); first == "" {
			first = fp
		} else if fp != first {
			probs = append(probs, fmt.Sprintf("party %s returned a different signature", id))
		}
	}
	if got == 0 && len(probs) == 0 {
		probs = append(probs, "no party returned a signature")
	}
	return probs
}

func (c *ctx) c01ChainViolate(ch c01Chain, session, label string, probs []string) {
	ch.After, ch.Problems = label, probs
	c.res.Violate("property", fmt.Sprintf("C01/%s/%s/%s", session, label, c01ProblemClass(probs[0])),
		fmt.Sprintf("%s n=%d t=%d, key material %s: %s", session, ch.N, ch.T, label, strings.Join(probs, "; ")), ch)
}

var c01Pols = []string{"fifo", "lifo", "latest-first", "random"}

// c01RunChain runs one chain. mat0 (optional): the material of an already finished key generation of that shape.
func (c *ctx) c01RunChain(ch c01Chain, mat0 []interface{}) {
	rng := rand.New(rand.NewSource(ch.Seed))
	if ch.Kind == "doerner" {
		c.c01RunChainDoerner(ch, rng)
		return
	}
	ids := idsOf(ch.IDs...)
	if mat0 == nil {
		var kg *Sim
		switch ch.Kind {
		case "frost", "taproot-frost":
			kg = runToEnd(specFrostKeygen(ids, ch.T, ch.Kind == "taproot-frost", []byte("c01chain")), ch.Seed, "fifo")
		case "cmp":
			usePrimeCache()
			kg = runToEnd(specCMPKeygen(ids, ch.T, []byte("c01chain")), ch.Seed, "fifo")
		default:
			c.res.Note("c01 chain: unknown kind %q", ch.Kind)
			return
		}
		_, raw, probs := viewsOfSim(kg)
		if len(probs) > 0 {
			c.c01ChainViolate(ch, ch.Kind+"-keygen", "keygen", []string{"key generation for signing material did not complete: " + strings.Join(probs, "; ")})
			return
		}
		mat0 = raw
	}
	// the group key as recorded when key generation ended
	var pub interface{}
	switch cf := mat0[0].(type) {
	case *frost.Config:
		b, _ := cf.PublicKey.MarshalBinary()
		p := curve.Secp256k1{}.NewPoint()
		if err := p.UnmarshalBinary(b); err != nil {
			c.res.Note("c01 chain: group key of the key generation cannot be recorded: %v", err)
			return
		}
		pub = p
	case *frost.TaprootConfig:
		pub = taproot.PublicKey(append([]byte{}, cf.PublicKey...))
	case *cmp.Config:
		b, _ := cf.PublicPoint().MarshalBinary()
		p := curve.Secp256k1{}.NewPoint()
		if err := p.UnmarshalBinary(b); err != nil {
			c.res.Note("c01 chain: group key of the key generation cannot be recorded: %v", err)
			return
		}
		pub = p
	}
	cur, e := restoreAll(mat0)
	if e != "" {
		c.c01ChainViolate(ch, ch.Kind+"-sign", "keygen>restore", []string{"restore of fresh key material failed: " + e})
		return
	}
	hist := []string{"keygen"}
	sorted := party.NewIDSlice(ids)
	for i, step := range ch.Steps {
		hist = append(hist, step)
		label := strings.Join(hist, ">")
		switch step {
		case "refresh":
			priv, e := restoreAll(cur)
			if e != "" {
				c.c01ChainViolate(ch, ch.Kind+"-refresh", label, []string{"restore before refresh failed: " + e})
				return
			}
			next, e2 := refreshAll(priv, ch.Seed+int64(i)+1, fmt.Sprintf("c01chain-r%d", i))
			if e2 != "" || len(next) != len(cur) {
				c.c01ChainViolate(ch, ch.Kind+"-refresh", label, []string{"all-honest refresh did not complete: " + e2})
				return
			}
			cur = next
		case "restore":
			next, e := restoreAll(cur)
			if e != "" {
				c.c01ChainViolate(ch, ch.Kind+"-sign", label, []string{"restore failed: " + e})
				return
			}
			cur = next
		}
		// signing session on private copies of the current material
		subs := allSubsetsLargerThan(sorted, ch.T)
		S := subs[rng.Intn(len(subs))]
		if len(sorted) >= 3 && ch.T+1 < len(sorted) {
			// prefer a subset that is not a prefix of the sorted party list
			for try := 0; try < 8 && S[len(S)-1] == sorted[len(S)-1]; try++ {
				S = subs[rng.Intn(len(subs))]
			}
		}
		msg := msgOfLen(rng, []int{32, 32, 20, 64, 1, 48}[rng.Intn(6)])
		pol := c01Pols[rng.Intn(len(c01Pols))]
		seed := rng.Int63()
		last := i == len(ch.Steps)-1
		c.c01ChainSign(ch, label, cur, S, pub, msg, seed, pol, ch.Online && last)
	}
}

func (c *ctx) c01ChainSign(ch c01Chain, label string, cur []interface{}, S []party.ID, pub interface{}, msg []byte, seed int64, pol string, online bool) {
	priv, e := restoreAll(cur)
	if e != "" {
		c.c01ChainViolate(ch, ch.Kind+"-sign", label, []string{"restore before signing failed: " + e})
		return
	}
	var signers []string
	for _, id := range S {
		signers = append(signers, string(id))
	}
	sid := []byte(fmt.Sprintf("c01chain-%s-%d", label, seed))
	var sp SessionSpec
	switch priv[0].(type) {
	case *frost.Config:
		cfgs := map[party.ID]*frost.Config{}
		for _, m := range priv {
			cfgs[m.(*frost.Config).ID] = m.(*frost.Config)
		}
		sp = specFrostSign(cfgs, S, msg, sid)
	case *frost.TaprootConfig:
		cfgs := map[party.ID]*frost.TaprootConfig{}
		for _, m := range priv {
			cfgs[m.(*frost.TaprootConfig).ID] = m.(*frost.TaprootConfig)
		}
		sp = specFrostSignTaproot(cfgs, S, msg, sid)
	case *cmp.Config:
		cfgs := map[party.ID]*cmp.Config{}
		for _, m := range priv {
			cfgs[m.(*cmp.Config).ID] = m.(*cmp.Config)
		}
		sp = specCMPSign(cfgs, S, msg, sid)
	}
	s := runToEnd(sp, seed, pol)
	probs := c.c01SessionProblems(s, pub, msg, true)
	session := strings.SplitN(sp.Name, "/", 2)[0]
	c.res.Case(fmt.Sprintf("%s/%s/n=%d/t=%d", session, label, ch.N, ch.T), fmt.Sprintf("%s/%v/%x/%d/%s/%s/%d", sp.Name, signers, msg, seed, pol, label, ch.Seed), true)
	c.res.Sample(6, map[string]interface{}{"spec": sp.Name, "signers": signers, "msglen": len(msg), "policy": pol, "material": label})
	if len(probs) > 0 {
		c.c01ChainViolate(ch, session, label, probs)
	}
	if !online {
		return
	}
	// CMP: presign (offline) + online sign on the same material (again private copies)
	priv2, e := restoreAll(cur)
	if e != "" {
		return
	}
	cfgs := map[party.ID]*cmp.Config{}
	for _, m := range priv2 {
		if cf, ok := m.(*cmp.Config); ok {
			cfgs[cf.ID] = cf
		}
	}
	if len(cfgs) == 0 {
		return
	}
	ps := runToEnd(specCMPPresign(cfgs, S, append([]byte("ps-"), sid...)), seed+1, "fifo")
	pres := map[party.ID]*ecdsa.PreSignature{}
	var pp []string
	for _, id := range S {
		rr, e := resultOf(ps.Nodes[id])
		p, ok := rr.(*ecdsa.PreSignature)
		if !ok {
			pp = append(pp, fmt.Sprintf("all-honest presign did not complete at %s: %s", id, e))
			continue
		}
		pres[id] = p
	}
	c.res.Case(fmt.Sprintf("cmp-presign/%s/n=%d/t=%d", label, ch.N, ch.T), fmt.Sprintf("presign/%v/%d/%s/%d", signers, seed, label, ch.Seed), true)
	if len(pp) > 0 {
		c.c01ChainViolate(ch, "cmp-presign", label, pp)
		return
	}
	so := specCMPPresignOnline(cfgs, pres, S, msg, append([]byte("on-"), sid...))
	s2 := runToEnd(so, seed+2, "lifo")
	probs = c.c01SessionProblems(s2, pub, msg, true)
	c.res.Case(fmt.Sprintf("cmp-presign-online/%s/n=%d/t=%d", label, ch.N, ch.T), fmt.Sprintf("online/%v/%x/%d/%s/%d", signers, msg, seed, label, ch.Seed), true)
	if len(probs) > 0 {
		c.c01ChainViolate(ch, "cmp-presign-online", label, probs)
	}
}

func (c *ctx) c01RunChainDoerner(ch c01Chain, rng *rand.Rand) {
	g := curve.Secp256k1{}
	ids := idsOf(ch.IDs...)
	kg := twoPartySim(ids, nil, doerner.Keygen(g, true, ids[0], ids[1], nil), doerner.Keygen(g, false, ids[1], ids[0], nil), []byte("c01chain-d"), true, false)
	kg.RunFIFO(10000)
	rr, _ := resultOf(kg.Nodes[ids[0]])
	rs, _ := resultOf(kg.Nodes[ids[1]])
	cr, ok1 := rr.(*doerner.ConfigReceiver)
	cs, ok2 := rs.(*doerner.ConfigSender)
	if !ok1 || !ok2 {
		c.c01ChainViolate(ch, "doerner-keygen", "keygen", []string{"key generation for signing material did not complete"})
		return
	}
	pb, _ := cr.Public.MarshalBinary()
	pub := g.NewPoint()
	if err := pub.UnmarshalBinary(pb); err != nil {
		c.res.Note("c01 chain: doerner group key cannot be recorded: %v", err)
		return
	}
	serR, e1 := cbor.Marshal(cr)
	serS, e2 := cbor.Marshal(cs)
	if e1 != nil || e2 != nil {
		c.res.Note("c01 chain: doerner configs cannot be serialized: %v %v", e1, e2)
		return
	}
	restore := func() (*doerner.ConfigReceiver, *doerner.ConfigSender, string) {
		nr, ns := doerner.EmptyConfigReceiver(g), doerner.EmptyConfigSender(g)
		if err := cbor.Unmarshal(serR, nr); err != nil {
			return nil, nil, err.Error()
		}
		if err := cbor.Unmarshal(serS, ns); err != nil {
			return nil, nil, err.Error()
		}
		return nr, ns, ""
	}
	hist := []string{"keygen"}
	for i, step := range ch.Steps {
		hist = append(hist, step)
		label := strings.Join(hist, ">")
		if step == "refresh" {
			nr, ns, e := restore()
			if e != "" {
				c.c01ChainViolate(ch, "doerner-refresh", label, []string{"restore before refresh failed: " + e})
				return
			}
			rf := twoPartySim(ids, nil, doerner.RefreshReceiver(nr, ids[0], ids[1], nil), doerner.RefreshSender(ns, ids[1], ids[0], nil), []byte{byte(i), 7}, true, false)
			rf.RunFIFO(10000)
			r2, x1 := resultOf(rf.Nodes[ids[0]])
			s2, x2 := resultOf(rf.Nodes[ids[1]])
			cr2, ok1 := r2.(*doerner.ConfigReceiver)
			cs2, ok2 := s2.(*doerner.ConfigSender)
			if !ok1 || !ok2 {
				c.c01ChainViolate(ch, "doerner-refresh", label, []string{"all-honest refresh did not complete: " + x1 + " " + x2})
				return
			}
			var e1, e2 error
			if serR, e1 = cbor.Marshal(cr2); e1 != nil {
				c.c01ChainViolate(ch, "doerner-refresh", label, []string{"restore: refreshed receiver config cannot be serialized: " + e1.Error()})
				return
			}
			if serS, e2 = cbor.Marshal(cs2); e2 != nil {
				c.c01ChainViolate(ch, "doerner-refresh", label, []string{"restore: refreshed sender config cannot be serialized: " + e2.Error()})
				return
			}
		}
		nr, ns, e := restore()
		if e != "" {
			c.c01ChainViolate(ch, "doerner-sign", label, []string{"restore before signing failed: " + e})
			return
		}
		msg := msgOfLen(rng, []int{32, 20, 64}[rng.Intn(3)])
		sg := twoPartySim(ids, nil, doerner.SignReceiver(nr, ids[0], ids[1], msg, nil), doerner.SignSender(ns, ids[1], ids[0], msg, nil), []byte{byte(i), 8}, true, true)
		sg.RunFIFO(10000)
		probs := c.c01SessionProblems(sg, pub, msg, false)
		c.res.Case(fmt.Sprintf("doerner-sign/%s", label), fmt.Sprintf("doerner/%x/%s/%d", msg, label, ch.Seed), true)
		if len(probs) > 0 {
			c.c01ChainViolate(ch, "doerner-sign", label, probs)
		}
	}
}

// c01ChainsLight: the FROST / FROST-Taproot / Doerner chains of a run
func (c *ctx) c01ChainsLight() {
	k := int64(0)
	shapes := [][2]int{{3, 1}, {4, 2}, {2, 1}, {3, 0}}
	if c.thorough() {
		shapes = [][2]int{{2, 0}, {2, 1}, {3, 0}, {3, 1}, {3, 2}, {4, 1}, {4, 2}, {4, 3}, {5, 2}}
	}
	sets := []string{"names", "short", "long40", "nonascii"}
	for i, nt := range shapes {
		for _, kind := range []string{"frost", "taproot-frost"} {
			k++
			steps := []string{"refresh", "refresh", "restore"}
			if (i+int(k))%2 == 1 {
				steps = []string{"restore", "refresh", "refresh"}
			}
			c.c01RunChain(c01Chain{Kind: kind, N: nt[0], T: nt[1], IDs: idSets[sets[i%len(sets)]][:nt[0]], Steps: steps, Seed: c.res.Seed*1299709 + k}, nil)
		}
	}
	nd := 1
	if c.thorough() {
		nd = 4
	}
	for i := 0; i < nd; i++ {
		k++
		c.c01RunChain(c01Chain{Kind: "doerner", N: 2, T: 1, IDs: []string{"recv", "send"}, Steps: []string{"refresh", "refresh"}, Seed: c.res.Seed*1299709 + k}, nil)
	}
}

// c01ChainCMP: the CMP chain of a run, starting from the material of the key generation the fresh-material sessions used
func (c *ctx) c01ChainCMP(cmpMat []interface{}, cmpIDs []party.ID) {
	k := int64(1000)
	if cmpMat != nil {
		k++
		var ids []string
		for _, id := range cmpIDs {
			ids = append(ids, string(id))
		}
		steps := []string{"refresh"} // the expensive one: once in the quick tier
		if c.thorough() {
			steps = []string{"refresh", "refresh", "restore"}
		}
		c.c01RunChain(c01Chain{Kind: "cmp", N: len(ids), T: 1, IDs: ids, Steps: steps, Seed: c.res.Seed*1299709 + k, Online: true}, cmpMat)
	}
}

// c01Replay: a replay file describing a chain re-runs exactly that chain (its own key generation included)
func (c *ctx) c01Replay() bool {
	var ch c01Chain
	if err := readJSON(c.replay, &ch); err != nil || ch.Kind == "" || len(ch.Steps) == 0 {
		return false
	}
	ch.After, ch.Problems = "", nil
	c.c01RunChain(ch, nil)
	c.res.Sample(3, map[string]interface{}{"replayed": ch})
	return true
}
