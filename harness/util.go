package main

import (
	"encoding/json"
	"os"
)

func readJSON(path string, v interface{}) error {
	b, err := os.ReadFile(path)
	if err != nil {
		return err
	}
	// replay files written by ./check wrap the harness replay under "replay"
	var wrap struct {
		Replay json.RawMessage `json:"replay"`
	}
	if json.Unmarshal(b, &wrap) == nil && len(wrap.Replay) > 0 {
		return json.Unmarshal(wrap.Replay, v)
	}
	return json.Unmarshal(b, v)
}
