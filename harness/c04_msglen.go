package main

// C04, message-digest length as a dimension of the signing sessions.
// Every scenario of c04.go signs the fixed 32-byte digest c03Msg.  The API takes a `messageHash []byte` of any length (a
// SHA-1, SHA-384 or SHA-512 digest, or an application's own 33-byte encoding), and the blame computations of the signing
// rounds turn that digest into a scalar themselves (VerifySignatureShares, the FROST challenge): a blame computation that
// converts it differently from the signing computation names every signer as soon as one share is wrong.  Here:
//   * the state-level "sigma" deviation (one signer announces a wrong signature share) of the presign variants that sign
//     (full / online) on digests of 20, 33, 48 and 64 bytes, every cheater position for the cheap online variant, one
//     (seed-rotated) position for the full variant;
//   * a sample of the mutation catalogue (every field of the FROST / FROST-Taproot signing messages and of the CMP
//     presign-online message at every length; CMP sign: one field per message part of the later rounds at one seed-chosen
//     length > 32).  Quick tier: the full variant runs on two of the four lengths (seed-chosen, one <= 33, one >= 48).
// Oracle unchanged (c04JudgeState / c04Judge): no honest party named, the cheater named when attributable.  The keys carry
// the digest length (`.../msg-len=<n>`), the replay structs carry `msg_len`.

import (
	"crypto/sha512"
	"math/rand"
	"strings"
	"time"
)

var c04MsgLens = []int{20, 33, 48, 64}

// c04MsgOfLen: a fixed digest of n bytes (SHA-512 output stream over c03Msg), the same in every run and in replays
func c04MsgOfLen(n int) []byte {
	var out []byte
	for ctr := byte(0); len(out) < n; ctr++ {
		d := sha512.Sum512(append([]byte{ctr}, c03Msg...))
		out = append(out, d[:]...)
	}
	return out[:n]
}

// withMsg: the same key material (shared read-only: every run restores private objects from m.ser) with another message digest
func (m *c03Mat) withMsg(msg []byte) *c03Mat {
	m2 := *m
	m2.msg = msg
	return &m2
}

// c04MsgLenStates: the sigma deviation on digests of other lengths (own seeded stream: the cases of c04.go do not depend on it)
func c04MsgLenStates(c *ctx, m *c03Mat) []c04State {
	rng := rand.New(rand.NewSource(c.res.Seed*7919 + 404))
	var sts []c04State
	for _, variant := range []string{"online", "full"} {
		if variant == "online" && m.cmpPre == nil {
			continue
		}
		lens := c04MsgLens
		if variant == "full" && !c.thorough() {
			// quick: the full variant (seconds per run) on one digest shorter than / of about the order's length and one longer
			lens = []int{[]int{20, 33}[rng.Intn(2)], []int{48, 64}[rng.Intn(2)]}
		}
		for _, l := range lens {
			pos := []int{0, 1, 2}
			if variant == "full" && !c.thorough() {
				pos = []int{rng.Intn(3)}
			}
			for _, i := range pos {
				sts = append(sts, c04State{Variant: variant, Deviation: "sigma", Cheater: string(m.ids[i]), Seed: rng.Int63(), Schedule: "cheater-last", MsgLen: l})
			}
		}
	}
	return sts
}

// c04MsgLenSweep: a sample of the catalogue on digests of other lengths
func c04MsgLenSweep(c *ctx, m *c03Mat, judge func(p *c03Proto, out *c03Outcome)) {
	rng := rand.New(rand.NewSource(c.res.Seed*7919 + 405))
	type job struct {
		name string
		lens []int
		plan c03Plan
	}
	var jobs []job
	light := c03Plan{AltsPerField: 2, Instances: 1, Positions: 1, Splits: true}
	if c.thorough() {
		light = c03Plan{AltsPerField: 4, Instances: 2, Splits: true, MsgLevel: true}
	}
	if m.frostCfg != nil {
		jobs = append(jobs, job{"frost-sign", c04MsgLens, light})
	}
	if m.tapCfg != nil {
		jobs = append(jobs, job{"taproot-frost-sign", c04MsgLens, light})
	}
	if m.cmpCfg != nil && m.cmpPre != nil {
		jobs = append(jobs, job{"cmp-presign-online", c04MsgLens, light})
	}
	if m.cmpCfg != nil {
		long := []int{33, 48, 64}
		lens := []int{long[rng.Intn(len(long))]}
		if c.thorough() {
			lens = c04MsgLens
		}
		// CMP sign (seconds per case): one rng-chosen leaf field per message part, one cheater position; quick tier: only the
		// messages of the second half of the session (the digest enters the computation of the signature shares at its end)
		plan := c03Plan{AltsPerField: 1, Instances: 1, Positions: 1, OnePerPart: true}
		if !c.thorough() {
			plan.OnlyFields = func(f c03Field) bool { return f.Round >= 4 }
		}
		jobs = append(jobs, job{"cmp-sign", lens, plan})
	}
	for _, j := range jobs {
		for _, l := range j.lens {
			ml := m.withMsg(c04MsgOfLen(l))
			p := c03ProtoByName(ml, j.name)
			if p == nil {
				continue
			}
			t0 := time.Now()
			cases := c03Cases(c, p, j.plan)
			for i := range cases {
				cases[i].MsgLen = l
			}
			outs := c03RunAll(p, cases)
			applied := 0
			for _, out := range outs {
				if out.Applied {
					applied++
				}
				judge(p, out)
			}
			c.res.Note("%s, %d-byte digest: %d cases (%d applied) in %.1f s", j.name, l, len(cases), applied, time.Since(t0).Seconds())
			if len(cases) > 0 && applied == 0 && !strings.HasPrefix(j.name, "cmp-sign") {
				c.res.Note("%s, %d-byte digest: no alteration applied (did the honest reference session run?)", j.name, l)
			}
		}
	}
}
