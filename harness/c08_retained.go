package main

// C08, retained in-memory configs (see retained.go): the refresh session is given the SAME objects the application keeps using.
//  (a) the retained old config after a refresh is still the OLD epoch: its serialisation is the one taken before the refresh
//      (also checked at the start of the session and at every point where the session is suspended);
//  (b) a signing session with the current in-memory configs, run while the refresh session of the same objects is suspended
//      between each pair of rounds (every message of rounds <= k delivered, nothing of round k+1), and -- `Mid` -- while ONE party
//      is a round ahead of the others (it alone has received its round-k messages), behaves as without the refresh: completes,
//      signature valid under the key recorded at key generation (reference verifier);
//  (c) a refresh aborted (Stop at every party) after round k, for every k including 0, leaves the current objects unchanged
//      and usable: the same objects go through all the aborted sessions and sign after each.
// Keys: C08/<protocol>/retained-config/<where>, C08/<protocol>/sign-during-refresh/round<k>[-one-party-ahead].

import (
	"fmt"
	"math/rand"

	"github.com/taurusgroup/multi-party-sig/pkg/party"
)

type c08RetReplay struct {
	Scenario string       `json:"retained_scenario"` // "refresh-on-retained-objects"
	Proto    string       `json:"protocol"`
	N        int          `json:"n"`
	T        int          `json:"t"`
	IDs      []string     `json:"ids"`
	Seed     int64        `json:"seed"`
	Mid      bool         `json:"also_one_party_ahead"`
	Aborts   []int        `json:"abort_after_rounds"` // nil = every round
	Problems []retProblem `json:"problems,omitempty"`
}

func (c *ctx) c08Retained(rp c08RetReplay, mat0 []interface{}) {
	var probs []retProblem
	add := func(where, class, text string) { probs = append(probs, retProblem{where, class, text}) }
	rng := rand.New(rand.NewSource(rp.Seed))
	ids := idsOf(rp.IDs...)
	var et string
	if mat0 == nil {
		mat0, ids, et = retKeygen(rp.Proto, ids, rp.T, []byte(fmt.Sprintf("c08ret-%s-%d", rp.Proto, rp.Seed)), rp.Seed)
	} else {
		ids = party.NewIDSlice(ids)
		if rp.Proto == "doerner" {
			ids = idsOf("recv", "send")
		}
	}
	defer func() {
		c.res.Case(fmt.Sprintf("%s/retained-config/n=%d/t=%d", rp.Proto, rp.N, rp.T), fmt.Sprintf("c08ret/%s/%d/%d/%v/%d", rp.Proto, rp.N, rp.T, rp.IDs, rp.Seed), true)
		c.res.Corr(len(probs) == 0)
		seen := map[string]bool{}
		for _, p := range probs {
			key := fmt.Sprintf("C08/%s/%s", rp.Proto, p.Step)
			if seen[key] {
				continue
			}
			seen[key] = true
			r := rp
			r.Problems = probs
			c.res.Violate("property", key, fmt.Sprintf("%s n=%d t=%d, refresh given the in-memory objects the application keeps (%s): %s", rp.Proto, rp.N, rp.T, p.Class, p.Text), r)
		}
	}()
	if et != "" {
		add("retained-config/keygen", "incomplete", "key generation for the scenario did not complete: "+et)
		return
	}
	dl := rp.Proto == "doerner"
	pub, xonly, chain, err := retKeyOf(mat0[0])
	if err != nil {
		add("retained-config/keygen", "incomplete", err.Error())
		return
	}
	key := retRefKey{Pub: append([]byte{}, pub...), Chain: append([]byte{}, chain...), XOnly: xonly}
	subs := allSubsetsLargerThan(ids, rp.T)
	nsign := 0
	sign := func(where string, objs []interface{}) {
		S := ids
		if !dl {
			nsign++
			S = subs[(int(rp.Seed%5)+nsign*3)%len(subs)]
		}
		msg := msgOfLen(rng, 32)
		s := retSignSim(objs, S, msg, []byte(fmt.Sprintf("c08ret-%s-%d", where, rp.Seed)), rng.Int63())
		retRun(s)
		c.res.Case(fmt.Sprintf("%s/sign-on-retained-config", rp.Proto), fmt.Sprintf("c08ret-sign/%s/%s/%d", rp.Proto, where, rp.Seed), true)
		if ps := retSessionProblems(c, s, key, msg, dl); len(ps) > 0 {
			add(where, c01ProblemClass(ps[0]), fmt.Sprintf("signing session of %v with the current in-memory configs: %s", S, retJoin(ps)))
		}
	}
	// ---- (a) + (b): one refresh session, suspended at every round boundary ----
	cur, e := retRestore(mat0)
	if e != "" {
		add("retained-config/restore", "restore-failed", e)
		return
	}
	g, err := retSnap(retNames("config", cur), cur)
	if err != nil {
		add("retained-config/restore", "not-serialisable", err.Error())
		return
	}
	rs := retRefreshSim(cur, []byte(fmt.Sprintf("c08ret-refresh-%d", rp.Seed)), rng.Int63())
	if bad := g.changed(); len(bad) > 0 {
		add("retained-config/refresh-start", "config-changed", "starting the refresh session changed the caller's object: "+retJoin(bad))
	}
	rounds := 0
	for k := 1; k < 20; k++ {
		if rp.Mid {
			if n := retRunRound(rs, k, map[party.ID]bool{ids[0]: true}); n > 0 && len(rs.Flight) > 0 {
				if bad := g.changed(); len(bad) > 0 {
					add(fmt.Sprintf("retained-config/round%d-one-party-ahead", k), "config-changed-during-refresh",
						fmt.Sprintf("%s alone has consumed its round-%d messages of the refresh; the application's current objects changed: %s", ids[0], k, retJoin(bad)))
				}
				sign(fmt.Sprintf("sign-during-refresh/round%d-one-party-ahead", k), cur)
			}
		}
		retRunRound(rs, k, nil)
		if len(rs.Flight) == 0 {
			rounds = k
			break
		}
		if bad := g.changed(); len(bad) > 0 {
			add(fmt.Sprintf("retained-config/round%d", k), "config-changed-during-refresh",
				fmt.Sprintf("refresh suspended after round %d (not complete at any party); the application's current objects changed: %s", k, retJoin(bad)))
		}
		sign(fmt.Sprintf("sign-during-refresh/round%d", k), cur)
	}
	if _, e := retMaterialOf(rs, ids); e != "" {
		add("retained-config/refresh", "session-incomplete", "all-honest refresh on the retained objects did not complete: "+e)
	} else if bad := g.changed(); len(bad) > 0 {
		add("retained-config/after-refresh", "old-config-changed",
			"the retained pre-refresh object is no longer the old epoch (differs from its serialisation taken before the refresh): "+retJoin(bad))
	}
	// ---- (c): aborted refresh sessions on one set of objects ----
	curB, e := retRestore(mat0)
	if e != "" {
		add("retained-config/restore", "restore-failed", e)
		return
	}
	gB, err := retSnap(retNames("config", curB), curB)
	if err != nil {
		return
	}
	aborts := rp.Aborts
	if aborts == nil {
		for k := 0; k < rounds; k++ {
			aborts = append(aborts, k)
		}
	}
	for _, k := range aborts {
		if k >= rounds && rounds > 0 {
			continue
		}
		as := retRefreshSim(curB, []byte(fmt.Sprintf("c08ret-abort-%d-%d", k, rp.Seed)), rng.Int63())
		retRunRound(as, k, nil)
		for _, id := range ids {
			if n := as.Nodes[id]; n != nil && n.H != nil {
				as.Stop(id)
			}
		}
		retRun(as) // the abort notices reach the peers
		where := fmt.Sprintf("retained-config/aborted-after-round%d", k)
		c.res.Case(fmt.Sprintf("%s/aborted-refresh", rp.Proto), fmt.Sprintf("c08ret-abort/%s/%d/%d", rp.Proto, k, rp.Seed), true)
		if bad := gB.changed(); len(bad) > 0 {
			add(where, "config-changed", fmt.Sprintf("refresh stopped by every party after round %d; the application's current objects changed: %s", k, retJoin(bad)))
		}
		sign(where, curB)
	}
}

func (c *ctx) c08RetainedAll(cmpMat []interface{}, cmpIDs []party.ID) {
	seed := c.res.Seed*6151 + 5
	shapes := []struct {
		proto string
		n, t  int
		set   string
	}{{"frost", 3, 1, "names"}, {"frost-taproot", 3, 1, "short"}, {"doerner", 2, 1, "names"}}
	if c.thorough() {
		shapes = append(shapes, []struct {
			proto string
			n, t  int
			set   string
		}{{"frost", 2, 1, "nonascii"}, {"frost-taproot", 4, 2, "names"}, {"frost", 4, 1, "prefix"}}...)
	}
	for i, sh := range shapes {
		c.c08Retained(c08RetReplay{Scenario: "refresh-on-retained-objects", Proto: sh.proto, N: sh.n, T: sh.t, IDs: idSets[sh.set][:sh.n], Seed: seed + int64(i), Mid: true}, nil)
	}
	if cmpMat != nil {
		var ids []string
		for _, id := range cmpIDs {
			ids = append(ids, string(id))
		}
		rp := c08RetReplay{Scenario: "refresh-on-retained-objects", Proto: "cmp", N: len(ids), T: 1, IDs: ids, Seed: seed + 100, Mid: c.thorough()}
		if !c.thorough() {
			// quick tier: every round boundary of the one suspended session, and one aborted session (round chosen by the seed)
			rp.Aborts = []int{int(c.res.Seed % 5)}
		}
		c.c08Retained(rp, cmpMat)
	}
}

func (c *ctx) c08RetReplayRun() bool {
	var rp c08RetReplay
	if err := readJSON(c.replay, &rp); err != nil || rp.Scenario != "refresh-on-retained-objects" {
		return false
	}
	rp.Problems = nil
	c.res.Rule = "replay of one refresh-on-retained-objects scenario"
	c.c08Retained(rp, nil)
	return true
}
