package main

// C10 -- ZK proofs are complete on their domain and bound to statement and context.
// For each of the 15 proof systems of pkg/zk:
//   correspondence: (prefix, public, commitment, responses) triples are judged by the Go Verify and by the Coq model
//     (coq/Model/ZK.v through ops zk.X.items / zk.X.verify): the model builds the Fiat-Shamir byte stream from ITS OWN
//     challenge item list, the harness hashes it with BLAKE3 and the model derives e from the digest bytes and evaluates
//     the verifier's checks.  Verdicts (accept / reject / EncWithNonce panic) must agree on every triple.
//   property: honest proofs (made by the library's NewProof with the real sampler, and made by the MODEL's prover with
//     boundary masks) for witnesses on the boundary lattice must verify; every perturbed triple must be rejected.
// Real 2048-bit moduli only (pkg/zk/default.go and /verif/data/safeprimes24.txt).  c10_sys.go has the per-system glue.

import (
	crand "crypto/rand"
	"fmt"
	"io"
	"math/big"
	"math/rand"
	"os"
	"runtime/debug"
	"sort"
	"strings"
	"sync"
	"time"

	"github.com/cronokirby/saferith"
	"github.com/zeebo/blake3"

	"github.com/taurusgroup/multi-party-sig/pkg/hash"
	"github.com/taurusgroup/multi-party-sig/pkg/math/arith"
	"github.com/taurusgroup/multi-party-sig/pkg/math/curve"
	"github.com/taurusgroup/multi-party-sig/pkg/paillier"
	"github.com/taurusgroup/multi-party-sig/pkg/pedersen"
	"github.com/taurusgroup/multi-party-sig/pkg/pool"
	"github.com/taurusgroup/multi-party-sig/pkg/zk"

	"verifharness/hk"
	"verifharness/model"
	"verifharness/sx"
)

func init() { props["C10"] = runC10 }

// ---------------------------------------------------------------------------------------------------------------
// deterministic crypto/rand.Reader (the library's samplers read it at call time)

type zkRand struct {
	mu sync.Mutex
	r  *rand.Rand
}

func (d *zkRand) Read(p []byte) (int, error) {
	d.mu.Lock()
	defer d.mu.Unlock()
	return d.r.Read(p)
}

// ---------------------------------------------------------------------------------------------------------------
// integer helpers (math/big only: the statements are built without the library)

var bigOne = big.NewInt(1)

func pow2(k int) *big.Int               { return new(big.Int).Lsh(bigOne, uint(k)) }
func bAdd(a, b *big.Int) *big.Int       { return new(big.Int).Add(a, b) }
func bSub(a, b *big.Int) *big.Int       { return new(big.Int).Sub(a, b) }
func bMul(a, b *big.Int) *big.Int       { return new(big.Int).Mul(a, b) }
func bMod(a, n *big.Int) *big.Int       { return new(big.Int).Mod(a, n) }
func bNeg(a *big.Int) *big.Int          { return new(big.Int).Neg(a) }
func bMulMod(a, b, n *big.Int) *big.Int { return bMod(bMul(a, b), n) }

// x^e mod n for a signed exponent (inverse of the positive power when e < 0)
func expIB(n, x, e *big.Int) *big.Int {
	if e.Sign() >= 0 {
		return new(big.Int).Exp(x, e, n)
	}
	y := new(big.Int).Exp(x, new(big.Int).Abs(e), n)
	return y.ModInverse(y, n)
}

// (1+N)^m rho^N mod N^2 without any range guard
func encB(N, m, rho *big.Int) *big.Int {
	n2 := bMul(N, N)
	return bMulMod(expIB(n2, bAdd(N, bigOne), m), new(big.Int).Exp(rho, N, n2), n2)
}

func pedB(nh, s, t, x, y *big.Int) *big.Int { return bMulMod(expIB(nh, s, x), expIB(nh, t, y), nh) }

func randUnit(r *rand.Rand, n *big.Int) *big.Int {
	for {
		z := randBig(r, n.BitLen())
		if z.Sign() > 0 && z.Cmp(n) < 0 && new(big.Int).GCD(nil, nil, z, n).Cmp(bigOne) == 0 {
			return z
		}
	}
}

// uniform in [-(2^bits - 1), 2^bits - 1] as sampleNeg does
func randSigned(r *rand.Rand, bits int) *big.Int {
	z := randBig(r, bits)
	if r.Intn(2) == 0 {
		z.Neg(z)
	}
	return z
}

// ---------------------------------------------------------------------------------------------------------------
// conversions between the model's value language and the library's types

var zkGroup = curve.Secp256k1{}

func natBits(z *big.Int, bits int) *saferith.Nat {
	if z.Sign() < 0 {
		panic("negative Nat")
	}
	if z.BitLen() > bits {
		bits = z.BitLen()
	}
	return new(saferith.Nat).SetBig(z, bits)
}
func intOfBig(z *big.Int) *saferith.Int { return new(saferith.Int).SetBig(z, z.BitLen()+1) }
func modOfBig(n *big.Int) *saferith.Modulus {
	return saferith.ModulusFromNat(new(saferith.Nat).SetBig(n, n.BitLen()))
}
func pkOfBig(n *big.Int) *paillier.PublicKey { return paillier.NewPublicKey(modOfBig(n)) }
func pedOfBig(n, s, t *big.Int) *pedersen.Parameters {
	return pedersen.New(arith.ModulusFromN(modOfBig(n)), natBits(s, 2048), natBits(t, 2048))
}
func ctOfBig(z *big.Int) *paillier.Ciphertext {
	ct := new(paillier.Ciphertext)
	buf := make([]byte, 512)
	z.FillBytes(buf)
	if err := ct.UnmarshalBinary(buf); err != nil {
		panic(err)
	}
	return ct
}
func scalarOfBig(z *big.Int) curve.Scalar {
	return zkGroup.NewScalar().SetNat(natBits(bMod(z, secpQ), 256))
}
func bigOfScalar(s curve.Scalar) *big.Int {
	b, _ := s.MarshalBinary()
	return new(big.Int).SetBytes(b)
}
func bigOfCt(c *paillier.Ciphertext) *big.Int { return c.Nat().Big() }

// affine coordinates of a library point (y recovered from the compressed form)
func ptSx(p curve.Point) sx.V {
	if p == nil || p.IsIdentity() {
		return sx.List()
	}
	b, _ := p.MarshalBinary()
	x := new(big.Int).SetBytes(b[1:])
	rhs := bMod(bAdd(bMul(bMul(x, x), x), big.NewInt(7)), secpP)
	y := new(big.Int).ModSqrt(rhs, secpP)
	if y == nil {
		panic("point not on curve")
	}
	if (y.Bit(0) == 1) != (b[0] == 3) {
		y.Sub(secpP, y)
	}
	return sx.List(sx.Big(x), sx.Big(y))
}
func sxPt(v sx.V) curve.Point {
	p := zkGroup.NewPoint()
	if len(v.L) == 0 {
		return p
	}
	b := make([]byte, 33)
	b[0] = 2
	if v.L[1].Z.Bit(0) == 1 {
		b[0] = 3
	}
	v.L[0].Z.FillBytes(b[1:])
	if err := p.UnmarshalBinary(b); err != nil {
		panic(err)
	}
	return p
}
func ptMulBase(k *big.Int) curve.Point            { return scalarOfBig(k).ActOnBase() }
func ptMul(k *big.Int, p curve.Point) curve.Point { return scalarOfBig(k).Act(p) }

func zs(v ...*big.Int) []sx.V {
	out := make([]sx.V, len(v))
	for i, z := range v {
		out[i] = sx.Big(z)
	}
	return out
}
func cat(a ...[]sx.V) sx.V {
	var l []sx.V
	for _, x := range a {
		l = append(l, x...)
	}
	return sx.List(l...)
}
func zAt(v sx.V, i int) *big.Int { return v.L[i].Z }

// ---------------------------------------------------------------------------------------------------------------
// key material

type zkKeys struct {
	name       string
	p1, q1, n1 *big.Int // prover's Paillier key
	p0, q0, n0 *big.Int // verifier's Paillier key
	nh, s, t   *big.Int // Pedersen parameters (over the verifier's modulus)
	lambda     *big.Int // s = t^lambda (nil when unknown: pkg/zk/default.go)
	ordQR      *big.Int // order of the group of squares mod nh: (p0-1)/2 * (q0-1)/2
	skProver   *paillier.SecretKey
	skVerifier *paillier.SecretKey
}

func (k *zkKeys) phi0() *big.Int { return bMul(bSub(k.p0, bigOne), bSub(k.q0, bigOne)) }
func (k *zkKeys) phi1() *big.Int { return bMul(bSub(k.p1, bigOne), bSub(k.q1, bigOne)) }

func zkKeySets(r *rand.Rand, n int) []*zkKeys {
	var out []*zkKeys
	d := &zkKeys{name: "default.go"}
	d.p1, d.q1 = zk.ProverPaillierSecret.P().Big(), zk.ProverPaillierSecret.Q().Big()
	d.p0, d.q0 = zk.VerifierPaillierSecret.P().Big(), zk.VerifierPaillierSecret.Q().Big()
	d.nh, d.s, d.t = zk.Pedersen.N().Big(), zk.Pedersen.S().Big(), zk.Pedersen.T().Big()
	d.skProver, d.skVerifier = zk.ProverPaillierSecret, zk.VerifierPaillierSecret
	out = append(out, d)
	loadPrimes()
	for i := 0; len(out) < n && 4*i+3 < len(primeList); i++ {
		k := &zkKeys{name: fmt.Sprintf("safeprimes24/%d", i)}
		k.p1, k.q1, k.p0, k.q0 = primeList[4*i], primeList[4*i+1], primeList[4*i+2], primeList[4*i+3]
		k.nh = bMul(k.p0, k.q0)
		tau := randUnit(r, k.nh)
		k.t = bMulMod(tau, tau, k.nh)
		k.lambda = randBig(r, 2046)
		k.s = new(big.Int).Exp(k.t, k.lambda, k.nh)
		k.skProver = paillier.NewSecretKeyFromPrimes(natBits(k.p1, 1024), natBits(k.q1, 1024))
		k.skVerifier = paillier.NewSecretKeyFromPrimes(natBits(k.p0, 1024), natBits(k.q0, 1024))
		out = append(out, k)
	}
	for _, k := range out {
		k.n1, k.n0 = bMul(k.p1, k.q1), bMul(k.p0, k.q0)
		k.ordQR = bMul(new(big.Int).Rsh(k.p0, 1), new(big.Int).Rsh(k.q0, 1))
	}
	return out
}

// ---------------------------------------------------------------------------------------------------------------
// system descriptors

const (
	eScalar = iota
	eInterval
	eBits
	eModN
)

// verdicts
const (
	vReject   = 0
	vAccept   = 1
	vEncPanic = 2 // paillier.EncWithNonce refused the plaintext
	vPanic    = 3 // any other Go panic (outside the model)
)

type zkInst struct {
	keys  *zkKeys
	class string
	pub   sx.V // layout of the model op's pub list
	wit   sx.V // layout of the model op's wit list
	priv  interface{}
}

type respRange struct {
	idx  int // index into resp
	bits int // accepted iff TrueLen <= bits
	rnd  int // index into rnd of the mask that feeds this response
	wit  []int
}

type zkDef struct {
	name       string
	eKind      int
	pubK       string // field kinds of pub, com, resp (see perturbField)
	comK       string
	respK      string
	classes    []string
	gen        func(g *zkGen, k *zkKeys, class string) *zkInst
	goProve    func(inst *zkInst, h *hash.Hash) (com, resp sx.V)
	goVerif    func(pub, com, resp sx.V, h *hash.Hash, nilField string) bool
	rnd        func(g *zkGen, inst *zkInst) []sx.V // honest prover randomness in the model op's rnd layout
	ranges     []respRange
	nilable    []string        // names understood by goVerif's nilField
	procs      int             // model processes (parallel evaluation of jobs)
	degenerate map[string]bool // witness classes whose statement verifies independently of the challenge
}

type zkGen struct {
	r *rand.Rand
	c *ctx
}

var zkPool *pool.Pool

// witness lattice for a value documented as "in +-2^bits"
var latticeClasses = []string{"zero", "one", "minus-one", "max", "min", "pow", "neg-pow", "random", "random2"}

func latticeValue(r *rand.Rand, class string, bits int) *big.Int {
	switch class {
	case "zero":
		return new(big.Int)
	case "one":
		return big.NewInt(1)
	case "minus-one":
		return big.NewInt(-1)
	case "max":
		return bSub(pow2(bits), bigOne)
	case "min":
		return bNeg(bSub(pow2(bits), bigOne))
	case "pow":
		return pow2(bits)
	case "neg-pow":
		return bNeg(pow2(bits))
	}
	return randSigned(r, bits)
}

// a scalar witness: lattice of [0,q)
func latticeScalar(r *rand.Rand, class string) *big.Int {
	switch class {
	case "zero":
		return new(big.Int)
	case "one":
		return big.NewInt(1)
	case "minus-one", "max":
		return bSub(secpQ, bigOne)
	case "min":
		return big.NewInt(2)
	case "pow":
		return new(big.Int).Rsh(secpQ, 1)
	case "neg-pow":
		return bAdd(new(big.Int).Rsh(secpQ, 1), bigOne)
	}
	return bMod(randBig(r, 256), secpQ)
}

// ---------------------------------------------------------------------------------------------------------------
// evaluation of one triple on both sides

type c10Replay struct {
	System  string `json:"system"`
	Case    string `json:"case"`
	Keys    string `json:"keys,omitempty"`
	Prefix  string `json:"prefix"`
	Pub     string `json:"pub"`
	Com     string `json:"com"`
	Resp    string `json:"resp"`
	Go      int    `json:"go_verdict"`
	Model   int    `json:"model_verdict"`
	Expect  string `json:"expect"`
	GoPanic string `json:"go_panic,omitempty"`
	What    string `json:"what"`
}

type zkTriple struct {
	prefix         []sx.V
	pub, com, resp sx.V
}

func blakeXOF(b []byte, n int) []byte {
	h := blake3.New()
	h.Write(b)
	out := make([]byte, n)
	io.ReadFull(h.Digest(), out)
	return out
}

func goHashOf(prefix []sx.V) *hash.Hash {
	h := hash.New()
	for _, v := range prefix {
		_ = h.WriteAny(goValue(v))
	}
	return h
}

// one evaluation context per proof system: private result, private model processes
type zkSub struct {
	c      *ctx
	models []*model.Client // models[0] == c.m
}

var zkSubs sync.Map // *ctx -> *zkSub

func (c *ctx) sub() *zkSub {
	if v, ok := zkSubs.Load(c); ok {
		return v.(*zkSub)
	}
	s := &zkSub{c: c, models: []*model.Client{c.m}}
	zkSubs.Store(c, s)
	return s
}

func zkGo(d *zkDef, t zkTriple, nilField string) (verdict int, msg string) {
	defer func() {
		if e := recover(); e != nil {
			msg = fmt.Sprint(e)
			if strings.Contains(msg, "paillier.Encrypt") {
				verdict = vEncPanic
			} else {
				verdict = vPanic
				st := string(debug.Stack())
				if i := strings.Index(st, "pkg/zk/"); i >= 0 {
					j := strings.IndexAny(st[i:], "(\n")
					if strings.HasPrefix(st[i+j:], "(*") {
						j += strings.IndexAny(st[i+j+1:], "(\n") + 1
					}
					msg += " @ " + st[i:i+j]
				}
			}
		}
	}()
	defer tmAdd("go.verify."+d.name, time.Now())
	if d.goVerif(t.pub, t.com, t.resp, goHashOf(t.prefix), nilField) {
		return vAccept, ""
	}
	return vReject, ""
}

// model: its own transcript -> BLAKE3 -> its own derivation of e
func zkModelChallenge(m *model.Client, d *zkDef, prefix []sx.V, pub, com sx.V) (e sx.V, ok bool, err error) {
	t0 := time.Now()
	rep, err := m.Call("zk."+d.name+".items", sx.List(sx.List(prefix...), pub, com))
	tmAdd("model.items."+d.name, t0)
	if err != nil {
		return sx.V{}, false, err
	}
	stream, sok := rep.L[0].B, rep.L[1].AsBool()
	if !sok {
		return sx.V{}, false, nil
	}
	switch d.eKind {
	case eScalar:
		e, err = m.Call("zk.e_scalar", sx.Bytes(blakeXOF(stream, 32)))
	case eInterval:
		e, err = m.Call("zk.e_interval", sx.Bytes(blakeXOF(stream, 33)))
	case eBits:
		e, err = m.Call("zk.e_bits", sx.Bytes(blakeXOF(stream, 80)))
	case eModN:
		n := pub.L[0].Z
		k := (n.BitLen() + 7) / 8
		if k == 0 {
			k = 1
		}
		for chunks := 200; ; chunks *= 4 {
			e, err = m.Call("zk.e_modn", sx.List(sx.Big(n), sx.Int(80), sx.Bytes(blakeXOF(stream, chunks*k))))
			if err != nil || len(e.L) == 80 || chunks > 100000 {
				break
			}
		}
	}
	return e, true, err
}

func zkModel(m *model.Client, d *zkDef, t zkTriple) (int, error) {
	e, ok, err := zkModelChallenge(m, d, t.prefix, t.pub, t.com)
	if err != nil {
		return 0, err
	}
	if !ok {
		return vReject, nil // challenge() returns an error, Verify returns false
	}
	t0 := time.Now()
	v, err := m.Call("zk."+d.name+".verify", sx.List(t.pub, t.com, t.resp, e))
	tmAdd("model.verify."+d.name, t0)
	if err != nil {
		return 0, err
	}
	return v.AsInt(), nil
}

func prefixString(p []sx.V) string { return sx.List(p...).String() }

const (
	expAccept = "accept"
	expReject = "reject"
	expAny    = "any" // outcome documented separately (panics, documented non-properties)
)

// a job produces a triple (possibly with the model's or the library's prover) which is then judged by both sides
type zkJob struct {
	cs     string
	expect string
	mk     func(m *model.Client) (zkTriple, bool, error)
	// results
	t      zkTriple
	made   bool
	gv, mv int
	gmsg   string
	err    error
}

func tripleJob(cs, expect string, t zkTriple) *zkJob {
	return &zkJob{cs: cs, expect: expect, mk: func(*model.Client) (zkTriple, bool, error) { return t, true, nil }}
}

// zkBatch runs the jobs on all model processes of the system and records the outcomes in job order
func (c *ctx) zkBatch(d *zkDef, k *zkKeys, jobs []*zkJob) {
	s := c.sub()
	ch := make(chan *zkJob)
	var wg sync.WaitGroup
	for _, m := range s.models {
		wg.Add(1)
		go func(m *model.Client) {
			defer wg.Done()
			for j := range ch {
				func() {
					defer func() {
						if e := recover(); e != nil {
							j.err = fmt.Errorf("harness panic: %v", e)
						}
					}()
					j.t, j.made, j.err = j.mk(m)
					if j.err != nil || !j.made {
						return
					}
					// the library and the model evaluate the triple concurrently
					done := make(chan struct{})
					go func() { j.gv, j.gmsg = zkGo(d, j.t, ""); close(done) }()
					j.mv, j.err = zkModel(m, d, j.t)
					<-done
				}()
			}
		}(m)
	}
	for _, j := range jobs {
		ch <- j
	}
	close(ch)
	wg.Wait()
	for _, j := range jobs {
		c.zkRecord(d, k, j)
	}
}

func (c *ctx) zkRecord(d *zkDef, k *zkKeys, j *zkJob) {
	key := "C10/" + d.name + "/" + j.cs
	if !j.made && j.err == nil {
		return // the prover itself refuses (EncWithNonce guard on the mask): nothing to verify
	}
	rp := c10Replay{System: d.name, Case: j.cs, Prefix: prefixString(j.t.prefix), Pub: j.t.pub.String(), Com: j.t.com.String(),
		Resp: j.t.resp.String(), Go: j.gv, Model: j.mv, Expect: j.expect, GoPanic: j.gmsg}
	if k != nil {
		rp.Keys = k.name
	}
	c.res.Case(d.name+"/"+j.cs, d.name+j.cs+rp.Prefix+rp.Pub+rp.Com+rp.Resp, true)
	if j.err != nil {
		c.res.Corr(false)
		rp.What = "model error: " + j.err.Error()
		c.res.Violate("correspondence", key+"/model-error", rp.What, rp)
		j.mv = -1
		return
	}
	agree := j.gv == j.mv
	c.res.Corr(agree)
	if !agree {
		rp.What = fmt.Sprintf("Go verdict %d, model verdict %d (0 reject, 1 accept, 2 EncWithNonce panic, 3 other panic)", j.gv, j.mv)
		c.res.Violate("correspondence", key+"/verdict-mismatch", rp.What, rp)
	}
	if j.gv == vPanic {
		c.res.Note("panic (C05) in zk%s.Verify, case %s: %s", d.name, j.cs, j.gmsg)
	}
	switch j.expect {
	case expAccept:
		if j.gv != vAccept {
			rp.What = "an honest proof for a witness in the documented range does not verify"
			c.res.Violate("property", key+"/honest-rejected", rp.What, rp)
		}
	case expReject:
		if j.gv == vAccept && j.mv == vAccept && strings.HasPrefix(j.cs, "false-statement/") {
			// a proof GENERATED for a statement in which one component was replaced: when the witness is degenerate (e.g. zkelog with
			// lambda = 0: M does not depend on X) the replaced statement is still TRUE and the proof legitimately verifies. The model's
			// verifier (equations proved in Coq) accepts it as well: no verdict. A verifier that accepts what the model rejects is
			// reported below as before (and as a verdict mismatch above).
			c.res.Case("false-statement/statement-still-true(model-accepts)", key, false)
			return
		}
		if j.gv == vAccept {
			rp.What = "a perturbed (statement, context, proof) triple verifies"
			c.res.Violate("property", key+"/accepted", rp.What, rp)
		}
	}
}

// zkCheck: one triple, sequentially
func (c *ctx) zkCheck(d *zkDef, k *zkKeys, cs string, t zkTriple, expect string) (int, int) {
	j := tripleJob(cs, expect, t)
	c.zkBatch(d, k, []*zkJob{j})
	return j.gv, j.mv
}

// ---------------------------------------------------------------------------------------------------------------
// perturbations

var secpGpt = zkGroup.NewBasePoint()

// perturbField returns variants of one field of kind k:
//
//	n non-negative integer (+1)   m modulus (+2)   i signed integer (+1)   c scalar (+1 mod q)   p point (+G)
//	L list of integers (first and a random element +1)   R list of zkmod responses
func perturbField(r *rand.Rand, k byte, v sx.V) (out []sx.V, names []string) {
	switch k {
	case 'n', 'i':
		return []sx.V{sx.Big(bAdd(v.Z, bigOne))}, []string{"+1"}
	case 'm':
		return []sx.V{sx.Big(bAdd(v.Z, big.NewInt(2)))}, []string{"+2"}
	case 'c':
		return []sx.V{sx.Big(bMod(bAdd(v.Z, bigOne), secpQ))}, []string{"+1"}
	case 'p':
		return []sx.V{ptSx(sxPt(v).Add(secpGpt))}, []string{"+G"}
	case 'L':
		mk := func(i int) sx.V {
			l := append([]sx.V{}, v.L...)
			l[i] = sx.Big(bAdd(l[i].Z, bigOne))
			return sx.List(l...)
		}
		j := r.Intn(len(v.L))
		return []sx.V{mk(0), mk(j)}, []string{"[0]+1", "[j]+1"}
	case 'R':
		j := r.Intn(len(v.L))
		mk := func(i, f int) sx.V {
			l := append([]sx.V{}, v.L...)
			e := append([]sx.V{}, l[i].L...)
			if f < 2 {
				e[f] = sx.Bool(!e[f].AsBool())
			} else {
				e[f] = sx.Big(bAdd(e[f].Z, bigOne))
			}
			l[i] = sx.List(e...)
			return sx.List(l...)
		}
		return []sx.V{mk(j, 0), mk(j, 1), mk(j, 2), mk(j, 3), mk(0, 3)}, []string{"[j].A", "[j].B", "[j].X+1", "[j].Z+1", "[0].Z+1"}
	}
	panic("kind")
}

func replaceAt(v sx.V, i int, x sx.V) sx.V {
	l := append([]sx.V{}, v.L...)
	l[i] = x
	return sx.List(l...)
}

var zkPrefixA = []sx.V{sx.List(sx.Int(0), sx.List(sx.Bytes([]byte("session-1")))), sx.List(sx.Int(7), sx.Bytes([]byte("alice")))}

func zkPrefixVariants() (out [][]sx.V, names []string) {
	id := func(s string) sx.V { return sx.List(sx.Int(7), sx.Bytes([]byte(s))) }
	ss := func(s string) sx.V { return sx.List(sx.Int(0), sx.List(sx.Bytes([]byte(s)))) }
	out = [][]sx.V{
		{ss("session-1"), id("bob")},
		{ss("session-2"), id("alice")},
		{},
		{ss("session-1")},
		{id("alice"), ss("session-1")},
		{ss("session-1"), id("alice"), id("alice")},
		{ss("session-"), id("1alice")},
	}
	names = []string{"other-party", "other-session", "no-context", "dropped-id", "reordered", "extended", "shifted-boundary"}
	return
}

// zkPerturbJobs: every perturbation of the valid triple t (t2: another valid proof of the same statement,
// t3: a valid proof of a different statement under the same keys)
func (c *ctx) zkPerturbJobs(d *zkDef, t, t2, t3 zkTriple) (jobs []*zkJob) {
	r := c.res.Rng
	add := func(cs string, nt zkTriple) { jobs = append(jobs, tripleJob(cs, expReject, nt)) }
	for part, kinds := range []string{d.pubK, d.comK, d.respK} {
		src := []sx.V{t.pub, t.com, t.resp}[part]
		pname := []string{"pub", "com", "resp"}[part]
		for i := 0; i < len(kinds); i++ {
			vs, ns := perturbField(r, kinds[i], src.L[i])
			for j, v := range vs {
				nt := t
				switch part {
				case 0:
					nt.pub = replaceAt(t.pub, i, v)
				case 1:
					nt.com = replaceAt(t.com, i, v)
				default:
					nt.resp = replaceAt(t.resp, i, v)
				}
				add(fmt.Sprintf("%s[%d]%s", pname, i, ns[j]), nt)
			}
		}
	}
	// oversized integers (far beyond any honest response) must be refused; pedersen.Verify / zkfac do so before exponentiating
	for i := 0; i < len(d.respK); i++ {
		if d.respK[i] == 'i' {
			nt := t
			nt.resp = replaceAt(t.resp, i, sx.Big(pow2(20000)))
			add(fmt.Sprintf("resp[%d]=oversized", i), nt)
		}
	}
	pv, pn := zkPrefixVariants()
	for i, p := range pv {
		nt := t
		nt.prefix = p
		add("context/"+pn[i], nt)
	}
	// substitution from other valid proofs
	for which, o := range []zkTriple{t2, t3} {
		tag := []string{"same-statement", "other-statement"}[which]
		if (which == 1) == o.pub.Equal(t.pub) || (o.com.Equal(t.com) && o.resp.Equal(t.resp)) {
			continue // no second proof / no second statement available (zkfac, zkmod: one statement per key set)
		}
		for i := range t.com.L {
			if !o.com.L[i].Equal(t.com.L[i]) {
				nt := t
				nt.com = replaceAt(t.com, i, o.com.L[i])
				add(fmt.Sprintf("swap-com[%d]/%s", i, tag), nt)
			}
		}
		for i := range t.resp.L {
			if !o.resp.L[i].Equal(t.resp.L[i]) {
				nt := t
				nt.resp = replaceAt(t.resp, i, o.resp.L[i])
				add(fmt.Sprintf("swap-resp[%d]/%s", i, tag), nt)
			}
		}
		nt := t
		nt.com = o.com
		add("swap-com-all/"+tag, nt)
		nt = t
		nt.resp = o.resp
		add("swap-resp-all/"+tag, nt)
		if which == 1 {
			nt = t
			nt.pub = o.pub
			add("proof-for-other-statement", nt)
		}
	}
	// responses replaced by values at the range boundary
	for _, rr := range d.ranges {
		for _, b := range []struct {
			name string
			v    *big.Int
		}{
			{"range-max", bSub(pow2(rr.bits), bigOne)}, {"range-max+1", pow2(rr.bits)},
			{"range-min", bNeg(bSub(pow2(rr.bits), bigOne))}, {"range-min-1", bNeg(pow2(rr.bits))},
		} {
			nt := t
			nt.resp = replaceAt(t.resp, rr.idx, sx.Big(b.v))
			add(fmt.Sprintf("resp[%d]=%s", rr.idx, b.name), nt)
		}
	}
	return jobs
}

// ---------------------------------------------------------------------------------------------------------------
// the model's prover: commitment from (wit, rnd), challenge from the model transcript, then the responses

func zkModelProve(m *model.Client, d *zkDef, inst *zkInst, prefix []sx.V, rnd sx.V) (t zkTriple, ok bool, err error) {
	e0 := sx.Int(0)
	if d.eKind == eBits {
		l := make([]sx.V, 80)
		for i := range l {
			l[i] = sx.Int(0)
		}
		e0 = sx.List(l...)
	}
	if d.eKind == eModN {
		// the zkmod prover has no commitment besides w; the responses depend on the challenge only
		com := sx.List(rnd.L[0])
		e, _, err := zkModelChallenge(m, d, prefix, inst.pub, com)
		if err != nil {
			return t, false, err
		}
		rep, err := m.Call("zk.mod.prove", sx.List(inst.wit, rnd, e))
		if err != nil {
			return t, false, err
		}
		return zkTriple{prefix, inst.pub, rep.L[0], rep.L[1]}, true, nil
	}
	t0 := time.Now()
	rep, err := m.Call("zk."+d.name+".prove", sx.List(inst.wit, rnd, e0))
	tmAdd("model.prove."+d.name, t0)
	if err != nil {
		return t, false, err
	}
	if len(rep.L) == 0 {
		return t, false, nil // the prover's own EncWithNonce refuses the mask
	}
	com := rep.L[0]
	e, _, err := zkModelChallenge(m, d, prefix, inst.pub, com)
	if err != nil {
		return t, false, err
	}
	rep, err = m.Call("zk."+d.name+".prove", sx.List(inst.wit, rnd, e))
	if err != nil {
		return t, false, err
	}
	return zkTriple{prefix, inst.pub, rep.L[0], rep.L[1]}, true, nil
}

// ---------------------------------------------------------------------------------------------------------------

func runC10(c *ctx) {
	c.res.Rule = "15 proof systems x key sets (pkg/zk/default.go, safeprimes24) x witness lattice classes x {library prover, model prover with " +
		"boundary masks} honest triples, then every single-field / context / substitution / range-boundary perturbation of valid triples; " +
		"non-trivial = every evaluated triple; distinct by (system, case, prefix, pub, com, resp)"
	if c.replay != "" {
		c10Replay_(c)
		return
	}
	c.m.MaxLog = 0 // 2048-bit cases are far too slow for vm_compute; small cross-check cases are logged at the end
	old := crand.Reader
	crand.Reader = &zkRand{r: rand.New(rand.NewSource(c.res.Rng.Int63()))}
	defer func() { crand.Reader = old }()
	zkPool = pool.NewPool(4)
	defer zkPool.TearDown()
	nKeys := 2
	if c.thorough() {
		nKeys = 4
	}
	keys := zkKeySets(c.res.Rng, nKeys)
	only := strings.TrimSpace(strings.ToLower(getenv("C10_ONLY")))
	var defs []*zkDef
	for _, d := range zkDefs() {
		if only != "" && !strings.Contains(","+only+",", ","+d.name+",") {
			continue
		}
		defs = append(defs, d)
	}
	// private result and private model processes per system, merged in the fixed system order (deterministic report)
	subs := make([]*ctx, len(defs))
	var wg sync.WaitGroup
	for i, d := range defs {
		nm := d.procs
		if nm == 0 {
			nm = 1
		}
		var ms []*model.Client
		for j := 0; j < nm; j++ {
			m, err := model.Start(zkModelPath())
			if err != nil {
				c.res.Note("cannot start a model process for zk%s: %v", d.name, err)
				break
			}
			m.MaxLog = 0
			ms = append(ms, m)
		}
		if len(ms) == 0 {
			continue
		}
		subs[i] = &ctx{res: hk.New("C10", c.tier, c.res.Rng.Int63()), m: ms[0], tier: c.tier}
		zkSubs.Store(subs[i], &zkSub{c: subs[i], models: ms})
		wg.Add(1)
		go func(sub *ctx, d *zkDef) {
			defer wg.Done()
			defer func() {
				if e := recover(); e != nil {
					sub.res.Violate("correspondence", "C10/"+d.name+"/harness-panic", fmt.Sprint(e), c10Replay{System: d.name, What: fmt.Sprint(e) + "\n" + string(debug.Stack())})
				}
			}()
			sub.runZkSystem(&zkGen{r: sub.res.Rng, c: sub}, d, keys)
		}(subs[i], d)
	}
	wg.Wait()
	for _, sub := range subs {
		if sub == nil {
			continue
		}
		for _, m := range sub.sub().models {
			m.Close()
			c.m.Calls += m.Calls
		}
		c.res.Evaluations += sub.res.Evaluations
		c.res.Distinct += sub.res.Distinct
		for k, v := range sub.res.Dist {
			c.res.Dist[k] += v
		}
		c.res.CorrChecked += sub.res.CorrChecked
		c.res.CorrBroken += sub.res.CorrBroken
		for _, v := range sub.res.Violations {
			c.res.Violate(v.Kind, v.Key, v.Desc, v.Replay)
		}
		for _, s := range sub.res.Samples {
			c.res.Sample(6, s)
		}
		c.res.Notes = append(c.res.Notes, sub.res.Notes...)
	}
	c.zkSmallCases()
	tmDump()
	sort.Strings(c.res.Notes)
	c.res.Notes = dedup(c.res.Notes)
}

// the -model flag of main (the ctx does not keep it)
func zkModelPath() string {
	for i, a := range os.Args {
		if (a == "-model" || a == "--model") && i+1 < len(os.Args) {
			return os.Args[i+1]
		}
		if strings.HasPrefix(a, "-model=") {
			return a[len("-model="):]
		}
		if strings.HasPrefix(a, "--model=") {
			return a[len("--model="):]
		}
	}
	return "/verif/coq/Extract/out/mpsmodel"
}

func dedup(s []string) []string {
	out := []string{}
	for i, x := range s {
		if i == 0 || x != s[i-1] {
			out = append(out, x)
		}
	}
	return out
}

func (c *ctx) runZkSystem(g *zkGen, d *zkDef, keys []*zkKeys) {
	for ki, k := range keys {
		if d.name == "prm" && k.lambda == nil {
			continue // default.go does not publish lambda
		}
		first := ki == 0 || (d.name == "prm" && ki == 1)
		classes := d.classes
		if !c.thorough() && !first {
			// further key sets in the quick tier: the random class and one boundary class
			classes = []string{classes[len(classes)-1], classes[g.r.Intn(len(classes))]}
		}
		// phase 1 (sequential, all random choices): statements, witnesses, prover randomness
		var jobs []*zkJob
		type hj struct {
			inst *zkInst
			job  *zkJob
			keep bool
		}
		var honest []hj
		for ci, class := range classes {
			inst := d.gen(g, k, class)
			inst.keys, inst.class = k, class
			// (a) the library's prover with its real sampler
			ja := &zkJob{cs: "honest/go-prover/" + class, expect: expAccept, mk: func(*model.Client) (t zkTriple, ok bool, err error) {
				defer func() {
					if e := recover(); e != nil {
						err = fmt.Errorf("NewProof panics: %v", e)
					}
				}()
				com, resp := d.goProve(inst, goHashOf(zkPrefixA))
				return zkTriple{zkPrefixA, inst.pub, com, resp}, true, nil
			}}
			jobs = append(jobs, ja)
			honest = append(honest, hj{inst, ja, true})
			if d.rnd == nil {
				continue
			}
			// (b) the model's prover with the honest sampler's ranges
			rnd := sx.List(d.rnd(g, inst)...)
			jb := &zkJob{cs: "honest/model-prover/" + class, expect: expAccept, mk: func(m *model.Client) (zkTriple, bool, error) {
				return zkModelProve(m, d, inst, zkPrefixA, rnd)
			}}
			jobs = append(jobs, jb)
			honest = append(honest, hj{inst, jb, ci%3 == 0})
			// (c) boundary masks (quick tier: for the zero witness, where the response equals the mask, and one more class)
			if c.thorough() || (first && (class == "zero" || ci == len(classes)-1 || len(classes) <= 2)) {
				jobs = append(jobs, zkMaskJobs(g, d, inst)...)
			}
		}
		// (d) false-statement provers: one component of a true (statement, witness) pair replaced, proof generated honestly
		if first || c.thorough() {
			var other *zkKeys
			if len(keys) > 1 {
				other = keys[(ki+1)%len(keys)]
			}
			nBase := 1
			if c.thorough() {
				nBase = 3
			}
			for b := 0; b < nBase; b++ {
				class := classes[len(classes)-1-b%len(classes)]
				if d.degenerate[class] {
					continue
				}
				base := d.gen(g, k, class)
				base.keys, base.class = k, class
				jobs = append(jobs, zkFalseJobs(g, d, k, other, base, true)...)
			}
		}
		// phase 2: evaluate
		c.zkBatch(d, k, jobs)
		var valid []zkTriple
		var validInst []*zkInst
		searched := false
		for _, h := range honest {
			j := h.job
			if j.made && j.err == nil && j.gv == vAccept && j.mv != vAccept && !searched {
				// the library accepts its own proof but the model (with its own transcript) does not: look for the public /
				// commitment field or context that the library's challenge does not bind
				searched = true
				c.zkSearchUnbound(d, k, j.t)
			}
			if j.err != nil && strings.HasPrefix(j.err.Error(), "NewProof panics") {
				c.res.Note("panic in zk%s.NewProof, witness class %s: %v", d.name, h.inst.class, j.err)
				c.res.Violate("property", "C10/"+d.name+"/prover-panic/"+h.inst.class, "NewProof panics for a witness in the documented range",
					c10Replay{System: d.name, Case: "prover-panic/" + h.inst.class, Keys: k.name, Pub: h.inst.pub.String(), What: j.err.Error()})
				continue
			}
			if j.made && j.err == nil && j.gv == vAccept && j.mv == vAccept && h.keep {
				valid = append(valid, j.t)
				validInst = append(validInst, h.inst)
			}
			if j.made {
				c.res.Sample(1, map[string]string{"system": d.name, "case": j.cs, "keys": k.name, "go": fmt.Sprint(j.gv), "model": fmt.Sprint(j.mv),
					"pub": clip(j.t.pub.String(), 160), "com": clip(j.t.com.String(), 160), "resp": clip(j.t.resp.String(), 160)})
			}
		}
		// perturbation targets: valid triples of non-degenerate statements (a statement whose verification equations do not
		// involve the challenge, e.g. all-identity points or R = 1, verifies under every context by arithmetic)
		var targets []int
		for i := len(valid) - 1; i >= 0; i-- {
			if !d.degenerate[validInst[i].class] {
				targets = append(targets, i)
			}
		}
		if len(targets) < 2 {
			c.res.Note("zk%s: fewer than two valid non-degenerate triples with keys %s, perturbations skipped", d.name, k.name)
			continue
		}
		if !c.thorough() {
			if !first {
				continue
			}
			targets = targets[:1]
		} else if len(targets) > 4 {
			targets = []int{targets[0], targets[len(targets)/3], targets[2*len(targets)/3], targets[len(targets)-1]}
		}
		for _, ti := range targets {
			t := valid[ti]
			inst := validInst[ti]
			// another valid proof of the same statement
			t2 := t
			if com2, resp2, ok := safeProve(d, inst); ok {
				t2 = zkTriple{zkPrefixA, inst.pub, com2, resp2}
			}
			// a valid proof of another statement
			oi := -1
			for j := range valid {
				if !valid[j].pub.Equal(t.pub) && !d.degenerate[validInst[j].class] {
					oi = j
				}
			}
			if oi < 0 {
				oi = (ti + 1) % len(valid)
			}
			c.zkBatch(d, k, c.zkPerturbJobs(d, t, t2, valid[oi]))
			c.zkNilProbes(d, k, t)
			c.zkSpecial(g, d, k, t, inst)
		}
	}
}

// zkSearchUnbound: after a correspondence disagreement on an honest triple, perturb every public / commitment field and
// the context on the library side alone; a perturbed triple that still verifies is a concrete failure of the property.
func (c *ctx) zkSearchUnbound(d *zkDef, k *zkKeys, t zkTriple) {
	for _, j := range c.zkPerturbJobs(d, t, t, t) {
		if strings.HasPrefix(j.cs, "resp") {
			continue
		}
		nt, _, _ := j.mk(nil)
		gv, gmsg := zkGo(d, nt, "")
		c.res.Case(d.name+"/search/"+j.cs, d.name+"search"+j.cs+nt.pub.String()+nt.com.String()+prefixString(nt.prefix), true)
		if gv == vAccept {
			c.res.Violate("property", "C10/"+d.name+"/search/"+j.cs+"/accepted",
				"found by the search after a model/library disagreement: the library verifies a proof after this field / context was changed",
				c10Replay{System: d.name, Case: "search/" + j.cs, Keys: k.name, Prefix: prefixString(nt.prefix), Pub: nt.pub.String(), Com: nt.com.String(),
					Resp: nt.resp.String(), Go: gv, Model: -1, Expect: expReject, GoPanic: gmsg, What: "perturbed triple accepted by the library"})
		}
	}
}

func clip(s string, n int) string {
	if len(s) > n {
		return s[:n] + "..."
	}
	return s
}

func safeProve(d *zkDef, inst *zkInst) (com, resp sx.V, ok bool) {
	defer func() {
		if e := recover(); e != nil {
			ok = false
		}
	}()
	com, resp = d.goProve(inst, goHashOf(zkPrefixA))
	return com, resp, true
}

// nil fields: outside the model; the outcome (false or panic) is recorded, panics are reported as C05 material
func (c *ctx) zkNilProbes(d *zkDef, k *zkKeys, t zkTriple) {
	var panics []string
	defer func() {
		if len(panics) > 0 {
			c.res.Note("panic (C05) in zk%s.Verify (nil pointer dereference) when a proof field is nil: %s", d.name, strings.Join(panics, ", "))
		}
	}()
	for _, f := range d.nilable {
		v, msg := zkGo(d, t, f)
		c.res.Case(d.name+"/nil-field", d.name+"/nil/"+f, true)
		switch v {
		case vAccept:
			c.res.Violate("property", "C10/"+d.name+"/nil-"+f+"/accepted", "a proof with a nil field verifies",
				c10Replay{System: d.name, Case: "nil-" + f, Keys: k.name, Prefix: prefixString(t.prefix), Pub: t.pub.String(), Com: t.com.String(), Resp: t.resp.String(), Go: v, What: "nil field accepted"})
		case vPanic, vEncPanic:
			where := msg
			if i := strings.Index(msg, " @ "); i >= 0 {
				where = msg[i+3:]
			}
			panics = append(panics, f+" (in "+strings.TrimPrefix(where, "pkg/zk/")+")")
		}
	}
}

// masks at the boundary of the verifier's range, through the model's prover (the library's sampler cannot be steered):
// with witness 0 the response equals the mask, so the range check is hit exactly.
func zkMaskJobs(g *zkGen, d *zkDef, inst *zkInst) (jobs []*zkJob) {
	for _, rr := range d.ranges {
		if rr.rnd < 0 {
			continue
		}
		base := d.rnd(g, inst)
		witZero := true
		for _, wi := range rr.wit {
			if inst.wit.L[wi].Z.Sign() != 0 {
				witZero = false
			}
		}
		type mc struct {
			name   string
			mask   *big.Int
			expect string
		}
		// |e| < 2^256 and |witness| <= 2^256 (2^1280 for the l' range; < 2^1025 for zkfac): the slack mask always passes
		slack := bSub(pow2(rr.bits), pow2(rr.bits-256))
		cases := []mc{{"mask-slack", slack, expAccept}, {"mask-neg-slack", bNeg(slack), expAccept}}
		if witZero {
			cases = append(cases,
				mc{"mask-max", bSub(pow2(rr.bits), bigOne), expAccept}, mc{"mask-min", bNeg(bSub(pow2(rr.bits), bigOne)), expAccept},
				mc{"mask-max+1", pow2(rr.bits), expReject}, mc{"mask-min-1", bNeg(pow2(rr.bits)), expReject})
		}
		for _, m := range cases {
			rnd := append([]sx.V{}, base...)
			rnd[rr.rnd] = sx.Big(m.mask)
			rl := sx.List(rnd...)
			jobs = append(jobs, &zkJob{cs: fmt.Sprintf("resp[%d]/%s/%s", rr.idx, m.name, inst.class), expect: m.expect,
				mk: func(mm *model.Client) (zkTriple, bool, error) { return zkModelProve(mm, d, inst, zkPrefixA, rl) }})
		}
	}
	return jobs
}

// small-parameter model calls, logged for the vm_compute cross-check of the extraction (cases.v)
func (c *ctx) zkSmallCases() {
	c.m.MaxLog, c.m.MaxLogSize = 60, 3000
	r := c.res.Rng
	for i := 0; i < 6; i++ {
		z := randSigned(r, []int{0, 1, 8, 64, 300}[r.Intn(5)])
		c.m.Call("zk.truelen", sx.Big(z))
	}
	// N = 7*11 (both = 3 mod 4), t = 4, s = t^3
	for i := 0; i < 8; i++ {
		a, b, e, x, y := int64(r.Intn(40)-20), int64(r.Intn(40)-20), int64(r.Intn(20)-10), int64(r.Intn(40)-20), int64(r.Intn(40)-20)
		S, _ := c.m.Call("zk.ped_commit", sx.List(sx.Int(77), sx.Int(64), sx.Int(4), sx.Int(a), sx.Int(b)))
		T, _ := c.m.Call("zk.ped_commit", sx.List(sx.Int(77), sx.Int(64), sx.Int(4), sx.Int(x), sx.Int(y)))
		c.m.Call("zk.ped_verify", sx.List(sx.Int(77), sx.Int(64), sx.Int(4), sx.Int(a+e*x), sx.Int(b+e*y), sx.Int(e), S, T))
		c.m.Call("zk.jacobi", sx.List(sx.Int(int64(r.Intn(200)-100)), sx.Int(int64(2*r.Intn(60)+1))))
		c.m.Call("zk.probably_prime", sx.Int(int64(r.Intn(2000))))
		c.m.Call("zk.e_interval", sx.Bytes(randBytes(r, 33)))
		c.m.Call("zk.e_scalar", sx.Bytes(randBytes(r, 32)))
	}
	c.m.Call("zk.e_modn", sx.List(sx.Int(1000), sx.Int(5), sx.Bytes(randBytes(r, 40))))
	c.m.Call("zk.e_bits", sx.Bytes(randBytes(r, 80)))
	// nth with N = 77 (p = 7, q = 11); the model alone: Go's verifiers need full-size moduli
	c.m.Call("zk.nth.prove", sx.List(sx.List(sx.Int(77), sx.Int(5)), sx.List(sx.Int(9)), sx.Int(-3)))
	c.m.Call("zk.nth.verify", sx.List(sx.List(sx.Int(77), sx.Big(new(big.Int).Exp(big.NewInt(5), big.NewInt(77), big.NewInt(5929)))),
		sx.List(sx.Big(new(big.Int).Exp(big.NewInt(9), big.NewInt(77), big.NewInt(5929)))),
		sx.List(sx.Big(bMod(bMul(new(big.Int).ModInverse(big.NewInt(125), big.NewInt(77)), big.NewInt(9)), big.NewInt(77)))), sx.Int(-3)))
	c.m.MaxLog = 0
}

func getenv(k string) string { return os.Getenv(k) }

// ---------------------------------------------------------------------------------------------------------------
// replay

func c10Replay_(c *ctx) {
	var rp c10Replay
	if err := readJSON(c.replay, &rp); err != nil {
		c.res.Note("cannot read replay: %v", err)
		return
	}
	var d *zkDef
	for _, x := range zkDefs() {
		if x.name == rp.System {
			d = x
		}
	}
	if d == nil {
		c.res.Note("replay: unknown system %q", rp.System)
		return
	}
	zkPool = pool.NewPool(4)
	defer zkPool.TearDown()
	c.m.MaxLog = 0
	parse := func(s string) sx.V {
		v, err := sx.Parse(s)
		if err != nil {
			c.res.Note("bad replay field: %v", err)
		}
		return v
	}
	t := zkTriple{parse(rp.Prefix).L, parse(rp.Pub), parse(rp.Com), parse(rp.Resp)}
	if len(t.com.L) == 0 && len(t.resp.L) == 0 {
		c.res.Note("replay of %s has no proof to re-verify", rp.Case)
		return
	}
	gv, mv := c.zkCheck(d, nil, rp.Case, t, rp.Expect)
	fmt.Printf("replay %s/%s: go verdict %d, model verdict %d (expected: %s)\n", rp.System, rp.Case, gv, mv, rp.Expect)
}
