package main

// C02 -- key generation yields one consistent, reconstructible sharing.
// Real keygens (FROST, FROST-Taproot, Doerner, CMP) through the real handlers under several schedules and identifier sets;
// every party's output is handed to the reference checker (keymat.go: checkSharing / checkDoerner), which evaluates the
// consistency conditions with the extracted Coq reference (textbook secp256k1, Lagrange over Z_q) for EVERY (t+1)-subset.

import (
	"bytes"
	"fmt"
	"math/rand"
	"strings"

	"github.com/taurusgroup/multi-party-sig/pkg/math/curve"
	"github.com/taurusgroup/multi-party-sig/pkg/party"
	"github.com/taurusgroup/multi-party-sig/protocols/doerner"
)

func init() { props["C02"] = runC02 }

type keygenReplay struct {
	Spec     string   `json:"spec"`
	IDs      []string `json:"ids"`
	Seed     int64    `json:"seed"`
	Policy   string   `json:"policy"`
	Problems []string `json:"problems"`
}

var idSets = map[string][]string{
	"short":    {"a", "b", "c", "d", "e"},
	"names":    {"alice", "bob", "carl", "dave", "erin"},
	"adjacent": {"\x01", "\x02", "\x03", "\x04", "\x05"},
	"nonascii": {"é", "ß", "中", "ю", "ñ"},
	"long32":   {strings.Repeat("p", 31) + "1", strings.Repeat("p", 31) + "2", strings.Repeat("p", 31) + "3", strings.Repeat("p", 31) + "4", strings.Repeat("p", 31) + "5"},
	"long40":   {strings.Repeat("z", 39) + "1", strings.Repeat("z", 39) + "2", strings.Repeat("z", 39) + "3", strings.Repeat("y", 39) + "4", strings.Repeat("y", 39) + "5"},
	"prefix":   {"a", "ab", "abc", "abcd", "b"},
}

func policyByName(name string) func(*Sim) Policy {
	switch name {
	case "lifo":
		return func(*Sim) Policy { return policyLIFO() }
	case "latest-first":
		return func(*Sim) Policy { return policyLatestFirst() }
	case "random":
		return func(*Sim) Policy { return policyRandom(0.15) }
	}
	return func(*Sim) Policy { return func(*Sim) (int, bool) { return 0, false } }
}

// runToEnd runs a spec under a policy without the deterministic reader (real randomness).
func runToEnd(sp SessionSpec, seed int64, polName string) *Sim {
	s := sp.build(rand.New(rand.NewSource(seed)), nil)
	s.RunPolicy(policyByName(polName)(s), 200000)
	return s
}

// viewsOfSim collects the key-material views of all parties; problems if somebody did not finish.
func viewsOfSim(s *Sim) ([]*shareView, []interface{}, []string) {
	var views []*shareView
	var raw []interface{}
	var probs []string
	for _, id := range s.IDs {
		n := s.Nodes[id]
		r, e := resultOf(n)
		if r == nil {
			probs = append(probs, fmt.Sprintf("party %s did not complete: %s", id, e))
			continue
		}
		v, err := viewOfResult(r)
		if err != nil {
			probs = append(probs, fmt.Sprintf("party %s: %v", id, err))
			continue
		}
		views = append(views, v)
		raw = append(raw, r)
	}
	return views, raw, probs
}

func (c *ctx) c02Check(sp SessionSpec, ids []string, seed int64, pol string, s *Sim) {
	views, _, probs := viewsOfSim(s)
	if len(probs) == 0 {
		p2, _ := c.checkSharing(views, 0)
		probs = append(probs, p2...)
	}
	for _, n := range s.Nodes {
		for _, o := range n.Obs {
			if o.Panic != "" {
				probs = append(probs, fmt.Sprintf("party %s panicked: %s", n.ID, o.Panic))
			}
		}
	}
	c.res.Corr(len(probs) == 0)
	c.res.Case(sp.Name+"/"+pol, fmt.Sprintf("%s/%v/%d/%s", sp.Name, ids, seed, pol), true)
	c.res.Sample(3, map[string]interface{}{"spec": sp.Name, "ids": ids, "policy": pol})
	if len(probs) > 0 {
		c.res.Violate("property", "C02/"+sp.Name+"/"+probs[0][:min(40, len(probs[0]))], strings.Join(probs, "; "),
			keygenReplay{Spec: sp.Name, IDs: ids, Seed: seed, Policy: pol, Problems: probs})
	}
}

func min(a, b int) int {
	if a < b {
		return a
	}
	return b
}

func runC02(c *ctx) {
	c.res.Rule = "real keygens: FROST and FROST-Taproot for n<=5 and every t<n, identifier sets short/long(32,40 bytes)/non-ASCII/adjacent/shared-prefix, schedules fifo/lifo/latest-first/random+dups; " +
		"Doerner; CMP n=3 (t=1,2) with cached safe primes; each checked by the reference for every (t+1)-subset; non-trivial = all; distinct by (protocol,n,t,ids,policy,seed)"
	c.res.Rule += "; the same key generations with ONE participant dealing a consistent polynomial of degree t-1, t+1, t+2 or a re-dealt one of degree t " +
		"(FROST +/- taproot every n<=4 and t, one dealer position; CMP n=3,t=1): whenever all honest parties complete, their material must pass the same checker"
	if c.replay != "" && c.c02Replay() {
		return
	}
	pols := []string{"fifo", "lifo", "latest-first", "random"}
	setNames := []string{"short", "names", "adjacent", "nonascii", "long32", "long40", "prefix"}
	k := 0
	maxN := 4
	if c.thorough() {
		maxN = 5
	}
	for n := 2; n <= maxN; n++ {
		for t := 0; t < n; t++ {
			for _, taproot := range []bool{false, true} {
				reps := 1
				if c.thorough() {
					reps = 4
				}
				for rep := 0; rep < reps; rep++ {
					k++
					setName := setNames[k%len(setNames)]
					names := idSets[setName][:n]
					sp := specFrostKeygen(idsOf(names...), t, taproot, []byte(fmt.Sprintf("c02-%d", k)))
					pol := pols[k%len(pols)]
					seed := c.res.Seed*7919 + int64(k)
					c.c02Check(sp, names, seed, pol, runToEnd(sp, seed, pol))
				}
			}
		}
	}
	// every identifier set with a threshold that makes the interpolation points matter (t >= 1), both variants
	for si, setName := range setNames {
		for _, nt := range [][2]int{{3, 1}, {4, 2}} {
			k++
			names := idSets[setName][:nt[0]]
			sp := specFrostKeygen(idsOf(names...), nt[1], si%2 == 1, []byte(fmt.Sprintf("c02-ids-%d", k)))
			pol := pols[k%len(pols)]
			seed := c.res.Seed*7919 + int64(k)
			c.c02Check(sp, names, seed, pol, runToEnd(sp, seed, pol))
		}
	}
	// Doerner
	nd := 2
	if c.thorough() {
		nd = 12
	}
	for i := 0; i < nd; i++ {
		ids := idsOf("recv", "send")
		if i%2 == 1 {
			ids = idsOf("zed", "amy")
		}
		g := curve.Secp256k1{}
		s := twoPartySim(ids, nil, doerner.Keygen(g, true, ids[0], ids[1], nil), doerner.Keygen(g, false, ids[1], ids[0], nil), []byte{byte(i)}, true, false)
		s.RunFIFO(10000)
		rr, e1 := resultOf(s.Nodes[ids[0]])
		rs, e2 := resultOf(s.Nodes[ids[1]])
		cr, ok1 := rr.(*doerner.ConfigReceiver)
		cs, ok2 := rs.(*doerner.ConfigSender)
		var probs []string
		if !ok1 || !ok2 {
			probs = []string{"doerner keygen did not complete: " + e1 + " " + e2}
		} else {
			probs = c.checkDoerner(cr, cs)
			if !bytes.Equal(cr.ChainKey, cs.ChainKey) {
				probs = append(probs, "chain keys differ")
			}
		}
		c.res.Case("doerner-keygen", fmt.Sprint("doerner", i), true)
		if len(probs) > 0 {
			c.res.Violate("property", "C02/doerner-keygen", strings.Join(probs, "; "), keygenReplay{Spec: "doerner-keygen", IDs: []string{string(ids[0]), string(ids[1])}, Problems: probs})
		}
	}
	// one participant deals a polynomial of the wrong degree / a re-dealt one
	c.c02Dealers()
	// CMP
	usePrimeCache()
	c.c02DealersCMP()
	cmpCases := [][2]int{{3, 1}, {3, 2}}
	if c.thorough() {
		cmpCases = [][2]int{{2, 0}, {2, 1}, {3, 0}, {3, 1}, {3, 2}, {4, 1}, {4, 3}}
	}
	for i, nt := range cmpCases {
		names := idSets[setNames[(i*3+1)%len(setNames)]][:nt[0]]
		sp := specCMPKeygen(idsOf(names...), nt[1], []byte(fmt.Sprintf("c02cmp-%d", i)))
		pol := pols[(i+1)%len(pols)]
		seed := c.res.Seed*31 + int64(i)
		s := runToEnd(sp, seed, pol)
		c.c02Check(sp, names, seed, pol, s)
		// auxiliary public keys agree across parties and each party's Paillier secret matches its own public entry
		if cfgs, err := cmpConfigsOf(s); err == nil {
			var probs []string
			var ref party.ID
			for id := range cfgs {
				ref = id
				break
			}
			for id, cf := range cfgs {
				for j, pj := range cf.Public {
					rj := cfgs[ref].Public[j]
					if rj == nil || !pj.Paillier.Equal(rj.Paillier) || !pj.ElGamal.Equal(rj.ElGamal) ||
						pj.Pedersen.S().Eq(rj.Pedersen.S()) != 1 || pj.Pedersen.T().Eq(rj.Pedersen.T()) != 1 || pj.Pedersen.N().Nat().Eq(rj.Pedersen.N().Nat()) != 1 {
						probs = append(probs, fmt.Sprintf("parties %s and %s disagree on the auxiliary public keys of %s", id, ref, j))
					}
				}
				if !cf.Paillier.PublicKey.Equal(cf.Public[id].Paillier) {
					probs = append(probs, fmt.Sprintf("party %s: own Paillier secret does not match its public entry", id))
				}
				if !cf.ElGamal.ActOnBase().Equal(cf.Public[id].ElGamal) {
					probs = append(probs, fmt.Sprintf("party %s: own ElGamal secret does not match its public entry", id))
				}
			}
			if len(probs) > 0 {
				c.res.Violate("property", "C02/"+sp.Name+"/aux", strings.Join(probs, "; "), keygenReplay{Spec: sp.Name, IDs: names, Seed: seed, Policy: pol, Problems: probs})
			}
		}
	}
}
