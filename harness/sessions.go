package main

import (
	"fmt"
	"math/rand"

	"github.com/taurusgroup/multi-party-sig/pkg/math/curve"
	"github.com/taurusgroup/multi-party-sig/pkg/party"
	"github.com/taurusgroup/multi-party-sig/pkg/protocol"
	"github.com/taurusgroup/multi-party-sig/protocols/example"
	"github.com/taurusgroup/multi-party-sig/protocols/frost"
)

// SessionSpec describes one protocol session to be run through the pump.
type SessionSpec struct {
	Name      string
	IDs       []party.ID
	Start     func(id party.ID) protocol.StartFunc
	SessionID []byte
}

func (sp SessionSpec) build(rng *rand.Rand, det *detReader) *Sim {
	s := NewSim(sp.IDs, rng, det)
	for _, id := range s.IDs {
		s.AddMulti(id, sp.Start(id), sp.SessionID)
	}
	s.Seal()
	return s
}

func idsOf(names ...string) []party.ID {
	out := make([]party.ID, len(names))
	for i, n := range names {
		out[i] = party.ID(n)
	}
	return out
}

func specXOR(ids []party.ID, sid []byte) SessionSpec {
	sorted := party.NewIDSlice(ids)
	return SessionSpec{Name: fmt.Sprintf("xor/n=%d", len(ids)), IDs: ids, SessionID: sid,
		Start: func(id party.ID) protocol.StartFunc { return example.StartXOR(id, sorted) }}
}

func specFrostKeygen(ids []party.ID, t int, taproot bool, sid []byte) SessionSpec {
	name := fmt.Sprintf("frost-keygen/n=%d/t=%d", len(ids), t)
	if taproot {
		name = "taproot-" + name
	}
	return SessionSpec{Name: name, IDs: ids, SessionID: sid,
		Start: func(id party.ID) protocol.StartFunc {
			if taproot {
				return frost.KeygenTaproot(id, ids, t)
			}
			return frost.Keygen(curve.Secp256k1{}, id, ids, t)
		}}
}

func specFrostSign(cfgs map[party.ID]*frost.Config, signers []party.ID, msg []byte, sid []byte) SessionSpec {
	return SessionSpec{Name: fmt.Sprintf("frost-sign/n=%d", len(signers)), IDs: signers, SessionID: sid,
		Start: func(id party.ID) protocol.StartFunc { return frost.Sign(cfgs[id], signers, msg) }}
}

func specFrostSignTaproot(cfgs map[party.ID]*frost.TaprootConfig, signers []party.ID, msg []byte, sid []byte) SessionSpec {
	return SessionSpec{Name: fmt.Sprintf("taproot-frost-sign/n=%d", len(signers)), IDs: signers, SessionID: sid,
		Start: func(id party.ID) protocol.StartFunc { return frost.SignTaproot(cfgs[id], signers, msg) }}
}

// resultOf returns (result, errText) of a node's handler
func resultOf(n *Node) (interface{}, string) {
	if n.H == nil {
		return nil, "no handler: " + fmt.Sprint(n.StartErr)
	}
	r, err := n.H.Result()
	if err != nil {
		return nil, err.Error()
	}
	return r, ""
}

// fingerprint of a protocol result for equality comparisons across runs (canonical: see canon.go)
func resultFP(r interface{}) string {
	if r == nil {
		return "<nil>"
	}
	return fmt.Sprintf("%T:%s", r, canon(r))
}
