package main

// C12 -- validators that take SEVERAL values in one call:
//     paillier.PublicKey.ValidateCiphertexts(cts...)   every ct a unit in [1, N^2-1]
//     arith.IsValidNatModN(N, ints...)                  every value a unit in [1, N-1]  (saferith.Nat)
//     arith.IsValidBigModN(N, ints...)                  the same for *big.Int (sign = +1)
// Every other C12 case hands such a validator exactly ONE value, so an implementation in which only some of the arguments
// decide (the last one, the first one, "any valid one") is never seen. Here each validator is called with 0..3 arguments:
//   * exactly one argument of an INVALID class at every position of a 1-, 2- and 3-argument call, the others valid:
//     the answer must be false;
//   * controls: all arguments valid (every VALID class at every position, and the empty call): the answer must be true.
// The classes are those of the single-argument lattice, produced by the existing generators and classifiers
// (c12Gen.ciphertexts / c12ClassC for ciphertexts, the base operands of c12Gen.expTriples / c12ClassX for values modulo N and
// modulo N^2): 0, 1, 2, n-1, n, n+1, multiples of p / q / N, other non-units, units above n, ... plus the classes a number
// cannot express: nil pointer, zero-value object (&Ciphertext{}, new(saferith.Nat)), a valid value announced with an oversize
// length (zero-padded encoding; refused by the library since 977431c), a valid value with a few zero bytes of padding (valid),
// negative values (big.Int only).
// Expected verdict = forallb of the single-argument predicate:
//   correspondence: the model's predicate per element (pai.validate, zk.valid_mod) and a Go-side conjunction;
//   property:       math/big per element (0 < x < n, gcd(x, n) = 1) and a Go-side conjunction; never the library's verdict.
// Clean-tree contract assumed for what the model's Z cannot express: nil and zero-value objects are invalid; a Nat announced
// with more than 4*(1+l'+eps+2*2048) bits (ciphertext: 4*8*512 bits) is invalid whatever its value; padding within that bound
// does not change the verdict.
// A panic is an outcome: it is a violation unless the same (invalid) argument passed ALONE panics as well (then the
// multi-argument call adds nothing new; it is counted in the note "panics mirrored by the single-argument call").
//   property        C12/validate-multi/<fn>/<class>/pos<k>             (one invalid argument of <class> at position k)
//   property        C12/validate-multi/<fn>/all-valid:<class>/pos<k>   (control)
//   correspondence  C12/validate-multi-mismatch/<fn>/<class>/pos<k>
// All library objects are built fresh from numbers for every call; the suite runs serially after the batched cases.

import (
	"fmt"
	"math/big"
	"strings"
	"time"

	"github.com/cronokirby/saferith"

	"github.com/taurusgroup/multi-party-sig/pkg/math/arith"
	"github.com/taurusgroup/multi-party-sig/pkg/paillier"

	"verifharness/sx"
)

const (
	c12MultiOp         = "validate-multi"
	c12MultiMaxNatBits = 4 * (1 + 1792 + 2*2048) // arith.maxAnnouncedBits
	c12MultiMaxCtBits  = 4 * 8 * 512             // 4*8*params.BytesCiphertext
	c12MultiHugeBytes  = 256 << 10

	c12MultiCt  = "ValidateCiphertexts"
	c12MultiNat = "IsValidNatModN"
	c12MultiBig = "IsValidBigModN"
)

// one argument of a call
type c12MArg struct {
	Class string `json:"class"`
	Nil   string `json:"nil,omitempty"`           // "": a value | "nil": nil pointer | "zero-value": &Ciphertext{} / new(saferith.Nat)
	Hex   string `json:"hex,omitempty"`           // the value (signed hex)
	Bytes int    `json:"encoded_bytes,omitempty"` // length of the big-endian encoding handed to UnmarshalBinary / SetBytes (leading zero bytes = padding); 0: minimal
	z     *big.Int
}

type c12MCase struct {
	fn    string // ValidateCiphertexts | IsValidNatModN | IsValidBigModN
	form  string // ValidateCiphertexts: sk | pk (which PublicKey object); arith: N | N2 (the modulus)
	k     *c12Key
	class string // class of the distinguished argument ("none" for the empty call)
	pos   int    // its position
	valid bool   // the distinguished argument is of a valid class (control)
	args  []c12MArg
}

type c12MultiReplayT struct {
	Op      string    `json:"op"` // "validate-multi"
	Fn      string    `json:"fn"`
	Form    string    `json:"form"`
	Class   string    `json:"class"`
	Control bool      `json:"all_valid_control"`
	Arity   int       `json:"arity"`
	Pos     int       `json:"position"`
	Key     string    `json:"key"`
	P       string    `json:"p_hex"`
	Q       string    `json:"q_hex"`
	Modulus string    `json:"modulus_hex"`
	Args    []c12MArg `json:"args"`
	Go      string    `json:"go_outcome,omitempty"`
	Model   string    `json:"model_verdict,omitempty"`
	Oracle  string    `json:"mathbig_verdict,omitempty"`
}

func (cs *c12MCase) modulus() *big.Int {
	if cs.fn == c12MultiCt || cs.form == "N2" {
		return cs.k.N2
	}
	return cs.k.N
}

func (cs *c12MCase) replay(goOut string, model, oracle bool) c12MultiReplayT {
	return c12MultiReplayT{Op: c12MultiOp, Fn: cs.fn, Form: cs.form, Class: cs.class, Control: cs.valid, Arity: len(cs.args), Pos: cs.pos,
		Key: cs.k.name, P: cs.k.p.Text(16), Q: cs.k.q.Text(16), Modulus: cs.modulus().Text(16), Args: append([]c12MArg{}, cs.args...),
		Go: goOut, Model: fmt.Sprint(model), Oracle: fmt.Sprint(oracle)}
}

func (cs *c12MCase) fingerprint() string {
	var sb strings.Builder
	fmt.Fprintf(&sb, "vmulti|%s|%s|%s|%d", cs.fn, cs.form, cs.k.name, cs.pos)
	for _, a := range cs.args {
		fmt.Fprintf(&sb, "|%s%s/%d", a.Nil, a.Hex, a.Bytes)
	}
	return sb.String()
}

func c12MVal(class string, z *big.Int) c12MArg {
	return c12MArg{Class: class, Hex: z.Text(16), z: new(big.Int).Set(z)}
}

func c12MPadded(class string, z *big.Int, bytes int) c12MArg {
	a := c12MVal(class, z)
	a.Bytes = bytes
	return a
}

// big-endian encoding of the argument as handed to the library (zero-padded in front to a.Bytes)
func (a *c12MArg) enc() []byte {
	b := a.z.Bytes()
	if len(b) == 0 {
		b = []byte{0}
	}
	if a.Bytes > len(b) {
		p := make([]byte, a.Bytes)
		copy(p[a.Bytes-len(b):], b)
		return p
	}
	return b
}

// announced length in bits of the saferith.Nat the library sees
func (a *c12MArg) announced(fn string) int {
	if fn == c12MultiCt || a.Bytes > 0 {
		return 8 * len(a.enc()) // UnmarshalBinary / SetBytes
	}
	if n := a.z.BitLen(); n > 0 { // c12Nat
		return n
	}
	return 1
}

// the part of the single-argument predicate a number cannot express: object present, announced length within the bound
func (a *c12MArg) shapeOK(fn string) bool {
	if a.Nil != "" {
		return false
	}
	switch fn {
	case c12MultiCt:
		return a.announced(fn) <= c12MultiMaxCtBits
	case c12MultiNat:
		return a.announced(fn) <= c12MultiMaxNatBits
	}
	return true
}

func c12MBigValid(n, x *big.Int) bool {
	return x.Sign() > 0 && x.Cmp(n) < 0 && new(big.Int).GCD(nil, nil, x, n).Cmp(c12One) == 0
}

// ---------------------------------------------------------------------------------------------------------------
// the library side

func c12MGo(fn, form string, k *c12Key, n *big.Int, args []c12MArg) (out string) {
	defer func() {
		if e := recover(); e != nil {
			out = "panic: " + fmt.Sprint(e)
		}
	}()
	var ok bool
	switch fn {
	case c12MultiCt:
		pk := k.pk
		if form == "sk" {
			pk = k.sk.PublicKey
		}
		cts := make([]*paillier.Ciphertext, len(args))
		for i := range args {
			switch args[i].Nil {
			case "nil":
			case "zero-value":
				cts[i] = &paillier.Ciphertext{}
			default:
				cts[i] = new(paillier.Ciphertext)
				if err := cts[i].UnmarshalBinary(args[i].enc()); err != nil {
					panic(err)
				}
			}
		}
		ok = pk.ValidateCiphertexts(cts...)
	case c12MultiNat:
		mod := saferith.ModulusFromNat(c12Nat(n))
		xs := make([]*saferith.Nat, len(args))
		for i := range args {
			switch {
			case args[i].Nil == "nil":
			case args[i].Nil == "zero-value":
				xs[i] = new(saferith.Nat)
			case args[i].Bytes > 0:
				xs[i] = new(saferith.Nat).SetBytes(args[i].enc())
			default:
				xs[i] = c12Nat(args[i].z)
			}
		}
		ok = arith.IsValidNatModN(mod, xs...)
	case c12MultiBig:
		xs := make([]*big.Int, len(args))
		for i := range args {
			switch args[i].Nil {
			case "nil":
			case "zero-value":
				xs[i] = new(big.Int)
			default:
				xs[i] = new(big.Int).Set(args[i].z)
			}
		}
		ok = arith.IsValidBigModN(new(big.Int).Set(n), xs...)
	default:
		panic("unknown validator " + fn)
	}
	return fmt.Sprint(ok)
}

// ---------------------------------------------------------------------------------------------------------------
// the model side: the single-argument predicate per element (cached), conjunction on the Go side

var c12MModelCache = map[string]bool{}

func (c *ctx) c12MModelElem(cs *c12MCase, n *big.Int, a *c12MArg) (valid, ok bool) {
	if !a.shapeOK(cs.fn) {
		return false, true
	}
	// (negative values, big.Int only: the model's valid_big is stated on Z and answers for them as well)
	op, idx := "pai.validate", -1
	arg := sx.List(sx.Big(cs.k.N), sx.Big(a.z))
	if cs.fn != c12MultiCt {
		op, arg = "zk.valid_mod", sx.List(sx.Big(n), sx.Big(a.z))
		idx = 0
		if cs.fn == c12MultiBig {
			idx = 1
		}
	}
	key := fmt.Sprintf("%s/%d|%s|%s", op, idx, n.Text(62), a.z.Text(62))
	if v, hit := c12MModelCache[key]; hit {
		return v, true
	}
	v, err := c.m.Call(op, arg)
	if err == nil && idx >= 0 {
		if v.Kind == 2 && len(v.L) == 2 {
			v = v.L[idx]
		} else {
			err = fmt.Errorf("unexpected reply %s", v.String())
		}
	}
	if err != nil || v.Kind != 0 {
		c.res.Violate("correspondence", "C12/model-error/"+op, fmt.Sprint(err), cs.replay("", false, false))
		return false, false
	}
	c12MModelCache[key] = v.AsBool()
	return v.AsBool(), true
}

// ---------------------------------------------------------------------------------------------------------------
// one case

var (
	c12MMirrored int
	c12MCount    = map[string]int{}
)

func (c *ctx) c12MRun(cs *c12MCase) (goOut string, corrBroken, propBroken bool) {
	n := cs.modulus()
	c.res.Case("vmulti."+cs.fn+"."+cs.k.size+"."+cs.class, cs.fingerprint(), len(cs.args) >= 2)
	c12MCount[cs.fn]++
	model, oracle, modelOK := true, true, true
	for i := range cs.args {
		a := &cs.args[i]
		mv, ok := c.c12MModelElem(cs, n, a)
		modelOK = modelOK && ok
		model = model && mv
		oracle = oracle && a.shapeOK(cs.fn) && c12MBigValid(n, a.z)
	}
	goOut = c12MGo(cs.fn, cs.form, cs.k, n, cs.args)
	rp := cs.replay(goOut, model, oracle)
	where := fmt.Sprintf("%s/%s/pos%d", cs.fn, cs.class, cs.pos)
	if cs.valid {
		where = fmt.Sprintf("%s/all-valid:%s/pos%d", cs.fn, cs.class, cs.pos)
	}
	call := fmt.Sprintf("%s[%s] on key %s (%d-bit N) with %d argument(s), argument %d of class %s", cs.fn, cs.form, cs.k.name, cs.k.N.BitLen(),
		len(cs.args), cs.pos, cs.class)
	if strings.HasPrefix(goOut, "panic") {
		// not new when the distinguished (invalid) argument panics alone as well
		if !cs.valid && len(cs.args) > 1 && strings.HasPrefix(c12MGo(cs.fn, cs.form, cs.k, n, cs.args[cs.pos:cs.pos+1]), "panic") {
			c12MMirrored++
			return goOut, false, false
		}
		c.res.Corr(false)
		c.res.Violate("correspondence", "C12/validate-multi-mismatch/"+where, call+": library "+goOut+", model "+fmt.Sprint(model), rp)
		c.res.Violate("property", "C12/validate-multi/"+where, call+": the library panicked ("+goOut+"), expected "+fmt.Sprint(oracle), rp)
		return goOut, true, true
	}
	if modelOK {
		ok := goOut == fmt.Sprint(model)
		c.res.Corr(ok)
		if !ok {
			corrBroken = true
			c.res.Violate("correspondence", "C12/validate-multi-mismatch/"+where, call+": library "+goOut+", model (forallb of the single-argument predicate) "+fmt.Sprint(model), rp)
		}
	} else {
		corrBroken = true
	}
	if goOut != fmt.Sprint(oracle) {
		propBroken = true
		var vals []string
		for _, a := range cs.args {
			switch {
			case a.Nil != "":
				vals = append(vals, a.Nil)
			default:
				s := c12Short(a.z)
				if a.Bytes > 0 {
					s += fmt.Sprintf("{encoded on %d bytes}", a.Bytes)
				}
				vals = append(vals, s+":"+a.Class)
			}
		}
		what := "one argument is not a unit in [1, n-1] (or is missing / oversize), the call must answer false"
		if oracle {
			what = "every argument is a unit in [1, n-1], the call must answer true"
		}
		c.res.Violate("property", "C12/validate-multi/"+where, fmt.Sprintf("%s: answered %s; %s; arguments (%s)", call, goOut, what, strings.Join(vals, ", ")), rp)
	}
	c.res.Sample(3, map[string]string{"op": c12MultiOp, "fn": cs.fn, "form": cs.form, "key": cs.k.name, "class": cs.class,
		"arity/position": fmt.Sprintf("%d/%d", len(cs.args), cs.pos), "library": goOut, "model": fmt.Sprint(model)})
	return goOut, corrBroken, propBroken
}

// ---------------------------------------------------------------------------------------------------------------
// generation

type c12MClass struct {
	name string
	reps []c12MArg
}

// c12MSplit sorts candidates into invalid and valid classes (order of first appearance), at most keep representatives each.
func c12MSplit(cands []*big.Int, n *big.Int, classOf func(*big.Int) string, keep int) (inv, val []*c12MClass) {
	idx := map[string]*c12MClass{}
	seen := map[string]bool{}
	for _, z := range cands {
		if seen[z.String()] {
			continue
		}
		seen[z.String()] = true
		name := classOf(z)
		valid := c12MBigValid(n, z)
		id := fmt.Sprint(valid) + name
		cl := idx[id]
		if cl == nil {
			cl = &c12MClass{name: name}
			idx[id] = cl
			if valid {
				val = append(val, cl)
			} else {
				inv = append(inv, cl)
			}
		}
		if len(cl.reps) < keep || valid {
			cl.reps = append(cl.reps, c12MVal(name, z))
		}
	}
	return
}

// multiSuite: the whole lattice on every key. reps = representatives per invalid class (and rounds of valid fillers).
func (g *c12Gen) multiSuite(keys []*c12Key, reps int) {
	t0 := time.Now()
	ev0, calls0 := g.c.res.Evaluations, g.c.m.Calls
	for _, k := range keys {
		// ciphertexts: the candidates and classes of the single-argument lattice (keySuite)
		inv, val := c12MSplit(g.ciphertexts(k, 1), k.N2, func(z *big.Int) string { return c12ClassC(k, z) }, reps)
		for _, form := range []string{"sk", "pk"} {
			g.multiLattice(c12MultiCt, form, k, k.N2, inv, val, reps)
		}
		// values modulo N and N^2: the base operands of the Exp/ExpI grid and their classes
		byMod := [2][]*big.Int{}
		for _, t := range g.expTriples(k, 1, false) {
			byMod[t[0].Sign()] = append(byMod[t[0].Sign()], t[1])
		}
		for w, form := range []string{"N", "N2"} {
			n, p, q, _ := (&c12Case{k: k, a: []*big.Int{big.NewInt(int64(w))}}).expMod()
			// a few more: a multiple of the PRIME p below n (modulo N^2: a non-unit that is not a multiple of p^2), n + p, 2n
			cands := append(byMod[w], new(big.Int).Mul(k.p, new(big.Int).Add(c12RandBelow(g.r, k.q), c12One)), new(big.Int).Add(n, k.p), new(big.Int).Lsh(n, 1))
			inv, val := c12MSplit(cands, n, func(z *big.Int) string { return c12ClassX(n, p, q, z) }, reps)
			g.multiLattice(c12MultiNat, form, k, n, inv, val, reps)
			g.multiLattice(c12MultiBig, form, k, n, inv, val, reps)
		}
	}
	var sb strings.Builder
	for _, fn := range []string{c12MultiCt, c12MultiNat, c12MultiBig} {
		fmt.Fprintf(&sb, " %s=%d", fn, c12MCount[fn])
	}
	g.c.res.Note("validate-multi: %.1f s, %d evaluations, %d model calls (cases by validator:%s); %d panics mirrored by the single-argument call",
		time.Since(t0).Seconds(), g.c.res.Evaluations-ev0, g.c.m.Calls-calls0, sb.String(), c12MMirrored)
}

// multiLattice runs one validator on one key: every invalid class at every position of a 1-, 2-, 3-argument call, the
// controls, and the classes that are not numbers.
func (g *c12Gen) multiLattice(fn, form string, k *c12Key, n *big.Int, inv, val []*c12MClass, reps int) {
	var pool []c12MArg
	for _, cl := range val {
		pool = append(pool, cl.reps...)
	}
	if len(pool) == 0 {
		g.c.res.Note("validate-multi: no valid candidate for %s[%s] on key %s, skipped", fn, form, k.name)
		return
	}
	filler := func() c12MArg {
		a := pool[g.r.Intn(len(pool))]
		a.Class = "valid:" + a.Class
		return a
	}
	unit := func() *big.Int { return pool[g.r.Intn(len(pool))].z }
	// classes a number cannot express
	inv = append([]*c12MClass{}, inv...)
	val = append([]*c12MClass{}, val...)
	addc := func(l *[]*c12MClass, a c12MArg) { *l = append(*l, &c12MClass{name: a.Class, reps: []c12MArg{a}}) }
	addc(&inv, c12MArg{Class: "nil", Nil: "nil"})
	switch fn {
	case c12MultiCt, c12MultiNat:
		bound := c12MultiMaxCtBits / 8
		if fn == c12MultiNat {
			bound = c12MultiMaxNatBits / 8
		}
		addc(&inv, c12MArg{Class: "zero-value", Nil: "zero-value"})
		addc(&inv, c12MPadded("padded-oversize", unit(), 2*bound))
		addc(&inv, c12MPadded("padded-huge", unit(), c12MultiHugeBytes))
		u := unit()
		addc(&val, c12MPadded("padded-small", u, len(u.Bytes())+8))
	case c12MultiBig:
		addc(&inv, c12MVal("neg-1", big.NewInt(-1)))
		addc(&inv, c12MVal("neg-unit", new(big.Int).Neg(unit())))
		addc(&inv, c12MVal("neg-(n-1)", new(big.Int).Sub(c12One, n)))
	}
	run := func(cl *c12MClass, rep c12MArg, valid bool, arity, pos int) {
		cs := &c12MCase{fn: fn, form: form, k: k, class: cl.name, pos: pos, valid: valid, args: make([]c12MArg, arity)}
		for i := range cs.args {
			cs.args[i] = filler()
		}
		cs.args[pos] = rep
		g.c.c12MRun(cs)
	}
	// the empty call
	g.c.c12MRun(&c12MCase{fn: fn, form: form, k: k, class: "none", valid: true})
	for _, cl := range val {
		rep := cl.reps[g.r.Intn(len(cl.reps))]
		for arity := 1; arity <= 3; arity++ {
			for pos := 0; pos < arity; pos++ {
				run(cl, rep, true, arity, pos)
			}
		}
	}
	for _, cl := range inv {
		for i, rep := range cl.reps {
			if i >= reps {
				break
			}
			for arity := 1; arity <= 3; arity++ {
				for pos := 0; pos < arity; pos++ {
					run(cl, rep, false, arity, pos)
				}
			}
		}
	}
}

// ---------------------------------------------------------------------------------------------------------------
// replay

// c12MultiReplay handles a replay record of this file; false: the record belongs to c12Replay_.
func (c *ctx) c12MultiReplay() bool {
	var rp c12MultiReplayT
	if err := readJSON(c.replay, &rp); err != nil || rp.Op != c12MultiOp {
		return false
	}
	p, ok1 := new(big.Int).SetString(rp.P, 16)
	q, ok2 := new(big.Int).SetString(rp.Q, 16)
	if !ok1 || !ok2 || (rp.Fn != c12MultiCt && rp.Fn != c12MultiNat && rp.Fn != c12MultiBig) || rp.Pos < 0 || (rp.Pos >= len(rp.Args) && len(rp.Args) > 0) {
		c.res.Note("bad validate-multi replay")
		return true
	}
	cs := &c12MCase{fn: rp.Fn, form: rp.Form, k: c12KeyFor(rp.Key, "", p, q), class: rp.Class, pos: rp.Pos, valid: rp.Control, args: rp.Args}
	for i := range cs.args {
		a := &cs.args[i]
		a.z = new(big.Int)
		if a.Nil == "" {
			if _, ok := a.z.SetString(a.Hex, 16); !ok || (a.z.Sign() < 0 && cs.fn != c12MultiBig) {
				c.res.Note("bad validate-multi replay: argument %d", i)
				return true
			}
		}
	}
	goOut, corr, prop := c.c12MRun(cs)
	fmt.Printf("replay: %s %s[%s] key %s class %s position %d of %d: go %s | correspondence broken=%v property broken=%v\n",
		c12MultiOp, cs.fn, cs.form, cs.k.name, cs.class, cs.pos, len(cs.args), goOut, corr, prop)
	return true
}
