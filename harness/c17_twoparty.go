package main

// C17 (TwoPartyHandler) -- random API histories on Doerner key generation and signing sessions:
// genuine deliveries, duplicates of in-flight messages, late duplicates of consumed rounds, DIFFERENT messages for
// consumed rounds, a different second message for a pending round (in both orders), pre-sent genuine messages of later
// rounds, undecodable messages for the current round, foreign-session messages, abort notices, Stop, Result -- at every
// point.  Oracles (on the implementation): no panic, no blocked call, Listen() closed iff the session ended, Result
// stable after the end, Stop ends a running session, an abort notice ends a running session, stale / duplicate /
// foreign traffic changes nothing visible, a session that completes returns the result of the undisturbed run.
// Every node's history is replayed in the Coq model (Model/TwoParty.v, repaired Stop guard, channel capacity 2).
//
// Genuine messages of LATER rounds are available because the sessions are deterministic: the reference run and every
// history use the same per-party random streams, so the messages harvested from the reference run are exactly the
// ones the peer will send (checked once per spec).

import (
	"bytes"
	"fmt"
	"math/rand"
	"sort"
	"strings"

	"github.com/taurusgroup/multi-party-sig/pkg/math/curve"
	"github.com/taurusgroup/multi-party-sig/pkg/party"
	"github.com/taurusgroup/multi-party-sig/pkg/protocol"
	"github.com/taurusgroup/multi-party-sig/pkg/verifhook"
	"github.com/taurusgroup/multi-party-sig/protocols/doerner"
)

type tpSpec struct {
	Name    string
	IDs     []party.ID
	DetSeed int64
	Build   func(det *detReader) *Sim
	// Sibs: sessions differing from this one in exactly one parameter (Name = the difference); used as sources of
	// foreign-session traffic (c07_twoparty.go, c09.go)
	Sibs []tpSpec
}

type tpRef struct {
	Shapes  map[party.ID]tpShape
	Harvest map[party.ID]map[int]*protocol.Message // recipient -> round number -> genuine message
	FP      map[party.ID]string                    // result fingerprints of the undisturbed run
	Final   int
	Determ  bool
	Stats   map[string]int // how often each kind of event / outcome occurred
}

func (sp tpSpec) reference() (*Sim, error) {
	det := installDetReader(sp.DetSeed, 0)
	defer restoreRandReader()
	s := sp.Build(det)
	for _, n := range s.Nodes {
		if n.H == nil {
			return nil, fmt.Errorf("%s: %s could not start: %v", sp.Name, n.ID, n.StartErr)
		}
	}
	s.RunFIFO(1000)
	return s, nil
}

func outHashes(s *Sim) string {
	var hs []string
	for _, n := range s.Nodes {
		for _, m := range n.Out {
			hs = append(hs, fmt.Sprintf("%s/%d/%x", m.From, m.RoundNumber, m.Hash()))
		}
	}
	sort.Strings(hs)
	return strings.Join(hs, ",")
}

func (c *ctx) tpReference(sp tpSpec) (*tpRef, error) {
	a, err := sp.reference()
	if err != nil {
		return nil, err
	}
	b, err := sp.reference()
	if err != nil {
		return nil, err
	}
	ref := &tpRef{Shapes: map[party.ID]tpShape{}, Harvest: map[party.ID]map[int]*protocol.Message{}, FP: map[party.ID]string{}, Stats: map[string]int{}}
	ref.Determ = outHashes(a) == outHashes(b)
	for id, n := range a.Nodes {
		sh, err := learnTwoPartyShape(a, n)
		if err != nil {
			return nil, err
		}
		ref.Shapes[id] = sh
		ref.Final = sh.Final
		r, e := resultOf(n)
		ref.FP[id] = resultFP(r) + e
		for _, m := range n.Out {
			for _, to := range a.IDs {
				if to != n.ID && m.IsFor(to) {
					if ref.Harvest[to] == nil {
						ref.Harvest[to] = map[int]*protocol.Message{}
					}
					ref.Harvest[to][int(m.RoundNumber)] = m
				}
			}
		}
	}
	return ref, nil
}

// fingerprint of everything VerifState shows (the stored round numbers come out of a map: sorted here)
func tpStateFP(n *Node) string {
	st := n.TH.VerifState()
	sort.Slice(st.Stored, func(i, j int) bool { return st.Stored[i] < st.Stored[j] })
	return canon(st)
}

// an undecodable payload: 0xff is a CBOR "break" outside an indefinite-length item
func tpGarbage(ssid []byte, proto string, from party.ID, round int, salt byte) *protocol.Message {
	return &protocol.Message{SSID: ssid, From: from, Protocol: proto, RoundNumber: verifhook.RoundNumber(round), Data: []byte{0xff, 0x00, 0x13, salt}}
}

func (c *ctx) c17tpHistory(sp tpSpec, ref *tpRef, seed int64) {
	det := installDetReader(sp.DetSeed, 0)
	defer restoreRandReader()
	rng := rand.New(rand.NewSource(seed))
	s := sp.Build(det)
	s.AcceptTimeout = 60e9
	for _, n := range s.Nodes {
		if n.H == nil {
			c.res.Note("%s: %s could not start: %v", sp.Name, n.ID, n.StartErr)
			return
		}
		tpNote(n)
	}
	victim := s.IDs[rng.Intn(len(s.IDs))]
	v := s.Nodes[victim]
	var peer party.ID
	for _, id := range s.IDs {
		if id != victim {
			peer = id
		}
	}
	sh := ref.Shapes[victim]
	var hist []string
	bad := func(what string) {
		c.res.Violate("property", "C17/"+sp.Name+"/"+strings.SplitN(what, ":", 2)[0], what,
			c17Replay{Spec: sp.Name, Seed: seed, Victim: string(victim), History: append([]string{}, hist...), What: what})
	}
	ended := false
	var endClass int
	var endFP string
	stoppedWhileRunning := false
	dead := false // a call blocked: the handler holds its lock for ever
	check := func() {
		o := v.Obs[len(v.Obs)-1]
		if o.Panic != "" {
			bad("panic: " + o.Panic)
		}
		if o.Hung {
			dead = true
			bad("blocked: call did not return although Listen() had been emptied before the call")
			return
		}
		cl, fp := resultClass(v.H)
		if cl == 3 {
			bad("result-nil-nil: Result returned neither a value nor an error")
		}
		if ended {
			if cl != endClass || fp != endFP {
				bad(fmt.Sprintf("result-changed: Result changed after the end (%d -> %d)", endClass, cl))
			}
		} else if cl != 0 {
			ended, endClass, endFP = true, cl, fp
		}
		if (cl != 0) != o.Closed {
			if cl != 0 {
				s.collect(v)
				if !v.closed {
					bad("not-closed: session ended but Listen() is still open")
				}
			} else {
				bad("closed-early: Listen() closed while Result says not finished")
			}
		}
		if stoppedWhileRunning && cl != 2 {
			bad("stop-ineffective: Stop on a running session did not end it with an error")
		}
	}
	running := func() bool { cl, _ := resultClass(v.H); return cl == 0 }
	cur := func() int { return v.Obs[len(v.Obs)-1].Round }
	inject := func(m *protocol.Message, valid bool, tag string) Obs {
		hist = append(hist, fmt.Sprintf("%s r%d", tag, m.RoundNumber))
		ref.Stats[tag]++
		o := s.tpDeliver(&Env{Msg: m, To: victim, Valid: valid, Tag: "/" + tag})
		check()
		return o
	}
	// a message that must leave everything visible unchanged (state fingerprint incl. the set of stored rounds)
	quiet := func(m *protocol.Message, valid bool, tag string) {
		before := tpStateFP(v)
		o := inject(m, valid, tag)
		if dead {
			return
		}
		if after := tpStateFP(v); after != before || len(o.NewOut) > 0 {
			bad(tag + ": a message that must be ignored changed the handler state or made it emit")
		}
	}
	var delivered []*protocol.Message // genuine messages the victim has been given
	harvest := func(r int) *protocol.Message {
		if !ref.Determ {
			return nil
		}
		return ref.Harvest[victim][r]
	}
	steps := 0
	for (len(s.Flight) > 0 || steps < 8) && steps < 200 && !dead {
		steps++
		choice := rng.Intn(20)
		switch {
		case choice <= 5 && len(s.Flight) > 0:
			e := s.take(rng.Intn(len(s.Flight)))
			hist = append(hist, "deliver "+envName(e))
			o := s.tpDeliver(e)
			if o.Hung && e.To != victim {
				dead = true
				bad("blocked: call on the peer did not return")
			}
			if e.To == victim {
				delivered = append(delivered, e.Msg)
				check()
			}
		case choice == 6 && rng.Intn(3) == 0:
			was := running()
			hist = append(hist, "Stop")
			s.tpStop(victim)
			if was {
				stoppedWhileRunning = true
				ref.Stats["Stop while running"]++
			} else {
				ref.Stats["Stop after the end"]++
			}
			check()
		case choice == 7 && rng.Intn(3) == 0:
			// abort notice from the peer
			was := running()
			m := &protocol.Message{SSID: sh.SSID, From: peer, Protocol: sh.Proto, Data: []byte("peer failed")}
			o := inject(m, true, "abort-notice")
			if was && !dead && (o.Class != 2 || o.ErrKind != 1) {
				bad("abort-notice: a peer's abort notice did not end the running session with that error")
			}
		case choice == 8:
			// message of another session: refused by CanAccept, ignored by Accept
			m := &protocol.Message{SSID: append([]byte{1}, sh.SSID...), From: peer, Protocol: sh.Proto, RoundNumber: verifhook.RoundNumber(1 + rng.Intn(ref.Final)), Data: []byte{1}}
			hist = append(hist, "CanAccept foreign")
			if s.tpCanAccept(victim, m, true) {
				bad("foreign-accepted: CanAccept is true for a message of another session")
			}
			quiet(m, true, "foreign")
		case choice == 9 && len(s.Flight) > 0:
			// duplicate of an in-flight message to the victim (the original stays in flight)
			for _, e := range s.Flight {
				if e.To == victim {
					inject(e.Msg, true, "dup-in-flight")
					delivered = append(delivered, e.Msg)
					break
				}
			}
		case (choice == 10 || choice == 11) && len(delivered) > 0:
			// late duplicate of a message given before; when its round is consumed and the handler waits: no visible change
			m := delivered[rng.Intn(len(delivered))]
			if !running() || int(m.RoundNumber) < cur() {
				hist = append(hist, "CanAccept late-dup")
				s.tpCanAccept(victim, m, true)
				quiet(m, true, "late-dup")
			} else {
				inject(m, true, "dup")
			}
		case (choice == 12 || choice == 13) && cur() > 1:
			// a DIFFERENT (undecodable) message for a consumed round: accepted (no stale check), stored, invisible
			r := 1 + rng.Intn(cur()-1)
			m := tpGarbage(sh.SSID, sh.Proto, peer, r, byte(steps))
			before, was := v.Obs[len(v.Obs)-1], running()
			hist = append(hist, "CanAccept stale-different")
			s.tpCanAccept(victim, m, false)
			o := inject(m, false, "stale-different")
			if was && !dead && (o.Round != before.Round || o.Class != before.Class || len(o.NewOut) > 0 || o.Closed != before.Closed) {
				bad("stale-different: a message for a consumed round changed round, outcome or output")
			}
		case choice >= 14 && choice <= 16 && running() && cur() >= 1 && cur() < ref.Final:
			// a different second message for a pending (later) round, in one of the two orders; or only one of them
			r := cur() + 1 + rng.Intn(ref.Final-cur())
			g, junk := harvest(r), tpGarbage(sh.SSID, sh.Proto, peer, r, byte(steps))
			switch k := rng.Intn(4); {
			case k == 0 && g != nil:
				inject(junk, false, "pending-junk-first")
				inject(g, true, "pending-genuine-second")
			case k == 1 && g != nil:
				inject(g, true, "pending-genuine-first")
				inject(junk, false, "pending-junk-second")
			case k == 2 && g != nil:
				inject(g, true, "presend")
			default:
				inject(junk, false, "pending-junk")
			}
		case choice == 17 && running() && cur() >= 1 && rng.Intn(3) == 0:
			// undecodable message for the current round: clean abort
			m := tpGarbage(sh.SSID, sh.Proto, peer, cur(), byte(steps))
			waiting := sh.Rounds[cur()] != nil && sh.Rounds[cur()].Expects
			o := inject(m, false, "current-junk")
			if waiting && !dead && (o.Class != 2 || o.ErrKind != 2) {
				bad("invalid-not-aborted: an undecodable message for the current round did not end the session with an error")
			}
		default:
			hist = append(hist, "Result")
			check()
		}
	}
	outcome := map[int]string{0: "unfinished", 1: "completed", 2: "error"}[v.Obs[len(v.Obs)-1].Class]
	if dead {
		outcome = "blocked"
	}
	ref.Stats["victim "+outcome]++
	c.res.Case("twoparty/"+sp.Name+"/"+outcome, sp.Name+strings.Join(hist, ","), len(hist) > 0)
	c.res.Sample(2, map[string]interface{}{"spec": sp.Name, "victim": victim, "history": hist})
	if dead {
		return
	}
	// a session that completes returns the result of the undisturbed run (only decodable = genuine messages can be consumed)
	if ref.Determ {
		for id, n := range s.Nodes {
			if r, _ := resultOf(n); r != nil && resultFP(r) != ref.FP[id] {
				bad("result-differs: a completed session returned another result than the undisturbed run")
			}
		}
	}
	// model replay for every node
	for _, id := range s.IDs {
		n := s.Nodes[id]
		i, mo, ro, err := c.CompareTwoPartyWithModel(s, n, ref.Shapes[id], true, true)
		if err != nil {
			c.res.Corr(false)
			c.res.Violate("correspondence", "C17/twoparty-model-error", err.Error(), nil)
			continue
		}
		c.res.Corr(i < 0)
		if i >= 0 {
			c.res.Violate("correspondence", "C17/twoparty-handler-model/"+sp.Name, "two-party handler state differs from the Coq model (repaired Stop guard) after an API event",
				c17Replay{Spec: sp.Name, Seed: seed, Victim: string(n.ID), History: hist, Model: mo, Real: ro, Event: i, What: "model correspondence"})
		}
	}
}

func tpSpecs() ([]tpSpec, error) {
	ids := idsOf("recv", "send")
	g := curve.Secp256k1{}
	kg := tpSpec{Name: "doerner-keygen", IDs: ids, DetSeed: 41,
		Build: func(det *detReader) *Sim {
			return twoPartySim(ids, det, doerner.Keygen(g, true, ids[0], ids[1], nil), doerner.Keygen(g, false, ids[1], ids[0], nil), []byte("tp-kg"), true, false)
		}}
	ref, err := kg.reference()
	if err != nil {
		return nil, err
	}
	rr, e1 := resultOf(ref.Nodes[ids[0]])
	rs, e2 := resultOf(ref.Nodes[ids[1]])
	cr, ok1 := rr.(*doerner.ConfigReceiver)
	cs, ok2 := rs.(*doerner.ConfigSender)
	if !ok1 || !ok2 {
		return nil, fmt.Errorf("doerner keygen did not complete: %s %s", e1, e2)
	}
	msgHash := bytes.Repeat([]byte{7}, 32)
	sign := func(sid, h []byte) func(det *detReader) *Sim {
		return func(det *detReader) *Sim {
			return twoPartySim(ids, det, doerner.SignReceiver(cr, ids[0], ids[1], h, nil), doerner.SignSender(cs, ids[1], ids[0], h, nil), sid, true, true)
		}
	}
	keygen := func(r, s party.ID, sid []byte) func(det *detReader) *Sim {
		return func(det *detReader) *Sim {
			return twoPartySim([]party.ID{r, s}, det, doerner.Keygen(g, true, r, s, nil), doerner.Keygen(g, false, s, r, nil), sid, true, false)
		}
	}
	sg := tpSpec{Name: "doerner-sign", IDs: ids, DetSeed: 42, Build: sign([]byte("tp-sg"), msgHash)}
	// sibling sessions: same parties, one parameter different (their own random streams)
	kg.Sibs = []tpSpec{
		{Name: "session-id", IDs: ids, DetSeed: 141, Build: keygen(ids[0], ids[1], []byte("tp-kg-other"))},
		{Name: "session-id-absent", IDs: ids, DetSeed: 142, Build: keygen(ids[0], ids[1], nil)},
		{Name: "variant-sign", IDs: ids, DetSeed: 143, Build: sign([]byte("tp-kg"), msgHash)},
		{Name: "roles-swapped", IDs: ids, DetSeed: 144, Build: keygen(ids[1], ids[0], []byte("tp-kg"))},
	}
	sg.Sibs = []tpSpec{
		{Name: "session-id", IDs: ids, DetSeed: 145, Build: sign([]byte("tp-sg-other"), msgHash)},
		{Name: "session-id-absent", IDs: ids, DetSeed: 146, Build: sign(nil, msgHash)},
		{Name: "variant-keygen", IDs: ids, DetSeed: 147, Build: keygen(ids[0], ids[1], []byte("tp-sg"))},
		{Name: "message", IDs: ids, DetSeed: 148, Build: sign([]byte("tp-sg"), bytes.Repeat([]byte{8}, 32))},
	}
	return []tpSpec{kg, sg}, nil
}

// c17TwoParty: called at the end of runC17.
func (c *ctx) c17TwoParty() {
	c.res.Rule += "; TwoPartyHandler: random API histories (deliver / duplicate / late duplicate / different stale message / different second message for a pending round / " +
		"pre-sent later rounds / undecodable / foreign / abort notice / Stop / Result) on Doerner keygen and sign sessions, same oracles plus: ignored traffic changes nothing, " +
		"completed sessions return the undisturbed result; every node replayed in the Coq two-party model"
	specs, err := tpSpecs()
	if err != nil {
		c.res.Violate("property", "C17/twoparty/setup", "Doerner reference sessions did not complete: "+err.Error(), nil)
		return
	}
	n := 60
	if c.thorough() {
		n = 1500
	}
	var rp c17Replay
	replaying := c.replay != "" && readJSON(c.replay, &rp) == nil && strings.HasPrefix(rp.Spec, "doerner-")
	for _, sp := range specs {
		ref, err := c.tpReference(sp)
		if err != nil {
			c.res.Violate("property", "C17/twoparty/reference/"+sp.Name, "honest reference run failed: "+err.Error(), nil)
			continue
		}
		if !ref.Determ {
			c.res.Note("%s: two runs with the same random streams differ; pre-sent genuine messages are not used", sp.Name)
		}
		// the honest reference run itself must replay in the model (validates the derived shape)
		if a, err := sp.reference(); err == nil {
			for _, id := range a.IDs {
				i, mo, ro, err := c.CompareTwoPartyWithModel(a, a.Nodes[id], ref.Shapes[id])
				c.res.Corr(err == nil && i < 0)
				if err != nil || i >= 0 {
					c.res.Violate("correspondence", "C17/twoparty-handler-model/"+sp.Name+"/honest", fmt.Sprintf("honest run differs from the model (shape %s) err=%v", ref.Shapes[id], err),
						c17Replay{Spec: sp.Name, Victim: string(id), Model: mo, Real: ro, Event: i, What: "model correspondence (honest run)"})
				}
			}
		}
		if replaying {
			if rp.Spec == sp.Name {
				c.c17tpHistory(sp, ref, rp.Seed)
			}
			continue
		}
		for k := 0; k < n; k++ {
			c.c17tpHistory(sp, ref, c.res.Seed*100000+int64(k))
		}
		var ks []string
		for k, v := range ref.Stats {
			ks = append(ks, fmt.Sprintf("%s=%d", k, v))
		}
		sort.Strings(ks)
		c.res.Note("twoparty %s: %d histories; %s", sp.Name, n, strings.Join(ks, ", "))
	}
}
