package main

// c05_cand.go -- malformed-message candidates for one (session, victim) and how one candidate is run and classified.

import (
	"bytes"
	"encoding/hex"
	"fmt"
	"hash/fnv"
	"math/rand"
	"sort"
	"strings"

	"github.com/fxamacker/cbor/v2"
	"github.com/taurusgroup/multi-party-sig/pkg/party"
	"github.com/taurusgroup/multi-party-sig/pkg/protocol"
	"github.com/taurusgroup/multi-party-sig/pkg/verifhook"

	"verifharness/sx"
)

type c05Cand struct {
	Key    string // stable violation key
	Bucket string // distribution bucket
	Target string // envelope key of the genuine message that is replaced
	State  string // inorder | p2p-before-bc | early
	Hold   map[string]bool
	Family string // content | header | raw
	Round  int
	CType  string
	Path   string
	Malf   string
	// Extra: further replacements (envelope key -> message) applied when those envelopes come up (crafted multi-message cases)
	Extra    map[string]*protocol.Message
	Core     bool
	RunToEnd bool
	make     func() *protocol.Message
}

func c05CloneMsg(m *protocol.Message) *protocol.Message {
	c := *m
	return &c
}

type c05HdrMal struct {
	name string
	f    func(m *protocol.Message) *protocol.Message
}

func c05HeaderMalformations(m *protocol.Message, victim party.ID, ids []party.ID, final int) []c05HdrMal {
	var third party.ID = "zed"
	for _, id := range ids {
		if id != victim && id != m.From {
			third = id
		}
	}
	set := func(f func(c *protocol.Message)) func(*protocol.Message) *protocol.Message {
		return func(m *protocol.Message) *protocol.Message { c := c05CloneMsg(m); f(c); return c }
	}
	var hs []c05HdrMal
	add := func(n string, f func(c *protocol.Message)) { hs = append(hs, c05HdrMal{n, set(f)}) }
	if m.To != "" {
		add("To/empty", func(c *protocol.Message) { c.To = "" })
	} else {
		add("To/victim", func(c *protocol.Message) { c.To = victim })
	}
	add("To/other", func(c *protocol.Message) { c.To = third })
	add("To/sender", func(c *protocol.Message) { c.To = c.From })
	add("To/unknown", func(c *protocol.Message) { c.To = "nobody" })
	add("From/self", func(c *protocol.Message) { c.From = victim })
	add("From/unknown", func(c *protocol.Message) { c.From = "nobody" })
	add("From/other", func(c *protocol.Message) { c.From = third })
	add("From/empty", func(c *protocol.Message) { c.From = "" })
	r := int(m.RoundNumber)
	rounds := map[string]int{"0": 0, "1": 1, "past": r - 1, "next": r + 1, "final": final, "final+1": final + 1, "final+2": final + 2, "65535": 65535}
	for _, n := range []string{"0", "1", "past", "next", "final", "final+1", "final+2", "65535"} {
		v := rounds[n]
		if v == r || v < 0 {
			continue
		}
		vv := v
		add("RoundNumber/"+n, func(c *protocol.Message) { c.RoundNumber = verifhook.RoundNumber(vv) })
	}
	add("Broadcast/flipped", func(c *protocol.Message) { c.Broadcast = !c.Broadcast })
	add("SSID/flipped", func(c *protocol.Message) {
		s := append([]byte{}, c.SSID...)
		if len(s) > 0 {
			s[0] ^= 1
		}
		c.SSID = s
	})
	add("SSID/nil", func(c *protocol.Message) { c.SSID = nil })
	add("SSID/empty", func(c *protocol.Message) { c.SSID = []byte{} })
	add("SSID/long", func(c *protocol.Message) { c.SSID = append(append([]byte{}, c.SSID...), c05Rep(0, 1024)...) })
	add("Protocol/wrong", func(c *protocol.Message) { c.Protocol = c.Protocol + "x" })
	add("Protocol/empty", func(c *protocol.Message) { c.Protocol = "" })
	add("Data/nil", func(c *protocol.Message) { c.Data = nil })
	add("Data/empty", func(c *protocol.Message) { c.Data = []byte{} })
	add("BroadcastVerification/nil", func(c *protocol.Message) { c.BroadcastVerification = nil })
	add("BroadcastVerification/wrong", func(c *protocol.Message) { c.BroadcastVerification = c05Rep(0x55, 64) })
	add("BroadcastVerification/long", func(c *protocol.Message) { c.BroadcastVerification = c05Rep(0x55, 1<<16) })
	hs = append(hs, c05HdrMal{"Message/nil", func(*protocol.Message) *protocol.Message { return nil }})
	return hs
}

type c05RawMal struct {
	name string
	data []byte
}

func c05RawMalformations(orig []byte, rng *rand.Rand) []c05RawMal {
	var rs []c05RawMal
	rb := func(n int) []byte {
		b := make([]byte, n)
		rng.Read(b)
		return b
	}
	for i, n := range []int{1, 2, 8, 33, 64, len(orig), len(orig)} {
		rs = append(rs, c05RawMal{fmt.Sprintf("random-%d", i), rb(n)})
	}
	for _, cut := range []int{1, 2, len(orig) / 4, len(orig) / 2, len(orig) - 2, len(orig) - 1} {
		if cut > 0 && cut < len(orig) {
			rs = append(rs, c05RawMal{fmt.Sprintf("truncated-%d", cut*100/len(orig)), append([]byte{}, orig[:cut]...)})
		}
	}
	rs = append(rs, c05RawMal{"trailing-byte", append(append([]byte{}, orig...), 0)})
	rs = append(rs, c05RawMal{"trailing-item", append(append([]byte{}, orig...), orig...)})
	for _, b := range []byte{0xf6, 0xa0, 0x80, 0x40, 0x60, 0x00, 0xff, 0xf7, 0x1f, 0xbf, 0x9f, 0x5f} {
		rs = append(rs, c05RawMal{fmt.Sprintf("single-%02x", b), []byte{b}})
	}
	rs = append(rs, c05RawMal{"nested-arrays-100", append(c05Rep(0x81, 100), 0)})
	rs = append(rs, c05RawMal{"nested-arrays-100000", append(c05Rep(0x81, 100000), 0)})
	rs = append(rs, c05RawMal{"nested-tags-100000", append(c05Rep(0xc2, 100000), 0x40)})
	rs = append(rs, c05RawMal{"nested-maps-1000", append(bytes.Repeat([]byte{0xa1, 0x00}, 1000), 0)})
	rs = append(rs, c05RawMal{"indefinite-unterminated", append([]byte{0x9f}, c05Rep(0x00, 1000)...)})
	rs = append(rs, c05RawMal{"zeros-1M", c05Rep(0, 1<<20)})
	rs = append(rs, c05RawMal{"ff-64k", c05Rep(0xff, 1<<16)})
	// bit flips at a few positions of the genuine encoding
	for i := 0; i < 6 && len(orig) > 0; i++ {
		pos := rng.Intn(len(orig))
		f := append([]byte{}, orig...)
		f[pos] ^= 1 << uint(rng.Intn(8))
		rs = append(rs, c05RawMal{fmt.Sprintf("bitflip-%d", i), f})
	}
	return rs
}

type c05CandParams struct {
	Tier    string
	Heavy   bool
	Victim  party.ID
	Senders []party.ID
	Rng     *rand.Rand
	// sampling (0 = everything)
	PerTargetInorder int
	PerTargetOther   int
	CoreAlways       bool
	Seed             int64
	BigAll           bool
	OnlyMalf         string
}

// ctype of the round content that consumes envelope key at the recipient
func (r *c05Ref) ctype(to party.ID, m *protocol.Message) string {
	k := "p2p"
	if m.Broadcast {
		k = "bc"
	}
	if t := r.Types[fmt.Sprintf("%s/r%d/%s", to, m.RoundNumber, k)]; t != "" {
		return t
	}
	if m.Broadcast {
		return fmt.Sprintf("broadcast%d", m.RoundNumber)
	}
	return fmt.Sprintf("message%d", m.RoundNumber)
}

func c05Candidates(spec *c05Spec, ref *c05Ref, pr c05CandParams) ([]*c05Cand, []string) {
	var out []*c05Cand
	var notes []string
	isSender := map[party.ID]bool{}
	for _, s := range pr.Senders {
		isSender[s] = true
	}
	// targets: genuine envelopes to the victim in reference order
	for _, key := range ref.Order {
		env := ref.Envs[key]
		if env == nil || env.To != pr.Victim || !isSender[env.From] || env.Msg.RoundNumber == 0 {
			continue
		}
		genuine := env.Msg
		r := int(genuine.RoundNumber)
		ctype := ref.ctype(pr.Victim, genuine)
		// sanity: the library's own decoder accepts the payload as generic CBOR, and our reader re-encodes it byte-exactly
		var generic interface{}
		if err := cbor.Unmarshal(genuine.Data, &generic); err != nil {
			notes = append(notes, fmt.Sprintf("%s %s: payload is not generic CBOR: %v", spec.Name, key, err))
		}
		tree, err := c05CParseAll(genuine.Data)
		if err != nil || !bytes.Equal(tree.encode(), genuine.Data) {
			notes = append(notes, fmt.Sprintf("%s %s: payload tree does not round-trip (%v); only header/raw malformations", spec.Name, key, err))
			tree = nil
		}
		// states
		type st struct {
			name string
			hold map[string]bool
		}
		states := []st{{"inorder", nil}}
		if !spec.TwoParty {
			if !genuine.Broadcast {
				// the sender's broadcast of the same round, if it precedes the p2p message
				for _, k2 := range ref.Order {
					if k2 == key {
						break
					}
					e2 := ref.Envs[k2]
					if e2 != nil && e2.To == pr.Victim && e2.From == env.From && e2.Msg.RoundNumber == genuine.RoundNumber && e2.Msg.Broadcast {
						states = append(states, st{"p2p-before-bc", map[string]bool{k2: true}})
					}
				}
			}
			// early: hold the last round-(r-1) envelope to the victim that precedes the target
			last := ""
			for _, k2 := range ref.Order {
				if k2 == key {
					break
				}
				e2 := ref.Envs[k2]
				if e2 != nil && e2.To == pr.Victim && int(e2.Msg.RoundNumber) == r-1 {
					last = k2
				}
			}
			if last != "" {
				states = append(states, st{"early", map[string]bool{last: true}})
			}
		}
		// catalogue
		type item struct {
			family, path, malf string
			mk                 func() *protocol.Message
			core               bool
		}
		var cat []item
		if tree != nil {
			for _, p := range c05CPaths(tree, 3) {
				_, node, _ := c05CAt(tree, p)
				pp := p
				for _, ml := range c05CMalformationsFor(node, len(p.Steps) == 0) {
					mm := ml
					if mm.Name == "long-1M" && pr.Heavy {
						// CMP integers: a 1 MiB exponent costs an honest verifier ~25 s here; to be robustly beyond the 20 s watchdog on
						// any machine the probe uses 4 MiB, and (being that expensive) only in the thorough tier / the dedicated probe job
						if !pr.BigAll {
							continue
						}
						major := node.Major
						mm = c05CMalformation{Name: "long-4M", Gen: func() *c05Cnode { return &c05Cnode{Major: major, Bytes: c05Rep(0x01, 4<<20)} }}
					}
					label := p.Label
					if label == "" {
						label = "/"
					}
					cat = append(cat, item{"content", label, mm.Name, func() *protocol.Message {
						data, ok := c05CReplace(tree, pp, mm.repl())
						if !ok {
							return c05CloneMsg(genuine)
						}
						c := c05CloneMsg(genuine)
						c.Data = data
						return c
					}, (pr.Heavy && c05CCoreHeavy(mm.Name)) || (!pr.Heavy && c05CCore(mm.Name))})
				}
			}
		}
		for _, h := range c05HeaderMalformations(genuine, pr.Victim, spec.IDs, ref.Shape.finalOr(spec)) {
			hh := h
			cat = append(cat, item{"header", "header." + strings.SplitN(h.name, "/", 2)[0], strings.SplitN(h.name, "/", 2)[1], func() *protocol.Message { return hh.f(genuine) }, true})
		}
		rrng := rand.New(rand.NewSource(int64(len(key))*7919 + int64(r)))
		for _, rm := range c05RawMalformations(genuine.Data, rrng) {
			rr := rm
			cat = append(cat, item{"raw", "Data", rm.name, func() *protocol.Message { c := c05CloneMsg(genuine); c.Data = rr.data; return c }, !strings.HasPrefix(rr.name, "bitflip") && !strings.HasPrefix(rr.name, "random")})
		}
		for _, s := range states {
			sel := make([]int, len(cat))
			for i := range sel {
				sel[i] = i
			}
			limit := pr.PerTargetInorder
			if s.name != "inorder" {
				limit = pr.PerTargetOther
				if limit < 0 {
					continue // in-order state only
				}
			}
			if limit > 0 && limit < len(sel) {
				// sampled: the seed-independent core (in-order state only) plus `limit` seeded others
				var core, rest []int
				for _, i := range sel {
					if cat[i].core && s.name == "inorder" && pr.CoreAlways {
						core = append(core, i)
					} else {
						rest = append(rest, i)
					}
				}
				// accepted-value mutations whose effect shows rounds later (protocol-level abort paths): always in the sample
				for _, i := range append([]int{}, rest...) {
					if s.name == "inorder" && c05Pick(spec.Name, r, genuine.Broadcast, cat[i].path, cat[i].malf) {
						core = append(core, i)
					}
				}
				pr.Rng.Shuffle(len(rest), func(i, j int) { rest[i], rest[j] = rest[j], rest[i] })
				if limit < len(rest) {
					rest = rest[:limit]
				}
				sel = append(core, rest...)
				sort.Ints(sel)
				uniq := sel[:0]
				for k, v := range sel {
					if k == 0 || v != sel[k-1] {
						uniq = append(uniq, v)
					}
				}
				sel = uniq
			}
			for _, i := range sel {
				it := cat[i]
				if pr.OnlyMalf != "" && it.malf != pr.OnlyMalf &&
					!(strings.HasSuffix(pr.OnlyMalf, "*") && strings.HasPrefix(it.malf, strings.TrimSuffix(pr.OnlyMalf, "*"))) {
					continue
				}
				k := fmt.Sprintf("C05/%s/round%d/%s%s/%s", spec.Name, r, ctype, c05PathJoin(it.path), it.malf)
				if s.name != "inorder" {
					k += "@" + s.name
				}
				fam := it.malf
				if it.family == "content" {
					fam = c05MalfFamily(it.malf)
				} else if it.family == "raw" {
					fam = "raw-" + strings.SplitN(it.malf, "-", 2)[0]
				} else {
					fam = it.path
				}
				out = append(out, &c05Cand{Key: k, Bucket: fmt.Sprintf("%s/round%d/%s/%s", spec.Name, r, s.name, fam), Target: key, State: s.name, Hold: s.hold,
					Family: it.family, Round: r, CType: ctype, Path: it.path, Malf: it.malf, make: it.mk, Core: it.core,
					RunToEnd: c05Pick(spec.Name, r, genuine.Broadcast, it.path, it.malf)})
			}
		}
	}
	out = append(out, c05Crafted(spec, ref, pr)...)
	return out, notes
}

// c05Pick: cases that are always part of a sampled run of a CMP session (they drive the victim into the identifiable-abort rounds)
func c05Pick(spec string, round int, bc bool, path, malf string) bool {
	if !strings.HasPrefix(spec, "cmp-") {
		return false
	}
	switch {
	case bc && (path == "/DeltaShare" || path == "/SigmaShare") && malf == "flip-last":
		return true // accepted wrong value: drives the victim into the identifiable-abort rounds
	case !bc && path == "header.To" && malf == "empty":
		return true // p2p content addressed to "everyone"
	case bc && path == "header.Broadcast" && malf == "flipped":
		return true // broadcast content re-flagged as p2p, followed by the genuine broadcast
	}
	return false
}

func (sh c05Shape) finalOr(spec *c05Spec) int {
	if sh.Final > 0 {
		return sh.Final
	}
	return 8
}

func c05PathJoin(p string) string {
	if p == "/" || p == "" {
		return "/."
	}
	if strings.HasPrefix(p, "/") {
		return p
	}
	return "/" + p
}

func c05MalfFamily(m string) string {
	switch {
	case strings.HasPrefix(m, "type-"):
		return "wrong-type"
	case strings.HasPrefix(m, "huge-") || strings.HasPrefix(m, "indefinite-"):
		return "huge-length"
	case strings.HasPrefix(m, "int-"):
		return "number"
	case m == "absent" || m == "null" || m == "empty":
		return m
	case strings.HasPrefix(m, "dup-key"):
		return "dup-key"
	}
	switch m {
	case "short-1", "len1", "len3", "half", "len4-zero", "len4-ffffffff", "len5-ffffffff80", "one-byte-0", "one-byte-1", "inner-truncated":
		return "too-short"
	case "long-1", "long-4k", "long-1M", "long-4M", "double":
		return "too-long"
	case "zero", "ones", "flip-first", "flip-last", "flip-prefix-bit", "prefix-ffffffff", "prefix-10000000", "prefix-00000000", "inner-garbage", "bool-flip":
		return "value"
	case "drop-last", "only-first":
		return "undersized"
	case "dup-last", "plus-many", "extra-key", "count-plus1":
		return "oversized"
	case "all-null":
		return "nil-entries"
	}
	return "other"
}

// ---------------------------------------------------------------------------------------------

type c05Outcome struct {
	I         int               `json:"i"`
	Key       string            `json:"key"`
	Bucket    string            `json:"bucket"`
	Class     string            `json:"class"` // ignored | continued | clean-abort | PANIC | HANG | OOM | CRASH | DIRTY-ABORT | unreached
	Later     string            `json:"later,omitempty"`
	CanAccept bool              `json:"can_accept"`
	Err       string            `json:"err,omitempty"`
	Bad       *c05Bad           `json:"bad,omitempty"`
	MsgHex    string            `json:"msg_hex,omitempty"`
	MsgNil    bool              `json:"msg_nil,omitempty"`
	MsgLen    int               `json:"msg_len,omitempty"`
	FP        string            `json:"fp"`
	Nontriv   bool              `json:"nontrivial"`
	Corr      int               `json:"corr"` // 0 not compared, 1 equal, 2 different, 3 model error
	CorrAt    int               `json:"corr_at,omitempty"`
	CorrModel string            `json:"corr_model,omitempty"`
	CorrReal  string            `json:"corr_real,omitempty"`
	ModelArg  string            `json:"model_arg,omitempty"`
	Target    string            `json:"target,omitempty"`
	State     string            `json:"state,omitempty"`
	Mode      string            `json:"mode,omitempty"`
	Spec      string            `json:"spec,omitempty"`
	Victim    string            `json:"victim,omitempty"`
	Note      string            `json:"note,omitempty"`
	Core      bool              `json:"core,omitempty"`
	Hold      []string          `json:"hold,omitempty"`
	Extra     map[string]string `json:"extra,omitempty"`
}

func c05MsgHex(m *protocol.Message) (string, bool, int) {
	if m == nil {
		return "", true, 0
	}
	b, err := m.MarshalBinary()
	if err != nil {
		return "", false, 0
	}
	return hex.EncodeToString(b), false, len(b)
}

// msgFP: fingerprint of a whole message (header and payload)
func c05MsgFP(m *protocol.Message) string {
	if m == nil {
		return "nil"
	}
	h := fnv.New64a()
	for _, b := range [][]byte{m.SSID, []byte(m.From), []byte(m.To), []byte(m.Protocol), {byte(m.RoundNumber >> 8), byte(m.RoundNumber)}, m.Data, {byte(c05B2i(m.Broadcast))}, m.BroadcastVerification} {
		h.Write([]byte{byte(len(b)), byte(len(b) >> 8), byte(len(b) >> 16)})
		h.Write(b)
	}
	if m.Data == nil {
		h.Write([]byte("nil-data"))
	}
	return fmt.Sprintf("%016x", h.Sum64())
}

func c05SameGroup(a, b *c05Envl) bool {
	return a.From == b.From && a.Msg.RoundNumber == b.Msg.RoundNumber && a.Msg.Broadcast == b.Msg.Broadcast && a.Msg.Broadcast
}

// runCandidate re-creates the state and delivers the mutated message.  live = every party (cheap sessions: a mutated
// broadcast reaches every recipient, late effects on any honest party are seen) or only the victim (heavy sessions:
// the other parties' messages are taken from the reference run).
func (c *ctx) c05RunCandidate(env *c05Env, spec *c05Spec, ref *c05Ref, victim party.ID, cand *c05Cand, mut *protocol.Message, runOn bool) c05Outcome {
	oc := c05Outcome{Key: cand.Key, Bucket: cand.Bucket, Target: cand.Target, State: cand.State, Spec: spec.Name, Victim: string(victim), Mode: "full", Core: cand.Core}
	live := spec.IDs
	var recorded map[string]*c05Envl
	if spec.Heavy {
		live = []party.ID{victim}
		recorded = ref.Envs
	}
	e, err := newC05Engine(env, spec, live, recorded, false, false)
	if err != nil {
		oc.Class, oc.Err = "unreached", err.Error()
		return oc
	}
	v := e.live[victim]
	tgt := ref.Envs[cand.Target]
	primaryDone := false
	var held []string
	var primaryEvent = -1
	var before, after c05Obs
	stop := false
	deliver := func(x *c05Envl) {
		p := e.live[x.To]
		if p == nil || e.partyDead(p) {
			return
		}
		if x.Key == cand.Target {
			before = e.observe(v, nil, "", 0, false)
			if before.Class != 0 {
				oc.Class, oc.Err = "unreached", "victim had already ended before the target message: "+before.ErrText
				primaryDone, stop = true, true
				return
			}
			can, _ := e.canAccept(v, mut, x.Key)
			oc.CanAccept = can
			if e.bad != nil {
				oc.Class = e.bad.Kind
				primaryDone, stop = true, true
				return
			}
			primaryEvent = len(v.events)
			after = e.accept(v, mut, true, x.Key)
			primaryDone = true
			switch {
			case e.bad != nil && e.bad.Party == string(victim):
				oc.Class = e.bad.Kind
				stop = true
			case after.Class == 2 && !after.Closed:
				oc.Class, oc.Err = "DIRTY-ABORT", after.ErrText
			case after.Class == 2:
				oc.Class, oc.Err = "clean-abort", after.ErrText
			case after.Class == 1:
				oc.Class = "continued"
			case v.MH != nil && after.Round == before.Round && after.QB == before.QB && after.QP == before.QP:
				oc.Class = "ignored"
			case v.TH != nil && !can:
				oc.Class = "ignored"
			default:
				oc.Class = "continued"
			}
			return
		}
		// a sender that lies in a broadcast keeps lying consistently: its later messages carry the broadcast digest the
		// recipient itself computed (taken from the recipient's own outgoing messages of that round)
		fixBV := func(m *protocol.Message) *protocol.Message {
			if !primaryDone || tgt == nil || m == nil || x.From != tgt.From || !tgt.Msg.Broadcast {
				return m
			}
			for i := len(p.Out) - 1; i >= 0; i-- {
				if o := p.Out[i]; o != nil && o.RoundNumber == m.RoundNumber && o.RoundNumber > 0 {
					c := c05CloneMsg(m)
					c.BroadcastVerification = o.BroadcastVerification
					return c
				}
			}
			return m
		}
		if mm, ok := cand.Extra[x.Key]; ok {
			e.accept(p, fixBV(mm), true, x.Key)
			return
		}
		if !spec.Heavy && tgt != nil && x.Key != cand.Target && c05SameGroup(x, tgt) && mut != nil && cand.Family != "header" {
			// the mutated broadcast reaches every recipient
			m2 := c05CloneMsg(mut)
			e.accept(p, m2, true, x.Key)
			return
		}
		e.accept(p, fixBV(x.Msg), true, x.Key)
	}
	for _, key := range ref.Order {
		if stop {
			break
		}
		if e.live[c05KeyTo(key)] == nil {
			continue
		}
		if !primaryDone && cand.Hold[key] {
			held = append(held, key)
			continue
		}
		x := e.take(key)
		if x == nil {
			continue
		}
		deliver(x)
		if key == cand.Target {
			for _, hk := range held {
				if hx := e.take(hk); hx != nil && !stop {
					deliver(hx)
				}
			}
			held = nil
			if !stop && v.lastO.Class == 0 {
				// the genuine message follows (an attacker can send both; if the malformed one was ignored or took another
				// slot the session must go on, if it took the same slot the genuine one is a duplicate)
				if gx := ref.Envs[cand.Target]; gx != nil {
					e.accept(v, gx.Msg, true, cand.Target+"(genuine)")
				}
			}
			if !runOn {
				stop = true
			}
		}
		if primaryDone && spec.Heavy && !stop {
			o := v.lastO
			if o.Class != 0 || (env.tier != "thorough" && !cand.RunToEnd && o.Round >= cand.Round+3) {
				stop = true
			}
		}
		if e.bad != nil && e.bad.Party == string(victim) {
			stop = true
		}
	}
	if !primaryDone {
		oc.Class, oc.Err = "unreached", "the target envelope never became available"
		return oc
	}
	if !spec.Heavy && runOn && !(e.bad != nil && e.bad.Party == string(victim)) {
		for k := 0; k < 300 && len(e.pool) > 0; k++ {
			x := e.pool[0]
			e.pool = e.pool[1:]
			p := e.live[x.To]
			if p == nil || e.partyDead(p) {
				continue
			}
			e.accept(p, x.Msg, true, x.Key)
		}
	}
	// later effects
	if e.bad != nil {
		oc.Bad = e.bad
		if oc.Class != "PANIC" && oc.Class != "HANG" {
			oc.Later = "LATE-" + e.bad.Kind
		}
	} else if oc.Class != "unreached" {
		o := e.observe(v, nil, "", 0, false)
		switch {
		case o.Class == 1:
			oc.Later = "completed"
		case o.Class == 2 && !o.Closed:
			oc.Later = "DIRTY-ABORT"
			oc.Err = o.ErrText
		case o.Class == 2:
			oc.Later = "aborted"
			if oc.Err == "" {
				oc.Err = o.ErrText
			}
		default:
			oc.Later = fmt.Sprintf("waiting-in-round-%d", o.Round)
		}
	}
	if len(oc.Err) > 300 {
		oc.Err = oc.Err[:300] + "…"
	}
	// fingerprint / non-triviality: a message different from the genuine one was delivered to a running victim
	oc.MsgNil = mut == nil
	if mut != nil {
		oc.MsgLen = len(mut.Data)
	}
	oc.Nontriv = oc.Class != "unreached" && (mut == nil || c05MsgFP(mut) != c05MsgFP(tgt.Msg))
	oc.FP = fmt.Sprintf("%s|%s|%s|%s", spec.Name, cand.Target, cand.State, c05MsgFP(mut))
	if oc.Bad != nil || oc.Class == "DIRTY-ABORT" || oc.Later == "DIRTY-ABORT" {
		// the exact bytes for the replay (very large messages are regenerated by the parent instead: the child's memory is capped)
		if mut == nil || len(mut.Data) <= 256<<10 {
			oc.MsgHex, _, _ = c05MsgHex(mut)
		} else {
			oc.Note = "process-death"
		}
		oc.Hold, oc.Extra = c05HoldList(cand.Hold), c05ExtraHex(cand.Extra)
	}
	// model correspondence (MultiHandler only): history up to and including the mutated message
	if v.MH != nil && mut != nil && primaryEvent >= 0 && oc.Class != "PANIC" && oc.Class != "HANG" && oc.Class != "unreached" {
		c.c05Correspond(e, v, ref, mut, primaryEvent, before, after, &oc)
	}
	return oc
}

func c05ShortHash(s string) []byte {
	h := uint64(1469598103934665603)
	for i := 0; i < len(s); i++ {
		h ^= uint64(s[i])
		h *= 1099511628211
	}
	return []byte{byte(h >> 56), byte(h >> 48), byte(h >> 40), byte(h >> 32), byte(h >> 24), byte(h >> 16), byte(h >> 8), byte(h)}
}

// c05Correspond replays the victim's history (… , CanAccept(m'), Accept(m')) in the Coq handler model.
// The validity oracle of m' is taken from what the round code said (verification error blaming the sender);
// if the Accept ended through a path the model does not describe (Finalize error / protocol-level abort round),
// only the history up to the CanAccept is compared.
func (c *ctx) c05Correspond(e *c05Engine, v *c05Party, ref *c05Ref, mut *protocol.Message, ev int, before, after c05Obs, oc *c05Outcome) {
	valid := true
	cmpN := ev + 2 // obs[0] is the initial observation, obs[i+1] follows events[i]
	if after.Class == 2 && before.Class == 0 {
		t := after.ErrText
		verify := len(after.CulIDs) == 1 && after.CulIDs[0] == string(mut.From) &&
			(strings.HasPrefix(t, "round ") || strings.HasPrefix(t, "failed to unmarshal") || strings.HasPrefix(t, "got broadcast message"))
		switch {
		case verify:
			valid = false
		case after.ErrKind == 1 || after.ErrKind == 3:
		default:
			cmpN = ev + 1
		}
	}
	evs := append([]sx.V{}, v.events[:ev+1]...)
	evs[ev] = sx.List(sx.Int(0), e.msgSx(mut, valid))
	saved := v.events
	v.events = evs
	arg, ok := e.modelArg(v, ref.Shape)
	v.events = saved
	if !ok {
		return
	}
	c05Rep, err := c.m.Call("hnd.run", arg)
	if err != nil {
		oc.Corr, oc.CorrModel = 3, err.Error()
		return
	}
	if len(c05Rep.L) < cmpN || len(v.obs) < cmpN {
		oc.Corr, oc.CorrModel, oc.CorrReal = 2, fmt.Sprintf("%d observations", len(c05Rep.L)), fmt.Sprintf("%d observations", len(v.obs))
		return
	}
	oc.Corr = 1
	for i := 0; i < cmpN; i++ {
		a, b := c05NormObs(c05Rep.L[i]), c05NormObs(v.obs[i])
		if a != b {
			oc.Corr, oc.CorrAt, oc.CorrModel, oc.CorrReal = 2, i, a, b
			break
		}
	}
	if s := arg.String(); len(s) < 2600 {
		oc.ModelArg = s
	}
}
