package main

// C01 -- every signature a session returns is valid under an independent verifier; all completers return the same
// signature; an all-honest session with more than t signers always completes.
// Real signing sessions (FROST, FROST-Taproot, Doerner, CMP sign, CMP presign + online) for every signer subset S with |S|>t
// (non-prefix subsets included), message digests of many lengths, several schedules; judged by the extracted Coq reference.

import (
	"bytes"
	"fmt"
	"math/rand"
	"strings"

	"github.com/taurusgroup/multi-party-sig/pkg/ecdsa"
	"github.com/taurusgroup/multi-party-sig/pkg/math/curve"
	"github.com/taurusgroup/multi-party-sig/pkg/party"
	"github.com/taurusgroup/multi-party-sig/pkg/taproot"
	"github.com/taurusgroup/multi-party-sig/protocols/cmp"
	"github.com/taurusgroup/multi-party-sig/protocols/doerner"
	"github.com/taurusgroup/multi-party-sig/protocols/frost"
)

func init() { props["C01"] = runC01 }

type signReplay struct {
	Spec     string   `json:"spec"`
	Signers  []string `json:"signers"`
	Msg      string   `json:"message_hex"`
	Seed     int64    `json:"seed"`
	Policy   string   `json:"policy"`
	Material string   `json:"key_material"`
	Problems []string `json:"problems"`
}

// checkSignSession: oracle for one finished signing sim.
func (c *ctx) checkSignSession(prop string, sp SessionSpec, s *Sim, pub interface{}, msg []byte, seed int64, pol, material string) {
	var probs []string
	var first string
	for _, id := range s.IDs {
		n := s.Nodes[id]
		for _, o := range n.Obs {
			if o.Panic != "" {
				probs = append(probs, fmt.Sprintf("party %s panicked: %s", id, o.Panic))
			}
			if o.Hung {
				probs = append(probs, fmt.Sprintf("party %s: Accept did not return", id))
			}
		}
		r, e := resultOf(n)
		if r == nil {
			probs = append(probs, fmt.Sprintf("all-honest session did not complete at %s: %s", id, e))
			continue
		}
		ok, why := c.verifyAnySignature(pub, r, msg)
		c.res.Corr(ok)
		if !ok {
			probs = append(probs, fmt.Sprintf("signature returned to %s is invalid under the reference verifier %s", id, why))
		}
		fp := resultFP(r)
		if first == "" {
			first = fp
		} else if fp != first {
			probs = append(probs, fmt.Sprintf("party %s returned a different signature", id))
		}
	}
	var signers []string
	for _, id := range sp.IDs {
		signers = append(signers, string(id))
	}
	c.res.Case(fmt.Sprintf("%s/%s/msglen=%d", sp.Name, material, len(msg)), fmt.Sprintf("%s/%v/%x/%d/%s/%s", sp.Name, signers, msg, seed, pol, material), true)
	c.res.Sample(3, map[string]interface{}{"spec": sp.Name, "signers": signers, "msglen": len(msg), "policy": pol, "material": material})
	if len(probs) > 0 {
		c.res.Violate("property", prop+"/"+sp.Name+"/"+material+"/"+probs[0][:min(36, len(probs[0]))], strings.Join(probs, "; "),
			signReplay{Spec: sp.Name, Signers: signers, Msg: fmt.Sprintf("%x", msg), Seed: seed, Policy: pol, Material: material, Problems: probs})
	}
}

func frostConfigs(s *Sim) (map[party.ID]*frost.Config, map[party.ID]*frost.TaprootConfig) {
	a, b := map[party.ID]*frost.Config{}, map[party.ID]*frost.TaprootConfig{}
	for id, n := range s.Nodes {
		r, _ := resultOf(n)
		switch cf := r.(type) {
		case *frost.Config:
			a[id] = cf
		case *frost.TaprootConfig:
			b[id] = cf
		}
	}
	return a, b
}

func allSubsetsLargerThan(ids []party.ID, t int) [][]party.ID {
	var out [][]party.ID
	for k := t + 1; k <= len(ids); k++ {
		out = append(out, subsetsOfSize(ids, k)...)
	}
	return out
}

func msgOfLen(r *rand.Rand, n int) []byte {
	b := make([]byte, n)
	r.Read(b)
	return b
}

func runC01(c *ctx) {
	r := c.res.Rng
	c.res.Rule = "FROST / FROST-Taproot: every signer subset |S|>t for n<=4 (sampled for n=5); Doerner; CMP sign and presign+online for n=3 non-prefix subsets; " +
		"digest lengths 1..80; schedules fifo/lifo/latest-first/random; FROST and Doerner signing sessions running concurrently in one process (private key-material objects per goroutine); each signature judged by the Coq reference verifier; non-trivial = all; distinct by (protocol, signers, message, seed, policy)"
	c.res.Rule += "; key material chains keygen -> (refresh | restore)* with a signing session after every step (FROST and FROST-Taproot n=2..4, Doerner two refreshes, " +
		"CMP one refresh then sign and presign+online; thorough: more shapes, CMP refresh twice + restore): every all-honest session completes and every signature is valid " +
		"under the group key recorded when key generation ended"
	c.res.Rule += "; application-like use (retained.go): ONE in-memory object per party reused for derive x2, sign with parent / children / parent again, refresh, derive again, sign -- " +
		"signatures judged under the independently computed BIP-32 key, input objects compared with their serialisation after every API call"
	if c.replay != "" && (c.retReplayRun("C01") || c.c01Replay()) {
		return
	}
	pols := []string{"fifo", "lifo", "latest-first", "random"}
	k := 0
	maxN := 4
	if c.thorough() {
		maxN = 5
	}
	lens := []int{32, 1, 20, 31, 33, 64, 80, 48}
	// ---- FROST and FROST-Taproot ----
	for n := 2; n <= maxN; n++ {
		for t := 0; t < n; t++ {
			if !c.thorough() && n == 4 && t == 0 {
				continue
			}
			for _, tap := range []bool{false, true} {
				names := idSets[[]string{"names", "short", "long40", "nonascii"}[(n+t)%4]][:n]
				ids := idsOf(names...)
				kg := runToEnd(specFrostKeygen(ids, t, tap, []byte("c01kg")), c.res.Seed+int64(n*10+t), "fifo")
				cfgs, tcfgs := frostConfigs(kg)
				if len(cfgs)+len(tcfgs) != n {
					c.res.Violate("property", "C01/frost-keygen-incomplete", "keygen for signing material did not complete", nil)
					continue
				}
				subs := allSubsetsLargerThan(party.NewIDSlice(ids), t)
				if n >= 5 && len(subs) > 8 {
					r.Shuffle(len(subs), func(i, j int) { subs[i], subs[j] = subs[j], subs[i] })
					subs = subs[:8]
				}
				if !c.thorough() && len(subs) > 5 {
					r.Shuffle(len(subs), func(i, j int) { subs[i], subs[j] = subs[j], subs[i] })
					subs = subs[:5]
				}
				for _, S := range subs {
					k++
					msg := msgOfLen(r, lens[k%len(lens)])
					pol := pols[k%len(pols)]
					seed := c.res.Seed*104729 + int64(k)
					if tap {
						sp := specFrostSignTaproot(tcfgs, S, msg, []byte{byte(k)})
						s := runToEnd(sp, seed, pol)
						c.checkSignSession("C01", sp, s, taproot.PublicKey(tcfgs[S[0]].PublicKey), msg, seed, pol, fmt.Sprintf("fresh/n=%d/t=%d", n, t))
					} else {
						sp := specFrostSign(cfgs, S, msg, []byte{byte(k)})
						s := runToEnd(sp, seed, pol)
						c.checkSignSession("C01", sp, s, cfgs[S[0]].PublicKey, msg, seed, pol, fmt.Sprintf("fresh/n=%d/t=%d", n, t))
					}
				}
			}
		}
	}
	// ---- Doerner ----
	nd := 2
	if c.thorough() {
		nd = 20
	}
	for i := 0; i < nd; i++ {
		ids := idsOf("recv", "send")
		g := curve.Secp256k1{}
		kg := twoPartySim(ids, nil, doerner.Keygen(g, true, ids[0], ids[1], nil), doerner.Keygen(g, false, ids[1], ids[0], nil), []byte{byte(i)}, true, false)
		kg.RunFIFO(10000)
		rr, _ := resultOf(kg.Nodes[ids[0]])
		rs, _ := resultOf(kg.Nodes[ids[1]])
		cr, ok1 := rr.(*doerner.ConfigReceiver)
		cs, ok2 := rs.(*doerner.ConfigSender)
		if !ok1 || !ok2 {
			c.res.Violate("property", "C01/doerner-keygen-incomplete", "doerner keygen did not complete", nil)
			continue
		}
		msg := msgOfLen(r, lens[i%len(lens)])
		sg := twoPartySim(ids, nil, doerner.SignReceiver(cr, ids[0], ids[1], msg, nil), doerner.SignSender(cs, ids[1], ids[0], msg, nil), []byte{byte(i), 1}, true, true)
		sg.RunFIFO(10000)
		// only the receiver obtains the signature in this protocol; check whoever returned one
		sp := SessionSpec{Name: "doerner-sign", IDs: ids}
		c.checkDoernerSign(sp, sg, cr.Public, msg, int64(i))
	}
	// ---- concurrent sessions in one process ----
	c.c01Concurrent()
	// ---- refreshed / restored key material (FROST, FROST-Taproot, Doerner; CMP below) ----
	c.c01ChainsLight()
	// ---- one in-memory object per party, reused across derive / sign / refresh (FROST, FROST-Taproot, Doerner; CMP below) ----
	c.c01RetainedAll("C01", nil, nil)
	// ---- CMP ----
	usePrimeCache()
	ids := idsOf("alice", "bob", "carl")
	kg := runToEnd(specCMPKeygen(ids, 1, []byte("c01cmp")), c.res.Seed, "fifo")
	cfgs, err := cmpConfigsOf(kg)
	if err != nil {
		c.res.Violate("property", "C01/cmp-keygen-incomplete", "CMP keygen did not complete: "+err.Error(), nil)
		return
	}
	pub := cfgs[ids[0]].PublicPoint()
	subsets := [][]party.ID{{ids[0], ids[2]}, {ids[1], ids[2]}}
	if c.thorough() {
		subsets = append(subsets, []party.ID{ids[0], ids[1]}, ids)
	}
	for i, S := range subsets {
		msg := msgOfLen(r, []int{32, 20, 64, 1}[i%4])
		pol := pols[(i+1)%len(pols)]
		sp := specCMPSign(cfgs, S, msg, []byte{byte(i)})
		s := runToEnd(sp, c.res.Seed+int64(i), pol)
		c.checkSignSession("C01", sp, s, pub, msg, c.res.Seed+int64(i), pol, "fresh/n=3/t=1")
	}
	// presign (offline) + online, non-prefix subset
	{
		S := []party.ID{ids[0], ids[2]}
		ps := runToEnd(specCMPPresign(cfgs, S, []byte("ps")), c.res.Seed, "fifo")
		pres := map[party.ID]*ecdsa.PreSignature{}
		for _, id := range S {
			rr, e := resultOf(ps.Nodes[id])
			p, ok := rr.(*ecdsa.PreSignature)
			if !ok {
				c.res.Violate("property", "C01/cmp-presign-incomplete", "all-honest presign did not complete at "+string(id)+": "+e, signReplay{Spec: "cmp-presign", Signers: []string{string(S[0]), string(S[1])}})
				return
			}
			pres[id] = p
		}
		msg := msgOfLen(r, 32)
		sp := specCMPPresignOnline(cfgs, pres, S, msg, []byte("on"))
		s := runToEnd(sp, c.res.Seed, "lifo")
		c.checkSignSession("C01", sp, s, pub, msg, c.res.Seed, "lifo", "presignature/n=3/t=1")
	}
	// ---- refreshed / restored key material ----
	{
		var mat []interface{}
		for _, id := range ids {
			mat = append(mat, cfgs[id])
		}
		c.c01ChainCMP(mat, ids)
		c.c01Retained(retReplay{Scenario: "derive-sign-refresh", Prop: "C01", Proto: "cmp", N: 3, T: 1, IDs: []string{"alice", "bob", "carl"}, Seed: c.res.Seed*7919 + 111, Signs: true, Light: !c.thorough()}, mat)
	}
	_ = bytes.Equal
	_ = cmp.Keygen
}

func (c *ctx) checkDoernerSign(sp SessionSpec, s *Sim, pub curve.Point, msg []byte, seed int64) {
	var probs []string
	got := 0
	for _, id := range s.IDs {
		n := s.Nodes[id]
		if n.H == nil {
			probs = append(probs, fmt.Sprintf("party %s could not start: %v", id, n.StartErr))
			continue
		}
		for _, o := range n.Obs {
			if o.Panic != "" {
				probs = append(probs, fmt.Sprintf("party %s panicked: %s", id, o.Panic))
			}
		}
		r, e := resultOf(n)
		if r == nil {
			probs = append(probs, fmt.Sprintf("all-honest session did not complete at %s: %s", id, e))
			continue
		}
		if sig, ok := r.(*ecdsa.Signature); ok {
			got++
			v, why := c.verifyAnySignature(pub, sig, msg)
			c.res.Corr(v)
			if !v {
				probs = append(probs, fmt.Sprintf("signature returned to %s is invalid under the reference verifier %s", id, why))
			}
		}
	}
	if got == 0 && len(probs) == 0 {
		probs = append(probs, "no party returned a signature")
	}
	c.res.Case(fmt.Sprintf("doerner-sign/msglen=%d", len(msg)), fmt.Sprintf("doerner/%x/%d", msg, seed), true)
	if len(probs) > 0 {
		c.res.Violate("property", "C01/doerner-sign/"+probs[0][:min(36, len(probs[0]))], strings.Join(probs, "; "),
			signReplay{Spec: "doerner-sign", Msg: fmt.Sprintf("%x", msg), Seed: seed, Problems: probs})
	}
}
