package main

// C16 -- the stand-alone signature primitives conform to their standards.
//
// The "model" of this property is not a model of the Go code but the independent reference written from the standards
// (coq/Model/RefSig.v, Secp256k1.v, Sha.v; ops ref.* of coq/Model/DispatchRef.v).  Every case is ONE concrete input to ONE
// primitive; the library and the reference are evaluated on it and must give the same accept/reject verdict and the same
// values.  Because the property itself is "agrees with the reference on all inputs", a disagreement is reported as a
// PROPERTY violation (judged by the reference, never by the library), with the stable key C16/<primitive>/<perturbation>.
// Kind "correspondence" is used only for model errors, for the curve-arithmetic differential (which ties the reference
// curve to decred/secp256k1) and for a reference that fails a published known answer.
//
// Primitives:  fromhash, scalar-decode, point-decode, curve-mul, ecdsa-verify (decode + Verify), eth-export (SigEthereum +
// reference recovery + the mutated object), bip340-pubkey, bip340-genkey, bip340-sign, bip340-verify.
//
// Allowed difference (evaluated, noted, not a violation): ecdsa.Signature.Verify with the identity as PUBLIC KEY accepts
// (R, s) with R = (m/s).G -- the property text ("accepts exactly when the standard equation holds for the transmitted nonce
// point and rejects zero r or s") is satisfied, the reference additionally validates the public key.  Such cases are judged by
// the equation itself (reference arithmetic), see c16EcdsaExpect.

import (
	"bytes"
	"crypto/sha256"
	"encoding/hex"
	"encoding/json"
	"fmt"
	"io"
	"math/big"
	"math/rand"
	"os"
	"regexp"
	"strings"

	"github.com/cronokirby/saferith"
	"github.com/fxamacker/cbor/v2"

	"github.com/taurusgroup/multi-party-sig/pkg/ecdsa"
	"github.com/taurusgroup/multi-party-sig/pkg/math/curve"
	"github.com/taurusgroup/multi-party-sig/pkg/taproot"

	"verifharness/sx"
)

func init() { props["C16"] = runC16 }

var c16N, _ = new(big.Int).SetString("fffffffffffffffffffffffffffffffebaaedce6af48a03bbfd25e8cd0364141", 16)
var c16P, _ = new(big.Int).SetString("fffffffffffffffffffffffffffffffffffffffffffffffffffffffefffffc2f", 16)
var c16Max = new(big.Int).Sub(new(big.Int).Lsh(big.NewInt(1), 256), big.NewInt(1))

// ---------------------------------------------------------------------------------------------------------------------
// case description (also the replay format)

type c16Case struct {
	Prim string `json:"prim"`
	Pert string `json:"pert"`
	// encoded inputs, hex; points may be "inf" (the identity object / the reference's point at infinity)
	X    string `json:"x,omitempty"`
	R    string `json:"r,omitempty"`
	S    string `json:"s,omitempty"`
	Hash string `json:"hash,omitempty"`
	SK   string `json:"sk,omitempty"`
	PK   string `json:"pk,omitempty"`
	Msg  string `json:"msg,omitempty"`
	Sig  string `json:"sig,omitempty"`
	Rand string `json:"rand,omitempty"` // content of the io.Reader handed to Sign / GenKey
	// flags
	NilRand bool   `json:"nil_rand,omitempty"`
	ViaCBOR bool   `json:"via_cbor,omitempty"`
	K       string `json:"k,omitempty"` // curve-mul: scalar (decimal)
	// known answers (published vectors): "" = none
	Expect string `json:"expect,omitempty"`
	// filled in by the evaluation
	Go  string `json:"go_outcome,omitempty"`
	Ref string `json:"ref_outcome,omitempty"`
}

func (cs c16Case) fp() string {
	cs.Go, cs.Ref = "", ""
	b, _ := json.Marshal(cs)
	return string(b)
}

var c16PrefixRe = regexp.MustCompile(`prefix-\d+(-(even|odd)Y)?`)
var c16ForgedLenRe = regexp.MustCompile(`^pk-forged-len-\d+$`)
var c16LenRe = regexp.MustCompile(`(^|-)len-\d+(-\w+)?$`)

// stable key of the failing class: specific prefix values / lengths of one perturbation family are folded together
func c16Key(cs c16Case) string {
	p := cs.Pert
	if i := strings.Index(p, "#"); i >= 0 { // "#..." = free-form suffix (vector numbers, message lengths)
		p = p[:i]
	}
	p = strings.TrimSuffix(p, "-via-cbor")
	p = c16PrefixRe.ReplaceAllString(p, "prefix-noncanonical")
	if c16ForgedLenRe.MatchString(p) {
		p = "pubkey-length"
	}
	p = c16LenRe.ReplaceAllString(p, "${1}length")
	return "C16/" + cs.Prim + "/" + p
}

// ---------------------------------------------------------------------------------------------------------------------
// small helpers

func c16Hex(b []byte) string { return hex.EncodeToString(b) }
func c16Un(s string) []byte {
	b, err := hex.DecodeString(s)
	if err != nil {
		return nil
	}
	if b == nil {
		b = []byte{}
	}
	return b
}
func c16B32(z *big.Int) []byte {
	b := make([]byte, 32)
	new(big.Int).And(z, c16Max).FillBytes(b)
	return b
}
func c16Z(b []byte) *big.Int { return new(big.Int).SetBytes(b) }
func c16Cat(bs ...[]byte) []byte {
	var o []byte
	for _, b := range bs {
		o = append(o, b...)
	}
	if o == nil {
		o = []byte{}
	}
	return o
}
func c16RandBytes(r *rand.Rand, n int) []byte {
	b := make([]byte, n)
	r.Read(b)
	return b
}
func c16RandScalar(r *rand.Rand) *big.Int {
	for {
		z := new(big.Int).Mod(c16Z(c16RandBytes(r, 40)), c16N)
		if z.Sign() != 0 {
			return z
		}
	}
}
func c16Tagged(tag string, parts ...[]byte) []byte {
	t := sha256.Sum256([]byte(tag))
	h := sha256.New()
	h.Write(t[:])
	h.Write(t[:])
	for _, p := range parts {
		h.Write(p)
	}
	return h.Sum(nil)
}
func c16Safe(f func()) (pan string) {
	defer func() {
		if r := recover(); r != nil {
			pan = fmt.Sprintf("panic: %v", r)
		}
	}()
	f()
	return ""
}
func c16Big(n int64) *big.Int             { return big.NewInt(n) }
func c16Add(a *big.Int, n int64) *big.Int { return new(big.Int).Add(a, big.NewInt(n)) }

// reference points on the Go side
type c16Pt struct {
	Inf  bool
	X, Y *big.Int
}

func (p c16Pt) sx() sx.V {
	if p.Inf {
		return sx.List()
	}
	return sx.List(sx.Big(p.X), sx.Big(p.Y))
}
func c16PtOf(v sx.V) c16Pt {
	if v.Kind != 2 || len(v.L) != 2 {
		return c16Pt{Inf: true}
	}
	return c16Pt{X: v.L[0].Z, Y: v.L[1].Z}
}
func (p c16Pt) eq(q c16Pt) bool {
	if p.Inf || q.Inf {
		return p.Inf == q.Inf
	}
	return p.X.Cmp(q.X) == 0 && p.Y.Cmp(q.Y) == 0
}
func (p c16Pt) neg() c16Pt {
	if p.Inf {
		return p
	}
	return c16Pt{X: p.X, Y: new(big.Int).Mod(new(big.Int).Sub(c16P, p.Y), c16P)}
}
func (p c16Pt) evenY() bool { return !p.Inf && p.Y.Bit(0) == 0 }

// SEC1 compressed encoding written here (independent of the library)
func (p c16Pt) enc() string {
	if p.Inf {
		return "inf"
	}
	pre := byte(2)
	if p.Y.Bit(0) == 1 {
		pre = 3
	}
	return c16Hex(append([]byte{pre}, c16B32(p.X)...))
}
func (p c16Pt) String() string {
	if p.Inf {
		return "inf"
	}
	return p.enc()
}

type c16ModelErr struct{ err error }

// call: a model error aborts the current case (recovered in c16Run)
func (c *ctx) c16Call(op string, arg sx.V) sx.V {
	v, err := c.m.Call(op, arg)
	if err != nil {
		panic(c16ModelErr{err})
	}
	return v
}
func (c *ctx) c16BaseMul(k *big.Int) c16Pt { return c16PtOf(c.c16Call("ref.base_mul", sx.Big(k))) }
func (c *ctx) c16Mul(k *big.Int, p c16Pt) c16Pt {
	return c16PtOf(c.c16Call("ref.pt_mul", sx.List(sx.Big(k), p.sx())))
}
func (c *ctx) c16PtAdd(p, q c16Pt) c16Pt {
	return c16PtOf(c.c16Call("ref.pt_add", sx.List(p.sx(), q.sx())))
}
func (c *ctx) c16LiftX(x *big.Int) (c16Pt, bool) {
	v := c.c16Call("ref.lift_x", sx.Big(x))
	if len(v.L) == 0 {
		return c16Pt{Inf: true}, false
	}
	return c16PtOf(v.L[0]), true
}
func (c *ctx) c16FromHash(h []byte) *big.Int { return c.c16Call("ref.from_hash", sx.Bytes(h)).Z }

// strict reference decoding of an encoded point ("inf" denotes the point at infinity given as an object, not as bytes)
func (c *ctx) c16RefPoint(enc string) (c16Pt, bool) {
	if enc == "inf" {
		return c16Pt{Inf: true}, true
	}
	v := c.c16Call("ref.decompress", sx.Bytes(c16Un(enc)))
	if len(v.L) == 0 {
		return c16Pt{Inf: true}, false
	}
	return c16PtOf(v.L[0]), true
}

// strict scalar decoding (plain math/big): exactly 32 bytes, value below the group order
func c16RefScalar(b []byte) (*big.Int, bool) {
	if len(b) != 32 {
		return nil, false
	}
	z := c16Z(b)
	if z.Cmp(c16N) >= 0 {
		return nil, false
	}
	return z, true
}

// public key that makes (R, s) a valid signature of m:  X = r^-1 (s R - m G)   (reference arithmetic)
func (c *ctx) c16RecoverKey(R c16Pt, s, m *big.Int) (c16Pt, bool) {
	r := new(big.Int).Mod(R.X, c16N)
	if r.Sign() == 0 {
		return c16Pt{Inf: true}, false
	}
	rinv := new(big.Int).ModInverse(r, c16N)
	t := c.c16PtAdd(c.c16Mul(new(big.Int).Mod(s, c16N), R), c.c16BaseMul(new(big.Int).Mod(m, c16N)).neg())
	X := c.c16Mul(rinv, t)
	return X, !X.Inf
}

// ---------------------------------------------------------------------------------------------------------------------
// library side

func c16GoPoint(enc string) (p curve.Point, ok bool) {
	p = curve.Secp256k1{}.NewPoint()
	if enc == "inf" {
		return p, true
	}
	return p, p.UnmarshalBinary(c16Un(enc)) == nil
}
func c16GoScalar(b []byte) (s curve.Scalar, ok bool) {
	s = curve.Secp256k1{}.NewScalar()
	return s, s.UnmarshalBinary(b) == nil
}
func c16GoPtString(p curve.Point) string {
	if p.IsIdentity() {
		return "inf"
	}
	b, err := p.MarshalBinary()
	if err != nil {
		return "marshal-error"
	}
	return c16Hex(b)
}
func c16GoScString(s curve.Scalar) string {
	b, _ := s.MarshalBinary()
	return c16Hex(b)
}

// decode the three encodings as the library does and build the signature object; via CBOR when asked
func c16GoSig(cs c16Case) (X curve.Point, sig ecdsa.Signature, ok bool) {
	X, okX := c16GoPoint(cs.X)
	if cs.ViaCBOR && cs.R != "inf" {
		type wire struct {
			R []byte
			S []byte
		}
		b, err := cbor.Marshal(wire{c16Un(cs.R), c16Un(cs.S)})
		if err != nil {
			return X, sig, false
		}
		sig = ecdsa.EmptySignature(curve.Secp256k1{})
		if err := cbor.Unmarshal(b, &sig); err != nil {
			return X, sig, false
		}
		return X, sig, okX
	}
	R, okR := c16GoPoint(cs.R)
	S, okS := c16GoScalar(c16Un(cs.S))
	return X, ecdsa.Signature{R: R, S: S}, okX && okR && okS
}

// ---------------------------------------------------------------------------------------------------------------------
// evaluation of one case: returns (library outcome, reference outcome); the two strings must be equal

func (c *ctx) c16Eval(cs *c16Case) (g, r string) {
	switch cs.Prim {
	case "fromhash":
		h := c16Un(cs.Hash)
		if p := c16Safe(func() { g = c16GoScString(curve.FromHash(curve.Secp256k1{}, h)) }); p != "" {
			g = p
		}
		r = c16Hex(c16B32(c.c16FromHash(h)))
	case "scalar-decode":
		b := c16Un(cs.S)
		if p := c16Safe(func() {
			if s, ok := c16GoScalar(b); ok {
				g = c16GoScString(s)
			} else {
				g = "error"
			}
		}); p != "" {
			g = p
		}
		if z, ok := c16RefScalar(b); ok {
			r = c16Hex(c16B32(z))
		} else {
			r = "error"
		}
	case "point-decode":
		if p := c16Safe(func() {
			if pt, ok := c16GoPoint(cs.R); ok {
				g = c16GoPtString(pt)
			} else {
				g = "error"
			}
		}); p != "" {
			g = p
		}
		if pt, ok := c.c16RefPoint(cs.R); ok {
			r = pt.enc()
		} else {
			r = "error"
		}
	case "curve-mul":
		// K.P for P = decode(R) (or the generator when R is empty)
		k, _ := new(big.Int).SetString(cs.K, 10)
		if p := c16Safe(func() {
			s := curve.Secp256k1{}.NewScalar().SetNat(new(saferith.Nat).SetBig(k, 256))
			if cs.R == "" {
				g = c16GoPtString(s.ActOnBase())
			} else {
				pt, _ := c16GoPoint(cs.R)
				g = c16GoPtString(s.Act(pt))
			}
		}); p != "" {
			g = p
		}
		if cs.R == "" {
			r = c.c16BaseMul(k).enc()
		} else {
			pt, _ := c.c16RefPoint(cs.R)
			r = c.c16Mul(k, pt).enc()
		}
	case "ecdsa-verify":
		if p := c16Safe(func() {
			X, sig, ok := c16GoSig(*cs)
			if ok && sig.Verify(X, c16Un(cs.Hash)) {
				g = "accept"
			} else {
				g = "reject"
			}
		}); p != "" {
			g = p
		}
		if c.c16EcdsaExpect(cs.X, cs.R, cs.S, c16Un(cs.Hash)) {
			r = "accept"
		} else {
			r = "reject"
		}
	case "eth-export":
		g, r = c.c16Eth(cs)
	case "bip340-pubkey":
		sk := c16Un(cs.SK)
		if p := c16Safe(func() {
			pk, err := taproot.SecretKey(sk).Public()
			if err != nil {
				g = "error"
			} else {
				g = c16Hex(pk)
			}
		}); p != "" {
			g = p
		}
		r = c.c16RefOptBytes("ref.bip340_pubkey", sx.Bytes(sk))
	case "bip340-genkey":
		rd := c16Un(cs.Rand)
		if p := c16Safe(func() {
			sk, pk, err := taproot.GenKey(bytes.NewReader(rd))
			if err != nil {
				g = "error"
			} else {
				g = c16Hex(sk) + "/" + c16Hex(pk)
			}
		}); p != "" {
			g = p
		}
		// BIP-340 key generation from a byte stream: the first 32-byte block that is a valid secret key
		r = "error"
		for o := 0; o+32 <= len(rd); o += 32 {
			if pk := c.c16RefOptBytes("ref.bip340_pubkey", sx.Bytes(rd[o:o+32])); pk != "error" {
				r = c16Hex(rd[o:o+32]) + "/" + pk
				break
			}
		}
	case "bip340-sign":
		sk, msg, rd := c16Un(cs.SK), c16Un(cs.Msg), c16Un(cs.Rand)
		if p := c16Safe(func() {
			var rdr io.Reader
			if !cs.NilRand {
				rdr = bytes.NewReader(rd)
			}
			sig, err := taproot.SecretKey(sk).Sign(rdr, msg)
			if err != nil {
				g = "error"
			} else {
				g = c16Hex(sig)
			}
		}); p != "" {
			g = p
		}
		if cs.NilRand {
			// no aux randomness to reproduce: the signature must be ACCEPTED BY THE REFERENCE under the reference public key
			pk := c.c16RefOptBytes("ref.bip340_pubkey", sx.Bytes(sk))
			if pk == "error" {
				r = "error"
			} else if sig := c16Un(g); g != "error" && sig != nil &&
				c.c16Call("ref.bip340_verify", sx.List(sx.Bytes(c16Un(pk)), sx.Bytes(msg), sx.Bytes(sig))).AsBool() {
				r = g
			} else {
				r = "a signature the reference verifier accepts"
			}
		} else if len(rd) < 32 {
			r = "error" // the aux randomness is 32 bytes; a reader that cannot supply them is an error
		} else {
			r = c.c16RefOptBytes("ref.bip340_sign", sx.List(sx.Bytes(sk), sx.Bytes(msg), sx.Bytes(rd[:32])))
		}
	case "bip340-verify":
		pk, msg, sig := c16Un(cs.PK), c16Un(cs.Msg), c16Un(cs.Sig)
		if p := c16Safe(func() {
			if taproot.PublicKey(pk).Verify(taproot.Signature(sig), msg) {
				g = "accept"
			} else {
				g = "reject"
			}
		}); p != "" {
			g = p
		}
		if c.c16Call("ref.bip340_verify", sx.List(sx.Bytes(pk), sx.Bytes(msg), sx.Bytes(sig))).AsBool() {
			r = "accept"
		} else {
			r = "reject"
		}
	default:
		g, r = "unknown primitive", "-"
	}
	return
}

func (c *ctx) c16RefOptBytes(op string, arg sx.V) string {
	v := c.c16Call(op, arg)
	if len(v.L) == 0 {
		return "error"
	}
	return c16Hex(v.L[0].B)
}

// what the property demands of decode + Verify on (X, R, S, hash) given as encodings.
// X a finite point: the reference verifier on the strictly decoded values.  X = identity (only constructible as an object):
// the bare equation of the property text, r != 0, s != 0, s^-1 (m G + r X) = s^-1 m G = R.
func (c *ctx) c16EcdsaExpect(xe, re, se string, hash []byte) bool {
	X, okX := c.c16RefPoint(xe)
	R, okR := c.c16RefPoint(re)
	s, okS := c16RefScalar(c16Un(se))
	if !okX || !okR || !okS {
		return false
	}
	m := c.c16FromHash(hash)
	if X.Inf {
		if R.Inf || s.Sign() == 0 || new(big.Int).Mod(R.X, c16N).Sign() == 0 {
			return false
		}
		u := new(big.Int).Mul(m, new(big.Int).ModInverse(s, c16N))
		return c.c16BaseMul(u.Mod(u, c16N)).eq(R)
	}
	return c.c16Call("ref.ecdsa_verify", sx.List(X.sx(), R.sx(), sx.Big(s), sx.Big(m))).AsBool()
}

// Ethereum export.  Outcome strings list, for a signature the reference accepts, every clause of the property:
// 65 bytes | r = x(R) | s' in {s, n-s}, 0 < s' <= n/2 | v in {0,1} | recovery returns X | the object still verifies (library
// verdict and reference verdict on the values read back from the object).
func (c *ctx) c16Eth(cs *c16Case) (g, r string) {
	hash := c16Un(cs.Hash)
	valid := c.c16EcdsaExpect(cs.X, cs.R, cs.S, hash)
	var out []byte
	var err error
	var after bool
	var R2, S2 string
	if p := c16Safe(func() {
		X, sig, ok := c16GoSig(*cs)
		if !ok {
			err = fmt.Errorf("undecodable")
			return
		}
		out, err = sig.SigEthereum()
		after = sig.Verify(X, hash)
		R2, S2 = c16GoPtString(sig.R), c16GoScString(sig.S)
	}); p != "" {
		return p, "no panic"
	}
	if !valid {
		// the property says nothing about exporting an invalid signature: the outcome is recorded only
		if err != nil {
			return "invalid-signature:error", "invalid-signature:error"
		}
		return "invalid-signature:exported", "invalid-signature:exported"
	}
	want := "65 bytes,r=x(R),low s,v in {0,1},recovers X,object still valid"
	if err != nil {
		return "error: " + err.Error(), want
	}
	X, _ := c.c16RefPoint(cs.X)
	R, _ := c.c16RefPoint(cs.R)
	s, _ := c16RefScalar(c16Un(cs.S))
	m := c.c16FromHash(hash)
	var got []string
	if len(out) == 65 {
		got = append(got, "65 bytes")
		rr, ss, v := c16Z(out[:32]), c16Z(out[32:64]), int64(out[64])
		if rr.Cmp(R.X) == 0 {
			got = append(got, "r=x(R)")
		} else {
			got = append(got, "r!=x(R)")
		}
		half := new(big.Int).Rsh(c16N, 1)
		if ss.Sign() > 0 && ss.Cmp(half) <= 0 && (ss.Cmp(s) == 0 || ss.Cmp(new(big.Int).Sub(c16N, s)) == 0) {
			got = append(got, "low s")
		} else {
			got = append(got, "bad s "+ss.Text(16))
		}
		if v == 0 || v == 1 {
			got = append(got, "v in {0,1}")
		} else {
			got = append(got, fmt.Sprintf("v=%d", v))
		}
		rec := c.c16Call("ref.eth_recover", sx.List(sx.Big(m), sx.Big(rr), sx.Big(ss), sx.Int(v)))
		if len(rec.L) == 1 && c16PtOf(rec.L[0]).eq(X) {
			got = append(got, "recovers X")
		} else if len(rec.L) == 1 {
			got = append(got, "recovers "+c16PtOf(rec.L[0]).String())
		} else {
			got = append(got, "recovery fails")
		}
	} else {
		got = append(got, fmt.Sprintf("%d bytes", len(out)))
	}
	if after && c.c16EcdsaExpect(cs.X, R2, S2, hash) {
		got = append(got, "object still valid")
	} else {
		got = append(got, fmt.Sprintf("object invalid afterwards (library verdict %v, R=%s S=%s)", after, R2, S2))
	}
	return strings.Join(got, ","), want
}

// ---------------------------------------------------------------------------------------------------------------------
// bookkeeping of one case

var c16Last c16Case

// what is behind the failing classes seen on the pinned tree
var c16Explain = map[string]string{
	"C16/bip340-verify/pubkey-length": "taproot.PublicKey.Verify never checks len(pk) == 32: Secp256k1.LiftX left-pads a shorter string and truncates a longer one to 32 bytes, " +
		"so a signature made for that very string is accepted; BIP-340 verification rejects any public key that is not 32 bytes",
	"C16/ecdsa-verify/R-prefix-noncanonical": "Secp256k1Point.UnmarshalBinary reads every prefix byte other than 3 as 'even Y' (0,1,4,5,255,... instead of only 2): " +
		"a signature whose nonce point is transmitted with such a prefix is decoded and accepted, although the bytes denote no point in SEC1 compressed form",
	"C16/ecdsa-verify/X-prefix-noncanonical": "same decoder defect on the public key: a key transmitted with prefix 0,1,4,5,255 is read as the even-Y point and signatures verify under it",
	"C16/eth-export/Rx-ge-n": "valid signature whose nonce abscissa lies in [n,p): SigEthereum emits r = x(R) unreduced (>= n) with v in {0,1}; standard recovery requires 1 <= r < n " +
		"(and would need recovery id 2/3), so the signing key is not recovered. Reachable only with probability ~2^-128 for an honest nonce; constructed here by choosing the key last",
}
var c16Debug = os.Getenv("C16_DEBUG") != ""

func (c *ctx) c16Run(cs c16Case) (agree bool) {
	defer func() {
		if e := recover(); e != nil {
			me, ok := e.(c16ModelErr)
			if !ok {
				panic(e)
			}
			c.res.Violate("correspondence", "C16/model-error", me.err.Error(), cs)
			agree = false
		}
	}()
	g, r := c.c16Eval(&cs)
	cs.Go, cs.Ref = g, r
	agree = g == r
	class := cs.Prim + "/" + c16Key(cs)[len("C16/"+cs.Prim+"/"):]
	c.res.Case(class, cs.fp(), true)
	if cs.Prim != "scalar-decode" { // the scalar-decoding oracle is math/big, not a model op
		// for the signing / verification / export routines the Coq reference IS the standard: a difference there is a
		// violation of the property (reported below with its replay), not a modelling disagreement
		c.res.Corr(agree || !(cs.Prim == "curve-mul" || cs.Prim == "point-decode"))
	}
	if cs.Expect != "" {
		// published known answer: both sides must reproduce it
		if r != cs.Expect {
			c.res.Violate("correspondence", "C16/reference-known-answer/"+cs.Prim, "the reference does not reproduce a published BIP-340 vector: "+r+" instead of "+cs.Expect, cs)
		}
		if g != cs.Expect {
			agree = false
		}
	}
	c16Last = cs
	if c16Debug {
		fmt.Printf("%-14s %-40s go=%.70s ref=%.70s\n", cs.Prim, cs.Pert, g, r)
	}
	if (cs.Prim == "bip340-sign" && cs.Pert == "vector#1") || (strings.HasPrefix(cs.Pert, "valid#hashlen=32") && (cs.Prim == "ecdsa-verify" || cs.Prim == "eth-export")) {
		c.res.Sample(3, cs)
	}
	if !agree {
		kind := "property"
		if cs.Prim == "curve-mul" {
			kind = "correspondence"
		}
		if cs.Prim == "point-decode" {
			// a decoding disagreement is not yet a failure of a signing/verification routine: look for the signature-level
			// failure it causes (decode + Verify against the strict reference) and report that one
			if c.c16DecodeSearch(cs) {
				return false
			}
			kind = "correspondence"
		}
		key := c16Key(cs)
		if strings.HasPrefix(g, "panic") {
			key = "C16/" + cs.Prim + "/panic"
		}
		desc := fmt.Sprintf("%s [%s]: library gives %q, the reference demands %q", cs.Prim, cs.Pert, g, r)
		if e, ok := c16Explain[key]; ok {
			desc += " -- " + e
		}
		c.res.Violate(kind, key, desc, cs)
	}
	return agree
}

// property-level search next to a point-decoding disagreement: a signature whose nonce point is transmitted as exactly this
// byte string, valid for the point ONE side decodes it to (the key is chosen last), run through decode + Verify.
func (c *ctx) c16DecodeSearch(cs c16Case) (found bool) {
	enc := cs.Ref // the point the reference reads ...
	if enc == "error" {
		enc = cs.Go // ... or, if it reads none, the point the library reads
	}
	Q, ok := c.c16RefPoint(enc)
	if !ok || Q.Inf {
		return false
	}
	hash := sha256.Sum256(c16Un(cs.R))
	s := c16Add(new(big.Int).Mod(c16Z(hash[:8]), c16N), 1)
	X, ok := c.c16RecoverKey(Q, s, c.c16FromHash(hash[:]))
	if !ok {
		return false
	}
	b := c16Base{X: X, R: Q, s: s, hash: hash[:]}
	v := b.cs("ecdsa-verify", "R-"+cs.Pert)
	v.R = cs.R
	return !c.c16Run(v)
}

// ---------------------------------------------------------------------------------------------------------------------
// generators

type c16Base struct {
	X, R c16Pt
	s    *big.Int
	hash []byte
}

// honest signature made by the reference signer
func (c *ctx) c16Sign(d, k *big.Int, hash []byte) c16Base {
	m := c.c16FromHash(hash)
	for {
		v := c.c16Call("ref.ecdsa_sign", sx.List(sx.Big(k), sx.Big(d), sx.Big(m)))
		if len(v.L) == 1 {
			t := v.L[0]
			return c16Base{X: c.c16BaseMul(d), R: c16PtOf(t.L[0]), s: t.L[2].Z, hash: hash}
		}
		k = c16Add(k, 1)
	}
}
func (b c16Base) cs(prim, pert string) c16Case {
	return c16Case{Prim: prim, Pert: pert, X: b.X.enc(), R: b.R.enc(), S: c16Hex(c16B32(b.s)), Hash: c16Hex(b.hash)}
}

// the same signature in its other form (-R, n-s)
func (b c16Base) twin() c16Base {
	return c16Base{X: b.X, R: b.R.neg(), s: new(big.Int).Sub(c16N, b.s), hash: b.hash}
}

func c16SetPrefix(enc string, pre byte) string {
	b := c16Un(enc)
	b[0] = pre
	return c16Hex(b)
}
func c16Resize(b []byte, n int, r *rand.Rand) []byte {
	if n <= len(b) {
		return append([]byte{}, b[:n]...)
	}
	return c16Cat(b, c16RandBytes(r, n-len(b)))
}

var c16Boundary = []struct {
	name string
	v    func() *big.Int
}{
	{"0", func() *big.Int { return c16Big(0) }},
	{"1", func() *big.Int { return c16Big(1) }},
	{"n-1", func() *big.Int { return c16Add(c16N, -1) }},
	{"n", func() *big.Int { return c16N }},
	{"n+1", func() *big.Int { return c16Add(c16N, 1) }},
	{"p-1", func() *big.Int { return c16Add(c16P, -1) }},
	{"p", func() *big.Int { return c16P }},
	{"p+1", func() *big.Int { return c16Add(c16P, 1) }},
	{"max", func() *big.Int { return c16Max }},
}

// every single-field perturbation of a valid (X, R, s, hash)
func (c *ctx) c16EcdsaPerts(r *rand.Rand, b c16Base) []c16Case {
	var out []c16Case
	add := func(pert string, f func(cs *c16Case)) {
		cs := b.cs("ecdsa-verify", pert)
		f(&cs)
		out = append(out, cs)
	}
	sB := c16B32(b.s)
	add("valid", func(cs *c16Case) {})
	add("valid-via-cbor", func(cs *c16Case) { cs.ViaCBOR = true })
	for _, bv := range c16Boundary {
		v := bv.v()
		add("s-"+bv.name, func(cs *c16Case) { cs.S = c16Hex(c16B32(v)) })
	}
	add("s-neg", func(cs *c16Case) { cs.S = c16Hex(c16B32(new(big.Int).Sub(c16N, b.s))) })
	add("s-plus-1", func(cs *c16Case) { cs.S = c16Hex(c16B32(c16Add(b.s, 1))) })
	add("s-plus-n", func(cs *c16Case) { cs.S = c16Hex(c16B32(new(big.Int).Add(b.s, c16N))) }) // wraps mod 2^256 unless s is tiny
	add("s-len-0", func(cs *c16Case) { cs.S = "" })
	add("s-len-31", func(cs *c16Case) { cs.S = c16Hex(sB[1:]) })
	add("s-len-31-tail", func(cs *c16Case) { cs.S = c16Hex(sB[:31]) })
	add("s-len-33", func(cs *c16Case) { cs.S = c16Hex(append([]byte{0}, sB...)) })
	add("s-len-33-tail", func(cs *c16Case) { cs.S = c16Hex(append(append([]byte{}, sB...), 0)) })
	for _, n := range []int{63, 64, 65} {
		n := n
		add(fmt.Sprintf("s-len-%d", n), func(cs *c16Case) { cs.S = c16Hex(c16Resize(sB, n, r)) })
	}
	// R
	add("R-neg", func(cs *c16Case) { cs.R = b.R.neg().enc() })
	add("R-neg-s-neg", func(cs *c16Case) { t := b.twin(); cs.R, cs.S = t.R.enc(), c16Hex(c16B32(t.s)) })
	add("R-neg-s-neg-via-cbor", func(cs *c16Case) { t := b.twin(); cs.R, cs.S, cs.ViaCBOR = t.R.enc(), c16Hex(c16B32(t.s)), true })
	ev, od := b, b.twin() // the form with even-Y R and the one with odd-Y R
	if !b.R.evenY() {
		ev, od = od, ev
	}
	for _, pre := range []byte{0, 1, 4, 5, 255} {
		pre := pre
		add(fmt.Sprintf("R-prefix-%d-evenY", pre), func(cs *c16Case) { cs.R, cs.S = c16SetPrefix(ev.R.enc(), pre), c16Hex(c16B32(ev.s)) })
		add(fmt.Sprintf("R-prefix-%d-oddY", pre), func(cs *c16Case) { cs.R, cs.S = c16SetPrefix(od.R.enc(), pre), c16Hex(c16B32(od.s)) })
	}
	add("R-prefix-5-evenY-via-cbor", func(cs *c16Case) {
		cs.R, cs.S, cs.ViaCBOR = c16SetPrefix(ev.R.enc(), 5), c16Hex(c16B32(ev.s)), true
	})
	for _, bv := range c16Boundary {
		v := bv.v()
		add("R-x-"+bv.name, func(cs *c16Case) { cs.R = c16Hex(append([]byte{2}, c16B32(v)...)) })
	}
	add("R-x-plus-1", func(cs *c16Case) { cs.R = c16Hex(append([]byte{2}, c16B32(c16Add(b.R.X, 1))...)) })
	rB := c16Un(b.R.enc())
	for _, n := range []int{0, 1, 31, 32, 34, 63, 64, 65} {
		n := n
		add(fmt.Sprintf("R-len-%d", n), func(cs *c16Case) { cs.R = c16Hex(c16Resize(rB, n, r)) })
	}
	add("R-len-32-xonly", func(cs *c16Case) { cs.R = c16Hex(rB[1:]) })
	add("R-len-65-uncompressed", func(cs *c16Case) { cs.R = c16Hex(c16Cat([]byte{4}, c16B32(b.R.X), c16B32(b.R.Y))) })
	add("R-inf", func(cs *c16Case) { cs.R = "inf" })
	other := c.c16BaseMul(c16RandScalar(r))
	add("R-other", func(cs *c16Case) { cs.R = other.enc() })
	// X
	add("X-neg", func(cs *c16Case) { cs.X = b.X.neg().enc() })
	xpar := "evenY"
	if !b.X.evenY() {
		xpar = "oddY"
	}
	for _, pre := range []byte{0, 1, 4, 5, 255} {
		pre := pre
		add(fmt.Sprintf("X-prefix-%d-%s", pre, xpar), func(cs *c16Case) { cs.X = c16SetPrefix(b.X.enc(), pre) })
	}
	add("X-inf", func(cs *c16Case) { cs.X = "inf" })
	add("X-other", func(cs *c16Case) { cs.X = other.enc() })
	xB := c16Un(b.X.enc())
	for _, n := range []int{0, 31, 32, 34, 63, 64, 65} {
		n := n
		add(fmt.Sprintf("X-len-%d", n), func(cs *c16Case) { cs.X = c16Hex(c16Resize(xB, n, r)) })
	}
	add("X-x-plus-p", func(cs *c16Case) { cs.X = c16Hex(append([]byte{xB[0]}, c16B32(new(big.Int).Add(b.X.X, c16P))...)) })
	// hash
	if len(b.hash) > 0 {
		add("hash-bitflip", func(cs *c16Case) {
			h := append([]byte{}, b.hash...)
			h[r.Intn(len(h))] ^= byte(1 << uint(r.Intn(8)))
			cs.Hash = c16Hex(h)
		})
		add("hash-truncated", func(cs *c16Case) { cs.Hash = c16Hex(b.hash[:len(b.hash)-1]) })
		add("hash-empty", func(cs *c16Case) { cs.Hash = "" })
	}
	add("hash-extended", func(cs *c16Case) { cs.Hash = c16Hex(append(append([]byte{}, b.hash...), byte(r.Intn(256)))) })
	return out
}

// valid signatures whose fields sit at the boundary values, made by choosing the key last:  X = r^-1 (s R - m G)
func (c *ctx) c16EcdsaSpecial(r *rand.Rand) (ver, eth []c16Case) {
	rxs := []struct {
		name string
		x    *big.Int
	}{{"1", c16Big(1)}, {"2", c16Big(2)}, {"3", c16Big(3)}, {"n-2", c16Add(c16N, -2)}, {"n", c16N}, {"n+2", c16Add(c16N, 2)}, {"p-3", c16Add(c16P, -3)}}
	for _, rx := range rxs {
		R, ok := c.c16LiftX(rx.x)
		if !ok {
			continue
		}
		if r.Intn(2) == 0 {
			R = R.neg()
		}
		hash := c16RandBytes(r, 32)
		s := c16RandScalar(r)
		if rx.name == "n" {
			// r = x(R) mod n = 0: no key exists; must be rejected under any key
			X := c.c16BaseMul(c16RandScalar(r))
			b := c16Base{X: X, R: R, s: s, hash: hash}
			ver = append(ver, b.cs("ecdsa-verify", "Rx-n-r-zero"))
			continue
		}
		X, ok := c.c16RecoverKey(R, s, c.c16FromHash(hash))
		if !ok {
			continue
		}
		b := c16Base{X: X, R: R, s: s, hash: hash}
		ver = append(ver, b.cs("ecdsa-verify", "valid-Rx-"+rx.name))
		cls := "valid-Rx-" + rx.name
		if rx.x.Cmp(c16N) >= 0 {
			cls = "Rx-ge-n"
		}
		eth = append(eth, b.cs("eth-export", cls), b.twin().cs("eth-export", cls))
	}
	half := new(big.Int).Rsh(c16N, 1)
	for _, sv := range []struct {
		name string
		s    *big.Int
	}{{"1", c16Big(1)}, {"n-1", c16Add(c16N, -1)}, {"half", half}, {"half+1", c16Add(half, 1)}, {"2", c16Big(2)}} {
		R := c.c16BaseMul(c16RandScalar(r))
		hash := c16RandBytes(r, 32)
		X, ok := c.c16RecoverKey(R, sv.s, c.c16FromHash(hash))
		if !ok {
			continue
		}
		b := c16Base{X: X, R: R, s: sv.s, hash: hash}
		ver = append(ver, b.cs("ecdsa-verify", "valid-s-"+sv.name))
		eth = append(eth, b.cs("eth-export", "valid-s-"+sv.name))
	}
	// m G + r X is a doubling:  d = m / r
	{
		hash := c16RandBytes(r, 32)
		m := c.c16FromHash(hash)
		k := c16RandScalar(r)
		R := c.c16BaseMul(k)
		rr := new(big.Int).Mod(R.X, c16N)
		d := new(big.Int).Mul(m, new(big.Int).ModInverse(rr, c16N))
		d.Mod(d, c16N)
		b := c.c16Sign(d, k, hash)
		ver = append(ver, b.cs("ecdsa-verify", "valid-doubling"))
		eth = append(eth, b.cs("eth-export", "valid-doubling"))
	}
	// m = 0 (empty and all-zero digest), digest = n (m = 0 after reduction), digest above n
	for _, hv := range []struct {
		name string
		h    []byte
	}{{"hash-len-0", []byte{}}, {"hash-zero", make([]byte, 32)}, {"hash-n", c16B32(c16N)}, {"hash-max", c16B32(c16Max)}} {
		b := c.c16Sign(c16RandScalar(r), c16RandScalar(r), hv.h)
		ver = append(ver, b.cs("ecdsa-verify", "valid-"+hv.name))
		eth = append(eth, b.cs("eth-export", "valid-"+hv.name))
	}
	// identity as public key: R = (m/s) G satisfies the bare equation
	{
		hash := c16RandBytes(r, 32)
		m := c.c16FromHash(hash)
		s := c16RandScalar(r)
		u := new(big.Int).Mul(m, new(big.Int).ModInverse(s, c16N))
		R := c.c16BaseMul(u.Mod(u, c16N))
		b := c16Base{X: c16Pt{Inf: true}, R: R, s: s, hash: hash}
		ver = append(ver, b.cs("ecdsa-verify", "X-inf-equation-holds"))
		b2 := b
		b2.s = c16Add(s, 1)
		ver = append(ver, b2.cs("ecdsa-verify", "X-inf-equation-fails"))
		b3 := b
		b3.R = c16Pt{Inf: true}
		ver = append(ver, b3.cs("ecdsa-verify", "X-inf-R-inf"))
	}
	return
}

// ---- BIP-340 ----

type c16Bip struct {
	sk, pk, msg, aux, sig []byte
}

func (c *ctx) c16BipBase(sk, msg, aux []byte) (c16Bip, bool) {
	pk := c.c16RefOptBytes("ref.bip340_pubkey", sx.Bytes(sk))
	sig := c.c16RefOptBytes("ref.bip340_sign", sx.List(sx.Bytes(sk), sx.Bytes(msg), sx.Bytes(aux)))
	if pk == "error" || sig == "error" {
		return c16Bip{}, false
	}
	return c16Bip{sk, c16Un(pk), msg, aux, c16Un(sig)}, true
}

// signature made here from scratch (reference arithmetic + crypto/sha256) for an arbitrary public-key STRING pkStr that the
// library would read as the point d.G;  mode: "", "odd-R", "inf-R" (then rOverride gives sig[0:32]), "odd-P"
func (c *ctx) c16BipForge(d, k *big.Int, pkStr, msg []byte, mode string, rOverride []byte) []byte {
	P := c.c16BaseMul(d)
	if P.evenY() == (mode == "odd-P") {
		d = new(big.Int).Sub(c16N, d)
	}
	R := c.c16BaseMul(k)
	if R.evenY() == (mode == "odd-R") {
		k = new(big.Int).Sub(c16N, k)
	}
	rb := c16B32(R.X)
	if mode == "inf-R" {
		rb = rOverride
		k = c16Big(0)
	}
	e := new(big.Int).Mod(c16Z(c16Tagged("BIP0340/challenge", rb, pkStr, msg)), c16N)
	s := new(big.Int).Mul(e, d)
	s.Add(s, k).Mod(s, c16N)
	return c16Cat(rb, c16B32(s))
}

func (c *ctx) c16BipVerifyPerts(r *rand.Rand, b c16Bip) []c16Case {
	var out []c16Case
	add := func(pert string, pk, msg, sig []byte) {
		out = append(out, c16Case{Prim: "bip340-verify", Pert: pert, PK: c16Hex(pk), Msg: c16Hex(msg), Sig: c16Hex(sig)})
	}
	rb, sb := b.sig[:32], b.sig[32:]
	add("valid", b.pk, b.msg, b.sig)
	for _, bv := range c16Boundary {
		add("r-"+bv.name, b.pk, b.msg, c16Cat(c16B32(bv.v()), sb))
		add("s-"+bv.name, b.pk, b.msg, c16Cat(rb, c16B32(bv.v())))
	}
	add("r-plus-1", b.pk, b.msg, c16Cat(c16B32(c16Add(c16Z(rb), 1)), sb))
	add("r-plus-p", b.pk, b.msg, c16Cat(c16B32(new(big.Int).Add(c16Z(rb), c16P)), sb))
	add("s-plus-1", b.pk, b.msg, c16Cat(rb, c16B32(c16Add(c16Z(sb), 1))))
	add("s-plus-n", b.pk, b.msg, c16Cat(rb, c16B32(new(big.Int).Add(c16Z(sb), c16N))))
	add("s-neg", b.pk, b.msg, c16Cat(rb, c16B32(new(big.Int).Sub(c16N, c16Z(sb)))))
	flip := func(x []byte) []byte {
		y := append([]byte{}, x...)
		if len(y) > 0 {
			y[r.Intn(len(y))] ^= byte(1 << uint(r.Intn(8)))
		}
		return y
	}
	add("sig-bitflip", b.pk, b.msg, flip(b.sig))
	for _, n := range []int{0, 31, 32, 33, 63, 65, 96} {
		add(fmt.Sprintf("sig-len-%d", n), b.pk, b.msg, c16Resize(b.sig, n, r))
	}
	add("sig-len-63-head", b.pk, b.msg, b.sig[1:])
	add("sig-len-65-head", b.pk, b.msg, c16Cat([]byte{0}, b.sig))
	add("sig-len-65-zero", b.pk, b.msg, c16Cat(b.sig, []byte{0}))
	// public key, signature left as it is
	for _, n := range []int{0, 31, 33, 63, 64, 65} {
		add(fmt.Sprintf("pk-len-%d", n), c16Resize(b.pk, n, r), b.msg, b.sig)
	}
	add("pk-len-31-head", b.pk[1:], b.msg, b.sig)
	add("pk-len-33-zero", c16Cat(b.pk, []byte{0}), b.msg, b.sig)
	add("pk-len-33-lead0", c16Cat([]byte{0}, b.pk), b.msg, b.sig)
	for _, bv := range c16Boundary {
		add("pk-"+bv.name, c16B32(bv.v()), b.msg, b.sig)
	}
	add("pk-plus-p", c16B32(new(big.Int).Add(c16Z(b.pk), c16P)), b.msg, b.sig)
	add("pk-bitflip", flip(b.pk), b.msg, b.sig)
	x := c16Z(b.pk)
	for i := 0; i < 64; i++ { // nearest abscissa that is not on the curve
		x = c16Add(x, 1)
		if _, ok := c.c16LiftX(x); !ok {
			add("pk-not-on-curve", c16B32(x), b.msg, b.sig)
			break
		}
	}
	add("pk-other", c16Un(c.c16RefOptBytes("ref.bip340_pubkey", sx.Bytes(c16B32(c16RandScalar(r))))), b.msg, b.sig)
	// message
	add("msg-extended", b.pk, append(append([]byte{}, b.msg...), byte(r.Intn(256))), b.sig)
	if len(b.msg) > 0 {
		add("msg-bitflip", b.pk, flip(b.msg), b.sig)
		add("msg-truncated", b.pk, b.msg[:len(b.msg)-1], b.sig)
		add("msg-empty", b.pk, []byte{}, b.sig)
	}
	// signatures computed here
	d, k := c16Z(b.sk), c16RandScalar(r)
	add("forged-valid", b.pk, b.msg, c.c16BipForge(d, k, b.pk, b.msg, "", nil))
	add("odd-R", b.pk, b.msg, c.c16BipForge(d, k, b.pk, b.msg, "odd-R", nil))
	add("odd-P", b.pk, b.msg, c.c16BipForge(d, k, b.pk, b.msg, "odd-P", nil))
	add("inf-R-r-0", b.pk, b.msg, c.c16BipForge(d, k, b.pk, b.msg, "inf-R", c16B32(c16Big(0))))
	add("inf-R-r-1", b.pk, b.msg, c.c16BipForge(d, k, b.pk, b.msg, "inf-R", c16B32(c16Big(1))))
	add("inf-R-r-random", b.pk, b.msg, c.c16BipForge(d, k, b.pk, b.msg, "inf-R", c16B32(c.c16BaseMul(k).X)))
	// public-key strings of a wrong length that the library's LiftX reads as the signer's point (truncation to 32 bytes),
	// with a signature made for exactly that string
	for _, n := range []int{33, 63, 64, 65} {
		pkStr := c16Resize(b.pk, n, r)
		add(fmt.Sprintf("pk-forged-len-%d", n), pkStr, b.msg, c.c16BipForge(d, k, pkStr, b.msg, "", nil))
	}
	if b.pk[0] == 0 { // left-padding: the 31-byte tail denotes the same abscissa
		add("pk-forged-len-31", b.pk[1:], b.msg, c.c16BipForge(d, k, b.pk[1:], b.msg, "", nil))
	}
	add("pk-forged-len-0", []byte{}, b.msg, c.c16BipForge(d, k, []byte{}, b.msg, "", nil))
	return out
}

func c16SkPerts(r *rand.Rand) (names []string, sks [][]byte) {
	for _, bv := range c16Boundary {
		names, sks = append(names, "sk-"+bv.name), append(sks, c16B32(bv.v()))
	}
	v := c16B32(c16RandScalar(r))
	names, sks = append(names, "sk-len-31", "sk-len-33", "sk-len-33-lead0", "sk-len-0", "sk-len-64", "sk-2", "sk-half"),
		append(sks, v[1:], c16Cat(v, []byte{0}), c16Cat([]byte{0}, v), []byte{}, c16Cat(v, v), c16B32(c16Big(2)), c16B32(new(big.Int).Rsh(c16N, 1)))
	return
}

// a secret key whose x-only public key starts with a zero byte (found with the library's arithmetic, only a construction aid:
// every verdict on the resulting case is the reference's)
func c16LeadingZeroKey(r *rand.Rand) []byte {
	for i := 0; i < 20000; i++ {
		sk := c16B32(c16RandScalar(r))
		pk, err := taproot.SecretKey(sk).Public()
		if err == nil && pk[0] == 0 {
			return sk
		}
	}
	return nil
}

// ---- published BIP-340 vectors (test-vectors.csv, indices 0-14) ----

type c16Vec struct {
	idx                   int
	sk, pk, aux, msg, sig string
	ok                    bool
}

var c16Vectors = []c16Vec{
	{0, "0000000000000000000000000000000000000000000000000000000000000003", "F9308A019258C31049344F85F89D5229B531C845836F99B08601F113BCE036F9", "0000000000000000000000000000000000000000000000000000000000000000", "0000000000000000000000000000000000000000000000000000000000000000", "E907831F80848D1069A5371B402410364BDF1C5F8307B0084C55F1CE2DCA821525F66A4A85EA8B71E482A74F382D2CE5EBEEE8FDB2172F477DF4900D310536C0", true},
	{1, "B7E151628AED2A6ABF7158809CF4F3C762E7160F38B4DA56A784D9045190CFEF", "DFF1D77F2A671C5F36183726DB2341BE58FEAE1DA2DECED843240F7B502BA659", "0000000000000000000000000000000000000000000000000000000000000001", "243F6A8885A308D313198A2E03707344A4093822299F31D0082EFA98EC4E6C89", "6896BD60EEAE296DB48A229FF71DFE071BDE413E6D43F917DC8DCF8C78DE33418906D11AC976ABCCB20B091292BFF4EA897EFCB639EA871CFA95F6DE339E4B0A", true},
	{2, "C90FDAA22168C234C4C6628B80DC1CD129024E088A67CC74020BBEA63B14E5C9", "DD308AFEC5777E13121FA72B9CC1B7CC0139715309B086C960E18FD969774EB8", "C87AA53824B4D7AE2EB035A2B5BBBCCC080E76CDC6D1692C4B0B62D798E6D906", "7E2D58D8B3BCDF1ABADEC7829054F90DDA9805AAB56C77333024B9D0A508B75C", "5831AAEED7B44BB74E5EAB94BA9D4294C49BCF2A60728D8B4C200F50DD313C1BAB745879A5AD954A72C45A91C3A51D3C7ADEA98D82F8481E0E1E03674A6F3FB7", true},
	{3, "0B432B2677937381AEF05BB02A66ECD012773062CF3FA2549E44F58ED2401710", "25D1DFF95105F5253C4022F628A996AD3A0D95FBF21D468A1B33F8C160D8F517", "FFFFFFFFFFFFFFFFFFFFFFFFFFFFFFFFFFFFFFFFFFFFFFFFFFFFFFFFFFFFFFFF", "FFFFFFFFFFFFFFFFFFFFFFFFFFFFFFFFFFFFFFFFFFFFFFFFFFFFFFFFFFFFFFFF", "7EB0509757E246F19449885651611CB965ECC1A187DD51B64FDA1EDC9637D5EC97582B9CB13DB3933705B32BA982AF5AF25FD78881EBB32771FC5922EFC66EA3", true},
	{4, "", "D69C3509BB99E412E68B0FE8544E72837DFA30746D8BE2AA65975F29D22DC7B9", "", "4DF3C3F68FCC83B27E9D42C90431A72499F17875C81A599B566C9889B9696703", "00000000000000000000003B78CE563F89A0ED9414F5AA28AD0D96D6795F9C6376AFB1548AF603B3EB45C9F8207DEE1060CB71C04E80F593060B07D28308D7F4", true},
	{5, "", "EEFDEA4CDB677750A420FEE807EACF21EB9898AE79B9768766E4FAA04A2D4A34", "", "243F6A8885A308D313198A2E03707344A4093822299F31D0082EFA98EC4E6C89", "6CFF5C3BA86C69EA4B7376F31A9BCB4F74C1976089B2D9963DA2E5543E17776969E89B4C5564D00349106B8497785DD7D1D713A8AE82B32FA79D5F7FC407D39B", false},
	{6, "", "DFF1D77F2A671C5F36183726DB2341BE58FEAE1DA2DECED843240F7B502BA659", "", "243F6A8885A308D313198A2E03707344A4093822299F31D0082EFA98EC4E6C89", "FFF97BD5755EEEA420453A14355235D382F6472F8568A18B2F057A14602975563CC27944640AC607CD107AE10923D9EF7A73C643E166BE5EBEAFA34B1AC553E2", false},
	{7, "", "DFF1D77F2A671C5F36183726DB2341BE58FEAE1DA2DECED843240F7B502BA659", "", "243F6A8885A308D313198A2E03707344A4093822299F31D0082EFA98EC4E6C89", "1FA62E331EDBC21C394792D2AB1100A7B432B013DF3F6FF4F99FCB33E0E1515F28890B3EDB6E7189B630448B515CE4F8622A954CFE545735AAEA5134FCCDB2BD", false},
	{8, "", "DFF1D77F2A671C5F36183726DB2341BE58FEAE1DA2DECED843240F7B502BA659", "", "243F6A8885A308D313198A2E03707344A4093822299F31D0082EFA98EC4E6C89", "6CFF5C3BA86C69EA4B7376F31A9BCB4F74C1976089B2D9963DA2E5543E177769961764B3AA9B2FFCB6EF947B6887A226E8D7C93E00C5ED0C1834FF0D0C2E6DA6", false},
	{9, "", "DFF1D77F2A671C5F36183726DB2341BE58FEAE1DA2DECED843240F7B502BA659", "", "243F6A8885A308D313198A2E03707344A4093822299F31D0082EFA98EC4E6C89", "0000000000000000000000000000000000000000000000000000000000000000123DDA8328AF9C23A94C1FEECFD123BA4FB73476F0D594DCB65C6425BD186051", false},
	{10, "", "DFF1D77F2A671C5F36183726DB2341BE58FEAE1DA2DECED843240F7B502BA659", "", "243F6A8885A308D313198A2E03707344A4093822299F31D0082EFA98EC4E6C89", "00000000000000000000000000000000000000000000000000000000000000017615FBAF5AE28864013C099742DEADB4DBA87F11AC6754F93780D5A1837CF197", false},
	{11, "", "DFF1D77F2A671C5F36183726DB2341BE58FEAE1DA2DECED843240F7B502BA659", "", "243F6A8885A308D313198A2E03707344A4093822299F31D0082EFA98EC4E6C89", "4A298DACAE57395A15D0795DDBFD1DCB564DA82B0F269BC70A74F8220429BA1D69E89B4C5564D00349106B8497785DD7D1D713A8AE82B32FA79D5F7FC407D39B", false},
	{12, "", "DFF1D77F2A671C5F36183726DB2341BE58FEAE1DA2DECED843240F7B502BA659", "", "243F6A8885A308D313198A2E03707344A4093822299F31D0082EFA98EC4E6C89", "FFFFFFFFFFFFFFFFFFFFFFFFFFFFFFFFFFFFFFFFFFFFFFFFFFFFFFFEFFFFFC2F69E89B4C5564D00349106B8497785DD7D1D713A8AE82B32FA79D5F7FC407D39B", false},
	{13, "", "DFF1D77F2A671C5F36183726DB2341BE58FEAE1DA2DECED843240F7B502BA659", "", "243F6A8885A308D313198A2E03707344A4093822299F31D0082EFA98EC4E6C89", "6CFF5C3BA86C69EA4B7376F31A9BCB4F74C1976089B2D9963DA2E5543E177769FFFFFFFFFFFFFFFFFFFFFFFFFFFFFFFEBAAEDCE6AF48A03BBFD25E8CD0364141", false},
	{14, "", "FFFFFFFFFFFFFFFFFFFFFFFFFFFFFFFFFFFFFFFFFFFFFFFFFFFFFFFEFFFFFC30", "", "243F6A8885A308D313198A2E03707344A4093822299F31D0082EFA98EC4E6C89", "6CFF5C3BA86C69EA4B7376F31A9BCB4F74C1976089B2D9963DA2E5543E17776969E89B4C5564D00349106B8497785DD7D1D713A8AE82B32FA79D5F7FC407D39B", false},
}

func c16Lower(s string) string { return strings.ToLower(s) }

func (c *ctx) c16KnownAnswers() {
	for _, v := range c16Vectors {
		tag := fmt.Sprintf("#%d", v.idx)
		if v.sk != "" {
			c.c16Run(c16Case{Prim: "bip340-pubkey", Pert: "vector" + tag, SK: c16Lower(v.sk), Expect: c16Lower(v.pk)})
			c.c16Run(c16Case{Prim: "bip340-sign", Pert: "vector" + tag, SK: c16Lower(v.sk), Msg: c16Lower(v.msg), Rand: c16Lower(v.aux), Expect: c16Lower(v.sig)})
		}
		exp := "reject"
		if v.ok {
			exp = "accept"
		}
		c.c16Run(c16Case{Prim: "bip340-verify", Pert: "vector" + tag, PK: c16Lower(v.pk), Msg: c16Lower(v.msg), Sig: c16Lower(v.sig), Expect: exp})
	}
}

// ---------------------------------------------------------------------------------------------------------------------

func runC16(c *ctx) {
	r := c.res.Rng
	c.res.Rule = "one case = one concrete input to one primitive (fromhash, scalar/point decoding, curve multiplication, ECDSA decode+Verify, " +
		"SigEthereum, BIP-340 Public/GenKey/Sign/Verify), evaluated by the library and by the Coq reference (ref.* ops); inputs: random keys, " +
		"digests/messages of length 0..100 and 1000, valid signatures and every single-field perturbation (boundary values 0,1,n-1,n,n+1,p-1,p,p+1,2^256-1 " +
		"in r/s/x/sk, negations, parity flips, prefixes 0,1,4,5,255, lengths 0,31..34,63..65, infinity), signatures with boundary fields made valid by " +
		"choosing the key last, BIP-340 vectors 0-14; class = primitive/perturbation family; all cases non-trivial; distinct by full input"
	if c.replay != "" {
		c16Replay_(c)
		return
	}
	defer func() {
		if e := recover(); e != nil {
			me, ok := e.(c16ModelErr)
			if !ok {
				panic(e)
			}
			c.res.Violate("correspondence", "C16/model-error", me.err.Error(), nil)
		}
	}()
	T := c.thorough()
	pick := func(q, t int) int {
		if T {
			return t
		}
		return q
	}
	run := c.c16Run

	// 0. the calls re-evaluated by vm_compute (cases.v).  A 256-bit scalar multiplication of the reference curve costs ~25 s
	// under vm_compute (inductive Z), so only these few cases are logged: cheap ops, one public key, and one complete ECDSA
	// verification (s = 1, one-byte digest: a single full-size multiplication); the thorough tier adds BIP-340 vector 0.
	c.m.MaxLog = 0
	logged := func(f func()) {
		c.m.MaxLog = 1 << 30
		f()
		c.m.MaxLog = 0
	}
	{
		R := c.c16BaseMul(c16Big(7))
		hash := []byte{9}
		X, _ := c.c16RecoverKey(R, c16Big(1), c.c16FromHash(hash))
		sig1 := c16Base{X: X, R: R, s: c16Big(1), hash: hash}
		G := c.c16BaseMul(c16Big(1))
		logged(func() {
			for _, h := range [][]byte{{}, {1, 2, 3}, c16B32(c16N), c16Cat(c16B32(c16Max), []byte{1, 2})} {
				c.c16Run(c16Case{Prim: "fromhash", Pert: "crosscheck", Hash: c16Hex(h)})
			}
			c.c16Run(c16Case{Prim: "point-decode", Pert: "valid", R: G.enc()})
			c.c16Run(c16Case{Prim: "point-decode", Pert: "x-0", R: c16Hex(append([]byte{2}, make([]byte, 32)...))})
			c.c16Run(c16Case{Prim: "point-decode", Pert: "len-32", R: c16Hex(c16B32(G.X))})
			c.c16Run(c16Case{Prim: "curve-mul", Pert: "base-boundary", K: "3"})
			c.c16Run(c16Case{Prim: "curve-mul", Pert: "point-boundary", K: "5", R: G.neg().enc()})
			c.c16Run(c16Case{Prim: "bip340-pubkey", Pert: "vector#0", SK: c16Lower(c16Vectors[0].sk), Expect: c16Lower(c16Vectors[0].pk)})
			c.c16Run(c16Case{Prim: "bip340-verify", Pert: "sig-len-63", PK: c16Lower(c16Vectors[0].pk), Msg: "", Sig: c16Lower(c16Vectors[0].sig[:126])})
			c.c16Run(sig1.cs("ecdsa-verify", "valid-s-1"))
			if T {
				v := c16Vectors[0]
				c.c16Run(c16Case{Prim: "bip340-sign", Pert: "vector#0", SK: c16Lower(v.sk), Msg: c16Lower(v.msg), Rand: c16Lower(v.aux), Expect: c16Lower(v.sig)})
				c.c16Run(c16Case{Prim: "bip340-verify", Pert: "vector#0", PK: c16Lower(v.pk), Msg: c16Lower(v.msg), Sig: c16Lower(v.sig), Expect: "accept"})
			}
		})
	}

	// 0'. published vectors
	c.c16KnownAnswers()

	// 1. hash to scalar, digest lengths 0..80 (and 100, 1000)
	lens := []int{}
	for l := 0; l <= 80; l++ {
		lens = append(lens, l)
	}
	lens = append(lens, 100, 1000)
	for _, l := range lens {
		fills := [][]byte{c16RandBytes(r, l), bytes.Repeat([]byte{0xff}, l), make([]byte, l)}
		if l >= 32 {
			for _, d := range []int64{-1, 0, 1} {
				fills = append(fills, c16Cat(c16B32(c16Add(c16N, d)), c16RandBytes(r, l-32)))
			}
		}
		for i := 0; i < pick(0, 6); i++ {
			fills = append(fills, c16RandBytes(r, l))
		}
		for i, f := range fills {
			name := []string{"random", "ones", "zeros", "n-1-prefix", "n-prefix", "n+1-prefix"}
			p := "random"
			if i < 3 || (l >= 32 && i < 6) {
				p = name[i]
			}
			c.c16Run(c16Case{Prim: "fromhash", Pert: fmt.Sprintf("%s#len=%d", p, l), Hash: c16Hex(f)})
		}
	}

	// 2. scalar decoding (strict: 32 bytes, below n)
	for _, bv := range c16Boundary {
		c.c16Run(c16Case{Prim: "scalar-decode", Pert: "value-" + bv.name, S: c16Hex(c16B32(bv.v()))})
	}
	for _, n := range []int{0, 1, 31, 33, 63, 64, 65} {
		c.c16Run(c16Case{Prim: "scalar-decode", Pert: fmt.Sprintf("len-%d", n), S: c16Hex(c16RandBytes(r, n))})
	}
	for i := 0; i < pick(10, 200); i++ {
		c.c16Run(c16Case{Prim: "scalar-decode", Pert: "random", S: c16Hex(c16RandBytes(r, 32))})
	}

	// 3. point decoding (strict SEC1 compressed) and the curve arithmetic differential
	for i := 0; i < pick(6, 80); i++ {
		P := c.c16BaseMul(c16RandScalar(r))
		enc := P.enc()
		par := "evenY"
		if !P.evenY() {
			par = "oddY"
		}
		c.c16Run(c16Case{Prim: "point-decode", Pert: "valid", R: enc})
		c.c16Run(c16Case{Prim: "point-decode", Pert: "parity-flipped", R: P.neg().enc()})
		pres := []byte{0, 1, 4, 5, 255}
		if T {
			pres = append(pres, 6, 7, 0x82, byte(r.Intn(256)))
		}
		for _, pre := range pres {
			if pre == 2 || pre == 3 {
				continue
			}
			c.c16Run(c16Case{Prim: "point-decode", Pert: fmt.Sprintf("prefix-%d-%s", pre, par), R: c16SetPrefix(enc, pre)})
		}
		b := c16Un(enc)
		for _, n := range []int{0, 1, 31, 32, 34, 63, 64, 65} {
			c.c16Run(c16Case{Prim: "point-decode", Pert: fmt.Sprintf("len-%d", n), R: c16Hex(c16Resize(b, n, r))})
		}
		c.c16Run(c16Case{Prim: "point-decode", Pert: "len-65-uncompressed", R: c16Hex(c16Cat([]byte{4}, c16B32(P.X), c16B32(P.Y)))})
		c.c16Run(c16Case{Prim: "point-decode", Pert: "x-plus-1", R: c16Hex(append([]byte{b[0]}, c16B32(c16Add(P.X, 1))...))})
		c.c16Run(c16Case{Prim: "point-decode", Pert: "x-plus-p", R: c16Hex(append([]byte{b[0]}, c16B32(new(big.Int).Add(P.X, c16P))...))})
		// arithmetic: k.G and k.P
		k := c16RandScalar(r)
		c.c16Run(c16Case{Prim: "curve-mul", Pert: "base-random", K: k.String()})
		c.c16Run(c16Case{Prim: "curve-mul", Pert: "point-random", K: k.String(), R: enc})
	}
	for _, bv := range c16Boundary {
		for _, pre := range []byte{2, 3} {
			c.c16Run(c16Case{Prim: "point-decode", Pert: fmt.Sprintf("x-%s", bv.name), R: c16Hex(append([]byte{pre}, c16B32(bv.v())...))})
		}
	}
	for _, x := range []*big.Int{c16Big(2), c16Big(3), c16Add(c16N, 2), c16Add(c16P, -3), c16Add(c16P, 2)} {
		c.c16Run(c16Case{Prim: "point-decode", Pert: "x-small-or-wrapping", R: c16Hex(append([]byte{byte(2 + r.Intn(2))}, c16B32(x)...))})
	}
	G := c.c16BaseMul(c16Big(1))
	for _, k := range []*big.Int{c16Big(0), c16Big(1), c16Big(2), c16Big(3), c16Add(c16N, -1), c16Add(c16N, -2), new(big.Int).Rsh(c16N, 1), c16Add(new(big.Int).Rsh(c16N, 1), 1)} {
		c.c16Run(c16Case{Prim: "curve-mul", Pert: "base-boundary", K: k.String()})
		c.c16Run(c16Case{Prim: "curve-mul", Pert: "point-boundary", K: k.String(), R: c.c16Mul(c16RandScalar(r), G).enc()})
	}

	// 4. ECDSA: for every digest length an honest signature (valid, its twin, a few perturbations); the full perturbation list on some
	fullEvery := pick(13, 1)
	nExtra := pick(4, 0)
	for rep := 0; rep < pick(1, 5); rep++ {
		for i, l := range append(append([]int{}, lens...), 81, 82, 83, 84, 85, 86, 87, 88, 89, 90, 91, 92, 93, 94, 95, 96, 97, 98, 99) {
			hash := c16RandBytes(r, l)
			d := c16RandScalar(r)
			if (i/fullEvery)%2 == 0 { // alternate the parity of the public key among the fully perturbed bases
				if X := c.c16BaseMul(d); !X.evenY() {
					d = new(big.Int).Sub(c16N, d)
				}
			}
			b := c.c16Sign(d, c16RandScalar(r), hash)
			perts := c.c16EcdsaPerts(r, b)
			if i%fullEvery != 0 {
				sel := []c16Case{perts[0]}
				for j := 0; j < nExtra; j++ {
					sel = append(sel, perts[1+r.Intn(len(perts)-1)])
				}
				perts = sel
			}
			for _, cs := range perts {
				cs.Pert += fmt.Sprintf("#hashlen=%d", l)
				run(cs)
			}
			// Ethereum export of the signature and of its twin (one of them has a high s)
			c.c16Run(b.cs("eth-export", "valid"+fmt.Sprintf("#hashlen=%d", l)))
			if i%3 == 0 || T {
				c.c16Run(b.twin().cs("eth-export", "valid-twin"+fmt.Sprintf("#hashlen=%d", l)))
			}
			if i%fullEvery == 0 {
				// invalid signatures through the export: outcome recorded, no panic allowed
				for _, cs := range perts {
					if strings.HasPrefix(cs.Pert, "s-0") || strings.HasPrefix(cs.Pert, "R-inf") || strings.HasPrefix(cs.Pert, "s-plus-1") || cs.Pert == "R-prefix-5-evenY" {
						cs.Prim = "eth-export"
						c.c16Run(cs)
					}
				}
			}
		}
	}
	for rep := 0; rep < pick(1, 6); rep++ {
		ver, eth := c.c16EcdsaSpecial(r)
		for _, cs := range append(ver, eth...) {
			run(cs)
		}
	}

	// 5. BIP-340
	skNames, sks := c16SkPerts(r)
	for i, sk := range sks {
		c.c16Run(c16Case{Prim: "bip340-pubkey", Pert: skNames[i], SK: c16Hex(sk)})
		c.c16Run(c16Case{Prim: "bip340-sign", Pert: skNames[i], SK: c16Hex(sk), Msg: c16Hex(c16RandBytes(r, 32)), Rand: c16Hex(c16RandBytes(r, 32))})
		c.c16Run(c16Case{Prim: "bip340-sign", Pert: "nil-rand-" + skNames[i], SK: c16Hex(sk), Msg: c16Hex(c16RandBytes(r, 32)), NilRand: true})
	}
	good := c16B32(c16RandScalar(r))
	for _, gk := range []struct {
		name string
		rd   []byte
	}{
		{"valid", good}, {"valid-then-more", c16Cat(good, c16RandBytes(r, 40))}, {"zero-then-valid", c16Cat(make([]byte, 32), good)},
		{"n-then-valid", c16Cat(c16B32(c16N), good)}, {"max-then-max-then-valid", c16Cat(c16B32(c16Max), c16B32(c16Max), good)},
		{"short-31", good[:31]}, {"empty", []byte{}}, {"zero-then-short", c16Cat(make([]byte, 32), good[:5])}, {"zero-then-nothing", make([]byte, 32)},
	} {
		c.c16Run(c16Case{Prim: "bip340-genkey", Pert: gk.name, Rand: c16Hex(gk.rd)})
	}
	lz := c16LeadingZeroKey(r)
	fullEveryB := pick(17, 1)
	for rep := 0; rep < pick(1, 5); rep++ {
		for i, l := range append(append([]int{}, lens...), 81, 82, 83, 84, 85, 86, 87, 88, 89, 90, 91, 92, 93, 94, 95, 96, 97, 98, 99) {
			sk, msg, aux := c16B32(c16RandScalar(r)), c16RandBytes(r, l), c16RandBytes(r, 32)
			if i == 0 && lz != nil {
				sk = lz // the base whose public key has a leading zero byte gets the full list (incl. pk-forged-len-31)
			}
			tag := fmt.Sprintf("#msglen=%d", l)
			c.c16Run(c16Case{Prim: "bip340-pubkey", Pert: "random" + tag, SK: c16Hex(sk)})
			run(c16Case{Prim: "bip340-sign", Pert: "random" + tag, SK: c16Hex(sk), Msg: c16Hex(msg), Rand: c16Hex(aux)})
			switch i % 6 {
			case 1:
				c.c16Run(c16Case{Prim: "bip340-sign", Pert: "rand-long-64" + tag, SK: c16Hex(sk), Msg: c16Hex(msg), Rand: c16Hex(c16Cat(aux, c16RandBytes(r, 32)))})
			case 2:
				c.c16Run(c16Case{Prim: "bip340-sign", Pert: "rand-short-31" + tag, SK: c16Hex(sk), Msg: c16Hex(msg), Rand: c16Hex(aux[:31])})
			case 3:
				c.c16Run(c16Case{Prim: "bip340-sign", Pert: "rand-empty" + tag, SK: c16Hex(sk), Msg: c16Hex(msg), Rand: ""})
			case 4:
				c.c16Run(c16Case{Prim: "bip340-sign", Pert: "rand-nil" + tag, SK: c16Hex(sk), Msg: c16Hex(msg), NilRand: true})
			case 5:
				c.c16Run(c16Case{Prim: "bip340-sign", Pert: "rand-zero" + tag, SK: c16Hex(sk), Msg: c16Hex(msg), Rand: c16Hex(make([]byte, 32))})
			}
			b, ok := c.c16BipBase(sk, msg, aux)
			if !ok {
				continue
			}
			perts := c.c16BipVerifyPerts(r, b)
			if i%fullEveryB != 0 {
				sel := []c16Case{perts[0]}
				for j := 0; j < nExtra; j++ {
					sel = append(sel, perts[1+r.Intn(len(perts)-1)])
				}
				perts = sel
			}
			for _, cs := range perts {
				cs.Pert += tag
				run(cs)
			}
		}
	}
	c.res.Note("allowed difference (not a violation of the property text): ecdsa.Signature.Verify has no public-key validation; with the identity as X it accepts (R,s) with R=(m/s).G " +
		"(cases ecdsa-verify/X-inf-equation-holds are judged by the bare equation, the reference verifier ref.ecdsa_verify rejects an infinite X)")
	c.res.Note("R = infinity is constructible only as an object (NewPoint); Verify rejects it through r = 0 (XScalar of the identity is 0), in agreement with the reference")
}

func c16Replay_(c *ctx) {
	var cs c16Case
	if err := readJSON(c.replay, &cs); err != nil {
		c.res.Note("cannot read replay: %v", err)
		return
	}
	cs.Go, cs.Ref = "", ""
	ok := c.c16Run(cs)
	fmt.Printf("replay %s [%s]: library %q reference %q agree=%v\n", cs.Prim, cs.Pert, c16Last.Go, c16Last.Ref, ok)
}
